#!/bin/bash
# tools/sweep.sh [seeds…] — unchanged-tree sweep: quick tier of every registered check for several seeds; prints only non-OK lines
cd "$(dirname "$0")/.."
./tools/setup.sh >/dev/null 2>&1 || { echo "setup failed"; exit 2; }
seeds=${@:-2 3 4 5 6}
ids=$(ls conf | grep -E '^C[0-9]+\.json$' | sed 's/\.json//')
bad=0
for s in $seeds; do
  for i in $ids; do
    out=$(VERIF_SEED=$s ./check $i --tier quick 2>&1 | grep -E '^(OK|VIOLATION)' | cut -c1-160)
    case "$out" in OK*) ;; *) echo "seed=$s $i: $out"; bad=1;; esac
  done
  echo "seed $s done"
done
exit $bad
