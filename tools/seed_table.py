#!/usr/bin/env python3
"""Rewrite the '## 10. Seeded changes' section of DESIGN.md from seeded/*/meta.json."""
import json, glob, os, re
ROOT = os.path.dirname(os.path.dirname(os.path.abspath(__file__)))
rows = []
rounds = {}
for f in sorted(glob.glob(os.path.join(ROOT, "seeded", "*", "meta.json"))):
    m = json.load(open(f))
    sid = os.path.basename(os.path.dirname(f))
    what = re.sub(r"\s+", " ", m.get("what", "")).strip()
    needs = re.sub(r"\s+", " ", m.get("needs", "")).strip()
    caught = m.get("caught_by_check")
    note = m.get("coordinator_note", "")
    res = "caught (quick tier)" if caught else "MISSED at first trial"
    if note:
        res += " — " + note
    rd = "1" if "-r" not in sid else sid.split("-r")[1]
    st = rounds.setdefault(rd, {"seeds": 0, "caught": 0, "missed": [], "reclosed": 0})
    st["seeds"] += 1
    if caught:
        st["caught"] += 1
    else:
        st["missed"].append(m.get("property", sid))
        if any(r.get("caught") for r in m.get("retrials", [])):
            st["reclosed"] += 1
    rows.append(f"| {sid} | {m.get('property', sid)} | {what[:260]} | {needs[:220]} | {res} |")
sec = """## 10. Seeded changes (independent sub-agents) and which checks catch them

Each change was written by a fresh sub-agent that saw only the property text and a scratch worktree of
/repo (nothing from /verif). Each was confirmed by `tools/confirm_seed.sh` in another scratch worktree: the
demonstration passes on the unchanged tree, the patched module builds, the existing tests of the affected
packages (and their in-repo importers) pass unedited with the patch, and the demonstration fails with it.
The check of the same property was then run against the patched worktree (`VERIF_REPO`, quick tier, seed 1).
Files: `/verif/seeded/<id>/{patch.diff, zz_seed_*_test.go, run.txt, meta.json, confirm.log}`.

Per round (each later round was told the earlier rounds' changes and asked for a different kind; a miss was
answered by describing the *input class* — never the patch — to the check's builder, who wrote an own mutation
of that class, widened the generator/model until the quick tier reported it, and the stored seed was then
re-tried, `retrials` in meta.json):

| round | seeds stored | caught at first trial | missed at first trial | of those, caught at re-trial after strengthening |
|---|---|---|---|---|
ROUNDROWS

| seed | property | change | needs, to manifest | result |
|---|---|---|---|---|
""".replace("ROUNDROWS", "\n".join(
    f"| {k} | {v['seeds']} | {v['caught']} | {len(v['missed'])} ({', '.join(sorted(v['missed'])) or '—'}) | {v['reclosed']} |"
    for k, v in sorted(rounds.items()))) + "\n".join(rows) + "\n"
p = os.path.join(ROOT, "DESIGN.md")
s = open(p).read()
if "## 10. Seeded changes" in s:
    start = s.index("## 10. Seeded changes")
    m = re.search(r"\n## (?!10\.)", s[start + 5:])
    end = start + 5 + m.start() + 1 if m else len(s)
    s = s[:start] + sec + "\n" + s[end:]
else:
    idx = s.index("## Appendix A")
    s = s[:idx] + sec + "\n" + s[idx:]
open(p, "w").write(s)
print(len(rows), "seeds")
