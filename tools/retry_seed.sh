#!/bin/bash
# tools/retry_seed.sh <CNN>… — re-run the check of a stored seeded change after the check was strengthened; records the re-trial in meta.json
cd "$(dirname "$0")/.."
for id in "$@"; do
  prop=${id%%-*}
  out=$(tools/try_seed.sh seeded/$id $prop 2>&1 | grep -E '^(OK|VIOLATION|KNOWN-FINDING)' | head -2 | tr '\n' ' ')
  python3 - "$id" "$out" <<'PY'
import json,sys,time
p=f"/verif/seeded/{sys.argv[1]}/meta.json"; m=json.load(open(p))
m.setdefault("retrials",[]).append({"when":time.strftime("%Y-%m-%d %H:%M"),"check_result":sys.argv[2][:300],"caught":"VIOLATION" in sys.argv[2]})
if "VIOLATION" in sys.argv[2] and not m.get("caught_by_check"):
    m["coordinator_note"]=(m.get("coordinator_note","")+" missed at the first trial; the generator was then strengthened (input class described to the check's builder) and the re-trial catches it").strip()
json.dump(m,open(p,"w"),indent=1)
print(sys.argv[1], sys.argv[2][:120])
PY
done
