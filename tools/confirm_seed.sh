#!/bin/bash
# tools/confirm_seed.sh <CNN> [srcdir=/tmp/seeds/CNN]
# Confirms a candidate seeded change independently in a scratch worktree of /repo:
#   demo passes on the unchanged tree; with the patch: module builds, the affected packages' existing tests pass,
#   the demo fails; then runs ./check CNN against the patched worktree. On success stores it under /verif/seeded/CNN/.
set -u
id=$1; src=${2:-/tmp/seeds/$id}; store=${3:-$id}
cd "$(dirname "$0")/.."
wt=/tmp/confirmwt-$id-$$
log=$(mktemp)
git -C /repo worktree add -q $wt HEAD || exit 2
cleanup() { git -C /repo worktree remove --force $wt 2>/dev/null; rm -rf .build/mod/$(printf %s "$wt" | sha1sum | cut -c1-8); }
trap cleanup EXIT
patch=$src/patch.diff
[ -f $src/patch_at_e9bbd1f.diff ] && ! (cd $wt && git apply --check $patch 2>/dev/null) && patch=$src/patch_at_e9bbd1f.diff
demo=$(ls $src | grep -E '^zz_seed.*_test\.go$|^main\.go$' | head -1)
run=$(cat $src/run.txt)
pkgs=$(grep -E '^\+\+\+ b/' $patch | sed 's#^+++ b/##' | xargs -n1 dirname | grep -v '/_' | sort -u)
demodir=$(echo "$run" | grep -oE '\./[A-Za-z0-9_/]+' | head -1)
[ -z "$demodir" ] && demodir=./$(echo $pkgs | awk '{print $1}')
export GOFLAGS=-mod=mod
if [ "$demo" = main.go ]; then mkdir -p $wt/zzseed && cp $src/main.go $wt/zzseed/; else cp $src/$demo $wt/$demodir/; fi
echo "## demo on unchanged tree: $run" >> $log
( cd $wt && timeout 900 bash -c "$run" ) >> $log 2>&1; r0=$?
( cd $wt && git apply $patch ) || { echo "PATCH DOES NOT APPLY"; exit 2; }
echo "## build with patch" >> $log
( cd $wt && go build ./... ) >> $log 2>&1; rb=$?
# existing tests of the changed packages and their in-repo importers (demo file moved away meanwhile)
[ "$demo" != main.go ] && mv $wt/$demodir/$demo /tmp/$demo.$$
tp=""
for p in $pkgs; do
  case $p in ssh) tp="$tp ./ssh/...";; cryptobyte*) tp="$tp ./cryptobyte/... ./ocsp/...";; internal/poly1305*) tp="$tp ./internal/... ./poly1305/... ./chacha20poly1305/... ./nacl/...";; blake2b*) tp="$tp ./blake2b/... ./argon2/...";; chacha20) tp="$tp ./chacha20/... ./chacha20poly1305/... ./ssh";; salsa20*) tp="$tp ./salsa20/... ./nacl/...";; blowfish) tp="$tp ./blowfish/... ./bcrypt/... ./ssh/internal/...";; *) tp="$tp ./$p/...";; esac
done
tp=$(echo $tp | tr ' ' '\n' | sort -u | tr '\n' ' ')
echo "## existing tests with patch: go test -count=1 $tp" >> $log
( cd $wt && timeout 1800 go test -count=1 $tp ) >> $log 2>&1; rt=$?
for try in 2 3; do   # timing-sensitive tests (ssh/test against the OpenSSH client) can flake under load: retry only the failed packages
  [ $rt -eq 0 ] && break
  failed=$(grep -E '^FAIL\s+golang.org/x/crypto/' $log | awk '{print $2}' | sed 's#golang.org/x/crypto#.#' | sort -u | tr '\n' ' ')
  [ -z "$failed" ] && break
  echo "## retry $try of: $failed" >> $log
  sed -i 's/^FAIL\(\s\+golang\)/failed-earlier\1/' $log
  ( cd $wt && timeout 1800 go test -count=1 $failed ) >> $log 2>&1; rt=$?
done
[ "$demo" != main.go ] && mv /tmp/$demo.$$ $wt/$demodir/$demo
echo "## demo with patch: $run" >> $log
( cd $wt && timeout 900 bash -c "$run" ) >> $log 2>&1; r1=$?
echo "## check against patched tree" >> $log
[ "$demo" != main.go ] && rm -f $wt/$demodir/$demo
( cd /repo && git ls-files --others --exclude-standard | grep -E '(^|/)verif_[a-z0-9_]*\.go$' | while read f; do mkdir -p "$wt/$(dirname $f)"; cp "$f" "$wt/$f"; done )
chk=$(VERIF_REPO=$wt ./check $id --tier ${TIER:-quick} 2>&1 | grep -E '^(OK|VIOLATION|KNOWN-FINDING)' | head -3)
echo "$chk" >> $log
echo "$id: demo_unchanged_exit=$r0 build=$rb existing_tests=$rt demo_patched_exit=$r1 check: $(echo $chk | cut -c1-160)"
if [ $r0 -eq 0 ] && [ $rb -eq 0 ] && [ $rt -eq 0 ] && [ $r1 -ne 0 ]; then
  mkdir -p seeded/$store
  cp $patch seeded/$store/patch.diff; cp $src/$demo seeded/$store/; cp $src/run.txt seeded/$store/
  caught=false; case "$chk" in *obligation.json*) caught=inconclusive;; *VIOLATION*) caught=true;; esac
  python3 - "$src/meta.json" "seeded/$store/meta.json" "$tp" "$run" "$caught" "$chk" <<'PY'
import json,sys
m=json.load(open(sys.argv[1]))
m["confirmed_by_coordinator"]={"demo_passes_on_unchanged_tree":True,"module_builds_with_patch":True,
  "existing_tests_pass_with_patch":"go test -count=1 "+sys.argv[3],"demo_fails_with_patch":True,"demo_cmd":sys.argv[4]}
m["check_result_on_patched_tree"]=sys.argv[6]
m["caught_by_check"]=(True if sys.argv[5]=="true" else (None if sys.argv[5]=="inconclusive" else False))
json.dump(m,open(sys.argv[2],"w"),indent=1)
PY
  cp $log seeded/$store/confirm.log
  echo "   stored in seeded/$store (caught=$caught)"
else
  echo "   NOT CONFIRMED — see $log"; cp $log /tmp/confirm-$id.log
fi
rm -f $log
