#!/bin/bash
# tools/try_seed.sh <dir-with-patch.diff> <CNN> [more check ids…]
# applies a candidate breaking change in a scratch worktree of /repo and runs the given checks against it (VERIF_REPO).
set -u
d=$(cd "$1" && pwd); shift
wt=/tmp/seedwt-$$
git -C /repo worktree add -q $wt HEAD || exit 2
# hook files that are not committed yet in /repo
( cd /repo && git ls-files --others --exclude-standard | grep -E '(^|/)verif_[a-z0-9_]*\.go$' | while read f; do mkdir -p "$wt/$(dirname $f)"; cp "$f" "$wt/$f"; done )
( cd $wt && git apply "${PATCH:-$d/patch.diff}" ) || { echo "patch does not apply"; git -C /repo worktree remove --force $wt; exit 2; }
( cd $wt && GOFLAGS=-mod=mod go build ./... ) || echo "WARNING: patched tree does not build"
cd "$(dirname "$0")/.."
for id in "$@"; do
  VERIF_REPO=$wt ./check $id --tier ${TIER:-quick} 2>&1 | grep -E '^(OK|VIOLATION|KNOWN-FINDING|#)' | head -4
done
git -C /repo worktree remove --force $wt
rm -rf .build/mod/$(printf %s "$wt" | sha1sum | cut -c1-8)
