#!/usr/bin/env python3
"""Regenerate /verif/MANIFEST.json from conf/C*.json (claimed checks) and conf/not_applicable.json."""
import json, os, re, subprocess
ROOT = os.path.dirname(os.path.dirname(os.path.abspath(__file__)))
props = [json.loads(l) for l in open(os.path.join(ROOT, "properties.jsonl"))]
na = json.load(open(os.path.join(ROOT, "conf", "not_applicable.json")))
checks, claimed = [], set()
for p in props:
    pid = p["id"]
    cf = os.path.join(ROOT, "conf", pid + ".json")
    if not os.path.exists(cf):
        continue
    c = json.load(open(cf))
    claimed.add(pid)
    checks.append({
        "property_id": pid,
        "quick_cmd": f"./check {pid} --tier quick",
        "thorough_cmd": f"./check {pid} --tier thorough",
        "evidence_file": f"/verif/evidence/{pid}.json",
        "replay_cmd_template": f"./check {pid} --replay {{path}}",
        "engine": "lean4-proof+correspondence",
        "level_claimed": {"category": "proof", "text": c.get("level_text", "full"), "design_ref": c.get("design_ref", f"DESIGN.md §5 {pid}")},
        "level_note": c.get("level_note", "; ".join(c.get("trusted_base", []))),
        "technique": c.get("technique", "Lean 4 theorems over a hand-written executable model + Go/Lean differential correspondence check"),
    })
not_applicable = []
for p in props:
    if p["id"] in claimed:
        continue
    reason = na.get(p["id"], "no check registered yet: the Lean model/theorems for this property are not built at this commit (plan in DESIGN.md §5); nothing is claimed for it")
    not_applicable.append({"property_id": p["id"], "reason": reason})
hooks_commits = []
try:
    out = subprocess.run(["git", "-C", "/repo", "log", "--format=%H %s"], capture_output=True, text=True).stdout
    hooks_commits = [l.split()[0] for l in out.splitlines() if re.match(r"\S+ verif hook", l)]
except Exception:
    pass
m = {
    "version": 1,
    "setup_cmd": "./tools/setup.sh",
    "hooks": {
        "guard": "verif",
        "enable": "go build -tags verif (and -tags verif,purego for the portable paths); hook files are add-only verif_*.go files guarded by //go:build verif",
        "baseline_off_cmd": "cd /repo && go test -vet=off -count=1 ./... && cd x509roots/fallback && go test -vet=off -count=1 ./...",
        "source_commits": hooks_commits,
        "add_only": True,
    },
    "engines": [{"name": "lean4-proof+correspondence", "path": "/verif/check", "serves_properties": sorted(claimed),
                 "kind_free_text": "Lean 4 theorems (lake project /verif/lean) about executable models; per-property compiled driver xcdrv_cNN; Go harness /verif/harness/cmd/cNN drives the real code built from /repo's working tree; ./check diffs observables, audits axioms"}],
    "checks": checks,
    "not_applicable": not_applicable,
    "notes": "See DESIGN.md. known_findings.txt lists genuine defects recorded or fixed.",
}
json.dump(m, open(os.path.join(ROOT, "MANIFEST.json"), "w"), indent=1)
print(f"MANIFEST: {len(checks)} checks, {len(not_applicable)} not_applicable")
