#!/bin/bash
# run every registered check (quick by default) — developer convenience; prints one line per property
cd "$(dirname "$0")/.."
tier=${1:-quick}
ids=$(ls conf | grep -E '^C[0-9]+\.json$' | sed 's/\.json//')
fail=0
for i in $ids; do
  out=$(./check $i --tier $tier 2>&1 | grep -E '^(OK|VIOLATION|KNOWN-FINDING)' | tr '\n' ' ')
  echo "$i: $out"
  case "$out" in *VIOLATION*) fail=1;; esac
done
exit $fail
