#!/bin/bash
# commit new/changed hook files in /repo, one small commit per property (registered properties only)
cd /repo
for f in $(git status --short | grep -E 'verif_c[0-9]+[a-z_]*\.go$' | awk '{print $2}'); do
  id=$(basename $f | sed -E 's/^verif_(c[0-9]+).*/\1/' | tr a-z A-Z)
  [ -f /verif/conf/$id.json ] || continue
  echo $id $f
done | sort | awk '{a[$1]=a[$1]" "$2} END{for(k in a) print k a[k]}' | while read id files; do
  git add $files
  if git log --format=%s | grep -q "verif hook: .* property $id\$"; then msg="verif hook: update $(echo $files | tr ' ' ',') for property $id"; else msg="verif hook: $(echo $files | tr ' ' ',') (build tag verif) for property $id"; fi
  git commit -qm "$msg" && echo "committed: $msg"
done
