#!/bin/bash
# MANIFEST.setup_cmd: build the Lean project (all models, proofs, per-property drivers) and the Go harnesses, offline.
set -e
cd "$(dirname "$0")/.."
export GOFLAGS=-mod=mod GOPROXY=off GOSUMDB=off GOTOOLCHAIN=local CGO_ENABLED=0
ids=$(ls conf | grep -E '^C[0-9]+\.json$' | sed 's/\.json//')
exes=""
for i in $ids; do exes="$exes xcdrv_$(echo $i | tr A-Z a-z)"; done
(cd lean && lake build XC $exes)
cp /repo/go.sum harness/go.sum
mkdir -p .build/bin
GO=$(command -v go1.26 || command -v go)
(cd harness && $GO build -tags verif ./... )
echo "setup ok: $(echo $ids | wc -w) properties"
