#!/bin/bash
# MANIFEST.setup_cmd: build, offline, the Lean modules (models, proofs, per-property drivers) and the Go
# harnesses of every registered property (conf/CNN.json). Work-in-progress files of unregistered
# properties are not built.
set -e
cd "$(dirname "$0")/.."
export GOFLAGS=-mod=mod GOPROXY=off GOSUMDB=off GOTOOLCHAIN=local CGO_ENABLED=0
ids=$(ls conf | grep -E '^C[0-9]+\.json$' | sed 's/\.json//')
targets=""
for i in $ids; do
  low=$(echo $i | tr A-Z a-z)
  mods=$(python3 -c "import json;print(' '.join(json.load(open('conf/$i.json'))['lean_modules']))")
  targets="$targets $mods xcdrv_$low"
done
(cd lean && lake build $targets)
cp /repo/go.sum harness/go.sum
mkdir -p .build/bin
GO=$(command -v go1.26 || command -v go)
for i in $ids; do
  low=$(echo $i | tr A-Z a-z)
  for tags in $(python3 -c "import json;print(' '.join(v['tags'] for v in json.load(open('conf/$i.json')).get('variants',[{'tags':'verif'}])))"); do
    (cd harness && $GO build -tags "$tags" -o /dev/null ./cmd/$low)
  done
done
echo "setup ok: $(echo $ids | wc -w) properties"
