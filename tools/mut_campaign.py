#!/usr/bin/env python3
"""Systematic syntactic-mutation campaign for one property (self red-team; DESIGN.md §10b).

  tools/mut_campaign.py CNN [--k 24] [--seed 1] [--files a.go,b.go] [--funcs RE] [--slot N]

For K sampled mutants of the property's anchored Go files (properties.jsonl anchors.files, non-test,
non-assembly), in a private scratch worktree of /repo (removed at the end):
  1. apply the mutant; `go build` the package (non-compiling mutants are dropped);
  2. run `VERIF_REPO=<worktree> ./check CNN --tier quick`; VIOLATION -> caught;
  3. otherwise run the package's existing tests: fail -> killed-by-tests (not a realistic change in the
     brief's sense), pass -> SURVIVOR (either the property still holds under the mutant, or a gap).
Results: /verif/mutation/CNN.json (survivors listed with file:line, operator and source line for triage).
This is not a registered check and nothing registered depends on it.
"""
import argparse, json, os, random, re, subprocess, sys, shutil, time

ROOT = os.path.dirname(os.path.dirname(os.path.abspath(__file__)))
GO = "go1.26"
ENV = dict(os.environ, GOFLAGS="-mod=mod", GOPROXY="off", GOSUMDB="off", GOTOOLCHAIN="local")


def sh(cmd, cwd=None, env=None, timeout=None):
    try:
        p = subprocess.run(cmd, cwd=cwd, env=env or ENV, stdout=subprocess.PIPE, stderr=subprocess.STDOUT,
                           timeout=timeout, text=True, errors="replace")
        return p.returncode, p.stdout
    except subprocess.TimeoutExpired as e:
        return 124, (e.stdout or "") if isinstance(e.stdout, str) else "timeout"


def main():
    ap = argparse.ArgumentParser()
    ap.add_argument("pid")
    ap.add_argument("--k", type=int, default=24)
    ap.add_argument("--seed", type=int, default=1)
    ap.add_argument("--files", default="")
    ap.add_argument("--funcs", default="")
    ap.add_argument("--slot", default="0")
    a = ap.parse_args()
    pid = a.pid
    prop = None
    for l in open(os.path.join(ROOT, "properties.jsonl")):
        p = json.loads(l)
        if p["id"] == pid:
            prop = p
    files = [f for f in (a.files.split(",") if a.files else prop["anchors"]["files"])
             if f.endswith(".go") and not f.endswith("_test.go") and "_asm" not in f and os.path.exists("/repo/" + f)]
    mut = os.path.join(ROOT, ".build", "bin", "mutate")
    rc, out = sh([GO, "build", "-o", mut, "./cmd/mutate"], cwd=os.path.join(ROOT, "harness"))
    if rc:
        print(out); sys.exit(2)
    wt = f"/tmp/mutc-{pid}-{a.slot}"
    sh(["git", "-C", "/repo", "worktree", "remove", "--force", wt])
    shutil.rmtree(wt, ignore_errors=True)
    rc, out = sh(["git", "-C", "/repo", "worktree", "add", "-q", "--detach", wt, "HEAD"])
    if rc:
        print(out); sys.exit(2)
    # uncommitted hook files
    rc, out = sh(["git", "-C", "/repo", "status", "--short"])
    for l in out.splitlines():
        f = l[3:].strip()
        if re.search(r"verif_\w+\.go$", f) and os.path.exists("/repo/" + f):
            shutil.copy("/repo/" + f, os.path.join(wt, f))
    allm = []
    for f in files:
        cmd = [mut, "-file", os.path.join(wt, f), "-list"] + (["-funcs", a.funcs] if a.funcs else [])
        rc, out = sh(cmd)
        for l in out.splitlines():
            idx, op, line, fn, desc = l.split("\t")
            allm.append(dict(file=f, idx=int(idx), op=op, line=int(line), fn=fn, desc=desc))
    rnd = random.Random(a.seed * 1000003 + int(pid[1:]))
    # stratify by operator so that literal tweaks do not crowd out the rest
    byop = {}
    for m in allm:
        byop.setdefault(m["op"], []).append(m)
    for v in byop.values():
        rnd.shuffle(v)
    pick = []
    ops = sorted(byop)
    while len(pick) < a.k and any(byop[o] for o in ops):
        for o in ops:
            if byop[o] and len(pick) < a.k:
                pick.append(byop[o].pop())
    res = dict(property=pid, files=files, funcs=a.funcs, seed=a.seed, mutants_available=len(allm), results=[])
    cnt = {}
    for m in pick:
        src = os.path.join(wt, m["file"])
        orig = open(src).read()
        cmd = [mut, "-file", src, "-apply", str(m["idx"]), "-out", src + ".mut"] + (["-funcs", a.funcs] if a.funcs else [])
        sh(cmd)
        os.replace(src + ".mut", src)
        m["src"] = orig.splitlines()[m["line"] - 1].strip()[:160]
        pkg = "./" + os.path.dirname(m["file"])
        t0 = time.time()
        rc, out = sh([GO, "build", "-tags", "verif", pkg], cwd=wt, env=dict(ENV, GOFLAGS="-mod=mod"))
        if rc == 0:
            rc, out = sh([GO, "vet", "-tags", "verif", pkg], cwd=wt)
            rc = 0  # vet is advisory only
            rc2, out2 = sh([os.path.join(ROOT, "check"), pid, "--tier", "quick"], cwd=ROOT,
                           env=dict(ENV, VERIF_REPO=wt), timeout=600)
            if "VIOLATION" in out2:
                m["outcome"] = "obligation" if "obligation.json" in out2 and "replays/%s/1-0" % pid not in out2 else "caught"
            elif rc2 == 0:
                top = "./" + m["file"].split("/")[0] + "/..."
                rc3, out3 = sh([GO, "test", "-count=1", pkg], cwd=wt, timeout=900)
                if rc3 == 0 and top != pkg + "/...":
                    rc3, out3 = sh([GO, "test", "-count=1", top], cwd=wt, timeout=1500)
                if rc3 != 0:  # flaky integration tests: one retry
                    rc3, out3 = sh([GO, "test", "-count=1", top], cwd=wt, timeout=1500)
                m["outcome"] = "survived" if rc3 == 0 else "killed-by-tests"
            else:
                m["outcome"] = "check-error"
                m["detail"] = out2[-400:]
        else:
            m["outcome"] = "noncompile"
        m["secs"] = round(time.time() - t0, 1)
        open(src, "w").write(orig)
        cnt[m["outcome"]] = cnt.get(m["outcome"], 0) + 1
        res["results"].append(m)
        print(f"{pid} {m['file']}:{m['line']} {m['fn']} [{m['op']}: {m['desc']}] -> {m['outcome']} ({m['secs']}s)", flush=True)
    res["counts"] = cnt
    sh(["git", "-C", "/repo", "worktree", "remove", "--force", wt])
    shutil.rmtree(wt, ignore_errors=True)
    tag = hashlib_tag(wt)
    shutil.rmtree(os.path.join(ROOT, ".build", "mod", tag), ignore_errors=True)
    for f in os.listdir(os.path.join(ROOT, ".build", "bin")):
        if f.endswith("-" + tag):
            os.remove(os.path.join(ROOT, ".build", "bin", f))
    os.makedirs(os.path.join(ROOT, "mutation"), exist_ok=True)
    outp = os.path.join(ROOT, "mutation", f"{pid}.json")
    prev = json.load(open(outp)) if os.path.exists(outp) else {"runs": []}
    prev["runs"].append(res)
    json.dump(prev, open(outp, "w"), indent=1)
    print(f"{pid} SUMMARY {cnt}")


def hashlib_tag(p):
    import hashlib
    return hashlib.sha1(p.encode()).hexdigest()[:8]


if __name__ == "__main__":
    main()
