#!/bin/bash
# check_prim.sh [seed] [n] — differential validation of the Lean hash stand-ins (lean/XC/Prim, exe xcdrv_prim)
# against the Go standard library (harness/cmd/prim). Exit 0 iff every observable agrees.
set -euo pipefail
ROOT="$(cd "$(dirname "$0")/.." && pwd)"
SEED="${1:-1}"
N="${2:-3000}"
OUT="$ROOT/.build/prim"
mkdir -p "$OUT"
GO="$(command -v go1.26 || command -v go)"
export GOFLAGS=-mod=mod GOPROXY=off GOSUMDB=off GOTOOLCHAIN=local

(cd "$ROOT/lean" && lake build XC.Prim.Sha1 XC.Prim.Sha256 XC.Prim.Sha512 XC.Prim.Md5 XC.Prim.Hmac XC.Prim.Lemmas xcdrv_prim) >"$OUT/lake.log" 2>&1 \
  || { cat "$OUT/lake.log"; echo "check_prim: lake build failed"; exit 2; }
(cd "$ROOT/harness" && "$GO" build -o "$OUT/prim" ./cmd/prim) || { echo "check_prim: go build failed"; exit 2; }

"$OUT/prim" gen -seed "$SEED" -n "$N" | grep -v '^#' >"$OUT/ops"
# published vectors (FIPS 180 "abc"/empty, RFC 2202, RFC 4231) always run too; expected values are checked by agreement with Go
cat >>"$OUT/ops" <<'VEC'
h alg=md5 m=-
h alg=sha1 m=-
h alg=sha224 m=-
h alg=sha256 m=-
h alg=sha384 m=-
h alg=sha512 m=-
h alg=sha512_256 m=-
h alg=sha512_224 m=-
h alg=md5 m=616263
h alg=sha1 m=616263
h alg=sha224 m=616263
h alg=sha256 m=616263
h alg=sha384 m=616263
h alg=sha512 m=616263
h alg=sha512_256 m=616263
h alg=sha512_224 m=616263
hrep alg=sha1 b=97 n=1000000
hrep alg=sha256 b=97 n=1000000
hrep alg=sha512 b=97 n=1000000
hmac alg=md5 k=0b0b0b0b0b0b0b0b0b0b0b0b0b0b0b0b m=4869205468657265
hmac alg=sha1 k=0b0b0b0b0b0b0b0b0b0b0b0b0b0b0b0b0b0b0b0b m=4869205468657265
hmac alg=sha256 k=0b0b0b0b0b0b0b0b0b0b0b0b0b0b0b0b0b0b0b0b m=4869205468657265
hmac alg=sha512 k=0b0b0b0b0b0b0b0b0b0b0b0b0b0b0b0b0b0b0b0b m=4869205468657265
hmac alg=sha256 k=4a656665 m=7768617420646f2079612077616e7420666f72206e6f7468696e673f
hmac alg=sha1 k=4a656665 m=7768617420646f2079612077616e7420666f72206e6f7468696e673f
VEC
"$OUT/prim" exec <"$OUT/ops" >"$OUT/go.out"
"$ROOT/lean/.lake/build/bin/xcdrv_prim" <"$OUT/ops" >"$OUT/lean.out"

# absolute anchors, so that a common-mode error cannot hide: FIPS 180-4 / RFC 4231 values
anchor() { # op expected
  got="$(echo "$1" | "$ROOT/lean/.lake/build/bin/xcdrv_prim")"
  [ "$got" = "$2" ] || { echo "check_prim: anchor mismatch: $1 -> $got (want $2)"; exit 1; }
}
anchor "h alg=sha256 m=616263" ba7816bf8f01cfea414140de5dae2223b00361a396177a9cb410ff61f20015ad
anchor "h alg=sha1 m=616263" a9993e364706816aba3e25717850c26c9cd0d89d
anchor "h alg=md5 m=616263" 900150983cd24fb0d6963f7d28e17f72
anchor "h alg=sha512 m=-" cf83e1357eefb8bdf1542850d66d8007d620e4050b5715dc83f4a921d36ce9ce47d0d13c5d85f2b0ff8318d2877eec2f63b931bd47417a81a538327af927da3e
anchor "hmac alg=sha256 k=0b0b0b0b0b0b0b0b0b0b0b0b0b0b0b0b0b0b0b0b m=4869205468657265" b0344c61d8db38535ca8afceaf0bf12b881dc200c9833da726e9376c2e32cff7
anchor "hmac alg=sha1 k=4a656665 m=7768617420646f2079612077616e7420666f72206e6f7468696e673f" effcdf6ae5eb2fa2d27416d5f184df9c259a7c79

total=$(wc -l <"$OUT/ops")
if cmp -s "$OUT/go.out" "$OUT/lean.out"; then
  if grep -q 'bad-op\|panic' "$OUT/go.out"; then echo "check_prim: bad-op/panic in outputs"; exit 1; fi
  echo "check_prim: OK ($total ops, seed $SEED)"
  exit 0
fi
echo "check_prim: MISMATCH (seed $SEED) — first differing ops:"
paste -d'\n' "$OUT/ops" "$OUT/go.out" "$OUT/lean.out" | awk 'NR%3==1{op=$0} NR%3==2{g=$0} NR%3==0{ if (g!=$0 && c<5) {print "  op:   " substr(op,1,200); print "  go:   " g; print "  lean: " $0; c++} }'
exit 1
