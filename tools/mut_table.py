#!/usr/bin/env python3
"""Rewrite the '## 11. Systematic mutation campaign' section of DESIGN.md from mutation/*.json (+ *.triage.md)."""
import json, os, re, glob
ROOT = os.path.dirname(os.path.dirname(os.path.abspath(__file__)))
rows = []
tot = {}
for f in sorted(glob.glob(os.path.join(ROOT, "mutation", "C*.json"))):
    pid = os.path.basename(f)[:-5]
    d = json.load(open(f))
    cnt = {}
    for r in d["runs"]:
        for m in r["results"]:
            cnt[m["outcome"]] = cnt.get(m["outcome"], 0) + 1
    for k, v in cnt.items():
        tot[k] = tot.get(k, 0) + v
    tri = {}
    tp = os.path.join(ROOT, "mutation", pid + ".triage.md")
    if os.path.exists(tp):
        for line in open(tp):
            for verdict in ("EQUIVALENT", "IRRELEVANT", "GAP"):
                if re.search(r"\b" + verdict, line):
                    tri[verdict] = tri.get(verdict, 0) + 1
                    break
    tritxt = ", ".join(f"{k} {v}" for k, v in sorted(tri.items())) if tri else ("—" if not cnt.get("survived") else "not triaged")
    rows.append(f"| {pid} | {sum(cnt.values())} | {cnt.get('caught',0)} | {cnt.get('obligation',0)} | {cnt.get('killed-by-tests',0)} | {cnt.get('noncompile',0)} | {cnt.get('survived',0)} | {cnt.get('check-error',0)} | {tritxt} |")
sec = """## 11. Systematic mutation campaign (self red-team; complements the blind seeded changes of §10)

`tools/mut_campaign.py CNN` samples one-token syntactic mutants (comparison/arithmetic/logical operator swapped,
integer literal ±1, if-condition forced true / false, `!` removed, assignment / call / inc-dec statement
deleted; mutator `harness/cmd/mutate`, go/ast, stratified by operator) of the non-test, non-assembly Go files
each property is anchored in (`properties.jsonl` `anchors.files`), applies each in a private scratch worktree
of /repo, and runs the property's quick tier against it (`VERIF_REPO`). A mutant the check does not report is
then run through the package's existing tests: failing them makes it "killed by tests" (not a realistic
change in the brief's sense); passing them makes it a SURVIVOR, which the property's builder triages by
reading the mutated code against the statement: EQUIVALENT (no behaviour change on this build), IRRELEVANT
(behaviour changes, statement still holds — typically another feature of the same file) or GAP (statement
violated for some input: generator/model extended until the quick tier reports it; written as "GAP-closed").
Unlike §10 the builders see these diffs, so this measures generator blind spots, not independence.
Raw results `mutation/CNN.json`, verdicts `mutation/CNN.triage.md`. "obligation" = the mutant broke a proof-side
or build obligation (VIOLATION … no-failing-input-found); "check-error" = the check neither passed nor printed a
VIOLATION (a hang in unguarded code; since fixed in `hx`: default per-op timeout → `hang` outcome).

| property | mutants | caught | obligation | killed by tests | non-compiling | survived | check-error | triage of survivors |
|---|---|---|---|---|---|---|---|---|
""" + "\n".join(rows) + f"\n\nTotals: {tot}\n"
p = os.path.join(ROOT, "DESIGN.md")
s = open(p).read()
if "## 11. Systematic mutation campaign" in s:
    start = s.index("## 11. Systematic mutation campaign")
    m = re.search(r"\n## (?!11\.)", s[start + 5:])
    end = start + 5 + m.start() + 1 if m else len(s)
    s = s[:start] + sec + "\n" + s[end:]
else:
    idx = s.index("## Appendix A")
    s = s[:idx] + sec + "\n" + s[idx:]
open(p, "w").write(s)
print(len(rows), "properties", tot)
