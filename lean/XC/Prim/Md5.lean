/-
  XC.Prim.Md5 — MD5 (RFC 1321) as a total executable function, core Lean only.
  Stand-in for Go's crypto/md5; validated against the Go stdlib by tools/check_prim.sh.
-/
import XC.Prim.Sha1
namespace XC.Prim
open XC

def KMd5 : Array UInt32 := #[
  0xd76aa478, 0xe8c7b756, 0x242070db, 0xc1bdceee, 0xf57c0faf, 0x4787c62a, 0xa8304613, 0xfd469501,
  0x698098d8, 0x8b44f7af, 0xffff5bb1, 0x895cd7be, 0x6b901122, 0xfd987193, 0xa679438e, 0x49b40821,
  0xf61e2562, 0xc040b340, 0x265e5a51, 0xe9b6c7aa, 0xd62f105d, 0x02441453, 0xd8a1e681, 0xe7d3fbc8,
  0x21e1cde6, 0xc33707d6, 0xf4d50d87, 0x455a14ed, 0xa9e3e905, 0xfcefa3f8, 0x676f02d9, 0x8d2a4c8a,
  0xfffa3942, 0x8771f681, 0x6d9d6122, 0xfde5380c, 0xa4beea44, 0x4bdecfa9, 0xf6bb4b60, 0xbebfbc70,
  0x289b7ec6, 0xeaa127fa, 0xd4ef3085, 0x04881d05, 0xd9d4d039, 0xe6db99e5, 0x1fa27cf8, 0xc4ac5665,
  0xf4292244, 0x432aff97, 0xab9423a7, 0xfc93a039, 0x655b59c3, 0x8f0ccc92, 0xffeff47d, 0x85845dd1,
  0x6fa87e4f, 0xfe2ce6e0, 0xa3014314, 0x4e0811a1, 0xf7537e82, 0xbd3af235, 0x2ad7d2bb, 0xeb86d391]

/-- per-round left-rotation amounts -/
def SMd5 : Array UInt32 := #[
  7, 12, 17, 22, 7, 12, 17, 22, 7, 12, 17, 22, 7, 12, 17, 22,
  5,  9, 14, 20, 5,  9, 14, 20, 5,  9, 14, 20, 5,  9, 14, 20,
  4, 11, 16, 23, 4, 11, 16, 23, 4, 11, 16, 23, 4, 11, 16, 23,
  6, 10, 15, 21, 6, 10, 15, 21, 6, 10, 15, 21, 6, 10, 15, 21]

structure SMd where
  a : UInt32
  b : UInt32
  c : UInt32
  d : UInt32

def md5Pad (m : Bytes) : Bytes := mdPad 64 8 false m

/-- little-endian 32-bit words of a byte string (a trailing partial word is dropped) -/
def wordsLE32 : Bytes → Array UInt32 → Array UInt32
  | a :: b :: c :: d :: r, acc =>
    wordsLE32 r (acc.push (a.toUInt32 ||| (b.toUInt32 <<< 8) ||| (c.toUInt32 <<< 16) ||| (d.toUInt32 <<< 24)))
  | _, acc => acc

/-- step `t` (0..63) on the block whose first word is `ws[off]` -/
def md5Round (ws : Array UInt32) (off : Nat) (t : Nat) (s : SMd) : SMd :=
  let fg : UInt32 × Nat :=
    if t < 16 then ((s.b &&& s.c) ||| (~~~s.b &&& s.d), t)
    else if t < 32 then ((s.d &&& s.b) ||| (~~~s.d &&& s.c), (5 * t + 1) % 16)
    else if t < 48 then (s.b ^^^ s.c ^^^ s.d, (3 * t + 5) % 16)
    else (s.c ^^^ (s.b ||| ~~~s.d), (7 * t) % 16)
  let x := fg.1 + s.a + KMd5.getD t 0 + ws.getD (off + fg.2) 0
  ⟨s.d, s.b + rotl32 x (SMd5.getD t 0), s.b, s.c⟩

def md5Block (ws : Array UInt32) (i : Nat) (s : SMd) : SMd :=
  let r := iter (md5Round ws (16 * i)) 64 0 s
  ⟨s.a + r.a, s.b + r.b, s.c + r.c, s.d + r.d⟩

def md5Init : SMd := ⟨0x67452301, 0xefcdab89, 0x98badcfe, 0x10325476⟩

def md5State (m : Bytes) : SMd :=
  let ws := wordsLE32 (md5Pad m) #[]
  iter (md5Block ws) (ws.size / 16) 0 md5Init

def md5 (m : Bytes) : Bytes :=
  let s := md5State m
  u32le s.a ++ u32le s.b ++ u32le s.c ++ u32le s.d

def algMd5 : HashAlg := ⟨"md5", 64, 16, md5⟩

end XC.Prim
