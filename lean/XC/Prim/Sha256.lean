/-
  XC.Prim.Sha256 — SHA-256 and SHA-224 (FIPS 180-4 §6.2, §6.3), total executable functions, core Lean only.
  Stand-in for Go's crypto/sha256; validated against the Go stdlib by tools/check_prim.sh.
-/
import XC.Prim.Sha1
namespace XC.Prim
open XC

def K256 : Array UInt32 := #[
  0x428a2f98, 0x71374491, 0xb5c0fbcf, 0xe9b5dba5, 0x3956c25b, 0x59f111f1, 0x923f82a4, 0xab1c5ed5,
  0xd807aa98, 0x12835b01, 0x243185be, 0x550c7dc3, 0x72be5d74, 0x80deb1fe, 0x9bdc06a7, 0xc19bf174,
  0xe49b69c1, 0xefbe4786, 0x0fc19dc6, 0x240ca1cc, 0x2de92c6f, 0x4a7484aa, 0x5cb0a9dc, 0x76f988da,
  0x983e5152, 0xa831c66d, 0xb00327c8, 0xbf597fc7, 0xc6e00bf3, 0xd5a79147, 0x06ca6351, 0x14292967,
  0x27b70a85, 0x2e1b2138, 0x4d2c6dfc, 0x53380d13, 0x650a7354, 0x766a0abb, 0x81c2c92e, 0x92722c85,
  0xa2bfe8a1, 0xa81a664b, 0xc24b8b70, 0xc76c51a3, 0xd192e819, 0xd6990624, 0xf40e3585, 0x106aa070,
  0x19a4c116, 0x1e376c08, 0x2748774c, 0x34b0bcb5, 0x391c0cb3, 0x4ed8aa4a, 0x5b9cca4f, 0x682e6ff3,
  0x748f82ee, 0x78a5636f, 0x84c87814, 0x8cc70208, 0x90befffa, 0xa4506ceb, 0xbef9a3f7, 0xc67178f2]

structure S256 where
  a : UInt32
  b : UInt32
  c : UInt32
  d : UInt32
  e : UInt32
  f : UInt32
  g : UInt32
  h : UInt32

def sha256Pad (m : Bytes) : Bytes := mdPad 64 8 true m

@[inline] def bsig0_256 (x : UInt32) : UInt32 := rotr32 x 2 ^^^ rotr32 x 13 ^^^ rotr32 x 22
@[inline] def bsig1_256 (x : UInt32) : UInt32 := rotr32 x 6 ^^^ rotr32 x 11 ^^^ rotr32 x 25
@[inline] def ssig0_256 (x : UInt32) : UInt32 := rotr32 x 7 ^^^ rotr32 x 18 ^^^ (x >>> 3)
@[inline] def ssig1_256 (x : UInt32) : UInt32 := rotr32 x 17 ^^^ rotr32 x 19 ^^^ (x >>> 10)

/-- 64-word message schedule of the block starting at word `off` -/
def sha256Sched (ws : Array UInt32) (off : Nat) : Array UInt32 :=
  iter (fun t w =>
      w.push (ssig1_256 (w.getD (t-2) 0) + w.getD (t-7) 0 + ssig0_256 (w.getD (t-15) 0) + w.getD (t-16) 0))
    48 16 (ws.extract off (off + 16))

def sha256Round (w : Array UInt32) (t : Nat) (s : S256) : S256 :=
  let t1 := s.h + bsig1_256 s.e + ((s.e &&& s.f) ^^^ (~~~s.e &&& s.g)) + K256.getD t 0 + w.getD t 0
  let t2 := bsig0_256 s.a + ((s.a &&& s.b) ^^^ (s.a &&& s.c) ^^^ (s.b &&& s.c))
  ⟨t1 + t2, s.a, s.b, s.c, s.d + t1, s.e, s.f, s.g⟩

def sha256Block (ws : Array UInt32) (i : Nat) (s : S256) : S256 :=
  let w := sha256Sched ws (16 * i)
  let r := iter (sha256Round w) 64 0 s
  ⟨s.a + r.a, s.b + r.b, s.c + r.c, s.d + r.d, s.e + r.e, s.f + r.f, s.g + r.g, s.h + r.h⟩

def sha256Init : S256 :=
  ⟨0x6a09e667, 0xbb67ae85, 0x3c6ef372, 0xa54ff53a, 0x510e527f, 0x9b05688c, 0x1f83d9ab, 0x5be0cd19⟩
def sha224Init : S256 :=
  ⟨0xc1059ed8, 0x367cd507, 0x3070dd17, 0xf70e5939, 0xffc00b31, 0x68581511, 0x64f98fa7, 0xbefa4fa4⟩

def sha256State (iv : S256) (m : Bytes) : S256 :=
  let ws := wordsBE32 (sha256Pad m) #[]
  iter (sha256Block ws) (ws.size / 16) 0 iv

def sha256 (m : Bytes) : Bytes :=
  let s := sha256State sha256Init m
  u32be s.a ++ u32be s.b ++ u32be s.c ++ u32be s.d ++ u32be s.e ++ u32be s.f ++ u32be s.g ++ u32be s.h

def sha224 (m : Bytes) : Bytes :=
  let s := sha256State sha224Init m
  u32be s.a ++ u32be s.b ++ u32be s.c ++ u32be s.d ++ u32be s.e ++ u32be s.f ++ u32be s.g

def algSha256 : HashAlg := ⟨"sha256", 64, 32, sha256⟩
def algSha224 : HashAlg := ⟨"sha224", 64, 28, sha224⟩

end XC.Prim
