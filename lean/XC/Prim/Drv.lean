/-
  XC.Prim.Drv — validation driver for the XC.Prim hash stand-ins (exe `xcdrv_prim`).
  Ops:  `h alg=<name> m=<hex>`  →  hex digest
        `hmac alg=<name> k=<hex> m=<hex>`  →  hex tag
        `hrep alg=<name> b=<byte 0..255> n=<count>`  →  hex digest of `n` copies of byte `b` (long vectors / throughput)
-/
import XC.Prim.Hmac
namespace XC.Prim
open XC

def handle (line : String) : String :=
  let o := parseOp line
  if o.cmd == "hrep" then
    match algByName (o.str "alg"), o.nat? "b", o.nat? "n" with
    | some a, some b, some n => toHex (a.hash (List.replicate n (UInt8.ofNat b)))
    | _, _, _ => "bad-op"
  else
  match algByName (o.str "alg"), o.hex? "m" with
  | some a, some m =>
    if o.cmd == "h" then toHex (a.hash m)
    else if o.cmd == "hmac" then
      match o.hex? "k" with
      | some k => toHex (hmac a k m)
      | none => "bad-op"
    else "bad-op"
  | _, _ => "bad-op"

end XC.Prim
