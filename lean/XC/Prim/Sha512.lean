/-
  XC.Prim.Sha512 — SHA-512, SHA-384, SHA-512/256, SHA-512/224 (FIPS 180-4 §6.4–§6.7),
  total executable functions, core Lean only.
  Stand-in for Go's crypto/sha512; validated against the Go stdlib by tools/check_prim.sh.
-/
import XC.Prim.Sha1
namespace XC.Prim
open XC

def K512 : Array UInt64 := #[
  0x428a2f98d728ae22, 0x7137449123ef65cd, 0xb5c0fbcfec4d3b2f, 0xe9b5dba58189dbbc,
  0x3956c25bf348b538, 0x59f111f1b605d019, 0x923f82a4af194f9b, 0xab1c5ed5da6d8118,
  0xd807aa98a3030242, 0x12835b0145706fbe, 0x243185be4ee4b28c, 0x550c7dc3d5ffb4e2,
  0x72be5d74f27b896f, 0x80deb1fe3b1696b1, 0x9bdc06a725c71235, 0xc19bf174cf692694,
  0xe49b69c19ef14ad2, 0xefbe4786384f25e3, 0x0fc19dc68b8cd5b5, 0x240ca1cc77ac9c65,
  0x2de92c6f592b0275, 0x4a7484aa6ea6e483, 0x5cb0a9dcbd41fbd4, 0x76f988da831153b5,
  0x983e5152ee66dfab, 0xa831c66d2db43210, 0xb00327c898fb213f, 0xbf597fc7beef0ee4,
  0xc6e00bf33da88fc2, 0xd5a79147930aa725, 0x06ca6351e003826f, 0x142929670a0e6e70,
  0x27b70a8546d22ffc, 0x2e1b21385c26c926, 0x4d2c6dfc5ac42aed, 0x53380d139d95b3df,
  0x650a73548baf63de, 0x766a0abb3c77b2a8, 0x81c2c92e47edaee6, 0x92722c851482353b,
  0xa2bfe8a14cf10364, 0xa81a664bbc423001, 0xc24b8b70d0f89791, 0xc76c51a30654be30,
  0xd192e819d6ef5218, 0xd69906245565a910, 0xf40e35855771202a, 0x106aa07032bbd1b8,
  0x19a4c116b8d2d0c8, 0x1e376c085141ab53, 0x2748774cdf8eeb99, 0x34b0bcb5e19b48a8,
  0x391c0cb3c5c95a63, 0x4ed8aa4ae3418acb, 0x5b9cca4f7763e373, 0x682e6ff3d6b2b8a3,
  0x748f82ee5defb2fc, 0x78a5636f43172f60, 0x84c87814a1f0ab72, 0x8cc702081a6439ec,
  0x90befffa23631e28, 0xa4506cebde82bde9, 0xbef9a3f7b2c67915, 0xc67178f2e372532b,
  0xca273eceea26619c, 0xd186b8c721c0c207, 0xeada7dd6cde0eb1e, 0xf57d4f7fee6ed178,
  0x06f067aa72176fba, 0x0a637dc5a2c898a6, 0x113f9804bef90dae, 0x1b710b35131c471b,
  0x28db77f523047d84, 0x32caab7b40c72493, 0x3c9ebe0a15c9bebc, 0x431d67c49c100d4c,
  0x4cc5d4becb3e42b6, 0x597f299cfc657e2a, 0x5fcb6fab3ad6faec, 0x6c44198c4a475817]

structure S512 where
  a : UInt64
  b : UInt64
  c : UInt64
  d : UInt64
  e : UInt64
  f : UInt64
  g : UInt64
  h : UInt64

def sha512Pad (m : Bytes) : Bytes := mdPad 128 16 true m

/-- big-endian 64-bit words of a byte string (a trailing partial word is dropped) -/
def wordsBE64 : Bytes → Array UInt64 → Array UInt64
  | a :: b :: c :: d :: e :: f :: g :: h :: r, acc =>
    wordsBE64 r (acc.push ((a.toUInt64 <<< 56) ||| (b.toUInt64 <<< 48) ||| (c.toUInt64 <<< 40) ||| (d.toUInt64 <<< 32)
      ||| (e.toUInt64 <<< 24) ||| (f.toUInt64 <<< 16) ||| (g.toUInt64 <<< 8) ||| h.toUInt64))
  | _, acc => acc

@[inline] def rotr64 (x : UInt64) (n : UInt64) : UInt64 := (x >>> n) ||| (x <<< (64 - n))

@[inline] def bsig0_512 (x : UInt64) : UInt64 := rotr64 x 28 ^^^ rotr64 x 34 ^^^ rotr64 x 39
@[inline] def bsig1_512 (x : UInt64) : UInt64 := rotr64 x 14 ^^^ rotr64 x 18 ^^^ rotr64 x 41
@[inline] def ssig0_512 (x : UInt64) : UInt64 := rotr64 x 1 ^^^ rotr64 x 8 ^^^ (x >>> 7)
@[inline] def ssig1_512 (x : UInt64) : UInt64 := rotr64 x 19 ^^^ rotr64 x 61 ^^^ (x >>> 6)

/-- 80-word message schedule of the block starting at word `off` -/
def sha512Sched (ws : Array UInt64) (off : Nat) : Array UInt64 :=
  iter (fun t w =>
      w.push (ssig1_512 (w.getD (t-2) 0) + w.getD (t-7) 0 + ssig0_512 (w.getD (t-15) 0) + w.getD (t-16) 0))
    64 16 (ws.extract off (off + 16))

def sha512Round (w : Array UInt64) (t : Nat) (s : S512) : S512 :=
  let t1 := s.h + bsig1_512 s.e + ((s.e &&& s.f) ^^^ (~~~s.e &&& s.g)) + K512.getD t 0 + w.getD t 0
  let t2 := bsig0_512 s.a + ((s.a &&& s.b) ^^^ (s.a &&& s.c) ^^^ (s.b &&& s.c))
  ⟨t1 + t2, s.a, s.b, s.c, s.d + t1, s.e, s.f, s.g⟩

def sha512Block (ws : Array UInt64) (i : Nat) (s : S512) : S512 :=
  let w := sha512Sched ws (16 * i)
  let r := iter (sha512Round w) 80 0 s
  ⟨s.a + r.a, s.b + r.b, s.c + r.c, s.d + r.d, s.e + r.e, s.f + r.f, s.g + r.g, s.h + r.h⟩

def sha512Init : S512 :=
  ⟨0x6a09e667f3bcc908, 0xbb67ae8584caa73b, 0x3c6ef372fe94f82b, 0xa54ff53a5f1d36f1,
   0x510e527fade682d1, 0x9b05688c2b3e6c1f, 0x1f83d9abfb41bd6b, 0x5be0cd19137e2179⟩
def sha384Init : S512 :=
  ⟨0xcbbb9d5dc1059ed8, 0x629a292a367cd507, 0x9159015a3070dd17, 0x152fecd8f70e5939,
   0x67332667ffc00b31, 0x8eb44a8768581511, 0xdb0c2e0d64f98fa7, 0x47b5481dbefa4fa4⟩
def sha512_256Init : S512 :=
  ⟨0x22312194fc2bf72c, 0x9f555fa3c84c64c2, 0x2393b86b6f53b151, 0x963877195940eabd,
   0x96283ee2a88effe3, 0xbe5e1e2553863992, 0x2b0199fc2c85b8aa, 0x0eb72ddc81c52ca2⟩
def sha512_224Init : S512 :=
  ⟨0x8c3d37c819544da2, 0x73e1996689dcd4d6, 0x1dfab7ae32ff9c82, 0x679dd514582f9fcf,
   0x0f6d2b697bd44da8, 0x77e36f7304c48942, 0x3f9d85a86a1d36c8, 0x1112e6ad91d692a1⟩

def sha512State (iv : S512) (m : Bytes) : S512 :=
  let ws := wordsBE64 (sha512Pad m) #[]
  iter (sha512Block ws) (ws.size / 16) 0 iv

def sha512 (m : Bytes) : Bytes :=
  let s := sha512State sha512Init m
  u64be s.a ++ u64be s.b ++ u64be s.c ++ u64be s.d ++ u64be s.e ++ u64be s.f ++ u64be s.g ++ u64be s.h

def sha384 (m : Bytes) : Bytes :=
  let s := sha512State sha384Init m
  u64be s.a ++ u64be s.b ++ u64be s.c ++ u64be s.d ++ u64be s.e ++ u64be s.f

def sha512_256 (m : Bytes) : Bytes :=
  let s := sha512State sha512_256Init m
  u64be s.a ++ u64be s.b ++ u64be s.c ++ u64be s.d

def sha512_224 (m : Bytes) : Bytes :=
  let s := sha512State sha512_224Init m
  u64be s.a ++ u64be s.b ++ u64be s.c ++ (u64be s.d).take 4

def algSha512 : HashAlg := ⟨"sha512", 128, 64, sha512⟩
def algSha384 : HashAlg := ⟨"sha384", 128, 48, sha384⟩
def algSha512_256 : HashAlg := ⟨"sha512_256", 128, 32, sha512_256⟩
def algSha512_224 : HashAlg := ⟨"sha512_224", 128, 28, sha512_224⟩

end XC.Prim
