/-
  XC.Prim.Sha1 — SHA-1 (FIPS 180-4 §6.1) as a total executable function, core Lean only.
  Also hosts the helpers shared by the other XC.Prim hash modules:
  `iter` (bounded loop), `mdPad` (Merkle–Damgård padding), `wordsBE32`, `HashAlg`.
  Stand-in for Go's crypto/sha1; validated against the Go stdlib by tools/check_prim.sh.
-/
import XC.Basic
namespace XC.Prim
open XC

/-! ## shared helpers -/

/-- `iter f n i s` = `f (i+n-1) (… (f (i+1) (f i s)))` — a counted loop, structural on `n`. -/
@[specialize] def iter {σ : Type} (f : Nat → σ → σ) : Nat → Nat → σ → σ
  | 0, _, s => s
  | n+1, i, s => iter f n (i+1) (f i s)

/-- Merkle–Damgård strengthening: `m ‖ 0x80 ‖ 0^k ‖ bitlen(m)` where the bit length takes
    `lenBytes` bytes (big-endian if `be`), and `k` is minimal such that the total is a multiple of `block`. -/
def mdPad (block lenBytes : Nat) (be : Bool) (m : Bytes) : Bytes :=
  let l := m.length
  let k := (2 * block - 1 - lenBytes - l % block) % block
  m ++ 0x80 :: (zeros k ++ (if be then natToBE lenBytes (8 * l) else natToLE lenBytes (8 * l)))

/-- big-endian 32-bit words of a byte string (a trailing partial word is dropped) -/
def wordsBE32 : Bytes → Array UInt32 → Array UInt32
  | a :: b :: c :: d :: r, acc =>
    wordsBE32 r (acc.push ((a.toUInt32 <<< 24) ||| (b.toUInt32 <<< 16) ||| (c.toUInt32 <<< 8) ||| d.toUInt32))
  | _, acc => acc

@[inline] def rotl32 (x : UInt32) (n : UInt32) : UInt32 := (x <<< n) ||| (x >>> (32 - n))
@[inline] def rotr32 (x : UInt32) (n : UInt32) : UInt32 := (x >>> n) ||| (x <<< (32 - n))

/-- a hash function as HMAC and other constructions see it -/
structure HashAlg where
  name : String
  blockSize : Nat
  size : Nat
  hash : Bytes → Bytes

/-! ## SHA-1 -/

structure S1 where
  a : UInt32
  b : UInt32
  c : UInt32
  d : UInt32
  e : UInt32

def sha1Pad (m : Bytes) : Bytes := mdPad 64 8 true m

/-- 80-word message schedule of the block starting at word `off` -/
def sha1Sched (ws : Array UInt32) (off : Nat) : Array UInt32 :=
  iter (fun t w =>
      w.push (rotl32 (w.getD (t-3) 0 ^^^ w.getD (t-8) 0 ^^^ w.getD (t-14) 0 ^^^ w.getD (t-16) 0) 1))
    64 16 (ws.extract off (off + 16))

def sha1Round (w : Array UInt32) (t : Nat) (s : S1) : S1 :=
  let fk : UInt32 × UInt32 :=
    if t < 20 then ((s.b &&& s.c) ||| (~~~s.b &&& s.d), 0x5a827999)
    else if t < 40 then (s.b ^^^ s.c ^^^ s.d, 0x6ed9eba1)
    else if t < 60 then ((s.b &&& s.c) ||| (s.b &&& s.d) ||| (s.c &&& s.d), 0x8f1bbcdc)
    else (s.b ^^^ s.c ^^^ s.d, 0xca62c1d6)
  let tmp := rotl32 s.a 5 + fk.1 + s.e + fk.2 + w.getD t 0
  ⟨tmp, s.a, rotl32 s.b 30, s.c, s.d⟩

def sha1Block (ws : Array UInt32) (i : Nat) (s : S1) : S1 :=
  let w := sha1Sched ws (16 * i)
  let r := iter (sha1Round w) 80 0 s
  ⟨s.a + r.a, s.b + r.b, s.c + r.c, s.d + r.d, s.e + r.e⟩

def sha1Init : S1 := ⟨0x67452301, 0xefcdab89, 0x98badcfe, 0x10325476, 0xc3d2e1f0⟩

def sha1State (m : Bytes) : S1 :=
  let ws := wordsBE32 (sha1Pad m) #[]
  iter (sha1Block ws) (ws.size / 16) 0 sha1Init

def sha1 (m : Bytes) : Bytes :=
  let s := sha1State m
  u32be s.a ++ u32be s.b ++ u32be s.c ++ u32be s.d ++ u32be s.e

def algSha1 : HashAlg := ⟨"sha1", 64, 20, sha1⟩

end XC.Prim
