/-
  XC.Prim.Lemmas — cheap structural facts about the hash stand-ins (core Lean only):
  digest lengths, HMAC tag length, padded length is a multiple of the block size.
-/
import XC.Prim.Hmac
namespace XC.Prim
open XC

/-! ## word serialisation lengths -/

theorem natToBE_length (n v : Nat) : (natToBE n v).length = n := by
  simp [natToBE, natToLE_length]

@[simp] theorem u32be_length (w : UInt32) : (u32be w).length = 4 := by simp [u32be, natToBE_length]
@[simp] theorem u32le_length (w : UInt32) : (u32le w).length = 4 := by simp [u32le, natToLE_length]
@[simp] theorem u64be_length (w : UInt64) : (u64be w).length = 8 := by simp [u64be, natToBE_length]

/-! ## digest lengths -/

theorem sha1_length (m : Bytes) : (sha1 m).length = 20 := by simp [sha1]
theorem sha224_length (m : Bytes) : (sha224 m).length = 28 := by simp [sha224]
theorem sha256_length (m : Bytes) : (sha256 m).length = 32 := by simp [sha256]
theorem sha384_length (m : Bytes) : (sha384 m).length = 48 := by simp [sha384]
theorem sha512_length (m : Bytes) : (sha512 m).length = 64 := by simp [sha512]
theorem sha512_256_length (m : Bytes) : (sha512_256 m).length = 32 := by simp [sha512_256]
theorem sha512_224_length (m : Bytes) : (sha512_224 m).length = 28 := by simp [sha512_224]
theorem md5_length (m : Bytes) : (md5 m).length = 16 := by simp [md5]

/-- a `HashAlg` whose `hash` always returns `size` bytes -/
def HashAlg.WellSized (a : HashAlg) : Prop := ∀ x, (a.hash x).length = a.size

theorem algSha1_wellSized : algSha1.WellSized := sha1_length
theorem algSha224_wellSized : algSha224.WellSized := sha224_length
theorem algSha256_wellSized : algSha256.WellSized := sha256_length
theorem algSha384_wellSized : algSha384.WellSized := sha384_length
theorem algSha512_wellSized : algSha512.WellSized := sha512_length
theorem algSha512_256_wellSized : algSha512_256.WellSized := sha512_256_length
theorem algSha512_224_wellSized : algSha512_224.WellSized := sha512_224_length
theorem algMd5_wellSized : algMd5.WellSized := md5_length

/-! ## HMAC -/

theorem hmac_length (a : HashAlg) (h : ∀ x, (a.hash x).length = a.size) (key msg : Bytes) :
    (hmac a key msg).length = a.size := by
  simp [hmac, h]

theorem hmacSha1_length (k m : Bytes) : (hmacSha1 k m).length = 20 := hmac_length algSha1 sha1_length k m
theorem hmacSha256_length (k m : Bytes) : (hmacSha256 k m).length = 32 := hmac_length algSha256 sha256_length k m
theorem hmacSha512_length (k m : Bytes) : (hmacSha512 k m).length = 64 := hmac_length algSha512 sha512_length k m

/-- the block-sized key really is one block long, provided the digest is not longer than a block -/
theorem hmacKey_length (a : HashAlg) (h : ∀ x, (a.hash x).length = a.size) (hs : a.size ≤ a.blockSize)
    (key : Bytes) : (hmacKey a key).length = a.blockSize := by
  unfold hmacKey
  by_cases hk : key.length > a.blockSize
  · simp [hk, h, zeros]; omega
  · simp [hk, zeros]; omega

/-- a key no longer than the block is used as is (zero-padded) -/
theorem hmacKey_short (a : HashAlg) (key : Bytes) (hk : key.length ≤ a.blockSize) :
    hmacKey a key = key ++ zeros (a.blockSize - key.length) := by
  have : ¬ key.length > a.blockSize := by omega
  simp [hmacKey, this]

/-- a key longer than the block is replaced by its digest -/
theorem hmacKey_long (a : HashAlg) (key : Bytes) (hk : a.blockSize < key.length) :
    hmacKey a key = a.hash key ++ zeros (a.blockSize - (a.hash key).length) := by
  simp [hmacKey, hk]

/-! ## padding -/

theorem mdPad_length (block lenBytes : Nat) (be : Bool) (m : Bytes) :
    (mdPad block lenBytes be m).length
      = m.length + 1 + (2 * block - 1 - lenBytes - m.length % block) % block + lenBytes := by
  cases be <;> simp [mdPad, zeros, natToBE_length, natToLE_length] <;> omega

/-- the message is a prefix of its padding -/
theorem mdPad_prefix (block lenBytes : Nat) (be : Bool) (m : Bytes) :
    (mdPad block lenBytes be m).take m.length = m := by
  simp [mdPad]

theorem sha1Pad_length_mod (m : Bytes) : (sha1Pad m).length % 64 = 0 := by
  rw [sha1Pad, mdPad_length]; omega
theorem sha256Pad_length_mod (m : Bytes) : (sha256Pad m).length % 64 = 0 := by
  rw [sha256Pad, mdPad_length]; omega
theorem md5Pad_length_mod (m : Bytes) : (md5Pad m).length % 64 = 0 := by
  rw [md5Pad, mdPad_length]; omega
theorem sha512Pad_length_mod (m : Bytes) : (sha512Pad m).length % 128 = 0 := by
  rw [sha512Pad, mdPad_length]; omega

/-- padding adds at least 9 (resp. 17) and at most one block + 8 (resp. 16) bytes -/
theorem sha256Pad_length_bounds (m : Bytes) :
    m.length + 9 ≤ (sha256Pad m).length ∧ (sha256Pad m).length ≤ m.length + 72 := by
  rw [sha256Pad, mdPad_length]; omega
theorem sha512Pad_length_bounds (m : Bytes) :
    m.length + 17 ≤ (sha512Pad m).length ∧ (sha512Pad m).length ≤ m.length + 144 := by
  rw [sha512Pad, mdPad_length]; omega

end XC.Prim
