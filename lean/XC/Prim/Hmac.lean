/-
  XC.Prim.Hmac — HMAC (RFC 2104 / FIPS 198-1) over any `HashAlg`, core Lean only.
  Stand-in for Go's crypto/hmac; validated against the Go stdlib by tools/check_prim.sh.
-/
import XC.Prim.Sha1
import XC.Prim.Sha256
import XC.Prim.Sha512
import XC.Prim.Md5
namespace XC.Prim
open XC

/-- the block-sized key K0: a key longer than the block is hashed first; then zero-padded on the right -/
def hmacKey (a : HashAlg) (key : Bytes) : Bytes :=
  let k0 := if key.length > a.blockSize then a.hash key else key
  k0 ++ zeros (a.blockSize - k0.length)

/-- HMAC(K, m) = H((K0 ⊕ opad) ‖ H((K0 ⊕ ipad) ‖ m)) -/
def hmac (a : HashAlg) (key msg : Bytes) : Bytes :=
  let k := hmacKey a key
  a.hash (k.map (· ^^^ 0x5c) ++ a.hash (k.map (· ^^^ 0x36) ++ msg))

def hmacSha1 (key msg : Bytes) : Bytes := hmac algSha1 key msg
def hmacSha224 (key msg : Bytes) : Bytes := hmac algSha224 key msg
def hmacSha256 (key msg : Bytes) : Bytes := hmac algSha256 key msg
def hmacSha384 (key msg : Bytes) : Bytes := hmac algSha384 key msg
def hmacSha512 (key msg : Bytes) : Bytes := hmac algSha512 key msg
def hmacMd5 (key msg : Bytes) : Bytes := hmac algMd5 key msg

/-- lookup by the names used on op lines -/
def algByName : String → Option HashAlg
  | "sha1" => some algSha1
  | "sha224" => some algSha224
  | "sha256" => some algSha256
  | "sha384" => some algSha384
  | "sha512" => some algSha512
  | "sha512_256" => some algSha512_256
  | "sha512_224" => some algSha512_224
  | "md5" => some algMd5
  | _ => none

end XC.Prim
