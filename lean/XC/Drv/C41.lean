import XC.Model.C41
namespace XC.C41
open XC XC.C38

def hexList? (o : Op) (k : String) : Option (List Bytes) :=
  match o.get? k with
  | none => none
  | some "-" => some []
  | some s => (s.splitOn ",").mapM ofHex

/-- `pts=256:<hex>,384:<hex>` → oracle (a point not listed is invalid) -/
def ptsOracle? (o : Op) : Option PtOracle :=
  match o.get? "pts" with
  | none => some (fun _ _ => false)
  | some "-" => some (fun _ _ => false)
  | some s =>
    let items := (s.splitOn ",").mapM (fun it =>
      match it.splitOn ":" with
      | [b, h] => do
        let bits ← b.toNat?
        let pt ← ofHex h
        pure (bits, pt)
      | _ => none)
    items.map (fun l => fun bits pt => l.contains (bits, pt))

/-- `cands=<hex msg>:<0|1>,…` → verification oracle for the certificate's own CA key and signature
    (a message not listed does not verify) -/
def cands? (o : Op) : Option (List (Bytes × Bool)) :=
  match o.get? "cands" with
  | none => some []
  | some "-" => some []
  | some s =>
    (s.splitOn ",").mapM (fun it =>
      match it.splitOn ":" with
      | [h, "1"] => (ofHex h).map (·, true)
      | [h, "0"] => (ofHex h).map (·, false)
      | _ => none)

def showRes : Res → String
  | .accept => "accept"
  | .reject => "reject"
  | .panic => "panic"

def kvList? (o : Op) (k : String) : Option (List (Bytes × Bytes)) :=
  match o.get? k with
  | none => none
  | some "-" => some []
  | some s =>
    (s.splitOn ",").mapM (fun it =>
      match it.splitOn ":" with
      | [a, b] => do
        let x ← ofHex a
        let y ← ofHex b
        pure (x, y)
      | _ => none)

def handleParse (o : Op) : String :=
  match o.hex? "cert", ptsOracle? o with
  | some b, some po =>
    match parsePublicKey po b with
    | none => "perr"
    | some k =>
      match k.marshal with
      | none => "panic"
      | some m => s!"m={toHex m} rt={if m = b then 1 else 0}"
  | _, _ => "bad-op"

def handleCheck (o : Op) : String :=
  match o.hex? "cert", ptsOracle? o, cands? o, o.hex? "princ", o.int? "now", hexList? o "supp" with
  | some b, some po, some cands, some princ, some now, some supp =>
    let rev : Option (Option (List Nat)) :=
      match o.get? "rev" with
      | some "nil" => some none
      | some _ => (o.natList? "rev").map some
      | none => none
    let auth : Option (Option (List Bytes)) :=
      match o.get? "auth" with
      | some "nil" => some none
      | some _ => (hexList? o "auth").map some
      | none => some none
    let fb : Option Fallback :=
      match o.get? "fb" with
      | some "nil" => some .unset
      | some "ok" => some .ok
      | some "err" => some .err
      | none => some .unset
      | _ => none
    let split : Option (Option Bytes) :=
      match o.get? "split" with
      | some "err" => some none
      | some _ => (o.hex? "split").map some
      | none => some none
    match rev, auth, fb, split with
    | some rev, some auth, some fb, some split =>
      match parsePublicKey po b with
      | none => "perr"
      | some key =>
        let ck : Checker := ⟨supp, rev.map (fun l => fun c => l.contains c.serial), now⟩
        let verify : PubKey → Bytes → Sig → Bool := fun _ msg _ =>
          match cands.find? (fun p => p.1 = msg) with
          | some p => p.2
          | none => false
        -- the property-level decision: CA signature over the bytes that were received
        let chk (pr : Bytes) (c : Cert) : Res := checkCertRecv verify ck pr c (recvSigned b c)
        match o.str "mode" with
        | "cert" =>
          (match key with
           | .cert c => showRes (chk princ c)
           | .plain _ => "notcert")
        | "auth" => showRes (authenticate ⟨auth, fb⟩ key (chk princ))
        | "host" => showRes (checkHostKey ⟨auth, fb⟩ key split chk)
        | _ => "bad-op"
    | _, _, _, _ => "bad-op"
  | _, _, _, _, _, _ => "bad-op"

/-- `sign key=<plain key blob> ca=<plain key blob> catype=<hex|-> algs=<none|hexlist> algsigner=0|1
     nonce= serial= ctype= keyid= princs= va= vb= crit= ext= reserved= sig=<fmt:blob:rest>` -/
def handleSign (o : Op) : String :=
  match o.hex? "key", o.hex? "ca", ptsOracle? o, o.hex? "nonce", o.nat? "serial", o.nat? "ctype",
        o.hex? "keyid", hexList? o "princs" with
  | some kb, some cab, some po, some nonce, some serial, some ctype, some keyid, some princs =>
    match o.nat? "va", o.nat? "vb", kvList? o "crit", kvList? o "ext", o.hex? "reserved", o.hex? "catype", o.nat? "algsigner" with
    | some va, some vb, some crit, some ext, some reserved, some catype, some algsigner =>
      let algs : Option (Option (List Bytes)) :=
        match o.get? "algs" with
        | some "none" => some none
        | some _ => (hexList? o "algs").map some
        | none => none
      match algs, parsePlainKey po kb, parsePlainKey po cab with
      | some algs, some key, some ca =>
        let caType := if catype.isEmpty then ca.type else catype
        match signCertAlgo caType algs (algsigner = 1) with
        | none => "err"
        | some fmt =>
          let c : Cert := ⟨nonce, key, serial, ctype, keyid, princs, va, vb, sortKV crit, sortKV ext, reserved, ca, none⟩
          match c.bytesForSigning with
          | none => "panic"
          | some pre => s!"pre={toHex pre} fmt={txt fmt} v=1 rt=1"
      | _, _, _ => "bad-op"
    | _, _, _, _, _, _, _ => "bad-op"
  | _, _, _, _, _, _, _, _ => "bad-op"

def handle (line : String) : String :=
  let o := parseOp line
  match o.cmd with
  | "parse" => handleParse o
  | "check" => handleCheck o
  | "sign" => handleSign o
  | _ => "bad-op"

end XC.C41
