import XC.Model.C08
import XC.Model.C08_KeccakfGo
namespace XC.C08

def prefixBytes (k : Nat) : Bytes := (List.range k).map fun i => UInt8.ofNat (0xa0 + i)

/-- tokens `w:<n>` `s:<k>` `r:<k>` `c` `u:<j>` `z`; Write payloads are cut from `src` in order -/
def parseOps : List String → Bytes → Option (List HOp)
  | [], src => if src.isEmpty then some [] else none
  | t :: ts, src =>
    match t.splitOn ":" with
    | ["z"] => (parseOps ts src).map (HOp.z :: ·)
    | ["c"] => (parseOps ts src).map (HOp.c :: ·)
    | ["x"] => (parseOps ts src).map (HOp.x :: ·)
    | ["w", n] => do
      let n ← n.toNat?
      if src.length < n then none else
      let rest ← parseOps ts (src.drop n)
      pure (HOp.w (src.take n) :: rest)
    | ["s", k] => do
      let k ← k.toNat?
      if k > 64 then none else
      let rest ← parseOps ts src
      pure (HOp.s (prefixBytes k) :: rest)
    | ["r", k] => do
      let k ← k.toNat?
      if k > 100000 then none else
      let rest ← parseOps ts src
      pure (HOp.r k :: rest)
    | ["u", j] => do
      let j ← j.toNat?
      let rest ← parseOps ts src
      pure (HOp.u j :: rest)
    | _ => none

/-- observable: `<index>:<hex|panic>` for every op that produced bytes or panicked -/
def showOuts (outs : List Out) : Option String :=
  let rec go : Nat → List Out → Option (List String)
    | _, [] => some []
    | i, .quiet :: t => go (i + 1) t
    | i, .bytes b :: t => (go (i + 1) t).map (s!"{i}:{toHex b}" :: ·)
    | i, .panic :: t => (go (i + 1) t).map (s!"{i}:panic" :: ·)
    | _, .unsupported :: _ => none
  match go 0 outs with
  | none => none
  | some [] => some "none"
  | some l => some ("|".intercalate l)

def oneShot (fn : String) (m : Bytes) (k : Nat) : Option Bytes :=
  match fn with
  | "sha3-224" => some (sha3_224 m)
  | "sha3-256" => some (sha3_256 m)
  | "sha3-384" => some (sha3_384 m)
  | "sha3-512" => some (sha3_512 m)
  | "keccak256" => some (keccak256 m)
  | "keccak512" => some (keccak512 m)
  | "shake128" => some (shake128 m k)
  | "shake256" => some (shake256 m k)
  | _ => none

/-- `regen status=` / `src file=keccakf` / `kf in=<200 bytes>` (generated Go-shaped permutation),
    `sp fn= n= s= ops= src=` (history on a pool of objects, implementation-shaped model),
    `one fn= src= len=` (one-shot API, answered by the *specification* `spongeSpec`),
    `kat fn= n= s= src= len= want=` (published vector: `<spec output>|<spec output>`). -/
def handle (line : String) : String :=
  let o := parseOp line
  if o.cmd == "sp" then
    match o.get? "ops", o.hex? "src", o.hex? "n", o.hex? "s" with
    | some opsS, some src, some N, some S =>
      let toks := if opsS == "-" then [] else opsS.splitOn ","
      match parseOps toks src, mkObj (o.str "fn") N S with
      | some ops, some obj =>
        match showOuts (Pool.run ⟨#[obj], 0⟩ ops) with
        | some s => s
        | none => "bad-op"
      | _, _ => "bad-op"
    | _, _, _, _ => "bad-op"
  else if o.cmd == "regen" then "uptodate"          -- the generated model file must match the source
  else if o.cmd == "src" then KGo.srcHash           -- sha256 of the statements the model was generated from
  else if o.cmd == "kf" then                        -- keccakF1600 through the GENERATED Go-shaped model
    match o.hex? "in" with
    | some inp =>
      if inp.length != 200 then "bad-op" else
      let l := toLanes inp
      let s : KGo.L25 := ⟨l.getD 0 0, l.getD 1 0, l.getD 2 0, l.getD 3 0, l.getD 4 0, l.getD 5 0, l.getD 6 0,
        l.getD 7 0, l.getD 8 0, l.getD 9 0, l.getD 10 0, l.getD 11 0, l.getD 12 0, l.getD 13 0, l.getD 14 0,
        l.getD 15 0, l.getD 16 0, l.getD 17 0, l.getD 18 0, l.getD 19 0, l.getD 20 0, l.getD 21 0, l.getD 22 0,
        l.getD 23 0, l.getD 24 0⟩
      let r := KGo.keccakfGo s
      toHex ([r.a0, r.a1, r.a2, r.a3, r.a4, r.a5, r.a6, r.a7, r.a8, r.a9, r.a10, r.a11, r.a12, r.a13, r.a14,
        r.a15, r.a16, r.a17, r.a18, r.a19, r.a20, r.a21, r.a22, r.a23, r.a24].flatMap u64le)
    | none => "bad-op"
  else if o.cmd == "acc" then                       -- Size() / BlockSize() of a fresh object
    match mkObj (o.str "fn") [1] [2] with
    | some (.fixed d) | some (.legacy d) => s!"size={d.outLen} block={d.rate}"
    | some (.shake w) => s!"size={w.outputLen} block={w.inner.rate}"
    | none => "bad-op"
  else if o.cmd == "one" then
    match o.hex? "src", o.nat? "len" with
    | some src, some k =>
      match oneShot (o.str "fn") src k with
      | some b => toHex b
      | none => "bad-op"
    | _, _ => "bad-op"
  else if o.cmd == "kat" then
    match o.hex? "src", o.nat? "len", o.hex? "n", o.hex? "s", o.hex? "want" with
    | some src, some k, some N, some S, some _ =>
      let r : Option Bytes := match o.str "fn" with
        | "cshake128" => some (cshakeSpec 168 N S src k)
        | "cshake256" => some (cshakeSpec 136 N S src k)
        | fn => oneShot fn src k
      match r with
      | some b => s!"{toHex b}|{toHex b}"
      | none => "bad-op"
    | _, _, _, _, _ => "bad-op"
  else "bad-op"

end XC.C08
