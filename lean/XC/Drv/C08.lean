import XC.Model.C08
namespace XC.C08

def prefixBytes (k : Nat) : Bytes := (List.range k).map fun i => UInt8.ofNat (0xa0 + i)

/-- tokens `w:<n>` `s:<k>` `r:<k>` `c` `u:<j>` `z`; Write payloads are cut from `src` in order -/
def parseOps : List String → Bytes → Option (List HOp)
  | [], src => if src.isEmpty then some [] else none
  | t :: ts, src =>
    match t.splitOn ":" with
    | ["z"] => (parseOps ts src).map (HOp.z :: ·)
    | ["c"] => (parseOps ts src).map (HOp.c :: ·)
    | ["w", n] => do
      let n ← n.toNat?
      if src.length < n then none else
      let rest ← parseOps ts (src.drop n)
      pure (HOp.w (src.take n) :: rest)
    | ["s", k] => do
      let k ← k.toNat?
      if k > 64 then none else
      let rest ← parseOps ts src
      pure (HOp.s (prefixBytes k) :: rest)
    | ["r", k] => do
      let k ← k.toNat?
      if k > 100000 then none else
      let rest ← parseOps ts src
      pure (HOp.r k :: rest)
    | ["u", j] => do
      let j ← j.toNat?
      let rest ← parseOps ts src
      pure (HOp.u j :: rest)
    | _ => none

/-- observable: `<index>:<hex|panic>` for every op that produced bytes or panicked -/
def showOuts (outs : List Out) : Option String :=
  let rec go : Nat → List Out → Option (List String)
    | _, [] => some []
    | i, .quiet :: t => go (i + 1) t
    | i, .bytes b :: t => (go (i + 1) t).map (s!"{i}:{toHex b}" :: ·)
    | i, .panic :: t => (go (i + 1) t).map (s!"{i}:panic" :: ·)
    | _, .unsupported :: _ => none
  match go 0 outs with
  | none => none
  | some [] => some "none"
  | some l => some ("|".intercalate l)

def oneShot (fn : String) (m : Bytes) (k : Nat) : Option Bytes :=
  match fn with
  | "sha3-224" => some (sha3_224 m)
  | "sha3-256" => some (sha3_256 m)
  | "sha3-384" => some (sha3_384 m)
  | "sha3-512" => some (sha3_512 m)
  | "keccak256" => some (keccak256 m)
  | "keccak512" => some (keccak512 m)
  | "shake128" => some (shake128 m k)
  | "shake256" => some (shake256 m k)
  | _ => none

/-- `sp fn= n= s= ops= src=` (history on a pool of objects, implementation-shaped model),
    `one fn= src= len=` (one-shot API, answered by the *specification* `spongeSpec`),
    `kat fn= n= s= src= len= want=` (published vector: `<spec output>|<spec output>`). -/
def handle (line : String) : String :=
  let o := parseOp line
  if o.cmd == "sp" then
    match o.get? "ops", o.hex? "src", o.hex? "n", o.hex? "s" with
    | some opsS, some src, some N, some S =>
      let toks := if opsS == "-" then [] else opsS.splitOn ","
      match parseOps toks src, mkObj (o.str "fn") N S with
      | some ops, some obj =>
        match showOuts (Pool.run ⟨#[obj], 0⟩ ops) with
        | some s => s
        | none => "bad-op"
      | _, _ => "bad-op"
    | _, _, _, _ => "bad-op"
  else if o.cmd == "one" then
    match o.hex? "src", o.nat? "len" with
    | some src, some k =>
      match oneShot (o.str "fn") src k with
      | some b => toHex b
      | none => "bad-op"
    | _, _ => "bad-op"
  else if o.cmd == "kat" then
    match o.hex? "src", o.nat? "len", o.hex? "n", o.hex? "s", o.hex? "want" with
    | some src, some k, some N, some S, some _ =>
      let r : Option Bytes := match o.str "fn" with
        | "cshake128" => some (cshakeSpec 168 N S src k)
        | "cshake256" => some (cshakeSpec 136 N S src k)
        | fn => oneShot fn src k
      match r with
      | some b => s!"{toHex b}|{toHex b}"
      | none => "bad-op"
    | _, _, _, _, _ => "bad-op"
  else "bad-op"

end XC.C08
