/-
  C30 driver (conf mode "accept"): `op<TAB>impl` ↦ `ok` iff every real endpoint's outcome and sequence
  numbers are what the receive-path model yields on the packet types that were delivered to it.
-/
import XC.Model.C30
namespace XC.C30
open XC

def isGex (m : String) : Bool := m.startsWith "diffie-hellman-group-exchange"

/-- message types the kex method reads from the peer -/
def kexTypesFor (m : String) (isClient : Bool) : List UInt8 :=
  if isGex m then (if isClient then [31, 33] else [34, 32]) else (if isClient then [31] else [30])

def toTypes (l : List Nat) : List UInt8 := l.map UInt8.ofNat

/-- judge one real endpoint -/
def judgeEndpoint (who : String) (cfg : Cfg) (delivered sent : List UInt8) (extraWrites : Nat)
    (status : String) (rs ws : Nat) (strictFlag : String) : Option String :=
  let st := run cfg init delivered
  match st.phase with
  | .done =>
    let wseq := sent.foldl (wstep st.strict) 0 + extraWrites
    if status != "ok" then some s!"{who}: model completes, impl {status}"
    else if rs != st.seq then some s!"{who}: reader seqNum {rs}, model {st.seq}"
    else if ws != wseq then some s!"{who}: writer seqNum {ws}, model {wseq}"
    else if (strictFlag == "1") != st.strict then some s!"{who}: strictMode {strictFlag}, model {st.strict}"
    else none
  | .failed =>
    if status == "err" then none else some s!"{who}: model fails, impl {status}"
  | _ =>
    if status == "err" || status == "stall" then none else some s!"{who}: model still waiting, impl {status}"

def handle (line : String) : String :=
  match line.splitOn "\t" with
  | [opS, implS] =>
    let o := parseOp opS
    let i := parseOp implS
    if o.cmd != "hs" then "bad-op" else
    let m := o.str "m"
    let mode := o.str "mode"
    match i.natList? "dc", i.natList? "ds", i.natList? "sc", i.natList? "ss",
          i.nat? "crs", i.nat? "cws", i.nat? "srs", i.nat? "sws" with
    | some dc, some ds, some sc, some ss, some crs, some cws, some srs, some sws =>
      -- does the KEXINIT delivered to an endpoint carry the strict marker / ext-info-c?
      let real2 := mode == "mitm" || mode == "rekey"        -- both endpoints are the real code
      let strictToClient := if real2 then true else o.str "strict" == "1"
      let strictToServer := if real2 then true else o.str "strict" == "1"
      -- the server's EXT_INFO is written after NEWKEYS: not in the man-in-the-middle's plaintext log,
      -- but in the recording transport's log of the rekey runs
      let extInfo := if mode == "rekey" then false else if mode == "peerc" then o.str "extinfo" == "1" else true
      let cRes :=
        if real2 || mode == "peers" then
          judgeEndpoint "client" ⟨strictToClient, kexTypesFor m true⟩ (toTypes dc) (toTypes sc) 0
            (i.str "c") crs cws (i.str "cstrict")
        else if i.str "c" == "-" then none else some "client result in a server-only run"
      let sRes :=
        if real2 || mode == "peerc" then
          judgeEndpoint "server" ⟨strictToServer, kexTypesFor m false⟩ (toTypes ds) (toTypes ss) (if extInfo then 1 else 0)
            (i.str "s") srs sws (i.str "sstrict")
        else if i.str "s" == "-" then none else some "server result in a client-only run"
      if !(real2 || mode == "peers" || mode == "peerc") then "bad-op" else
      match cRes, sRes with
      | none, none => "ok"
      | some e, _ => e
      | _, some e => e
    | _, _, _, _, _, _, _, _ => "bad-op"
  | _ => "bad-op"

end XC.C30
