/-
  C30 driver (conf mode "accept"): `op<TAB>impl` ↦ `ok` iff every real endpoint's outcome and sequence
  numbers are what the receive-path model yields on the packet types that were delivered to it.
-/
import XC.Model.C30
namespace XC.C30
open XC

def isGex (m : String) : Bool := m.startsWith "diffie-hellman-group-exchange"

/-- message types the kex method reads from the peer -/
def kexTypesFor (m : String) (isClient : Bool) : List UInt8 :=
  if isGex m then (if isClient then [31, 33] else [34, 32]) else (if isClient then [31] else [30])

def toTypes (l : List Nat) : List UInt8 := l.map UInt8.ofNat

/-- judge one real endpoint -/
def judgeEndpoint (who : String) (cfg : Cfg) (delivered sent : List UInt8) (extraWrites : Nat)
    (status : String) (rs ws : Nat) (strictFlag : String) : Option String :=
  let st := run cfg init delivered
  match st.phase with
  | .done =>
    let wseq := (sent.foldl (wstep st.strict) 0 + UInt32.ofNat extraWrites).toNat
    if status != "ok" then some s!"{who}: model completes, impl {status}"
    else if rs != st.seq.toNat then some s!"{who}: reader seqNum {rs}, model {st.seq}"
    else if ws != wseq then some s!"{who}: writer seqNum {ws}, model {wseq}"
    else if (strictFlag == "1") != st.strict then some s!"{who}: strictMode {strictFlag}, model {st.strict}"
    else none
  | .failed =>
    if status == "err" then none else some s!"{who}: model fails, impl {status}"
  | _ =>
    if status == "err" || status == "stall" then none else some s!"{who}: model still waiting, impl {status}"

/-- re-key runs: the four counters sampled right after each re-key (`lc.ls.crs.cws.srs.sws`, lc / ls = number of
    packets the client / server had sent by then) against the model run over the corresponding prefixes -/
def judgeSamples (m : String) (sc ss : List UInt8) (samples : String) : Option String :=
  if samples == "-" || samples == "" then none else
  (samples.splitOn ",").findSome? fun smp =>
    match (smp.splitOn ".").mapM String.toNat? with
    | some [lc, ls, crs, cws, srs, sws] =>
      let cst := run ⟨true, kexTypesFor m true⟩ init (ss.take ls)
      let sst := run ⟨true, kexTypesFor m false⟩ init (sc.take lc)
      let cw := ((sc.take lc).foldl (wstep cst.strict) 0).toNat
      let sw := ((ss.take ls).foldl (wstep sst.strict) 0).toNat
      if cst.phase != .done || sst.phase != .done then some s!"sample {smp}: model not in the done phase"
      else if crs != cst.seq.toNat || srs != sst.seq.toNat then some s!"sample {smp}: reader seqNum after re-key, model {cst.seq}/{sst.seq}"
      else if cws != cw || sws != sw then some s!"sample {smp}: writer seqNum after re-key, model {cw}/{sw}"
      else if crs != 0 || cws != 0 || srs != 0 || sws != 0 then some s!"sample {smp}: a counter is not 0 right after NEWKEYS in strict mode"
      else none
    | _ => some "bad-impl"

def handle (line : String) : String :=
  match line.splitOn "\t" with
  | [opS, implS] =>
    let o := parseOp opS
    let i := parseOp implS
    if o.cmd != "hs" then "bad-op" else
    let m := o.str "m"
    let mode := o.str "mode"
    match i.natList? "dc", i.natList? "ds", i.natList? "sc", i.natList? "ss",
          i.nat? "crs", i.nat? "cws", i.nat? "srs", i.nat? "sws" with
    | some dc, some ds, some sc, some ss, some crs, some cws, some srs, some sws =>
      -- does the KEXINIT delivered to an endpoint carry the strict marker / ext-info-c?
      let real2 := mode == "mitm" || mode == "rekey"        -- both endpoints are the real code
      -- `kl=`: the scripted peer's kex_algorithms list verbatim: the marker counts wherever it stands
      let kl : Option (List String) := (o.get? "kl").map (fun s => s.splitOn ",")
      let hasName (n : String) : Bool := match kl with | some l => l.contains n | none => false
      let strictToClient := if real2 then true else if kl.isSome then hasName "kex-strict-s-v00@openssh.com" else o.str "strict" == "1"
      let strictToServer := if real2 then true else if kl.isSome then hasName "kex-strict-c-v00@openssh.com" else o.str "strict" == "1"
      -- negotiation (first name of the client's list that the server also lists) must yield the kex method
      let alias := if m == "curve25519-sha256" then ["curve25519-sha256@libssh.org"] else []
      let negotiated : Option String := match kl with
        | none => some m
        | some l =>
          if mode == "peers" then ([m] ++ alias ++ ["ext-info-c", "kex-strict-c-v00@openssh.com"]).find? (fun n => l.contains n)
          else l.find? (fun n => ([m] ++ alias ++ ["kex-strict-s-v00@openssh.com"]).contains n)
      if negotiated != some m then
        (let st := if mode == "peers" then i.str "c" else i.str "s"
         if st == "err" then "ok" else s!"no usable key exchange in the peer's list, impl {st}")
      else
      -- the server's EXT_INFO is written after NEWKEYS: not in the man-in-the-middle's plaintext log,
      -- but in the recording transport's log of the rekey runs
      let extInfo := if mode == "rekey" then false
        else if mode == "peerc" then (if kl.isSome then hasName "ext-info-c" else o.str "extinfo" == "1") else true
      -- a man in the middle that *replaces* the first KEXINIT of a direction by a KEXINIT of its own (insert at 0 +
      -- delete / swap at 0): the type sequence stays plausible, but the two sides hash different transcripts
      -- (C29: the exchange hash binds I_C and I_S), so neither side may complete — the type-level model cannot see it
      let substituted := mode == "mitm" && o.str "ty2" == "20" && o.str "pos" == "0" &&
        (o.str "act" == "del" || o.str "act" == "swap")
      let noCompletion (who st : String) (r : Option String) : Option String :=
        if substituted && st == "ok" then some s!"{who}: completed although a KEXINIT of the exchange was replaced"
        else if substituted && (r.getD "").startsWith (who ++ ": model completes") then none
        else r
      let cRes := noCompletion "client" (i.str "c") <|
        if real2 || mode == "peers" then
          judgeEndpoint "client" ⟨strictToClient, kexTypesFor m true⟩ (toTypes dc) (toTypes sc) 0
            (i.str "c") crs cws (i.str "cstrict")
        else if i.str "c" == "-" then none else some "client result in a server-only run"
      let sRes := noCompletion "server" (i.str "s") <|
        if real2 || mode == "peerc" then
          judgeEndpoint "server" ⟨strictToServer, kexTypesFor m false⟩ (toTypes ds) (toTypes ss) (if extInfo then 1 else 0)
            (i.str "s") srs sws (i.str "sstrict")
        else if i.str "s" == "-" then none else some "server result in a client-only run"
      if !(real2 || mode == "peers" || mode == "peerc") then "bad-op" else
      match cRes, sRes with
      | none, none =>
        if mode == "rekey" then
          match judgeSamples m (toTypes sc) (toTypes ss) (i.str "samples") with
          | some e => e
          | none =>
            -- getSessionID: equal on both sides and unchanged by re-keys (it is the first exchange hash)
            if i.str "sid" != "11" then s!"session id not stable/equal across re-keys: {i.str "sid"}"
            else if i.str "sidlen" == "0" then "empty session id"
            else "ok"
        else "ok"
      | some e, _ => e
      | _, some e => e
    | _, _, _, _, _, _, _, _ => "bad-op"
  | _ => "bad-op"

end XC.C30
