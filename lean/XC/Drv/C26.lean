import XC.Model.C25_Inst
namespace XC.C25

/-- `r c=<cipher> m=<mac|-> key= iv= mkey= seq=<n> n=<max packets> stream=<hex>`:
    feed an arbitrary byte stream to the reader (readCipherPacket, sequence number +1 per call), stop at
    the first error.  Observable: per call accept(payload) / reject(class) + bytes consumed; final counter. -/
def handleR (o : Op) : String :=
  match hexArg o "key", hexArg o "iv", hexArg o "mkey", o.nat? "seq", o.nat? "n", hexArg o "stream" with
  | some key, some iv, some mkey, some seq, some n, some stream =>
    if seq ≥ 4294967296 then "bad-op" else
    match mkMode (o.str "c") (o.str "m") key iv mkey (stream.length + 64) with
    | none => "bad-op"
    | some (mode, st0) =>
      let (rs, cr) := readAll mode n ⟨st0, UInt32.ofNat seq⟩ stream
      s!"r={showRead mode.isCbc rs};rseq={cr.seq.toNat};mut=-"
  | _, _, _, _, _, _ => "bad-op"

end XC.C25

namespace XC.C26
def handle (line : String) : String :=
  let o := parseOp line
  match o.cmd with
  | "r" => XC.C25.handleR o
  | _ => "bad-op"
end XC.C26
