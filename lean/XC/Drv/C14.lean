import XC.Model.C14
namespace XC.C14

/-- fixed pattern the harness uses as the `in` argument of `Sum(in)` : a0 a1 a2 … -/
def prefixBytes (k : Nat) : Bytes := (List.range k).map fun i => UInt8.ofNat (0xa0 + i)

/-- parse `w:<n>` / `s:<k>` / `r` tokens, cutting the Write payloads out of `src` in order;
    `none` on any malformed token or if `src` is not consumed exactly -/
def parseOps : List String → Bytes → Option (List HOp)
  | [], src => if src.isEmpty then some [] else none
  | t :: ts, src =>
    match t.splitOn ":" with
    | ["r"] => (parseOps ts src).map (HOp.r :: ·)
    | ["w", n] => do
      let n ← n.toNat?
      if src.length < n then none else
      let rest ← parseOps ts (src.drop n)
      pure (HOp.w (src.take n) :: rest)
    | ["s", k] => do
      let k ← k.toNat?
      if k > 64 then none else
      let rest ← parseOps ts src
      pure (HOp.s (prefixBytes k) :: rest)
    | _ => none

def showOuts (outs : List (Option Bytes)) : String :=
  if outs.isEmpty then "none" else
  "|".intercalate (outs.map fun o => match o with | none => "panic" | some b => toHex b)

/-- `kat alg= src= want=` and `h alg=md4|rmd160 ops=w:3,s:0,w:61,r,s:2 src=<hex>` → the Sum results joined by `|` -/
def handle (line : String) : String :=
  let o := parseOp line
  -- `kat alg= src= want=`: published vector; the harness answers `<want>|<impl digest>`
  if o.cmd == "kat" then
    match o.hex? "src", o.hex? "want" with
    | some src, some _ =>
      match o.str "alg" with
      | "md4" => s!"{toHex (md4 src)}|{toHex (md4 src)}"
      | "rmd160" => s!"{toHex (ripemd160 src)}|{toHex (ripemd160 src)}"
      | _ => "bad-op"
    | _, _ => "bad-op"
  else
  -- `at alg= st=<state words, LE> buf=<buffered tail> len=<total byte count> ops= src=`:
  -- a history that starts from a digest built by the hook VerifNewAt
  -- `acc alg=`: Size() / BlockSize() / package constants / registered with package crypto
  if o.cmd == "acc" then
    match o.str "alg" with
    | "md4" => "size=16 block=64 consts=16,64 avail=true"
    | "rmd160" => "size=20 block=64 consts=20,64 avail=true"
    | _ => "bad-op"
  else
  if o.cmd == "at" then
    match o.get? "ops", o.hex? "src", o.hex? "st", o.hex? "buf", o.nat? "len" with
    | some opsS, some src, some st, some buf, some len =>
      let toks := if opsS == "-" then [] else opsS.splitOn ","
      if buf.length ≥ 64 ∨ len ≥ 2 ^ 64 then "bad-op" else
      match parseOps toks src with
      | none => "bad-op"
      | some ops =>
        let w (i : Nat) : UInt32 := le32 (st.drop (4 * i))
        match o.str "alg" with
        | "md4" =>
          if st.length != 16 then "bad-op" else
          showOuts (run Md4.alg ⟨⟨w 0, w 1, w 2, w 3⟩, buf, UInt64.ofNat len⟩ ops)
        | "rmd160" =>
          if st.length != 20 then "bad-op" else
          showOuts (run Rmd.alg ⟨⟨w 0, w 1, w 2, w 3, w 4⟩, buf, UInt64.ofNat len⟩ ops)
        | _ => "bad-op"
    | _, _, _, _, _ => "bad-op"
  else
  if o.cmd != "h" then "bad-op" else
  match o.get? "ops", o.hex? "src" with
  | some opsS, some src =>
    let toks := if opsS == "-" then [] else opsS.splitOn ","
    match parseOps toks src with
    | none => "bad-op"
    | some ops =>
      match o.str "alg" with
      | "md4" => showOuts (run Md4.alg (reset Md4.alg) ops)
      | "rmd160" => showOuts (run Rmd.alg (reset Rmd.alg) ops)
      | _ => "bad-op"
  | _, _ => "bad-op"

end XC.C14
