import XC.Model.C22
namespace XC.C22

/-! op line:  `prog kind=grow|fixed cap=<n> pre=<hex> p=<items>`
    items (comma separated, `-` = empty program):
      u<w>:<dec>  b:<hex>  r:<n>:<hh>  L<k>(items)  A<hh>(items)  U:<int>  V<0|1>:<hex>  E  T  P -/

def spanP (p : Char → Bool) : List Char → List Char × List Char
  | [] => ([], [])
  | c :: cs => if p c then let (a, b) := spanP p cs; (c :: a, b) else ([], c :: cs)

def isHexC (c : Char) : Bool := c.isDigit || ('a' ≤ c && c ≤ 'f') || c == '-'

def natOf (cs : List Char) : Option Nat := (String.ofList cs).toNat?
def intOf (cs : List Char) : Option Int := (String.ofList cs).toInt?
def hexOf (cs : List Char) : Option Bytes := ofHex (String.ofList cs)

mutual
partial def pItem (inChild : Bool) : List Char → Option (Prog × List Char)
  | 'u' :: w :: ':' :: cs =>
    let (d, r) := spanP Char.isDigit cs
    match natOf [w], natOf d with
    | some w, some v => if w ∈ [1, 2, 3, 4, 6, 8] then some (.uint w v, r) else none
    | _, _ => none
  | 'b' :: ':' :: cs =>
    let (h, r) := spanP isHexC cs
    (hexOf h).map fun bs => (.bytes bs, r)
  | 'r' :: ':' :: cs =>
    let (d, r) := spanP Char.isDigit cs
    match r with
    | ':' :: a :: b :: r' =>
      match natOf d, hexOf [a, b] with
      | some n, some [x] => some (.bytes (List.replicate n x), r')
      | _, _ => none
    | _ => none
  | 'L' :: k :: '(' :: cs =>
    match natOf [k] with
    | some k =>
      if k < 1 || k > 4 then none else
      match pItems true cs with
      | some (body, ')' :: r) => some (.lp k body, r)
      | _ => none
    | none => none
  | 'A' :: a :: b :: '(' :: cs =>
    match hexOf [a, b] with
    | some [t] =>
      match pItems true cs with
      | some (body, ')' :: r) => some (.asn1 t body, r)
      | _ => none
    | _ => none
  | 'U' :: ':' :: cs =>
    let (d, r) := spanP (fun c => c.isDigit || c == '-') cs
    (intOf d).map fun n => (.unwrite n, r)
  | 'V' :: f :: ':' :: cs =>
    let (h, r) := spanP isHexC cs
    if f != '0' && f != '1' then none else
    (hexOf h).map fun bs => (.value (f == '1') bs, r)
  | 'E' :: r => some (.seterr, r)
  | 'T' :: r => some (.throw, r)
  | 'P' :: r => if inChild then some (.pwrite, r) else none
  -- `Q`: the continuation calls parent.SetError and then writes to the parent ("writes performed after calling
  -- SetError are ignored": no panic although a child is pending).  Only as the LAST call of a continuation, where
  -- its effect on Bytes() equals a SetError on the child: the error surfaces when the child is flushed.
  | 'Q' :: ')' :: r => if inChild then some (.seterr, ')' :: r) else none
  | _ => none
/-- a possibly empty comma-separated list, up to `)` or end of input -/
partial def pItems (inChild : Bool) (cs : List Char) : Option (List Prog × List Char) :=
  match cs with
  | [] => some ([], [])
  | ')' :: _ => some ([], cs)
  | _ =>
    match pItem inChild cs with
    | none => none
    | some (p, ',' :: r) =>
      match pItems inChild r with
      | some (ps, r') => if ps.isEmpty then none else some (p :: ps, r')
      | none => none
    | some (p, r) => some ([p], r)
end

def parseProg (s : String) : Option (List Prog) :=
  if s == "-" then some [] else
  match pItems false s.toList with
  | some (ps, []) => if ps.isEmpty then none else some ps
  | _ => none

def fnv64 (bs : Bytes) : UInt64 :=
  bs.foldl (fun h b => (h ^^^ b.toUInt64) * 1099511628211) 14695981039346656037

def showOut (bs : Bytes) : String :=
  if bs.length ≤ 128 then toHex bs else s!"n={bs.length},h={toHex (u64be (fnv64 bs))}"

def parseReadOp (t : String) : Option ReadOp :=
  match t.toList with
  | ['e'] => some .empty
  | 'u' :: w => (natOf w).bind fun w => if w ∈ [1, 2, 3, 4, 6, 8] then some (.uint w) else none
  | 'L' :: k => (natOf k).bind fun k => if k ∈ [1, 2, 3] then some (.lp k) else none
  | 'b' :: n => (intOf n).map .bytes
  | 's' :: n => (intOf n).map .skip
  | 'c' :: n => (natOf n).map .copy
  | _ => none

/-- `reads in=<hex> ops=u1,u2,b3,c2,s-1,L2,e` -/
def handleReads (o : Op) : String :=
  match o.hex? "in", o.get? "ops" with
  | some s, some ops =>
    match (if ops == "-" then some [] else (ops.splitOn ",").mapM parseReadOp) with
    | some rops =>
      let (vals, failed, rest) := runReads rops s 0 []
      let vs := if vals.isEmpty then "-" else "|".intercalate (vals.map toHex)
      match failed with
      | none => s!"ok {vs} rest={toHex rest} mutated=0"
      | some i => s!"fail i={i} {vs} mutated=0"
    | none => "bad-op"
  | _, _ => "bad-op"

def handle (line : String) : String :=
  let o := parseOp line
  if o.cmd == "reads" then handleReads o else
  if o.cmd != "prog" then "bad-op" else
  match o.get? "kind", o.nat? "cap", o.hex? "pre", (o.get? "p").bind parseProg with
  | some kind, some capN, some pre, some p =>
    if kind != "grow" && kind != "fixed" && kind != "zero" then "bad-op" else
    if kind == "zero" && !pre.isEmpty then "bad-op" else
    let fin := (o.get? "fin").getD "bytes"
    if fin != "bytes" && fin != "orpanic" && fin != "again" then "bad-op" else
    -- `again`: Bytes() twice (must agree), then one more AddUint8(1) and Bytes(): Bytes() does not change the builder
    let p := if fin == "again" then p ++ [Prog.uint 1 1] else p
    let fixed := kind == "fixed"
    if fixed && pre.length > capN then "bad-op" else
    let cap := if fixed then some capN else none
    match build cap pre p with
    | .err => if fin == "orpanic" then "panic" else "err"   -- BytesOrPanic panics with the error
    | .panic _ => "panic"
    | .ok bs =>
      let rt := match mirror pre p with
        | none => "na"
        | some q => if roundTrips q bs then "1" else "0"
      let fx := if fixed then (if bs.length ≤ capN then "1" else "0") else "na"
      s!"ok {showOut bs} rt={rt} fx={fx} mut=0"
  | _, _, _, _ => "bad-op"

end XC.C22
