import XC.Model.C13
namespace XC.C13

/-- finite map given as concatenated 32-byte records `in(16) ‖ out(16)`; a miss yields `[]`
    (the result is then shorter than the input and the driver prints `oracle-miss`) -/
def lookup (tbl : List (Bytes × Bytes)) (x : Bytes) : Bytes :=
  match tbl.find? (fun p => p.1 == x) with
  | some p => p.2
  | none => []

def pairs (bs : Bytes) : List (Bytes × Bytes) := (chunks 32 bs).map (fun c => (c.take 16, c.drop 16))

def showOut (n : Nat) : Out → String
  | .panic => "panic"
  | .ok b => if b.length != n then "oracle-miss" else s!"ok:{toHex b}"

/-- `xts ciph=toy|toy8|aes key=<hex> sector=<u64> src=<hex> dstlen=<n> off=sep|<int> [oe1= od1= oe2=]`
    → `err` (NewCipher failed) or `<Encrypt(src)> <Decrypt(src)>` each `ok:<hex>` | `panic` -/
def handle1 (o : Op) : String :=
  if o.cmd != "xts" then "bad-op" else
  match o.hex? "key", o.hex? "src", o.nat? "sector", o.nat? "dstlen" with
  | some key, some src, some sector, some dstLen =>
    if sector ≥ 2 ^ 64 then "bad-op" else
    let ovl? : Option (Option Int) :=
      if o.str "off" == "sep" then some none else (o.int? "off").map some
    match ovl? with
    | none => "bad-op"
    | some ovl =>
      let sec := UInt64.ofNat sector
      -- small same-buffer cases run through the ARENA model (`cryptMem`, the harness's buffer geometry:
      -- 0xa5-filled buffer, src at a = max(0,-d), dst at a+d); everything else through the functional
      -- model — `Props.xts_inplace_eq` proves the two agree
      let viaMem (f E2 : Bytes → Bytes) (d : Int) : String × Bool :=
        let a := (-d).toNat
        let dOff := (d + (a : Int)).toNat
        let size := a + d.natAbs + src.length + dstLen + 64
        let arena := Mem.wr (List.replicate size (0xa5 : UInt8)) a src
        match cryptMem f E2 arena ⟨dOff, dstLen⟩ ⟨a, src.length⟩ sec with
        | .panic => ("panic", true)
        | .ok m => (showOut src.length (.ok (Mem.rd m dOff src.length)),
            -- every arena byte outside dst[:len(src)] is unchanged (computed here; `Props.cryptMem_outside`)
            m.take dOff == arena.take dOff && m.drop (dOff + src.length) == arena.drop (dOff + src.length))
      let run (E1 D1 E2 : Bytes → Bytes) : String :=
        match ovl with
        | some d =>
          if src.length ≤ 256 then
            let e := viaMem E1 E2 d
            let dd := viaMem D1 E2 d
            s!"{e.1} {dd.1} mutated={if e.2 && dd.2 then "none" else "buf"}"
          else s!"{showOut src.length (encrypt E1 E2 dstLen ovl src sec)} {showOut src.length (decrypt D1 E2 dstLen ovl src sec)} mutated=none"
        | none =>
          s!"{showOut src.length (encrypt E1 E2 dstLen ovl src sec)} {showOut src.length (decrypt D1 E2 dstLen ovl src sec)} mutated=none"
      match o.str "ciph" with
      | "toy" =>
        if !newCipherOk [16] 16 key.length then "err mutated=none" else
        let k1 := key.take 16; let k2 := key.drop 16
        run (Toy.enc k1) (Toy.dec k1) (Toy.enc k2)
      | "toy8" => if !newCipherOk [16] 8 key.length then "err mutated=none" else "bad-op"
      | "aes" =>
        if !newCipherOk [16, 24, 32] 16 key.length then "err mutated=none" else
        match o.hex? "oe1", o.hex? "od1", o.hex? "oe2" with
        | some a, some b, some c => run (lookup (pairs a)) (lookup (pairs b)) (lookup (pairs c))
        | _, _, _ => "bad-op"
      | _ => "bad-op"
  | _, _, _, _ => "bad-op"

/-- with `expect=<published ciphertext>` (corpus): ` kat=ok` iff the MODEL's Encrypt output equals it -/
def handle (line : String) : String :=
  let o := parseOp line
  let r := handle1 o
  match o.get? "expect" with
  | none => r
  | some e => if r.startsWith ("ok:" ++ e ++ " ") then r ++ " kat=ok" else r ++ " kat=MODEL-MISMATCH"

end XC.C13
