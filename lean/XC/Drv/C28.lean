import XC.Model.C28
namespace XC.C28

def names (o : Op) (k : String) : List String :=
  match o.get? k with
  | none => []
  | some "-" => []
  | some s => s.splitOn ","

def showS (s : String) : String := if s.isEmpty then "-" else s

def showAlgs : Option Algs → String
  | none => "err"
  | some a => s!"ok {showS a.kex} {showS a.hostKey} {showS a.write.cipher} {showS a.write.mac} {showS a.write.comp} {showS a.read.cipher} {showS a.read.mac} {showS a.read.comp}"

/-- `neg ck= sk= chk= shk= cccs= sccs= ccsc= scsc= cmcs= smcs= cmsc= smsc= czcs= szcs= czsc= szsc=` -/
def handle (line : String) : String :=
  let o := parseOp line
  if o.cmd != "neg" then "bad-op" else
  let c : Init := ⟨names o "ck", names o "chk", names o "cccs", names o "ccsc", names o "cmcs", names o "cmsc", names o "czcs", names o "czsc"⟩
  let s : Init := ⟨names o "sk", names o "shk", names o "sccs", names o "scsc", names o "smcs", names o "smsc", names o "szcs", names o "szsc"⟩
  s!"C:{showAlgs (findAgreed true c s)} S:{showAlgs (findAgreed false c s)}"

end XC.C28
