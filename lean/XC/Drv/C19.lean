import XC.Model.C19
namespace XC.C19

/-- `key pw=<hex> salt=<hex> rep=<n> rounds=<int> keylen=<int> [lay=<0|1|2>] [expect=<hex>]` (salt = the hex pattern repeated `rep` times)
    → `ok <hex>` | `err` | `panic`, each followed by `mutated=none`: Key is a function of its arguments'
    bytes; `lay` (how the harness places salt and password in one backing array) cannot matter and no
    argument buffer may change -/
def handle (line : String) : String :=
  let o := parseOp line
  if o.cmd != "key" then "bad-op" else
  match o.hex? "pw", o.hex? "salt", o.nat? "rep", o.int? "rounds", o.int? "keylen" with
  | some pw, some salt, some rep, some rounds, some kl =>
    let s := (List.replicate rep salt).flatten
    match key pw s rounds kl with
    | .ok k =>
      match o.get? "expect" with
      | none => "ok " ++ toHex k ++ " mutated=none"
      | some e => "ok " ++ toHex k ++ " mutated=none" ++ (if toHex k == e then " kat=ok" else " kat=MODEL-MISMATCH")
    | .err => "err mutated=none"
    | .panic => "panic mutated=none"
  | _, _, _, _, _ => "bad-op"

end XC.C19
