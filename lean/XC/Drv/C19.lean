import XC.Model.C19
namespace XC.C19

/-- `key pw=<hex> salt=<hex> rep=<n> rounds=<int> keylen=<int> [expect=<hex>]` (salt = the hex pattern repeated `rep` times)
    → `ok <hex>` | `err` | `panic` -/
def handle (line : String) : String :=
  let o := parseOp line
  if o.cmd != "key" then "bad-op" else
  match o.hex? "pw", o.hex? "salt", o.nat? "rep", o.int? "rounds", o.int? "keylen" with
  | some pw, some salt, some rep, some rounds, some kl =>
    let s := (List.replicate rep salt).flatten
    match key pw s rounds kl with
    | .ok k =>
      match o.get? "expect" with
      | none => "ok " ++ toHex k
      | some e => "ok " ++ toHex k ++ (if toHex k == e then " kat=ok" else " kat=MODEL-MISMATCH")
    | .err => "err"
    | .panic => "panic"
  | _, _, _, _, _ => "bad-op"

end XC.C19
