import XC.Model.C46
namespace XC.C46

def hexList? (o : Op) (k : String) : Option (List Bytes) :=
  match o.get? k with
  | none => none
  | some "-" => some []
  | some s => (s.splitOn ",").mapM (fun e => if e == "e" then some [] else ofHex e)

/-- split `bs` by sizes; what is left over is a last chunk -/
def splitBy : Bytes → List Nat → List Bytes
  | bs, [] => if bs.isEmpty then [] else [bs]
  | bs, n :: ns => bs.take n :: splitBy (bs.drop n) ns

def showHdr (m : Hdr) : String :=
  if m.isEmpty then "-" else
  let a := (m.map (fun kv => (toHex kv.1, toHex kv.2))).toArray.qsort (fun x y => x.1 < y.1)
  ",".intercalate (a.toList.map (fun kv => kv.1 ++ ":" ++ kv.2))

def showEnd : BodyEnd → String
  | .eof => "eof" | .corrupt => "corrupt" | .b64 => "b64" | .ueof => "ueof"

def showDec : Option (Bytes × Hdr × Bytes × BodyEnd) → String
  | none => "nil"
  | some (ty, m, b, e) => s!"ty={toHex ty} hdr={showHdr m} body={toHex b} end={showEnd e}"

def showHashes (hs : List Bytes) : String :=
  if hs.isEmpty then "-" else ",".intercalate (hs.map toHex)

def placeholderSig : Bytes := str "-----BEGIN PGP SIGNATURE-----\n\n=twTO\n-----END PGP SIGNATURE-----"

def handle (line : String) : String :=
  let o := parseOp line
  match o.cmd with
  | "arm" =>
    match o.hex? "ty", hexList? o "hk", hexList? o "hv", o.natList? "ch", o.hex? "body" with
    | some ty, some hk, some hv, some ch, some body =>
      if hk.length != hv.length then "bad-op" else
      let out := encodeGo ty (hk.zip hv) (splitBy body ch)
      s!"out={toHex out} {showDec (decode out)}"
    | _, _, _, _, _ => "bad-op"
  | "dec" =>
    match o.hex? "data" with
    | some d => showDec (decode d)
    | none => "bad-op"
  | "clr" =>
    match o.hex? "hash", o.natList? "ch", o.hex? "pt" with
    | some hn, some ch, some pt =>
      let e := csEncode hn (splitBy pt ch)
      match csDecode (e.1 ++ placeholderSig) with
      | none => s!"text={toHex e.1} dec=nil"
      | some b => s!"text={toHex e.1} dec=ok hashes={showHashes b.hashes} pt={toHex b.plaintext} bytes={toHex b.bytes} rest={toHex b.rest} sig={if cth b.bytes == e.2 then "ok" else "bad"}"
    | _, _, _ => "bad-op"
  | "clrm" =>
    -- clearsign.EncodeMulti: same text and canonical form whatever the number of signers; one signature packet per key
    match o.nat? "nk", o.nat? "enc", o.hex? "hash", o.natList? "ch", o.hex? "pt" with
    | some nk, some enc, some hn, some ch, some pt =>
      if enc == 1 && nk > 0 then "err:arg"                       -- encrypted signing key: InvalidArgumentError
      else if !([str "MD5", str "SHA1", str "RIPEMD160", str "SHA224", str "SHA256", str "SHA384", str "SHA512"].contains hn) then "err:unsup"
      else
        let e := csEncode hn (splitBy pt ch)
        match csDecode (e.1 ++ placeholderSig) with
        | none => s!"text={toHex e.1} dec=nil"
        | some b => s!"text={toHex e.1} dec=ok hashes={showHashes b.hashes} pt={toHex b.plaintext} bytes={toHex b.bytes} rest={toHex b.rest} nsig={nk} sig={if nk == 0 then "none" else if cth b.bytes == e.2 then "ok" else "bad"}"
    | _, _, _, _, _ => "bad-op"
  | "clr2" =>
    match o.natList? "ch", o.hex? "pt", o.hex? "pt2" with
    | some ch, some pt, some pt2 =>
      let e1 := csEncode (str "SHA256") (splitBy pt ch)
      let e2 := csEncode (str "SHA256") [pt2]
      match csDecode (e2.1 ++ placeholderSig) with
      | none => "dec=nil"
      | some b => s!"sig={if cth b.bytes == e1.2 then "ok" else "bad"}"
    | _, _, _ => "bad-op"
  | "clrdec" =>
    match o.hex? "data" with
    | some d =>
      match csDecode d with
      | none => "nil"
      | some b => s!"ok hashes={showHashes b.hashes} pt={toHex b.plaintext} bytes={toHex b.bytes} arm=[{showDec (some (b.armorType, b.armorHdr, b.armorBody, b.armorEnd))}] rest={toHex b.rest}"
    | none => "bad-op"
  | "gpgclr" =>
    -- GnuPG is not modelled: `gpg --verify` of the real clearsigned output is expected to succeed
    match o.natList? "ch", o.hex? "pt" with
    | some _, some _ => "gpg=ok"
    | _, _ => "bad-op"
  | _ => "bad-op"

end XC.C46
