import XC.Model.C04
namespace XC.C04

/-- spec tag by Horner evaluation (same value as `tagSpec`, proved in Props; cheaper to run) -/
def tagHorner (key msg : Bytes) : Bytes :=
  natToLE 16 ((horner (rOf key) 0 msg + sOf key) % 2 ^ 128)

def showOut : Out → String
  | .wrote n => s!"w{n}"
  | .tag t => toHex t
  | .ok b => if b then "v1" else "v0"
  | .panic => "panic"

/-- `w:<n>` (next n bytes of msg), `s`, `sb:<hex>` (Sum(prefix)), `v:<hex>` -/
def parseCalls (msg : Bytes) : List String → Option (List Call)
  | [] => some []
  | t :: rest =>
    match t.splitOn ":" with
    | ["w", n] => do
      let n ← n.toNat?
      if n > msg.length then none else
      let cs ← parseCalls (msg.drop n) rest
      pure (.write (msg.take n) :: cs)
    | ["s"] => do
      let cs ← parseCalls msg rest
      pure (.sum [] :: cs)
    | ["sb", h] => do
      let b ← ofHex h
      let cs ← parseCalls msg rest
      pure (.sum b :: cs)
    | ["v", h] => do
      let b ← ofHex h
      let cs ← parseCalls msg rest
      pure (.verify b :: cs)
    | _ => none

def handle1 (line : String) : String :=
  let o := parseOp line
  if o.cmd == "api" then s!"TagSize={tagSize} Size={tagSize}" else
  match o.hex? "key", o.hex? "msg" with
  | some key, some msg =>
    if key.length != 32 then "bad-op" else
    if o.cmd == "sum" then
      match sumOneShot key msg with
      | none => "panic"
      | some t => if t == tagHorner key msg then toHex t else "model-spec-mismatch"
    else if o.cmd == "kat" then   -- published vector: the model must reproduce the published tag
      match o.hex? "tag", sumOneShot key msg with
      | some tag, some t => if t == tag ∧ tagSpec key msg == tag then "kat-ok" else "kat-mismatch"
      | _, _ => "bad-op"
    else if o.cmd == "verify" then
      match o.hex? "tag" with
      | some tag =>
        if tag.length != 16 then "bad-op" else
        match verifyOneShot tag key msg with
        | none => "panic"
        | some b => if b then "v1" else "v0"
      | none => "bad-op"
    else if o.cmd == "histc" then   -- like hist, but the caller recovers from each panic and continues
      match o.get? "ops" with
      | none => "bad-op"
      | some ops =>
        match parseCalls msg (if ops == "-" then [] else ops.splitOn ",") with
        | none => "bad-op"
        | some calls =>
          let outs := (new key).runAll calls
          if outs.isEmpty then "-" else "|".intercalate (outs.map showOut)
    else if o.cmd == "hist" then
      match o.get? "ops" with
      | none => "bad-op"
      | some ops =>
        match parseCalls msg (if ops == "-" then [] else ops.splitOn ",") with
        | none => "bad-op"
        | some calls =>
          let outs := (new key).run calls
          if outs.isEmpty then "-" else "|".intercalate (outs.map showOut)
    else "bad-op"
  | _, _ => "bad-op"

/-- `sess ops=<op1>|<op2>|…` (sub-op fields separated by `;`): a session of calls that share arrays and buffers in
    the harness. The model is a pure function of contents: each sub-op is answered on its own. -/
def handle (line : String) : String :=
  let o := parseOp line
  if o.cmd == "sess" then
    match o.get? "ops" with
    | some v => " ## ".intercalate ((v.splitOn "|").map (fun s => handle1 (s.replace ";" " ")))
    | none => "bad-op"
  else handle1 line

end XC.C04
