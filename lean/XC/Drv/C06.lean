import XC.Model.C06
namespace XC.C06
open XC.C05

inductive XOp where
  | w (n : Nat)
  | rd (n : Nat)
  | sk (n : Nat)
  | clone
  | swap
  | reset
  | bsz

def parseXOp (s : String) : Option XOp :=
  if s == "c" then some .clone
  else if s == "x" then some .swap
  else if s == "r" then some .reset
  else if s == "z" then some .bsz
  else if s.startsWith "sk" then (s.drop 2).toString.toNat?.map .sk
  else if s.startsWith "rd" then (s.drop 2).toString.toNat?.map .rd
  else if s.startsWith "w" then (s.drop 1).toString.toNat?.map .w
  else none

def parseXOps (s : String) : Option (List XOp) :=
  if s == "-" then some [] else (s.splitOn ",").mapM parseXOp

/-- `cur` is the XOF the calls go to, `other` the last clone (or none); `x` swaps them -/
def runX {X : XAlg} : Xof X → Option (Xof X) → List XOp → Bytes → List String → Option (List String)
  | _, _, [], _, acc => some acc.reverse
  | cur, oth, .w n :: rest, data, acc =>
    if n > data.length then none else
    match cur.write (data.take n) with
    | none => runX cur oth rest (data.drop n) ("panic" :: acc)   -- the panic is raised before anything changes
    | some cur' => runX cur' oth rest (data.drop n) acc
  | cur, oth, .rd n :: rest, data, acc =>
    let (cur', out, eof) := cur.read n
    runX cur' oth rest data ((if eof then "eof" else toHex out) :: acc)
  | cur, oth, .sk n :: rest, data, acc => runX (cur.skip n) oth rest data acc
  | cur, _, .clone :: rest, data, acc => runX cur (some cur) rest data acc
  | cur, oth, .swap :: rest, data, acc =>
    match oth with
    | none => none
    | some o => runX o (some cur) rest data acc
  | cur, oth, .reset :: rest, data, acc => runX cur.reset oth rest data acc
  | cur, oth, .bsz :: rest, data, acc => runX cur oth rest data (s!"z{X.A.bs}" :: acc)

def xofOn (X : XAlg) (o : Op) : String :=
  match o.nat? "len", o.hex? "key", parseXOps (o.str "ops"), o.hex? "data" with
  | some len, some key, some ops, some data =>
    match newXOF X len key with
    | .error _ => "err"
    | .ok x =>
      match runX x none ops data [] with
      | none => "bad-op"
      | some outs => if outs.isEmpty then "none" else ",".intercalate outs
  | _, _, _, _ => "bad-op"

/-- `xof alg=b|s len=N key=HEX ops=w5,rd10,sk4096,c,rd3,x,rd4,r,… data=HEX` (`skN` = Read N bytes and discard them) -/
def handle0 (line : String) : String :=
  let o := parseOp line
  if o.cmd != "xof" then "bad-op" else
  match o.get? "alg" with
  | some "b" => xofOn XB o
  | some "s" => xofOn XS o
  | _ => "bad-op"

/-- the harness appends ` mut=…` (caller-memory report of hx.Arena: inputs unmodified, nothing written outside
    the permitted regions, nothing retained); the model is a pure function of contents, so it answers `mut=-` -/
def handle (line : String) : String :=
  let r := handle0 line
  if r == "bad-op" then r else r ++ " mut=-"

end XC.C06
