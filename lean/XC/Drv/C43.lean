import XC.Model.C43
namespace XC.C43
open XC

def splitList (s : String) (sep : String) : List String :=
  if s == "-" || s == "" then [] else s.splitOn sep

/-- `K=<blobhex>:<prefixhex>,…` -/
def parseIdents (s : String) : Option (List Ident) :=
  (splitList s ",").mapM fun e =>
    match e.splitOn ":" with
    | [b, p] => do pure ⟨← ofHex b, ← ofHex p⟩
    | _ => none

def identIdx (ids : List Ident) (blob : Bytes) : String :=
  match ids.findIdx? (fun i => i.blob == blob) with
  | some i => toString i
  | none => "?"

def asciiStr (b : Bytes) : String := String.ofList (b.map fun c => Char.ofNat c.toNat)

def showRes (ids : List Ident) : Res → String
  | .ok => "ok"
  | .err => "err"
  | .keys ks => "keys:" ++ (if ks.isEmpty then "-" else ",".intercalate (ks.map fun k => identIdx ids k.1 ++ "/" ++ toHex k.2))
  | .sig b f => s!"sig:{identIdx ids b}:{asciiStr f}"
  | .signers bs => "signers:" ++ (if bs.isEmpty then "-" else ",".intercalate (bs.map (identIdx ids)))
  | .unsupported => "unsupported"
  | .panic => "panic"

/-- the j-th constraint extension used by the harness -/
def extN (j : Nat) : Bytes × Bytes := (s2b "ext@example.com", [UInt8.ofNat j, 1, 2])

inductive SOp where
  | add (i : Nat) (life : Nat) (conf : Bool) (next : Nat) (comment : Bytes)
  | mismatch (i j : Nat)
  | remove (i : Nat)
  | removeAll
  | lock (pw : Bytes)
  | unlock (pw : Bytes)
  | list
  | sign (i : Nat) (flags : Nat) (data : Bytes)
  | signers
  | ext (typ contents : Bytes)
  | sleep (secs : Nat)
  | sleepMs (ms : Nat)
  | phase (ms : Nat)
  | verifyKeys
  | signerSign (i : Nat) (algo : Bytes)
  | unsupported

def parseBool (s : String) : Option Bool :=
  if s == "1" then some true else if s == "0" then some false else none

def parseSOp (e : String) : Option SOp :=
  match e.splitOn "." with
  | ["a", i, l, c, n, cm] => do pure (.add (← i.toNat?) (← l.toNat?) (← parseBool c) (← n.toNat?) (← ofHex cm))
  | ["m", i, j] => do pure (.mismatch (← i.toNat?) (← j.toNat?))
  | ["r", i] => do pure (.remove (← i.toNat?))
  | ["R"] => some .removeAll
  | ["l", pw] => do pure (.lock (← ofHex pw))
  | ["u", pw] => do pure (.unlock (← ofHex pw))
  | ["L"] => some .list
  | ["s", i, f, d] => do pure (.sign (← i.toNat?) (← f.toNat?) (← ofHex d))
  | ["S"] => some .signers
  | ["x", t, c] => do pure (.ext (← ofHex t) (← ofHex c))
  | ["z", n] => do pure (.sleep (← n.toNat?))
  | ["y", n] => do pure (.sleepMs (← n.toNat?))
  | ["p", n] => do pure (.phase (← n.toNat?))
  | ["V"] => some .verifyKeys
  | ["G", i, a] => do pure (.signerSign (← i.toNat?) (← ofHex a))
  | ["au"] => some .unsupported
  | _ => none

def toOp (ids : List Ident) : SOp → Option Op
  | .add i l c n cm => do let id ← ids[i]?; pure (.add ⟨id.blob, true, cm, l, c, n⟩)
  | .mismatch i j => do let _ ← ids[i]?; let jd ← ids[j]?; pure (.add ⟨jd.blob, false, [], 0, false, 0⟩)
  | .remove i => do pure (.remove (← ids[i]?).blob)
  | .removeAll => some .removeAll
  | .lock pw => some (.lock pw)
  | .unlock pw => some (.unlock pw)
  | .list => some .list
  | .sign i f _ => do pure (.sign (← ids[i]?).blob f)
  | .signers => some .signers
  | .ext t c => some (.extension t c)
  | .sleep _ => none
  | .sleepMs _ => none
  | .phase _ => none
  | .verifyKeys => none
  | .signerSign .. => none
  | .unsupported => some (.add ⟨[], false, [], 0, false, 0⟩)

def toCOp (ids : List Ident) : SOp → Option COp
  | .add i l c n cm => do pure (.add (← ids[i]?) false cm l c ((List.range n).map extN))
  | .mismatch i j => do let _ ← ids[i]?; pure (.add (← ids[j]?) true [] 0 false [])
  | .remove i => do pure (.remove (← ids[i]?).blob)
  | .removeAll => some .removeAll
  | .lock pw => some (.lock pw)
  | .unlock pw => some (.unlock pw)
  | .list => some .list
  | .sign i f d => do pure (.sign (← ids[i]?).blob d f)
  | .signers => some .signers
  | .ext t c => some (.extension t c)
  | .sleep _ => none
  | .sleepMs _ => none
  | .phase _ => none
  | .verifyKeys => none
  | .signerSign .. => none
  | .unsupported => do pure (.add (← ids[0]?) true [] 0 false [])

/-- what `SignWithAlgorithm(algo)` on a signer for a key of format `kf` produces (both the keyring's own
    signers and the client's agentKeyringSigner): `none` = error -/
def signerAlgo (blob algo : Bytes) : Option Bytes :=
  let kf := underlyingFormat (blobFormat blob)
  if algo.isEmpty || algo == kf then some kf
  else if kf == kRSA && (algo == kRSA256 || algo == kRSA512) then some algo
  else none

/-- run a sequence: the clock advances by one tick per op and by `secs * tps` on a sleep -/
def runSeq (ids : List Ident) (wire : Bool) : KR → Int → List SOp → Option (KR × List String)
  | r, _, [] => some (r, [])
  | r, t, op :: rest =>
    match op with
    | .sleep n => (runSeq ids wire r (t + n * tps + 1) rest).map fun (r', o) => (r', "z" :: o)
    | .sleepMs n => (runSeq ids wire r (t + n * (tps / 1000) + 1) rest).map fun (r', o) => (r', "z" :: o)
    | .phase _ =>
      -- wait for a phase of the wall-clock second: the outcome must not depend on it (no model time passes;
      -- the generator only places it where no finite-lifetime key exists yet)
      (runSeq ids wire r (t + 1) rest).map fun (r', o) => (r', "z" :: o)
    | .verifyKeys =>
      -- List, then Sign(k, data) + k.Verify for every listed *Key
      let (r', res) := if wire then wireStep ids r t .list else r.step t .list
      let out := match res with
        | .keys ks => "kv:" ++ (if ks.isEmpty then "-" else ",".intercalate (ks.map fun k =>
            match (r'.sign t k.1 0).2 with
            | .sig b f => identIdx ids b ++ ":" ++ asciiStr f
            | _ => identIdx ids k.1 ++ ":err"))
        | other => showRes ids other
      (runSeq ids wire r' (t + 1) rest).map fun (r'', o) => (r'', out :: o)
    | .signerSign i algo =>
      match ids[i]? with
      | none => none
      | some id =>
        let (r', res) := if wire then wireStep ids r t .signers else r.step t .signers
        let out := match res with
          | .signers bs =>
            if bs.contains id.blob then
              match signerAlgo id.blob algo with
              | some f => s!"sig:{i}:{asciiStr f}"
              | none => "err"
            else "none"
          | other => showRes ids other
        (runSeq ids wire r' (t + 1) rest).map fun (r'', o) => (r'', out :: o)
    | _ =>
      if wire then
        match toCOp ids op with
        | none => none
        | some c =>
          let (r', res) := wireStep ids r t c
          (runSeq ids wire r' (t + 1) rest).map fun (r'', o) => (r'', showRes ids res :: o)
      else
        match toOp ids op with
        | none => none
        | some c =>
          let (r', res) := r.step t c
          (runSeq ids wire r' (t + 1) rest).map fun (r'', o) => (r'', showRes ids res :: o)

def parseOps (s : String) : Option (List SOp) := (splitList s ";").mapM parseSOp

def showReply (ids : List Ident) : Option Reply → String
  | none => "-"
  | some .failure => "05"
  | some .success => "06"
  | some (.bytes b) => toHex b
  | some (.sig b f) => s!"sig:{identIdx ids b}:{asciiStr f}"
  | some .opaque => "replied"
  | some .panic => "panic"

def parseFrame (e : String) : Option Frame :=
  match e.splitOn "." with
  | ["b", h] => do let b ← ofHex h; pure ⟨b.length, b⟩
  | ["h", n] => do pure ⟨← n.toNat?, []⟩
  | _ => none

def handleOp (line : String) : String :=
  let o := parseOp line
  match (o.get? "K").bind parseIdents with
  | none => "bad-op"
  | some ids =>
    match o.cmd with
    | "seq" =>
      let mode := o.str "mode"
      if mode != "direct" && mode != "wire" && mode != "wirep" && mode != "fwda" && mode != "fwdr" then "bad-op" else
      match (o.get? "ops").bind parseOps with
      | none => "bad-op"
      | some ops =>
        match runSeq ids (mode != "direct") {} 0 ops with
        | none => "bad-op"
        | some (_, out) => "|".intercalate out
    | "frames" =>
      match (o.get? "init").bind parseOps, (splitList (o.str "f") ";").mapM parseFrame with
      | some init, some frames =>
        match runSeq ids false {} 0 init with
        | none => "bad-op"
        | some (r, _) => "|".intercalate ((serve ids (init.length + 1) r frames).map (showReply ids))
      | _, _ => "bad-op"
    | "conc" =>   -- read-only calls issued concurrently through the pipelined client: each gets ITS answer
      match (o.get? "init").bind parseOps, (o.get? "calls").bind parseOps with
      | some init, some calls =>
        match runSeq ids false {} 0 init with
        | none => "bad-op"
        | some (r, _) =>
          match calls.mapM (toCOp ids) with
          | none => "bad-op"
          | some cs => "|".intercalate (cs.map fun c => showRes ids (wireStep ids r (init.length + 1) c).2)
      | _, _ => "bad-op"
    | "enc" =>
      match (o.get? "op").bind parseSOp with
      | none => "bad-op"
      | some sop =>
        match toCOp ids sop with
        | none => "bad-op"
        | some c =>
          let reqS := match c, c.request with
            | _, none => "none"
            | .add i .., some req => s!"{req.headD 0}:{toHex (req.drop (1 + i.prefix_.length))}"
            | _, some req => toHex req
          -- the client's reading of an arbitrary reply (rep=) from a foreign agent
          match o.hex? "rep", c.request with
          | some rep, some _ => reqS ++ " " ++ showRes ids (c.decode (.bytes rep))
          | some _, none => reqS ++ " err"
          | none, _ => reqS
    | _ => "bad-op"

/-- steps agree, where the implementation may answer `timing-inconclusive` for a step whose outcome its own
    wall-clock measurements could not decide (real-clock sequences only) -/
def stepsAgree (impl model : String) : Bool :=
  let a := impl.splitOn "|"
  let b := model.splitOn "|"
  a.length == b.length && (a.zip b).all fun (x, y) => x == y || x == "timing-inconclusive"

/-- accept mode: `op<TAB>observable of the implementation` → `ok` or the expected observable.
    Without a TAB the line is an op and the answer is the model's observable (manual use). -/
def handle (line : String) : String :=
  match line.splitOn "\t" with
  | [op, impl] =>
    let m := handleOp op
    if m == "bad-op" then "bad-op"
    else if impl == m then "ok"
    else if (parseOp op).cmd == "seq" && stepsAgree impl m then "ok"
    else "MISMATCH expected=" ++ m
  | _ => handleOp line

end XC.C43
