import XC.Model.C18
namespace XC.C18
open XC.Prim

def showReads (outs : List (Option Bytes)) : String :=
  if outs.isEmpty then "none" else
  "|".intercalate (outs.map fun o => match o with | none => "err" | some b => toHex b)

/-- `hk api=new|expand hash= secret= salt= info= reads=…` → per-Read bytes / `err`
    `ex hash= secret= salt=` → PRK
    `pb hash= pw= salt= iter= keylen=` → key / `panic`
    `kat kind=hkdf|pbkdf2 … want=` → `<spec>|<spec>` -/
def handle (line : String) : String :=
  let o := parseOp line
  match algByName (o.str "hash") with
  | none => "bad-op"
  | some a =>
  if o.cmd == "hk" then
    match o.hex? "secret", o.hex? "salt", o.hex? "info", o.natList? "reads" with
    | some secret, some salt, some info, some reads =>
      let prk? : Option Bytes := match o.str "api" with
        | "new" => some (extract a secret salt)
        | "expand" => some secret
        | _ => none
      match prk? with
      | none => "bad-op"
      | some prk =>
        match o.get? "infomut" with
        | none => showReads (readMany (hmac a prk) (newReader a info) reads)
        | some im =>
          match im.splitOn ":" with
          | [k, h] =>
            match k.toNat?, ofHex h with
            | some mutAt, some info' =>
              if info'.length != info.length then "bad-op"
              else showReads (readManyMut (hmac a prk) (newReader a info) reads mutAt info')
            | _, _ => "bad-op"
          | _ => "bad-op"
    | _, _, _, _ => "bad-op"
  else if o.cmd == "ex" then
    match o.hex? "secret", o.hex? "salt" with
    | some secret, some salt => toHex (extract a secret salt)
    | _, _ => "bad-op"
  else if o.cmd == "pb" then
    match o.hex? "pw", o.hex? "salt", o.int? "iter", o.int? "keylen" with
    | some pw, some salt, some iter, some kl =>
      match pbkdf2Key a pw salt iter kl with
      | none => "panic"
      | some k => toHex k
    | _, _, _, _ => "bad-op"
  else if o.cmd == "pbw" then
    -- windows of a long key: `len=<n>[ sha256=<digest of the whole key>]|<i>:<bytes of block i inside the key>|…`
    match o.hex? "pw", o.hex? "salt", o.int? "iter", o.nat? "keylen", o.natList? "blocks" with
    | some pw, some salt, some iter, some kl, some blocks =>
      if kl = 0 then "panic" else
      let l := (kl + a.size - 1) / a.size
      if blocks.any (fun i => i = 0 ∨ i > l) then "bad-op" else
      let head := if o.str "full" == "1" then
          s!"len={kl} sha256={toHex (sha256 (pbkdf2KeyLinear a pw salt iter kl))}"
        else s!"len={kl}"
      "|".intercalate (head :: blocks.map fun i => s!"{i}:{toHex (pbkdf2Window a pw salt iter kl i)}")
    | _, _, _, _, _ => "bad-op"
  else if o.cmd == "kat" then
    match o.str "kind" with
    | "hkdf" =>
      match o.hex? "secret", o.hex? "salt", o.hex? "info", o.nat? "len" with
      | some secret, some salt, some info, some L =>
        match expand a (extract a secret salt) info L with
        | some k => s!"{toHex k}|{toHex k}"
        | none => "err|err"
      | _, _, _, _ => "bad-op"
    | "pbkdf2" =>
      match o.hex? "pw", o.hex? "salt", o.int? "iter", o.int? "keylen" with
      | some pw, some salt, some iter, some kl =>
        match pbkdf2Key a pw salt iter kl with
        | none => "panic|panic"
        | some k => s!"{toHex k}|{toHex k}"
      | _, _, _, _ => "bad-op"
    | _ => "bad-op"
  else "bad-op"

end XC.C18
