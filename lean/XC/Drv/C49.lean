import XC.Model.C49
namespace XC.C49

def hexNat? (s : String) : Option Nat := (ofHex s).map natOfBE

def curve? (s : String) : Option Curve :=
  if s == "P-256" then some .p256 else if s == "P-384" then some .p384
  else if s == "P-521" then some .p521 else if s == "P-224" then some .p224 else none

/-- `rsa:<n hex>:<e hex>` | `ec:<curve>:<x hex>:<y hex>` -/
def pub? (s : String) : Option Pub :=
  match s.splitOn ":" with
  | ["rsa", n, e] => do pure (.rsa (← hexNat? n) (← hexNat? e))
  | ["ec", c, x, y] => do pure (.ec (← curve? c) (← hexNat? x) (← hexNat? y))
  | _ => none

def str (b : Bytes) : String := String.ofList (b.map fun c => Char.ofNat c.toNat)
def showS (b : Bytes) : String := if b.isEmpty then "-" else str b

def payload? (s : String) : Option Payload :=
  match s.splitOn ":" with
  | ["s", h] => (ofHex h).map .str
  | ["j", h] => (ofHex h).map .json
  | _ => none

inductive SigSpec | script (s : SigScript) | real

def sig? (s : String) : Option SigSpec :=
  match s.splitOn ":" with
  | ["der", r, t] => do pure (.script (.der (← hexNat? r) (← hexNat? t)))
  | ["raw", h] => (ofHex h).map fun b => .script (.raw b)
  | ["fail"] => some (.script .fail)
  | ["real"] => some .real
  | _ => none

def flag (b : Bool) : String := if b then "1" else "0"

def hasMember (ms : Members) (k : String) : Bool := ms.any fun m => m.1 == asc k

def handleJws (o : Op) : String :=
  match (o.get? "key").bind pub?, o.hex? "kid", o.hex? "nonce", o.hex? "url", (o.get? "pl").bind payload?, (o.get? "sig").bind sig? with
  | some p, some kid, some nonce, some url, some pl, some sg =>
    if !(printable kid && printable nonce && printable url && printable (payloadField pl)) then "bad-op" else
    let script : SigScript := match sg with
      | .script s => s
      | .real => match p with | .rsa _ _ => .raw [] | .ec _ _ _ => .der 1 1
    match jwsEncode p kid nonce url pl script with
    | .err => "err"
    | .panic => "panic"
    | .ok alg hj payload digest sig =>
      let ms := headerMembers alg p kid nonce url
      let head := s!"ok alg={str alg} jwk={flag (hasMember ms "jwk")} kid={flag (hasMember ms "kid")} prot={toHex hj} payload={toHex payload}"
      match sg with
      | .script _ => s!"{head} digest={toHex digest} sig={toHex sig} out={toHex (jwsJSON (b64Enc hj) payload sig)}"
      | .real =>
        let n := match p with | .rsa n _ => byteLen n | .ec c _ _ => 2 * sigSize c
        s!"{head} verify=1 siglen={n}"
  | _, _, _, _, _, _ => "bad-op"

def handleJwk (o : Op) : String :=
  match (o.get? "key").bind pub? with
  | some p =>
    -- a corpus line may carry the published thumbprint: the model must reproduce it
    match o.get? "expect" with
    | some e => if e != str (thumbprint p) then "vector-mismatch" else s!"ok jwk={toHex (jwkEncode p)} thumb={str (thumbprint p)}"
    | none => s!"ok jwk={toHex (jwkEncode p)} thumb={str (thumbprint p)}"
  | none => "bad-op"

def showMac : Option (Bytes × Bytes × Bytes) → String
  | none => "err"
  | some (hj, payload, sig) => s!"ok prot={toHex hj} payload={showS payload} sig={toHex sig}"

def handleMac (o : Op) : String :=
  match o.hex? "key", o.hex? "kid", o.hex? "url", o.hex? "raw" with
  | some key, some kid, some url, some raw =>
    if !(printable kid && printable url) then "bad-op" else showMac (jwsWithMAC key kid url raw)
  | _, _, _, _ => "bad-op"

def handleEab (o : Op) : String :=
  match (o.get? "acct").bind pub?, o.hex? "key", o.hex? "kid", o.hex? "url" with
  | some p, some key, some kid, some url =>
    if !(printable kid && printable url) then "bad-op" else showMac (eab p url kid key)
  | _, _, _, _ => "bad-op"

def script? (s : String) : Option SigScript :=
  match sig? s with
  | some (.script x) => some x
  | _ => none

/-- `roll old= new= kid= nonce= url= sigi= sigo=`: the body POSTed to keyChange by AccountKeyRollover -/
def handleRoll (o : Op) : String :=
  match (o.get? "old").bind pub?, (o.get? "new").bind pub?, o.hex? "kid", o.hex? "nonce", o.hex? "url",
        (o.get? "sigi").bind script?, (o.get? "sigo").bind script? with
  | some old, some new, some kid, some nonce, some url, some si, some so =>
    if !(printable kid && printable nonce && printable url) || kid.isEmpty || nonce.isEmpty then "bad-op" else
    match rollover old new kid nonce url si so with
    | none => "err"
    | some body =>
      -- the panic of jwsSign (over-wide r) is not scripted for this op
      s!"ok body={toHex body}"
  | _, _, _, _, _, _, _ => "bad-op"

def hexListB? (s : String) : Option (List Bytes) :=
  if s == "-" then some [] else (s.splitOn ",").mapM ofHex

def caBase : String := "https://ca.invalid/"

/-- `api m=<method> key= kid= nonce= sig= …`: the request a public signing method sends.
    The URL each method posts to (as the scripted directory / arguments name them): -/
def apiURL (m : String) : Option String :=
  if m == "register" || m == "getreg" then some "acct"
  else if m == "updatereg" || m == "deactivate" then some "acct/1"          -- the account URL = key ID
  else if m == "neworder" then some "order"
  else if m == "getorder" || m == "waitorder" then some "order/1"
  else if m == "fetchcert" || m == "alternates" then some "cert/1"
  else if m == "getauthz" || m == "waitauthz" || m == "revokeauthz" then some "authz/1"
  else if m == "getchal" || m == "accept" then some "chal/1"
  else if m == "finalize" then some "fin/1"
  else if m == "revoke" then some "revoke"
  else if m == "authorize" || m == "authorizeip" then some "newauthz"
  else none

def apiReq? (o : Op) (m : String) : Option ApiReq :=
  if m == "register" then do
    let tos ← (o.get? "tos").bind fun s => if s == "1" then some true else if s == "0" then some false else none
    let contact ← (o.get? "contact").bind hexListB?
    let eab ← match o.get? "eab" with
      | some "-" => some none
      | some s => match s.splitOn ":" with
        | [k, key] => do pure (some (← ofHex k, ← ofHex key))
        | _ => none
      | none => none
    pure (.register tos contact eab)
  else if m == "updatereg" then (o.get? "contact").bind hexListB? |>.map .updateReg
  else if m == "getreg" then some .getReg
  else if m == "deactivate" then some .deactivateReg
  else if m == "neworder" then do
    let ids ← match o.get? "ids" with
      | some "-" => some []
      | some s => (s.splitOn ",").mapM fun e => match e.splitOn ":" with
        | [t, v] => do pure (← ofHex t, ← ofHex v)
        | _ => none
      | none => none
    pure (.newOrder ids (← o.hex? "nb") (← o.hex? "na"))
  else if m == "getorder" || m == "waitorder" || m == "fetchcert" || m == "alternates" || m == "getauthz"
       || m == "waitauthz" || m == "getchal" then some .postAsGet
  else if m == "finalize" then (o.hex? "csr").map .finalize
  else if m == "revoke" then do pure (.revokeCert (← o.hex? "cert") (← o.nat? "reason"))
  else if m == "accept" then (o.hex? "payload").map .accept
  else if m == "revokeauthz" then some .revokeAuthz
  else if m == "authorize" then (o.hex? "val").map (.authorize (asc "dns"))
  else if m == "authorizeip" then (o.hex? "val").map (.authorize (asc "ip"))
  else none

def handleApi (o : Op) : String :=
  let m := o.str "m"
  match (o.get? "key").bind pub?, o.hex? "kid", o.hex? "nonce", (o.get? "sig").bind script?, apiURL m, apiReq? o m with
  | some acct, some kid, some nonce, some sg, some url, some req =>
    if !(printable kid && printable nonce) || kid.isEmpty || nonce.isEmpty then "bad-op" else
    -- RevokeCert may be signed by the certificate's own key
    let (signer, explicit) : Pub × Bool := match (o.get? "ckey").bind pub? with
      | some ck => (ck, true)
      | none => (acct, false)
    let fullURL := asc (caBase ++ url)
    match apiEncode acct signer explicit kid nonce fullURL (asc (caBase ++ "acct")) req sg with
    | .err => "err"
    | .panic => "panic"
    | .ok _ hj payload _ sig =>
      -- the payload is shown decoded ("-" for POST-as-GET)
      let raw := match req with | .postAsGet => [] | _ => (b64Dec payload).getD []
      s!"ok req={url} prot={toHex hj} payload={toHex raw} sig={toHex sig}"
  | _, _, _, _, _, _ => "bad-op"

/-- `chal key= token=`: the key authorizations derived from the thumbprint -/
def handleChal (o : Op) : String :=
  match (o.get? "key").bind pub?, o.hex? "token" with
  | some p, some tok =>
    if !printable tok then "bad-op" else
    s!"ok http01={toHex (keyAuth p tok)} dns01={str (dns01Record p tok)} alpn={toHex (alpnDigest p tok)}"
  | _, _ => "bad-op"

def handleB64 (o : Op) : String :=
  match o.hex? "data" with
  | some d =>
    let e := b64Enc d
    match o.get? "expect" with
    | some x => if x != showS e then "vector-mismatch" else s!"ok enc={showS e} dec={match b64Dec e with | some b => toHex b | none => "none"}"
    | none => s!"ok enc={showS e} dec={match b64Dec e with | some b => toHex b | none => "none"}"
  | none => "bad-op"

def handle (line : String) : String :=
  let o := parseOp line
  if o.cmd == "jws" then handleJws o
  else if o.cmd == "jwk" then handleJwk o
  else if o.cmd == "mac" then handleMac o
  else if o.cmd == "eab" then handleEab o
  else if o.cmd == "b64" then handleB64 o
  else if o.cmd == "roll" then handleRoll o
  else if o.cmd == "api" then handleApi o
  else if o.cmd == "chal" then handleChal o
  else "bad-op"

end XC.C49
