import XC.Model.C15
namespace XC.C15

/-- `a2 mode=d|i|id path=… pw=HEX salt=HEX secret=HEX ad=HEX t=N m=N p=N len=N` -/
def handle0 (line : String) : String :=
  let o := parseOp line
  if o.cmd == "consts" then "19" else   -- argon2.Version = 0x13
  if o.cmd != "a2" then "bad-op" else
  let mode? : Option Nat := match o.get? "mode" with
    | some "d" => some 0
    | some "i" => some 1
    | some "id" => some 2
    | _ => none
  match mode?, o.hex? "pw", o.hex? "salt", o.hex? "secret", o.hex? "ad" with
  | some mode, some pw, some salt, some secret, some ad =>
    match o.nat? "t", o.nat? "m", o.nat? "p", o.nat? "len" with
    | some t, some m, some p, some len =>
      if t ≥ 4294967296 ∨ m ≥ 4294967296 ∨ p ≥ 256 ∨ len ≥ 4294967296 then "bad-op" else
      match deriveKey mode pw salt secret ad t m p len with
      | .key k => toHex k
      | .panic => "panic"
    | _, _, _, _ => "bad-op"
  | _, _, _, _, _ => "bad-op"

/-- the harness appends ` mut=…` (caller-memory report of hx.Arena: inputs unmodified, nothing written outside
    the permitted regions, nothing retained); the model is a pure function of contents, so it answers `mut=-` -/
def handle (line : String) : String :=
  let r := handle0 line
  if r == "bad-op" then r else r ++ " mut=-"

end XC.C15
