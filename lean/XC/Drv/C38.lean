import XC.Model.C38
import XC.Drv.C41
namespace XC.C38
open XC

def showOptB (b : Option Bytes) : String := match b with | some x => toHex x | none => "-"

def hexListS (l : List Bytes) : String :=
  if l.isEmpty then "-" else ",".intercalate (l.map (fun b => if b.isEmpty then "e" else toHex b))

def keyHex (k : C41.AnyKey) : String := match k.marshal with | some m => toHex m | none => "panic"

def handlePub (o : Op) : String :=
  match o.hex? "blob", C41.ptsOracle? o with
  | some b, some po =>
    match C41.parsePublicKey po b with
    | none => "perr"
    | some k =>
      match k.marshal, k.type with
      | some m, some t =>
        let md5 := txt (fingerprintMD5 m)
        let sha := txt (fingerprintSHA256 m)
        let kg := match o.get? "xmd5", o.get? "xsha" with
          | some a, some b => if a = md5 ∧ b = sha then "1" else "0"
          | _, _ => "-"
        let line := match marshalAuthorizedKey k with | some l => toHex l | none => "panic"
        let back := match marshalAuthorizedKey k with
          | some l => (match parseAuthorizedKey po l with
                       | .ok k2 c opts rest => if k2 = k ∧ c.isEmpty ∧ opts.isEmpty ∧ (rest = some [] ∨ rest = none) then "1" else "0"
                       | .err => "0")
          | none => "0"
        s!"ok type={txt t} m={toHex m} rt={if m = b then 1 else 0} md5={md5} sha={sha} kg={kg} line={line} back={back}"
      | _, _ => "panic"
  | _, _ => "bad-op"

def handleAK (o : Op) : String :=
  match o.hex? "in", C41.ptsOracle? o with
  | some b, some po =>
    match parseAuthorizedKey po b with
    | .err => "err"
    | .ok k c opts rest => s!"ok key={keyHex k} comment={toHex c} opts={hexListS opts} rest={showOptB rest}"
  | _, _ => "bad-op"

def handleKH (o : Op) : String :=
  match o.hex? "in", C41.ptsOracle? o with
  | some b, some po =>
    match parseKnownHosts po b with
    | .err => "err"
    | .eof => "eof"
    | .panic => "panic"
    | .ok marker hosts k c rest =>
      s!"ok marker={toHex marker} hosts={hexListS hosts} key={keyHex k} comment={toHex c} rest={showOptB rest}"
  | _, _ => "bad-op"

def handle (line : String) : String :=
  let o := parseOp line
  match o.cmd with
  | "pub" => handlePub o
  | "ak" => handleAK o
  | "kh" => handleKH o
  | _ => "bad-op"

end XC.C38
