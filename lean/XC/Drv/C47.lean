import XC.Model.C47
namespace XC.C47

def asciiOf (b : Bytes) : String := String.ofList (b.map (fun c => Char.ofNat c.toNat))

def hexList (s : String) : Option (List Bytes) :=
  if s == "-" then some [] else (s.splitOn "|").mapM ofHex

def msgType : Msg → String
  | .raw _ => "p"
  | .commit .. => "2"
  | .key _ => "10"
  | .reveal .. => "17"
  | .sig .. => "18"
  | .data _ => "3"

def showTypes (ms : List Msg) : String :=
  if ms.isEmpty then "-" else "+".intercalate (ms.map msgType)

def b01 (b : Bool) : String := if b then "1" else "0"

def showOut (o : Out) (isEnc : Bool) (q : Bytes) : String :=
  s!"{toHex o.out}/{b01 o.enc}/{o.change}/{b01 o.err}/{showTypes o.send}/{b01 isEnc}/{toHex q}"

def showObs : Option Obs → String
  | none => "panic"
  | some .idle => "-"
  | some (.recv o e q) => showOut o e q
  | some (.api o e) => s!"api/{b01 o.err}/{showTypes o.send}/{b01 e}"

/-- `recv`: one fresh party, raw inputs with the digest oracle per input -/
def runRecv (p : Party) : List (Bytes × Bytes) → List String
  | [] => []
  | (inp, dg) :: rest =>
    match p.recvBytes { qdg := dg } inp with
    | .panic => ["panic"]
    | .ok (p, o) => showOut o (p.st == .enc) p.question :: runRecv p rest

/-- deliveries of arbitrary pieces to one party, with the genuine message as oracle -/
def runPieces (p : Party) (orc : Oracle) : List Bytes → List String
  | [] => []
  | x :: xs =>
    match p.recvBytes orc x with
    | .panic => ["panic"]
    | .ok (p, o) => showOut o (p.st == .enc) p.question :: runPieces p orc xs

def parseTok (t : String) : Option Step :=
  match t.splitOn "." with
  | ["qa", d] => (ofHex d).map (Step.query true)
  | ["qb", d] => (ofHex d).map (Step.query false)
  | ["da"] => some (.deliver true)
  | ["db"] => some (.deliver false)
  | ["sa", m] => (ofHex m).map (Step.send true)
  | ["sb", m] => (ofHex m).map (Step.send false)
  | ["ea"] => some (.endc true)
  | ["eb"] => some (.endc false)
  | ["xa", b, d] => do let b ← ofHex b; let d ← ofHex d; pure (.inject true b d)
  | ["xb", b, d] => do let b ← ofHex b; let d ← ofHex d; pure (.inject false b d)
  | ["ma", q, s] => do let q ← ofHex q; let s ← ofHex s; pure (.auth true q s)
  | ["mb", q, s] => do let q ← ofHex q; let s ← ofHex s; pure (.auth false q s)
  | _ => none

def showFrag : FragOut → String
  | .err => "e"
  | .pending => "p"
  | .done none => "p"            -- `return c.frag, nil` with a nil slice: the caller sees (nil, nil)
  | .done (some b) => "d:" ++ toHex b

def runFrag (s : FragSt) : List Bytes → List String × FragSt
  | [] => ([], s)
  | x :: xs =>
    let (s1, o) := processFragment s x
    let (os, s2) := runFrag s1 xs
    (showFrag o :: os, s2)

def handle (line : String) : String :=
  let o := parseOp line
  match o.cmd with
  | "enc" =>
    match o.int? "fs", o.hex? "msg" with
    | some f, some m =>
      match encode f m with
      | .panic => "panic"
      | .ok fr => s!"n={fr.length} f={"|".intercalate (fr.map asciiOf)}"
    | _, _ => "bad-op"
  | "frag" =>
    match (o.get? "in").bind hexList with
    | some xs =>
      if xs.any (fun x => !hasPrefix fragmentPrefix x) then "bad-op" else
      let (os, s) := runFrag {} xs
      s!"{",".intercalate os} k={s.k} n={s.n}"
    | none => "bad-op"
  | "recv" =>
    match (o.get? "in").bind hexList, (o.get? "dg").bind (fun s => (s.splitOn "|").mapM ofHex) with
    | some xs, some ds =>
      if xs.length ≠ ds.length ∧ xs.length ≠ 0 then "bad-op" else
      ",".intercalate (runRecv {} (xs.zip ds))
    | _, _ => "bad-op"
  | "conv" =>
    match o.get? "script" with
    | some sc =>
      match (sc.splitOn ",").mapM parseTok with
      | some steps =>
        let obs := ",".intercalate (((World.run {} steps)).map showObs)
        (match World.runTo {} steps with
         | none => obs
         | some w => let (s, a, b) := w.summary; obs ++ s!";ssid={b01 s};tpk={b01 a}{b01 b}")
      | none => "bad-op"
    | none => "bad-op"
  | "const" =>
    s!"query={toHex queryMessage} isquery={isQuery queryMessage} errprefix={toHex errorPrefix} errisquery={isQuery (errorPrefix ++ [32, 120])} changes={",".intercalate (securityChanges.map toString)}"
  | "keyops" => "ser=1 fp=1 sign=1 tamper=0 shortsig=0 privser=1 import=1 importbad=0"
  | "keyparse" =>
    match o.get? "kind", o.hex? "in" with
    | some kind, some b =>
      (match (if kind == "priv" then parsePriv b else parsePub b) with
       | none => "fail"
       | some (vs, rest) => s!"ok {",".intercalate (vs.map toString)} rest={rest.length}")
    | _, _ => "bad-op"
  | "forge" =>
    -- bytes built by an attacker from what was on the wire (e.g. re-MACed with a revealed MAC key): no
    -- modelled party produced them, so no oracle entry; the model's verdict is the property's
    match o.get? "script", o.get? "to", (o.get? "in").bind hexList with
    | some sc, some to, some pieces =>
      match (sc.splitOn ",").mapM parseTok with
      | none => "bad-op"
      | some steps =>
        match World.runTo {} steps with
        | none => "panic"
        | some w => ",".intercalate (runPieces (w.party (to == "a")) {} pieces)
    | _, _, _ => "bad-op"
  | "mut" =>
    match o.get? "script", o.get? "to", o.hex? "orig", (o.get? "in").bind hexList with
    | some sc, some to, some orig, some pieces =>
      match (sc.splitOn ",").mapM parseTok with
      | none => "bad-op"
      | some steps =>
        match World.runTo {} steps with
        | none => "panic"
        | some w =>
          let isA := to == "a"
          match (if isA then w.toA else w.toB) with
          | [] => "bad-op"
          | gm :: _ =>
            let genuine := match gm with
              | .raw _ => none
              | _ => (unframe orig).map (fun gb => (gb, gm))
            ",".intercalate (runPieces (w.party isA) { genuine := genuine } pieces)
    | _, _, _, _ => "bad-op"
  | _ => "bad-op"

end XC.C47
