import XC.Model.C48
namespace XC.C48

def bool? (o : Op) (k : String) : Option Bool :=
  match o.get? k with
  | some "1" => some true
  | some "0" => some false
  | _ => none

def oid? (s : String) : Option Oid :=
  if s == "-" then some [] else (s.splitOn ".").mapM String.toNat?

def parseCertFact (s : String) : Option CertFact :=
  match s.splitOn ":" with
  | [a, b, c] => do
    let a ← a.toNat?; let b ← b.toNat?; let c ← c.toNat?
    pure { ok := a == 1, signedResp := b == 1, byIssuer := c == 1 }
  | _ => none

def parseCertFacts (s : String) : Option (List CertFact) :=
  if s == "-" then some [] else (s.splitOn ";").mapM parseCertFact

def parseSingle (s : String) : Option Single :=
  match s.splitOn ":" with
  | [serial, good, unknown, crit, hash, this, next, rev, reason, nExt] => do
    let serial ← serial.toInt?
    let good ← good.toNat?
    let unknown ← unknown.toNat?
    let crit ← crit.toNat?
    let hash ← oid? hash
    let this ← this.toInt?
    let next ← next.toInt?
    let rev ← rev.toInt?
    let reason ← reason.toInt?
    let nExt ← nExt.toNat?
    pure { serial := serial, good := good == 1, unknown := unknown == 1, crit := crit == 1, hashOid := hash,
           thisUpdate := this, nextUpdate := next, revokedAt := rev, reason := reason, nExt := nExt }
  | _ => none

def parseSingles (s : String) : Option (List Single) :=
  if s == "-" then some [] else (s.splitOn ";").mapM parseSingle

def b01 (b : Bool) : String := if b then "1" else "0"

def showFields (f : Fields) (withPa : Bool) : String :=
  let pa := if withPa then s!" pa={f.producedAt}" else " pa60=1"
  s!"ok st={f.status} serial={f.serial}{pa} this={f.thisUpdate} next={f.nextUpdate} rev={f.revokedAt} reason={f.reason} hash={f.hash} alg={f.sigAlg} byname={b01 f.byName} cert={b01 f.hasCert} next={f.nExt} raw=1"

def showRes (r : Res) (withPa : Bool) : String :=
  match r with
  | .errAsn1 => "err:other"
  | .errParse => "err:parse"
  | .errResp s => s!"err:resp:{s}"
  | .errX509 => "err:other"
  | .ok f => showFields f withPa

def optInt (o : Op) (k : String) : Option (Option Int) :=
  match o.get? k with
  | some "-" => some none
  | some s => s.toInt?.map some
  | none => none

def optNat (o : Op) (k : String) : Option (Option Nat) :=
  match o.get? k with
  | some "-" => some none
  | some s => s.toNat?.map some
  | none => none

def keyType? : String → Option KeyType
  | "rsa" => some .rsa
  | "ec224" => some .ec224
  | "ec256" => some .ec256
  | "ec384" => some .ec384
  | "ec521" => some .ec521
  | "ecother" => some .ecOther
  | "other" => some .other
  | _ => none

def handleResp (o : Op) : Option String := do
  let cert ← optInt o "cert"
  let issuer ← bool? o "issuer"
  let f : Facts := {
    outerOk := ← bool? o "f.outerOk", outerRest := ← bool? o "f.outerRest", status := ← o.int? "f.status",
    typeBasic := ← bool? o "f.typeBasic", basicOk := ← bool? o "f.basicOk", basicRest := ← bool? o "f.basicRest",
    producedAt := ← o.int? "f.pa", singles := ← (o.get? "f.singles").bind parseSingles,
    ridTag := ← o.nat? "f.ridTag", ridOk := ← bool? o "f.ridOk",
    certs := ← (o.get? "f.certs").bind parseCertFacts,
    sigByIssuer := ← bool? o "f.sigIss", sigOid := ← (o.get? "f.sigOid").bind oid? }
  match o.get? "csf" with
  | some "1" =>
    -- two-step use: ParseResponseForCert(bytes, cert, nil) then Response.CheckSignatureFrom(issuer)
    match parseResponse f cert false with
    | .ok fl => pure (showFields fl true ++ s!" csf={b01 (checkSignatureFrom f)}")
    | r => pure (showRes r true)
  | _ => pure (showRes (parseResponse f cert issuer) true)

def handleCr (o : Op) : Option String := do
  let exts ← match o.get? "exts" with
    | some "-" => some []
    | some s => (s.splitOn ",").mapM (fun x => if x == "1" then some true else if x == "0" then some false else none)
    | none => none
  let cert ← match o.get? "cert" with
    | some "-" => some none
    | some s => (match s.splitOn ":" with
        | [k, sb] => do let k ← k.toNat?; let sb ← sb.toNat?; pure (some (CertSym.mk k sb))
        | _ => none)
    | none => none
  let t : Template := {
    status := ← o.int? "status", serial := ← optInt o "serial", thisUpdate := ← o.int? "this",
    nextUpdate := ← o.int? "next", revokedAt := ← o.int? "rev", reason := ← o.int? "reason",
    issuerHash := ← o.nat? "ihash", sigAlg := ← o.nat? "alg", exts := exts, cert := cert }
  let signer ← o.nat? "signer"
  let styp ← (o.get? "styp").bind keyType?
  let issuer ← optNat o "issuer"
  let pcert ← optInt o "pcert"
  match createResponse t signer styp with
  | none => pure "create-err"
  | some r =>
    -- `idh=1`: CertID = (hash OID, H(issuer subject), H(issuer key)) for the template's IssuerHash (field mapping)
    pure ("idh=1 " ++ showRes (parseResponse (factsOf r 0 issuer) pcert issuer.isSome) false)

def showReq : ReqRes → String
  | .errAsn1 => "err:other"
  | .errParse => "err:parse"
  | .ok f => s!"ok hash={f.hash} nh={toHex f.nameHash} kh={toHex f.keyHash} serial={f.serial}"

def handleReq (o : Op) : Option String := do
  let h ← o.nat? "hash"
  let serial ← o.int? "serial"
  let nh ← o.hex? "o.nh"
  let kh ← o.hex? "o.kh"
  match createRequest h serial (fun _ => nh) (fun _ => kh) with
  | none => pure "create-err"
  | some f => pure (showReq (parseRequest f))

def handlePreq (o : Op) : Option String := do
  let f : ReqFacts := {
    ok := ← bool? o "f.ok", rest := ← bool? o "f.rest", hasSig := ← bool? o "f.hasSig", n := ← o.nat? "f.n",
    hashOid := ← (o.get? "f.hashOid").bind oid?, nameHash := ← o.hex? "f.nh", keyHash := ← o.hex? "f.kh", serial := ← o.int? "f.serial" }
  pure (showReq (parseRequest f))

def joinNat (l : List Nat) : String := ",".intercalate (l.map toString)

def handleConst : String :=
  s!"status={joinNat statusConsts} reasons={joinNat reasonConsts} rs={joinNat respStatusConsts} names={"|".intercalate ((List.range 8).map (fun n => respStatusName (Int.ofNat n)))}|{respStatusName (-1)}"

def handleErrvar (o : Op) : Option String := do
  let n ← o.get? "name"
  let s ← errorResponseStatus n
  pure (showRes (parseResponse (errorResponseFacts s) none ((o.get? "issuer") == some "1")) true)

def handle (line : String) : String :=
  let o := parseOp line
  let r := match o.cmd with
    | "resp" => handleResp o
    | "cr" => handleCr o
    | "req" => handleReq o
    | "preq" => handlePreq o
    | "const" => some handleConst
    | "errvar" => handleErrvar o
    | _ => none
  r.getD "bad-op"

end XC.C48
