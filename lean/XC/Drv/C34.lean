import XC.Model.C34
namespace XC.C34

/-! op line: `cauth user=<u> auth=<m;m;…> script=<p;p;…>`
  method  `pw:<text>` | `kbd:a|w|f` | `pk:<signer>+<signer>…` (`pk:` = no signers)
  signer  `<key>~<keyFormat>~<kind>`, kind `d` | `a` | `p` | `m,<algo>,<algo>…`
  packet  `sa` | `x7` | `x7:<server-sig-algs value>` | `f:<methods|->:<0|1>` | `s` | `b` | `ok.e` | `ok.t` | `ok.k` |
          `ok.a:<algo>` | `ir:<n>` | `irb` | `d` | `re` | `m:<type>` | `o:<type>` -/

def cut (s : String) (sep : String) : String × Option String :=
  match s.splitOn sep with
  | [] => (s, none)
  | [a] => (a, none)
  | a :: rest => (a, some (sep.intercalate rest))

def parseSigner (s : String) : Option Signer :=
  match s.splitOn "~" with
  | [k, kf, kind] => do
    let key ← k.toNat?
    let kind ← match kind.splitOn "," with
      | ["d"] => some (SignerKind.multi (XC.C32.algorithmsForKeyFormat (XC.C32.underlyingAlgo kf)))
      | ["a"] => some SignerKind.algOnly
      | ["p"] => some SignerKind.plain
      | "m" :: algos => if algos.isEmpty then none else some (SignerKind.multi algos)
      | _ => none
    pure ⟨key, kf, kind⟩
  | _ => none

def parseMethod (s : String) : Option Method :=
  match cut s ":" with
  | ("pw", some pw) => some (.password pw)
  | ("kbd", some "a") => some (.kbd .answerAll)
  | ("kbd", some "w") => some (.kbd .wrongCount)
  | ("kbd", some "f") => some (.kbd .fail)
  | ("pk", some "") => some (.publickey [])
  | ("pk", some l) => ((l.splitOn "+").mapM parseSigner).map Method.publickey
  | _ => none

def parsePkt (s : String) : Option Srv :=
  match cut s ":" with
  | ("sa", none) => some .serviceAccept
  | ("x7", none) => some (.extInfo none)
  | ("x7", some v) => some (.extInfo (some v))
  | ("f", some rest) =>
    match cut rest ":" with
    | (ms, some "0") => some (.failure (if ms == "-" then [] else ms.splitOn ",") false)
    | (ms, some "1") => some (.failure (if ms == "-" then [] else ms.splitOn ",") true)
    | _ => none
  | ("s", none) => some .success
  | ("b", none) => some .banner
  | ("ok.e", none) => some (.pkOk .echo)
  | ("ok.t", none) => some (.pkOk .keyType)
  | ("ok.k", none) => some (.pkOk .otherKey)
  | ("ok.a", some a) => some (.pkOk (.algo a))
  | ("ir", some n) => n.toNat?.map Srv.infoReq
  | ("irb", none) => some .infoReqBad
  | ("d", none) => some .disconnect
  | ("re", none) => some .readErr
  | ("m", some t) => t.toNat?.map Srv.malformed
  | ("o", some t) => t.toNat?.map Srv.other
  | _ => none

def dash (s : String) : String := if s.isEmpty then "-" else s

def showEv : Ev → Option String
  | .wServiceRequest => some "SR"
  | .wNone u => some s!"N({u})"
  | .wPassword u pw => some s!"PW({u},{pw})"
  | .wQuery u a k => some s!"Q({u}):{dash a}:{k}"
  | .wSign u a k f => some s!"SG({u}):{dash a}:{k}:{dash f}:1"
  | .wKbd u => some s!"KI({u})"
  | .wInfoResp n => some s!"IR:{n}"
  | _ => none

def parseCred (s : String) : Option Cred :=
  match cut s ":" with
  | ("pw", some pw) => some (.password pw)
  | ("kbdr", some a) => some (.kbd a)
  | ("pk", some "") => some (.publickey [])
  | ("pk", some l) => ((l.splitOn "+").mapM parseSigner).map Cred.publickey
  | _ => none

/-- `real chain=<m,m…> cli=<cred;cred…> auth=<key id> algs=<list|->` -/
def handleReal (o : Op) : String :=
  match o.get? "chain", o.get? "cli", o.nat? "auth", o.get? "algs" with
  | some chain, some cli, some authKey, some algs =>
    match (cli.splitOn ";").mapM parseCred with
    | some creds =>
      let chain := chain.splitOn ","
      let serverAlgs := if algs == "-" then XC.C32.defaultPubKeyAuthAlgos else algs.splitOn ","
      if compatible chain creds authKey serverAlgs then s!"client=ok server=ok:{chain.length - 1}"
      else "client=fail server=fail"
    | none => "bad-op"
  | _, _, _, _ => "bad-op"

def handle (line : String) : String :=
  let o := parseOp line
  if o.cmd == "real" then handleReal o else
  if o.cmd != "cauth" then "bad-op" else
  match o.get? "user", o.get? "auth", o.get? "script" with
  | some user, some auth, some script =>
    let ms := if auth == "-" then some [] else (auth.splitOn ";").mapM parseMethod
    let ps := if script == "-" then some [] else (script.splitOn ";").mapM parsePkt
    match ms, ps with
    | some ms, some ps =>
      let out := run ⟨user, ms⟩ ps
      let r := match out.res with
        | .ok => "ok"
        | .err => "err"
      s!"res={r} w={" ".intercalate (out.events.filterMap showEv)}"
    | _, _ => "bad-op"
  | _, _, _ => "bad-op"

end XC.C34
