import XC.Model.C34
namespace XC.C34

/-! op line: `cauth user=<u> auth=<m;m;…> script=<p;p;…>`
  method  `pw:<text>` | `kbd:a|w|f` | `pk:<signer>+<signer>…` (`pk:` = no signers)
  signer  `<key>~<keyFormat>~<kind>`, kind `d` | `a` | `p` | `m,<algo>,<algo>…`
  packet  `sa` | `x7` | `x7:<server-sig-algs value>` | `f:<methods|->:<0|1>` | `s` | `b` | `ok.e` | `ok.t` | `ok.k` |
          `ok.a:<algo>` | `ir:<n>` | `irb` | `d` | `re` | `m:<type>` | `o:<type>` -/

def cut (s : String) (sep : String) : String × Option String :=
  match s.splitOn sep with
  | [] => (s, none)
  | [a] => (a, none)
  | a :: rest => (a, some (sep.intercalate rest))

def parseSigner (s : String) : Option Signer :=
  match s.splitOn "~" with
  | [k, kf, kind] => do
    let key ← k.toNat?
    let kind ← match kind.splitOn "," with
      | ["d"] => some (SignerKind.multi (XC.C32.algorithmsForKeyFormat (XC.C32.underlyingAlgo kf)))
      | ["a"] => some SignerKind.algOnly
      | ["p"] => some SignerKind.plain
      | "m" :: algos => if algos.isEmpty then none else some (SignerKind.multi algos)
      | _ => none
    pure ⟨key, kf, kind⟩
  | _ => none

def parseSigners (l : String) : Option (List Signer) :=
  if l.isEmpty then some [] else (l.splitOn "+").mapM parseSigner

def parseBase (s : String) : Option Base :=
  match cut s ":" with
  | ("pw", some pw) => some (.password pw)
  | ("pwcb", some "!") => some (.failing "password")      -- PasswordCallback returning an error
  | ("pwcb", some pw) => some (.password pw)              -- PasswordCallback returning this password
  | ("pkcb", some "!") => some (.failing "publickey")     -- PublicKeysCallback returning an error
  | ("kbd", some "a") => some (.kbd .answerAll)
  | ("kbd", some "w") => some (.kbd .wrongCount)
  | ("kbd", some "f") => some (.kbd .fail)
  | ("pk", some l) => (parseSigners l).map Base.publickey
  | ("pkcb", some l) => ((l.splitOn "|").mapM parseSigners).map Base.publickeyCb
  | _ => none

/-- `<base>` or `rt<maxTries>:<base>` (RetryableAuthMethod; maxTries may be negative) -/
def parseMethod (s : String) : Option Method :=
  if s.startsWith "rt" then
    match cut (s.drop 2).toString ":" with
    | (n, some rest) => do
      let n ← n.toInt?
      let b ← parseBase rest
      pure ⟨b, some n⟩
    | _ => none
  else (parseBase s).map fun b => ⟨b, none⟩

/-- AuthCallback decision: `n` (nil, nil) | `f` (nil, err) | `u=<method>` -/
def parseDecision (s : String) : Option CbDecision :=
  if s == "n" then some .next else if s == "f" then some .fail
  else if s.startsWith "u=" then (parseMethod (s.drop 2).toString).map CbDecision.use else none

def parsePkt (s : String) : Option Srv :=
  match cut s ":" with
  | ("sa", none) => some .serviceAccept
  | ("x7", none) => some (.extInfo none)
  | ("x7", some v) => some (.extInfo (some v))
  | ("x8", some v) => some (.extInfo (some v))   -- same content, server-sig-algs as the LAST extension
  | ("x9", some v) => some (.extInfo (some v))   -- server-sig-algs as the only extension
  | ("f", some rest) =>
    match cut rest ":" with
    | (ms, some "0") => some (.failure (if ms == "-" then [] else ms.splitOn ",") false)
    | (ms, some "1") => some (.failure (if ms == "-" then [] else ms.splitOn ",") true)
    | _ => none
  | ("s", none) => some .success
  | ("b", none) => some .banner
  | ("ok.e", none) => some (.pkOk .echo)
  | ("ok.t", none) => some (.pkOk .keyType)
  | ("ok.k", none) => some (.pkOk .otherKey)
  | ("ok.a", some a) => some (.pkOk (.algo a))
  | ("ir", some n) => n.toNat?.map Srv.infoReq
  | ("irb", none) => some .infoReqBad
  | ("irs", some _) => some .infoReqBad     -- NumPrompts larger than the prompts present
  | ("irx", some _) => some .infoReqBad     -- more prompt data than NumPrompts announces
  | ("d", none) => some .disconnect
  | ("re", none) => some .readErr
  | ("m", some t) => t.toNat?.map Srv.malformed
  | ("o", some t) => t.toNat?.map Srv.other
  | _ => none

def dash (s : String) : String := if s.isEmpty then "-" else s

def showEv : Ev → Option String
  | .wServiceRequest => some "SR"
  | .wNone u => some s!"N({u})"
  | .wPassword u pw => some s!"PW({u},{pw})"
  | .wQuery u a k => some s!"Q({u}):{dash a}:{k}"
  | .wSign u a k f => some s!"SG({u}):{dash a}:{k}:{dash f}:1"
  | .wKbd u => some s!"KI({u})"
  | .wInfoResp n => some s!"IR:{n}"
  | _ => none

def parseCred (s : String) : Option Cred :=
  match cut s ":" with
  | ("pw", some pw) => some (.password pw)
  | ("kbdr", some a) => some (.kbd a)
  | ("gss", some a) => some (.gss a)
  | ("pk", some l) => (parseSigners l).map Cred.publickey
  | ("pkcb", some l) => ((l.splitOn "|").mapM parseSigners).map Cred.publickeyCb
  | _ => none

/-- `real chain=<m,m…> cli=<cred;cred…> auth=<key id> algs=<list|->` -/
def handleReal (o : Op) : String :=
  match o.get? "chain", o.get? "cli", o.nat? "auth", o.get? "algs" with
  | some chain, some cli, some authKey, some algs =>
    match (cli.splitOn ";").mapM parseCred with
    | some creds =>
      let chain := chain.splitOn ","
      let serverAlgs := if algs == "-" then XC.C32.defaultPubKeyAuthAlgos else algs.splitOn ","
      -- the server's BannerCallback message reaches the client's BannerCallback with the first auth response
      let ban := if o.get? "ban" == some "1" then "1" else "0"
      if compatible chain creds authKey serverAlgs then s!"client=ok server=ok:{chain.length - 1} banner={ban}"
      else s!"client=fail server=fail banner={ban}"
    | none => "bad-op"
  | _, _, _, _ => "bad-op"

def handle (line : String) : String :=
  let o := parseOp line
  if o.cmd == "real" then handleReal o else
  if o.cmd != "cauth" then "bad-op" else
  match o.get? "user", o.get? "auth", o.get? "script" with
  | some user, some auth, some script =>
    let ms := if auth == "-" then some [] else (auth.splitOn ";").mapM parseMethod
    let ps := if script == "-" then some [] else (script.splitOn ";").mapM parsePkt
    let cb : Option (Option (List CbDecision)) := match o.get? "acb" with
      | none => some none
      | some "-" => some (some [])
      | some s => ((s.splitOn ";").mapM parseDecision).map some
    match ms, ps, cb with
    | some ms, some ps, some cb =>
      let out := run ⟨user, ms, cb⟩ ps
      let r := match out.res with
        | .ok => "ok"
        | .err => "err"
      let lst (l : List String) : String := if l.isEmpty then "-" else ",".intercalate l
      let segStr (sg : Seg) : List String :=
        sg.out.evs.filterMap showEv ++ (match sg.cbCtx with
          | some (a, p, t) => [s!"CB({lst a}|{lst p}|{lst t})"]
          | none => [])
      s!"res={r} w={" ".intercalate (out.pre.filterMap showEv ++ (out.segs.map segStr).flatten)}"
    | _, _, _ => "bad-op"
  | _, _, _ => "bad-op"

end XC.C34
