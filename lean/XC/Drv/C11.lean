import XC.Model.C11
namespace XC.C11

def showRes : Res → String
  | .ok o => "ok:" ++ toHex o
  | .err => "err"

def F := rfcX25519

/-- RFC 7748 §5.2 iteration: `(k, u) := (X25519(k, u), k)`, `n` times; stops at the first error -/
def iter : Nat → Nat → Bytes → Bytes → String
  | 0, _, k, _ => "ok:" ++ toHex k ++ " mut=-"
  | n+1, i, k, u =>
    match X25519 F k u with
    | .err => s!"err@{i} mut=-"
    | .ok r => iter n (i+1) r k

/-- ops:
    `x s=<hex> p=<hex> d=<hex32> alias=0|1|2`  → `x=<ok:hex|err> sm=<hex|->`
    `base s=<hex32> d=<hex32> alias=0|1`        → `sbm=<hex> x=<…>` (alias 1: dst is the scalar array)
    `dh a=<hex32> b=<hex32>`                    → `pa= pb= k1= k2= agree=`
    `iter k=<hex32> u=<hex32> n=<N>`            → `ok:<hex>` | `err@i` -/
def handle (line : String) : String :=
  let o := parseOp line
  match o.cmd with
  | "consts" => s!"scalar=32 point=32 base={toHex basePoint}"
  | "x" =>
    match o.hex? "s", o.hex? "p", o.hex? "d", o.nat? "alias" with
    | some s, some pt, some d, some al =>
      if d.length ≠ 32 || al > 2 then "bad-op" else
      let xr := X25519 F s pt
      let sm :=
        if s.length = 32 && pt.length = 32 then
          let d0 := if al = 1 then s else if al = 2 then pt else d
          toHex (ScalarMult F d0 s pt)
        else "-"
      s!"x={showRes xr} sm={sm} mut=-"
    | _, _, _, _ => "bad-op"
  | "base" =>
    match o.hex? "s", o.hex? "d", o.nat? "alias" with
    | some s, some d, some al =>
      if d.length ≠ 32 || al > 1 then "bad-op" else
      match ScalarBaseMult F (if al = 1 then s else d) s with
      | .panic => "panic"
      | .dst r => s!"sbm={toHex r} x={showRes (X25519 F s basePoint)} mut=-"
    | _, _, _ => "bad-op"
  | "dh" =>
    match o.hex? "a", o.hex? "b" with
    | some a, some b =>
      match X25519 F a basePoint, X25519 F b basePoint with
      | .ok pa, .ok pb =>
        let k1 := X25519 F a pb
        let k2 := X25519 F b pa
        s!"pa={toHex pa} pb={toHex pb} k1={showRes k1} k2={showRes k2} agree={if k1 == k2 then 1 else 0} mut=-"
      | _, _ => "err"
    | _, _ => "bad-op"
  | "iter" =>
    match o.hex? "k", o.hex? "u", o.nat? "n" with
    | some k, some u, some n => if n > 100000 then "bad-op" else iter n 0 k u
    | _, _, _ => "bad-op"
  | _ => "bad-op"

end XC.C11
