import XC.Model.C12
namespace XC.C12

/-- observable of a constructed cipher on `src` (a positive multiple of the block size):
    `ok <ECB-Encrypt(src)> <ECB-Decrypt(src)>` -/
def runBlocks (bs : Nat) (enc dec : Bytes → Bytes) (src : Bytes) : String :=
  if src.length == 0 || src.length % bs != 0 then "bad-op"
  else s!"ok {toHex (ecb bs enc src)} {toHex (ecb bs dec src)} mutated=none"

/-- `blk cipher=<name> key=<hex> [rounds=<int>] [salt=<hex>] [t1=<nat>] src=<hex> [expect=<hex>]` -/
def handle1 (o : Op) : String :=
  if o.cmd != "blk" then "bad-op" else
  match o.hex? "key", o.hex? "src" with
  | some key, some src =>
    match o.str "cipher" with
    | "tea" =>
      match o.int? "rounds" with
      | none => "bad-op"
      | some rounds =>
        match Tea.newCipher key rounds with
        | none => "err mutated=none"
        | some c => runBlocks 8 (Tea.encrypt c) (Tea.decrypt c) src
    | "xtea" =>
      match Xtea.newCipher key with
      | none => "err mutated=none"
      | some c => runBlocks 8 (Xtea.encrypt c) (Xtea.decrypt c) src
    | "blowfish" =>
      match Blowfish.newCipher key with
      | none => "err mutated=none"
      | some c => runBlocks 8 (Blowfish.encrypt c) (Blowfish.decrypt c) src
    | "blowfish-salted" =>
      match o.hex? "salt" with
      | none => "bad-op"
      | some salt =>
        match Blowfish.newSaltedCipher key salt with
        | none => "err mutated=none"
        | some c => runBlocks 8 (Blowfish.encrypt c) (Blowfish.decrypt c) src
    | "blowfish-expand" =>
      -- exported `ExpandKey(key, c)` applied to a constructed cipher (init=std) or to the zero value
      -- `new(blowfish.Cipher)` (init=zero), once per entry of `ek`; an empty entry indexes key[0]: panic
      match o.hex? "salt", o.get? "ek" with
      | some salt, some ekStr =>
        let eks : Option (List Bytes) := if ekStr == "none" then some [] else (ekStr.splitOn ",").mapM ofHex
        match eks with
        | none => "bad-op"
        | some eks =>
          let c0 : Option Blowfish.Box :=
            if o.str "init" == "zero" then some (Array.replicate 1042 0) else Blowfish.newSaltedCipher key salt
          match c0 with
          | none => "err mutated=none"
          | some c0 =>
            if eks.any (·.isEmpty) then "panic"
            else
              let c := eks.foldl (fun c ek => Blowfish.expandKey ek.toArray c) c0
              runBlocks 8 (Blowfish.encrypt c) (Blowfish.decrypt c) src
      | _, _ => "bad-op"
    | "cast5-zero" =>   -- `new(cast5.Cipher)`: all masking and rotation sub-keys zero
      let ks : List Cast5.RK := (List.range 16).map (fun i => ⟨i % 3 + 1, 0, 0⟩)
      runBlocks 8 (Cast5.encrypt ks) (Cast5.decrypt ks) src
    | "twofish-zero" => -- `new(twofish.Cipher)`: zero S-boxes and sub-keys
      let z : Array UInt32 := Array.replicate 256 0
      let c : Twofish.Cipher := ⟨z, z, z, z, Array.replicate 40 0⟩
      runBlocks 16 (Twofish.encrypt c) (Twofish.decrypt c) src
    | "xtea-zero" =>    -- `new(xtea.Cipher)`: zero table
      let t : List (UInt32 × UInt32) := List.replicate 32 (0, 0)
      runBlocks 8 (Xtea.encrypt t) (Xtea.decrypt t) src
    | "cast5" =>
      match Cast5.newCipher key with
      | none => "err mutated=none"
      | some c => runBlocks 8 (Cast5.encrypt c) (Cast5.decrypt c) src
    | "twofish" =>
      match Twofish.newCipher key with
      | none => "err mutated=none"
      | some c => runBlocks 16 (Twofish.encrypt c) (Twofish.decrypt c) src
    | "rc2" =>
      match o.nat? "t1" with
      | none => "bad-op"
      | some t1 =>
        match Rc2.expandKey key t1 with
        | .panic => "panic"
        | .ok k => runBlocks 8 (Rc2.encrypt k) (Rc2.decrypt k) src
    | _ => "bad-op"
  | _, _ => "bad-op"

/-- with `expect=<published ciphertext>` (corpus): ` kat=ok` iff the MODEL's Encrypt output equals it -/
def handle (line : String) : String :=
  let o := parseOp line
  let r := handle1 o
  match o.get? "expect" with
  | none => r
  | some e => if r.startsWith ("ok " ++ e ++ " ") then r ++ " kat=ok" else r ++ " kat=MODEL-MISMATCH"

end XC.C12
