import XC.Model.C42
namespace XC.C42
open XC

def splitList (s : String) (sep : String) : List String :=
  if s == "-" || s == "" then [] else s.splitOn sep

def parseKT (s : String) : Option KeyTab :=
  (splitList s ",").mapM fun e =>
    match e.splitOn ":" with
    | [b, t, i] => do
      let b ← ofHex b
      let t ← ofHex t
      let i ← i.toNat?
      pure (b, (t, i))
    | _ => none

def parseBool (s : String) : Option Bool :=
  if s == "1" then some true else if s == "0" then some false else none

/-- `id:ctype:ca:crit:va:vb:sig:principals(+-joined hex, - = none)` -/
def parseCert (e : String) : Option CertInfo :=
  match e.splitOn ":" with
  | [i, ct, ca, crit, va, vb, sg, pr] => do
    let i ← i.toNat?
    let ct ← ct.toNat?
    let ca ← ca.toNat?
    let crit ← parseBool crit
    let va ← va.toNat?
    let vb ← vb.toNat?
    let sg ← parseBool sg
    let pr ← (splitList pr "+").mapM ofHex
    pure ⟨i, ct, ca, crit, pr, va, vb, sg⟩
  | _ => none

def parseCerts (s : String) : Option (List CertInfo) := (splitList s ";").mapM parseCert

structure Query where
  addr : Bytes
  remote : Bytes
  key : QKey

def parseQuery (certs : List CertInfo) (e : String) : Option Query :=
  match e.splitOn "/" with
  | [a, r, k] => do
    let a ← ofHex a
    let r ← ofHex r
    let k ← k.toNat?
    match certs.find? (fun c => c.id == k) with
    | some c => pure ⟨a, r, .cert c⟩
    | none => pure ⟨a, r, .plain k⟩
  | _ => none

def showNats (l : List Nat) : String :=
  if l.isEmpty then "-" else ",".intercalate (l.map toString)

def showVerdict : Verdict → String
  | .ok => "ok"
  | .revoked n => s!"revoked:{n}"
  | .keyErr ls => s!"keyerr:{showNats ls}"
  | .reject => "reject"

def runQueries (o : Op) (file : Bytes) : String :=
  match (o.get? "kt").bind parseKT, (o.get? "certs").bind parseCerts, o.int? "now" with
  | some kt, some certs, some now =>
    match (splitList (o.str "q") ",").mapM (parseQuery certs) with
    | none => "bad-op"
    | some qs =>
      match readDB kt file with
      | .error n => s!"parse-err:{n}"
      | .ok db => "|".intercalate (qs.map fun q => showVerdict (db.checkHostKey now q.addr q.remote q.key))
  | _, _, _ => "bad-op"

/-- `New(files...)`: files are opened and read one after the other into ONE database; line numbers restart
    in every file (the model encodes (file i, line n) as `i * 1000000 + n`); `none` = a file that does not exist -/
def readFiles (kt : KeyTab) : DB → Nat → List (Option Bytes) → Except String DB
  | db, _, [] => .ok db
  | _, i, none :: _ => .error s!"open-err:{i}"
  | db, i, some f :: rest =>
    match readLines kt db (i * 1000000) (scanLines f) with
    | .error n => .error s!"parse-err:{n / 1000000}.{n % 1000000}"
    | .ok db' => readFiles kt db' (i + 1) rest

def showFL (n : Nat) : String := s!"{n / 1000000}.{n % 1000000}"

def showVerdictM : Verdict → String
  | .ok => "ok"
  | .revoked n => s!"revoked:{showFL n}"
  | .keyErr ls => "keyerr:" ++ (if ls.isEmpty then "-/u" else ",".intercalate (ls.map showFL) ++ "/m")
  | .reject => "reject"

def handle (line : String) : String :=
  let o := parseOp line
  match o.cmd with
  | "khm" =>
    let files := (splitList (o.str "files") ";").mapM fun e => if e == "x" then some none else (ofHex e).map some
    match files, (o.get? "kt").bind parseKT, (o.get? "certs").bind parseCerts, o.int? "now" with
    | some fs, some kt, some certs, some now =>
      match (splitList (o.str "q") ",").mapM (parseQuery certs) with
      | none => "bad-op"
      | some qs =>
        match readFiles kt DB.empty 0 fs with
        | .error e => e
        | .ok db => "|".intercalate (qs.map fun q => showVerdictM (db.checkHostKey now q.addr q.remote q.key))
    | _, _, _, _ => "bad-op"
  | "khp" =>   -- former known-finding classes (marker / case), now ordinary cases of the fixed code
    match o.hex? "file" with
    | some f => runQueries o f
    | none => "bad-op"
  | "skl" =>   -- a line written by Line / HashHostname: callback verdict and matching lines per address
    match (splitList (o.str "addrs") ",").mapM ofHex, o.hex? "type", o.hex? "blob", o.hex? "salt",
        (o.get? "kt").bind parseKT, o.nat? "key" with
    | some addrs, some t, some b, some salt, some kt, some key =>
      let file := if o.str "mode" == "hash"
        then hashHostname salt (normalize (addrs.headD [])) ++ cSP :: t ++ cSP :: b64Encode b
        else knownHostsLine addrs t b
      match readDB kt file with
      | .error n => s!"parse-err:{n}"
      | .ok db => "|".intercalate (addrs.map fun a =>
          let v := showVerdict (db.checkHostKey 0 a (s2b "10.9.9.9:22") (.plain key))
          match splitHostPort a with
          | none => v ++ "/k:?"
          | some (h, p) =>
            match db.checkAddr ⟨h, p⟩ 0 with
            | .keyErr ls => v ++ "/k:" ++ showNats ls
            | w => v ++ "/k:" ++ showVerdict w)
    | _, _, _, _, _, _ => "bad-op"
  | "wm" =>   -- pattern × host matrix: for every host the lines (= patterns) that match it on port 22
    match o.hex? "file", (o.get? "kt").bind parseKT, (splitList (o.str "hosts") ",").mapM ofHex with
    | some f, some kt, some hosts =>
      match readDB kt f with
      | .error n => s!"parse-err:{n}"
      | .ok db => "|".intercalate (hosts.map fun h =>
          match db.checkAddr ⟨h, port22⟩ 0 with
          | .keyErr ls => showNats ls
          | v => showVerdict v)
    | _, _, _ => "bad-op"
  | "skf" =>   -- lines matching (host, port): what KeyError.Want lists for a key that is not in the file
    match o.hex? "file", (o.get? "kt").bind parseKT, o.hex? "host", o.get? "port" with
    | some f, some kt, some h, some p =>
      match readDB kt f with
      | .error _ => "parse-err"
      | .ok db =>
        match db.checkAddr ⟨h, p.toUTF8.toList⟩ 0 with
        | .keyErr ls => s!"lines:{showNats ls} keygen:same"
        | v => showVerdict v
    | _, _, _, _ => "bad-op"
  | "kh" =>
    match o.hex? "file" with
    | some f => runQueries o f
    | none => "bad-op"
  | "lq" =>   -- file = Line(addrs, key)
    match (splitList (o.str "addrs") ",").mapM ofHex, o.hex? "type", o.hex? "blob" with
    | some addrs, some t, some b => runQueries o (knownHostsLine addrs t b)
    | _, _, _ => "bad-op"
  | "hq" =>   -- file = HashHostname(Normalize(host)) + " " + type + " " + base64(blob)
    match o.hex? "host", o.hex? "salt", o.hex? "type", o.hex? "blob" with
    | some h, some s, some t, some b =>
      runQueries o (hashHostname s (normalize h) ++ cSP :: t ++ cSP :: b64Encode b)
    | _, _, _, _ => "bad-op"
  | "line" =>
    match (splitList (o.str "addrs") ",").mapM ofHex, o.hex? "type", o.hex? "blob" with
    | some addrs, some t, some b => toHex (knownHostsLine addrs t b)
    | _, _, _ => "bad-op"
  | "hh" =>
    match o.hex? "host", o.hex? "salt" with
    | some h, some s => toHex (hashHostname s h)
    | _, _ => "bad-op"
  | "norm" =>
    match o.hex? "a" with
    | some a => toHex (normalize a)
    | none => "bad-op"
  | "shp" =>
    match o.hex? "s" with
    | some s =>
      match splitHostPort s with
      | some (h, p) => s!"ok {toHex h} {toHex p}"
      | none => "err"
    | none => "bad-op"
  | "b64d" =>
    match o.hex? "s" with
    | some s =>
      match b64Decode s with
      | some b => s!"ok {toHex b}"
      | none => "err"
    | none => "bad-op"
  | "b64e" =>
    match o.hex? "s" with
    | some s => toHex (b64Encode s)
    | none => "bad-op"
  | _ => "bad-op"

end XC.C42
