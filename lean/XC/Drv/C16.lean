import XC.Model.C16
namespace XC.C16

/-- the memory / run-time guard shared with the harness: an accepted parameter set is only run when
    128·r·N ≤ 64 MiB, p·128·r ≤ 1 MiB, p·r·N ≤ 2^18 and keyLen ≤ 2^16 -/
def tooBig (n r p keyLen : Int) : Bool :=
  validate n r p keyLen == .accept &&
    (128 * r * n > 2 ^ 26 || p * 128 * r > 2 ^ 20 || p * r * n > 2 ^ 18 || keyLen > 2 ^ 16)

/-- `key pw=<hex> salt=<hex> N=<int> r=<int> p=<int> keyLen=<int> [want=<hex>]` → `ok <hex>` | `err` | `panic`;
    with `want` (a published vector) a different key is `kat-mismatch <hex>` on both sides -/
def handle (line : String) : String :=
  let o := parseOp line
  if o.cmd == "pb" then
    -- x/crypto/pbkdf2.Key(pw, salt, iter, keyLen, sha256.New): crypto/pbkdf2's refusals become a panic
    match o.hex? "pw", o.hex? "salt", o.nat? "iter", o.int? "keyLen" with
    | some pw, some salt, some it, some kl =>
      if kl > 2 ^ 16 ∧ kl ≤ (2 ^ 32 - 1) * 32 then "too-big" else
      match pbkdf2Std pw salt it kl with
      | none => "panic"
      | some k => s!"ok {toHex k}"
    | _, _, _, _ => "bad-op"
  else
  if o.cmd != "key" then "bad-op" else
  match o.hex? "pw", o.hex? "salt", o.int? "N", o.int? "r", o.int? "p", o.int? "keyLen" with
  | some pw, some salt, some n, some r, some p, some keyLen =>
    if tooBig n r p keyLen then "too-big" else
    match Key pw salt n r p keyLen with
    | .err => "err"
    | .panic => "panic"
    | .ok k =>
      -- (the flat-memory model is proved equal to RFC 7914: XC.C16.scrypt_key_eq_rfc7914)
      match o.get? "want" with
      | none => s!"ok {toHex k}"
      | some w => if ofHex w == some k then s!"ok {toHex k}" else s!"kat-mismatch {toHex k}"
  | _, _, _, _, _, _ => "bad-op"

end XC.C16
