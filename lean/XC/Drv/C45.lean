import XC.Model.C45
import XC.Model.C45_Keys
import XC.Model.C44
import XC.Drv.C46
namespace XC.C45
open XC

def showOpt (f : α → String) : Option α → String
  | none => "none"
  | some a => f a

def showSig (r : String ⊕ Except RErr (SigInfo × Bytes)) : String :=
  match r with
  | .inl s => s
  | .inr (.error e) => "err:" ++ e.show
  | .inr (.ok (g, _)) =>
    s!"ok st={g.sigType} pk={g.pkAlgo} h={g.hashId} ct={(g.ctime.getD 0)} iss={showOpt toString g.issuer} sl={showOpt toString g.sigLife} kl={showOpt toString g.keyLife} ps={showOpt toHex g.prefSym} ph={showOpt toHex g.prefHash} pc={showOpt toHex g.prefComp} prim={showOpt toString g.primary} fl={showOpt toString g.flags} rr={showOpt (fun (p : UInt8 × Bytes) => s!"{p.1}:{toHex p.2}") g.revReason} mdc={g.mdc} emb={if g.hasEmbedded then toString g.embeddedType else "none"} nraw={g.nraw} tag={toHex g.hashTag} mpi={",".intercalate (g.mpiBits.map toString)}"

/-- the packets `OpaqueReader.Next` returned WITHOUT an error (those are the ones the harness re-serialises);
    `opaqueAll` also lists a packet handed back together with a body error, and a header error adds none —
    both end in `ueof`, so the distinction is recomputed here (fuel = input length, driver only) -/
def opaqueOk : Nat → Bytes → List OPkt
  | 0, _ => []
  | fuel + 1, s =>
    match readHeader s with
    | .error _ => []
    | .ok hd =>
      match readBody hd.body hd.rest with
      | (_, some _, _) => []
      | (c, none, rest) => ⟨hd.tag, c⟩ :: opaqueOk fuel rest

def handle (line : String) : String :=
  let o := parseOp line
  match o.cmd with
  | "opq" =>
    match o.hex? "data" with
    | none => "bad-op"
    | some d =>
      let r := opaqueAll d
      let ps := if r.1.isEmpty then "-" else ",".intercalate (r.1.map (fun p => s!"{p.tag}:{toHex p.contents}"))
      s!"n={r.1.length} p={ps} end={r.2.show}"
  | "hdr" =>
    match o.hex? "data" with
    | none => "bad-op"
    | some d =>
      match readHeader d with
      | .error e => "err:" ++ e.show
      | .ok h =>
        let kind := match h.body with | .span _ => "span" | .part _ => "part" | .indet => "indet"
        let first := match h.body with | .part n => n | _ => 0
        s!"tag={h.tag} len={h.length} kind={kind} first={first} consumed={d.length - h.rest.length}"
  | "mpi" =>
    match o.hex? "data" with
    | none => "bad-op"
    | some d =>
      match readMPI d with
      | .error e => "err:" ++ e.show
      | .ok (b, bits, rest) => s!"ok bits={bits} bytes={toHex b} consumed={d.length - rest.length}"
  | "osub" =>
    match o.hex? "data" with
    | none => "bad-op"
    | some d =>
      let r := opaqueSubs d
      let ps := if r.1.isEmpty then "-" else ",".intercalate (r.1.map (fun p => s!"{p.1}:{toHex p.2}"))
      s!"subs={ps} trunc={r.2}"
  | "sig" =>
    match o.hex? "data" with
    | none => "bad-op"
    | some d => showSig (sigRead d)
  | "s2k" =>
    match o.hex? "data" with
    | none => "bad-op"
    | some d =>
      match s2kParse d with
      | .error e => "err:" ++ e.show
      | .ok (m, c) => s!"ok mode={m} consumed={c}"
  | "arm" =>
    match o.hex? "data" with
    | none => "bad-op"
    | some d => XC.C46.showDec (XC.C46.decode d)
  | "clrdec" => XC.C46.handle line
  | "opqser" =>
    -- OpaquePacket.Serialize = serializeHeader(tag, len) ‖ contents, for the packets parsed before the first error
    match o.hex? "data" with
    | none => "bad-op"
    | some d =>
      let ok := opaqueOk (d.length + 1) d
      "ser=" ++ toHex ((ok.map (fun p => C44.serializeHeader p.tag p.contents.length ++ p.contents)).flatten)
  | "osubser" =>
    match o.hex? "data" with
    | none => "bad-op"
    | some d =>
      let r := opaqueSubs d
      let encLen : Nat → Bytes := fun n =>
        if n < 192 then [UInt8.ofNat n]
        else if n < 16320 then [UInt8.ofNat ((n - 192) / 256 + 192), UInt8.ofNat ((n - 192) % 256)]
        else 255 :: natToBE 4 n
      "ser=" ++ toHex ((r.1.map (fun p => encLen (p.2.length + 1) ++ p.1 :: p.2)).flatten)
  | "krtok" =>
    -- key-ring assembly over a token sequence (packets of the two RSA test keys)
    match o.get? "toks" with
    | none => "bad-op"
    | some t =>
      let toks := if t == "-" then [] else t.splitOn ","
      let item? : String → Option C45K.Item := fun x =>
        match x with
        | "P1" => some (.key 1 false) | "P2" => some (.key 2 false)
        | "K1" => some (.key 3 true) | "K2" => some (.key 4 true)
        | "U1" => some (.uid 1) | "U2" => some (.uid 2)
        | "S1" => some (.cert 1) | "S2" => some (.cert 2)
        | "B1" => some (.bind 1) | "B2" => some (.bind 2)
        | "G" => some .ign | "T" => some .skip | "X" => some .eUnsup | "Y" => some .eStruct
        | _ => none
      match toks.mapM item? with
      | none => "bad-op"
      | some items =>
        match C45K.readKeyRing [] false items with
        | none => "err"
        | some es =>
          if es.isEmpty then "ok -" else
          "ok " ++ ",".intercalate (es.map (fun e =>
            s!"{e.prim}[{" ".intercalate (e.uids.toArray.qsort (· < ·) |>.toList.map toString)};{" ".intercalate (e.subs.map toString)}]"))
  | "kr" | "akr" | "msg" | "det" =>
    -- upper layers (keys.go, read.go above the packet layer) are not modelled:
    -- the only prediction is "returns a result or an error" (no panic, terminates)
    match o.get? "data" with
    | none => "bad-op"
    | some _ => "no-panic"
  | _ => "bad-op"

end XC.C45
