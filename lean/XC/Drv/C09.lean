import XC.Model.C09
namespace XC.C09

/-- `xks key=<32B> ctr=<16B> src=<hex>`   → `<out> <ctr after the call>`     salsa.XORKeyStream
    `s20 key=<32B> nonce=<hex> src=<hex>`  → `<out>` / `panic`                salsa20.XORKeyStream
    `hs key=<32B> in=<16B> c=<16B>`        → `<32B>`                          salsa.HSalsa20
    `c208 in=<64B>`                        → `<64B>`                          salsa.Core208 -/
def handle1 (line : String) : String :=
  let o := parseOp line
  if o.cmd == "xks" then
    match o.hex? "key", o.hex? "ctr", o.hex? "src" with
    | some key, some ctr, some src =>
      if key.length ≠ 32 || ctr.length ≠ 16 then "bad-op" else
      s!"{toHex (genericXORKeyStream key ctr src)} {toHex ctr} mut=-"
    | _, _, _ => "bad-op"
  else if o.cmd == "s20" then
    match o.hex? "key", o.hex? "nonce", o.hex? "src" with
    | some key, some nonce, some src =>
      if key.length ≠ 32 then "bad-op" else
      match salsa20XORKeyStream key nonce src with
      | none => "panic mut=-"
      | some out => toHex out ++ " mut=-"
    | _, _, _ => "bad-op"
  else if o.cmd == "hs" then
    match o.hex? "key", o.hex? "in", o.hex? "c" with
    | some key, some inp, some c =>
      if key.length ≠ 32 || inp.length ≠ 16 || c.length ≠ 16 then "bad-op" else
      toHex (hsalsa20Go inp key c) ++ " mut=-"
    | _, _, _ => "bad-op"
  else if o.cmd == "c208" then
    match o.hex? "in" with
    | some inp => if inp.length ≠ 64 then "bad-op" else toHex (core208Go inp) ++ " mut=-"
    | none => "bad-op"
  else "bad-op"

/-- a line is one op, or a session `sess <op> ## <op> ## …` (the harness runs the ops of a session on the
    same key / counter / nonce / in / out arrays with contents changed in place; the model is a function of
    contents, so a session is just the list of answers). `mut=` (caller memory written outside the
    documented output) is always `-` for the model. -/
def handle (line : String) : String :=
  if line.startsWith "sess " then
    " ## ".intercalate (((line.drop 5).toString.splitOn " ## ").map handle1)
  else handle1 line

end XC.C09
