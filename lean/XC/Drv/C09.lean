import XC.Model.C09
namespace XC.C09

/-- `xks key=<32B> ctr=<16B> src=<hex>`   → `<out> <ctr after the call>`     salsa.XORKeyStream
    `s20 key=<32B> nonce=<hex> src=<hex>`  → `<out>` / `panic`                salsa20.XORKeyStream
    `hs key=<32B> in=<16B> c=<16B>`        → `<32B>`                          salsa.HSalsa20
    `c208 in=<64B>`                        → `<64B>`                          salsa.Core208 -/
def handle (line : String) : String :=
  let o := parseOp line
  if o.cmd == "xks" then
    match o.hex? "key", o.hex? "ctr", o.hex? "src" with
    | some key, some ctr, some src =>
      if key.length ≠ 32 || ctr.length ≠ 16 then "bad-op" else
      s!"{toHex (genericXORKeyStream key ctr src)} {toHex ctr}"
    | _, _, _ => "bad-op"
  else if o.cmd == "s20" then
    match o.hex? "key", o.hex? "nonce", o.hex? "src" with
    | some key, some nonce, some src =>
      if key.length ≠ 32 then "bad-op" else
      match salsa20XORKeyStream key nonce src with
      | none => "panic"
      | some out => toHex out
    | _, _, _ => "bad-op"
  else if o.cmd == "hs" then
    match o.hex? "key", o.hex? "in", o.hex? "c" with
    | some key, some inp, some c =>
      if key.length ≠ 32 || inp.length ≠ 16 || c.length ≠ 16 then "bad-op" else
      toHex (hsalsa20Go inp key c)
    | _, _, _ => "bad-op"
  else if o.cmd == "c208" then
    match o.hex? "in" with
    | some inp => if inp.length ≠ 64 then "bad-op" else toHex (core208Go inp)
    | none => "bad-op"
  else "bad-op"

end XC.C09
