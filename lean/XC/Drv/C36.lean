/-
  C36 driver (accept mode): `op<TAB>trace` → `ok` iff the trace of the REAL mux equals the model's.

  op    : mux [cls=flood] steps=<tok,…>      (cls=flood: regression family of the fixed blocked-loop finding)
          p<hex>      the peer sends this raw packet
          o           application: OpenChannel("x")            (call id = step index)
          g1 | g0     application: SendRequest("req", wantReply)
          q<h>.1|.0   application: channel SendRequest on its h-th channel
          k<h>        application: Close on its h-th channel
          e<h>        application: CloseWrite on its h-th channel
          x | z       the peer closes the connection | the application calls Close on the connection
  trace : one segment per step, `|`-separated: `-` or a comma list, in order:
          packets the real side wrote   w90:<id> w91:<recipient>:<sender> w92:<recipient>:<reason> w93:<r>:<n> w97:<r>
                                        w98:<r>:<want> w99:<r> w100:<r> w80:<want> w81 w82 w193:<len>
          things delivered to the application  nc:<type>:<len(ExtraData)> gr:<name>:<want> cr:<id>:<name>:<want>
          then (sorted) calls that returned  O<k>=ok|fail:<reason>|err  G<k>=ok|fail|err|nowait  R<k>=…|und  K<k>=ok|err|und
          END (the mux loop ended) followed by shut=ok (every channel, request stream and queue found closed)
          BLOCKED (the mux loop consumed the packet and never came back for the next one); after that the peer's
          hang-up yields STUCK,shut=bad:loop-never-exits (mux.Wait does not return)
-/
import XC.Model.C36
namespace XC.C36

def sortStrs (xs : List String) : List String := (xs.toArray.qsort (· < ·)).toList

def seg (evs : Evs) : String := if evs.isEmpty then "-" else ",".intercalate evs

/-- after the loop ended: shutdown, then every blocked caller fails -/
def endMux (m : Mux) (pre : Evs) : Mux × String :=
  let (m, comp) := completions (shutdown m)
  (m, seg (pre ++ ["END"] ++ sortStrs comp ++ ["shut=ok"]))

def stepTok (m : Mux) (i : Nat) (tok : String) : Except String (Mux × String) :=
  match tok.toList with
  | 'p' :: hex =>
    if m.ended then .ok (m, "-") else
    match XC.ofHex (String.ofList hex) with
    | none => .error "bad-op"
    | some p =>
      match onePacket m p with
      | none => .error "bad-op:unmodelled"
      | some (.panic, _, _) => .ok (m, "panic")
      | some (.blocks, _, ev) => .ok (m, seg (ev ++ ["BLOCKED"]))
      | some (.err, m, ev) => .ok (endMux m ev)
      | some (.ok, m, ev) =>
        let (m, comp) := completions m
        .ok (m, seg (ev ++ sortStrs comp))
  | ['x'] => if m.ended then .ok (m, "-") else .ok (endMux m [])
  | ['z'] => if m.ended then .ok (m, "-") else .ok (endMux m [])      -- local Conn.Close(): the loop ends the same way
  | 'e' :: rest =>
    match (String.ofList rest).toNat? with
    | none => .error "bad-op"
    | some h =>
      match localEOF m i h with
      | none => .ok (m, "-")
      | some (m, ev) => .ok (m, seg ev)
  | ['o'] =>
    let (m, ev) := localOpen m i
    let (m, comp) := completions m
    .ok (m, seg (ev ++ sortStrs comp))
  | ['g', w] =>
    if m.globalCaller.isSome then .ok (m, "-") else
    let (m, ev) := localGlobal m i (w == '1')
    let (m, comp) := completions m
    .ok (m, seg (ev ++ sortStrs comp))
  | 'q' :: rest =>
    match (String.ofList rest).splitOn "." with
    | [h, w] =>
      match h.toNat? with
      | none => .error "bad-op"
      | some h =>
        if chanReqBlocks m h (w == "1") then .ok (m, "-") else
        match localChanReq m i h (w == "1") with
        | none => .ok (m, "-")
        | some (m, ev) =>
          let (m, comp) := completions m
          .ok (m, seg (ev ++ sortStrs comp))
    | _ => .error "bad-op"
  | 'k' :: rest =>
    match (String.ofList rest).toNat? with
    | none => .error "bad-op"
    | some h =>
      match localClose m i h with
      | none => .ok (m, "-")
      | some (m, ev) => .ok (m, seg ev)
  | _ => .error "bad-op"

/-- `stuck`: the mux loop is parked for ever in `ch.msg <- msg`; the harness then only lets the peer hang up -/
def expect : Mux → Bool → Nat → List String → List String → Except String (List String × Bool)
  | _, stuck, _, [], acc => .ok (acc.reverse, stuck)
  | m, true, i, t :: ts, acc =>
    expect m true (i+1) ts ((if t == "x" then "STUCK,shut=bad:loop-never-exits" else "-") :: acc)
  | m, false, i, t :: ts, acc =>
    match stepTok m i t with
    | .error e => .error e
    | .ok (m', s) =>
      if s == "panic" then .ok (("panic" :: acc).reverse, false)
      else expect m' ((s.splitOn "BLOCKED").length > 1) (i+1) ts (s :: acc)

def handle (line : String) : String :=
  match line.splitOn "\t" with
  | [opS, tr] =>
    let o := parseOp opS
    if o.cmd != "mux" then "bad-op" else
    match o.get? "steps" with
    | none => "bad-op"
    | some st =>
      match expect Mux.init false 0 (st.splitOn ",") [] with
      | .error e => e
      | .ok (want, stuck) =>
        let w := "|".intercalate want
        -- (cls=flood marks the regression family of the former blocked-loop finding; the model never blocks now)
        if stuck then "reject:model-blocks"
        else if (tr.splitOn "panic").length > 1 then "violation:mux_total (panic)"
        else if tr == "hang" || (tr.splitOn "|hang").length > 1 then "violation:hang"
        else if tr != w then s!"reject:want={w}"
        else if (tr.splitOn "shut=bad").length > 1 then
          (if stuck then "violation:shutdown_closes_all (the trace is a run of the model of the code as written: the mux loop is parked in `default: ch.msg <- msg` after 16 unsolicited messages nobody receives; when the connection ends the loop never exits, Wait never returns, channels and request streams stay open)"
           else "violation:shutdown_closes_all")
        else "ok"
  | _ => "bad-op"

end XC.C36
