/-
  C29 driver (conf mode "accept"): one line `op<TAB>impl`; answers `ok` iff the implementation's
  observable is what the model derives from the op and the captured wire packets.
-/
import XC.Model.C29
namespace XC.C29
open XC

def hexList (s : String) : Option (List Bytes) :=
  if s == "-" then some [] else (s.splitOn ",").mapM ofHex

/-- last field of a pre-image = K as hashed and as returned in kexResult.K -/
def lastEnc (fs : List Field) : Bytes :=
  match fs.getLast? with
  | some f => f.enc
  | none => []

/-- one real side: status / H / K must be what the model's function says -/
def checkSide (who : String) (status : String) (h k : Bytes) (expected : Option (List Field)) (hash : HashId) : Option String :=
  match expected with
  | none => if status == "err" then none else some s!"{who}: model rejects, impl {status}"
  | some fs =>
    if status != "ok" then some s!"{who}: model accepts, impl {status}"
    else if hash.run (encFields fs) != h then some s!"{who}: H differs from hash(pre-image)"
    else if lastEnc fs != k then some s!"{who}: K differs"
    else none

/-- value of a reported mpint K (canonical form is enforced later by comparing encodings) -/
def kOfMpint (k : Bytes) : Nat :=
  match takeString k with
  | some (body, _) => (parseMpintBody body).toNat
  | none => 0

def kOfString (k : Bytes) : Bytes :=
  match takeString k with
  | some (body, _) => body
  | none => []

structure Ctx where
  mode : String
  cm : Magics
  sm : Magics
  c : String
  s : String
  hc : Bytes
  kc : Bytes
  hs : Bytes
  ks : Bytes
  pk : List Bytes
  okv : Option Bytes      -- oracle raw secret, none = unknown
  omk : Option Bytes
  oxk : Option Bytes

def Ctx.clientReal (x : Ctx) : Bool := x.mode == "rr" || x.mode == "pc"
def Ctx.serverReal (x : Ctx) : Bool := x.mode == "rr" || x.mode == "ps"
def Ctx.pkt (x : Ctx) (i : Nat) : Bytes := x.pk.getD i []

/-- K reported by a side that accepted (client first) -/
def Ctx.reportedK (x : Ctx) : Bytes := if x.c == "ok" then x.kc else x.ks

def first (l : List (Option String)) : Option String :=
  match l with
  | [] => none
  | some e :: _ => some e
  | none :: r => first r

def firstErr (l : List (Unit → Option String)) : Option String :=
  match l with
  | [] => none
  | f :: r => match f () with
    | some e => some e
    | none => firstErr r

def need (b : Bool) (msg : String) : Option String := if b then none else some msg

def judgeDH (x : Ctx) (p : Nat) (hash : HashId) : Option String :=
  let init := x.pkt 0
  let reply := x.pkt 1
  let k : Nat := match x.okv with
    | some b => natOfBE b
    | none => kOfMpint x.reportedK
  firstErr [
    fun _ => if x.clientReal then
        match parseMsg 30 [.int] init with
        | some [.int X] =>
          first [need (init == 30 :: mpint X.toNat && X ≥ 0) "client: init packet is not the canonical marshal",
                 checkSide "client" x.c x.hc x.kc (dhClient p x.cm X.toNat reply k) hash]
        | _ => some "client: init packet unparsable"
      else none,
    fun _ => if x.serverReal then
        if x.s == "ok" then
          match parseMsg 31 [.str, .int, .str] reply with
          | some [.str hk, .int Y, .str sg] =>
            first [need (reply == 31 :: (sshString hk ++ mpint Y.toNat ++ sshString sg) && Y ≥ 0) "server: reply is not the canonical marshal",
                   checkSide "server" x.s x.hs x.ks (dhServer p x.sm init hk Y.toNat k) hash]
          | _ => some "server: reply unparsable"
        else first [checkSide "server" x.s x.hs x.ks (dhServer p x.sm init [] 0 0) hash,
                    need (x.pk.length ≤ 1) "server: wrote a reply although it failed"]
      else none ]

def judgeStrKex (x : Ctx) (hash : HashId)
    (client : Magics → Bytes → Bytes → Option (List Field))
    (server : Magics → Bytes → Bytes → Bytes → Option (List Field))
    (ownOK : Bytes → Bool) : Option String :=
  let init := x.pkt 0
  let reply := x.pkt 1
  firstErr [
    fun _ => if x.clientReal then
        match parseMsg 30 [.str] init with
        | some [.str qc] =>
          first [need (init == 30 :: sshString qc) "client: init packet is not the canonical marshal",
                 need (ownOK qc) "client: own public value is malformed",
                 checkSide "client" x.c x.hc x.kc (client x.cm qc reply) hash]
        | _ => some "client: init packet unparsable"
      else none,
    fun _ => if x.serverReal then
        if x.s == "ok" then
          match parseMsg 31 [.str, .str, .str] reply with
          | some [.str hk, .str qs, .str sg] =>
            first [need (reply == 31 :: (sshString hk ++ sshString qs ++ sshString sg)) "server: reply is not the canonical marshal",
                   need (ownOK qs) "server: own public value is malformed",
                   checkSide "server" x.s x.hs x.ks (server x.sm init hk qs) hash]
          | _ => some "server: reply unparsable"
        else first [checkSide "server" x.s x.hs x.ks (server x.sm init [] []) hash,
                    need (x.pk.length ≤ 1) "server: wrote a reply although it failed"]
      else none ]

def gexReq : Bytes := 34 :: (u32 2048 ++ u32 2048 ++ u32 8192)

def judgeGex (x : Ctx) (hash : HashId) : Option String :=
  let req := x.pkt 0
  let group := x.pkt 1
  let init := x.pkt 2
  let reply := x.pkt 3
  let kKnown := x.okv.isSome
  let k : Nat := match x.okv with
    | some b => natOfBE b
    | none => kOfMpint x.reportedK
  firstErr [
    fun _ => if x.clientReal then
        first [
          need (req == gexReq) "client: request is not (2048, 2048, 8192)",
          match parseMsg 31 [.int, .int] group with
          | some [.int P, .int G] =>
            if gexGroupOK P G then
              match parseMsg 32 [.int] init with
              | some [.int X] =>
                -- without an oracle the derived-k check cannot be predicted: take a k that passes it
                let k' := if kKnown || x.c == "ok" then k else 2
                first [need (init == 32 :: mpint X.toNat && X > 0) "client: GexInit is not the canonical marshal",
                       checkSide "client" x.c x.hc x.kc (gexClient x.cm group X.toNat reply k') hash]
              | _ => some "client: accepted group but sent no GexInit"
            else first [need (x.c == "err") "client: model rejects the group, impl accepted",
                        need (x.pk.length ≤ 2) "client: sent GexInit for a rejected group"]
          | _ => need (x.c == "err") "client: accepted an unparsable group message" ]
      else none,
    fun _ => if x.serverReal then
        match gexServerGroup req with
        | none => first [need (x.s == "err") "server: model rejects the request, impl did not",
                         need (x.pk.length ≤ 1) "server: answered a rejected request"]
        | some (_, _, _, size) =>
          match groupPrime size with
          | none => some "model: no prime"
          | some p =>
            first [
              need (group == 31 :: (mpint p ++ mpint 2)) "server: group message is not (RFC 3526 prime of the chosen size, 2)",
              if x.s == "ok" then
                match parseMsg 33 [.str, .int, .str] reply with
                | some [.str hk, .int Y, .str sg] =>
                  first [need (reply == 33 :: (sshString hk ++ mpint Y.toNat ++ sshString sg) && Y ≥ 0) "server: reply is not the canonical marshal",
                         checkSide "server" x.s x.hs x.ks (gexServer x.sm req p init hk Y.toNat k) hash]
                | _ => some "server: reply unparsable"
              else first [checkSide "server" x.s x.hs x.ks (gexServer x.sm req p init [] 0 0) hash,
                          need (x.pk.length ≤ 3) "server: wrote a reply although it failed"] ]
      else none ]

def judgeMethod (x : Ctx) (m : Method) : Option String :=
  match m with
  | .dh bits h =>
    match groupPrime bits with
    | some p => judgeDH x p h
    | none => some "model: no prime"
  | .gex h => judgeGex x h
  | .ecdh c =>
    let secret : Nat := match x.okv with
      | some b => natOfBE b
      | none => kOfMpint x.reportedK
    judgeStrKex x c.hash (fun m qc reply => ecdhClient c m qc reply secret)
      (fun m init hk qs => ecdhServer c m init hk qs secret) (fun q => (c.unmarshal q).isSome)
  | .c25519 =>
    -- an unknown secret is represented by the big-endian bytes of the reported K value
    let secret : Bytes := match x.okv with
      | some b => b
      | none => natBytes (kOfMpint x.reportedK)
    judgeStrKex x .sha256 (fun m qc reply => c25519Client m qc reply secret)
      (fun m init hk qs => c25519Server m init hk qs secret) (fun q => q.length == 32)
  | .mlkem =>
    let secret : Bytes := match x.omk, x.oxk with
      | some a, some b => mlkemK a b
      | _, _ => kOfString x.reportedK
    judgeStrKex x .sha256 (fun m qc reply => mlkemClient m qc reply secret)
      (fun m init hk qs => mlkemServer m init hk qs secret)
      (fun q => q.length == mlkemEkSize + 32 || q.length == mlkemCtSize + 32)

def optHex (o : Op) (k : String) : Option (Option Bytes) :=
  match o.get? k with
  | none => some none
  | some "?" => some none
  | some s => (ofHex s).map some

def hashName : HashId → String
  | .sha1 => "sha1" | .sha256 => "sha256" | .sha384 => "sha384" | .sha512 => "sha512"

def judgeKex (o i : Op) : String :=
  match methodOf (o.str "m"), o.hex? "vc", o.hex? "vs", o.hex? "ic", o.hex? "is",
        i.hex? "hc", i.hex? "kc", i.hex? "hs", i.hex? "ks", hexList (i.str "pk"),
        optHex i "ok", optHex i "omk", optHex i "oxk" with
  | some m, some vc, some vs, some ic, some is, some hc, some kc, some hs, some ks, some pk,
    some okv, some omk, some oxk =>
    let cm : Magics := ⟨vc, vs, ic, is⟩
    let mm := o.str "mm"
    let mmv := (o.hex? "mmv").getD []
    let sm : Magics :=
      if mm == "vc" then { cm with vc := mmv } else if mm == "vs" then { cm with vs := mmv }
      else if mm == "ic" then { cm with ic := mmv } else if mm == "is" then { cm with is := mmv } else cm
    let mode := o.str "mode"
    if !(mode == "rr" || mode == "pc" || mode == "ps") then "bad-op" else
    let x : Ctx := ⟨mode, cm, sm, i.str "c", i.str "s", hc, kc, hs, ks, pk, okv, omk, oxk⟩
    -- `oks`: the peer knows only that the secret is one of several values; one of them must explain the observable
    let alts : List Bytes := match i.get? "oks" with
      | none => []
      | some a => (hexList a).getD []
    let r := firstErr [
      fun _ => if alts.isEmpty then judgeMethod x m
        else if alts.any (fun a => (judgeMethod { x with okv := some a } m).isNone) then none
        else some "no candidate secret explains the observable",
      -- both real sides: same K; same H exactly when they hashed the same magics
      fun _ => if mode == "rr" && x.c == "ok" && x.s == "ok" then
          first [need (kc == ks) "client and server K differ",
                 need ((hc == hs) == (cm == sm)) "H agreement does not match magics agreement",
                 need (i.str "hash" == hashName m.hash) "wrong hash function in kexResult"]
        else none,
      -- the client's host-key-signature gate
      fun _ => match i.get? "vh" with
        | none => none
        | some vh =>
          match i.hex? "vsig", i.hex? "vhh" with
          | some vsig, some vhh =>
            let expected := hostSigGateFor vsig (i.str "valgo") (i.str "sigc" == "1")
            first [need ((vh == "1") == expected) s!"signature gate: impl {vh}, model {expected}",
                   need (!((o.str "st" == "-" || o.str "st" == "plain") && mm == "-") || vh == "1") "signature gate rejects the honest exchange",
                   need (!(vh == "1") || (vhh == hs && vhh == hc)) "client accepted a signature although the exchange hashes differ"]
          | _, _ => some "bad-impl"
      ,
      -- real server vs scripted client: what it signed is its H, under the negotiated algorithm
      fun _ => if mode == "ps" && x.s == "ok" then
          first [need (i.str "ssig" == "1") "server's signature does not verify over its H",
                 need (i.str "sfmt" == underlyingAlgo (o.str "hk")) "server signed with another algorithm than negotiated"]
        else none ]
    match r with
    | none => "ok"
    | some e => e
  | _, _, _, _, _, _, _, _, _, _, _, _, _ => "bad-op"

def judgeChoose (o : Op) (impl : String) : String :=
  match o.nat? "min", o.nat? "pref", o.nat? "max" with
  | some mn, some pf, some mx =>
    if mn ≥ 2^32 || pf ≥ 2^32 || mx ≥ 2^32 then "bad-op" else
    let want :=
      match chooseDH (UInt32.ofNat mn) (UInt32.ofNat pf) (UInt32.ofNat mx) with
      | none => "r err"
      | some size =>
        match groupPrime size with
        | none => "model: no prime"
        | some p =>
          let g := if size == 2048 then "g14" else if size == 4096 then "g16" else "other"
          s!"r ok bits={size} p={toHex (natBytes p)} g={g}"
    if impl == want then "ok" else s!"want {want.take 40}"
  | _, _, _ => "bad-op"

def allNames : List String :=
  ["curve25519-sha256", "curve25519-sha256@libssh.org", "diffie-hellman-group-exchange-sha1",
   "diffie-hellman-group-exchange-sha256", "diffie-hellman-group1-sha1", "diffie-hellman-group14-sha1",
   "diffie-hellman-group14-sha256", "diffie-hellman-group16-sha512", "ecdh-sha2-nistp256", "ecdh-sha2-nistp384",
   "ecdh-sha2-nistp521", "mlkem768x25519-sha256"]

def csv (s : String) : List String := if s == "-" || s == "" then [] else s.splitOn ","

/-- the method table: exactly the names the model knows; everything advertised is in it; the default list only
    contains known methods and offers the libssh alias whenever it offers curve25519-sha256 -/
def judgeNames (i : Op) : String :=
  let names := csv (i.str "names")
  let adv := csv (i.str "supported") ++ csv (i.str "insecure")
  let dflt := csv (i.str "default")
  if names.any (fun n => (methodOf n).isNone) then "kexAlgoMap has a method the model does not know"
  else if allNames.any (fun n => !names.contains n) then "kexAlgoMap lacks a method of the model"
  else if adv.any (fun n => !names.contains n) then "an advertised key exchange is not in kexAlgoMap"
  else if names.any (fun n => !adv.contains n && n != "curve25519-sha256@libssh.org") then "a kexAlgoMap entry is not advertised"
  else if dflt.any (fun n => !names.contains n) then "a default key exchange is not in kexAlgoMap"
  else if dflt.contains "curve25519-sha256" && !dflt.contains "curve25519-sha256@libssh.org" then "SetDefaults does not add the libssh alias"
  else "ok"

def hashSize : HashId → Nat
  | .sha1 => 20 | .sha256 => 32 | .sha384 => 48 | .sha512 => 64

/-- a whole connection set-up through NewClientConn / NewServerConn -/
def judgeConn (o i : Op) : String :=
  match methodOf (o.str "m") with
  | none => "bad-op"
  | some m =>
    if o.str "cb" == "wrong" then
      -- the host key callback refuses the key: the client must fail (the server then fails too)
      if i.str "c" == "err" then "ok" else "client connected although its HostKeyCallback rejects the host key"
    else if i.str "c" != "ok" || i.str "s" != "ok" then s!"connection set-up failed: c={i.str "c"} s={i.str "s"}"
    else if i.str "sideq" != "1" then "SessionID differs between client and server"
    else if i.nat? "sidlen" != some (hashSize m.hash) then "SessionID has the wrong length for the method's hash"
    else if i.str "ver" != "1" then "ClientVersion / ServerVersion are not the configured strings on both sides"
    else if i.str "ckex" != o.str "m" || i.str "skex" != o.str "m" then "negotiated key exchange is not the configured one"
    else if i.str "chk" != o.str "hk" || i.str "shk" != o.str "hk" then "negotiated host key algorithm is not the configured one"
    else "ok"

/-- first exchange honest, second exchange scripted: (signature valid over the new H under the presented key,
    callback accepts the presented key) -/
def judgeRekeySig (o i : Op) : String :=
  let sb := o.str "sb"
  let fixed := o.str "cb" == "fixed"
  let second : Option (Bool × Bool) :=
    if sb == "valid" then some (true, true)
    else if sb == "replay" || sb == "garbage" || sb == "othersig" then some (false, true)
    else if sb == "otherkey" then some (true, !fixed)      -- another key, properly signed: only the callback can object
    else none
  match second with
  | none => "bad-op"
  | some x =>
    if i.str "first" != "ok" then s!"first key exchange: {i.str "first"}"
    else
      let want := if sessionAccepts [(true, true), x] then "ok" else "fail"
      if i.str "rekey" == want then "ok" else s!"re-key: impl {i.str "rekey"}, model {want}"

/-- scripted client with first_kex_packet_follows against the real server. The peer sends (fkf=1) one guessed init
    packet of its first preference; with resend=1 it then sends the init of the negotiated method as well.
    The server sees, after KEXINIT: [guess]? ++ [init]? and must end up having consumed exactly one init. -/
def judgeFKF (o i : Op) : String :=
  let ck := csv (o.str "ck"); let sk := csv (o.str "sk")
  let chk := csv (o.str "chk"); let shk := csv (o.str "shk")
  let fkf := o.str "fkf" == "1"
  let resend := o.str "resend" == "1"
  let strictList := ck ++ ["kex-strict-c-v00@openssh.com"]
  -- the server's own lists: configured methods (+ libssh alias after curve25519-sha256) + its strict marker
  let discard := discardGuess fkf strictList sk chk shk
  let neg := ck.find? (fun k => sk.contains k)
  match neg with
  | none => if i.str "s" == "err" then "ok" else "no common key exchange, server did not fail"
  | some n =>
    -- packets after KEXINIT that reach the kex method: the guess is for ck[0]; it is usable only if that is the negotiated method
    let sent : Nat := (if fkf then 1 else 0) + (if resend || !fkf then 1 else 0)
    let consumedByDiscard : Nat := if discard then 1 else 0
    let guessUsable := !fkf || ck.head? == some n
    let reachKex := sent - consumedByDiscard
    let want :=
      if reachKex == 1 && (discard || guessUsable) then "ok"      -- exactly one init reaches the kex method, and it fits
      else if reachKex == 0 then "stall"
      else "err"
    if i.str "s" != want then s!"first_kex_packet_follows: server {i.str "s"}, model {want} (discard={discard})"
    else if want == "ok" && i.str "neg" != n then "negotiated method differs"
    else "ok"

def handle (line : String) : String :=
  match line.splitOn "\t" with
  | [opS, implS] =>
    let o := parseOp opS
    if o.cmd == "names" then judgeNames (parseOp implS)
    else if o.cmd == "conn" then judgeConn o (parseOp implS)
    else if o.cmd == "rksig" then judgeRekeySig o (parseOp implS)
    else if o.cmd == "fkf" then judgeFKF o (parseOp implS)
    else if o.cmd == "choose" then judgeChoose o implS
    else if o.cmd == "kex" then judgeKex o (parseOp implS)
    else "bad-op"
  | _ => "bad-op"

end XC.C29
