import XC.Model.C33
import XC.Drv.C32
namespace XC.C33

/-- same op lines and observables as C32 (`sauth …`); the generators differ -/
def handle (line : String) : String := XC.C32.handle line

end XC.C33
