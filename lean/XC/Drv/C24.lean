import XC.Model.C24
namespace XC.C24

/-! line protocol: a value list is `f1;f2;…` (`-` = no fields); one field is a kind letter + payload:
    `b0|b1`  `a<hex>`  `c<dec>` (u8)  `u<dec>` (u32)  `q<dec>` (u64)  `s<hex>`  `y<hex>`  `r<hex>`
    `n<name>,<name>…` (`n-` = empty list, an empty name is `.`)  `i<decimal Int>` -/

def showName (b : Bytes) : String := if b.isEmpty then "." else toHex b

def showNames (l : List Bytes) : String :=
  if l.isEmpty then "-" else ",".intercalate (l.map showName)

def showVal : Val → String
  | .bool b => if b then "b1" else "b0"
  | .arr bs => "a" ++ toHex bs
  | .u8 v => "c" ++ toString v.toNat
  | .u32 v => "u" ++ toString v.toNat
  | .u64 v => "q" ++ toString v.toNat
  | .str bs => "s" ++ toHex bs
  | .bytes bs => "y" ++ toHex bs
  | .rest bs => "r" ++ toHex bs
  | .names l => "n" ++ showNames l
  | .mpint n => "i" ++ toString n
  | .bad _ => "x"

def showVals (vs : List Val) : String :=
  if vs.isEmpty then "-" else ";".intercalate (vs.map showVal)

/-- the observable error class is what the Go error VALUE tells, never its text: the sentinel errShortRead is
    `short`; wrong type, parse error and field error are untyped `fmt.Errorf` values — one class `err` -/
def showErr : Err → String
  | .short => "err:short"
  | .wrongType => "err:err"
  | .parse => "err:err"
  | .field => "err:err"
  | .panic => "panic"

def parseName (s : String) : Option Bytes := if s == "." then some [] else ofHex s

def parseVal (s : String) : Option Val :=
  match s.toList with
  | [] => none
  | c :: r =>
    let p := String.ofList r
    match c with
    | 'b' => if p == "1" then some (.bool true) else if p == "0" then some (.bool false) else none
    | 'a' => (ofHex p).map .arr
    | 'c' => p.toNat?.bind fun n => if n < 256 then some (.u8 (UInt8.ofNat n)) else none
    | 'u' => p.toNat?.bind fun n => if n < 4294967296 then some (.u32 (UInt32.ofNat n)) else none
    | 'q' => p.toNat?.bind fun n => if n < 18446744073709551616 then some (.u64 (UInt64.ofNat n)) else none
    | 's' => (ofHex p).map .str
    | 'y' => (ofHex p).map .bytes
    | 'r' => (ofHex p).map .rest
    | 'n' => if p == "-" then some (.names []) else ((p.splitOn ",").mapM parseName).map .names
    | 'i' => p.toInt?.map .mpint
    | 'x' => if p.isEmpty then some (.bad false) else none
    | _ => none

def parseVals (s : String) : Option (List Val) :=
  if s == "-" then some [] else (s.splitOn ";").mapM parseVal

def showKind : Kind → String
  | .bool => "b" | .arr n => "a" ++ toString n | .u8 => "c" | .u32 => "u" | .u64 => "q"
  | .str => "s" | .bytes => "y" | .rest => "r" | .names => "n" | .mpint => "i"
  | .bad p => if p then "xp" else "xs"

/-- the driver's typing of a value list: a field of unsupported type carries the placeholder `x` -/
def typedDrv : List Val → List Kind → Bool
  | [], [] => true
  | .bad _ :: vs, .bad _ :: ks => typedDrv vs ks
  | v :: vs, k :: ks => v.hasKind k && typedDrv vs ks
  | _, _ => false

/-- give every placeholder the `panics` flag of its field -/
def fixBad : List Val → List Kind → List Val
  | .bad _ :: vs, .bad p :: ks => .bad p :: fixBad vs ks
  | v :: vs, _ :: ks => v :: fixBad vs ks
  | vs, _ => vs

/-- caller-memory contract of Unmarshal (what the code does): the input is never written (`mut=-`); `[]byte`
    fields are sub-slices of the input and a `rest` field is its tail — they alias the caller's buffer — while
    strings, arrays, name-lists and mpints are copies.  `alias=` lists the 0-based indices of the aliasing
    fields (an empty slice has no bytes to share). -/
def aliasOf (vs : List Val) : String :=
  let idx := (vs.zip (List.range vs.length)).filterMap fun vi =>
    match vi.1 with
    | .bytes b => if b.isEmpty then none else some (toString vi.2)
    | .rest b => if b.isEmpty then none else some (toString vi.2)
    | _ => none
  if idx.isEmpty then "-" else ",".intercalate idx

def showUm : Except Err (List Val) → String
  | .error .panic => "panic"
  | .error e => showErr e ++ " mut=-"
  | .ok vs => "ok " ++ showVals vs ++ " mut=- alias=" ++ aliasOf vs

def handle (line : String) : String :=
  let o := parseOp line
  match o.cmd with
  | "um" =>
    match schemaOf (o.str "t"), o.hex? "data" with
    | some s, some d => showUm (unmarshal s d)
    | _, _ => "bad-op"
  | "dec" =>
    match o.hex? "data" with
    | some d =>
      match decode d with
      | .error .panic => "panic"
      | .error e => showErr e ++ " mut=-"
      | .ok (name, vs) => s!"ok {name} {showVals vs} mut=- alias={aliasOf vs}"
    | none => "bad-op"
  | "ms" =>
    match schemaOf (o.str "t"), (o.get? "v").bind parseVals with
    | some s, some vs =>
      if !(s.fields.isEmpty) && !(typedDrv vs s.fields) then "bad-op" else
      match marshal s (fixBad vs s.fields) with
      | none => "panic"
      | some b => s!"{toHex b} mut=- rt={showUm (unmarshal s b)}"
    | _, _ => "bad-op"
  | "int" =>
    match o.int? "n" with
    | some n =>
      let m := marshalInt n
      let w := match marshalField (.mpint n) with
        | some b => toHex b
        | none => "panic"
      let back := match parseInt m with
        | some (v, r) => s!"{v}/{toHex r}"
        | none => "err"
      s!"{toHex m} len={intLength n} w={w} back={back}"
    | none => "bad-op"
  | "pint" =>
    match o.hex? "data" with
    | some d => match parseInt d with
      | some (v, r) => s!"ok {v} {toHex r} mut=-"
      | none => "err mut=-"
    | none => "bad-op"
  | "pnl" =>
    match o.hex? "data" with
    | some d => match parseNameList d with
      | some (l, r) => s!"ok {showNames l} {toHex r} mut=-"
      | none => "err mut=-"
    | none => "bad-op"
  | "schema" =>
    match schemaOf (o.str "t") with
    | some s =>
      let tags := if s.typeTags.isEmpty then "-" else ",".intercalate (s.typeTags.map fun t => toString t.toNat)
      s!"tags={tags} kinds={",".intercalate (s.fields.map showKind)}"
    | none => "bad-op"
  | _ => "bad-op"

end XC.C24
