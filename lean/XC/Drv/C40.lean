import XC.Model.C40
import XC.Drv.C41
namespace XC.C40
open XC XC.C38 XC.C41

/-- `cv=<tag hex>:<msg hex>:<sig hex>:<0|1>,…` (an entry not listed does not verify) -/
def cvTable? (o : Op) : Option (List (Bytes × Bytes × Bytes × Bool)) :=
  match o.get? "cv" with
  | none => some []
  | some "-" => some []
  | some s =>
    (s.splitOn ",").mapM (fun it =>
      match it.splitOn ":" with
      | [t, m, g, b] => do
        let t ← ofHex t
        let m ← ofHex m
        let g ← ofHex g
        if b = "1" then pure (t, m, g, true) else if b = "0" then pure (t, m, g, false) else none
      | _ => none)

def handleVer (o : Op) : String :=
  match o.hex? "key", ptsOracle? o, cvTable? o, o.hex? "data", o.hex? "fmt", o.hex? "blob", o.hex? "rest", o.nat? "notouch" with
  | some kb, some po, some tbl, some data, some fmt, some blob, some rest, some nt =>
    match parsePublicKey po kb with
    | none => "perr"
    | some k =>
      let cv : CV := fun t m g =>
        match tbl.find? (fun e => e.1 = t ∧ e.2.1 = m ∧ e.2.2.1 = g) with
        | some e => e.2.2.2
        | none => false
      if verifyAny cv k (nt = 1) data ⟨fmt, blob, rest⟩ then "accept" else "reject"
  | _, _, _, _, _, _, _, _ => "bad-op"

/-- `nta key=<blob> perms=nil|<k:v list>` -/
def handleNta (o : Op) : String :=
  match o.hex? "key", ptsOracle? o with
  | some kb, some po =>
    match parsePublicKey po kb with
    | none => "perr"
    | some k =>
      let perms : Option (Option (List (Bytes × Bytes))) :=
        match o.get? "perms" with
        | some "nil" => some none
        | some _ => (kvList? o "perms").map some
        | none => none
      match perms with
      | none => "bad-op"
      | some p => if noTouchAllowed k p then "true" else "false"
  | _, _ => "bad-op"

/-- `msign ktype=<hex> own=<none|list> algs=<list> req=<hex>` -/
def handleMsign (o : Op) : String :=
  match o.hex? "ktype", hexList? o "algs", o.hex? "req" with
  | some kt, some algs, some req =>
    let own : Option (Option (List Bytes)) :=
      match o.get? "own" with
      | some "none" => some none
      | some _ => (hexList? o "own").map some
      | none => none
    match own with
    | none => "bad-op"
    | some own =>
      -- a restricted inner signer first (if any), then the outer restriction
      let innerOk := match own with | some l => newSignerWithAlgorithms kt none l | none => true
      if !innerOk then "bad-inner" else
      if !newSignerWithAlgorithms kt own algs then "newerr" else
      match multiSign kt algs req with
      | none => "refuse"
      | some f =>
        -- the inner restricted signer must accept it too (it is asked with the same algorithm)
        match own with
        | some l => (match multiSign kt l req with | none => "refuse" | some f' => s!"ok fmt={txt f'} v=1")
        | none => s!"ok fmt={txt f} v=1"
  | _, _, _ => "bad-op"

def handle (line : String) : String :=
  let o := parseOp line
  match o.cmd with
  | "ver" => handleVer o
  | "nta" => handleNta o
  | "msign" => handleMsign o
  | _ => "bad-op"

end XC.C40
