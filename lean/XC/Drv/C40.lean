import XC.Model.C40
import XC.Drv.C41
namespace XC.C40
open XC XC.C38 XC.C41

/-- `cv=<tag hex>:<msg hex>:<sig hex>:<0|1>,…` (an entry not listed does not verify) -/
def cvTable? (o : Op) : Option (List (Bytes × Bytes × Bytes × Bool)) :=
  match o.get? "cv" with
  | none => some []
  | some "-" => some []
  | some s =>
    (s.splitOn ",").mapM (fun it =>
      match it.splitOn ":" with
      | [t, m, g, b] => do
        let t ← ofHex t
        let m ← ofHex m
        let g ← ofHex g
        if b = "1" then pure (t, m, g, true) else if b = "0" then pure (t, m, g, false) else none
      | _ => none)

def handleVer (o : Op) : String :=
  match o.hex? "key", ptsOracle? o, cvTable? o, o.hex? "data", o.hex? "fmt", o.hex? "blob", o.hex? "rest", o.nat? "notouch" with
  | some kb, some po, some tbl, some data, some fmt, some blob, some rest, some nt =>
    match parsePublicKey po kb with
    | none => "perr"
    | some k =>
      let cv : CV := fun t m g =>
        match tbl.find? (fun e => e.1 = t ∧ e.2.1 = m ∧ e.2.2.1 = g) with
        | some e => e.2.2.2
        | none => false
      if verifyAny cv k (nt = 1) data ⟨fmt, blob, rest⟩ then "accept" else "reject"
  | _, _, _, _, _, _, _, _ => "bad-op"

/-- `nta key=<blob> perms=nil|<k:v list>` -/
def handleNta (o : Op) : String :=
  match o.hex? "key", ptsOracle? o with
  | some kb, some po =>
    match parsePublicKey po kb with
    | none => "perr"
    | some k =>
      let perms : Option (Option (List (Bytes × Bytes))) :=
        match o.get? "perms" with
        | some "nil" => some none
        | some _ => (kvList? o "perms").map some
        | none => none
      match perms with
      | none => "bad-op"
      | some p => if noTouchAllowed k p then "true" else "false"
  | _, _ => "bad-op"

/-- `msign ktype=<hex> own=<none|list> algs=<list> req=<hex>` -/
def handleMsign (o : Op) : String :=
  match o.hex? "ktype", hexList? o "algs", o.hex? "req" with
  | some kt, some algs, some req =>
    let own : Option (Option (List Bytes)) :=
      match o.get? "own" with
      | some "none" => some none
      | some _ => (hexList? o "own").map some
      | none => none
    match own with
    | none => "bad-op"
    | some own =>
      -- a restricted inner signer first (if any), then the outer restriction
      let innerOk := match own with | some l => newSignerWithAlgorithms kt none l | none => true
      if !innerOk then "bad-inner" else
      if !newSignerWithAlgorithms kt own algs then "newerr" else
      match multiSign kt algs req with
      | none => "refuse"
      | some f =>
        -- the inner restricted signer must accept it too (it is asked with the same algorithm)
        match own with
        | some l => (match multiSign kt l req with | none => "refuse" | some f' => s!"ok fmt={txt f'} v=1")
        | none => s!"ok fmt={txt f} v=1"
  | _, _, _ => "bad-op"


def goKey? (o : Op) : Option GoKey :=
  let mv (k : String) : Option Int := (o.hex? k).map mpintVal
  match o.str "gk" with
  | "rsa" => do let e ← mv "e"; let n ← mv "n"; pure (.rsa e n)
  | "ecdsa" => do let b ← o.nat? "bits"; let pt ← o.hex? "pt"; pure (.ecdsa b pt)
  | "dsa" => do let p ← mv "p"; let q ← mv "q"; let g ← mv "g"; let y ← mv "y"; pure (.dsa p q g y)
  | "ed25519" => (o.hex? "k").map .ed25519
  | "other" => some .other
  | _ => none

def listS (l : List Bytes) : String := if l.isEmpty then "-" else ",".intercalate (l.map txt)

/-- `newpub gk=… ` / `newsigner gk=…` -/
def handleNew (o : Op) (signer : Bool) : String :=
  match goKey? o with
  | none => "bad-op"
  | some gk =>
    -- an opaque crypto.Signer (HSM-style wrapper) goes through NewSignerFromSigner → NewPublicKey for every key type
    match (if signer ∧ o.nat? "opaque" ≠ some 1 then newSignerFromKey gk else newPublicKey gk) with
    | none => "err"
    | some k =>
      if signer then
        let s := SignerM.wrapped k.type
        s!"ok type={txt k.type} blob={toHex k.marshal} algs={listS s.algorithms} sign={match s.sign with | some f => txt f | none => "err"} v=1"
      else s!"ok type={txt k.type} blob={toHex k.marshal} cpk=1"

/-- `cpk key=<blob>`: CryptoPublicKey() of a parsed key -/
def handleCpk (o : Op) : String :=
  match o.hex? "key", ptsOracle? o with
  | some kb, some po =>
    match parsePublicKey po kb with
    | none => "perr"
    | some (.cert _) => "cpk=none"
    | some (.plain k) =>
      match k with
      | .rsa .. => "cpk=rsa same=1"
      | .dsa .. => "cpk=dsa same=1"
      | .ecdsa bits _ => s!"cpk=ecdsa{bits} same=1"
      | .ed25519 _ => "cpk=ed25519 same=1"
      | .skecdsa .. => "cpk=ecdsa256 same=0"
      | .sked25519 .. => "cpk=ed25519 same=0"
  | _, _ => "bad-op"

def optList? (o : Op) (k : String) : Option (Option (List Bytes)) :=
  match o.get? k with
  | some "none" => some none
  | some _ => (hexList? o k).map some
  | none => none

/-- `csign ktype= r1=<none|list> present=full|algonly|signonly cert=none|match|mismatch r2=<none|list> req=` -/
def handleCsign (o : Op) : String :=
  match o.hex? "ktype", optList? o "r1", optList? o "r2", o.hex? "req" with
  | some kt, some r1, some r2, some req =>
    let s0 := SignerM.wrapped kt
    let s1? : Option SignerM := match r1 with
      | none => some s0
      | some l => if newSignerWithAlgorithms kt none l then some (.multi s0 l) else none
    match s1? with
    | none => "bad-r1"
    | some s1 =>
      let s2? : Option SignerM := match o.str "present" with
        | "full" => some s1
        | "algonly" => some (.hidden s1 true)
        | "signonly" => some (.hidden s1 false)
        | _ => none
      match s2? with
      | none => "bad-op"
      | some s2 =>
        let s3? : Option (Option SignerM) := match o.str "cert" with
          | "none" => some (some s2)
          | "mismatch" => some none
          | "match" => (certKeyAlgoNames.find? (fun p => p.2 = kt)).map (fun p => some (SignerM.cert p.1 s2))
          | _ => none
        match s3? with
        | none => "bad-op"
        | some none => "certerr"
        | some (some s3) =>
          -- is the value a *multiAlgorithmSigner (NewSignerWithAlgorithms then inherits its list)?
          let isMultiStruct : Bool := match s3 with
            | .multi _ _ => true
            | .cert _ inner => inner.caps.2
            | _ => false
          let s4? : Option (Option SignerM) := match r2 with
            | none => some (some s3)
            | some l =>
              if !s3.caps.1 then none
              else if newSignerWithAlgorithms s3.pubType (if isMultiStruct then some s3.algorithms else none) l
                then some (some (.multi s3 l)) else some none
          match s4? with
          | none => "na"
          | some none => "newerr"
          | some (some s4) =>
            let caps := s4.caps
            let algs := if caps.2 then listS s4.algorithms else "-"
            let sg := match s4.sign with | some f => txt f | none => "err"
            let w := if caps.1 then (match s4.signWith req with | some f => txt f | none => "refuse") else "na"
            s!"ok type={txt s4.pubType} alg={if caps.1 then 1 else 0} multi={if caps.2 then 1 else 0} algs={algs} sign={sg} with={w} v=1"
  | _, _, _, _ => "bad-op"

def handle (line : String) : String :=
  let o := parseOp line
  match o.cmd with
  | "ver" => handleVer o
  | "nta" => handleNta o
  | "msign" => handleMsign o
  | "newpub" => handleNew o false
  | "newsigner" => handleNew o true
  | "cpk" => handleCpk o
  | "csign" => handleCsign o
  | _ => "bad-op"

end XC.C40
