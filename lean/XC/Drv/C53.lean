import XC.Model.C53
namespace XC.C53

def sl? (o : Op) (k : String) : Option Sl :=
  match o.natList? k with
  | some [a, b] => some ⟨a, b⟩
  | _ => none

def dst? (o : Op) (k : String) : Option Dst :=
  match o.natList? k with
  | some [a, b, c] => some ⟨a, b, c⟩
  | _ => none

def showRes : Res → String
  | .panic => "panic mut=-"
  | .ok ret mem => s!"ok ret={toHex ret} mem={toHex mem} mut=-"

def inArena (n : Nat) (s : Sl) : Bool := s.off + s.len ≤ n

/-- `ov f=<fn> arena=<hex> src=off,len dst=off,len,cap ad=off,len out=<hex: result on separate buffers>` -/
def b01 (b : Bool) : String := if b then "1" else "0"

def handle1 (line : String) : String :=
  let o := parseOp line
  -- `alias x=off,len y=off,len` → the two predicates of internal/alias on slices of one array
  if o.cmd == "alias" then
    match sl? o "x", sl? o "y" with
    | some x, some y => s!"any={b01 (anyOverlap x y)} inexact={b01 (inexactOverlap x y)}"
    | _, _ => "bad-op"
  else
  if o.cmd != "ov" then "bad-op" else
  match o.get? "f", o.hex? "arena", sl? o "src", dst? o "dst", sl? o "ad", o.hex? "out" with
  | some f, some mem, some src, some dst, some ad, some out =>
    let n := mem.length
    if !(inArena n src && inArena n ad && dst.len ≤ dst.cap && dst.off + dst.cap ≤ n) then "bad-op" else
    let srcB := rd mem src.off src.len
    if f == "chacha" then
      if out.length ≠ src.len then "bad-op" else
      showRes (chachaXor (xorBytes out srcB) mem ⟨dst.off, dst.len⟩ src)
    else if f == "salsa" then
      if out.length ≠ src.len then "bad-op" else
      showRes (salsaXor (xorBytes out srcB) mem ⟨dst.off, dst.len⟩ src)
    else if f == "xtsenc" || f == "xtsdec" then
      if src.len % 16 = 0 && out.length ≠ src.len then "bad-op" else
      showRes (xtsCrypt srcB out mem ⟨dst.off, dst.len⟩ src)
    else if f == "seal" || f == "sealx" || f == "sealgen" then
      if out.length ≠ src.len + 16 then "bad-op" else
      showRes (aeadSeal (out.take src.len) (out.drop src.len) mem dst src ad)
    else if f == "open" || f == "openx" || f == "opengen" then
      if src.len < 16 || out.length ≠ src.len - 16 then "bad-op" else
      showRes (aeadOpen out mem dst src ad)
    else if f == "sbseal" || f == "sbopen" || f == "boxseal" || f == "boxopen" || f == "sign" || f == "signopen" then
      showRes (appendNoOverlap out mem dst src)
    else "bad-op"
  | _, _, _, _, _, _ => "bad-op"

/-- one op, or a session `ovs <op> ## <op> ## …`: the harness runs the ops of a session on the same arena,
    key and nonce arrays (contents replaced in place); `mut=` reports writes to the key / nonce arrays or
    their slack and is `-` for the model -/
def handle (line : String) : String :=
  if line.startsWith "ovs " then
    " ## ".intercalate (((line.drop 4).toString.splitOn " ## ").map handle1)
  else handle1 line

end XC.C53
