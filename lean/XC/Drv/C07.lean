import XC.Model.C07
namespace XC.C07
open XC.C05

inductive HOp where
  | w (n : Nat)
  | s
  | r
  | rd (n : Nat)
  | z

def parseHOp (s : String) : Option HOp :=
  if s == "s" then some .s
  else if s == "r" then some .r
  else if s == "z" then some .z
  else if s.startsWith "rd" then (s.drop 2).toString.toNat?.map .rd
  else if s.startsWith "w" then (s.drop 1).toString.toNat?.map .w
  else none

def parseHOps (s : String) : Option (List HOp) :=
  if s == "-" then some [] else (s.splitOn ",").mapM parseHOp

/-- the four methods of a hash under test, with explicit panics -/
structure Mach (σ : Type) where
  write : σ → Bytes → Except Panic σ
  sum : σ → Except Panic Bytes
  reset : σ → σ
  read : Option (σ → Nat → Except Panic (σ × Bytes))
  sizes : σ → Nat × Nat     -- Size(), BlockSize()

def showPanic : Panic → String
  | .runtime => "panic:runtime"
  | .api => "panic:api"

/-- run a history; outputs of Sum / Read, a panic ends the run.  `none` = malformed op list. -/
def runOps (M : Mach σ) : σ → List HOp → Bytes → List String → Option (σ × List String)
  | st, [], _, acc => some (st, acc.reverse)
  | st, .w n :: rest, data, acc =>
    if n > data.length then none else
    match M.write st (data.take n) with
    | .ok st' => runOps M st' rest (data.drop n) acc
    | .error .api => runOps M st rest (data.drop n) ("panic:api" :: acc)   -- raised before anything changes: go on
    | .error e => some (st, (showPanic e :: acc).reverse)
  | st, .s :: rest, data, acc =>
    match M.sum st with
    | .ok out => runOps M st rest data (toHex out :: acc)
    | .error .api => runOps M st rest data ("panic:api" :: acc)
    | .error e => some (st, (showPanic e :: acc).reverse)
  | st, .z :: rest, data, acc =>
    runOps M st rest data (s!"z{(M.sizes st).1}.{(M.sizes st).2}" :: acc)
  | st, .r :: rest, data, acc => runOps M (M.reset st) rest data acc
  | st, .rd n :: rest, data, acc =>
    match M.read with
    | none => none
    | some f =>
      match f st n with
      | .ok (st', out) => runOps M st' rest data (toHex out :: acc)
      | .error e => some (st, (showPanic e :: acc).reverse)

def showOuts (l : List String) : String := if l.isEmpty then "-" else ",".intercalate l

def b2Mach (A : Alg) : Mach (Digest A) :=
  { write := writeE, sum := sumE, reset := Digest.reset, read := none, sizes := fun d => (d.sizeOf, d.blockSizeOf) }

def kMach : Mach KState :=
  { write := KState.write, sum := KState.sum, reset := KState.reset, read := some KState.read,
    sizes := fun d => (d.outputLen, d.rate) }

/-- bytes consumed by the `w` ops of a list -/
def consumed : List HOp → Nat
  | [] => 0
  | .w n :: r => n + consumed r
  | _ :: r => consumed r

/-- round trip: pre-history on h1, MarshalBinary, UnmarshalBinary into a fresh h2, post-history on both -/
def rtOn (M : Mach σ) (fresh : σ) (first : σ) (marshal : σ → Option Bytes)
    (unmarshal : σ → Bytes → Bool × σ) (o : Op) : String :=
  match parseHOps (o.str "pre"), parseHOps (o.str "post"), o.hex? "data" with
  | some pre, some post, some data =>
    match runOps M first pre data [] with
    | none => "bad-op"
    | some (h1, outs0) =>
      let data := data.drop (consumed pre)
      match marshal h1 with
      | none => s!"pre:{showOuts outs0} merr"
      | some m =>
        let (ok, h2) := unmarshal fresh m
        if !ok then s!"pre:{showOuts outs0} m:{toHex m} uerr" else
        match runOps M h1 post data [], runOps M h2 post data [] with
        | some (_, o1), some (_, o2) => s!"pre:{showOuts outs0} m:{toHex m} a:{showOuts o1} b:{showOuts o2}"
        | _, _ => "bad-op"
  | _, _, _ => "bad-op"

def umOn (M : Mach σ) (fresh : σ) (unmarshal : σ → Bytes → Bool × σ) (o : Op) : String :=
  match o.hex? "state", parseHOps (o.str "post"), o.hex? "data" with
  | some st, some post, some data =>
    let (ok, h) := unmarshal fresh st
    match runOps M h post data [] with
    | none => "bad-op"
    | some (_, outs) => s!"{if ok then "ok" else "err"} {showOuts outs}"
  | _, _, _ => "bad-op"

def b2Unmarshal {A : Alg} (d : Digest A) (b : Bytes) : Bool × Digest A :=
  match d.unmarshal b with
  | .ok d' => (true, d')
  | .error _ => (false, d)

def kUnmarshal (d : KState) (b : Bytes) : Bool × KState :=
  match d.unmarshal b with
  | (none, d') => (true, d')
  | (some _, d') => (false, d')

/-- `rt alg=b|s|k256|k512 size=N key=HEX pre=OPS post=OPS data=HEX`
    `um alg=… size=N state=HEX post=OPS data=HEX` -/
def handle0 (line : String) : String :=
  let o := parseOp line
  if o.cmd != "rt" ∧ o.cmd != "um" then "bad-op" else
  match o.get? "alg" with
  | some "b" =>
    (match o.nat? "size", newDigest B (o.nat? "size" |>.getD 0) [] with
     | some size, some fresh =>
       if o.cmd == "um" then umOn (b2Mach B) fresh b2Unmarshal o else
       (match o.hex? "key" with
        | some key =>
          (match newDigest B size key with
           | some first => rtOn (b2Mach B) fresh first Digest.marshal b2Unmarshal o
           | none => "bad-op")
        | none => "bad-op")
     | _, _ => "bad-op")
  | some "s" =>
    (match newDigest S 32 [] with
     | some fresh =>
       if o.cmd == "um" then umOn (b2Mach S) fresh b2Unmarshal o else
       (match o.hex? "key" with
        | some key =>
          (match newDigest S 32 key with
           | some first => rtOn (b2Mach S) fresh first Digest.marshal b2Unmarshal o
           | none => "bad-op")
        | none => "bad-op")
     | none => "bad-op")
  | some "k256" =>
    if o.cmd == "um" then umOn kMach newKeccak256 kUnmarshal o
    else rtOn kMach newKeccak256 newKeccak256 (fun d => some d.marshal) kUnmarshal o
  | some "k512" =>
    if o.cmd == "um" then umOn kMach newKeccak512 kUnmarshal o
    else rtOn kMach newKeccak512 newKeccak512 (fun d => some d.marshal) kUnmarshal o
  | _ => "bad-op"

/-- the harness appends ` mut=…` (caller-memory report of hx.Arena: inputs unmodified, nothing written outside
    the permitted regions, nothing retained); the model is a pure function of contents, so it answers `mut=-` -/
def handle (line : String) : String :=
  let r := handle0 line
  if r == "bad-op" then r else r ++ " mut=-"

end XC.C07
