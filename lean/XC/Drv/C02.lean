import XC.Model.C02
namespace XC.C02
open XC.C01 (Res aeadOpen xaeadOpen)

def fill : UInt8 := 0xaa

def showRes (spare dstLen : Nat) (r : Res) : String :=
  match r with
  | .ok ret => s!"ok {toHex ret} z={toHex (spareAfter spare fill dstLen r)}"
  | .err _ => s!"err z={toHex (spareAfter spare fill dstLen r)}"
  | .panic => "panic"

def showNacl (spare dstLen : Nat) (r : C10.OpenRes) : String :=
  match r with
  | .ok ret => s!"ok {toHex ret} z={toHex (spareAfterNacl spare fill dstLen r)}"
  | .fail => s!"fail z={toHex (spareAfterNacl spare fill dstLen r)}"
  | .panic => "panic"

/-- in-place Open (`dst` is the prefix of one buffer, the input follows it directly): the observable `z` is the
    input region afterwards — on failure the `n = |ct|-16` bytes handed out are zero and the tag bytes untouched
    (nothing is touched for inputs shorter than a tag); on success the plaintext followed by the tag bytes -/
def showResInPlace (dstLen : Nat) (ct : Bytes) (r : Res) : String :=
  match r with
  | .ok ret => s!"ok {toHex ret} z={toHex (ret.drop dstLen ++ ct.drop (ret.length - dstLen))}"
  | .err out => s!"err z={toHex (out ++ ct.drop out.length)}"
  | .panic => "panic"

def isOk : Res → Bool
  | .ok _ => true
  | _ => false

def isOkN : C10.OpenRes → Bool
  | .ok _ => true
  | _ => false

/-- ids of the single-bit flips of `field` (named `tag`) for which `f flipped` accepts -/
def accepted (tag : String) (field : Bytes) (f : Bytes → Bool) : List String :=
  (List.range (8 * field.length)).filterMap (fun i => if f (flipBit field i) then some s!"{tag}{i}" else none)

def joinIds (l : List String) : String := if l.isEmpty then "-" else ",".intercalate l

def dhOf (o : Op) : Option (Option Bytes) :=
  match o.get? "oracle.dh" with
  | some "err" => some none
  | some h => (ofHex h).map some
  | none => none

def handle1 (line : String) : String :=
  let o := parseOp line
  match o.hex? "dst", o.nat? "cap" with
  | some dst, some spare =>
    if o.cmd == "open" || o.cmd == "flips" || o.cmd == "adflips" then
      match o.nat? "x", o.hex? "key", o.hex? "nonce", o.hex? "ad", o.hex? "ct" with
      | some x, some key, some nonce, some ad, some ct =>
        if x > 1 || key.length != 32 then "bad-op" else
        let op := fun (key nonce ct ad : Bytes) => if x == 1 then xaeadOpen key nonce dst ct ad else aeadOpen key nonce dst ct ad
        if o.cmd == "adflips" then   -- every single-bit flip of the additional data only (long ADs)
          let acc := accepted "a" ad (fun a => isOk (op key nonce ct a))
          s!"n={8 * ad.length} acc={joinIds acc} bad=-"
        else if o.cmd == "open" then
          (if o.get? "place" == some "inplace" then showResInPlace dst.length ct (op key nonce ct ad)
           else showRes spare dst.length (op key nonce ct ad))
        else
          let acc := accepted "c" ct (fun c => isOk (op key nonce c ad)) ++
                     accepted "n" nonce (fun n => isOk (op key n ct ad)) ++
                     accepted "a" ad (fun a => isOk (op key nonce ct a)) ++
                     accepted "k" key (fun k => isOk (op k nonce ct ad))
          s!"n={8 * (ct.length + nonce.length + ad.length + key.length)} acc={joinIds acc} bad=-"
      | _, _, _, _, _ => "bad-op"
    else if o.cmd == "sbopen" || o.cmd == "sbflips" then
      match o.hex? "key", o.hex? "nonce", o.hex? "box" with
      | some key, some nonce, some box =>
        if key.length != 32 || nonce.length != 24 then "bad-op" else
        if o.cmd == "sbopen" then showNacl spare dst.length (C10.openGo dst box nonce key)
        else
          let acc := accepted "c" box (fun c => isOkN (C10.openGo dst c nonce key)) ++
                     accepted "n" nonce (fun n => isOkN (C10.openGo dst box n key)) ++
                     accepted "k" key (fun k => isOkN (C10.openGo dst box nonce k))
          s!"n={8 * (box.length + nonce.length + key.length)} acc={joinIds acc} bad=-"
      | _, _, _ => "bad-op"
    else if o.cmd == "bxopen" then   -- box.Open / OpenAfterPrecomputation; X25519 result is an oracle field
      match o.hex? "nonce", o.hex? "box", dhOf o with
      | some nonce, some box, some dh =>
        if nonce.length != 24 then "bad-op" else showNacl spare dst.length (C10.boxOpen dst box nonce dh)
      | _, _, _ => "bad-op"
    else if o.cmd == "anopen" then   -- box.OpenAnonymous; nonce = BLAKE2b-24(epk ‖ pk) and X25519 are oracle fields
      match o.hex? "oracle.nonce", o.hex? "box", dhOf o with
      | some nonce, some box, some dh =>
        if nonce.length != 24 then "bad-op" else showNacl spare dst.length (C10.openAnonymous dst box nonce dh)
      | _, _, _ => "bad-op"
    else "bad-op"
  | _, _ => "bad-op"

/-- `sess ops=<op1>|<op2>|…` (sub-op fields separated by `;`): a session of calls that share arrays and buffers in
    the harness. The model is a pure function of contents: each sub-op is answered on its own. -/
def handle (line : String) : String :=
  let o := parseOp line
  if o.cmd == "sess" then
    match o.get? "ops" with
    | some v => " ## ".intercalate ((v.splitOn "|").map (fun s => handle1 (s.replace ";" " ")))
    | none => "bad-op"
  else handle1 line

end XC.C02
