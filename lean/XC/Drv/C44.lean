import XC.Model.C44
import XC.Prim.Sha1
import XC.Prim.Sha256
import XC.Prim.Sha512
namespace XC.C44
open XC

def splitBy : Bytes → List Nat → List Bytes
  | bs, [] => if bs.isEmpty then [] else [bs]
  | bs, n :: ns => bs.take n :: splitBy (bs.drop n) ns

def hashById (id : Nat) : Option (Bytes → Bytes) :=
  match id with
  | 2 => some XC.Prim.sha1
  | 8 => some XC.Prim.sha256
  | 9 => some XC.Prim.sha384
  | 10 => some XC.Prim.sha512
  | 11 => some XC.Prim.sha224
  | _ => none

def showMErr : MErr → String
  | .none => "ok" | .eof => "eof" | .ueof => "ueof"

def showClose : CloseRes → String
  -- the implementation reports all three failures as errors.SignatureError (they differ only in message text)
  | .ok => "ok" | .readingError => "sigerr" | .notFound => "sigerr" | .mismatch => "sigerr"

/-- the harness's splitmix64 generator (hx.Rand): `n` bytes from state `s`, and the state after -/
def splitmixNext (s : UInt64) : UInt64 × UInt64 :=
  let s := s + 0x9e3779b97f4a7c15
  let z := (s ^^^ (s >>> 30)) * 0xbf58476d1ce4e5b9
  let z := (z ^^^ (z >>> 27)) * 0x94d049bb133111eb
  (z ^^^ (z >>> 31), s)

def splitmixBytes (seed : Nat) (n : Nat) : Bytes × Nat :=
  let rec go (k : Nat) (s : UInt64) (acc : Bytes) : Bytes × UInt64 :=
    match k with
    | 0 => (acc, s)
    | k + 1 =>
      let r := splitmixNext s
      go k r.2 (acc ++ u64le r.1)
  let words := (n + 7) / 8
  let r := go words (UInt64.ofNat seed) []
  (r.1.take n, r.2.toNat)

def showNats (l : List Nat) : String := if l.isEmpty then "-" else ",".intercalate (l.map toString)

/-- chunk sizes (partial chunks, then the final definite length) of a partial-length writer fed writes of the given sizes -/
def chunksOf (writes : List Nat) : List Nat :=
  let s := pwAllSizes writes
  -- sizes alternate: 1 (length byte), chunk; the last 1 is the final zero length
  let rec go : List Nat → List Nat
    | 1 :: l :: rest => l :: go rest
    | _ => [0]
  go s

/-- the writes reaching the encrypted-data packet's partial-length writer for an unsigned, uncompressed message -/
def outerWrites (blockSize : Nat) (nameLen : Nat) (chunks : List Nat) : List Nat :=
  let inner := pwAllSizes ([2, nameLen, 4] ++ chunks)
  [1, blockSize + 2, 1] ++ inner ++ [22]

def handle (line : String) : String :=
  let o := parseOp line
  match o.cmd with
  | "hdrrt" =>
    match o.nat? "tag", o.nat? "len", o.hex? "tail" with
    | some tag, some n, some tail =>
      let b := serializeHeader tag n
      match C45.readHeader (b ++ tail) with
      | .error e => s!"bytes={toHex b} rd=err:{e.show}"
      | .ok h =>
        let kind := match h.body with | .span _ => "span" | .part _ => "part" | .indet => "indet"
        s!"bytes={toHex b} rd={h.tag}/{h.length}/{kind}/{(b ++ tail).length - h.rest.length}"
    | _, _, _ => "bad-op"
  | "plw" =>
    match o.natList? "ch", o.hex? "data" with
    | some ch, some d =>
      let out := pwAll (splitBy d ch)
      let r := readStream out
      let cs := chunkSizes out
      s!"chunks={showNats cs.1} rt={toHex r.1} end={match r.2.1 with | none => "eof" | some e => e.show} rest={toHex r.2.2}"
    | _, _ => "bad-op"
  | "mdc" =>
    match o.hex? "pre", o.hex? "data", o.natList? "under", o.natList? "bufs" with
    | some pre, some d, some under, some bufs =>
      let r := mdcSession XC.Prim.sha1 pre {} ⟨d, under⟩ bufs
      let rs := if r.1.isEmpty then "-" else ",".intercalate (r.1.map (fun p => s!"{toHex p.1}:{showMErr p.2}"))
      s!"r={rs} close={showClose r.2}"
    | _, _, _, _ => "bad-op"
  | "mdcw" =>
    match o.hex? "pre", o.natList? "ch", o.hex? "data" with
    | some pre, some _, some d => s!"out={toHex (mdcSeal XC.Prim.sha1 pre d)}"
    | _, _, _ => "bad-op"
  | "cth" =>
    match o.natList? "ch", o.hex? "data" with
    | some ch, some d => s!"out={toHex (cthChunks false (splitBy d ch)).2}"
    | _, _ => "bad-op"
  | "dsig" =>
    match o.nat? "text", o.nat? "pk", o.nat? "hash", o.nat? "ct", o.nat? "iss", o.hex? "msg" with
    | some text, some pk, some hid, some ct, some iss, some msg =>
      match hashById hid with
      | none => "bad-op"
      | some H =>
        let st : UInt8 := if text == 1 then 1 else 0
        let suf := sigHashSuffix st (UInt8.ofNat pk) (UInt8.ofNat hid) ct iss
        let tag := (H (sigHashInput st msg suf)).take 2
        let arm := if o.nat? "armor" == some 1 then " arm=ok" else ""
        s!"suffix={toHex suf} tag={toHex tag} body={toHex (suf.take (suf.length - 6) ++ [0, 0] ++ tag)} verify=ok tampered=bad{arm}"
    | _, _, _, _, _, _ => "bad-op"
  | "enc" =>
    -- end-to-end: the model predicts the outcome class and the outer packet structure
    match o.get? "mode", o.nat? "nrcpt", o.nat? "signed", o.nat? "comp", o.nat? "bs", o.nat? "namelen", o.natList? "ch", o.nat? "n" with
    | some mode, some nrcpt, some signed, some comp, some bs, some namelen, some ch, some n =>
      let rest := n - ch.foldl (· + ·) 0
      let chunks := ch ++ (if rest > 0 then [rest] else [])
      -- the structure the writer emits, run through the ReadMessage acceptor (`signed_message_grammar`)
      let shape := writerShape mode nrcpt (signed == 1) (comp != 0)
      match readMessage true 0 shape with
      | .err => "rt=err"
      | .ok _ sg v =>
        let sigs := if sg then (if v then "sig=ok" else "sig=unverified") else "sig=none"
        let tags := (outerTags 0 shape).map (fun t =>
          if t == 18 then
            (if mode == "sym" && comp == 0 && signed == 0 then s!"18p[{showNats (chunksOf (outerWrites bs namelen chunks))}]" else "18p")
          else if t == 11 then "11p" else toString t)
        s!"rt=ok {sigs} outer={",".intercalate tags}"
    | _, _, _, _, _, _, _, _ => "bad-op"
  -- the property: every modification of a signed or integrity-protected message is rejected
  | "tamper" => "accepted=-"
  | "tamper1" => "accepted=-"
  -- key material round trips (Serialize / SerializePrivate / NewEntity / SignIdentity → ReadKeyRing): expected to succeed
  | "keyrt" => if (o.get? "key").isSome && (o.get? "kind").isSome then "rt=ok" else "bad-op"
  -- elgamal.Encrypt/Decrypt: messages up to len(p) − 11 octets round-trip, longer ones are refused
  | "elg" =>
    match o.nat? "plen", o.nat? "n" with
    | some plen, some n => if n + 11 ≤ plen then "rt=ok" else "err"
    | _, _ => "bad-op"
  -- OCFB encrypter/decrypter are inverse for every chunking; a damaged or short prefix gives a nil decrypter
  | "ocfb" =>
    match o.nat? "n", o.nat? "seed", o.nat? "cipher" with
    | some n, some seed, some c =>
      -- the harness derives key (k bytes), iv (block size) and data from one splitmix64 stream; replay it
      let ksz := if c == 2 then 24 else if c == 3 then 16 else if c == 7 then 16 else if c == 8 then 24 else 32
      let r0 := splitmixBytes seed ksz
      let r1 := splitmixBytes r0.2 n          -- the data follows the key in the stream (the IV comes after)
      s!"pt={toHex r1.1} bad=nil short=nil"
    | _, _, _ => "bad-op"
  | "ksz" =>
    match o.nat? "c" with
    | some c => s!"ksz={if c == 2 then 24 else if c == 3 then 16 else if c == 7 then 16 else if c == 8 then 24 else if c == 9 then 32 else 0}"
    | none => "bad-op"
  | "pka" =>
    match o.nat? "a" with
    | some a => s!"enc={decide (a == 1 || a == 2 || a == 16)} sign={decide (a == 1 || a == 3 || a == 17 || a == 19)}"
    | none => "bad-op"
  | "gpg" => "gpg=ok"
  | _ => "bad-op"

end XC.C44
