import XC.Model.C20
namespace XC.C20
open XC.Prim

def showErr : Err → String
  | .eof => "err:eof"
  | .unsupported => "err:unsupported"

def algOfName (n : String) : Option HashAlg := (idOfName n).bind hashOfId

/-- ops
    `dc c=<0..255>`                                   → decoded count
    `ec i=<int>`                                      → encoded count byte / `panic`
    `cc cfg=nil|<int>`                                → (*Config).encodedCount
    `ps spec=<hex> pw=<hex> len=<n>`                  → Parse + derive: `ok rest=<unread bytes> key=<hex>` / err:…
    `fn f=simple|salted|iterated hash= pw= salt= count= len=` → direct call of Simple/Salted/Iterated
    `kat spec= pw= len= want=`                        → `<key>|<key>` (want = key published by GnuPG)
    `sz hash= rnd=<hex> cfg=nil|<int> pw= len=`       → Serialize: `ok hdr=<hex> key=<hex>` / err:… -/
def handle (line : String) : String :=
  let o := parseOp line
  match o.cmd with
  | "ids" =>   -- HashIdToHash / HashIdToString
    match o.nat? "id" with
    | some id =>
      if id ≥ 256 then "bad-op" else
      let h := match hashIdToHash (UInt8.ofNat id) with | some v => toString v | none => "-"
      let n := match hashIdToString (UInt8.ofNat id) with | some v => v | none => "-"
      s!"hash={h} name={n}"
    | none => "bad-op"
  | "hid" =>   -- HashToHashId
    match o.nat? "h" with
    | some h => match hashToHashId h with | some id => s!"id={id.toNat}" | none => "id=-"
    | none => "bad-op"
  | "dc" =>
    match o.nat? "c" with
    | some c => if c < 256 then toString (decodeCount (UInt8.ofNat c)) else "bad-op"
    | none => "bad-op"
  | "ec" =>
    match o.int? "i" with
    | some i => match encodeCount i with | some c => toString c.toNat | none => "panic"
    | none => "bad-op"
  | "cc" =>
    let cfg? : Option (Option Int) := if o.str "cfg" == "nil" then some none else (o.int? "cfg").map some
    match cfg? with
    | some cfg => match configCount cfg with | some c => toString c.toNat | none => "panic"
    | none => "bad-op"
  | "ps" =>
    match o.hex? "spec", o.hex? "pw", o.nat? "len" with
    | some spec, some pw, some n =>
      match parse spec with
      | .error e => showErr e
      | .ok (s, rest) =>
        match s.deriveFast pw n with
        | some key => s!"ok rest={rest.length} key={toHex key}"
        | none => "hang"
    | _, _, _ => "bad-op"
  | "kat" =>   -- independent vector (GnuPG): the harness answers `<want>|<impl key>`
    match o.hex? "spec", o.hex? "pw", o.nat? "len" with
    | some spec, some pw, some n =>
      match parse spec with
      | .error e => showErr e
      | .ok (s, _) =>
        match s.deriveFast pw n with
        | some key => s!"{toHex key}|{toHex key}"
        | none => "hang"
    | _, _, _ => "bad-op"
  | "fn" =>
    match algOfName (o.str "hash"), o.hex? "pw", o.hex? "salt", o.int? "count", o.nat? "len" with
    | some a, some pw, some salt, some count, some n =>
      match o.str "f" with
      | "simple" => toHex (saltedKey a n pw [])
      | "salted" => toHex (saltedKey a n pw salt)
      | "iterated" => match iteratedKey a n pw salt count with | some k => toHex k | none => "hang"
      | _ => "bad-op"
    | _, _, _, _, _ => "bad-op"
  | "sz" =>
    let cfg? : Option (Option Int) := if o.str "cfg" == "nil" then some none else (o.int? "cfg").map some
    match idOfName (o.str "hash"), o.hex? "rnd", cfg?, o.hex? "pw", o.nat? "len" with
    | some hid, some rnd, some cfg, some pw, some n =>
      match serialize hid rnd cfg pw n with
      | .error e => showErr e
      | .ok none => "panic"
      | .ok (some (hdr, key)) => s!"ok hdr={toHex hdr} key={toHex key}"
    | _, _, _, _, _ => "bad-op"
  | _ => "bad-op"

end XC.C20
