/-
  C31 driver (conf mode "accept"): `op<TAB>impl` ↦ `ok` iff the recorded run satisfies the model's safety
  predicates: no application packet between a side's KEXINIT and its NEWKEYS, every writer's packets on the
  wire exactly once and in order, the peer received exactly the wire's application packets in wire order,
  the pending queue never exceeded 64, nothing hung, nothing failed.
-/
import XC.Model.C31
namespace XC.C31
open XC

def parsePair (s : String) : Option (Nat × Nat) :=
  match s.splitOn "." with
  | [a, b] => do
    let x ← a.toNat?
    let y ← b.toNat?
    pure (x, y)
  | _ => none

def parseInt (s : String) : Option Int :=
  if s.startsWith "m" then (s.drop 1).toString.toNat?.map (fun n => -(n : Int)) else s.toNat?.map (fun n => (n : Int))

/-- a wire token: `K`, `N`, `X`, or `a<writer>.<seqno>[.<size>.<bytesLeft>[.p0]]` -/
def parseTok (s : String) : Option (Item × Option (Nat × Int)) :=
  if s == "K" then some (.kexinit, none)
  else if s == "N" then some (.newkeys, none)
  else if s == "X" then some (.kexmsg, none)
  else if s.startsWith "a" then
    match ((s.drop 1).toString.splitOn ".") with
    | [w, n] => do pure (Item.app (← w.toNat?) (← n.toNat?), none)
    | w :: n :: z :: l :: _ => do pure (Item.app (← w.toNat?) (← n.toNat?), some (← z.toNat?, ← parseInt l))
    | _ => none
  else none

def parseItem (s : String) : Option Item := (parseTok s).map (·.1)

/-- budget events of a wire: `none` at each NEWKEYS, `some (size, bytesLeft)` at each application packet -/
def budgetEvents (toks : List (Item × Option (Nat × Int))) : List (Option (Nat × Int)) :=
  toks.filterMap fun t =>
    match t with
    | (.newkeys, _) => some none
    | (.app _ _, some zl) => some (some zl)
    | _ => none

/-- every application packet pushed while the byte budget was already exhausted (`cur ≤ 0` before it) is followed,
    somewhere later on the wire, by a KEXINIT of this side -/
def exhaustedThenKex (thr : Int) : Int → List (Item × Option (Nat × Int)) → Bool
  | _, [] => true
  | _, (.newkeys, _) :: r => exhaustedThenKex thr thr r
  | cur, (.app _ _, some (_, l)) :: r =>
    (decide (0 < cur) || r.any (fun t => t.1 == Item.kexinit)) && exhaustedThenKex thr l r
  | cur, _ :: r => exhaustedThenKex thr cur r

def parseList {α} (f : String → Option α) (s : String) : Option (List α) :=
  if s == "-" then some [] else (s.splitOn ",").mapM f

/-- all safety predicates for one sending side -/
def judgeSide (who : String) (toks : List (Item × Option (Nat × Int))) (thr : Nat) (sub : List Nat)
    (peerRecv : List (Nat × Nat)) (n : Nat) (maxp : Nat) : Option String :=
  let wire := toks.map (·.1)
  if !budgetScan thr thr true (budgetEvents toks) then
    some s!"{who}: writeBytesLeft does not follow the accounting rule (charge while > 0, reset to {thr} after a key exchange, flush uncharged)"
  else if !exhaustedThenKex thr thr toks then some s!"{who}: a packet was pushed with an exhausted budget and no KEXINIT followed"
  else if !wireOK wire then some s!"{who}: application packet between KEXINIT and NEWKEYS (or unbalanced kex) on the wire"
  else if maxp > maxPending then some s!"{who}: pending queue reached {maxp}"
  else if sub.any (· != n) then some s!"{who}: a writer did not get all {n} packets accepted"
  else
    match (List.range sub.length).find? (fun w => !writerOrdered w (sub.getD w 0) wire) with
    | some w => some s!"{who}: writer {w}: packets on the wire are not exactly 0..{sub.getD w 0}-1 in order"
    | none =>
      if appsOf wire != peerRecv then some s!"{who}: the peer did not receive exactly the wire's application packets in order"
      else if (appsOf wire).any (fun p => p.1 ≥ sub.length) then some s!"{who}: packet of an unknown writer"
      else none

def handle (line : String) : String :=
  match line.splitOn "\t" with
  | [opS, implS] =>
    let o := parseOp opS
    let i := parseOp implS
    if o.cmd != "rk" then "bad-op" else
    if implS == "hang" || implS == "crash" then s!"run did not complete: {implS} (no progress: a writer, a key exchange loop or a read loop is blocked forever)" else
    if o.str "closekex" == "1" then
      -- Close() while a key exchange is open and writers are parked on the full queue:
      -- Close returns, every parked writer is released with an error, nothing of the application follows our KEXINIT
      match parseList parseItem (i.str "cwire") with
      | some cwire =>
        if i.str "st" != "closed" then s!"close-during-kex scenario: {i.str "st"}"
        else if i.str "closeret" != "1" then "Close() did not return while the key exchange was open"
        else if i.str "released" != "1" then "parked writers were not released by Close()"
        else if i.str "wok" != "0" then "writePacket succeeded after Close()"
        else if !wireOK cwire || i.str "fk" != "0" then "application packets on the wire after the KEXINIT of the aborted key exchange"
        else "ok"
      | none => "bad-impl"
    else
    if o.str "failkex" == "1" then
      -- a re-key that fails (host key rejected): nothing of the application may follow our KEXINIT
      match parseList parseItem (i.str "cwire") with
      | some cwire =>
        if !wireOK cwire || i.str "fk" != "0" then
          "client: application packets on the wire after the KEXINIT of a key exchange that failed (no NEWKEYS)"
        else if i.str "wok" != "0" then "client: writePacket succeeded after the key exchange had failed (writeError not kept)"
        else if i.str "st" != "failkex" then s!"failed-re-key scenario did not run: {i.str "st"}"
        else "ok"
      | none => "bad-impl"
    else
    match o.nat? "n", o.nat? "cw", o.nat? "sw",
          parseList parseTok (i.str "cwire"), parseList parseTok (i.str "swire"),
          parseList parsePair (i.str "crecv"), parseList parsePair (i.str "srecv"),
          i.natList? "csub", i.natList? "ssub", i.nat? "maxp", i.nat? "maxps" with
    | some n, some cw, some sw, some cwire, some swire, some crecv, some srecv, some csub, some ssub, some maxp, some maxps =>
      if i.str "st" != "ok" then s!"run did not complete: {i.str "st"}"
      else if i.str "cerr" != "0" || i.str "serr" != "0" then "a writePacket call failed"
      else if csub.length != cw || ssub.length != sw then "bad-impl"
      else
        -- with close=1 the client side is closed while its key exchange is open: see below
        match judgeSide "client" cwire (effectiveThreshold ((o.nat? "thr").getD 0) (o.str "cipher")) csub srecv n maxp with
        | some e => e
        | none =>
          match judgeSide "server" swire (effectiveThreshold ((o.nat? "sthr").getD 0) (o.str "cipher")) ssub crecv n maxps with
          | some e => e
          | none => "ok"
    | _, _, _, _, _, _, _, _, _, _, _ => "bad-op"
  | _ => "bad-op"

end XC.C31
