/-
  C31 driver (conf mode "accept"): `op<TAB>impl` ↦ `ok` iff the recorded run satisfies the model's safety
  predicates: no application packet between a side's KEXINIT and its NEWKEYS, every writer's packets on the
  wire exactly once and in order, the peer received exactly the wire's application packets in wire order,
  the pending queue never exceeded 64, nothing hung, nothing failed.
-/
import XC.Model.C31
namespace XC.C31
open XC

def parsePair (s : String) : Option (Nat × Nat) :=
  match s.splitOn "." with
  | [a, b] => do
    let x ← a.toNat?
    let y ← b.toNat?
    pure (x, y)
  | _ => none

def parseItem (s : String) : Option Item :=
  if s == "K" then some .kexinit
  else if s == "N" then some .newkeys
  else if s == "X" then some .kexmsg
  else if s.startsWith "a" then (parsePair (s.drop 1).toString).map (fun p => Item.app p.1 p.2)
  else none

def parseList {α} (f : String → Option α) (s : String) : Option (List α) :=
  if s == "-" then some [] else (s.splitOn ",").mapM f

/-- all safety predicates for one sending side -/
def judgeSide (who : String) (wire : List Item) (sub : List Nat) (peerRecv : List (Nat × Nat)) (n : Nat) (maxp : Nat) :
    Option String :=
  if !wireOK wire then some s!"{who}: application packet between KEXINIT and NEWKEYS (or unbalanced kex) on the wire"
  else if maxp > maxPending then some s!"{who}: pending queue reached {maxp}"
  else if sub.any (· != n) then some s!"{who}: a writer did not get all {n} packets accepted"
  else
    match (List.range sub.length).find? (fun w => !writerOrdered w (sub.getD w 0) wire) with
    | some w => some s!"{who}: writer {w}: packets on the wire are not exactly 0..{sub.getD w 0}-1 in order"
    | none =>
      if appsOf wire != peerRecv then some s!"{who}: the peer did not receive exactly the wire's application packets in order"
      else if (appsOf wire).any (fun p => p.1 ≥ sub.length) then some s!"{who}: packet of an unknown writer"
      else none

def handle (line : String) : String :=
  match line.splitOn "\t" with
  | [opS, implS] =>
    let o := parseOp opS
    let i := parseOp implS
    if o.cmd != "rk" then "bad-op" else
    match o.nat? "n", o.nat? "cw", o.nat? "sw",
          parseList parseItem (i.str "cwire"), parseList parseItem (i.str "swire"),
          parseList parsePair (i.str "crecv"), parseList parsePair (i.str "srecv"),
          i.natList? "csub", i.natList? "ssub", i.nat? "maxp", i.nat? "maxps" with
    | some n, some cw, some sw, some cwire, some swire, some crecv, some srecv, some csub, some ssub, some maxp, some maxps =>
      if i.str "st" != "ok" then s!"run did not complete: {i.str "st"}"
      else if i.str "cerr" != "0" || i.str "serr" != "0" then "a writePacket call failed"
      else if csub.length != cw || ssub.length != sw then "bad-impl"
      else
        match judgeSide "client" cwire csub srecv n maxp with
        | some e => e
        | none =>
          match judgeSide "server" swire ssub crecv n maxps with
          | some e => e
          | none => "ok"
    | _, _, _, _, _, _, _, _, _, _, _ => "bad-op"
  | _ => "bad-op"

end XC.C31
