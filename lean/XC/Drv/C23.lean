import XC.Model.C23
namespace XC.C23

/-! op lines
     rd  f=<reader> [tag=<hh>] [def=<…>] in=<hex> [pad=<n>:<hh>]
     add f=<builder> [tag=<hh>] [v=<…>] [in=<hex>] [pad=<n>:<hh>]
     time …                       (differential against encoding/asn1 only: the model answers `time agree=1`) -/

def fnv64 (bs : Bytes) : UInt64 :=
  bs.foldl (fun h b => (h ^^^ b.toUInt64) * 1099511628211) 14695981039346656037

def showB (bs : Bytes) : String :=
  if bs.length ≤ 128 then toHex bs else s!"n={bs.length},h={toHex (u64be (fnv64 bs))}"

def input (o : Op) : Option Bytes := do
  let base ← o.hex? "in"
  match o.get? "pad" with
  | none => pure base
  | some p =>
    match p.splitOn ":" with
    | [n, h] =>
      let n ← n.toNat?
      match ofHex h with
      | some [b] => pure (base ++ List.replicate n b)
      | _ => none
    | _ => none

def tagOf (o : Op) : Option UInt8 :=
  match o.hex? "tag" with
  | some [t] => some t
  | _ => none

def showOID (arcs : List Nat) : String := ".".intercalate (arcs.map toString)

/-- class S readers have an encoding/asn1 counterpart with the same accept set -/
def tail (cls : String) (accepted : Bool) : String :=
  if cls == "S" then (if accepted then " asn1=acc agree=1" else " asn1=rej agree=na")
  else if cls == "H" then (if accepted then " asn1=acc agree=1" else " asn1=na agree=na")
  else " asn1=na agree=na"

def fin (cls : String) (r : Option String) : String :=
  match r with
  | some s => "ok " ++ s ++ tail cls true
  | none => "fail" ++ tail cls false

def b01 (b : Bool) : String := if b then "1" else "0"

def signedBits : String → Option Nat
  | "int8" => some 8 | "int16" => some 16 | "int32" => some 32 | "int64" => some 64 | "int" => some 64
  | _ => none
def unsignedBits : String → Option Nat
  | "uint8" => some 8 | "uint16" => some 16 | "uint32" => some 32 | "uint64" => some 64 | "uint" => some 64
  | _ => none

def handleRd0 (o : Op) : String :=
  match o.get? "f", input o with
  | some f, some s =>
    let tag := tagOf o
    match f, tag with
    | "any", _ =>
      let nt := o.get? "nt" == some "1"      -- outTag = nil
      fin "H" ((readAnyASN1 s).map fun (t, b, r) => s!"tag={if nt then "na" else toHex [t]} out={showB b} rest={showB r}")
    | "anyel", _ =>
      let nt := o.get? "nt" == some "1"
      fin "" ((readAnyASN1Element s).map fun (t, b, r) => s!"tag={if nt then "na" else toHex [t]} out={showB b} rest={showB r}")
    | "intbad", _ => "panic"                 -- ReadASN1Integer(*string): "out does not point to an integer type"
    | "optbad", some t =>                    -- ReadOptionalASN1Integer(*string, …): panics once the optional element is located
      match readOptional t s with
      | some _ => "panic"
      | none => fin "" none
    | "optbigbad", some t =>                 -- out *big.Int with an int default: panics only when the element is absent
      match readOptional t s with
      | some (false, _, _) => "panic"
      | _ => fin "" ((readOptionalWith readBigInt 0 t s).map fun (v, r) => s!"v={v} rest={showB r}")
    | "asn1", some t => fin "" ((readASN1Tag t s).map fun (b, r) => s!"out={showB b} rest={showB r}")
    | "elem", some t => fin "" ((readASN1ElementTag t s).map fun (b, r) => s!"out={showB b} rest={showB r}")
    | "skip", some t => fin "" ((readASN1Tag t s).map fun (_, r) => s!"rest={showB r}")
    | "peek", some t => s!"ok v={b01 (peekTag t s)} asn1=na agree=na"
    | "opt", some t =>
      let np := o.get? "np" == some "1"      -- outPresent = nil
      fin "" ((readOptional t s).map fun (p, b, r) => s!"present={if np then "na" else b01 p} out={showB b} rest={showB r}")
    | "skipopt", some t => fin "" ((skipOptional t s).map fun r => s!"rest={showB r}")
    | "bigint", _ => fin "S" ((readBigInt s).map fun (v, r) => s!"v={v} rest={showB r}")
    | "intbytes", _ => fin "" ((readIntBytes s).map fun (b, r) => s!"out={showB b} rest={showB r}")
    | "int64tag", some t => fin "" ((readInt64Tag t s).map fun (v, r) => s!"v={v} rest={showB r}")
    | "enum", _ =>
      -- encoding/asn1 decodes ENUMERATED into an int32-ranged asn1.Enumerated
      match readEnum s with
      | some (v, r) =>
        s!"ok v={v} rest={showB r}" ++
          (if -(2 : Int) ^ 31 ≤ v && v < (2 : Int) ^ 31 then " asn1=acc agree=1" else " asn1=rej agree=na")
      | none => "fail asn1=rej agree=na"
    | "bool", _ => fin "S" ((readBool s).map fun (v, r) => s!"v={b01 v} rest={showB r}")
    | "oid", _ => fin "S" ((readOID s).map fun (v, r) => s!"v={showOID v} rest={showB r}")
    | "bits", _ => fin "S" ((readBitString s).map fun ((n, b), r) => s!"bits={n} out={showB b} rest={showB r}")
    | "bitbytes", _ => fin "" ((readBitStringAsBytes s).map fun (b, r) => s!"out={showB b} rest={showB r}")
    | "octet", _ => fin "S" ((readASN1Tag 4 s).map fun (b, r) => s!"out={showB b} rest={showB r}")
    | "optint64", some t =>
      match o.int? "def" with
      | some d => fin "" ((readOptionalWith (readSigned 64) d t s).map fun (v, r) => s!"v={v} rest={showB r}")
      | none => "bad-op"
    | "optbigint", some t =>
      match o.int? "def" with
      | some d => fin "" ((readOptionalWith readBigInt d t s).map fun (v, r) => s!"v={v} rest={showB r}")
      | none => "bad-op"
    | "optintbytes", some t =>
      match o.hex? "def" with
      | some d => fin "" ((readOptionalWith readIntBytes d t s).map fun (v, r) => s!"out={showB v} rest={showB r}")
      | none => "bad-op"
    | "optbool", some t =>
      match o.nat? "def" with
      | some d => fin "" ((readOptionalBool (d != 0) t s).map fun (v, r) => s!"v={b01 v} rest={showB r}")
      | none => "bad-op"
    | "optoctet", some t =>
      let np := o.get? "np" == some "1"
      fin "" ((readOptionalOctets t s).map fun (p, b, r) => s!"present={if np then "na" else b01 p} out={showB b} rest={showB r}")
    | f, _ =>
      match signedBits f, unsignedBits f with
      | some bits, _ =>
        fin (if f == "int64" || f == "int32" || f == "int" then "S" else "")
          ((readSigned bits s).map fun (v, r) => s!"v={v} rest={showB r}")
      | _, some bits => fin "" ((readUnsignedInt bits s).map fun (v, r) => s!"v={v} rest={showB r}")
      | _, _ => "bad-op"
  | _, _ => "bad-op"

/-- readers never write to their input: `mutated=0` -/
def handleRd (o : Op) : String :=
  let r := handleRd0 o
  if r == "bad-op" || r == "panic" then r else r ++ " mutated=0"

def intList (s : String) : Option (List Int) :=
  if s == "-" then some [] else (s.splitOn ".").mapM String.toInt?

/-- `ok <bytes> rt=<read back gives the value>` -/
def finAdd (r : Option Bytes) (rt : Bytes → Bool) (asn1eq : Bool) : String :=
  match r with
  | none => "err"
  | some bs => s!"ok {showB bs} rt={b01 (rt bs)} asn1eq={if asn1eq then "1" else "na"} mutated=0"

def inI64 (v : Int) : Bool := -(2 : Int) ^ 63 ≤ v && v < (2 : Int) ^ 63

def handleAdd (o : Op) : String :=
  match o.get? "f" with
  | some "int64" =>
    match o.int? "v" with
    | some v => if !inI64 v then "bad-op" else
      finAdd (addSigned 2 v) (fun bs => readSigned 64 bs == some (v, [])) true
    | none => "bad-op"
  | some "marshal" =>   -- MarshalASN1(int64): encoding/asn1.Marshal's INTEGER appended
    match o.int? "v" with
    | some v => if !inI64 v then "bad-op" else
      finAdd (addSigned 2 v) (fun bs => readSigned 64 bs == some (v, [])) true
    | none => "bad-op"
  | some "int64tag" =>
    match o.int? "v", tagOf o with
    | some v, some t => if !inI64 v then "bad-op" else
      finAdd (addSigned t v) (fun bs => readInt64Tag t bs == some (v, [])) false
    | _, _ => "bad-op"
  | some "enum" =>
    match o.int? "v" with
    | some v => if !inI64 v then "bad-op" else
      finAdd (addSigned 10 v) (fun bs => readEnum bs == some (v, [])) true
    | none => "bad-op"
  | some "uint64" =>
    match o.nat? "v" with
    | some v => if v ≥ 2 ^ 64 then "bad-op" else
      finAdd (addUint64 v) (fun bs => readUnsignedInt 64 bs == some (v, [])) false
    | none => "bad-op"
  | some "bigint" =>
    match o.int? "v" with
    | some v => finAdd (addBigInt v) (fun bs => readBigInt bs == some (v, [])) true
    | none => "bad-op"
  | some "octet" =>
    match input o with
    | some b => finAdd (addOctetString b) (fun bs => readASN1Tag 4 bs == some (b, [])) true
    | none => "bad-op"
  | some "bits" =>
    match input o with
    | some b => finAdd (addBitString b) (fun bs => readBitString bs == some ((b.length * 8, b), [])) true
    | none => "bad-op"
  | some "bool" =>
    match o.nat? "v" with
    | some v => finAdd (addBool (v != 0)) (fun bs => readBool bs == some (v != 0, [])) true
    | none => "bad-op"
  | some "null" => finAdd (some addNull) (fun bs => readASN1Tag 5 bs == some ([], [])) true
  | some "oid" =>
    match (o.get? "v").bind intList with
    | some arcs =>
      if arcs.any (fun a => !inI64 a) then "bad-op" else
      -- asn1.Marshal comparison and read-back only for arcs the reader can represent
      let small := arcs.all (fun a => 0 ≤ a && a < 2 ^ 31 - 80)
      match addOID arcs with
      | none => "err"
      | some bs =>
        let rt := if small then b01 (readOID bs == some (arcs.map Int.toNat, [])) else "na"
        s!"ok {showB bs} rt={rt} asn1eq={if small then "1" else "na"} mutated=0"
    | none => "bad-op"
  | some "asn1" =>
    match tagOf o, input o with
    | some t, some b => finAdd (addASN1 t b) (fun bs => readASN1Tag t bs == some (b, [])) false
    | _, _ => "bad-op"
  | _ => "bad-op"

/-- cryptobyte/asn1: the Tag constants and the two class helpers -/
def tagConst : String → Option UInt8
  | "BOOLEAN" => some 1 | "INTEGER" => some 2 | "BIT_STRING" => some 3 | "OCTET_STRING" => some 4
  | "NULL" => some 5 | "OBJECT_IDENTIFIER" => some 6 | "ENUM" => some 10 | "UTF8String" => some 12
  | "SEQUENCE" => some 0x30 | "SET" => some 0x31 | "PrintableString" => some 19 | "T61String" => some 20
  | "IA5String" => some 22 | "UTCTime" => some 23 | "GeneralizedTime" => some 24 | "GeneralString" => some 27
  | _ => none

def handleTag (o : Op) : String :=
  match o.get? "f" with
  | some "const" => match (o.get? "name").bind tagConst with
    | some t => s!"ok {toHex [t]}"
    | none => "bad-op"
  | some "constructed" => match tagOf o with
    | some t => s!"ok {toHex [t ||| 0x20]}"
    | none => "bad-op"
  | some "contextspecific" => match tagOf o with
    | some t => s!"ok {toHex [t ||| 0x80]}"
    | none => "bad-op"
  | _ => "bad-op"

def handle (line : String) : String :=
  let o := parseOp line
  if o.cmd == "tag" then handleTag o else
  if o.cmd == "rd" then handleRd o
  else if o.cmd == "add" then handleAdd o
  else if o.cmd == "time" then "time agree=1"
  else "bad-op"

end XC.C23
