import XC.Model.C32
import XC.Model.C32_Wire
namespace XC.C32

/-! op line:
  `sauth mt=<int> nca=0|1 ncacb=0|1 cbs=<pw pk kbd bits> vpk=0|1 ban=n|e|m algs=<list|-> addr=nil|unix|tcp~<ip>
         perms=<id~sa~nt|…> psa=<Go only> reqs=<req;req;…>`
  a request is `k:v/k:v/…` (see `parseReq`). -/

def bit? (s : String) : Option Bool :=
  if s == "1" then some true else if s == "0" then some false else none

def fields (s : String) : List (String × String) :=
  (s.splitOn "/").filterMap fun f =>
    match f.splitOn ":" with
    | [] => none
    | [k] => if k.isEmpty then none else some (k, "")
    | k :: rest => some (k, ":".intercalate rest)

/-- `pw pk kbd [gss]` bits -/
def parseCbs (s : String) : Option Cbs :=
  match s.toList with
  | [a, b, c] => do
    let a ← bit? (String.singleton a)
    let b ← bit? (String.singleton b)
    let c ← bit? (String.singleton c)
    pure ⟨a, b, c, false⟩
  | [a, b, c, d] => do
    let a ← bit? (String.singleton a)
    let b ← bit? (String.singleton b)
    let c ← bit? (String.singleton c)
    let d ← bit? (String.singleton d)
    pure ⟨a, b, c, d⟩
  | _ => none

/-- `.`-separated list; `-` or absent = empty -/
def dotList (s : String) : List String := if s == "-" || s.isEmpty then [] else s.splitOn "."

def parseFollow (s : String) : Option Follow :=
  match s.toList with
  | ['i', 'b'] => some .infoRespBad
  | 'i' :: 'j' :: _ => some .infoRespBad   -- n well-formed answers followed by junk
  | 'i' :: n => (String.ofList n).toNat?.map Follow.infoResp
  | ['g', 't'] => some .gssToken
  | ['g', 'm'] => some .gssMic
  | ['o'] => some .other
  | _ => none

def parseGssStep (s : String) : Option GssStep :=
  match s.toList with
  | [a, b, c] => do
    let a ← bit? (String.singleton a)
    let b ← bit? (String.singleton b)
    let c ← bit? (String.singleton c)
    pure ⟨a, b, c⟩
  | _ => none

/-- `A<p>` | `R` | `B0` | `B1` | `P<bits>.<p>` -/
def parseOutcome (s : String) : Option Outcome :=
  match s.toList with
  | 'A' :: rest => (String.ofList rest).toNat?.map Outcome.accept
  | ['R'] => some .reject
  | ['B', '0'] => some (.banner false)
  | ['B', '1'] => some (.banner true)
  -- other shapes of BannerError with a message (nil Err / wrapping a PartialSuccessError / itself wrapped):
  -- errors.As finds the banner, the type assertion to *PartialSuccessError does not succeed
  | ['B', '2'] => some (.banner true)
  | ['B', 'P'] => some (.banner true)
  | ['B', 'W'] => some (.banner true)
  | 'P' :: rest =>
    match (String.ofList rest).splitOn "." with
    | [m, p] => do
      let c ← parseCbs m
      let p ← p.toNat?
      pure (.partialOk c p)
    | _ => none
  | _ => none

def parseSAEntry (s : String) : Option SAEntry :=
  if s == "eq" then some .ipEq else if s == "ne" then some .ipNe
  else if s == "in" then some .cidrIn else if s == "out" then some .cidrOut
  else if s == "bad" then some .bad else none

def parsePermRow (s : String) : Option (Nat × Perm) :=
  match s.splitOn "~" with
  | [id, sa, nt] => do
    let id ← id.toNat?
    let nt ← bit? nt
    let sa ← if sa == "-" then some none else ((sa.splitOn "+").mapM parseSAEntry).map some
    pure (id, ⟨sa, nt⟩)
  | _ => none

def parsePerms (s : String) : Option (List (Nat × Perm)) :=
  if s == "-" then some [] else (s.splitOn "|").mapM parsePermRow

def parseReq (s : String) : Option Read :=
  let f := fields s
  let get (k : String) : String := (f.lookup k).getD ""
  let getB (k : String) (dflt : Bool) : Option Bool :=
    match f.lookup k with
    | none => some dflt
    | some v => bit? v
  match f.lookup "t" with
  | some "eof" => some .eof
  | some "io" => some .ioErr
  | some "bad" => some .malformed
  | some "r" => do
    let user ← f.lookup "u"
    let service ← f.lookup "s"
    let method ← f.lookup "m"
    let cb ← match f.lookup "cb" with
      | none => some Outcome.reject
      | some v => parseOutcome v
    let vcb ← match f.lookup "vcb" with
      | none => some Outcome.reject
      | some v => parseOutcome v
    let pws ← match f.lookup "pws" with
      | none => some PwShape.ok
      | some "ok" => some PwShape.ok
      | some v => if ["empty", "nz", "trunc", "trail"].contains v then some PwShape.bad else none
    let pks := (f.lookup "pks").getD "ok"
    if !["ok", "empty", "noalgo", "nokey", "qtrail"].contains pks then none else
    let sg := (f.lookup "sg").getD "ok"
    if !["ok", "none", "trunc", "trail", "btrail"].contains sg then none else
    let q ← getB "q" false
    let kp ← getB "kp" false
    let cnt ← getB "cnt" false
    let sv ← getB "sv" false
    let svn ← getB "svn" false
    let key ← match f.lookup "k" with
      | none => some 0
      | some v => v.toNat?
    let kr ← (dotList (get "kr")).mapM String.toNat?
    let fl ← (dotList (get "fl")).mapM parseFollow
    let gsteps ← (dotList (get "gs")).mapM parseGssStep
    let gmo ← getB "gmo" false
    let gp ← match f.lookup "gp" with
      | none => some GssPayload.krb
      | some "k" => some GssPayload.krb
      | some "m" => some GssPayload.malformed
      | some "n0" => some GssPayload.n0
      | some "nk" => some GssPayload.noKrb
      | _ => none
    let pk : PkReq := {
      payloadEmpty := pks == "empty", isQuery := q, algoOk := pks != "noalgo", algo := get "a",
      keyOk := pks != "nokey", key := key, keyParses := kp, keyType := get "kt", certNoTouch := cnt,
      trailing := pks == "qtrail", sigParses := sg == "ok", sigFormat := get "sf",
      sigValid := sv, sigValidNT := svn }
    pure (.req { user, service, method, pwShape := pws, password := get "pw", pk, cb, vcb,
                 kbdRounds := kr, follow := fl, gss := ⟨gp, gsteps, gmo⟩ })
  | _ => none

def showLog : LogRes → String
  | .ok => "ok" | .partialOk => "partial" | .fail => "fail"

def showEv : Ev → String
  | .sendFailure ms p => s!"F:{if ms.isEmpty then "-" else ",".intercalate ms}:{if p then 1 else 0}"
  | .sendPkOk a k => s!"K:{a}:{k}"
  | .sendBanner => "B"
  | .sendSuccess => "S"
  | .sendDisconnect => "D"
  | .cbBanner u => s!"cb.ban({u})"
  | .cbNone u _ => s!"cb.none({u})"
  | .cbPw g u pw _ => s!"cb.pw({g},{u},{pw})"
  | .cbKbd g u _ => s!"cb.kbd({g},{u})"
  | .cbPk g u k _ => s!"cb.pk({g},{u},{k})"
  | .cbVpk u k p sf _ => s!"cb.vpk({u},{k},{p},{sf})"
  | .sendInfoReq q => s!"IQ:{q}"
  | .sendGssResponse => "GR"
  | .sendGssToken => "GT"
  | .gssAccept => "gss.accept"
  | .gssVerifyMic => "gss.mic"
  | .gssDelete => "gss.del"
  | .cbGssAllow g u _ => s!"cb.gss({g},{u})"
  | .log m r => s!"log({m},{showLog r})"

/-- ServerAuthError.Errors: one entry per logged request plus the disconnect message; how many of
    them are ErrNoAuth (a `none` request that was refused without consulting NoClientAuthCallback) -/
def authErrCounts (evs : List Ev) : Nat × Nat :=
  let step (acc : Nat × Nat × Bool) (e : Ev) : Nat × Nat × Bool :=
    match e with
    | .cbNone _ _ => (acc.1, acc.2.1, true)
    | .log m res =>
      (acc.1 + 1, (if m == "none" && res == .fail && !acc.2.2 then acc.2.1 + 1 else acc.2.1), false)
    | .sendDisconnect => (acc.1 + 1, acc.2.1, false)
    | _ => acc
  let r := evs.foldl step (0, 0, false)
  (r.1, r.2.1)

def showFinal (evs : List Ev) : Final → String
  | .ok p => s!"ok:{p}"
  | .authErr => s!"autherr:{(authErrCounts evs).1}:{(authErrCounts evs).2}"
  | .err => "err"

def parseCfg (o : Op) : Option Cfg := do
  let mt ← o.int? "mt"
  let nca ← (o.get? "nca").bind bit?
  let ncacb ← (o.get? "ncacb").bind bit?
  let cbs ← (o.get? "cbs").bind parseCbs
  let vpk ← (o.get? "vpk").bind bit?
  let ban ← match o.get? "ban" with
    | some "n" => some none
    | some "e" => some (some false)
    | some "m" => some (some true)
    | _ => none
  let algs ← match o.get? "algs" with
    | some "-" => some []
    | some s => some (s.splitOn ",")
    | none => none
  let addr ← match o.get? "addr" with
    | some "nil" => some AddrKind.nil
    | some "unix" => some AddrKind.nonTcp
    | some s => if s.startsWith "tcp~" then some AddrKind.tcp else none
    | none => none
  let perms ← (o.get? "perms").bind parsePerms
  pure { maxAuthTries := mt, noClientAuth := nca, noClientAuthCb := ncacb, cbs, verifiedCb := vpk,
         bannerCb := ban, pkAlgos := algs, addr, perms }

def parseReads (s : String) : Option (List Read) :=
  if s == "-" then some [] else (s.splitOn ";").mapM parseReq

/-- `sdata sid=<hex> user=<hex> svc=<hex> meth=<hex> algo=<hex> key=<hex>` → the signed bytes -/
def handleSData (o : Op) : String :=
  match o.hex? "sid", o.hex? "user", o.hex? "svc", o.hex? "meth", o.hex? "algo", o.hex? "key" with
  | some a, some b, some c, some d, some e, some f => toHex (signedData a b c d e f)
  | _, _, _, _, _, _ => "bad-op"

def handle (line : String) : String :=
  let o := parseOp line
  if o.cmd == "sdata" then handleSData o else
  if o.cmd != "sauth" then "bad-op" else
  match parseCfg o, (o.get? "reqs").bind parseReads with
  | some cfg, some reads =>
    let (evs, f) := run cfg reads
    -- PreAuthConnCallback runs once before the loop: n = nil, c = set, b = set and calls SendAuthBanner
    match (o.get? "pre").getD "n" with
    | "n" => s!"res={showFinal evs f} ev={if evs.isEmpty then "-" else " ".intercalate (evs.map showEv)}"
    | "c" => s!"res={showFinal evs f} ev={" ".intercalate ("cb.pre" :: evs.map showEv)}"
    | "b" => s!"res={showFinal evs f} ev={" ".intercalate ("cb.pre" :: "B" :: evs.map showEv)}"
    | _ => "bad-op"
  | _, _ => "bad-op"

end XC.C32
