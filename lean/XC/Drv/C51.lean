import XC.Model.C51
namespace XC.C51

def intList? (o : Op) (k : String) : Option (List Int) :=
  match o.get? k with
  | none => none
  | some "-" => some []
  | some s => (s.splitOn ",").mapM String.toInt?

/-- `nil` → none (a nil slice), `-` → empty, else comma list -/
def optNatList? (o : Op) (k : String) : Option (Option (List Nat)) :=
  match o.get? k with
  | none => none
  | some "nil" => some none
  | some "-" => some (some [])
  | some s => ((s.splitOn ",").mapM String.toNat?).map some

def hexList? (s : String) : Option (List Bytes) :=
  if s == "-" then some [] else (s.splitOn ",").mapM ofHex

def bool? (s : String) : Option Bool :=
  if s == "1" then some true else if s == "0" then some false else none

def kt? (s : String) : Option KT :=
  if s == "rsa" then some .rsa else if s == "ec" then some .ec else if s == "other" then some .other else none

/-- `c/<id>/<nb>/<na>/<host>/<le>/<pub>/<priv>/<match>` -/
def cert? (s : String) : Option Cert :=
  match s.splitOn "/" with
  | ["c", id, nb, na, host, le, pub, priv, m] => do
    -- key relation: 1 = the leaf certifies the private key, 0 = an unrelated key,
    -- m = a near miss (EC: same X, other Y; RSA: one bit of N differs) — not the key;
    -- e = RSA same modulus, other exponent — not the key either (validCert compares modulus and exponent; fixed in ef42413)
    let km ← if m == "m" || m == "e" then some false else bool? m
    -- host = the x509 verdict (VerifyHostname), optionally followed by the CommonName / SAN shape the harness builds
    pure ⟨← id.toNat?, ← nb.toInt?, ← na.toInt?, ← bool? (String.ofList (host.toList.take 1)), ← bool? le, ← kt? pub, ← kt? priv, km⟩
  | _ => none

def cacheVal? (s : String) : Option CacheVal :=
  if s.startsWith "miss" then some .miss
  else if s == "err" then some .err
  else if s == "badkey" then some .badKey
  else (cert? s).map .cert

def keyed? {α} (f : String → Option α) (s : String) : Option (List (Bytes × α)) :=
  if s == "-" then some [] else
  (s.splitOn ",").mapM fun e =>
    match e.splitOn ":" with
    | [k, v] => do pure (← ofHex k, ← f v)
    | _ => none

def stateVal? (s : String) : Option StateVal :=
  if s == "failed" then some .failed else (cert? s).map .ready

def showEv : Ev → String
  | .policy n => "p:" ++ toHex n
  | .get k => "g:" ++ toHex k
  | .order d => "o:" ++ toHex d
  | .put k => "u:" ++ toHex k
  | .account tos email eab => s!"a:{if tos then 1 else 0}/{toHex email}/{if eab then 1 else 0}"
  | .csr d ext => s!"c:{toHex d}/{if ext then 1 else 0}"

def showRes : Res → String
  | .errName | .errIdna | .errNoToken | .errPolicy | .errCache | .errIssue => "err"
  | .token c => s!"cert:{c.id}"
  | .tokenMem c => s!"cert:{c.id}"
  | .expiredNotServed => "expired-not-served"
  | .served c => if c.id == 0 then "issued" else s!"cert:{c.id}"
  | .issued _ => "issued"

def ktOf (ck : CertKey) : KT := if ck.isRSA then .rsa else .ec

/-- the CA script: `refuse`, or a descriptor; with match=1 the CA certifies the CSR's own key -/
def ca? (s : String) : Option (CertKey → Option Cert) :=
  if s == "refuse" then some (fun _ => none) else
  -- a near-miss key (…/m) is derived from the CSR key, hence of the certKey's type
  let near := s.endsWith "/m"
  (cert? s).map fun c ck =>
    some { c with id := 0, priv := ktOf ck, pub := if c.keyMatch || near then ktOf ck else c.pub,
                  keyMatch := c.keyMatch }

def hello? (o : Op) (pfx : String) : Option Hello := do
  let name ← o.hex? (pfx ++ "name")
  let protos ← (o.get? (pfx ++ "protos")).bind hexList?
  let sigs ← optNatList? o (pfx ++ "sigs")
  let curves ← optNatList? o (pfx ++ "curves")
  let suites ← o.natList? (pfx ++ "suites")
  pure ⟨name, protos, sigs, curves, suites⟩

def ascii? (o : Op) (k : String) : Option (Option Bytes) :=
  match o.get? k with
  | none => none
  | some "err" => some none
  | some s => (ofHex s).map some

def world? (o : Op) : Option World := do
  let wl ← match o.get? "wl" with
    | none => none
    | some "nil" => some none
    | some s => (hexList? s).map some
  let cache ← match o.get? "cache" with
    | none => none
    | some "nil" => some none
    | some s => (keyed? cacheVal? s).map some
  let st ← (o.get? "state").bind (keyed? stateVal?)
  let ca ← (o.get? "ca").bind ca?
  let toks ← match o.get? "tokens" with
    | none => some []
    | some s => keyed? cert? s
  -- acct=<terms>/<prompt nil|1|0>/<email hex>/<eab>/<ext>
  let acct ← match o.get? "acct" with
    | none => some ({} : Acct)
    | some s => match s.splitOn "/" with
      | [t, p, e, b, x] => do
        let prompt ← if p == "nil" then some none else (bool? p).map some
        pure { terms := ← bool? t, prompt := prompt, email := ← ofHex e, eab := ← bool? b, extraExt := ← bool? x }
      | _ => none
  pure { whitelist := wl, cache := cache, state := st, ca := ca, tokens := toks, acct := acct }

def joinOr (l : List String) : String := if l.isEmpty then "-" else ",".intercalate l

def handleNext (o : Op) : String :=
  match o.int? "rb", o.int? "nb", o.int? "na", o.int? "now", o.natList? "src" with
  | some rb, some nb, some na, some now, some src =>
    if rb < minDur || rb > maxDur then "bad-op" else
    match next rb nb na now src with
    | none => "panic"
    | some (d, k) => s!"ok d={d} k={k}"
  | _, _, _, _, _ => "bad-op"

def handleGc (o : Op) : String :=
  match world? o, hello? o "", ascii? o "ascii", o.int? "now" with
  | some w, some h, some a, some now =>
    let (evs, res, _) := getCertificate w h a now
    let np := if o.get? "via" == some "tls" then " np=" ++ joinOr (tlsNextProtos.map toHex) else ""
    s!"{showRes res} ev={joinOr (evs.map showEv)}{np}"
  | _, _, _, _ => "bad-op"

/-- insertion sort on strings (result multiset in canonical order) -/
def insertS (x : String) : List String → List String
  | [] => [x]
  | y :: r => if x ≤ y then x :: y :: r else y :: insertS x r
def sortS (l : List String) : List String := l.foldr insertS []

/-- a history of calls on one Manager: `calls=<i>@<now>,…` refers to hellos `h<i>.…`;
    the per-call observables are joined by `|` -/
def runCalls (spec : Bool) (o : Op) (w : World) : List String → Option (List (List Ev × Res))
  | [] => some []
  | c :: rest =>
    match c.splitOn "@" with
    | [i, t] => do
      let now ← t.toInt?
      let h ← hello? o s!"h{i}."
      let a ← ascii? o s!"h{i}.ascii"
      -- `spec`: answer what the property demands (a stale m.state entry is not served); the state is
      -- threaded as the code does it in both cases
      let (evs, res, st) := if spec then conform w h a now else getCertificate w h a now
      let r ← runCalls spec o { w with state := st, acct := { w.acct with registered := registeredAfter w evs } } rest
      pure ((evs, res) :: r)
    | _ => none

def handleHist (o : Op) : String :=
  match world? o, o.get? "calls" with
  | some w, some cs =>
    match runCalls true o w (cs.splitOn ",") with
    | some rs => "|".intercalate (rs.map fun (evs, res) => s!"{showRes res} ev={joinOr (evs.map showEv)}")
    | none => "bad-op"
  | _, _ => "bad-op"

/-- concurrent calls: same encoding as `hist`; the observable is order-insensitive -/
def handleConc (o : Op) : String :=
  match world? o, o.get? "calls" with
  | some w, some cs =>
    match runCalls false o w (cs.splitOn ",") with
    | some rs =>
      let evs := (rs.map (·.1)).flatten
      let orders := sortS (evs.filterMap fun | .order d => some (toHex d) | _ => none)
      let pol := (evs.filter fun | .policy _ => true | _ => false).length
      s!"orders={joinOr orders} policy={pol} res={joinOr (sortS (rs.map fun r => showRes r.2))}"
    | none => "bad-op"
  | _, _ => "bad-op"

/-- `httph wl= htok=<path>:<val>,… tcache=nil|miss|<hex> fb=0/1 method= host= path= uri= hnp= ckey=` -/
def handleHttph (o : Op) : String :=
  let wl? := match o.get? "wl" with
    | none => none
    | some "nil" => some none
    | some s => (hexList? s).map some
  let tc? : Option (Option (Option Bytes)) := match o.get? "tcache" with
    | none => none
    | some "nil" => some none
    | some "miss" => some (some none)
    | some s => (ofHex s).map fun b => some (some b)
  match wl?, (o.get? "htok").bind (keyed? ofHex), tc?, (o.get? "fb").bind bool?, o.hex? "method", o.hex? "host",
        o.hex? "path", o.hex? "uri", o.hex? "hnp", o.hex? "ckey" with
  | some wl, some htok, some tc, some fb, some m, some host, some path, some uri, some hnp, some ck =>
    let w : World := { whitelist := wl, cache := none, state := [], ca := fun _ => none }
    let (evs, r) := httpHandler w htok tc (!fb) m host path uri hnp ck
    let rs := match r with
      | .status c b => s!"{c} body={toHex b}"
      | .redirect l => s!"302 loc={toHex l}"
      | .fallback => "fallback"
    s!"{rs} ev={joinOr (evs.map showEv)}"
  | _, _, _, _, _, _, _, _, _, _ => "bad-op"

/-- `dirc ops=p:<k>:<v>,g:<k>,d:<k>` (hex) -/
def handleDirc (o : Op) : String :=
  let op? (s : String) : Option DirOp := match s.splitOn ":" with
    | ["p", k, v] => do pure (.put (← ofHex k) (← ofHex v))
    | ["g", k] => (ofHex k).map .get
    | ["d", k] => (ofHex k).map .del
    | _ => none
  match (o.get? "ops").bind fun s => (s.splitOn ",").mapM op? with
  | some ops => "get=" ++ joinOr ((dirRun [] ops).map fun | none => "miss" | some v => toHex v)
  | none => "bad-op"

def handle (line : String) : String :=
  let o := parseOp line
  if o.cmd == "next" then handleNext o
  else if o.cmd == "gc" then handleGc o
  else if o.cmd == "hist" then handleHist o
  else if o.cmd == "conc" then handleConc o
  else if o.cmd == "httph" then handleHttph o
  else if o.cmd == "dirc" then handleDirc o
  else "bad-op"

end XC.C51
