import XC.Model.C01
namespace XC.C01

def showRes : Res → String
  | .ok r => s!"ok {toHex r}"
  | .err _ => "err"
  | .panic => "panic"

/-- `seal|open x=0|1 path=… key= nonce= ad= pt=|ct= dst= cap=`  (`path`, `cap` select the implementation
    path / spare capacity in the harness; the result must not depend on them) -/
def handle1 (line : String) : String :=
  let o := parseOp line
  if o.cmd == "api" then   -- constants and accessors of both AEADs
    s!"KeySize={keySize} NonceSize={nonceSize} NonceSizeX={nonceSizeX} Overhead={overhead} aead.NonceSize={nonceSize} aead.Overhead={overhead} xaead.NonceSize={nonceSizeX} xaead.Overhead={overhead}"
  else
  match o.nat? "x", o.hex? "key", o.hex? "nonce", o.hex? "ad", o.hex? "dst" with
  | some x, some key, some nonce, some ad, some dst =>
    if x > 1 then "bad-op" else
    if key.length != 32 then "err-key" else     -- New / NewX: "bad key length"
    if o.cmd == "seal" then
      match o.hex? "pt" with
      | none => "bad-op"
      | some pt =>
        match (if x == 1 then xaeadSeal key nonce dst pt ad else aeadSeal key nonce dst pt ad) with
        | none => "panic"
        | some r => toHex r
    else if o.cmd == "kat" then   -- published vector: Seal must reproduce `out`, Open must invert it
      match o.hex? "pt", o.hex? "out" with
      | some pt, some out =>
        let s := if x == 1 then xaeadSeal key nonce dst pt ad else aeadSeal key nonce dst pt ad
        let r := if x == 1 then xaeadOpen key nonce dst out ad else aeadOpen key nonce dst out ad
        if s == some (dst ++ out) ∧ r == .ok (dst ++ pt) then "kat-ok" else "kat-mismatch"
      | _, _ => "bad-op"
    else if o.cmd == "open" then
      match o.hex? "ct" with
      | none => "bad-op"
      | some ct => showRes (if x == 1 then xaeadOpen key nonce dst ct ad else aeadOpen key nonce dst ct ad)
    else "bad-op"
  | _, _, _, _, _ => "bad-op"

/-- `sess ops=<op1>|<op2>|…` (sub-op fields separated by `;`): a session of calls that share arrays and buffers in
    the harness. The model is a pure function of contents: each sub-op is answered on its own. -/
def handle (line : String) : String :=
  let o := parseOp line
  if o.cmd == "sess" then
    match o.get? "ops" with
    | some v => " ## ".intercalate ((v.splitOn "|").map (fun s => handle1 (s.replace ";" " ")))
    | none => "bad-op"
  else handle1 line

end XC.C01
