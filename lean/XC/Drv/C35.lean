/-
  C35 driver (accept mode): `op<TAB>trace` → `ok` iff the trace recorded on the monitored packet pipe is accepted.

  snd dir=out|in w0=<W0> m=<M> pol=stall|eager<k> grants=<g,…|-> writers=<code>:<size>+<size>…,<code>:…
      the REAL channel writes (one goroutine per writer, distinct extended codes); the scripted peer advertised
      window W0 and max packet M and grants window per `pol`.
      trace (comma list): O=ok|err|rej  D<code>.<len>[!]  A<g>  S  E  W<code>=<n>.ok|eof  F (CHANNEL_EOF)  Z<code>=eof
      accepted iff every data packet obeys  len ≥ 1, len ≤ M, len ≤ granted − used  (credit granted on the wire
      so far minus payload used), per-stream content/offset intact (no `!`), a single writer takes exactly
      min(M, remaining, window) (`nextPacket`), stalls happen only with the whole window used, the sender uses
      every byte of window it is given while it has data, Write return values match what was put on the wire,
      and an overflowing grant (window.add) ends the connection.
  rcv dir=out|in steps=<tok,…>
      the REAL channel receives: d<len> e<code>.<len> b<lenfield>.<actual> D<count>x<len> (peer packets), r<n> s<n>
      (application reads stdout / stderr with an n-byte buffer), R<n> (read stdout; the peer uses the whole new grant
      synchronously from inside the writePacket of the window adjust: checks that advertise+credit is atomic). trace: one segment per step, `|`-separated:
      `-`, `A<n>` (window adjust on the wire), `R<k>[!]`, `R<k>,A<n>`, `X` (connection torn down; trace ends).
      The receiver model (`handleData`, `readExt`, `adjustWindow`) is deterministic: accepted iff equal.
-/
import XC.Model.C35
namespace XC.C35

def hasSub (s sub : String) : Bool := (s.splitOn sub).length > 1

/-! ## snd -/

structure Writer where
  code : Nat
  sizes : List Nat     -- remaining Write calls (head = current, partially sent)
  written : Nat
  total : Nat
deriving Repr

def parseWriter (s : String) : Option Writer :=
  match s.splitOn ":" with
  | [c, szs] => do
    let code ← c.toNat?
    let sizes ← (szs.splitOn "+").mapM String.toNat?
    pure ⟨code, sizes.filter (· ≠ 0), 0, sizes.sum⟩
  | _ => none

structure SndSt where
  m : Nat
  granted : Nat
  used : Nat
  writers : List Writer
  grants : List Nat
  single : Bool
  dead : Bool          -- an overflowing adjust was sent: the connection is being torn down
  stalledAtEnd : Bool

def updWriter (ws : List Writer) (code : Nat) (f : Writer → Writer) : List Writer :=
  ws.map (fun w => if w.code = code then f w else w)

def sndEvent (st : SndSt) (ev : String) : Except String SndSt :=
  let cs := ev.toList
  match cs with
  | 'D' :: rest =>
    let body := String.ofList rest
    if body.endsWith "!" then .error "violation:stream_integrity (payload bytes differ from what the writer passed, or out of order)" else
    match body.splitOn "." with
    | [c, l] =>
      match c.toNat?, l.toNat? with
      | some code, some len =>
        -- (after an overflowing adjust the teardown races with the writer: data may still appear; it is
        --  checked against the credit without the rejected adjust)
        match st.writers.find? (·.code = code) with
        | none => .error s!"reject:no-writer code={code}"
        | some w =>
          match w.sizes with
          | [] => .error s!"reject:writer-finished code={code}"
          | r :: more =>
            if len = 0 then .error "reject:empty-data-packet"
            else if len > st.m then .error s!"violation:never_exceeds_window (len {len} > peer max packet {st.m})"
            else if st.used + len > st.granted then
              .error s!"violation:never_exceeds_window (len {len} > credit {st.granted - st.used})"
            else if len > r then .error "reject:more-than-written"
            else
              -- a single writer performs exactly `nextPacket win M remaining` with win = granted − used
              let exact := match nextPacket (st.granted - st.used) st.m r with
                | some (n, _) => n
                | none => 0
              if st.single && len ≠ exact then .error s!"reject:packet-size len={len} nextPacket={exact}"
              else
                let w' := { w with sizes := if len = r then more else (r - len) :: more, written := w.written + len }
                .ok { st with used := st.used + len, writers := updWriter st.writers code (fun _ => w') }
      | _, _ => .error "reject:bad-event"
    | _ => .error "reject:bad-event"
  | 'A' :: rest =>
    match (String.ofList rest).toNat?, st.grants with
    | some g, g' :: more =>
      if g ≠ g' then .error "reject:grant-mismatch" else
      -- grants are handed to the mux synchronously: the sender's window is granted − used (single writer)
      match addWin (st.granted - st.used) g with
      | none => if st.single then .ok { st with grants := more, dead := true } else .error "bad-op:overflow-multi"
      | some _ => .ok { st with grants := more, granted := st.granted + g, stalledAtEnd := false }
    | _, _ => .error "reject:grant-mismatch"
  | ['S'] =>
    if st.dead then .error "reject:stall-after-overflow"
    else if st.writers.all (·.sizes.isEmpty) then .error "reject:stall-without-data"
    else if st.single && st.used ≠ st.granted then .error "reject:stall-with-window-left"
    else if st.used > st.granted then .error "violation:never_exceeds_window"
    else .ok { st with stalledAtEnd := true }
  | _ => .error s!"reject:unexpected-event {ev}"

def sndFinal (st : SndSt) (results : List String) (sawE : Bool) : String :=
  if st.dead != sawE then
    (if st.dead then "reject:overflowing-window-adjust-accepted" else "reject:unexpected-connection-error") else
  let want := st.writers.map (fun w =>
    s!"W{w.code}={w.written}.{if w.sizes.isEmpty then "ok" else "eof"}")
  if results != want then s!"reject:write-results want={",".intercalate want}" else
  -- progress: the run ended either with everything written, or stalled with every granted byte used
  if st.dead then "ok"
  else if st.writers.all (·.sizes.isEmpty) then "ok"
  else if !st.stalledAtEnd then "violation:adjust_unblocks (writer neither finished nor stalled)"
  else if st.used ≠ st.granted then
    (if st.single then "violation:adjust_unblocks (window left but the writer did not use it)" else
     -- several writers: each blocked writer saw win = 0, so all credit is used once their packets are out
     "violation:adjust_unblocks (window left unused)")
  else "ok"

def sndHandle (o : Op) (tr : String) : String :=
  match o.nat? "w0", o.nat? "m", o.get? "pol", o.get? "grants", o.get? "writers", o.get? "dir" with
  | some w0, some m, some _pol, some gr, some ws, some dir =>
    let grants? := if gr == "-" then some [] else (gr.splitOn ",").mapM String.toNat?
    match grants?, (ws.splitOn ",").mapM parseWriter with
    | some grants, some writers =>
      let evs := tr.splitOn ","
      let validM := decide (minPacketLength ≤ m ∧ m ≤ 2147483648)
      match evs with
      | [] => "reject:empty"
      | o1 :: rest =>
        if !validM then
          (if (dir == "out" && o1 == "O=err" && rest.all (· == "E")) || (dir == "in" && o1 == "O=rej" && rest.isEmpty)
           then "ok" else "reject:invalid-max-packet-accepted")
        else if o1 != "O=ok" then "reject:open-failed" else
        let st0 : SndSt := ⟨m, w0, 0, writers, grants, writers.length == 1, false, false⟩
        let tail := rest.filter (fun e => e == "F" || e.startsWith "Z")
        let body := rest.filter (fun e => !(e.startsWith "W") && e != "E" && e != "F" && !(e.startsWith "Z"))
        let results := rest.filter (·.startsWith "W")
        let sawE := rest.any (· == "E")
        match body.foldlM sndEvent st0 with
        | .error e => e
        | .ok st =>
          -- eof=1: once every writer has returned, CloseWrite puts one CHANNEL_EOF on the wire and every later Write on
          -- any stream of the channel returns (0, io.EOF) without touching the window
          let wantTail := if o.get? "eof" == some "1" && !st.dead && st.writers.all (·.sizes.isEmpty)
            then ["F", "Z0=eof", "Z1=eof"] else []
          if tail != wantTail then s!"reject:closewrite want={",".intercalate wantTail}" else
          sndFinal st results sawE
    | _, _ => "bad-op"
  | _, _, _, _, _, _ => "bad-op"

/-! ## rcv -/

inductive RTok
  | data (code lenField actual : Nat)
  | burst (count len : Nat)
  | read (code n : Nat)
  | readRefill (n : Nat)     -- Read(n) on stdout; the peer answers the window adjust AT ONCE (from inside the mux's
                             -- own writePacket of that adjust) with data packets that use the whole new grant

def parseRTok (t : String) : Option RTok :=
  match t.toList with
  | 'd' :: r => (String.ofList r).toNat?.map (fun l => .data 0 l l)
  | 'e' :: r => match (String.ofList r).splitOn "." with
    | [c, l] => do let c ← c.toNat?; let l ← l.toNat?; pure (.data c l l)
    | _ => none
  | 'b' :: r => match (String.ofList r).splitOn "." with
    | [l, a] => do let l ← l.toNat?; let a ← a.toNat?; pure (.data 0 l a)
    | _ => none
  | 'D' :: r => match (String.ofList r).splitOn "x" with
    | [c, l] => do let c ← c.toNat?; let l ← l.toNat?; pure (.burst c l)
    | _ => none
  | 'R' :: r => (String.ofList r).toNat?.map (.readRefill ·)
  | 'r' :: r => (String.ofList r).toNat?.map (.read 0 ·)
  | 's' :: r => (String.ofList r).toNat?.map (.read 1 ·)
  | _ => none

def adjStr (a : Nat) : String := if a = 0 then "-" else s!"A{a}"

/-- burst of `count` plain data packets: all adjusts they trigger (none for code 0), or an error -/
def burst : Nat → Rcv → Nat → Except DataErr Rcv
  | 0, r, _ => .ok r
  | c+1, r, len => match handleData r 0 len len with
    | .error e => .error e
    | .ok (r', _) => burst c r' len

/-- the peer's immediate refill: `adj` bytes of plain data in packets of at most maxIncoming -/
def refill : Nat → Rcv → Nat → Except DataErr Rcv
  | 0, r, _ => .ok r
  | fuel+1, r, left =>
    if left = 0 then .ok r else
    let l := if left > r.maxIncoming then r.maxIncoming else left
    match handleData r 0 l l with
    | .error e => .error e
    | .ok (r', _) => refill fuel r' (left - l)

/-- expected trace segments; `none` = the op is not executable (a read would block) -/
def rcvExpect : List RTok → Rcv → List String → Option (List String)
  | [], _, acc => some acc.reverse
  | .data code l a :: rest, r, acc =>
    match handleData r code l a with
    | .error _ => some (("X" :: acc).reverse)
    | .ok (r', adj) => rcvExpect rest r' (adjStr adj :: acc)
  | .burst c l :: rest, r, acc =>
    match burst c r l with
    | .error _ => some (("X" :: acc).reverse)
    | .ok r' => rcvExpect rest r' ("-" :: acc)
  | .read code n :: rest, r, acc =>
    let avail := if code = 1 then r.extPending else r.pending
    if n = 0 || avail = 0 then none else
    let (r', k, adj) := readExt r code n
    rcvExpect rest r' ((if adj = 0 then s!"R{k}" else s!"R{k},A{adj}") :: acc)
  | .readRefill n :: rest, r, acc =>
    if n = 0 || r.pending = 0 then none else
    let (r', k, adj) := readExt r 0 n
    let seg := if adj = 0 then s!"R{k}" else s!"R{k},A{adj}"
    -- adjustWindow is ONE step: myWindow is already credited when the adjust is on the wire, so the refill fits
    match refill 100 r' adj with
    | .error _ => some (("X" :: seg :: acc).reverse)
    | .ok r'' => rcvExpect rest r'' (seg :: acc)

def rcvHandle (o : Op) (tr : String) : String :=
  match o.get? "steps" with
  | some st =>
    match (st.splitOn ",").mapM parseRTok with
    | none => "bad-op"
    | some toks =>
      match rcvExpect toks Rcv.init [] with
      | none => "bad-op:read-would-block"
      | some want =>
        let w := "|".intercalate want
        if hasSub tr "!" then "violation:stream_integrity (bytes read differ from bytes sent)"
        else if tr == w then "ok"
        -- the real side tore the connection down on a packet the receiver model accepts (a compliant peer)
        else if tr.endsWith "X" && !(w.endsWith "X") && w.startsWith ((tr.dropEnd 1).toString) then
          s!"violation:receiver_never_complains (the receiver rejected data that fits the window it had advertised; want={w.take 120}…)"
        else s!"reject:want={w}"
  | none => "bad-op"

/-! ## pair: two real muxes; events D<code>.<len> (A→B data) and J<n> (B→A window adjust) in writePacket order -/

structure PairSt where
  credit : Nat          -- initial window + adjusts put on the wire so far
  used : Nat
  adj : Nat             -- Σ adjusts
  writers : List Writer

def pairEvent (st : PairSt) (ev : String) : Except String PairSt :=
  match ev.toList with
  | 'D' :: rest =>
    let body := String.ofList rest
    if body.endsWith "!" then .error "violation:stream_integrity (payload differs from what the writer passed, or out of order)" else
    match body.splitOn "." with
    | [c, l] =>
      match c.toNat?, l.toNat? with
      | some code, some len =>
        match st.writers.find? (·.code = code) with
        | none => .error s!"reject:no-writer code={code}"
        | some w =>
          match w.sizes with
          | [] => .error s!"reject:writer-finished code={code}"
          | r :: more =>
            if len = 0 then .error "reject:empty-data-packet"
            else if len > channelMaxPacket then .error s!"violation:never_exceeds_window (len {len} > peer max packet)"
            else if st.used + len > st.credit then
              .error s!"violation:never_exceeds_window (len {len} > credit {st.credit - st.used})"
            else if len > r then .error "reject:more-than-written"
            else
              let w' := { w with sizes := if len = r then more else (r - len) :: more, written := w.written + len }
              .ok { st with used := st.used + len, writers := updWriter st.writers code (fun _ => w') }
      | _, _ => .error "reject:bad-event"
    | _ => .error "reject:bad-event"
  | 'J' :: rest =>
    match (String.ofList rest).toNat? with
    | none => .error "reject:bad-event"
    | some n =>
      if n = 0 then .error "reject:zero-adjust"
      -- the receiver can only return what it has received and consumed: Σ adjusts ≤ payload received ≤ payload sent
      else if st.adj + n > st.used then .error "reject:adjust-exceeds-consumed"
      -- credit conservation ⇒ the sender's window never exceeds the initial window (window_add_no_overflow)
      else if st.credit + n - st.used > channelWindowSize then .error "violation:window-exceeds-initial"
      else .ok { st with credit := st.credit + n, adj := st.adj + n }
  | _ => .error s!"reject:unexpected-event {ev}"

def pairHandle (o : Op) (tr : String) : String :=
  match o.get? "writers" with
  | none => "bad-op"
  | some ws =>
    match (ws.splitOn ",").mapM parseWriter with
    | none => "bad-op"
    | some writers =>
      let evs := tr.splitOn ","
      if evs.any (· == "E") then "violation:receiver_never_complains (a mux loop ended: window or packet-size error between two compliant peers)" else
      let body := evs.filter (fun e => e.startsWith "D" || e.startsWith "J")
      let ws := evs.filter (·.startsWith "W")
      let rs := evs.filter (·.startsWith "R")
      match body.foldlM pairEvent ⟨channelWindowSize, 0, 0, writers⟩ with
      | .error e => e
      | .ok st =>
        let wantW := writers.map (fun w => s!"W{w.code}={w.total}.ok")
        let wantR := (writers.filter (fun w => w.code ≤ 1 && w.total > 0)).map (fun w => (w.code, s!"R{w.code}={w.total}.ok"))
        let wantR := ((wantR.toArray.qsort (fun a b => a.1 < b.1)).toList).map (·.2)
        if ws != wantW then s!"reject:write-results want={",".intercalate wantW}"
        else if rs != wantR then s!"violation:stream_integrity (read results, want {",".intercalate wantR})"
        else if !st.writers.all (·.sizes.isEmpty) then "reject:data-missing-on-the-wire"
        -- everything was read: what the receiver still holds back is below the adjust threshold
        else if st.used - st.adj > 3 * channelMaxPacket then "reject:window-not-returned"
        else "ok"

def handle (line : String) : String :=
  match line.splitOn "\t" with
  | [opS, tr] =>
    let o := parseOp opS
    if tr == "hang" then "violation:hang" else
    if tr == "panic" || tr == "crash" then s!"reject:{tr}" else
    if o.cmd == "snd" then sndHandle o tr
    else if o.cmd == "rcv" then rcvHandle o tr
    else if o.cmd == "pair" then pairHandle o tr
    else "bad-op"
  | _ => "bad-op"

end XC.C35
