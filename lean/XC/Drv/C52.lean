import XC.Model.C52_Pairing
namespace XC.C52

def g1Mul (a : CurvePoint) (k : Int) : CurvePoint := a.mul k
def g2Mul (a : TwistPoint) (k : Int) : TwistPoint := a.mul k
def gtExp (a : GFp12) (k : Int) : GFp12 := a.exp k

def showOpt (f : α → Bytes) : Option α → String
  | none => "reject mut=-"
  | some c => "ok " ++ toHex (f c) ++ " mut=-"

/-- state of a receiver after `Marshal` (which calls `MakeAffine` unless the point is infinity) -/
def aff1 (c : CurvePoint) : CurvePoint := if c.isInfinity then c else c.makeAffine
def aff2 (c : TwistPoint) : TwistPoint := if c.isInfinity then c else c.makeAffine

def h1 (c : CurvePoint) : String := toHex (g1Marshal c)
def h2 (c : TwistPoint) : String := toHex (g2Marshal c)

def showPair : PairRes → String
  | .undefined => "undefined"
  | .val e => s!"e={toHex (gtMarshal e)} one={if e.isOne then 1 else 0}"

def showPairM (r : PairRes) : String :=
  match r with
  | .undefined => "undefined"
  | _ => showPair r ++ " mut=-"

/-! `String()` up to representation: blanks removed, every integer reduced mod p -/
def r (v : Int) : String := toString (v % p)
def s2 (a : GFp2) : String := s!"({r a.x},{r a.y})"
def s6 (a : GFp6) : String := s!"({s2 a.x},{s2 a.y},{s2 a.z})"
def s12 (a : GFp12) : String := s!"({s6 a.x},{s6 a.y})"
/-- `curvePoint.String` calls MakeAffine first -/
def strG1 (c : CurvePoint) : String := let c := c.makeAffine; s!"bn256.G1({r c.x},{r c.y})"
/-- `twistPoint.String` prints the Jacobian triple -/
def strG2 (c : TwistPoint) : String := s!"bn256.G2({s2 c.x},{s2 c.y},{s2 c.z})"

def handle (line : String) : String :=
  let o := parseOp line
  match o.cmd with
  | "consts" => s!"order={order}"
  | "str1" =>
    match o.nat? "form", o.int? "a" with
    | some form, some a =>
      if form = 0 then "s=" ++ strG1 ⟨0, 0, 0, 0⟩ else
      let P := g1Mul .gen a
      let e := if form = 2 then P.neg else if form = 4 then g1Mul .gen (a * order) else if form = 3 then aff1 P else P
      s!"s={strG1 e} mut=-"
    | _, _ => "bad-op"
  | "str2" =>
    match o.nat? "form", o.int? "a" with
    | some form, some a =>
      if form = 0 then "s=" ++ strG2 ⟨.zero, .zero, .zero, .zero⟩ else
      let P := g2Mul .gen a
      let e := if form = 2 then P.add P else if form = 4 then g2Mul .gen (a * order) else P
      s!"shape=1 s={if e.isInfinity then "inf" else strG2 e.makeAffine} mut=-"
    | _, _ => "bad-op"
  | "strt" =>
    match o.nat? "form", o.hex? "e" with
    | some form, some me =>
      if form = 0 then "s=bn256.GT" ++ s12 ⟨.zero, .zero⟩ else
      match gtUnmarshal me with
      | some e => s!"s=bn256.GT{s12 e} mut=-"
      | none => "reject"
    | _, _ => "bad-op"
  | "rand1" | "rand2" =>
    -- crypto/rand.Int is stdlib: the expected scalar arrives as an oracle field
    match o.get? "oracle.k" with
    | some "err" => "err"
    | some ks =>
      match ks.toInt? with
      | some k => if o.cmd == "rand1" then s!"k={k} p={h1 (g1Mul .gen k)}" else s!"k={k} p={h2 (g2Mul .gen k)}"
      | none => "bad-op"
    | none => "bad-op"
  | "g1u" =>
    match o.hex? "m" with
    | some m => showOpt g1Marshal (g1Unmarshal m)
    | none => "bad-op"
  | "g2u" =>
    match o.hex? "m" with
    | some m => showOpt g2Marshal (g2Unmarshal m)
    | none => "bad-op"
  | "g1" =>
    match o.int? "a", o.int? "b", o.int? "k" with
    | some a, some b, some k =>
      let P := g1Mul .gen a
      let Q := g1Mul .gen b
      let N := P.neg
      let rt := match g1Unmarshal (g1Marshal P), g1Unmarshal (g1Marshal Q) with
        | some P', some Q' => s!"rt={if g1Marshal P' == g1Marshal P then 1 else 0} s2={h1 (P'.add Q')}"
        | _, _ => "rt=0"
      s!"p={h1 P} q={h1 Q} s={h1 (P.add Q)} c={h1 (Q.add P)} n={h1 N} m={h1 (g1Mul P k)} d={h1 (P.add P)} dd={if g1Marshal (P.add P) == g1Marshal (g1Mul P 2) then 1 else 0} z={h1 (P.add N)} {rt} mut=-"
    | _, _, _ => "bad-op"
  | "g2" =>
    match o.int? "a", o.int? "b", o.int? "k" with
    | some a, some b, some k =>
      let P := g2Mul .gen a
      let Q := g2Mul .gen b
      let rt := match g2Unmarshal (g2Marshal P), g2Unmarshal (g2Marshal Q) with
        | some P', some Q' => s!"rt={if g2Marshal P' == g2Marshal P then 1 else 0} s2={h2 (P'.add Q')}"
        | _, _ => "rt=0"
      s!"p={h2 P} q={h2 Q} s={h2 (P.add Q)} c={h2 (Q.add P)} m={h2 (g2Mul P k)} d={h2 (P.add P)} dd={if g2Marshal (P.add P) == g2Marshal (g2Mul P 2) then 1 else 0} {rt} mut=-"
    | _, _, _ => "bad-op"
  | "g1m" =>
    match o.hex? "m", o.int? "k" with
    | some m, some k =>
      match g1Unmarshal m with
      | none => "reject"
      | some P => s!"m={h1 (g1Mul P k)} d={h1 (P.add P)} g={h1 (P.add .gen)} n={h1 (P.add P.neg)} mut=-"
    | _, _ => "bad-op"
  | "g2m" =>
    match o.hex? "m", o.int? "k" with
    | some m, some k =>
      match g2Unmarshal m with
      | none => "reject"
      | some P => s!"m={h2 (g2Mul P k)} d={h2 (P.add P)} g={h2 (P.add .gen)} mut=-"
    | _, _ => "bad-op"
  | "alias1" =>
    match o.int? "a", o.int? "b", o.int? "k" with
    | some a, some b, some k =>
      let P := g1Mul .gen a
      let Q := g1Mul .gen b
      let seq := [h1 (g1Mul P k), h1 (P.add Q), h1 Q.neg, h1 ((aff1 Q.neg).add P), h1 (g1Mul .gen a)]
      s!"s1={h1 (P.add Q)} s2={h1 (P.add Q)} m={h1 (g1Mul P k)} n={h1 P.neg} bm={h1 (g1Mul .gen k)} seq={",".intercalate seq} mut=-"
    | _, _, _ => "bad-op"
  | "dbl1" =>
    match o.int? "a" with
    | some a => let P := g1Mul .gen a; s!"ee={h1 (P.add P)} eq={h1 (P.add P)} pe={h1 (P.add P)}"
    | none => "bad-op"
  | "dbl2" =>
    match o.int? "a" with
    | some a => let P := g2Mul .gen a; s!"ee={h2 (P.add P)} eq={h2 (P.add P)} pe={h2 (P.add P)}"
    | none => "bad-op"
  | "alias2" =>
    match o.int? "a", o.int? "b", o.int? "k" with
    | some a, some b, some k =>
      let P := g2Mul .gen a
      let Q := g2Mul .gen b
      let seq := [h2 (g2Mul P k), h2 (P.add Q), h2 ((aff2 (P.add Q)).add P), h2 (g2Mul .gen a)]
      s!"s1={h2 (P.add Q)} s2={h2 (P.add Q)} m={h2 (g2Mul P k)} bm={h2 (g2Mul .gen k)} seq={",".intercalate seq} mut=-"
    | _, _, _ => "bad-op"
  | "aliast" =>
    match o.hex? "e", o.hex? "f", o.int? "k" with
    | some me, some mf, some k =>
      match gtUnmarshal me, gtUnmarshal mf with
      | some e, some f =>
        let g (x : GFp12) := toHex (gtMarshal x)
        let seq := [g (gtExp e k), g (e.mul f), g f.invert, g (f.invert.minimal.mul e)]
        s!"s1={g (e.mul f)} s2={g (e.mul f)} n={g e.invert} x={g (gtExp e k)} d={g (e.mul e)} seq={",".intercalate seq} mut=-"
      | _, _ => "reject"
    | _, _, _ => "bad-op"
  | "pair" =>
    match o.int? "a", o.int? "b" with
    | some a, some b =>
      -- bilin: the property's prediction for `e(aP, bQ) == e(P, Q)^(ab)` judged on the implementation
      s!"{showPair (pair (g1Mul .gen a) (g2Mul .gen b))} bilin=1 mut=-"
    | _, _ => "bad-op"
  | "pairm" =>
    match o.hex? "g1", o.hex? "g2", o.int? "k1", o.int? "k2" with
    | some m1, some m2, some k1, some k2 =>
      match g1Unmarshal m1, g2Unmarshal m2 with
      | some P, some Q => showPairM (pair (g1Mul P k1) (g2Mul Q k2))
      | _, _ => "reject"
    | _, _, _, _ => "bad-op"
  | "gt" =>
    match o.hex? "e", o.hex? "f", o.int? "k" with
    | some me, some mf, some k =>
      match gtUnmarshal me, gtUnmarshal mf with
      | some e, some f =>
        let g (x : GFp12) := toHex (gtMarshal x)
        s!"add={g (e.mul f)} neg={g e.invert} exp={g (gtExp e k)} rt={g e} z={if (e.mul e.invert).isOne then 1 else 0} mut=-"
      | _, _ => "reject"
    | _, _, _ => "bad-op"
  | _ => "bad-op"

end XC.C52
