import XC.Model.C05
namespace XC.C05

inductive HOp where
  | w (n : Nat)
  | s
  | r
  | z

def parseHOp (s : String) : Option HOp :=
  if s == "s" then some .s
  else if s == "r" then some .r
  else if s == "z" then some .z
  else if s.startsWith "w" then (s.drop 1).toString.toNat?.map .w
  else none

def parseHOps (s : String) : Option (List HOp) :=
  if s == "-" then some [] else (s.splitOn ",").mapM parseHOp

/-- run a history; `none` = the op list asks for more data than there is (malformed op line) -/
def runHist {A : Alg} : Digest A → List HOp → Bytes → List String → Option (List String)
  | _, [], _, acc => some acc.reverse
  | d, .w n :: rest, data, acc =>
    if n > data.length then none else runHist (d.write (data.take n)) rest (data.drop n) acc
  | d, .s :: rest, data, acc => runHist d rest data (toHex d.sum :: acc)
  | d, .r :: rest, data, acc => runHist d.reset rest data acc
  | d, .z :: rest, data, acc => runHist d rest data (s!"z{d.sizeOf}.{d.blockSizeOf}" :: acc)

def showOuts (l : List String) : String := if l.isEmpty then "none" else "|".intercalate l

def histOn (A : Alg) (d0 : Option (Digest A)) (o : Op) : String :=
  match d0 with
  | none => "err"
  | some d =>
    match o.get? "init", parseHOps (o.str "ops"), o.hex? "data" with
    | some ini, some ops, some data =>
      let d1 : Option (Option (Digest A)) :=
        if ini == "-" then some (some d) else
        match ofHex ini with
        | none => none
        | some b => match d.unmarshal b with
          | .ok d' => some (some d')
          | .error _ => some none
      match d1 with
      | none => "bad-op"
      | some none => "uerr"
      | some (some d) =>
        match runHist d ops data [] with
        | none => "bad-op"
        | some outs => showOuts outs
    | _, _, _ => "bad-op"

/-- `hist alg=b|s path=… ctor=new|new512|new384|new256|new128|reg512|reg384|reg256 (reg* = crypto.Hash.New(), unkeyed) size=N key=HEX init=HEX|- ops=w5,s,r,z,… data=HEX` (`z` = Size().BlockSize())
    `sum alg=b|s size=N data=HEX` -/
def handle0 (line : String) : String :=
  let o := parseOp line
  if o.cmd == "hist" then
    match o.get? "alg", o.get? "ctor", o.nat? "size", o.hex? "key" with
    | some "b", some ctor, some size, some key =>
      let size? : Option Nat :=
        if ctor == "new" then some size
        else if ctor == "new512" then some 64
        else if ctor == "new384" then some 48
        else if ctor == "new256" then some 32
        else if ctor == "reg512" then some 64
        else if ctor == "reg384" then some 48
        else if ctor == "reg256" then some 32
        else none
      (match size? with
       | none => "bad-op"
       | some sz => histOn B (newDigest B sz (if ctor.startsWith "reg" then [] else key)) o)
    | some "s", some ctor, some _, some key =>
      if ctor == "new256" then histOn S (newDigest S 32 key) o
      else if ctor == "reg256" then histOn S (newDigest S 32 []) o
      else if ctor == "new128" then histOn S (new128 S key) o
      else "bad-op"
    | _, _, _, _ => "bad-op"
  else if o.cmd == "sum" then
    match o.get? "alg", o.nat? "size", o.hex? "data" with
    | some "b", some size, some data =>
      if size == 64 ∨ size == 48 ∨ size == 32 then toHex (checkSum B size data) else "bad-op"
    | some "s", some 32, some data => toHex (checkSum S 32 data)
    | _, _, _ => "bad-op"
  else if o.cmd == "consts" then
    -- BlockSize, Size, (Size384, Size256 | Size128), OutputLengthUnknown
    match o.get? "alg" with
    | some "b" => s!"{B.bs},{B.maxSize},48,32,0"
    | some "s" => s!"{S.bs},{S.maxSize},16,0"
    | _ => "bad-op"
  else "bad-op"

/-- the harness appends ` mut=…` (caller-memory report of hx.Arena: inputs unmodified, nothing written outside
    the permitted regions, nothing retained); the model is a pure function of contents, so it answers `mut=-` -/
def handle (line : String) : String :=
  let r := handle0 line
  if r == "bad-op" then r else r ++ " mut=-"

end XC.C05
