import XC.Model.C17
namespace XC.C17

def errName : Err → String
  | .short => "short" | .prefix => "prefix" | .version => "version" | .costSyntax => "cost-syntax"
  | .costRange => "cost-range" | .salt => "salt" | .keysize => "keysize" | .mismatch => "mismatch"
  | .tooLong => "toolong"

def showRes {α : Type} (f : α → String) : Res α → String
  | .ok a => f a
  | .err e => "err:" ++ errName e
  | .panic => "panic"

/-- `gen pw=<hex> cost=<int> rnd=<hex 16>` → `ok <hash hex>` | `err:<class>` | `panic`
    `cmp hash=<hex> pw=<hex>` → `cost=<n|err:..|panic> cmp=<ok|err:..|panic>`;  `cost hash=<hex>` → `cost=<…>` -/
def handle1 (o : Op) : String :=
  match o.cmd with
  | "gen" =>
    match o.hex? "pw", o.int? "cost", o.hex? "rnd" with
    | some pw, some c, some rnd =>
      if rnd.length != 16 then "bad-op" else showRes (fun h => "ok " ++ toHex h) (generate pw c rnd) ++ " mutated=none"
    | _, _, _ => "bad-op"
  | "cmp" =>
    match o.hex? "hash", o.hex? "pw" with
    | some h, some pw =>
      -- the harness never sends strings with a cost above 6 to Compare (2^cost rounds)
      if (match cost h with | .ok c => decide (c > 8) | _ => false) then "bad-op-cost-too-large" else
      -- Compare is a function of (hash bytes, password bytes): called twice on the same slice it answers
      -- the same, and no argument buffer changes (`mutated=none` — a harness-side observation)
      let cm := showRes (fun _ => "ok") (compare h pw)
      s!"cost={showRes (fun (c : Int) => toString c) (cost h)} cmp={cm} cmp2={cm} mutated=none"
    | _, _ => "bad-op"
  | "cost" =>
    match o.hex? "hash" with
    | some h =>
      let c := showRes (fun (c : Int) => toString c) (cost h)
      s!"cost={c} cost2={c} mutated=none"
    | none => "bad-op"
  | _ => "bad-op"

/-- with `expect=<ok|err:class>` (corpus of published hashes): ` kat=ok` iff the MODEL's Compare result is the expected one -/
def handle (line : String) : String :=
  let o := parseOp line
  let r := handle1 o
  match o.get? "expect" with
  | none => r
  | some e => if (r.splitOn (" cmp=" ++ e ++ " cmp2=" ++ e ++ " ")).length > 1 then r ++ " kat=ok" else r ++ " kat=MODEL-MISMATCH"

end XC.C17
