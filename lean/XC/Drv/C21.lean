import XC.Model.C21
import XC.Model.C21_File
namespace XC.C21

def runes? (o : Op) (k : String) : Option (List Nat) := o.natList? k

def showRunes (rs : List Nat) : String :=
  if rs.isEmpty then "-" else ",".intercalate (rs.map toString)

def showDec : DecRes → String
  | .ok p => s!"ok {toHex p}"
  | .errEmpty => "err-other"
  | .errBlockSize => "err-other"
  | .errPadding => "err-padding"
  | .panic => "panic"

/-- what Decode / ToPEM must return for a `std` corpus file, from the oracle fields of the op line
    (computed by mkpfx.go from the original PEM files with the standard library only) -/
def expectOpened (o : Op) : String :=
  let fn := o.str "fname"
  let csp := if o.str "csp" == "-" || o.str "csp" == "" then "" else s!":csp={o.str "csp"}"
  match o.str "shape" with
  | "std" =>
    s!"decode=ok key={o.str "key"} cert={o.str "cert"} pem=CERTIFICATE:{o.str "cert"}:{fn}:{o.str "lkid"};PRIVATE-KEY:{o.str "key"}:{fn}:{o.str "lkid"}{csp}"
  | "ed" => s!"decode=ok key={o.str "key"} cert={o.str "cert"} pem=err"   -- Ed25519: Decode returns it, ToPEM has no form for it
  | _ => "no-oracle"

def handle (line : String) : String :=
  let o := parseOp line
  match o.cmd with
  | "nierr" =>
    match o.hex? "s" with
    | some m => toHex ("pkcs12: ".toUTF8.toList ++ m)      -- (NotImplementedError).Error()
    | none => "bad-op"
  | "bmp" =>
    match runes? o "pw" with
    | some rs => match bmpString rs with | some b => s!"ok {toHex b}" | none => "err"
    | none => "bad-op"
  | "unbmp" =>
    match o.hex? "b" with
    | some b => match decodeBMPString b with | some rs => s!"ok {showRunes rs}" | none => "err"
    | none => "bad-op"
  | "fill" =>
    match o.hex? "pat", o.nat? "v" with
    | some p, some v => if v = 0 then "bad-op" else toHex (fillWithRepeats p v)
    | _, _ => "bad-op"
  | "kdf" =>
    match o.hex? "salt", o.hex? "pwb", o.nat? "iter", o.nat? "id", o.nat? "size" with
    | some salt, some pw, some it, some id, some size =>
      if id > 255 then "bad-op" else
      match o.get? "want" with
      | none => toHex (pbkdf salt pw it (UInt8.ofNat id) size)
      | some w =>
        let k := pbkdf salt pw it (UInt8.ofNat id) size
        if ofHex w == some k then toHex k else s!"kat-mismatch {toHex k}"
    | _, _, _, _, _ => "bad-op"
  | "mac" =>
    match o.hex? "salt", o.int? "iter", o.hex? "digest", o.hex? "msg", o.hex? "pwb" with
    | some salt, some it, some dg, some msg, some pw =>
      match verifyMac (o.str "oid" == "sha1") salt it dg msg pw with
      | .ok => "ok" | .incorrectPassword => "err-password" | .notImplemented => "err-other"
    | _, _, _, _, _ => "bad-op"
  | "dec" =>
    -- `plain`: the harness encrypts these bytes under the derived key/IV, so CBC decryption returns them
    match o.hex? "plain", o.hex? "ct" with
    | some p, none => showDec (pbDecryptTail 8 (fun _ => p) p)
    | none, some ct =>
      if ct.length ≠ 0 ∧ ct.length % 8 = 0 then "bad-op"   -- would need the cipher
      else showDec (pbDecryptTail 8 (fun x => x) ct)
    | _, _ => "bad-op"
  | "pfx" =>
    -- the model reads the file itself (Model/C21_File); the oracle fields key/cert/fname/lkid written by
    -- mkpfx.go from the original PEM files must agree with what it recovers (three-way agreement)
    match o.hex? "file", runes? o "try" with
    | some file, some rs =>
      let out := openFile file rs (o.str "shape" == "chain")
      let sh := o.str "shape"
      if sh != "free" && out.startsWith "decode=ok" && ((sh != "std" && sh != "ed") || out != expectOpened o) then s!"oracle-mismatch {out}"
      else out
    | _, _ => "bad-op"
  | "mut" =>
    -- the reader decides accept / reject itself: the MAC is recomputed over whatever the corrupted file
    -- presents as authSafe content, salt, iteration count and digest
    match o.hex? "file", runes? o "try" with
    | some file, some rs => mutClass file rs (o.str "key") (o.str "cert")
    | _, _ => "bad-op"
  | _ => "bad-op"

end XC.C21
