import XC.Model.C39
import XC.Drv.C41
namespace XC.C39
open XC XC.C38 XC.C41

def optHex? (o : Op) (k : String) : Option (Option Bytes) :=
  match o.get? k with
  | none => some none
  | some "none" => some none
  | some _ => (o.hex? k).map some

def secHex : PrivKey → String
  | .rsa _ _ d _ p q => toHex (putMpint d ++ putMpint p ++ putMpint q)
  | .ed25519 priv => toHex priv
  | .ecdsa _ _ d => toHex (putMpint d)

def kindStr : PrivKey → String
  | .rsa .. => "rsa"
  | .ed25519 _ => "ed25519"
  | .ecdsa bits _ _ => s!"ecdsa{bits}"

def showRes : Res → String
  | .err => "err"
  | .needPass m => s!"needpass pub={toHex m}"
  | .badPass => "badpass"
  | .oracleMiss => "oracle-miss"
  | .kdfMismatch => "kdf-mismatch"
  | .ok k _ => s!"ok kind={kindStr k} pub={toHex k.pub.marshal} sec={secHex k} sv=1"

/-- `parse mode=plain|pass blob= dec=<hex|err|none> rsavalid=<0|1|none> edpub=<hex|none> ecpub=<hex|none> pts=` -/
def handleParse (o : Op) : String :=
  match o.hex? "blob", ptsOracle? o, optHex? o "edpub", optHex? o "ecpub" with
  | some blob, some po, some edpub, some ecpub =>
    let dec : Option (Option (Bytes × Bytes)) :=
      match o.get? "dec", o.get? "kdfkey" with
      | some "none", _ => some none
      | none, _ => some none
      | some _, some _ => (match o.hex? "kdfkey", o.hex? "dec" with
        | some k, some d => some (some (k, d))
        | _, _ => none)
      | _, _ => none
    let rv : Option (Option Bool) :=
      match o.get? "rsavalid" with
      | some "1" => some (some true)
      | some "0" => some (some false)
      | some "none" => some none
      | none => some none
      | _ => none
    match dec, rv with
    | some dec, some rv =>
      let orc : Oracles := ⟨po, dec, rv, edpub, ecpub⟩
      let r := match o.str "mode" with
        | "plain" => some (parsePlain orc blob)
        | "pass" => (o.hex? "pass").map (fun pw => parseWithPass orc pw blob)
        | _ => none
      match r with
      | none => "bad-op"
      | some r => showRes r
    | _, _ => "bad-op"
  | _, _, _, _ => "bad-op"

/-- `marshal kind=… fields…  comment= check=`: the unencrypted private block and container the model
    expects, rendered field by field like the harness's walker renders the real output -/
def handleMarshal (o : Op) : String :=
  match o.hex? "comment", o.nat? "bs" with
  | some comment, some bs =>
    let k : Option PrivKey :=
      match o.str "kind" with
      | "ed25519" => (o.hex? "priv").map .ed25519
      | "ecdsa" => do
        let bits ← o.nat? "bits"
        let pt ← o.hex? "pt"
        let d ← o.hex? "d"
        pure (.ecdsa bits pt (mpintVal d))
      | "rsa" => do
        let n ← o.hex? "n"; let e ← o.hex? "e"; let d ← o.hex? "d"; let i ← o.hex? "iqmp"; let p ← o.hex? "p"; let q ← o.hex? "q"
        pure (.rsa (mpintVal n) (mpintVal e) (mpintVal d) (mpintVal i) (mpintVal p) (mpintVal q))
      | _ => none
    match k with
    | none => "bad-op"
    | some k =>
      -- check bytes are random in the real code: rendered as 0 on both sides
      let blk := privBlockOf k comment 0 bs
      s!"ok nkeys=1 pub={toHex k.pub.marshal} checkeq=1 blk={toHex (blk.drop 8)} kg={if o.nat? "kgrun" = some 1 then "1" else "-"}"
  | _, _ => "bad-op"

def showPem (signer : Bool) : PemRes → String
  | .err => "err"
  | .needPass => "needpass pub=nil"
  | .badPass => "badpass"
  | .ok k p =>
    if signer then s!"ok kind={txt k} pub={toHex p} sv=1" else s!"ok kind={txt k} pub={toHex p}"

/-- `pem api=raw|signer mode=plain|pass noblock= ptype= proctype= isenc= decrypt= der=<ok:kind:pub|structural|err>
     dsarest= dsaparams=<p:q:g|->` -/
def handlePem (o : Op) : String :=
  match o.nat? "noblock", o.hex? "ptype", o.hex? "proctype", o.nat? "isenc", o.nat? "decrypt", o.nat? "dsarest" with
  | some nb, some pt, some proc, some ie, some dec, some dr =>
    let der : Option DerRes :=
      match (o.str "der").splitOn ":" with
      | ["ok", k, p] => do
        let kb ← ofHex k
        let pb ← ofHex p
        pure (.ok kb pb)
      | ["structural"] => some .structural
      | ["err"] => some .err
      | _ => none
    let dsaOk : Option Bool :=
      match o.get? "dsaparams" with
      | some "-" => some true
      | some s => (match s.splitOn ":" with
        | [p, q, g] => do
          let p ← ofHex p; let q ← ofHex q; let g ← ofHex g
          pure (checkDSAParams (mpintVal p) (mpintVal q) (mpintVal g))
        | _ => none)
      | none => some true
    match der, dsaOk with
    | some der, some dsaOk =>
      let iv (k : String) : Int := match o.hex? k with | some b => mpintVal b | none => 0
      let pq : Int × Int × Int := match (o.str "dsaparams").splitOn ":" with
        | [p, q, g] => (match ofHex p, ofHex q, ofHex g with
          | some p, some q, some g => (mpintVal p, mpintVal q, mpintVal g)
          | _, _, _ => (0, 0, 0))
        | _ => (0, 0, 0)
      let i : PemIn := ⟨nb = 1, pt, proc, ie = 1, dec, der, dr = 1, pq.1, pq.2.1, iv "dsax", iv "dsay", iv "dsaexp",
        pq.2.2, o.str "dsaqprime" == "1", iv "dsagq"⟩
      let raw := match o.str "mode" with
        | "plain" => some (pemRawPlain i)
        | "pass" => some (pemRawPass i)
        | _ => none
      match raw, o.str "api" with
      | some r, "raw" => showPem false r
      | some r, "signer" => showPem true (signerOf r dsaOk)
      | _, _ => "bad-op"
    | _, _ => "bad-op"
  | _, _, _, _, _, _ => "bad-op"

def handle (line : String) : String :=
  let o := parseOp line
  match o.cmd with
  | "parse" => handleParse o
  | "marshal" => handleMarshal o
  | "pem" => handlePem o
  | _ => "bad-op"

end XC.C39
