import XC.Model.C10
namespace XC.C10

def dhOf (o : Op) (k : String) : Option (Option Bytes) :=
  match o.get? k with
  | some "err" => some none
  | some h => (ofHex h).map some
  | none => none

def showOpen : OpenRes → String
  | .ok r => s!"ok {toHex r}"
  | .fail => "fail"
  | .panic => "panic"

def showSeal : Option Bytes → String
  | some r => toHex r
  | none => "panic"

def handleOp (o : Op) : String :=
  let out := (o.hex? "out").getD []
  match o.cmd with
  | "sbseal" =>
    match o.hex? "key", o.hex? "nonce", o.hex? "msg" with
    | some key, some nonce, some msg =>
      if key.length != 32 || nonce.length != 24 then "bad-op" else
      match sealGo out msg nonce key with
      | none => "panic"
      | some r => if r == out ++ secretboxSpec key nonce msg then toHex r else "model-spec-mismatch"
    | _, _, _ => "bad-op"
  | "sbopen" =>
    match o.hex? "key", o.hex? "nonce", o.hex? "box" with
    | some key, some nonce, some box =>
      if key.length != 32 || nonce.length != 24 then "bad-op" else showOpen (openGo out box nonce key)
    | _, _, _ => "bad-op"
  | "precomp" =>   -- Precompute from both sides: A = (apriv, bpub), B = (bpriv, apub)
    match dhOf o "oracle.dh1", dhOf o "oracle.dh2" with
    | some d1, some d2 => s!"{toHex (precompute d1)} {toHex (precompute d2)}"
    | _, _ => "bad-op"
  | "precompa" =>   -- Precompute with sharedKey aliasing one of its inputs: a function of the contents at call time
    match dhOf o "oracle.dh" with
    | some d => toHex (precompute d)
    | none => "bad-op"
  | "bxseal" =>
    match o.hex? "nonce", o.hex? "msg", dhOf o "oracle.dh" with
    | some nonce, some msg, some dh =>
      if nonce.length != 24 then "bad-op" else showSeal (boxSeal out msg nonce dh)
    | _, _, _ => "bad-op"
  | "bxopen" =>
    match o.hex? "nonce", o.hex? "box", dhOf o "oracle.dh" with
    | some nonce, some box, some dh =>
      if nonce.length != 24 then "bad-op" else showOpen (boxOpen out box nonce dh)
    | _, _, _ => "bad-op"
  | "anseal" =>
    match o.hex? "recipient", o.hex? "msg", o.hex? "oracle.epk", dhOf o "oracle.dh", o.hex? "esk" with
    | some rc, some msg, some epk, some dh, some esk =>
      if rc.length != 32 || epk.length != 32 then "bad-op" else
      match sealAnonRand out msg rc esk epk dh with
      | none => "err"
      | some r => showSeal r
    | _, _, _, _, _ => "bad-op"
  | "anrt" => "roundtrip-ok"   -- SealAnonymous with rand = nil (crypto/rand) then OpenAnonymous: `openAnon_sealAnon`
  | "bxgen" =>
    match o.hex? "seed", o.hex? "oracle.pub" with
    | some seed, some pub =>
      match boxGenerateKey seed pub with
      | none => "err"
      | some (pk, sk) => s!"{toHex pk} {toHex sk}"
    | _, _ => "bad-op"
  | "sgen" =>
    match o.hex? "seed", o.hex? "oracle.pub" with
    | some seed, some pub =>
      match signGenerateKey seed pub with
      | none => "err"
      | some (pk, sk) => s!"{toHex pk} {toHex sk}"
    | _, _ => "bad-op"
  | "api" => s!"box.Overhead={boxOverhead} box.AnonymousOverhead={anonymousOverhead} secretbox.Overhead={boxOverhead} sign.Overhead={signOverhead} auth.Size={authSize} auth.KeySize={authKeySize}"
  | "anopen" =>
    match o.hex? "pub", o.hex? "box", dhOf o "oracle.dh" with
    | some pk, some box, some dh =>
      if pk.length != 32 then "bad-op" else showOpen (openAnon out box pk dh)
    | _, _, _ => "bad-op"
  | "sign" =>
    match o.hex? "msg", o.hex? "oracle.sig" with
    | some msg, some sig => if sig.length != 64 then "bad-op" else toHex (signGo out msg sig)
    | _, _ => "bad-op"
  | "sopen" =>
    match o.hex? "signed", o.nat? "oracle.valid" with
    | some sm, some v =>
      match signOpen out sm (v == 1) with
      | some r => s!"ok {toHex r}"
      | none => "fail"
    | _, _ => "bad-op"
  | "auth" =>
    match o.hex? "key", o.hex? "msg" with
    | some key, some msg => if key.length != 32 then "bad-op" else toHex (authSum msg key)
    | _, _ => "bad-op"
  | "authv" =>
    match o.hex? "key", o.hex? "msg", o.hex? "digest" with
    | some key, some msg, some d => if key.length != 32 then "bad-op" else (if authVerify d msg key then "v1" else "v0")
    | _, _, _ => "bad-op"
  | _ => "bad-op"

/-- an optional `expect=<published output, spaces written as _>` field turns an op into a known-answer test -/
def handle1 (line : String) : String :=
  let o := parseOp line
  let r := handleOp o
  match o.get? "expect" with
  | none => r
  | some e => if r.replace " " "_" == e then r else s!"kat-mismatch {r}"

/-- `sess ops=<op1>|<op2>|…` (sub-op fields separated by `;`): a session of calls that share arrays and buffers in
    the harness. The model is a pure function of contents: each sub-op is answered on its own. -/
def handle (line : String) : String :=
  let o := parseOp line
  if o.cmd == "sess" then
    match o.get? "ops" with
    | some v => " ## ".intercalate ((v.splitOn "|").map (fun s => handle1 (s.replace ";" " ")))
    | none => "bad-op"
  else handle1 line

end XC.C10
