/-
  C37 driver (accept mode): input `op<TAB>trace`, output `ok` iff the trace the real client produced is a
  run of the LTS `XC.C37.next` (explored over ALL interleavings, step by step, run to quiescence after
  every scheduled action) and satisfies the property predicates.

  op    : fwd cls=<flags> addrs=<a0,a1,…> sched=<tok,tok,…>
          addr  t~host~port | t~host~0~assigned | u~path
          tok   l<k>[!] lt<k>[!] lu<k>[!]   Listen / ListenTCP / ListenUnix on address k ('!': peer denies)
                lf<k> ls<k> lx<k>            Listen with network "tcp4" / "tcp6" / "udp" (unsupported: error, no request)
                d<k>[!] dt<k>[!] dc<k> dx<k> Dial / DialTCP (peer confirms, '!': rejects with ConnectionFailed) / DialContext with a
                                             cancelled context / Dial("udp"): events O<s>=t~host~port|u~path (the direct-tcpip /
                                             direct-streamlocal open on the wire) and D<s>=ok|fail:<reason>|err
                q<f>                         the peer sends a channel request (want-reply) on the accepted forward f: the connection
                                             returned by Accept answers it with failure (DiscardRequests): Q<s>=fail
                f<k> fp<k> fa<k> fm<k> fx<k> peer opens a forwarded channel for address k
                                             (p: origin port 0, h: origin port 65535 (valid), q: origin port 65536, a: origin address unparsable,
                                             m: truncated payload, x: unknown channel type)
                a<s> c<s>[!]                 Accept / Close on the listener created at step s ('!': peer refuses the cancel request)
                x                            peer drops the connection
          cls   h = some Close/Listen call cannot return in its own step in some interleaving (finding F3)
                b = an Accept started after Close returned may still return a connection
                d = two live listeners share an address
  trace : one segment per step, `|`-separated; a segment is `-` or a comma list of
          L<s>=ok|den|err|hang  A<s>=c<f>|late-c<f>|err|wait  C<s>=ok|err|hang  F<f>=c|r<reason>
          (<s> = step index of the call, <f> = step index of the forward)
-/
import XC.Model.C37
namespace XC.C37

structure Tok where
  kind : String      -- "l" "f" "a" "c" "x"
  arg : Nat
  flag : String      -- listen: "" | "!"; fwd: "" "p" "a" "m" "x"; close: "" | "!"

def digitsNat? (cs : List Char) : Option Nat :=
  if cs.isEmpty then none else (String.ofList cs).toNat?

def parseTok (t : String) : Option Tok :=
  let cs := t.toList
  let (cs, bang) := match cs.reverse with
    | '!' :: r => (r.reverse, true)
    | _ => (cs, false)
  match cs with
  | ['x'] => if bang then none else some ⟨"x", 0, ""⟩
  | 'l' :: 'x' :: r => if bang then none else (digitsNat? r).map (⟨"lx", ·, ""⟩)      -- Listen("udp", …): unsupported protocol
  | 'l' :: 'f' :: r => (digitsNat? r).map (⟨"l", ·, if bang then "!" else ""⟩)       -- Listen("tcp4", …)
  | 'l' :: 's' :: r => (digitsNat? r).map (⟨"l", ·, if bang then "!" else ""⟩)       -- Listen("tcp6", …)
  | 'd' :: 'x' :: r => if bang then none else (digitsNat? r).map (⟨"d", ·, "x"⟩)      -- Dial("udp", …)
  | 'd' :: 'c' :: r => if bang then none else (digitsNat? r).map (⟨"d", ·, "c"⟩)      -- DialContext with a cancelled context
  | 'd' :: 't' :: r => (digitsNat? r).map (⟨"d", ·, if bang then "t!" else "t"⟩)      -- DialTCP
  | 'd' :: r => (digitsNat? r).map (⟨"d", ·, if bang then "!" else ""⟩)               -- Dial / DialContext (live context)
  | 'q' :: r => if bang then none else (digitsNat? r).map (⟨"q", ·, ""⟩)              -- peer: channel request (want reply) on accepted forward
  | 'l' :: 't' :: r => (digitsNat? r).map (⟨"l", ·, if bang then "!" else ""⟩)
  | 'l' :: 'u' :: r => (digitsNat? r).map (⟨"l", ·, if bang then "!" else ""⟩)
  | 'l' :: r => (digitsNat? r).map (⟨"l", ·, if bang then "!" else ""⟩)
  | 'f' :: 'h' :: r => if bang then none else (digitsNat? r).map (⟨"f", ·, "h"⟩)      -- originator port 65535: valid
  | 'f' :: 'q' :: r => if bang then none else (digitsNat? r).map (⟨"f", ·, "q"⟩)      -- originator port 65536: out of range
  | 'f' :: 'p' :: r => if bang then none else (digitsNat? r).map (⟨"f", ·, "p"⟩)
  | 'f' :: 'a' :: r => if bang then none else (digitsNat? r).map (⟨"f", ·, "a"⟩)
  | 'f' :: 'm' :: r => if bang then none else (digitsNat? r).map (⟨"f", ·, "m"⟩)
  | 'f' :: 'x' :: r => if bang then none else (digitsNat? r).map (⟨"f", ·, "x"⟩)
  | 'f' :: r => if bang then none else (digitsNat? r).map (⟨"f", ·, ""⟩)
  | 'a' :: r => if bang then none else (digitsNat? r).map (⟨"a", ·, ""⟩)
  | 'c' :: r => (digitsNat? r).map (⟨"c", ·, if bang then "!" else ""⟩)
  | _ => none

def parseAddr (a : String) : Option Key :=
  match a.splitOn "~" with
  | ["t", host, port] => port.toNat?.map (⟨.tcp, host, ·⟩)
  | ["t", host, "0", p] => p.toNat?.map (⟨.tcp, host, ·⟩)
  | ["u", path] => some ⟨.unix, path, 0⟩
  | _ => none

def sortStrs (xs : List String) : List String := (xs.toArray.qsort (· < ·)).toList

/-- one explored interleaving: model state (log cleared at every step boundary) + trace bookkeeping -/
structure Branch where
  st : State
  closedRet : List Nat     -- listeners whose Close has returned
  late : List Nat          -- accept calls issued after their listener's Close had returned
  dup : Bool               -- two live entries shared a key at some point
  conf : List Nat := []    -- forwards whose channel the application has accepted (confirmation on the wire)
deriving DecidableEq

def dedupB (bs : List Branch) : List Branch :=
  bs.foldl (fun acc b => if acc.contains b then acc else acc ++ [b]) []

def hasDupKeys : List (Key × Nat) → Bool
  | [] => false
  | (k, _) :: rest => rest.any (·.1 = k) || hasDupKeys rest

/-- all quiescent states reachable from `s` by internal actions (every maximal run), with fuel -/
def explore : Nat → List State → List State → List State → Option (List State)
  | 0, _, _, _ => none
  | _, [], _, done => some done
  | fuel+1, s :: todo, seen, done =>
    if seen.contains s then explore fuel todo seen done else
    let succ := internalSucc s
    if succ.isEmpty then explore fuel todo (s :: seen) (done ++ [s])
    else explore fuel (succ ++ todo) (s :: seen) done

def evStr (late : List Nat) : Ev → String
  | .listen c 0 => s!"L{c}=ok"
  | .listen c 1 => s!"L{c}=den"
  | .listen c _ => s!"L{c}=err"
  | .accept c _ (some f) => if late.contains c then s!"A{c}=late-c{f.id}" else s!"A{c}=c{f.id}"
  | .accept c _ none => s!"A{c}=err"
  | .close c _ true => s!"C{c}=ok"
  | .close c _ false => s!"C{c}=err"
  | .confirm f => s!"F{f}=c"
  | .reject f r => s!"F{f}=r{r}"
  | .panic => "panic"

/-- events a branch shows for the step that issued `tok` at index `i` (sorted) -/
def branchEvents (b : Branch) (i : Nat) (tok : Tok) : List String :=
  let evs := b.st.log.map (evStr b.late)
  let pend :=
    if tok.kind == "l" && b.st.adders.any (·.1 = i) then [s!"L{i}=hang"]
    else if tok.kind == "a" && b.st.acceptors.any (·.1 = i) then [s!"A{i}=wait"]
    else if tok.kind == "c" && b.st.closers.any (·.1 = i) then [s!"C{i}=hang"]
    else []
  sortStrs (evs ++ pend)

def actOf (keys : List Key) (i : Nat) (t : Tok) : Option Act :=
  match t.kind with
  | "l" => (keys[t.arg]?).map (fun k => Act.listenCall i k (t.flag == "!"))
  | "f" => (keys[t.arg]?).map (fun k =>
      Act.fwdSend ⟨i, k, t.flag == "" || t.flag == "x" || (t.flag == "h" || (t.flag == "q" && k.net == .unix)), t.flag != "x"⟩)
  | "a" => some (.acceptCall i t.arg)
  | "c" => some (.closeCall i t.arg (t.flag != "!"))
  | "x" => some .disconnect
  | _ => none

/-- advance one branch over one scheduled action: all quiescent outcomes -/
def stepBranch (b : Branch) (i : Nat) (t : Tok) (a : Act) : Option (List Branch) :=
  match next { b.st with log := [] } a with
  | none => none
  | some s1 =>
    let late := if t.kind == "a" && b.closedRet.contains t.arg then i :: b.late else b.late
    match explore 20000 [s1] [] [] with
    | none => none
    | some qs => some (qs.map (fun q =>
        let closed := q.log.filterMap (fun e => match e with | .close _ lid _ => some lid | _ => none)
        let confd := q.log.filterMap (fun e => match e with | .confirm f => some f | _ => none)
        { st := q, closedRet := b.closedRet ++ closed, late := late,
          dup := b.dup || hasDupKeys q.entries, conf := b.conf ++ confd }))

structure Verdict where
  mayHang : Bool := false
  mayLate : Bool := false
  mayDup : Bool := false
  bound : Bool := true        -- handler queues stay within the 16-slot Go channels (model abstraction valid)

def isLateConn (b : Branch) : Bool :=
  b.st.log.any (fun e => match e with | .accept c _ (some _) => b.late.contains c | _ => false)

def isHangTok (b : Branch) (i : Nat) (t : Tok) : Bool :=
  (t.kind == "l" && b.st.adders.any (·.1 = i)) || (t.kind == "c" && b.st.closers.any (·.1 = i))

/-- main loop over the schedule: `all` = every interleaving (class analysis), `ok` = those matching the trace -/
def walk (keys : List Key) : Nat → List Tok → List (List String) → List Branch → List Branch → Verdict →
    Except String (Verdict × Bool)
  | _, [], _, _, ok, v => .ok (v, !ok.isEmpty)
  | i, t :: ts, obs, all, ok, v =>
    -- calls that do not touch the forward list: their result is a function of the connection being up
    if t.kind == "lx" || t.kind == "d" || t.kind == "q" then
      let alive := (ok.head?.map (·.st.alive)).getD true
      let want? : Option (List String) :=
        if t.kind == "lx" then some [s!"L{i}=err"]
        else if t.kind == "q" then
          if alive && ok.all (·.conf.contains t.arg) && !ok.isEmpty then some [s!"Q{i}=fail"] else none
        else match keys[t.arg]? with
          | none => none
          | some k =>
            let deny := t.flag == "!" || t.flag == "t!"
            let tgt := match k.net with
              | .tcp => s!"O{i}=t~{k.host}~{k.port}"
              | .unix => s!"O{i}=u~{k.host}"
            if t.flag == "x" || t.flag == "c" then some [s!"D{i}=err"]
            else if k.net == .tcp && k.port > 65535 && !(t.flag == "t" || t.flag == "t!") then some [s!"D{i}=err"]
            else if !alive then some [s!"D{i}=err"]
            else some [tgt, if deny then s!"D{i}=fail:2" else s!"D{i}=ok"]
      match want? with
      | none => .error "bad-op:call"
      | some want =>
        if sortStrs (obs.headD []) != sortStrs want then
          .error s!"reject:call step={i} want={",".intercalate want}"
        else walk keys (i+1) ts obs.tail all ok v
    else
    match actOf keys i t with
    | none => .error "bad-op"
    | some a =>
      let adv (bs : List Branch) : Option (List Branch) :=
        bs.foldl (fun acc b => match acc, stepBranch b i t a with
          | some l, some r => some (l ++ r)
          | _, _ => none) (some [])
      match adv all with
      | none => .error "bad-op:disabled"
      | some all' =>
        let all' := dedupB all'
        let v := { v with
          mayHang := v.mayHang || all'.any (isHangTok · i t),
          mayLate := v.mayLate || all'.any isLateConn,
          mayDup := v.mayDup || all'.any (·.dup),
          bound := v.bound && all'.all (fun b => b.st.htcp.queue.length ≤ 16 && b.st.hunix.queue.length ≤ 16) }
        let o := sortStrs (obs.headD [])
        let ok' := match adv ok with
          | none => []
          | some l => (dedupB l).filter (fun b => branchEvents b i t == o)
        if ok'.isEmpty && !ok.isEmpty then
          let want := match (adv ok).bind (·.head?) with
            | some b => ",".intercalate (branchEvents b i t)
            | none => "?"
          .error s!"reject:lts step={i} model-allows-e.g.={if want.isEmpty then "-" else want}"
        else
          walk keys (i+1) ts obs.tail all' ok' v

def parseObs (tr : String) : List (List String) :=
  (tr.splitOn "|").map (fun seg => if seg == "-" || seg == "" then [] else seg.splitOn ",")

def hasSub (s sub : String) : Bool := (s.splitOn sub).length > 1

def handle (line : String) : String :=
  match line.splitOn "\t" with
  | [opS, tr] =>
    let o := parseOp opS
    if o.cmd != "fwd" then "bad-op" else
    match o.get? "cls", o.get? "addrs", o.get? "sched" with
    | some cls, some addrs, some sched =>
      match (addrs.splitOn ",").mapM parseAddr, (sched.splitOn ",").mapM parseTok with
      | some keys, some toks =>
        if tr == "hang" || tr == "panic" || tr == "crash" then s!"reject:{tr}" else
        let obs := parseObs tr
        if obs.length != toks.length then "reject:trace-length" else
        let b0 : Branch := ⟨init, [], [], false, []⟩
        match walk keys 0 toks obs [b0] [b0] {} with
        | .error e => e
        | .ok (v, _) =>
          if !v.bound then "bad-op:queue-bound"
          else if v.mayHang != hasSub cls "h" then "bad-op:class-h"
          else if v.mayLate && !hasSub cls "b" then "bad-op:class-b"
          else if v.mayDup != hasSub cls "d" then "bad-op:class-d"
          else if obs.any (·.any (fun e => e == "panic")) then "violation:panic"
          else if obs.any (·.any (fun e => e.startsWith "C" && hasSub e "=hang")) then
            "violation:close_returns (the trace is a run of the model of the code as written: Listener.Close blocked on the forwardList mutex held by handleChannels' channel send)"
          else if !v.mayDup && obs.any (·.any (fun e => hasSub e "=late-c")) then
            "violation:accept_after_close (Accept started after Close returned delivered the forward still buffered in the closed Go channel)"
          else "ok"
      | _, _ => "bad-op"
    | _, _, _ => "bad-op"
  | _ => "bad-op"

end XC.C37
