import XC.Model.C03
namespace XC.C03

/-- parse `x:70,s:5,x:64` against the concatenated `src` bytes -/
def parseOps : List String → Bytes → Option (List Op)
  | [], rest => if rest.isEmpty then some [] else none
  | t :: ts, src =>
    match t.splitOn ":" with
    | ["i", n] => do   -- XORKeyStream in place (dst = src): same function of contents
      let n ← n.toNat?
      if src.length < n then none else
      let r ← parseOps ts (src.drop n)
      pure (Op.xor (src.take n) :: r)
    | ["x", n] => do
      let n ← n.toNat?
      if src.length < n then none else
      let r ← parseOps ts (src.drop n)
      pure (Op.xor (src.take n) :: r)
    | ["s", c] => do
      let c ← c.toNat?
      if c ≥ 2 ^ 32 then none else
      let r ← parseOps ts src
      pure (Op.setCounter (UInt32.ofNat c) :: r)
    | _ => none

/-- tokens of a `cont=1` history: x / i (in place) / s / o (inexact overlap) / t (dst one byte short) -/
def parseOpsX : List String → Bytes → Option (List OpX)
  | [], rest => if rest.isEmpty then some [] else none
  | t :: ts, src =>
    match t.splitOn ":" with
    | ["s", c] => do
      let c ← c.toNat?
      if c ≥ 2 ^ 32 then none else
      let r ← parseOpsX ts src
      pure (OpX.setCounter (UInt32.ofNat c) :: r)
    | [k, n] => do
      let n ← n.toNat?
      if src.length < n then none else
      let r ← parseOpsX ts (src.drop n)
      if k == "x" || k == "i" then pure (OpX.xor (src.take n) :: r)
      else if k == "o" then pure (OpX.xorOverlap (src.take n) :: r)
      else if k == "t" then pure (OpX.xorShort (src.take n) :: r)
      else none
    | _ => none

def showCont (ops : List OpX) (outs : List (Option Bytes)) : String :=
  let parts := (ops.zip outs).map fun (op, b) =>
    match b, op with
    | none, _ => "panic"
    | some _, .setCounter _ => "ok"
    | some b, _ => toHex b
  "|".intercalate ("ok" :: parts)

def showRun (ops : List Op) (r : List Bytes × Option Panic) : String :=
  let outs := (ops.zip r.1).map fun (op, b) =>
    match op with
    | .xor _ => toHex b
    | .setCounter _ => "ok"
  let tail := match r.2 with
    | none => []
    | some .internal => ["panic:internal"]
    | some _ => ["panic"]
  "|".intercalate ("ok" :: outs ++ tail)

/-- `hist [m=4] key=<hex> nonce=<hex> ops=x:70,s:5,x:64 src=<hex>`  → `ok|<hex>|ok|<hex> mut=-` / `…|panic mut=-` / `err mut=-`  (`i:n` = in-place call;
    `mut=` reports writes to caller memory outside dst[:len(src)]: the model is a function of contents, so `-`)
    `hchacha key=<hex> nonce=<hex>`                           → `<hex>` / `err` -/
def handle (line : String) : String :=
  let o := parseOp line
  if o.cmd == "hist" then
    match o.hex? "key", o.hex? "nonce", o.get? "ops", o.hex? "src" with
    | some key, some nonce, some opsS, some src =>
      let toks := if opsS == "-" then [] else opsS.splitOn ","
      -- `zero=1`: the zero-value `chacha20.Cipher{}` (all-zero key and nonce words) instead of the constructor
      let mk : Nat → Option Cipher := fun m =>
        if o.get? "zero" == some "1" then some (mkCipher m ⟨0,0,0,0,0,0,0,0⟩ ⟨0,0,0⟩) else newCipher m key nonce
      if o.get? "cont" == some "1" then
        -- the history continues after recovered panics (bufSize = 64 model only)
        match parseOpsX toks src with
        | none => "bad-op"
        | some ops =>
          match mk 1 with
          | none => "err mut=-"
          | some c => showCont ops (runCont 1 c ops) ++ " mut=-"
      else
      match parseOps toks src with
      | none => "bad-op"
      | some ops =>
        -- `m=<blocksPerBuf>` (default 1 = amd64/purego): the model of the bufSize = 64·m ports; by theorem
        -- `buffer_size_irrelevant` every m gives the same observable, so m = 4 lines are compared with the
        -- (m = 1) real code too
        let m := (o.nat? "m").getD 1
        if m = 0 || m > 8 then "bad-op" else
        match mk m with
        | none => "err mut=-"
        | some c => showRun ops (run m c ops) ++ " mut=-"
    | _, _, _, _ => "bad-op"
  else if o.cmd == "hchacha" then
    match o.hex? "key", o.hex? "nonce" with
    | some key, some nonce =>
      match hChaCha20Go key nonce with
      | none => "err mut=-"
      | some b => toHex b ++ " mut=-"
    | _, _ => "bad-op"
  else if o.cmd == "consts" then "32 12 24"   -- KeySize NonceSize NonceSizeX
  else "bad-op"

end XC.C03
