import XC.Model.C25_Inst
import XC.Model.C25_KeyMat
namespace XC.C25

def totalLen (ps : List Bytes) : Nat := ps.foldl (fun a p => a + p.length + 64) 64

/-- `w c=<cipher> m=<mac|-> key= iv= mkey= seq=<n> p=<hex>,<hex>,… rnd=<hex>`:
    write the payloads through a writer connection, then read the produced stream back through a
    reader connection keyed alike.  Observable: wire bytes of every packet, both final sequence numbers,
    every read result with the number of bytes it consumed. -/
def handleW (o : Op) : String :=
  match hexArg o "key", hexArg o "iv", hexArg o "mkey", o.nat? "seq", hexListArg o "p", hexArg o "rnd" with
  | some key, some iv, some mkey, some seq, some ps, some rnd =>
    if seq ≥ 4294967296 then "bad-op" else
    match mkMode (o.str "c") (o.str "m") key iv mkey (totalLen ps) with
    | none => "bad-op"
    | some (mode, st0) =>
      let c0 : Conn := ⟨st0, UInt32.ofNat seq⟩
      let (ws, cw) := writeAll mode c0 rnd ps
      let wires : List Bytes := ws.filterMap fun w => match w with | Except.ok b => some b | Except.error _ => none
      let stream := wires.flatten
      -- caller-memory contract (FRAMEWORK.md): what the writers do to the caller's buffers.
      -- p: streamPacketCipher XORs the caller's payload in place (`e` = it now holds its ciphertext, bytes 5.. of the
      --    packet), the GCM / CBC / chacha20 writers copy it first (`s` = unchanged; also `s` when the ciphertext
      --    happens to equal the payload, e.g. the `none` cipher)
      -- wiv: gcmCipher keeps the caller's IV slice and increments it in place; every other mode leaves it alone
      -- mut / ralias: nothing else is written, readPacket results are private copies
      let isStream := match mode with | .stream _ => true | _ => false
      let isGcm := match mode with | .gcm _ => true | _ => false
      let pst := String.join ((ps.zip wires).map fun pw =>
        if isStream && (pw.2.drop 5).take pw.1.length != pw.1 then "e" else "s")
      let pst := if pst.isEmpty then "-" else pst
      let wiv := toHex (if isGcm then cw.st.iv else iv)
      let mem := s!";p={pst};wiv={wiv};mut=-/-;ralias=-"
      if o.get? "edge" == some "maxpkt" then
        -- op class `edge=maxpkt` (payloads of maxPacket-8 … maxPacket bytes): here the driver answers what the
        -- PROPERTY STATEMENT says — "a reader keyed like the writer returns exactly the written payloads" for
        -- payloads of 1..maxPacket bytes — not what the model of the code computes (the model, like the code,
        -- rejects: Props/C25 `maxPacket_payload_rejected`).  The implementation's `r=err:len` is a recorded
        -- finding (known_findings.txt, key maxpacket-payload-not-readable).
        let oks : List (Except RErr Bytes × Nat) :=
          (ps.zip wires).map fun pw => (Except.ok pw.1, pw.2.length)
        let rs := oks ++ [(Except.error RErr.eof, 0)]
        s!"w={showWrites ws};seq={cw.seq.toNat};r={showRead mode.isCbc rs};rseq={(c0.seq + UInt32.ofNat rs.length).toNat}{mem}"
      else
      let (rs, cr) := readAll mode (wires.length + 1) c0 stream
      s!"w={showWrites ws};seq={cw.seq.toNat};r={showRead mode.isCbc rs};rseq={cr.seq.toNat}{mem}"
  | _, _, _, _, _, _ => "bad-op"

/-- stand-in validation ops: the primitives alone, against the Go standard library -/
def handlePrim (o : Op) : String :=
  match o.str "f" with
  | "aes" =>
    match hexArg o "key", hexArg o "in" with
    | some key, some inp =>
      if (key.length != 16 && key.length != 24 && key.length != 32) || inp.length != 16 then "bad-op" else
      let k := Aes.expandKey key
      s!"{toHex (Aes.encryptBlock k inp)}/{toHex (Aes.decryptBlock k inp)}"
    | _, _ => "bad-op"
  | "des3" =>
    match hexArg o "key", hexArg o "in" with
    | some key, some inp =>
      if key.length != 24 || inp.length != 8 then "bad-op" else
      let k := Des.expandKey3 key
      s!"{toHex (Des.encryptBlock3 k inp)}/{toHex (Des.decryptBlock3 k inp)}"
    | _, _ => "bad-op"
  | "ctr" =>
    match hexArg o "key", hexArg o "iv", o.nat? "n" with
    | some key, some iv, some n =>
      if (key.length != 16 && key.length != 24 && key.length != 32) || iv.length != 16 then "bad-op" else
      toHex (Aes.ctrKeystream (Aes.expandKey key) iv n).toList
    | _, _, _ => "bad-op"
  | "rc4" =>
    match hexArg o "key", o.nat? "skip", o.nat? "n" with
    | some key, some skip, some n => if key.isEmpty then "bad-op" else toHex (rc4Keystream key skip n).toList
    | _, _, _ => "bad-op"
  | "gcm" =>
    match hexArg o "key", hexArg o "iv", hexArg o "aad", hexArg o "pt" with
    | some key, some iv, some aad, some pt =>
      if (key.length != 16 && key.length != 32) || iv.length != 12 then "bad-op" else
      let k := Aes.expandKey key
      let ct := gcmSeal k iv aad pt
      let back := match gcmOpen k iv aad ct with
        | some p => if p == pt then "ok" else "differs"
        | none => "fail"
      s!"{toHex ct}/{back}"
    | _, _, _, _ => "bad-op"
  | "hmac" =>
    match macByName (o.str "alg"), hexArg o "key", hexArg o "msg" with
    | some a, some key, some msg => toHex (a.fn key msg)
    | _, _, _ => "bad-op"
  | "poly" =>
    match hexArg o "key", hexArg o "msg" with
    | some key, some msg => if key.length != 32 then "bad-op" else toHex (poly1305 key msg)
    | _, _ => "bad-op"
  | "chacha" =>
    match hexArg o "key", hexArg o "nonce", o.nat? "ctr", o.nat? "n" with
    | some key, some nonce, some ctr, some n =>
      if key.length != 32 || nonce.length != 12 || ctr ≥ 4294967296 then "bad-op" else
      toHex (XC.C03.keystream key nonce (UInt32.ofNat ctr) n)
    | _, _, _, _ => "bad-op"
  | _ => "bad-op"

/-- `km hash=sha1|sha256|sha512 n=<len> tag=<hex> k=<hex> h=<hex> sid=<hex>`: generateKeyMaterial -/
def handleKm (o : Op) : String :=
  match Prim.algByName (o.str "hash"), o.nat? "n", hexArg o "tag", hexArg o "k", hexArg o "h", hexArg o "sid" with
  | some a, some n, some tag, some k, some h, some sid => toHex (keyMat a.hash k h tag sid n)
  | _, _, _, _, _, _ => "bad-op"

/-- `tables`: cipherModes and macModes of the package (names, key / IV sizes, AEAD flag; MAC key size, EtM flag,
    tag size), sorted by name -/
def handleTables : String :=
  let cs := ["3des-cbc", "aes128-cbc", "aes128-ctr", "aes128-gcm@openssh.com", "aes192-ctr", "aes256-ctr",
    "aes256-gcm@openssh.com", "arcfour", "arcfour128", "arcfour256", "chacha20-poly1305@openssh.com"]
  let ms := ["hmac-sha1", "hmac-sha1-96", "hmac-sha2-256", "hmac-sha2-256-etm@openssh.com", "hmac-sha2-512",
    "hmac-sha2-512-etm@openssh.com"]
  let b (x : Bool) : String := if x then "1" else "0"
  let c := cs.filterMap fun n => (cipherInfo n).map fun i => s!"{n}:{i.keySize}:{i.ivSize}:{b i.aead}"
  let m := ms.filterMap fun n => (macByName n).map fun a => s!"{n}:{a.keyLen}:{b a.etm}:{a.size}"
  s!"ciphers={",".intercalate c};macs={",".intercalate m}"

/-- `npc dir=c|s c= m= hash= k= h= sid= seq= p= rnd=`: newPacketCipher — IV, key and MAC key derived by
    generateKeyMaterial under the direction's tags (client→server A, C, E; server→client B, D, F), then the
    history is written and read back as in `w` -/
def handleNpc (o : Op) : String :=
  match Prim.algByName (o.str "hash"), hexArg o "k", hexArg o "h", hexArg o "sid", o.nat? "seq", hexListArg o "p", hexArg o "rnd" with
  | some a, some k, some h, some sid, some seq, some ps, some rnd =>
    if seq ≥ 4294967296 then "bad-op" else
    match cipherInfo (o.str "c") with
    | none => "bad-op"
    | some info =>
      let tags : Option (UInt8 × UInt8 × UInt8) :=
        match o.str "dir" with
        | "c" => some (65, 67, 69)
        | "s" => some (66, 68, 70)
        | _ => none
      match tags with
      | none => "bad-op"
      | some (ivTag, keyTag, macTag) =>
        let iv := keyMat a.hash k h [ivTag] sid info.ivSize
        let key := keyMat a.hash k h [keyTag] sid info.keySize
        let mkey := if info.aead then [] else
          match macByName (o.str "m") with
          | some ma => keyMat a.hash k h [macTag] sid ma.keyLen
          | none => []
        match mkMode (o.str "c") (o.str "m") key iv mkey (totalLen ps) with
        | none => "bad-op"
        | some (mode, st0) =>
          let c0 : Conn := ⟨st0, UInt32.ofNat seq⟩
          let (ws, cw) := writeAll mode c0 rnd ps
          let wires : List Bytes := ws.filterMap fun w => match w with | Except.ok b => some b | Except.error _ => none
          let (rs, cr) := readAll mode (wires.length + 1) c0 wires.flatten
          s!"w={showWrites ws};seq={cw.seq.toNat};r={showRead mode.isCbc rs};rseq={cr.seq.toNat}"
  | _, _, _, _, _, _, _ => "bad-op"

def handle (line : String) : String :=
  let o := parseOp line
  match o.cmd with
  | "w" => handleW o
  | "tables" => handleTables
  | "algos" =>
    -- SupportedAlgorithms() ∪ InsecureAlgorithms(): exactly the names that have an entry in cipherModes / macModes
    "ciphers=3des-cbc,aes128-cbc,aes128-ctr,aes128-gcm@openssh.com,aes192-ctr,aes256-ctr,aes256-gcm@openssh.com,arcfour,arcfour128,arcfour256,chacha20-poly1305@openssh.com;macs=hmac-sha1,hmac-sha1-96,hmac-sha2-256,hmac-sha2-256-etm@openssh.com,hmac-sha2-512,hmac-sha2-512-etm@openssh.com"
  | "npc" => handleNpc o
  | "km" => handleKm o
  | "prim" => handlePrim o
  | _ => "bad-op"

end XC.C25
