import XC.Model.C50
namespace XC.C50

def dash (s : String) : String := if s.isEmpty then "-" else s
def undash (s : String) : String := if s == "-" then "" else s

def reply? (s : String) : Option Reply :=
  if s == "x" then some .fail else
  if s == "c" then some .cancel else
  match s.splitOn ":" with
  | status :: rest =>
    -- the problem type may itself contain ':' — the nonce is the last field
    match rest.reverse with
    | nonce :: probRev =>
      if probRev.isEmpty then none else do
      let st ← status.toNat?
      let prob := undash (":".intercalate probRev.reverse)
      -- Replay-Nonce fields: `-` = no header, else values joined by `+`, `~` = an empty value
      -- an optional `@<body token>` follows the nonce fields
      let (nonce, body) := match nonce.splitOn "@" with
        | [n, b] => (n, b)
        | _ => (nonce, "")
      let hdr := if nonce == "-" then [] else (nonce.splitOn "+").map fun v => if v == "~" then "" else v
      pure (.resp ⟨st, prob, hdr, body⟩)
    | [] => none
  | [] => none

def call? (s : String) : Option Call := apiTable.lookup s

/-- the members of a body token that the returned Go value of this call can show -/
def keepMembers (call : String) : List String :=
  if call == "G" || call == "W" || call == "Z" then ["e", "w", "c", "i"]        -- *Authorization
  else if call == "O" || call == "Q" || call == "V" then ["e", "z", "f", "crt"] -- *Order
  else if call == "A" || call == "C" then ["tok"]                               -- *Challenge
  else if call == "F" || call == "X" then ["k"]                                 -- certificate chain
  else []                                                                       -- *Account: status only

def project (call : String) (b : String) : String :=
  match b.splitOn "/" with
  | [] => b
  | status :: ms =>
    let keep := keepMembers call
    let kept := ms.filter fun m => keep.contains ((m.splitOn "=").headD "")
    if call == "F" || call == "X" then "pem/" ++ (kept.head?.getD "k=1")   -- a chain of k certificates (1 unless said)
    else
      -- wireChallenge.challenge(): a challenge without a status is reported as pending
      let status := if (call == "A" || call == "C") && status == "" then "pending" else status
      "/".intercalate (status :: kept)

def listOf? {α} (f : String → Option α) (s : String) : Option (List α) :=
  if s == "-" then some [] else (s.splitOn ",").mapM f

def showMethod : Method → String
  | .head => "H" | .get => "G" | .post => "P"

def showReq (r : Req) : String :=
  s!"{showMethod r.method}:{r.url}:{dash (r.nonce.getD "")}:{if r.method == .post then (if r.kidForm then "k" else "j") else "-"}"

def showOutcome (call : String) : Outcome → String
  | .ok => "ok"
  | .okBody b => "ok=" ++ project call b
  | .err .noAccount => "noaccount"
  | .err .invalid => "invalid"
  | .err .other => "other"
  | .err (.status c p) => s!"e{c}:{dash p}"
  | .err .transport => "terr"
  | .err .ctx => "ctx"
  | .err .noNonce => "other"     -- an untyped errors.New value: no class of its own on the wire protocol
  | .err .exists_ => "exists"

def joinOr (l : List String) : String := if l.isEmpty then "-" else ",".intercalate l

def bool? (s : String) : Option Bool :=
  if s == "1" then some true else if s == "0" then some false else none

def handleHttp (o : Op) : String :=
  -- bo=nil: Client.RetryBackoff is nil; every reply carries `Retry-After: -1`, for which the default
  -- backoff returns a non-positive delay (defaultBackoff_range), i.e. no retry at all
  let bo? : Option Nat := if o.get? "bo" == some "nil" then some 0 else o.nat? "bo"
  match (o.get? "nurl").bind bool?, (o.get? "kid").bind bool?, bo?, o.nat? "cancel",
        (o.get? "calls").bind (listOf? call?), (o.get? "resp").bind (listOf? reply?) with
  | some nurl, some kid, some bo, some cancel, some calls, some script =>
    let names := ((o.get? "calls").getD "").splitOn ","
    let cfg : Cfg := ⟨nurl, bo, cancel, fun _ => 0⟩
    let st : St := { pool := [], script := script, log := [], kid := kid }
    let (st, outs) := runCalls cfg st calls
    s!"req={joinOr ((requestsOf st.log).reverse.map showReq)} res={joinOr ((names.zip outs).map fun (n, x) => showOutcome n x)} pool={st.pool.length}"
  | _, _, _, _, _, _ => "bad-op"

def insertS (x : String) : List String → List String
  | [] => [x]
  | y :: r => if x ≤ y then x :: y :: r else y :: insertS x r
def sortS (l : List String) : List String := l.foldr insertS []

/-- `pool ops=a:<v>,c,d,…`: addNonce / clearNonces / drain (pop until empty); one sorted list per drain -/
def runPool : List String → List String → Option (List String)
  | _, [] => some []
  | pool, op :: rest =>
    if op == "c" then runPool [] rest
    else if op == "d" then (runPool [] rest).map (joinOr (sortS pool) :: ·)
    else match op.splitOn ":" with
      | ["a", v] =>
        let hdr := if v == "-" then [] else (v.splitOn "+").map fun f => if f == "~" then "" else f
        runPool (addNonce pool (nonceFromHeader hdr)) rest
      | _ => none

def handlePool (o : Op) : String :=
  match (o.get? "ops").map (·.splitOn ",") with
  | some ops =>
    match runPool [] ops with
    | some ds => "drain=" ++ "|".intercalate ds
    | none => "bad-op"
  | none => "bad-op"

/-- `dbo n=<int> ra=nil|<int>|bad` -/
def handleDbo (o : Op) : String :=
  match o.int? "n", o.get? "ra" with
  | some n, some ra =>
    let r : Option RetryAfter :=
      if ra == "nil" then some .absent else if ra == "bad" then some .invalid
      else (ra.toInt?).map .secs
    match r with
    | some r => s!"sec={backoffSeconds n r}"
    | none => "bad-op"
  | _, _ => "bad-op"

/-- `wait path=get|post trig=cancel|deadline|none at=before|during dur=<ms> status=503|429|bn`:
    a retriable reply, then the context is cancelled (or its deadline passes) while the client waits for
    its retry timer of `dur` ms. By `cancel_during_wait` the loop ends at once with the error of the last
    reply; only an undisturbed wait lasts `dur` (bucket `slow` from 2 s). -/
def handleWait (o : Op) : String :=
  match o.get? "path", o.get? "trig", o.get? "at", o.nat? "dur", o.get? "status" with
  | some path, some trig, some at_, some dur, some status =>
    let bad : Option Resp :=
      if status == "503" then some ⟨503, "", [], ""⟩
      else if status == "429" then some ⟨429, "urn:ietf:params:acme:error:rateLimited", [], ""⟩
      else if status == "bn" then some ⟨400, "urn:ietf:params:acme:error:badNonce", ["nb"], ""⟩
      else none
    match bad with
    | none => "bad-op"
    | some bad =>
      let armed := trig != "none"
      let cfg : Cfg := ⟨true, 5, if armed && at_ == "during" then 1 else 0, fun _ => 0⟩
      let (script, calls) : List Reply × List String :=
        if path == "get" then ([.resp { bad with replayNonce := [] }, .resp ⟨200, "", ["n1"], ""⟩], ["D"])
        else ([.resp ⟨200, "", ["n1"], ""⟩, .resp bad, .resp ⟨200, "", ["n3"], ""⟩, .resp ⟨200, "", ["n4"], ""⟩], ["D", "R"])
      let st : St := { pool := [], script := script, log := [], kid := true, cancelled := armed && at_ == "before" }
      match calls.mapM call? with
      | none => "bad-op"
      | some cs =>
        let (_, outs) := runCalls cfg st cs
        let last := (outs.zip calls).getLast?.map (fun (x, n) => showOutcome n x) |>.getD "-"
        let within := if !armed && dur ≥ 2000 then "slow" else "fast"
        -- the generator's `expect` tag (what a harness that cannot measure reliably falls back to) must be the model's answer
        if o.get? "expect" != some within then "bad-op" else
        s!"res={last} within={within}"
  | _, _, _, _, _ => "bad-op"

def handle (line : String) : String :=
  let o := parseOp line
  if o.cmd == "http" then handleHttp o
  else if o.cmd == "pool" then handlePool o
  else if o.cmd == "dbo" then handleDbo o
  else if o.cmd == "wait" then handleWait o
  else "bad-op"

end XC.C50
