/-
  C37 — the repaired step relation `nextFixed`: invariant, safety, and the liveness / Accept-after-Close
  theorems that the code as written fails (Props/C37.lean: not_close_returns, accept_after_close_may_succeed).
-/
import XC.Proofs.C37
import XC.Model.C37_Fixed
namespace XC.C37

structure InvF (s : State) : Prop where
  entries_open : ∀ k lid, (k, lid) ∈ s.entries →
    ∃ l, getLst s.lsts lid = some l ∧ l.key = k ∧ l.closed = false
  entries_nodup : (s.entries.map (·.2)).Nodup
  /-- a handler in its select holds a reference to an existing listener with the forward's key (its entry may
      have been removed meanwhile) -/
  pc_lst : ∀ n f lid, (s.h n).pc = some (f, lid) → ∃ l, getLst s.lsts lid = some l ∧ l.key = f.key
  buf_key : ∀ lid l f, getLst s.lsts lid = some l → l.buf = some f → f.key = l.key
  /-- no forward is stranded in a retired listener -/
  closed_empty : ∀ lid l, getLst s.lsts lid = some l → l.closed = true → l.buf = none
  log_ok : ∀ e ∈ s.log, e ≠ .panic ∧
    ∀ c lid f, e = .accept c lid (some f) → ∃ l, getLst s.lsts lid = some l ∧ l.key = f.key
  /-- every pending Close refers to an existing listener -/
  closers_lst : ∀ c ∈ s.closers, (getLst s.lsts c.2.1).isSome = true

theorem invF_init : InvF init := by
  constructor
  · simp [init]
  · simp [init]
  · intro n f lid; cases n <;> simp [State.h, init]
  · simp [init, getLst]
  · simp [init, getLst]
  · simp [init]
  · simp [init]

theorem InvF.frame {s t : State} (hi : InvF s) (he : t.entries = s.entries) (hl : t.lsts = s.lsts)
    (h1 : t.htcp.pc = s.htcp.pc) (h2 : t.hunix.pc = s.hunix.pc) (hlog : t.log = s.log)
    (hc : t.closers = s.closers) : InvF t := by
  constructor
  · rw [he, hl]; exact hi.entries_open
  · rw [he]; exact hi.entries_nodup
  · intro n f lid h
    rw [hl]
    apply hi.pc_lst n f lid
    cases n <;> simp_all [State.h]
  · rw [hl]; exact hi.buf_key
  · rw [hl]; exact hi.closed_empty
  · rw [hlog, hl]; exact hi.log_ok
  · rw [hc, hl]; exact hi.closers_lst

theorem InvF.emit_ok {s : State} (hi : InvF s) (e : Ev) (hp : e ≠ .panic)
    (ha : ∀ c lid f, e = .accept c lid (some f) → ∃ l, getLst s.lsts lid = some l ∧ l.key = f.key) :
    InvF (emit s e) := by
  constructor
  · exact hi.entries_open
  · exact hi.entries_nodup
  · exact hi.pc_lst
  · exact hi.buf_key
  · exact hi.closed_empty
  · intro e' he'
    simp only [emit, List.mem_cons] at he'
    rcases he' with rfl | he'
    · exact ⟨hp, ha⟩
    · exact hi.log_ok e' he'
  · exact hi.closers_lst

theorem InvF.emitWire_ok {s : State} (hi : InvF s) (e : Ev) (hp : e ≠ .panic)
    (ha : ∀ c lid f, e ≠ .accept c lid (some f)) : InvF (emitWire s e) := by
  unfold emitWire
  split
  · exact hi.emit_ok e hp (fun c lid f h => absurd h (ha c lid f))
  · exact hi

theorem getLst_updLst_isSome (ls : List Lst) (lid lid' : Nat) (g : Lst → Lst) (hg : ∀ l, (g l).id = l.id) :
    (getLst (updLst ls lid g) lid').isSome = (getLst ls lid').isSome := by
  rw [getLst_updLst _ _ _ _ hg]; cases getLst ls lid' <;> rfl

theorem InvF.upd {s : State} (hi : InvF s) (lid : Nat) (g : Lst → Lst)
    (hid : ∀ l, (g l).id = l.id) (hkey : ∀ l, (g l).key = l.key)
    (hclosed : (∀ l, (g l).closed = l.closed) ∨ (∀ k, (k, lid) ∉ s.entries))
    (hbuf : ∀ l f, getLst s.lsts lid = some l → (g l).buf = some f → f.key = l.key)
    (hce : ∀ l, getLst s.lsts lid = some l → (g l).closed = true → (g l).buf = none) :
    InvF { s with lsts := updLst s.lsts lid g } := by
  constructor
  · intro k lid' hm
    obtain ⟨l, hl, hk, hc⟩ := hi.entries_open k lid' hm
    simp only [getLst_updLst _ _ _ _ hid, hl, Option.map_some]
    refine ⟨_, rfl, ?_, ?_⟩
    · split <;> simp [hkey, hk]
    · split
      · rename_i heq
        rcases hclosed with h | h
        · rw [h]; exact hc
        · have : lid' = lid := by rw [← getLst_id hl]; exact heq
          subst this
          exact absurd hm (h k)
      · exact hc
  · exact hi.entries_nodup
  · intro n f lid' hpc
    have hpc' : (s.h n).pc = some (f, lid') := by cases n <;> exact hpc
    obtain ⟨l, hl, hk⟩ := hi.pc_lst n f lid' hpc'
    simp only [getLst_updLst _ _ _ _ hid, hl, Option.map_some]
    refine ⟨_, rfl, ?_⟩
    split <;> simp [hkey, hk]
  · intro lid' l' f hl' hb
    simp only [getLst_updLst _ _ _ _ hid] at hl'
    cases hg : getLst s.lsts lid' with
    | none => simp [hg] at hl'
    | some l =>
      simp only [hg, Option.map_some, Option.some.injEq] at hl'
      by_cases heq : l.id = lid
      · simp only [heq, if_true] at hl'
        subst hl'
        have : lid' = lid := by rw [← getLst_id hg]; exact heq
        subst this
        rw [hkey]
        exact hbuf l f hg hb
      · simp only [heq, if_false] at hl'
        subst hl'
        exact hi.buf_key lid' _ f hg hb
  · intro lid' l' hl' hc
    simp only [getLst_updLst _ _ _ _ hid] at hl'
    cases hg : getLst s.lsts lid' with
    | none => simp [hg] at hl'
    | some l =>
      simp only [hg, Option.map_some, Option.some.injEq] at hl'
      by_cases heq : l.id = lid
      · simp only [heq, if_true] at hl'
        subst hl'
        have : lid' = lid := by rw [← getLst_id hg]; exact heq
        subst this
        exact hce l hg hc
      · simp only [heq, if_false] at hl'
        subst hl'
        exact hi.closed_empty lid' _ hg hc
  · intro e he
    obtain ⟨hp, ha⟩ := hi.log_ok e he
    refine ⟨hp, ?_⟩
    intro c lid' f hev
    obtain ⟨l, hl, hk⟩ := ha c lid' f hev
    simp only [getLst_updLst _ _ _ _ hid, hl, Option.map_some]
    refine ⟨_, rfl, ?_⟩
    split <;> simp [hkey, hk]
  · intro c hc
    simp only [getLst_updLst_isSome _ _ _ _ hid]
    exact hi.closers_lst c hc


theorem invF_setH {s : State} (hi : InvF s) (n : Net) (h : Handler)
    (hpc : ∀ f lid, h.pc = some (f, lid) → ∃ l, getLst s.lsts lid = some l ∧ l.key = f.key) :
    InvF (s.setH n h) := by
  constructor
  · simpa using hi.entries_open
  · simpa using hi.entries_nodup
  · intro m f lid hm
    simp only [setH_lsts]
    by_cases hmn : m = n
    · subst hmn
      simp at hm
      exact hpc f lid hm
    · rw [setH_h_other _ _ _ _ hmn] at hm
      exact hi.pc_lst m f lid hm
  · simpa using hi.buf_key
  · simpa using hi.closed_empty
  · simpa using hi.log_ok
  · simpa using hi.closers_lst

theorem invF_setH_queue {s : State} (hi : InvF s) (n : Net) (q : List Fwd) :
    InvF (s.setH n { s.h n with queue := q }) := by
  cases n <;> exact hi.frame rfl rfl rfl rfl rfl rfl

theorem InvF.shrink {s : State} (hi : InvF s) (es : List (Key × Nat)) (hsub : ∀ x ∈ es, x ∈ s.entries)
    (hnd : (es.map (·.2)).Nodup) : InvF { s with entries := es } := by
  constructor
  · intro k lid hm; exact hi.entries_open k lid (hsub _ hm)
  · exact hnd
  · intro n f lid hpc
    have : (s.h n).pc = some (f, lid) := by cases n <;> exact hpc
    exact hi.pc_lst n f lid this
  · exact hi.buf_key
  · exact hi.closed_empty
  · exact hi.log_ok
  · exact hi.closers_lst

theorem retire_entries (s : State) (lid : Nat) (es : List (Key × Nat)) :
    retire { s with entries := es } lid = { retire s lid with entries := es } := by
  unfold retire
  simp only
  split
  · rfl
  · split
    · rfl
    · split
      · rfl
      · unfold emitWire; simp only; split <;> rfl

/-- close(e.done) + drain of a listener whose entry has just been removed -/
theorem InvF.retire_ok {s : State} (hi : InvF s) {lid : Nat}
    (hopen : ∀ l, getLst s.lsts lid = some l → l.closed = false)
    (hnot : ∀ k, (k, lid) ∉ s.entries) : InvF (retire s lid) := by
  unfold retire
  cases hl : getLst s.lsts lid with
  | none => exact hi
  | some l =>
    simp only [hopen l hl, Bool.false_eq_true, if_false]
    have hu : InvF { s with lsts := updLst s.lsts lid (fun l => { l with closed := true, buf := none }) } :=
      hi.upd lid _ (by simp) (by simp) (Or.inr hnot) (by simp) (by simp)
    split
    · exact hu
    · exact hu.emitWire_ok _ (by simp) (by simp)

theorem invF_retireAll (s : State) (es : List (Key × Nat)) (hi : InvF { s with entries := es }) :
    InvF { retireAll s es with entries := [] } := by
  induction es generalizing s with
  | nil => simpa [retireAll] using hi
  | cons a rest ih =>
    obtain ⟨k, lid⟩ := a
    simp only [retireAll]
    apply ih
    rw [← retire_entries]
    have hnd := hi.entries_nodup
    simp only [List.map_cons, List.nodup_cons] at hnd
    have hsh : InvF { s with entries := rest } := by
      have := InvF.shrink hi rest (fun x hx => List.mem_cons_of_mem _ hx) hnd.2
      simpa using this
    obtain ⟨l, hl, _, hc⟩ := hi.entries_open k lid (by simp)
    apply InvF.retire_ok hsh
    · intro l' hl'
      simp only at hl' hl
      rw [hl] at hl'
      cases hl'
      exact hc
    · intro k' hk'
      exact hnd.1 (List.mem_map.mpr ⟨(k', lid), hk', rfl⟩)

theorem invF_step {s s' : State} (a : Act) (hi : InvF s) (h : nextFixed s a = some s') : InvF s' := by
  cases a with
  | listenCall call key deny =>
    simp only [nextFixed] at h
    split at h
    · cases h
      exact (hi.frame (t := { s with started := true }) rfl rfl rfl rfl rfl rfl).emit_ok _ (by simp) (by simp)
    · split at h
      · cases h
        exact (hi.frame (t := { s with started := true }) rfl rfl rfl rfl rfl rfl).emit_ok _ (by simp) (by simp)
      · cases h
        exact hi.frame rfl rfl rfl rfl rfl rfl
  | fwdSend f =>
    simp only [nextFixed] at h
    split at h
    · cases h
    · split at h
      · cases h; exact hi.emitWire_ok _ (by simp) (by simp)
      · cases h; exact invF_setH_queue hi _ _
  | acceptCall c l =>
    simp only [nextFixed] at h
    split at h
    · cases h
    · cases h; exact hi.frame rfl rfl rfl rfl rfl rfl
  | closeCall c l b =>
    simp only [nextFixed] at h
    split at h
    · cases h
    · rename_i l0 hl0
      cases h
      constructor
      · exact hi.entries_open
      · exact hi.entries_nodup
      · exact hi.pc_lst
      · exact hi.buf_key
      · exact hi.closed_empty
      · exact hi.log_ok
      · intro x hx
        simp only [List.mem_append, List.mem_singleton] at hx
        rcases hx with hx | rfl
        · exact hi.closers_lst x hx
        · simp [hl0]
  | disconnect =>
    simp only [nextFixed] at h
    split at h
    · cases h
    · cases h; exact hi.frame rfl rfl rfl rfl rfl rfl
  | addRun call =>
    simp only [nextFixed] at h
    split at h
    · cases h
    · rename_i c key _
      split at h
      · cases h
      · rename_i hcond
        simp only [Bool.not_eq_true, Option.isSome_eq_false_iff, Option.isNone_iff_eq_none] at hcond
        have hfresh := hcond
        cases h
        apply InvF.emit_ok _ _ (by simp) (by simp)
        constructor
        · intro k lid hm
          simp only [List.mem_append, List.mem_singleton, Prod.mk.injEq] at hm
          rcases hm with hm | ⟨rfl, rfl⟩
          · obtain ⟨l, hl, hk, hc⟩ := hi.entries_open k lid hm
            exact ⟨l, getLst_append_of_some hl, hk, hc⟩
          · refine ⟨⟨lid, k, none, false⟩, ?_, rfl, rfl⟩
            simp [getLst_append_single, hfresh]
        · simp only [List.map_append, List.map_cons, List.map_nil]
          rw [List.nodup_append]
          refine ⟨hi.entries_nodup, by simp, ?_⟩
          intro a ha b hb
          simp at hb
          subst hb
          obtain ⟨x, hx, rfl⟩ := List.mem_map.mp ha
          obtain ⟨l, hl, _, _⟩ := hi.entries_open x.1 x.2 hx
          intro heq
          rw [heq, hfresh] at hl
          cases hl
        · intro n f lid hpc
          have : (s.h n).pc = some (f, lid) := by cases n <;> exact hpc
          obtain ⟨l, hl, hk⟩ := hi.pc_lst n f lid this
          exact ⟨l, getLst_append_of_some hl, hk⟩
        · intro lid l f hl hb
          simp only [getLst_append_single] at hl
          cases hg : getLst s.lsts lid with
          | some l0 =>
            simp [hg] at hl; subst hl
            exact hi.buf_key lid _ f hg hb
          | none =>
            simp [hg] at hl
            obtain ⟨_, rfl⟩ := hl
            simp at hb
        · intro lid l hl hc
          simp only [getLst_append_single] at hl
          cases hg : getLst s.lsts lid with
          | some l0 =>
            simp [hg] at hl; subst hl
            exact hi.closed_empty lid _ hg hc
          | none =>
            simp [hg] at hl
            obtain ⟨_, rfl⟩ := hl
            rfl
        · intro e he
          obtain ⟨hp, ha⟩ := hi.log_ok e he
          refine ⟨hp, ?_⟩
          intro c lid f hev
          obtain ⟨l, hl, hk⟩ := ha c lid f hev
          exact ⟨l, getLst_append_of_some hl, hk⟩
        · intro x hx
          have := hi.closers_lst x hx
          simp only [getLst_append_single]
          cases hg : getLst s.lsts x.2.1 with
          | some l0 => simp
          | none => simp [hg] at this
  | hTake n =>
    simp only [nextFixed] at h
    split at h
    · cases h
    · cases h
    · rename_i f q hpc hq
      split at h
      · cases h
        exact (invF_setH hi n _ (by simp [hpc])).emitWire_ok _ (by simp) (by simp)
      · split at h
        · cases h
          exact (invF_setH hi n _ (by simp [hpc])).emitWire_ok _ (by simp) (by simp)
        · rename_i lid hfind
          cases h
          apply invF_setH hi n
          intro f' lid' heq
          simp at heq
          obtain ⟨rfl, rfl⟩ := heq
          obtain ⟨l, hl, hk, _⟩ := hi.entries_open _ _ (findEntry_mem hfind)
          exact ⟨l, hl, hk⟩
  | hSend n =>
    simp only [nextFixed] at h
    split at h
    · cases h
    · rename_i f lid hpc
      obtain ⟨l, hl, hk⟩ := hi.pc_lst n f lid hpc
      simp only [hl] at h
      split at h
      · cases h
        exact (invF_setH hi n _ (by simp)).emitWire_ok _ (by simp) (by simp)
      · rename_i hopen
        simp only [Bool.not_eq_true] at hopen
        split at h
        · cases h
          have h1 : InvF (s.setH n { queue := (s.h n).queue, pc := none }) := invF_setH hi n _ (by simp)
          have := h1.upd lid (fun l => { l with buf := some f }) (by simp) (by simp) (Or.inl (by simp))
            (by
              intro l' f' hl' hb
              simp at hb; subst hb
              rw [setH_lsts, hl] at hl'; cases hl'
              exact hk.symm)
            (by
              intro l' hl' hc
              rw [setH_lsts, hl] at hl'; cases hl'
              simp only at hc
              rw [hopen] at hc; cases hc)
          simpa using this
        · cases h
  | accRun call =>
    simp only [nextFixed] at h
    split at h
    · cases h
    · rename_i c lid _
      split at h
      · cases h
      · rename_i l hl
        have hfr : InvF { s with acceptors := s.acceptors.filter (·.1 ≠ call) } := hi.frame rfl rfl rfl rfl rfl rfl
        split at h
        · cases h
          exact hfr.emit_ok _ (by simp) (by simp)
        · split at h
          · rename_i f hb
            have hk := hi.buf_key lid l f hl hb
            have hu := hfr.upd lid (fun l => { l with buf := none }) (by simp) (by simp) (Or.inl (by simp))
              (by simp) (by simp)
            split at h
            · cases h
              apply InvF.emit_ok (InvF.emit_ok hu _ (by simp) (by simp)) _ (by simp)
              intro c' lid' f' heq
              simp at heq
              obtain ⟨_, rfl, rfl⟩ := heq
              simp only [emit, getLst_updLst s.lsts lid lid (fun l => { l with buf := none }) (by simp), hl, Option.map_some]
              refine ⟨_, rfl, ?_⟩
              split <;> simp [hk]
            · cases h
              exact InvF.emit_ok hu _ (by simp) (by simp)
          · cases h
  | closeRun call =>
    simp only [nextFixed] at h
    split at h
    · cases h
    · rename_i c lid cancelOk _
      split at h
      · cases h
      · rename_i l hl
        cases h
        apply InvF.emit_ok _ _ (by simp) (by simp)
        have hfr : InvF { s with closers := s.closers.filter (·.1 ≠ call) } := by
          constructor
          · exact hi.entries_open
          · exact hi.entries_nodup
          · exact hi.pc_lst
          · exact hi.buf_key
          · exact hi.closed_empty
          · exact hi.log_ok
          · intro x hx
            exact hi.closers_lst x (List.mem_filter.mp hx).1
        split
        · exact hfr
        · rename_i victim hfind
          have hm := findEntry_mem hfind
          obtain ⟨lv, hlv, _, hcv⟩ := hi.entries_open _ _ hm
          have hsh : InvF { s with closers := s.closers.filter (·.1 ≠ call), entries := removeFirst s.entries l.key } :=
            InvF.shrink hfr _ (fun x hx => removeFirst_mem hx) (removeFirst_nodup hi.entries_nodup)
          apply InvF.retire_ok hsh
          · intro l' hl'
            simp only at hl'
            rw [hlv] at hl'
            cases hl'
            exact hcv
          · intro k hk
            exact removeFirst_victim hi.entries_nodup hfind _ hk rfl
  | closeAllRun =>
    simp only [nextFixed] at h
    split at h
    · cases h
    · cases h
      have := invF_retireAll s s.entries (by simpa using hi)
      exact this.frame rfl rfl rfl rfl rfl rfl

theorem invF_reachable {s : State} (h : ReachableF s) : InvF s :=
  invariant_of_step InvF invF_init (fun _ a _ hi hs => invF_step a hi hs) s h

end XC.C37
