/-
  C23 — helper lemmas: readASN1 against the DER header specification.
-/
import XC.Model.C23
namespace XC.C23

theorem toNat_ofNat_lt (n : Nat) (h : n < 256) : (UInt8.ofNat n).toNat = n := by
  simp [UInt8.toNat_ofNat', Nat.mod_eq_of_lt h]

set_option maxRecDepth 100000 in
/-- short-form bit test, checked on every byte value -/
theorem short_bit : ∀ n, n < 256 → ((UInt8.ofNat n &&& 0x80 == 0) = decide (n < 128)) := by decide

set_option maxRecDepth 100000 in
theorem lenLen_bits : ∀ n, n < 256 → ((UInt8.ofNat n &&& 0x7f).toNat = n % 128) := by decide

theorem byte_cases (b : UInt8) : ∃ n, n < 256 ∧ b = UInt8.ofNat n :=
  ⟨b.toNat, b.toNat_lt, by simp⟩

theorem read_append (w r : Bytes) (n : Nat) (h : w.length = n) : read n (w ++ r) = some (w, r) := by
  simp [read, ← h]

theorem readUnsigned1 (a : UInt8) : readUnsigned [a] = a.toNat := by
  have := a.toNat_lt
  simp [readUnsigned]
theorem readUnsigned2 (a b : UInt8) : readUnsigned [a, b] = a.toNat * 256 + b.toNat := by
  have := a.toNat_lt; have := b.toNat_lt
  simp [readUnsigned]; omega
theorem readUnsigned3 (a b c : UInt8) :
    readUnsigned [a, b, c] = (a.toNat * 256 + b.toNat) * 256 + c.toNat := by
  have := a.toNat_lt; have := b.toNat_lt; have := c.toNat_lt
  simp [readUnsigned]; omega
theorem readUnsigned4 (a b c d : UInt8) :
    readUnsigned [a, b, c, d] = ((a.toNat * 256 + b.toNat) * 256 + c.toNat) * 256 + d.toNat := by
  have := a.toNat_lt; have := b.toNat_lt; have := c.toNat_lt; have := d.toNat_lt
  simp [readUnsigned]; omega

theorem readASN1_short (t : UInt8) (n : Nat) (body rest : Bytes) (ht : (t &&& 0x1f == 0x1f) = false)
    (hN : body.length = n) (g : n < 128) :
    readASN1 (t :: UInt8.ofNat n :: (body ++ rest)) = some ⟨t, 2, t :: UInt8.ofNat n :: body, rest⟩ := by
  have hb := short_bit n (by omega)
  have hr := read_append (t :: UInt8.ofNat n :: body) rest (n + 2) (by simp [hN])
  simp only [List.cons_append] at hr
  simp only [readASN1, ht, Bool.false_eq_true, if_false, hb, g, decide_true, if_true,
    toNat_ofNat_lt n (by omega), hr]

theorem readASN1_long (t : UInt8) (k : Nat) (lb body rest : Bytes) (ht : (t &&& 0x1f == 0x1f) = false)
    (hk1 : 1 ≤ k) (hk4 : k ≤ 4) (hlb : lb.length = k) (hlen : readUnsigned lb = body.length)
    (h128 : 128 ≤ body.length) (htop : body.length >>> ((k - 1) * 8) ≠ 0)
    (hn : body.length ≤ 0xfffffff9) :
    readASN1 (t :: UInt8.ofNat (0x80 + k) :: (lb ++ body ++ rest)) =
      some ⟨t, 2 + k, t :: UInt8.ofNat (0x80 + k) :: (lb ++ body), rest⟩ := by
  have hb := short_bit (0x80 + k) (by omega)
  have hl := lenLen_bits (0x80 + k) (by omega)
  have hl' : (UInt8.ofNat (0x80 + k) &&& 0x7f).toNat = k := by rw [hl]; omega
  have hf : decide (0x80 + k < 128) = false := by simp
  have hr := read_append (t :: UInt8.ofNat (0x80 + k) :: (lb ++ body)) rest (2 + k + body.length)
    (by simp [hlb]; omega)
  simp only [List.cons_append, List.append_assoc] at hr
  have htake : List.take k (lb ++ (body ++ rest)) = lb := List.take_left' hlb
  have c1 : ((k == 0 || decide (k > 4)) || decide ((t :: UInt8.ofNat (0x80 + k) :: (lb ++ (body ++ rest))).length < 2 + k)) = false := by
    simp [hlb]; omega
  have c2 : ¬ body.length < 128 := by omega
  have c3 : (body.length >>> ((k - 1) * 8) == 0) = false := by simpa using htop
  have c4 : ¬ (2 + k + body.length) % 2 ^ 32 < body.length := by
    rw [Nat.mod_eq_of_lt (by omega)]; omega
  simp only [readASN1, ht, Bool.false_eq_true, if_false, hb, hf, hl', List.append_assoc, List.drop_succ_cons,
    List.drop_zero, htake, hlen, c1, c2, c3, c4, hr]

theorem natToBE_len (k n : Nat) : (natToBE k n).length = k := by simp [natToBE, natToLE_length]

theorem readUnsigned_natToBE1 (n : Nat) (h : n < 0x100) : readUnsigned (natToBE 1 n) = n := by
  simp only [natToBE, natToLE, List.reverse_cons, List.reverse_nil, List.nil_append, readUnsigned1,
    UInt8.toNat_ofNat']; omega
theorem readUnsigned_natToBE2 (n : Nat) (h : n < 0x10000) : readUnsigned (natToBE 2 n) = n := by
  simp only [natToBE, natToLE, List.reverse_cons, List.reverse_nil, List.nil_append, List.cons_append,
    readUnsigned2, UInt8.toNat_ofNat']; omega
theorem readUnsigned_natToBE3 (n : Nat) (h : n < 0x1000000) : readUnsigned (natToBE 3 n) = n := by
  simp only [natToBE, natToLE, List.reverse_cons, List.reverse_nil, List.nil_append, List.cons_append,
    readUnsigned3, UInt8.toNat_ofNat']; omega
theorem readUnsigned_natToBE4 (n : Nat) (h : n < 0x100000000) : readUnsigned (natToBE 4 n) = n := by
  simp only [natToBE, natToLE, List.reverse_cons, List.reverse_nil, List.nil_append, List.cons_append,
    readUnsigned4, UInt8.toNat_ofNat']; omega

/-- DER header + body is accepted, with exactly that body and rest (builder → reader direction) -/
theorem readASN1_der (t : UInt8) (body rest : Bytes) (ht : (t &&& 0x1f == 0x1f) = false)
    (hn : body.length ≤ 0xfffffff9) :
    readASN1 (t :: (derLen body.length ++ body ++ rest)) =
      some ⟨t, 1 + (derLen body.length).length, t :: (derLen body.length ++ body), rest⟩ := by
  unfold derLen
  by_cases g1 : body.length < 0x80
  · simpa [g1] using readASN1_short t body.length body rest ht rfl g1
  · by_cases g2 : body.length < 0x100
    · have h := readASN1_long t 1 (natToBE 1 body.length) body rest ht (by omega) (by omega)
        (natToBE_len _ _) (readUnsigned_natToBE1 _ g2) (by omega)
        (by rw [show (1 - 1) * 8 = 0 from rfl, Nat.shiftRight_zero]; omega) hn
      simpa [g1, g2, Nat.add_comm, natToBE_len] using h
    · by_cases g3 : body.length < 0x10000
      · have h := readASN1_long t 2 (natToBE 2 body.length) body rest ht (by omega) (by omega)
          (natToBE_len _ _) (readUnsigned_natToBE2 _ g3) (by omega)
          (by rw [show (2 - 1) * 8 = 8 from rfl, Nat.shiftRight_eq_div_pow]; omega) hn
        simpa [g1, g2, g3, Nat.add_comm, natToBE_len] using h
      · by_cases g4 : body.length < 0x1000000
        · have h := readASN1_long t 3 (natToBE 3 body.length) body rest ht (by omega) (by omega)
            (natToBE_len _ _) (readUnsigned_natToBE3 _ g4) (by omega)
            (by rw [show (3 - 1) * 8 = 16 from rfl, Nat.shiftRight_eq_div_pow]; omega) hn
          simpa [g1, g2, g3, g4, Nat.add_comm, natToBE_len] using h
        · have h := readASN1_long t 4 (natToBE 4 body.length) body rest ht (by omega) (by omega)
            (natToBE_len _ _) (readUnsigned_natToBE4 _ (by omega)) (by omega)
            (by rw [show (4 - 1) * 8 = 24 from rfl, Nat.shiftRight_eq_div_pow]; omega) hn
          simpa [g1, g2, g3, g4, Nat.add_comm, natToBE_len] using h

/-- `ReadASN1(&out, tag)` on a DER element -/
theorem readASN1Tag_der (t : UInt8) (body rest : Bytes) (ht : (t &&& 0x1f == 0x1f) = false)
    (hn : body.length ≤ 0xfffffff9) :
    readASN1Tag t (t :: (derLen body.length ++ body ++ rest)) = some (body, rest) := by
  have h := readASN1_der t body rest ht hn
  rw [List.append_assoc] at h
  have hd : List.drop (1 + (derLen body.length).length) (t :: (derLen body.length ++ body)) = body := by
    have : 1 + (derLen body.length).length = (t :: derLen body.length).length := by
      simp only [List.length_cons]; omega
    rw [this, ← List.cons_append, List.drop_left]
  simp [readASN1Tag, readAnyASN1, h, Elem.body, hd]


/-! ## reader → DER direction -/

theorem natToBE_readUnsigned1 (a : UInt8) : natToBE 1 (readUnsigned [a]) = [a] := by
  have := a.toNat_lt
  rw [readUnsigned1]
  simp only [natToBE, natToLE, List.reverse_cons, List.reverse_nil, List.nil_append]
  rw [Nat.mod_eq_of_lt this]; simp
theorem natToBE_readUnsigned2 (a b : UInt8) : natToBE 2 (readUnsigned [a, b]) = [a, b] := by
  have := a.toNat_lt; have := b.toNat_lt
  rw [readUnsigned2]
  simp only [natToBE, natToLE, List.reverse_cons, List.reverse_nil, List.nil_append, List.cons_append]
  have h1 : (a.toNat * 256 + b.toNat) / 256 % 256 = a.toNat := by omega
  have h2 : (a.toNat * 256 + b.toNat) % 256 = b.toNat := by omega
  rw [h1, h2]; simp
theorem natToBE_readUnsigned3 (a b c : UInt8) : natToBE 3 (readUnsigned [a, b, c]) = [a, b, c] := by
  have := a.toNat_lt; have := b.toNat_lt; have := c.toNat_lt
  rw [readUnsigned3]
  simp only [natToBE, natToLE, List.reverse_cons, List.reverse_nil, List.nil_append, List.cons_append]
  have h1 : ((a.toNat * 256 + b.toNat) * 256 + c.toNat) / 256 / 256 % 256 = a.toNat := by omega
  have h2 : ((a.toNat * 256 + b.toNat) * 256 + c.toNat) / 256 % 256 = b.toNat := by omega
  have h3 : ((a.toNat * 256 + b.toNat) * 256 + c.toNat) % 256 = c.toNat := by omega
  rw [h1, h2, h3]; simp
theorem natToBE_readUnsigned4 (a b c d : UInt8) : natToBE 4 (readUnsigned [a, b, c, d]) = [a, b, c, d] := by
  have := a.toNat_lt; have := b.toNat_lt; have := c.toNat_lt; have := d.toNat_lt
  rw [readUnsigned4]
  simp only [natToBE, natToLE, List.reverse_cons, List.reverse_nil, List.nil_append, List.cons_append]
  have h1 : (((a.toNat * 256 + b.toNat) * 256 + c.toNat) * 256 + d.toNat) / 256 / 256 / 256 % 256 = a.toNat := by omega
  have h2 : (((a.toNat * 256 + b.toNat) * 256 + c.toNat) * 256 + d.toNat) / 256 / 256 % 256 = b.toNat := by omega
  have h3 : (((a.toNat * 256 + b.toNat) * 256 + c.toNat) * 256 + d.toNat) / 256 % 256 = c.toNat := by omega
  have h4 : (((a.toNat * 256 + b.toNat) * 256 + c.toNat) * 256 + d.toNat) % 256 = d.toNat := by omega
  rw [h1, h2, h3, h4]; simp

/-- a k-byte string (1 ≤ k ≤ 4) whose first byte is non-zero and whose value is ≥ 128 is the DER long form
    of its value -/
theorem derLen_of_lenBytes (k : Nat) (lb : Bytes) (hk1 : 1 ≤ k) (hk4 : k ≤ 4) (hlb : lb.length = k)
    (h128 : 128 ≤ readUnsigned lb) (htop : readUnsigned lb >>> ((k - 1) * 8) ≠ 0) :
    derLen (readUnsigned lb) = UInt8.ofNat (0x80 + k) :: lb := by
  unfold derLen
  match k, lb, hlb with
  | 1, [a], _ =>
    have := a.toNat_lt
    have e := natToBE_readUnsigned1 a
    rw [readUnsigned1] at *
    simp [show ¬ a.toNat < 128 by omega, this, e]
  | 2, [a, b], _ =>
    have := a.toNat_lt; have := b.toNat_lt
    have e := natToBE_readUnsigned2 a b
    rw [readUnsigned2] at *
    rw [show (2 - 1) * 8 = 8 from rfl, Nat.shiftRight_eq_div_pow] at htop
    simp [show ¬ a.toNat * 256 + b.toNat < 128 by omega, show ¬ a.toNat * 256 + b.toNat < 256 by omega,
      show a.toNat * 256 + b.toNat < 65536 by omega, e]
  | 3, [a, b, c], _ =>
    have := a.toNat_lt; have := b.toNat_lt; have := c.toNat_lt
    have e := natToBE_readUnsigned3 a b c
    rw [readUnsigned3] at *
    rw [show (3 - 1) * 8 = 16 from rfl, Nat.shiftRight_eq_div_pow] at htop
    simp [show ¬ (a.toNat * 256 + b.toNat) * 256 + c.toNat < 128 by omega,
      show ¬ (a.toNat * 256 + b.toNat) * 256 + c.toNat < 256 by omega,
      show ¬ (a.toNat * 256 + b.toNat) * 256 + c.toNat < 65536 by omega,
      show (a.toNat * 256 + b.toNat) * 256 + c.toNat < 16777216 by omega, e]
  | 4, [a, b, c, d], _ =>
    have := a.toNat_lt; have := b.toNat_lt; have := c.toNat_lt; have := d.toNat_lt
    have e := natToBE_readUnsigned4 a b c d
    rw [readUnsigned4] at *
    rw [show (4 - 1) * 8 = 24 from rfl, Nat.shiftRight_eq_div_pow] at htop
    simp [show ¬ ((a.toNat * 256 + b.toNat) * 256 + c.toNat) * 256 + d.toNat < 128 by omega,
      show ¬ ((a.toNat * 256 + b.toNat) * 256 + c.toNat) * 256 + d.toNat < 256 by omega,
      show ¬ ((a.toNat * 256 + b.toNat) * 256 + c.toNat) * 256 + d.toNat < 65536 by omega,
      show ¬ ((a.toNat * 256 + b.toNat) * 256 + c.toNat) * 256 + d.toNat < 16777216 by omega, e]

theorem read_some (n : Nat) (s w r : Bytes) (h : read n s = some (w, r)) :
    s = w ++ r ∧ w.length = n ∧ w = s.take n := by
  unfold read at h
  split at h
  · simp at h
  · simp only [Option.some.injEq, Prod.mk.injEq] at h
    obtain ⟨h1, h2⟩ := h
    subst h1 h2
    refine ⟨(List.take_append_drop n s).symm, ?_, rfl⟩
    simp; omega


theorem readUnsigned_lt (bs : Bytes) : readUnsigned bs < 2 ^ 32 := by
  unfold readUnsigned
  suffices h : ∀ acc, acc < 2 ^ 32 → bs.foldl (fun acc b => (acc * 256 + b.toNat) % 2 ^ 32) acc < 2 ^ 32 from
    h 0 (by omega)
  induction bs with
  | nil => intro acc h; simpa using h
  | cons b bs ih => intro acc _; simp only [List.foldl_cons]; exact ih _ (Nat.mod_lt _ (by omega))

theorem readUnsigned_lt_pow (lb : Bytes) (h : lb.length ≤ 4) : readUnsigned lb < 256 ^ lb.length := by
  match lb, h with
  | [], _ => simp [readUnsigned]
  | [a], _ => have := a.toNat_lt; rw [readUnsigned1]; simpa using this
  | [a, b], _ =>
    have := a.toNat_lt; have := b.toNat_lt
    rw [readUnsigned2]; simp only [List.length_cons, List.length_nil]; omega
  | [a, b, c], _ =>
    have := a.toNat_lt; have := b.toNat_lt; have := c.toNat_lt
    rw [readUnsigned3]; simp only [List.length_cons, List.length_nil]; omega
  | [a, b, c, d], _ =>
    have := a.toNat_lt; have := b.toNat_lt; have := c.toNat_lt; have := d.toNat_lt
    rw [readUnsigned4]; simp only [List.length_cons, List.length_nil]; omega

theorem short_lt (b : UInt8) (h : (b &&& 0x80 == 0) = true) : b.toNat < 128 := by
  obtain ⟨n, hn, rfl⟩ := byte_cases b
  rw [short_bit n hn] at h
  rw [toNat_ofNat_lt n hn]
  simpa using h

theorem long_form (b : UInt8) (h : ¬ (b &&& 0x80 == 0) = true) :
    b = UInt8.ofNat (0x80 + (b &&& 0x7f).toNat) ∧ (b &&& 0x7f).toNat < 128 := by
  obtain ⟨n, hn, rfl⟩ := byte_cases b
  rw [short_bit n hn] at h
  rw [lenLen_bits n hn]
  have : ¬ n < 128 := by simpa using h
  constructor
  · congr 1; omega
  · omega

/-- whatever `readASN1` accepts is a DER element: low-number tag, minimal length octets -/
theorem readASN1_sound (s : Bytes) (e : Elem) (h : readASN1 s = some e) :
    (e.tag &&& 0x1f == 0x1f) = false ∧ e.body.length ≤ 0xfffffff9 ∧
    e.hdr = 1 + (derLen e.body.length).length ∧
    e.whole = e.tag :: (derLen e.body.length ++ e.body) ∧ s = e.whole ++ e.rest := by
  unfold readASN1 at h
  match s, h with
  | tag :: lenByte :: tl, h =>
    simp only at h
    split at h
    · simp at h
    · rename_i ht
      have ht' : (tag &&& 0x1f == 0x1f) = false := by simpa using ht
      split at h
      · -- short form
        rename_i hs
        have hlt := short_lt lenByte hs
        cases hr : read (lenByte.toNat + 2) (tag :: lenByte :: tl) with
        | none => simp [hr] at h
        | some p =>
          obtain ⟨w, r⟩ := p
          simp only [hr, Option.some.injEq] at h
          subst h
          obtain ⟨h1, h2, h3⟩ := read_some _ _ _ _ hr
          have hw : w = tag :: lenByte :: tl.take lenByte.toNat := by
            rw [h3]; simp [List.take_succ_cons]
          have hb : (tl.take lenByte.toNat).length = lenByte.toNat := by
            have : w.length = 2 + (tl.take lenByte.toNat).length := by rw [hw]; simp; omega
            omega
          have hd : derLen lenByte.toNat = [lenByte] := by
            unfold derLen; simp [hlt]
          simp only [Elem.body]
          refine ⟨ht', ?_, ?_, ?_, h1⟩
          · rw [hw]; simp only [List.drop_succ_cons, List.drop_zero]; omega
          · rw [hw]; simp only [List.drop_succ_cons, List.drop_zero, hb, hd]; rfl
          · rw [hw]; simp only [List.drop_succ_cons, List.drop_zero, hb, hd]; rfl
      · -- long form
        rename_i hs
        obtain ⟨hform, _⟩ := long_form lenByte hs
        generalize hk : (lenByte &&& 0x7f).toNat = k at *
        split at h
        · simp at h
        · rename_i hc1
          simp only [Bool.or_eq_true, beq_iff_eq, decide_eq_true_eq, not_or] at hc1
          obtain ⟨⟨hk0, hk4⟩, hlen⟩ := hc1
          split at h
          · simp at h
          · rename_i h128
            split at h
            · simp at h
            · rename_i htop
              split at h
              · simp at h
              · rename_i hov
                generalize hlb : List.take k (List.drop 2 (tag :: lenByte :: tl)) = lb at *
                have hlbl : lb.length = k := by
                  rw [← hlb]; simp only [List.drop_succ_cons, List.drop_zero, List.length_take]
                  simp only [List.length_cons] at hlen; omega
                obtain ⟨tl', htl⟩ : ∃ tl', tl = lb ++ tl' := ⟨tl.drop k, by
                  rw [← hlb]; simp only [List.drop_succ_cons, List.drop_zero]
                  exact (List.take_append_drop k tl).symm⟩
                cases hr : read (2 + k + readUnsigned lb) (tag :: lenByte :: tl) with
                | none => simp [hr] at h
                | some p =>
                  obtain ⟨w, r⟩ := p
                  simp only [hr, Option.some.injEq] at h
                  subst h
                  obtain ⟨h1, h2, h3⟩ := read_some _ _ _ _ hr
                  have hw : w = tag :: lenByte :: (lb ++ tl'.take (readUnsigned lb)) := by
                    rw [h3, htl]
                    rw [show 2 + k + readUnsigned lb = (k + readUnsigned lb) + 1 + 1 by omega]
                    simp only [List.take_succ_cons]
                    rw [List.take_append, hlbl]
                    simp [List.take_of_length_le (show lb.length ≤ k + readUnsigned lb by omega)]
                  have hbl : (tl'.take (readUnsigned lb)).length = readUnsigned lb := by
                    have : w.length = 2 + k + (tl'.take (readUnsigned lb)).length := by
                      rw [hw]; simp [hlbl]; omega
                    omega
                  have hd := derLen_of_lenBytes k lb (by omega) (by omega) hlbl (by omega)
                    (by simpa using htop)
                  have hnov : readUnsigned lb ≤ 0xfffffff9 := by
                    have hlt := readUnsigned_lt lb
                    have hpow := readUnsigned_lt_pow lb (by omega)
                    rw [hlbl] at hpow
                    have hk4' : k = 1 ∨ k = 2 ∨ k = 3 ∨ k = 4 := by omega
                    have hp : k = 4 ∨ readUnsigned lb < 2 ^ 24 := by
                      rcases hk4' with rfl | rfl | rfl | rfl
                      · right; omega
                      · right; omega
                      · right; omega
                      · left; rfl
                    by_cases hbig : 2 + k + readUnsigned lb < 2 ^ 32
                    · omega
                    · exfalso; apply hov
                      have : (2 + k + readUnsigned lb) % 2 ^ 32 = 2 + k + readUnsigned lb - 2 ^ 32 := by omega
                      omega
                  simp only [Elem.body]
                  have hdrop : List.drop (2 + k) w = tl'.take (readUnsigned lb) := by
                    rw [hw, show 2 + k = k + 1 + 1 by omega]
                    simp only [List.drop_succ_cons]
                    rw [← hlbl, List.drop_left]
                  refine ⟨ht', ?_, ?_, ?_, h1⟩
                  · rw [hdrop, hbl]; exact hnov
                  · rw [hdrop, hbl, hd]; simp [hlbl]; omega
                  · rw [hdrop, hbl, hd, hw, ← hform]; simp
  | [], h => simp at h
  | [_], h => simp at h

/-! ## INTEGER: two's complement bounds and minimality -/

theorem natOfLE_append (l : Bytes) (x : UInt8) : natOfLE (l ++ [x]) = natOfLE l + 256 ^ l.length * x.toNat := by
  induction l with
  | nil => simp [natOfLE]
  | cons a l ih => simp only [List.cons_append, natOfLE, ih, List.length_cons, Nat.pow_succ]; 
                   rw [Nat.mul_add, ← Nat.mul_assoc, Nat.mul_comm 256 (256 ^ l.length)]; omega

theorem natOfBE_cons (b : UInt8) (r : Bytes) : natOfBE (b :: r) = b.toNat * 256 ^ r.length + natOfBE r := by
  simp only [natOfBE, List.reverse_cons, natOfLE_append, List.length_reverse]
  rw [Nat.mul_comm]; omega

theorem natOfLE_lt (l : Bytes) : natOfLE l < 256 ^ l.length := by
  induction l with
  | nil => simp [natOfLE]
  | cons a l ih =>
    have := a.toNat_lt
    simp only [natOfLE, List.length_cons, Nat.pow_succ]; omega

theorem natOfBE_lt (l : Bytes) : natOfBE l < 256 ^ l.length := by
  have := natOfLE_lt l.reverse
  simpa [natOfBE] using this

set_option maxRecDepth 100000 in
theorem neg_bit : ∀ n, n < 256 → ((UInt8.ofNat n &&& 0x80 == 0x80) = decide (128 ≤ n)) := by decide

theorem neg_bit' (b : UInt8) : (b &&& 0x80 == 0x80) = decide (128 ≤ b.toNat) := by
  obtain ⟨n, hn, rfl⟩ := byte_cases b
  rw [neg_bit n hn, toNat_ofNat_lt n hn]

theorem pos_bit' (b : UInt8) : (b &&& 0x80 == 0) = decide (b.toNat < 128) := by
  obtain ⟨n, hn, rfl⟩ := byte_cases b
  rw [short_bit n hn, toNat_ofNat_lt n hn]

/-- value of `b0 :: rest` with `P = 256^|rest|` -/
theorem twosVal_cons (b0 : UInt8) (rest : Bytes) :
    twosVal (b0 :: rest) =
      (if 128 ≤ b0.toNat then (b0.toNat : Int) - 256 else b0.toNat) * (256 ^ rest.length : Nat) + natOfBE rest := by
  show (if (b0 &&& 0x80 == 0x80) = true then (natOfBE (b0 :: rest) : Int) - (256 : Int) ^ (b0 :: rest).length
        else (natOfBE (b0 :: rest) : Int)) = _
  have hP : ((256 ^ rest.length : Nat) : Int) = (256 : Int) ^ rest.length := by rw [Int.natCast_pow]; rfl
  rw [neg_bit', natOfBE_cons, List.length_cons, Int.pow_succ, Int.natCast_add, Int.natCast_mul, hP]
  generalize (256 : Int) ^ rest.length = X
  generalize ((natOfBE rest : Nat) : Int) = r
  generalize hb : ((b0.toNat : Nat) : Int) = b
  have hbb : 128 ≤ b0.toNat ↔ 128 ≤ b := by omega
  by_cases h : 128 ≤ b0.toNat
  · rw [if_pos (by simpa using h), if_pos h, Int.sub_mul, Int.mul_comm X 256]; omega
  · rw [if_neg (by simpa using h), if_neg h]

/-- (A) an n-byte string denotes a value in [-2^(8n-1), 2^(8n-1)) = [-128·256^(n-1), 128·256^(n-1)) -/
theorem twosVal_range (b0 : UInt8) (rest : Bytes) :
    -(128 * (256 ^ rest.length : Nat) : Int) ≤ twosVal (b0 :: rest) ∧
      twosVal (b0 :: rest) < 128 * (256 ^ rest.length : Nat) := by
  rw [twosVal_cons]
  have h0 := b0.toNat_lt
  have hr := natOfBE_lt rest
  generalize (256 ^ rest.length : Nat) = P at *
  generalize natOfBE rest = r at *
  split
  · rename_i h
    have : ((b0.toNat : Int) - 256) * (P : Int) ≤ -1 * P := Int.mul_le_mul_of_nonneg_right (by omega) (by omega)
    have : -128 * (P : Int) ≤ ((b0.toNat : Int) - 256) * (P : Int) := Int.mul_le_mul_of_nonneg_right (by omega) (by omega)
    omega
  · rename_i h
    have : (b0.toNat : Int) * (P : Int) ≤ 127 * P := Int.mul_le_mul_of_nonneg_right (by omega) (by omega)
    have : 0 * (P : Int) ≤ (b0.toNat : Int) * (P : Int) := Int.mul_le_mul_of_nonneg_right (by omega) (by omega)
    omega


theorem cast_pow_succ (n : Nat) : ((256 ^ (n + 1) : Nat) : Int) = 256 * ((256 ^ n : Nat) : Int) := by
  rw [Nat.pow_succ, Int.natCast_mul, Int.mul_comm]; rfl

/-- explicit form of the minimality test -/
theorem checkASN1Integer_cons2 (b0 b1 : UInt8) (rest : Bytes) :
    checkASN1Integer (b0 :: b1 :: rest) =
      !((b0 == 0 && decide (b1.toNat < 128)) || (b0 == 0xff && decide (128 ≤ b1.toNat))) := by
  simp only [checkASN1Integer, pos_bit', neg_bit']

/-- (C) a redundant leading octet can be dropped without changing the value -/
theorem twosVal_redundant (b0 b1 : UInt8) (rest : Bytes)
    (h : checkASN1Integer (b0 :: b1 :: rest) = false) :
    twosVal (b0 :: b1 :: rest) = twosVal (b1 :: rest) := by
  rw [checkASN1Integer_cons2] at h
  rw [twosVal_cons b0, twosVal_cons b1, natOfBE_cons, List.length_cons, cast_pow_succ, Int.natCast_add,
    Int.natCast_mul]
  generalize ((256 ^ rest.length : Nat) : Int) = Q
  generalize ((natOfBE rest : Nat) : Int) = r
  have hb1 := b1.toNat_lt
  simp only [Bool.not_eq_false', Bool.or_eq_true, Bool.and_eq_true, beq_iff_eq, decide_eq_true_eq] at h
  rcases h with ⟨h0, h1⟩ | ⟨h0, h1⟩
  · subst h0
    rw [if_neg (by decide), if_neg (by omega)]
    simp
  · subst h0
    rw [if_pos (by decide), if_pos h1]
    have : (255 : UInt8).toNat = 255 := rfl
    rw [this, Int.sub_mul, Int.sub_mul]
    generalize ((b1.toNat : Nat) : Int) * Q = X
    omega

/-- (B) a minimal encoding of ≥ 2 octets denotes a value outside the range of one octet fewer -/
theorem twosVal_minimal_big (b0 b1 : UInt8) (rest : Bytes)
    (h : checkASN1Integer (b0 :: b1 :: rest) = true) :
    128 * ((256 ^ rest.length : Nat) : Int) ≤ twosVal (b0 :: b1 :: rest) ∨
      twosVal (b0 :: b1 :: rest) < -(128 * ((256 ^ rest.length : Nat) : Int)) := by
  rw [checkASN1Integer_cons2] at h
  rw [twosVal_cons b0, natOfBE_cons, List.length_cons, cast_pow_succ, Int.natCast_add, Int.natCast_mul]
  have hr := natOfBE_lt rest
  have hQ : 0 < 256 ^ rest.length := Nat.pow_pos (by decide)
  generalize (256 ^ rest.length : Nat) = Qn at *
  generalize natOfBE rest = rn at *
  have hb0 := b0.toNat_lt
  have hb1 := b1.toNat_lt
  simp only [Bool.not_eq_true', Bool.or_eq_false_iff, Bool.and_eq_false_iff, beq_eq_false_iff_ne,
    decide_eq_false_iff_not] at h
  obtain ⟨hz, hf⟩ := h
  have e0 : b0 = 0 ↔ b0.toNat = 0 := by
    constructor
    · intro h; subst h; rfl
    · intro h; exact UInt8.toNat_inj.mp (by simpa using h)
  have ef : b0 = 0xff ↔ b0.toNat = 255 := by
    constructor
    · intro h; subst h; rfl
    · intro h; exact UInt8.toNat_inj.mp (by simpa using h)
  have hz' : b0.toNat ≠ 0 ∨ ¬ b1.toNat < 128 := by
    rcases hz with h | h
    · left; intro h'; exact h (e0.mpr h')
    · right; exact h
  have hf' : b0.toNat ≠ 255 ∨ ¬ 128 ≤ b1.toNat := by
    rcases hf with h | h
    · left; intro h'; exact h (ef.mpr h')
    · right; exact h
  clear hz hf e0 ef
  generalize b0.toNat = x0 at *
  generalize b1.toNat = x1 at *
  have m1 : (0 : Int) ≤ (x1 : Int) * (Qn : Int) := Int.mul_nonneg (by omega) (by omega)
  have m2 : (x1 : Int) * (Qn : Int) ≤ 255 * (Qn : Int) := Int.mul_le_mul_of_nonneg_right (by omega) (by omega)
  by_cases hneg : 128 ≤ x0
  · rw [if_pos hneg]
    right
    by_cases h255 : x0 = 255
    · have : x1 < 128 := by rcases hf' with h | h <;> omega
      have m3 : (x1 : Int) * (Qn : Int) ≤ 127 * (Qn : Int) := Int.mul_le_mul_of_nonneg_right (by omega) (by omega)
      subst h255
      have : (((255 : Nat) : Int) - 256) * (256 * (Qn : Int)) = -256 * Qn := by omega
      rw [this]; omega
    · have m4 : ((x0 : Int) - 256) * (256 * (Qn : Int)) ≤ -2 * (256 * (Qn : Int)) :=
        Int.mul_le_mul_of_nonneg_right (by omega) (by omega)
      omega
  · rw [if_neg hneg]
    left
    by_cases h0 : x0 = 0
    · have : 128 ≤ x1 := by rcases hz' with h | h <;> omega
      have m3 : 128 * (Qn : Int) ≤ (x1 : Int) * (Qn : Int) := Int.mul_le_mul_of_nonneg_right (by omega) (by omega)
      subst h0
      simp only [Int.natCast_zero, Int.zero_mul, Int.zero_add]
      omega
    · have m4 : 1 * (256 * (Qn : Int)) ≤ (x0 : Int) * (256 * (Qn : Int)) :=
        Int.mul_le_mul_of_nonneg_right (by omega) (by omega)
      omega


/-! ## asn1Signed / asn1Unsigned bit by bit -/

set_option maxRecDepth 8192
theorem shiftStep_toNat (a : BitVec 64) (b : UInt8) (h : a.toNat * 256 + b.toNat < 2 ^ 64) :
    ((a <<< 8) ||| BitVec.ofNat 64 b.toNat).toNat = a.toNat * 256 + b.toNat := by
  have hb := b.toNat_lt
  rw [BitVec.toNat_or, BitVec.toNat_shiftLeft, BitVec.toNat_ofNat, Nat.shiftLeft_eq]
  have hlt : a.toNat * 2 ^ 8 < 2 ^ 64 := by omega
  have h1 : a.toNat * 2 ^ 8 % 2 ^ 64 = a.toNat * 2 ^ 8 := Nat.mod_eq_of_lt hlt
  have hlt2 : b.toNat < 2 ^ 64 := by omega
  have h2 : b.toNat % 2 ^ 64 = b.toNat := Nat.mod_eq_of_lt hlt2
  rw [h1, h2]
  have := Nat.shiftLeft_add_eq_or_of_lt hb a.toNat
  rw [Nat.shiftLeft_eq] at this
  rw [← this]

theorem foldl_shift_toNat : ∀ (bs : Bytes) (a : BitVec 64),
    a.toNat * 256 ^ bs.length + natOfBE bs < 2 ^ 64 →
    (bs.foldl (fun (a : BitVec 64) (b : UInt8) => (a <<< 8) ||| BitVec.ofNat 64 b.toNat) a).toNat
      = a.toNat * 256 ^ bs.length + natOfBE bs
  | [], a, _ => by simp [natOfBE, natOfLE]
  | b :: bs, a, h => by
    rw [natOfBE_cons, List.length_cons, Nat.pow_succ] at h
    have hp : 0 < 256 ^ bs.length := Nat.pow_pos (by decide)
    have e : a.toNat * (256 ^ bs.length * 256) + (b.toNat * 256 ^ bs.length + natOfBE bs)
        = (a.toNat * 256 + b.toNat) * 256 ^ bs.length + natOfBE bs := by
      rw [Nat.add_mul, Nat.mul_assoc, Nat.mul_comm 256 (256 ^ bs.length)]; omega
    rw [e] at h
    have hstep : a.toNat * 256 + b.toNat < 2 ^ 64 := by
      have := Nat.le_mul_of_pos_right (a.toNat * 256 + b.toNat) hp
      omega
    have hs := shiftStep_toNat a b hstep
    simp only [List.foldl_cons]
    rw [foldl_shift_toNat bs _ (by rw [hs]; exact h), hs, natOfBE_cons, List.length_cons, Nat.pow_succ, ← e]

theorem shiftIn_toNat (bs : Bytes) (h : natOfBE bs < 2 ^ 64) : (shiftIn bs).toNat = natOfBE bs := by
  unfold shiftIn
  rw [foldl_shift_toNat bs 0#64 (by simpa using h)]
  simp

/-- sign extension by `<<= s; >>= s` (arithmetic) of an `8L`-bit value -/
theorem signExtend (x : BitVec 64) (L N : Nat) (hL1 : 1 ≤ L) (hL8 : L ≤ 8) (hx : x.toNat = N) (hN : N < 256 ^ L) :
    ((x <<< (64 - L * 8)).sshiftRight (64 - L * 8)).toInt
      = if 128 * 256 ^ (L - 1) ≤ N then (N : Int) - (256 : Int) ^ L else N := by
  have hcases : L = 1 ∨ L = 2 ∨ L = 3 ∨ L = 4 ∨ L = 5 ∨ L = 6 ∨ L = 7 ∨ L = 8 := by omega
  rw [BitVec.toInt_sshiftRight, Int.shiftRight_eq_div_pow, BitVec.toInt_eq_toNat_cond, BitVec.toNat_shiftLeft,
    Nat.shiftLeft_eq, hx]
  rcases hcases with rfl | rfl | rfl | rfl | rfl | rfl | rfl | rfl <;>
  · simp only [Nat.reduceMul, Nat.reduceSub, Nat.reducePow] at hN ⊢
    rw [Nat.mod_eq_of_lt (by omega)]
    split <;> split <;> omega


theorem natOfBE_lt_of_len (bs : Bytes) (k : Nat) (h : bs.length ≤ k) : natOfBE bs < 256 ^ k :=
  Nat.lt_of_lt_of_le (natOfBE_lt bs) (Nat.pow_le_pow_right (by decide) h)

/-- **asn1Signed, bit by bit = two's-complement value** -/
theorem asn1Signed_spec (bs : Bytes) (h : bs ≠ []) :
    asn1Signed bs = if bs.length > 8 then none else some (twosVal bs) := by
  unfold asn1Signed
  by_cases hl : bs.length > 8
  · simp [hl]
  · simp only [hl, if_false, Option.some.injEq]
    match bs, h with
    | b0 :: rest, _ =>
      have hN := natOfBE_lt (b0 :: rest)
      have h64 : natOfBE (b0 :: rest) < 2 ^ 64 := by
        have := natOfBE_lt_of_len (b0 :: rest) 8 (by omega)
        omega
      have hx := shiftIn_toNat (b0 :: rest) h64
      rw [signExtend _ (b0 :: rest).length (natOfBE (b0 :: rest)) (by simp) (by omega) hx hN]
      show _ = (if (b0 &&& 0x80 == 0x80) = true then (natOfBE (b0 :: rest) : Int) - (256 : Int) ^ (b0 :: rest).length
        else (natOfBE (b0 :: rest) : Int))
      rw [neg_bit']
      have hr := natOfBE_lt rest
      have hb := b0.toNat_lt
      have key : 128 * 256 ^ ((b0 :: rest).length - 1) ≤ natOfBE (b0 :: rest) ↔ 128 ≤ b0.toNat := by
        rw [natOfBE_cons]
        simp only [List.length_cons, Nat.add_sub_cancel]
        generalize 256 ^ rest.length = P at *
        generalize natOfBE rest = r at *
        constructor
        · intro h1
          by_cases h2 : 128 ≤ b0.toNat
          · exact h2
          · exfalso
            have : b0.toNat * P ≤ 127 * P := Nat.mul_le_mul_right P (by omega)
            omega
        · intro h2
          have : 128 * P ≤ b0.toNat * P := Nat.mul_le_mul_right P h2
          omega
      by_cases h2 : 128 ≤ b0.toNat
      · rw [if_pos (key.mpr h2), if_pos (by simpa using h2)]
      · rw [if_neg (fun h' => h2 (key.mp h')), if_neg (by simpa using h2)]

/-- **asn1Unsigned, bit by bit = big-endian value** -/
theorem asn1Unsigned_spec (b0 : UInt8) (rest : Bytes) :
    asn1Unsigned (b0 :: rest) =
      if (b0 :: rest).length > 9 || ((b0 :: rest).length == 9 && b0 != 0) then none else
      if b0 &&& 0x80 != 0 then none else some (natOfBE (b0 :: rest)) := by
  unfold asn1Unsigned
  simp only
  split
  · rfl
  · rename_i hc
    split
    · rfl
    · simp only [Bool.or_eq_true, decide_eq_true_eq, Bool.and_eq_true, beq_iff_eq, bne_iff_ne, ne_eq,
        not_or, not_and, Decidable.not_not] at hc
      obtain ⟨hl, h9⟩ := hc
      have h64 : natOfBE (b0 :: rest) < 2 ^ 64 := by
        by_cases hl9 : (b0 :: rest).length = 9
        · have hz := h9 hl9
          subst hz
          rw [natOfBE_cons]
          have := natOfBE_lt_of_len rest 8 (by simp only [List.length_cons] at hl9; omega)
          simp only [show (0 : UInt8).toNat = 0 from rfl, Nat.zero_mul, Nat.zero_add]
          omega
        · have := natOfBE_lt_of_len (b0 :: rest) 8 (by omega)
          omega
      rw [shiftIn_toNat _ h64]

/-- **checkASN1Integer = DER minimality**: the contents are accepted iff they are a shortest non-empty
    two's-complement representation of their value. -/
theorem checkASN1Integer_iff_shortest (bs : Bytes) :
    checkASN1Integer bs = true ↔
      bs ≠ [] ∧ ∀ bs' : Bytes, bs' ≠ [] → twosVal bs' = twosVal bs → bs.length ≤ bs'.length := by
  match bs with
  | [] => simp [checkASN1Integer]
  | [a] =>
    simp only [checkASN1Integer, ne_eq, List.cons_ne_self, not_false_eq_true, List.length_cons,
      List.length_nil, true_and, true_iff, reduceCtorEq]
    intro bs' hne _
    cases bs' with
    | nil => exact absurd rfl hne
    | cons c r => simp
  | b0 :: b1 :: rest =>
    constructor
    · intro h
      refine ⟨by simp, ?_⟩
      intro bs' hne hv
      cases bs' with
      | nil => exact absurd rfl hne
      | cons c0 rest' =>
        by_cases hlen : rest'.length ≤ rest.length
        · exfalso
          have hA := twosVal_range c0 rest'
          have hB := twosVal_minimal_big b0 b1 rest h
          rw [hv] at hA
          have hmono : (256 ^ rest'.length : Nat) ≤ 256 ^ rest.length := Nat.pow_le_pow_right (by decide) hlen
          generalize twosVal (b0 :: b1 :: rest) = v at *
          generalize (256 ^ rest'.length : Nat) = P' at *
          generalize (256 ^ rest.length : Nat) = P at *
          omega
        · simp only [List.length_cons]; omega
    · intro ⟨_, h⟩
      by_cases hc : checkASN1Integer (b0 :: b1 :: rest) = true
      · exact hc
      · have hC := twosVal_redundant b0 b1 rest (by simpa using hc)
        have := h (b1 :: rest) (by simp) hC.symm
        simp only [List.length_cons] at this
        omega

/-- the accepted encoding of a value is unique -/
theorem checkASN1Integer_unique (a b : Bytes) (ha : checkASN1Integer a = true) (hb : checkASN1Integer b = true)
    (hv : twosVal a = twosVal b) : a.length = b.length := by
  obtain ⟨ha0, ha1⟩ := (checkASN1Integer_iff_shortest a).mp ha
  obtain ⟨hb0, hb1⟩ := (checkASN1Integer_iff_shortest b).mp hb
  have := ha1 b hb0 hv.symm
  have := hb1 a ha0 hv
  omega

/-! ## integer builders -/
theorem top_bit_iff (b0 : UInt8) (rest : Bytes) :
    128 * 256 ^ rest.length ≤ natOfBE (b0 :: rest) ↔ 128 ≤ b0.toNat := by
  have hr := natOfBE_lt rest
  rw [natOfBE_cons]
  generalize 256 ^ rest.length = P at *
  generalize natOfBE rest = r at *
  constructor
  · intro h1
    by_cases h2 : 128 ≤ b0.toNat
    · exact h2
    · exfalso
      have : b0.toNat * P ≤ 127 * P := Nat.mul_le_mul_right P (by omega)
      omega
  · intro h2
    have : 128 * P ≤ b0.toNat * P := Nat.mul_le_mul_right P h2
    omega

/-- two's-complement value from the big-endian value -/
theorem twosVal_of_natOfBE (bs : Bytes) (hne : bs ≠ []) :
    twosVal bs = if 128 * 256 ^ (bs.length - 1) ≤ natOfBE bs
      then (natOfBE bs : Int) - ((256 ^ bs.length : Nat) : Int) else natOfBE bs := by
  match bs, hne with
  | b0 :: rest, _ =>
    have e : twosVal (b0 :: rest) = if (b0 &&& 0x80 == 0x80) = true then
        (natOfBE (b0 :: rest) : Int) - (256 : Int) ^ (b0 :: rest).length else (natOfBE (b0 :: rest) : Int) := rfl
    have hP : ((256 ^ (b0 :: rest).length : Nat) : Int) = (256 : Int) ^ (b0 :: rest).length := by
      rw [Int.natCast_pow]; rfl
    rw [e, neg_bit', hP]
    simp only [List.length_cons, Nat.add_sub_cancel]
    by_cases h : 128 ≤ b0.toNat
    · rw [if_pos (by simpa using h), if_pos ((top_bit_iff b0 rest).mpr h)]
    · rw [if_neg (by simpa using h), if_neg (fun h' => h ((top_bit_iff b0 rest).mp h'))]

theorem intBytes_length (n : Nat) (v : Int) : (intBytes n v).length = n := by
  simp [intBytes, natToBE, natToLE_length]

theorem natOfBE_natToBE' (k l : Nat) : natOfBE (natToBE k l) = l % 256 ^ k := by
  simp [natOfBE, natToBE, natOfLE_natToLE]

/-- the low `n` octets of `v` denote `v` when `v` fits `8n` bits two's complement -/
theorem twosVal_intBytes (n : Nat) (v : Int) (hn : 1 ≤ n)
    (hlo : -(128 * ((256 ^ (n - 1) : Nat) : Int)) ≤ v) (hhi : v < 128 * ((256 ^ (n - 1) : Nat) : Int)) :
    twosVal (intBytes n v) = v := by
  have hne : intBytes n v ≠ [] := by
    intro h; have := intBytes_length n v; rw [h] at this; simp at this; omega
  rw [twosVal_of_natOfBE _ hne, intBytes_length]
  unfold intBytes
  rw [natOfBE_natToBE']
  obtain ⟨m, rfl⟩ : ∃ m, n = m + 1 := ⟨n - 1, by omega⟩
  simp only [Nat.add_sub_cancel] at *
  have hM : ((256 ^ (m + 1) : Nat) : Int) = 256 * ((256 ^ m : Nat) : Int) := cast_pow_succ m
  have hMi : (256 : Int) ^ (m + 1) = ((256 ^ (m + 1) : Nat) : Int) := by rw [Int.natCast_pow]; rfl
  rw [hMi, hM]
  have hKpos : 0 < ((256 ^ m : Nat) : Int) := by
    have : 0 < 256 ^ m := Nat.pow_pos (by decide)
    omega
  have hnat : (256 ^ (m + 1) : Nat) = 256 * 256 ^ m := by rw [Nat.pow_succ, Nat.mul_comm]
  rw [hnat]
  generalize hK : (256 ^ m : Nat) = K at *
  by_cases hv : 0 ≤ v
  · have e1 : v % (256 * (K : Int)) = v := Int.emod_eq_of_lt hv (by omega)
    rw [e1]
    have e2 : v.toNat % (256 * K) = v.toNat := Nat.mod_eq_of_lt (by omega)
    rw [e2, if_neg (by omega)]
    omega
  · have e1 : v % (256 * (K : Int)) = v + 256 * K := by
      rw [← Int.add_emod_right]
      exact Int.emod_eq_of_lt (by omega) (by omega)
    rw [e1]
    have e2 : (v + 256 * (K : Int)).toNat % (256 * K) = (v + 256 * (K : Int)).toNat := Nat.mod_eq_of_lt (by omega)
    rw [e2, if_pos (by omega)]
    omega

/-- the range of `n`-octet two's complement, `R(n) = [-128·256^(n-1), 128·256^(n-1))` -/
def inR (n : Nat) (v : Int) : Prop :=
  -(128 * ((256 ^ (n - 1) : Nat) : Int)) ≤ v ∧ v < 128 * ((256 ^ (n - 1) : Nat) : Int)

/-- the length loop of addASN1Signed finds the least `n` with `v ∈ R(n)` -/
theorem signedLen_spec : ∀ (fuel : Nat) (v : Int), inR (fuel + 1) v →
    1 ≤ signedLen fuel v ∧ signedLen fuel v ≤ fuel + 1 ∧ inR (signedLen fuel v) v ∧
      (2 ≤ signedLen fuel v → ¬ inR (signedLen fuel v - 1) v)
  | 0, v, h => by simpa [signedLen, inR] using h
  | fuel + 1, v, h => by
    unfold signedLen
    by_cases hc : (decide (v ≥ 0x80) || decide (v < -0x80)) = true
    · rw [if_pos hc]
      simp only [Bool.or_eq_true, decide_eq_true_eq] at hc
      have hin : inR (fuel + 1) (v / 256) := by
        unfold inR at h ⊢
        simp only [Nat.add_sub_cancel] at h ⊢
        rw [cast_pow_succ] at h
        generalize ((256 ^ fuel : Nat) : Int) = K at *
        constructor <;> omega
      obtain ⟨i1, i2, i3, i4⟩ := signedLen_spec fuel (v / 256) hin
      generalize signedLen fuel (v / 256) = n' at *
      refine ⟨by omega, by omega, ?_, ?_⟩
      · unfold inR at i3 ⊢
        rw [show 1 + n' - 1 = (n' - 1) + 1 by omega, cast_pow_succ]
        generalize ((256 ^ (n' - 1) : Nat) : Int) = K at *
        constructor <;> omega
      · intro _
        rw [show 1 + n' - 1 = n' by omega]
        by_cases hn : 2 ≤ n'
        · have := i4 hn
          unfold inR at this ⊢
          rw [show n' - 1 = (n' - 1 - 1) + 1 by omega, cast_pow_succ]
          generalize ((256 ^ (n' - 1 - 1) : Nat) : Int) = K at *
          omega
        · have : n' = 1 := by omega
          subst this
          unfold inR
          simp only [Nat.sub_self, Nat.pow_zero]
          omega
    · rw [if_neg hc]
      simp only [Bool.or_eq_true, decide_eq_true_eq, not_or, Int.not_lt] at hc
      refine ⟨by omega, by omega, ?_, by omega⟩
      unfold inR
      simp only [Nat.sub_self, Nat.pow_zero]
      omega

theorem inR_mono (a b : Nat) (h : a ≤ b) (v : Int) (hv : inR a v) : inR b v := by
  unfold inR at *
  have : (256 ^ (a - 1) : Nat) ≤ 256 ^ (b - 1) := Nat.pow_le_pow_right (by decide) (by omega)
  generalize (256 ^ (a - 1) : Nat) = A at *
  generalize (256 ^ (b - 1) : Nat) = B at *
  omega

/-- `intBytes n v` for the least `n` with `v ∈ R(n)` is the accepted (shortest) encoding of `v` -/
theorem intBytes_minimal (n : Nat) (v : Int) (hn : 1 ≤ n) (hin : inR n v) (hmin : 2 ≤ n → ¬ inR (n - 1) v) :
    checkASN1Integer (intBytes n v) = true ∧ twosVal (intBytes n v) = v := by
  have hv := twosVal_intBytes n v hn hin.1 hin.2
  refine ⟨?_, hv⟩
  rw [checkASN1Integer_iff_shortest]
  refine ⟨by intro h; have := intBytes_length n v; rw [h] at this; simp at this; omega, ?_⟩
  intro bs' hne hval
  rw [intBytes_length]
  by_cases hle : n ≤ bs'.length
  · exact hle
  · exfalso
    match bs', hne with
    | c0 :: rest', _ =>
      have hA := twosVal_range c0 rest'
      rw [hval, hv] at hA
      have : inR (rest'.length + 1) v := by
        unfold inR; simp only [Nat.add_sub_cancel]; exact hA
      have := inR_mono (rest'.length + 1) (n - 1) (by simp only [List.length_cons] at hle; omega) v this
      exact hmin (by simp only [List.length_cons] at hle; omega) this


/-! ## OBJECT IDENTIFIER -/
set_option maxRecDepth 100000
/-! ## base-128 sub-identifiers -/

theorem b7_lo : ∀ n, n < 128 →
    ((UInt8.ofNat n &&& 0x7f).toNat = n ∧ (UInt8.ofNat n &&& 0x80 == 0) = true ∧
     ((UInt8.ofNat n ||| 0x80) &&& 0x7f).toNat = n ∧ ((UInt8.ofNat n ||| 0x80) &&& 0x80 == 0) = false ∧
     ((UInt8.ofNat n ||| 0x80 == 0x80) = decide (n = 0)) ∧ (UInt8.ofNat n == 0x80) = false) := by decide

theorem b7_split : ∀ n, n < 256 →
    (UInt8.ofNat n = if (UInt8.ofNat n &&& 0x80 == 0) = true then UInt8.ofNat ((UInt8.ofNat n &&& 0x7f).toNat)
      else UInt8.ofNat ((UInt8.ofNat n &&& 0x7f).toNat) ||| 0x80) ∧ (UInt8.ofNat n &&& 0x7f).toNat < 128 := by decide

theorem b7_split' (b : UInt8) :
    (b = if (b &&& 0x80 == 0) = true then UInt8.ofNat ((b &&& 0x7f).toNat)
      else UInt8.ofNat ((b &&& 0x7f).toNat) ||| 0x80) ∧ (b &&& 0x7f).toNat < 128 := by
  obtain ⟨n, hn, rfl⟩ := byte_cases b
  exact b7_split n hn


theorem div_pow_succ (n k : Nat) : n / 128 ^ (k + 1) = n / 128 ^ k / 128 := by
  rw [Nat.pow_succ, Nat.div_div_eq_div_mul]

theorem div_pow_le (n k : Nat) (hk : 1 ≤ k) : n / 128 ^ k ≤ n / 128 := by
  apply Nat.div_le_div_left _ (by decide)
  calc 128 = 128 ^ 1 := rfl
    _ ≤ 128 ^ k := Nat.pow_le_pow_right (by decide) hk

/-- encoder → reader, generalised over the digits still to come -/
theorem readBase128_digits : ∀ (L fuel : Nat) (first : Bool) (n : Nat) (s : Bytes),
    1 ≤ L → L ≤ fuel → n / 128 < 2 ^ 24 → (first = true → L = 1 ∨ n / 128 ^ (L - 1) % 128 ≠ 0) →
    readBase128 fuel first (n / 128 ^ L) (base128Digits L n ++ s) = some (n, s)
  | 0, _, _, _, _, h, _, _, _ => by omega
  | k + 1, 0, _, _, _, _, h, _, _ => by omega
  | k + 1, f + 1, first, n, s, _, hf, hn, hfirst => by
    have hd : n / 128 ^ k % 128 < 128 := Nat.mod_lt _ (by decide)
    obtain ⟨f1, f2, f3, f4, f5, f6⟩ := b7_lo _ hd
    have hret : ¬ (n / 128 ^ (k + 1) ≥ 2 ^ 24) := by
      have := div_pow_le n (k + 1) (by omega); omega
    have hstep : n / 128 ^ (k + 1) * 128 + n / 128 ^ k % 128 = n / 128 ^ k := by
      rw [div_pow_succ]; exact Nat.div_add_mod' _ _
    by_cases hk : k = 0
    · subst hk
      simp only [base128Digits, bne_self_eq_false, Bool.false_eq_true, if_false, List.cons_append, List.nil_append,
        readBase128, hret, f6, Bool.and_false, f1, f2, if_true]
      simp only [Nat.pow_zero, Nat.div_one] at hstep ⊢
      rw [hstep]
    · have hk1 : 1 ≤ k := by omega
      have hnz : n / 128 ^ k % 128 ≠ 0 ∨ first = false := by
        cases first with
        | false => right; rfl
        | true =>
          left
          rcases hfirst rfl with h | h
          · omega
          · simpa using h
      have hlead : (first && (UInt8.ofNat (n / 128 ^ k % 128) ||| 0x80 == 0x80)) = false := by
        rw [f5]
        rcases hnz with h | h
        · simp [h]
        · simp [h]
      have ih := readBase128_digits k f false n s hk1 (by omega) hn (by simp)
      simp only [base128Digits, bne_iff_ne, ne_eq, hk, not_false_eq_true, if_true, List.cons_append,
        readBase128, hret, if_false, hlead, Bool.false_eq_true, f3, f4, hstep]
      exact ih


/-- reader → encoder, generalised: whatever is accepted is `L` digits of the returned value -/
theorem readBase128_sound : ∀ (fuel : Nat) (first : Bool) (ret : Nat) (s : Bytes) (v : Nat) (s' : Bytes),
    readBase128 fuel first ret s = some (v, s') →
    ∃ L, 1 ≤ L ∧ L ≤ fuel ∧ v / 128 ^ L = ret ∧ s = base128Digits L v ++ s' ∧ v / 128 < 2 ^ 24 ∧
      (first = true → L = 1 ∨ v / 128 ^ (L - 1) % 128 ≠ 0)
  | _, _, _, [], _, _, h => by cases ‹Nat› <;> simp [readBase128] at h
  | 0, _, _, _ :: _, _, _, h => by simp [readBase128] at h
  | f + 1, first, ret, b :: t, v, s', h => by
    unfold readBase128 at h
    by_cases hret : ret ≥ 2 ^ 24
    · rw [if_pos hret] at h; cases h
    · rw [if_neg hret] at h
      by_cases hlead : (first && b == 0x80) = true
      · rw [if_pos hlead] at h; cases h
      · rw [if_neg hlead] at h
        obtain ⟨hsplit, hd⟩ := b7_split' b
        obtain ⟨f1, f2, f3, f4, f5, f6⟩ := b7_lo _ hd
        generalize hdv : (b &&& 0x7f).toNat = d at *
        simp only at h
        by_cases htop : (b &&& 0x80 == 0) = true
        · rw [if_pos htop] at h
          simp only [Option.some.injEq, Prod.mk.injEq] at h
          obtain ⟨hv, hs⟩ := h
          subst hv hs
          rw [if_pos htop] at hsplit
          refine ⟨1, by omega, by omega, by simp only [Nat.pow_one]; omega, ?_, by omega, fun _ => Or.inl rfl⟩
          simp only [base128Digits, bne_self_eq_false, Bool.false_eq_true, if_false, Nat.pow_zero, Nat.div_one,
            List.cons_append, List.nil_append]
          have : (ret * 128 + d) % 128 = d := by omega
          rw [this, ← hsplit]
        · rw [if_neg htop] at h
          rw [if_neg htop] at hsplit
          obtain ⟨L', l1, l2, l3, l4, l5, _⟩ := readBase128_sound f false (ret * 128 + d) t v s' h
          have hdig : v / 128 ^ L' % 128 = d := by rw [l3]; omega
          refine ⟨L' + 1, by omega, by omega, by rw [div_pow_succ, l3]; omega, ?_, l5, ?_⟩
          · have hne : (L' != 0) = true := by simp; omega
            simp only [base128Digits, hne, if_true, List.cons_append, hdig]
            rw [← hsplit, ← l4]
          · intro hf
            right
            simp only [Nat.add_sub_cancel]
            rw [hdig]
            intro hz
            apply hlead
            rw [hf, hsplit, f5, hz]; simp


theorem base128Len_zero (fuel : Nat) : base128Len fuel 0 = 0 := by cases fuel <;> simp [base128Len]

theorem base128Len_spec : ∀ (fuel i : Nat), i < 128 ^ fuel →
    i < 128 ^ base128Len fuel i ∧ (0 < i → 1 ≤ base128Len fuel i ∧ 128 ^ (base128Len fuel i - 1) ≤ i)
  | 0, i, h => by simp at h; subst h; simp [base128Len]
  | fuel + 1, i, h => by
    unfold base128Len
    by_cases hi : i > 0
    · rw [if_pos hi]
      have hlt : i / 128 < 128 ^ fuel := by rw [Nat.pow_succ] at h; omega
      obtain ⟨h1, h2⟩ := base128Len_spec fuel (i / 128) hlt
      generalize hL : base128Len fuel (i / 128) = L' at *
      refine ⟨by rw [Nat.add_comm, Nat.pow_succ]; omega, fun _ => ⟨by omega, ?_⟩⟩
      rw [show 1 + L' - 1 = L' by omega]
      by_cases hq : 0 < i / 128
      · obtain ⟨l1, l2⟩ := h2 hq
        obtain ⟨m, rfl⟩ : ∃ m, L' = m + 1 := ⟨L' - 1, by omega⟩
        simp only [Nat.add_sub_cancel] at l2
        rw [Nat.pow_succ]; omega
      · have : i / 128 = 0 := by omega
        rw [this, base128Len_zero] at hL
        subst hL; simp; omega
    · rw [if_neg hi]; simp; omega

/-- number of base-128 digits AddASN1ObjectIdentifier writes for `v` -/
def b128L (v : Nat) : Nat := if v = 0 then 1 else base128Len 10 v

theorem addBase128_nat (v : Nat) : addBase128 (v : Int) = base128Digits (b128L v) v := by
  unfold addBase128 b128L
  simp only [show ¬ ((v : Int) < 0) by omega, if_false, Int.toNat_natCast]
  by_cases h : v = 0 <;> simp [h]

theorem base128Digits_length : ∀ (L n : Nat), (base128Digits L n).length = L
  | 0, _ => rfl
  | L + 1, n => by simp [base128Digits, base128Digits_length L n]

theorem pow128_unique (a b v : Nat) (ha : 1 ≤ a) (hb : 1 ≤ b) (h1 : 128 ^ (a - 1) ≤ v) (h2 : v < 128 ^ a)
    (h3 : 128 ^ (b - 1) ≤ v) (h4 : v < 128 ^ b) : a = b := by
  by_cases hab : a < b
  · have : 128 ^ a ≤ 128 ^ (b - 1) := Nat.pow_le_pow_right (by decide) (by omega)
    omega
  · by_cases hba : b < a
    · have : 128 ^ b ≤ 128 ^ (a - 1) := Nat.pow_le_pow_right (by decide) (by omega)
      omega
    · omega

theorem b128L_spec (v : Nat) (hv : v < 2 ^ 35) :
    1 ≤ b128L v ∧ b128L v ≤ 5 ∧ v < 128 ^ b128L v ∧ (0 < v → 128 ^ (b128L v - 1) ≤ v) := by
  unfold b128L
  by_cases h0 : v = 0
  · subst h0; simp
  · rw [if_neg h0]
    obtain ⟨h1, h2⟩ := base128Len_spec 10 v (by omega)
    obtain ⟨h3, h4⟩ := h2 (by omega)
    refine ⟨h3, ?_, h1, fun _ => h4⟩
    by_cases h5 : base128Len 10 v ≤ 5
    · exact h5
    · exfalso
      have : 128 ^ 5 ≤ 128 ^ (base128Len 10 v - 1) := Nat.pow_le_pow_right (by decide) (by omega)
      omega

/-- **sub-identifier round trip**: what AddASN1ObjectIdentifier writes for `v < 2^31` is read back as `v` -/
theorem readBase128_add (v : Nat) (hv : v < 2 ^ 31) (s : Bytes) :
    readBase128 5 true 0 (addBase128 (v : Int) ++ s) = some (v, s) := by
  obtain ⟨l1, l2, l3, l4⟩ := b128L_spec v (by omega)
  rw [addBase128_nat]
  have h0 : v / 128 ^ b128L v = 0 := Nat.div_eq_of_lt l3
  have := readBase128_digits (b128L v) 5 true v s l1 l2 (by omega) (by
    intro _
    by_cases h1 : b128L v = 1
    · left; exact h1
    · right
      have hpos : 0 < v := by
        by_cases hz : v = 0
        · subst hz; simp [b128L] at h1
        · omega
      have hge := l4 hpos
      have hp : 0 < 128 ^ (b128L v - 1) := Nat.pow_pos (by decide)
      have hq : 1 ≤ v / 128 ^ (b128L v - 1) := (Nat.le_div_iff_mul_le hp).mpr (by omega)
      have hq2 : v / 128 ^ (b128L v - 1) < 128 := by
        rw [Nat.div_lt_iff_lt_mul hp]
        have : 128 ^ b128L v = 128 ^ (b128L v - 1) * 128 := by
          rw [← Nat.pow_succ]; congr 1; omega
        omega
      omega)
  rw [h0] at this
  exact this

/-- **sub-identifier acceptance**: `readBase128Int` accepts exactly the minimal base-128 form of values < 2^31 -/
theorem readBase128_iff (s s' : Bytes) (v : Nat) :
    readBase128 5 true 0 s = some (v, s') ↔ v < 2 ^ 31 ∧ s = addBase128 (v : Int) ++ s' := by
  constructor
  · intro h
    obtain ⟨L, l1, l2, l3, l4, l5, l6⟩ := readBase128_sound 5 true 0 s v s' h
    have hv : v < 2 ^ 31 := by omega
    refine ⟨hv, ?_⟩
    rw [addBase128_nat, l4]
    suffices hL : L = b128L v by rw [hL]
    obtain ⟨c1, c2, c3, c4⟩ := b128L_spec v (by omega)
    have hp : 0 < 128 ^ L := Nat.pow_pos (by decide)
    have hlt : v < 128 ^ L := by
      by_cases h : v < 128 ^ L
      · exact h
      · exfalso
        have : 1 ≤ v / 128 ^ L := (Nat.le_div_iff_mul_le hp).mpr (by omega)
        omega
    by_cases hz : v = 0
    · subst hz
      rcases l6 rfl with h | h
      · rw [h]; simp [b128L]
      · simp at h
    · have hge : 128 ^ (L - 1) ≤ v := by
        rcases l6 rfl with h | h
        · rw [h]; simp; omega
        · have hp' : 0 < 128 ^ (L - 1) := Nat.pow_pos (by decide)
          by_cases hh : 128 ^ (L - 1) ≤ v
          · exact hh
          · exfalso; apply h
            rw [Nat.div_eq_of_lt (by omega)]
      exact pow128_unique L (b128L v) v l1 c1 hge hlt (c4 (by omega)) c3
  · rintro ⟨hv, rfl⟩
    exact readBase128_add v hv s'


/-- concatenated minimal base-128 forms -/
def encSubs (xs : List Nat) : Bytes := (xs.map fun (x : Nat) => addBase128 (x : Int)).flatten

theorem b128L_pos (v : Nat) : 1 ≤ b128L v := by
  unfold b128L
  by_cases h : v = 0
  · simp [h]
  · rw [if_neg h]; unfold base128Len; rw [if_pos (by omega)]; omega

theorem addBase128_length_pos (v : Nat) : 1 ≤ (addBase128 (v : Int)).length := by
  rw [addBase128_nat, base128Digits_length]; exact b128L_pos v

theorem readArcs_enc : ∀ (xs : List Nat) (fuel : Nat), (∀ x ∈ xs, x < 2 ^ 31) → (encSubs xs).length ≤ fuel →
    readArcs fuel (encSubs xs) = some xs
  | [], fuel, _, _ => by cases fuel <;> simp [encSubs, readArcs]
  | x :: xs, fuel, hx, hf => by
    have hpos := addBase128_length_pos x
    have hcons : encSubs (x :: xs) = addBase128 (x : Int) ++ encSubs xs := by simp [encSubs]
    rw [hcons] at hf ⊢
    simp only [List.length_append] at hf
    obtain ⟨f, rfl⟩ : ∃ f, fuel = f + 1 := ⟨fuel - 1, by omega⟩
    have hne : addBase128 (x : Int) ++ encSubs xs ≠ [] := by
      intro h; have := congrArg List.length h; rw [List.length_append, List.length_nil] at this; omega
    have hrd := readBase128_add x (hx x (by simp)) (encSubs xs)
    have ih := readArcs_enc xs f (fun y hy => hx y (by simp [hy])) (by omega)
    match hs : addBase128 (x : Int) ++ encSubs xs, hne with
    | b :: t, _ =>
      rw [hs] at hrd
      simp only [readArcs, hrd, ih, Option.map_some]

theorem readArcs_sound : ∀ (fuel : Nat) (s : Bytes) (xs : List Nat), readArcs fuel s = some xs →
    (∀ x ∈ xs, x < 2 ^ 31) ∧ s = encSubs xs
  | fuel, [], xs, h => by
    have : xs = [] := by cases fuel <;> simp [readArcs] at h <;> exact h
    subst this; simp [encSubs]
  | 0, _ :: _, xs, h => by simp [readArcs] at h
  | f + 1, b :: t, xs, h => by
    simp only [readArcs] at h
    cases hr : readBase128 5 true 0 (b :: t) with
    | none => simp [hr] at h
    | some p =>
      obtain ⟨v, s'⟩ := p
      simp only [hr] at h
      cases hrest : readArcs f s' with
      | none => simp [hrest] at h
      | some ys =>
        simp only [hrest, Option.map_some, Option.some.injEq] at h
        subst h
        obtain ⟨hv, hs⟩ := (readBase128_iff (b :: t) s' v).mp hr
        obtain ⟨i1, i2⟩ := readArcs_sound f s' ys hrest
        refine ⟨?_, ?_⟩
        · intro x hx
          simp only [List.mem_cons] at hx
          rcases hx with rfl | hx
          · exact hv
          · exact i1 x hx
        · rw [hs, i2]; simp [encSubs]

/-- the arcs an OBJECT IDENTIFIER reader can return -/
def oidValid : List Nat → Prop
  | a :: b :: rest => a ≤ 2 ∧ (a < 2 → b < 40) ∧ 40 * a + b < 2 ^ 31 ∧ ∀ x ∈ rest, x < 2 ^ 31
  | _ => False

/-- X.690 §8.19 contents octets: first sub-identifier 40·a+b, then the other arcs, each minimal base-128 -/
def encOID : List Nat → Bytes
  | a :: b :: rest => addBase128 ((40 * a + b : Nat) : Int) ++ encSubs rest
  | _ => []

/-- **oid_iff**: ReadASN1ObjectIdentifier returns `arcs` iff the input starts with an OBJECT IDENTIFIER element
    whose contents are exactly the minimal base-128 encoding of `arcs` (first two arcs packed as 40a+b, a ≤ 2,
    b < 40 unless a = 2, every sub-identifier < 2^31) -/
theorem oid_iff (s r : Bytes) (arcs : List Nat) :
    readOID s = some (arcs, r) ↔ oidValid arcs ∧ readASN1Tag 6 s = some (encOID arcs, r) := by
  unfold readOID
  constructor
  · intro h
    cases hr : readASN1Tag 6 s with
    | none => simp [hr] at h
    | some p =>
      obtain ⟨body, r'⟩ := p
      simp only [hr] at h
      by_cases he : body.isEmpty = true
      · simp [he] at h
      · rw [if_neg he] at h
        cases hb : readBase128 5 true 0 body with
        | none => simp [hb] at h
        | some q =>
          obtain ⟨v, b'⟩ := q
          simp only [hb] at h
          cases ha : readArcs b'.length b' with
          | none => simp [ha] at h
          | some rest =>
            simp only [ha, Option.map_some, Option.some.injEq, Prod.mk.injEq] at h
            obtain ⟨h1, h2⟩ := h
            subst h2
            obtain ⟨hv, hs⟩ := (readBase128_iff body b' v).mp hb
            obtain ⟨i1, i2⟩ := readArcs_sound _ _ _ ha
            by_cases h80 : v < 80
            · rw [if_pos h80] at h1
              subst h1
              have e : 40 * (v / 40) + v % 40 = v := Nat.div_add_mod v 40
              refine ⟨⟨by omega, fun _ => Nat.mod_lt _ (by decide), by rw [e]; exact hv, i1⟩, ?_⟩
              simp only [List.cons_append, List.nil_append, encOID, e]
              rw [hs, i2]
            · rw [if_neg h80] at h1
              subst h1
              have e : 40 * 2 + (v - 80) = v := by omega
              refine ⟨⟨by omega, fun h => by omega, by rw [e]; exact hv, i1⟩, ?_⟩
              simp only [List.cons_append, List.nil_append, encOID, e]
              rw [hs, i2]
  · rintro ⟨hvalid, hr⟩
    match arcs, hvalid with
    | a :: b :: rest, ⟨ha, hb, hv, hrest⟩ =>
      simp only [hr, encOID]
      have hpos := addBase128_length_pos (40 * a + b)
      have hne : ¬ ((addBase128 ((40 * a + b : Nat) : Int) ++ encSubs rest).isEmpty = true) := by
        intro h
        have : (addBase128 ((40 * a + b : Nat) : Int) ++ encSubs rest).length = 0 := by
          simpa [List.isEmpty_iff] using congrArg List.length (List.isEmpty_iff.mp h)
        simp only [List.length_append] at this; omega
      rw [if_neg hne, readBase128_add _ hv]
      simp only
      rw [readArcs_enc rest _ hrest (Nat.le_refl _)]
      simp only [Option.map_some, Option.some.injEq, Prod.mk.injEq, and_true]
      by_cases h2 : a < 2
      · have := hb h2
        rw [if_pos (by omega)]
        have e1 : (40 * a + b) / 40 = a := by omega
        have e2 : (40 * a + b) % 40 = b := by omega
        rw [e1, e2]; rfl
      · have : a = 2 := by omega
        subst this
        rw [if_neg (by omega)]
        have : 40 * 2 + b - 80 = b := by omega
        rw [this]; rfl


theorem any_neg_cast (l : List Nat) : (l.map (fun (x : Nat) => (x : Int))).any (· < 0) = false := by
  induction l with
  | nil => rfl
  | cons a l ih => simp only [List.map_cons, List.any_cons, ih, Bool.or_false]; simp

/-- AddASN1ObjectIdentifier emits the X.690 contents octets for every valid OID -/
theorem addOID_valid (arcs : List Nat) (hv : oidValid arcs) :
    addOID (arcs.map (fun (x : Nat) => (x : Int))) = addASN1 6 (encOID arcs) := by
  match arcs, hv with
  | a :: b :: rest, ⟨ha, hb, hv, hrest⟩ =>
    simp only [List.map_cons, addOID]
    have c1 : ¬ ((decide ((a : Int) > 2) || (decide ((a : Int) ≤ 1) && decide ((b : Int) ≥ 40))) = true) := by
      simp only [Bool.or_eq_true, decide_eq_true_eq, Bool.and_eq_true, not_or, not_and]
      constructor
      · omega
      · intro h1; have := hb (by omega); omega
    have c2 : ¬ (((a : Int) == 2 && decide ((b : Int) > 2 ^ 63 - 1 - 80)) = true) := by
      simp only [Bool.and_eq_true, decide_eq_true_eq, not_and]
      intro _; omega
    have c3 : ¬ ((((a : Int) :: (b : Int) :: rest.map (fun (x : Nat) => (x : Int))).any (· < 0)) = true) := by
      have := any_neg_cast (a :: b :: rest)
      simp only [List.map_cons] at this
      rw [this]; simp
    rw [if_neg c1, if_neg c2, if_neg c3]
    congr 1
    simp only [encOID, encSubs, List.map_map]
    congr 2
    push_cast; rw [Int.mul_comm]

/-- **AddASN1ObjectIdentifier → ReadASN1ObjectIdentifier** -/
theorem addOID_read (arcs : List Nat) (out rest : Bytes) (hv : oidValid arcs)
    (hlen : (encOID arcs).length ≤ 0xfffffff9)
    (h : addOID (arcs.map (fun (x : Nat) => (x : Int))) = some out) :
    readOID (out ++ rest) = some (arcs, rest) := by
  rw [addOID_valid arcs hv] at h
  unfold addASN1 at h
  simp only [show ((6 : UInt8) &&& 0x1f == 0x1f) = false by decide, Bool.false_eq_true, if_false] at h
  by_cases hl : (encOID arcs).length > 0xfffffffe
  · omega
  · rw [if_neg hl] at h
    simp only [Option.some.injEq] at h
    subst h
    have := readASN1Tag_der 6 (encOID arcs) rest (by decide) hlen
    simp only [List.cons_append, List.append_assoc] at this ⊢
    exact (oid_iff _ rest arcs).mpr ⟨hv, this⟩

end XC.C23
