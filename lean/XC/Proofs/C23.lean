/-
  C23 — helper lemmas: readASN1 against the DER header specification.
-/
import XC.Model.C23
namespace XC.C23

theorem toNat_ofNat_lt (n : Nat) (h : n < 256) : (UInt8.ofNat n).toNat = n := by
  simp [UInt8.toNat_ofNat', Nat.mod_eq_of_lt h]

set_option maxRecDepth 100000 in
/-- short-form bit test, checked on every byte value -/
theorem short_bit : ∀ n, n < 256 → ((UInt8.ofNat n &&& 0x80 == 0) = decide (n < 128)) := by decide

set_option maxRecDepth 100000 in
theorem lenLen_bits : ∀ n, n < 256 → ((UInt8.ofNat n &&& 0x7f).toNat = n % 128) := by decide

theorem byte_cases (b : UInt8) : ∃ n, n < 256 ∧ b = UInt8.ofNat n :=
  ⟨b.toNat, b.toNat_lt, by simp⟩

theorem read_append (w r : Bytes) (n : Nat) (h : w.length = n) : read n (w ++ r) = some (w, r) := by
  simp [read, ← h]

theorem readUnsigned1 (a : UInt8) : readUnsigned [a] = a.toNat := by
  have := a.toNat_lt
  simp [readUnsigned]
theorem readUnsigned2 (a b : UInt8) : readUnsigned [a, b] = a.toNat * 256 + b.toNat := by
  have := a.toNat_lt; have := b.toNat_lt
  simp [readUnsigned]; omega
theorem readUnsigned3 (a b c : UInt8) :
    readUnsigned [a, b, c] = (a.toNat * 256 + b.toNat) * 256 + c.toNat := by
  have := a.toNat_lt; have := b.toNat_lt; have := c.toNat_lt
  simp [readUnsigned]; omega
theorem readUnsigned4 (a b c d : UInt8) :
    readUnsigned [a, b, c, d] = ((a.toNat * 256 + b.toNat) * 256 + c.toNat) * 256 + d.toNat := by
  have := a.toNat_lt; have := b.toNat_lt; have := c.toNat_lt; have := d.toNat_lt
  simp [readUnsigned]; omega

theorem readASN1_short (t : UInt8) (n : Nat) (body rest : Bytes) (ht : (t &&& 0x1f == 0x1f) = false)
    (hN : body.length = n) (g : n < 128) :
    readASN1 (t :: UInt8.ofNat n :: (body ++ rest)) = some ⟨t, 2, t :: UInt8.ofNat n :: body, rest⟩ := by
  have hb := short_bit n (by omega)
  have hr := read_append (t :: UInt8.ofNat n :: body) rest (n + 2) (by simp [hN])
  simp only [List.cons_append] at hr
  simp only [readASN1, ht, Bool.false_eq_true, if_false, hb, g, decide_true, if_true,
    toNat_ofNat_lt n (by omega), hr]

theorem readASN1_long (t : UInt8) (k : Nat) (lb body rest : Bytes) (ht : (t &&& 0x1f == 0x1f) = false)
    (hk1 : 1 ≤ k) (hk4 : k ≤ 4) (hlb : lb.length = k) (hlen : readUnsigned lb = body.length)
    (h128 : 128 ≤ body.length) (htop : body.length >>> ((k - 1) * 8) ≠ 0)
    (hn : body.length ≤ 0xfffffff9) :
    readASN1 (t :: UInt8.ofNat (0x80 + k) :: (lb ++ body ++ rest)) =
      some ⟨t, 2 + k, t :: UInt8.ofNat (0x80 + k) :: (lb ++ body), rest⟩ := by
  have hb := short_bit (0x80 + k) (by omega)
  have hl := lenLen_bits (0x80 + k) (by omega)
  have hl' : (UInt8.ofNat (0x80 + k) &&& 0x7f).toNat = k := by rw [hl]; omega
  have hf : decide (0x80 + k < 128) = false := by simp
  have hr := read_append (t :: UInt8.ofNat (0x80 + k) :: (lb ++ body)) rest (2 + k + body.length)
    (by simp [hlb]; omega)
  simp only [List.cons_append, List.append_assoc] at hr
  have htake : List.take k (lb ++ (body ++ rest)) = lb := List.take_left' hlb
  have c1 : ((k == 0 || decide (k > 4)) || decide ((t :: UInt8.ofNat (0x80 + k) :: (lb ++ (body ++ rest))).length < 2 + k)) = false := by
    simp [hlb]; omega
  have c2 : ¬ body.length < 128 := by omega
  have c3 : (body.length >>> ((k - 1) * 8) == 0) = false := by simpa using htop
  have c4 : ¬ (2 + k + body.length) % 2 ^ 32 < body.length := by
    rw [Nat.mod_eq_of_lt (by omega)]; omega
  simp only [readASN1, ht, Bool.false_eq_true, if_false, hb, hf, hl', List.append_assoc, List.drop_succ_cons,
    List.drop_zero, htake, hlen, c1, c2, c3, c4, hr]

theorem natToBE_len (k n : Nat) : (natToBE k n).length = k := by simp [natToBE, natToLE_length]

theorem readUnsigned_natToBE1 (n : Nat) (h : n < 0x100) : readUnsigned (natToBE 1 n) = n := by
  simp only [natToBE, natToLE, List.reverse_cons, List.reverse_nil, List.nil_append, readUnsigned1,
    UInt8.toNat_ofNat']; omega
theorem readUnsigned_natToBE2 (n : Nat) (h : n < 0x10000) : readUnsigned (natToBE 2 n) = n := by
  simp only [natToBE, natToLE, List.reverse_cons, List.reverse_nil, List.nil_append, List.cons_append,
    readUnsigned2, UInt8.toNat_ofNat']; omega
theorem readUnsigned_natToBE3 (n : Nat) (h : n < 0x1000000) : readUnsigned (natToBE 3 n) = n := by
  simp only [natToBE, natToLE, List.reverse_cons, List.reverse_nil, List.nil_append, List.cons_append,
    readUnsigned3, UInt8.toNat_ofNat']; omega
theorem readUnsigned_natToBE4 (n : Nat) (h : n < 0x100000000) : readUnsigned (natToBE 4 n) = n := by
  simp only [natToBE, natToLE, List.reverse_cons, List.reverse_nil, List.nil_append, List.cons_append,
    readUnsigned4, UInt8.toNat_ofNat']; omega

/-- DER header + body is accepted, with exactly that body and rest (builder → reader direction) -/
theorem readASN1_der (t : UInt8) (body rest : Bytes) (ht : (t &&& 0x1f == 0x1f) = false)
    (hn : body.length ≤ 0xfffffff9) :
    readASN1 (t :: (derLen body.length ++ body ++ rest)) =
      some ⟨t, 1 + (derLen body.length).length, t :: (derLen body.length ++ body), rest⟩ := by
  unfold derLen
  by_cases g1 : body.length < 0x80
  · simpa [g1] using readASN1_short t body.length body rest ht rfl g1
  · by_cases g2 : body.length < 0x100
    · have h := readASN1_long t 1 (natToBE 1 body.length) body rest ht (by omega) (by omega)
        (natToBE_len _ _) (readUnsigned_natToBE1 _ g2) (by omega)
        (by rw [show (1 - 1) * 8 = 0 from rfl, Nat.shiftRight_zero]; omega) hn
      simpa [g1, g2, Nat.add_comm, natToBE_len] using h
    · by_cases g3 : body.length < 0x10000
      · have h := readASN1_long t 2 (natToBE 2 body.length) body rest ht (by omega) (by omega)
          (natToBE_len _ _) (readUnsigned_natToBE2 _ g3) (by omega)
          (by rw [show (2 - 1) * 8 = 8 from rfl, Nat.shiftRight_eq_div_pow]; omega) hn
        simpa [g1, g2, g3, Nat.add_comm, natToBE_len] using h
      · by_cases g4 : body.length < 0x1000000
        · have h := readASN1_long t 3 (natToBE 3 body.length) body rest ht (by omega) (by omega)
            (natToBE_len _ _) (readUnsigned_natToBE3 _ g4) (by omega)
            (by rw [show (3 - 1) * 8 = 16 from rfl, Nat.shiftRight_eq_div_pow]; omega) hn
          simpa [g1, g2, g3, g4, Nat.add_comm, natToBE_len] using h
        · have h := readASN1_long t 4 (natToBE 4 body.length) body rest ht (by omega) (by omega)
            (natToBE_len _ _) (readUnsigned_natToBE4 _ (by omega)) (by omega)
            (by rw [show (4 - 1) * 8 = 24 from rfl, Nat.shiftRight_eq_div_pow]; omega) hn
          simpa [g1, g2, g3, g4, Nat.add_comm, natToBE_len] using h

/-- `ReadASN1(&out, tag)` on a DER element -/
theorem readASN1Tag_der (t : UInt8) (body rest : Bytes) (ht : (t &&& 0x1f == 0x1f) = false)
    (hn : body.length ≤ 0xfffffff9) :
    readASN1Tag t (t :: (derLen body.length ++ body ++ rest)) = some (body, rest) := by
  have h := readASN1_der t body rest ht hn
  rw [List.append_assoc] at h
  have hd : List.drop (1 + (derLen body.length).length) (t :: (derLen body.length ++ body)) = body := by
    have : 1 + (derLen body.length).length = (t :: derLen body.length).length := by
      simp only [List.length_cons]; omega
    rw [this, ← List.cons_append, List.drop_left]
  simp [readASN1Tag, readAnyASN1, h, Elem.body, hd]

end XC.C23
