/-
  C24 — the reflection codec: strings, name-lists, per-field and whole-struct round trips.
-/
import XC.Proofs.C24_Mpint
namespace XC.C24

/-! ## strings -/

theorem ofNat_toNat_u32 (k : Nat) (h : k < 4294967296) : (UInt32.ofNat k).toNat = k := by
  simp [UInt32.toNat_ofNat', Nat.mod_eq_of_lt h]

theorem parseString_lenPrefix (bs tl : Bytes) (h : (bs ++ tl).length < 4294967296) :
    parseString (lenPrefix bs ++ tl) = some (bs, tl) := by
  have hb : bs.length < 4294967296 := by simp at h; omega
  simp only [parseString, lenPrefix, List.append_assoc]
  have h4 : ¬ (u32be (UInt32.ofNat bs.length) ++ (bs ++ tl)).length < 4 := by simp [u32be_length]
  have hd : List.drop 4 (u32be (UInt32.ofNat bs.length) ++ (bs ++ tl)) = bs ++ tl := by
    rw [List.drop_append_of_le_length (by simp [u32be_length])]
    simp [List.drop_of_length_le, u32be_length]
  have hm : (bs ++ tl).length % 4294967296 = (bs ++ tl).length := Nat.mod_eq_of_lt h
  have hlt : ¬ (bs ++ tl).length % 4294967296 < bs.length := by rw [hm]; simp
  simp only [h4, ↓reduceIte, be32_u32be, ofNat_toNat_u32 _ hb, hd, hlt]
  simp

/-- whatever parseString returns is a split of the input after the 4 length bytes: no index leaves the input -/
theorem parseString_sound (inp s r : Bytes) (h : parseString inp = some (s, r)) :
    inp.drop 4 = s ++ r ∧ 4 ≤ inp.length ∧ s.length = (be32 inp).toNat := by
  unfold parseString at h
  split at h
  · simp at h
  · rename_i h4
    simp only at h
    split at h
    · simp at h
    · rename_i hl
      simp only [Option.some.injEq, Prod.mk.injEq] at h
      obtain ⟨rfl, rfl⟩ := h
      refine ⟨(List.take_append_drop _ _).symm, by omega, ?_⟩
      have : (List.drop 4 inp).length % 4294967296 ≤ (List.drop 4 inp).length := Nat.mod_le _ _
      simp only [List.length_take]; omega

/-! ## name-lists -/

theorem splitComma_ne_nil (bs : Bytes) : splitComma bs ≠ [] := by
  induction bs with
  | nil => simp [splitComma]
  | cons b r ih =>
    simp only [splitComma]
    split
    · simp
    · split <;> simp

theorem splitComma_nocomma (x : Bytes) (h : (44 : UInt8) ∉ x) : splitComma x = [x] := by
  induction x with
  | nil => rfl
  | cons b r ih =>
    have hb : (b == 44) = false := by
      apply beq_false_of_ne; intro hc; apply h; simp [hc]
    have hr : (44 : UInt8) ∉ r := fun hc => h (List.mem_cons_of_mem _ hc)
    simp [splitComma, hb, ih hr]

theorem splitComma_append (x : Bytes) (h : (44 : UInt8) ∉ x) (rest : Bytes) :
    splitComma (x ++ 44 :: rest) = x :: splitComma rest := by
  induction x with
  | nil => simp [splitComma]
  | cons b r ih =>
    have hb : (b == 44) = false := by
      apply beq_false_of_ne; intro hc; apply h; simp [hc]
    have hr : (44 : UInt8) ∉ r := fun hc => h (List.mem_cons_of_mem _ hc)
    simp [splitComma, hb, ih hr]

/-- splitting the joined list gives the list back, for every non-empty list of comma-free names -/
theorem splitComma_joinComma (l : List Bytes) (hne : l ≠ []) (hc : ∀ x ∈ l, (44 : UInt8) ∉ x) :
    splitComma (joinComma l) = l := by
  induction l with
  | nil => exact absurd rfl hne
  | cons x r ih =>
    cases r with
    | nil => simpa [joinComma] using splitComma_nocomma x (hc x (by simp))
    | cons y r' =>
      simp only [joinComma]
      rw [splitComma_append x (hc x (by simp))]
      rw [ih (by simp) (fun z hz => hc z (List.mem_cons_of_mem _ hz))]

/-- the joined form is empty only for `[]` and `[""]` -/
theorem joinComma_eq_nil (l : List Bytes) : joinComma l = [] ↔ l = [] ∨ l = [[]] := by
  cases l with
  | nil => simp [joinComma]
  | cons x r =>
    cases r with
    | nil => simp [joinComma]
    | cons y r' => simp [joinComma]

/-- well-formed name-list: comma-free entries, and not the single empty name -/
def NamesWF (l : List Bytes) : Prop := (∀ x ∈ l, (44 : UInt8) ∉ x) ∧ l ≠ [[]]

theorem parseNameList_roundtrip (l : List Bytes) (tl : Bytes) (hwf : NamesWF l)
    (hlen : (joinComma l ++ tl).length < 4294967296) :
    parseNameList (lenPrefix (joinComma l) ++ tl) = some (l, tl) := by
  unfold parseNameList
  rw [parseString_lenPrefix _ _ hlen]
  simp only
  by_cases he : l = []
  · subst he; simp [joinComma]
  · have hj : joinComma l ≠ [] := by
      intro hc
      rcases (joinComma_eq_nil l).mp hc with h | h
      · exact he h
      · exact hwf.2 h
    have : (joinComma l).isEmpty = false := by
      cases hjl : joinComma l with
      | nil => exact absurd hjl hj
      | cons _ _ => rfl
    simp [this, splitComma_joinComma l he hwf.1]

/-! ## mpint field -/

theorem marshalField_mpint (n : Int) : marshalField (.mpint n) = some (marshalInt n) := by
  have hl : (marshalInt n).length = intLength n := by
    simp [marshalInt, u32be_length, intLength_eq_body]
  simp [marshalField, hl, zeros]

theorem parseInt_marshalInt (n : Int) (tl : Bytes) (hlen : (intBody n ++ tl).length < 4294967296) :
    parseInt (marshalInt n ++ tl) = some (n, tl) := by
  unfold parseInt
  have : marshalInt n = lenPrefix (intBody n) := rfl
  rw [this, parseString_lenPrefix _ _ hlen]
  simp [intOfBody_eq_twos, intBody_value]

/-! ## per-field round trip -/

/-- a value is well-formed: name-lists are `NamesWF` (everything else always round-trips) -/
def Val.WF : Val → Prop
  | .names l => NamesWF l
  | _ => True

theorem marshalField_isSome (v : Val) (k : Kind) (hk : v.hasKind k = true) : ∃ b, marshalField v = some b := by
  cases v <;> simp [marshalField]
  case bad p => cases k <;> simp [Val.hasKind] at hk
  rename_i n
  have hl : (marshalInt n).length = intLength n := by
    simp [marshalInt, u32be_length, intLength_eq_body]
  omega

theorem field_roundtrip (v : Val) (k : Kind) (b tl : Bytes) (hk : v.hasKind k = true) (hr : k ≠ .rest)
    (hwf : v.WF) (hm : marshalField v = some b) (hlen : (b ++ tl).length < 4294967296) :
    unmarshalField k (b ++ tl) = .ok (v, tl) := by
  cases v <;> cases k <;> simp [Val.hasKind] at hk <;> try (exact absurd rfl hr)
  case bool.bool x =>
    simp only [marshalField, Option.some.injEq] at hm; subst hm
    cases x <;> simp [unmarshalField]
  case arr.arr bs n =>
    simp only [marshalField, Option.some.injEq] at hm; subst hm
    subst hk
    simp [unmarshalField]
  case u8.u8 x =>
    simp only [marshalField, Option.some.injEq] at hm; subst hm
    simp [unmarshalField]
  case u32.u32 x =>
    simp only [marshalField, Option.some.injEq] at hm; subst hm
    have h4 : ¬ (u32be x ++ tl).length < 4 := by simp [u32be_length]
    have hd : List.drop 4 (u32be x ++ tl) = tl := by
      rw [List.drop_append_of_le_length (by simp [u32be_length])]
      simp [List.drop_of_length_le, u32be_length]
    simp only [unmarshalField, h4, if_false, be32_u32be, hd]
  case u64.u64 x =>
    simp only [marshalField, Option.some.injEq] at hm; subst hm
    have h8 : ¬ (u64be x ++ tl).length < 8 := by simp [u64be_length]
    have hd : List.drop 8 (u64be x ++ tl) = tl := by
      rw [List.drop_append_of_le_length (by simp [u64be_length])]
      simp [List.drop_of_length_le, u64be_length]
    simp only [unmarshalField, h8, if_false, be64_u64be, hd]
  case str.str bs =>
    simp only [marshalField, Option.some.injEq] at hm; subst hm
    have : (bs ++ tl).length < 4294967296 := by
      simp [lenPrefix, u32be_length] at hlen; simp; omega
    simp [unmarshalField, parseString_lenPrefix _ _ this]
  case bytes.bytes bs =>
    simp only [marshalField, Option.some.injEq] at hm; subst hm
    have : (bs ++ tl).length < 4294967296 := by
      simp [lenPrefix, u32be_length] at hlen; simp; omega
    simp [unmarshalField, parseString_lenPrefix _ _ this]
  case names.names l =>
    simp only [marshalField, Option.some.injEq] at hm; subst hm
    have : (joinComma l ++ tl).length < 4294967296 := by
      simp [lenPrefix, u32be_length] at hlen; simp; omega
    simp [unmarshalField, parseNameList_roundtrip l tl hwf this]
  case mpint.mpint n =>
    rw [marshalField_mpint] at hm
    simp only [Option.some.injEq] at hm; subst hm
    have : (intBody n ++ tl).length < 4294967296 := by
      simp [marshalInt, u32be_length] at hlen; simp; omega
    simp [unmarshalField, parseInt_marshalInt n tl this]

/-! ## whole struct -/

/-- a `rest` field may only be the last field (it swallows everything that follows) -/
def restLast : List Kind → Bool
  | [] => true
  | [_] => true
  | k :: ks => k != .rest && restLast ks

theorem marshalFields_isSome (vs : List Val) (ks : List Kind) (ht : typed vs ks = true) :
    ∃ b, marshalFields vs = some b := by
  induction vs generalizing ks with
  | nil => exact ⟨[], rfl⟩
  | cons v vs ih =>
    cases ks with
    | nil => simp [typed] at ht
    | cons k ks =>
      simp only [typed, Bool.and_eq_true] at ht
      obtain ⟨a, ha⟩ := marshalField_isSome v k ht.1
      obtain ⟨b, hb⟩ := ih ks ht.2
      exact ⟨a ++ b, by simp [marshalFields, ha, hb]⟩

theorem fields_roundtrip (vs : List Val) (ks : List Kind) (body : Bytes)
    (ht : typed vs ks = true) (hrl : restLast ks = true) (hwf : ∀ v ∈ vs, v.WF)
    (hm : marshalFields vs = some body) (hlen : body.length < 4294967296) :
    unmarshalFields ks body = .ok (vs, []) := by
  induction vs generalizing ks body with
  | nil =>
    cases ks with
    | nil => simp [marshalFields] at hm; subst hm; rfl
    | cons _ _ => simp [typed] at ht
  | cons v vs ih =>
    cases ks with
    | nil => simp [typed] at ht
    | cons k ks =>
      simp only [typed, Bool.and_eq_true] at ht
      obtain ⟨a, ha⟩ := marshalField_isSome v k ht.1
      obtain ⟨b, hb⟩ := marshalFields_isSome vs ks ht.2
      simp only [marshalFields, ha, hb, Option.some.injEq] at hm
      subst hm
      by_cases hrest : k = .rest
      · -- a rest field: by restLast it is the last one
        subst hrest
        cases ks with
        | cons k2 ks2 => simp [restLast] at hrl
        | nil =>
          cases vs with
          | cons _ _ => simp [typed] at ht
          | nil =>
            simp only [marshalFields, Option.some.injEq] at hb; subst hb
            cases v <;> simp [Val.hasKind] at ht
            simp only [marshalField, Option.some.injEq] at ha; subst ha
            simp [unmarshalFields, unmarshalField]
      · have hf := field_roundtrip v k a b ht.1 hrest (hwf v (by simp)) ha hlen
        have hrl' : restLast ks = true := by
          cases ks with
          | nil => rfl
          | cons _ _ => simp [restLast] at hrl; exact hrl.2
        have hb_len : b.length < 4294967296 := by simp at hlen; omega
        have := ih ks b ht.2 hrl' (fun w hw => hwf w (List.mem_cons_of_mem _ hw)) hb hb_len
        simp [unmarshalFields, hf, this]

/-! ## trailing bytes -/

theorem parseString_append (inp s r e : Bytes) (h : parseString inp = some (s, r))
    (hlen : (inp ++ e).length < 4294967296) : parseString (inp ++ e) = some (s, r ++ e) := by
  have hs := parseString_sound inp s r h
  unfold parseString at h ⊢
  have h4 : ¬ inp.length < 4 := by omega
  have h4' : ¬ (inp ++ e).length < 4 := by simp; omega
  simp only [h4, h4', if_false] at h ⊢
  have hbe : be32 (inp ++ e) = be32 inp := by
    unfold be32
    rw [List.take_append_of_le_length (by omega)]
  rw [hbe]
  have hd : List.drop 4 (inp ++ e) = List.drop 4 inp ++ e := by
    rw [List.drop_append_of_le_length (by omega)]
  rw [hd]
  split at h
  · simp at h
  · rename_i hl
    simp only [Option.some.injEq, Prod.mk.injEq] at h
    have hle : (be32 inp).toNat ≤ (List.drop 4 inp).length := by
      have : (List.drop 4 inp).length % 4294967296 ≤ (List.drop 4 inp).length := Nat.mod_le _ _
      omega
    have hm : (List.drop 4 inp ++ e).length % 4294967296 = (List.drop 4 inp ++ e).length := by
      apply Nat.mod_eq_of_lt; simp at hlen ⊢; omega
    have : ¬ (List.drop 4 inp ++ e).length % 4294967296 < (be32 inp).toNat := by
      rw [hm, List.length_append]; omega
    simp only [this, if_false, Option.some.injEq, Prod.mk.injEq]
    obtain ⟨h1, h2⟩ := h
    constructor
    · rw [List.take_append_of_le_length hle]; exact h1
    · rw [List.drop_append_of_le_length hle, h2]

/-- a field other than `rest` reads a prefix: extra bytes behind the input stay behind -/
theorem field_append (k : Kind) (d e : Bytes) (v : Val) (r : Bytes) (hk : k ≠ .rest)
    (h : unmarshalField k d = .ok (v, r)) (hlen : (d ++ e).length < 4294967296) :
    unmarshalField k (d ++ e) = .ok (v, r ++ e) := by
  cases k <;> try (exact absurd rfl hk)
  case bad p => simp [unmarshalField] at h
  case bool =>
    cases d with
    | nil => simp [unmarshalField] at h
    | cons b t => simp only [unmarshalField, Except.ok.injEq, Prod.mk.injEq] at h; simp [unmarshalField, h]
  case arr n =>
    simp only [unmarshalField] at h ⊢
    split at h
    · simp at h
    · rename_i hl
      have : ¬ (d ++ e).length < n := by simp; omega
      simp only [Except.ok.injEq, Prod.mk.injEq] at h
      simp only [this, if_false, Except.ok.injEq, Prod.mk.injEq]
      rw [List.take_append_of_le_length (by omega), List.drop_append_of_le_length (by omega)]
      exact ⟨h.1, by rw [h.2]⟩
  case u8 =>
    cases d with
    | nil => simp [unmarshalField] at h
    | cons b t => simp only [unmarshalField, Except.ok.injEq, Prod.mk.injEq] at h; simp [unmarshalField, h]
  case u32 =>
    simp only [unmarshalField] at h ⊢
    split at h
    · simp at h
    · rename_i hl
      have : ¬ (d ++ e).length < 4 := by simp; omega
      simp only [Except.ok.injEq, Prod.mk.injEq] at h
      simp only [this, if_false, Except.ok.injEq, Prod.mk.injEq]
      have hbe : be32 (d ++ e) = be32 d := by
        unfold be32; rw [List.take_append_of_le_length (by omega)]
      rw [hbe, List.drop_append_of_le_length (by omega)]
      exact ⟨h.1, by rw [h.2]⟩
  case u64 =>
    simp only [unmarshalField] at h ⊢
    split at h
    · simp at h
    · rename_i hl
      have : ¬ (d ++ e).length < 8 := by simp; omega
      simp only [Except.ok.injEq, Prod.mk.injEq] at h
      simp only [this, if_false, Except.ok.injEq, Prod.mk.injEq]
      have hbe : be64 (d ++ e) = be64 d := by
        unfold be64; rw [List.take_append_of_le_length (by omega)]
      rw [hbe, List.drop_append_of_le_length (by omega)]
      exact ⟨h.1, by rw [h.2]⟩
  case str =>
    simp only [unmarshalField] at h ⊢
    cases hp : parseString d with
    | none => simp [hp] at h
    | some sr =>
      obtain ⟨s, r'⟩ := sr
      simp only [hp, Except.ok.injEq, Prod.mk.injEq] at h
      rw [parseString_append d s r' e hp hlen]
      simp [h.1, ← h.2]
  case bytes =>
    simp only [unmarshalField] at h ⊢
    cases hp : parseString d with
    | none => simp [hp] at h
    | some sr =>
      obtain ⟨s, r'⟩ := sr
      simp only [hp, Except.ok.injEq, Prod.mk.injEq] at h
      rw [parseString_append d s r' e hp hlen]
      simp [h.1, ← h.2]
  case names =>
    simp only [unmarshalField, parseNameList] at h ⊢
    cases hp : parseString d with
    | none => simp [hp] at h
    | some sr =>
      obtain ⟨s, r'⟩ := sr
      rw [parseString_append d s r' e hp hlen]
      simp only [hp] at h
      by_cases hs : s.isEmpty
      · simp only [hs, if_true, Except.ok.injEq, Prod.mk.injEq] at h ⊢
        exact ⟨h.1, by rw [h.2]⟩
      · simp only [hs, Bool.false_eq_true, if_false, Except.ok.injEq, Prod.mk.injEq] at h ⊢
        exact ⟨h.1, by rw [h.2]⟩
  case mpint =>
    simp only [unmarshalField, parseInt] at h ⊢
    cases hp : parseString d with
    | none => simp [hp] at h
    | some sr =>
      obtain ⟨s, r'⟩ := sr
      rw [parseString_append d s r' e hp hlen]
      simp only [hp, Except.ok.injEq, Prod.mk.injEq] at h
      simp [h.1, ← h.2]

/-- a field never yields more bytes than it was given -/
theorem field_rest_le (k : Kind) (d : Bytes) (v : Val) (r : Bytes)
    (h : unmarshalField k d = .ok (v, r)) : r.length ≤ d.length := by
  cases k
  case bad p => simp [unmarshalField] at h
  case bool =>
    cases d with
    | nil => simp [unmarshalField] at h
    | cons b t => simp only [unmarshalField, Except.ok.injEq, Prod.mk.injEq] at h; simp [← h.2]
  case arr n =>
    simp only [unmarshalField] at h
    split at h
    · simp at h
    · simp only [Except.ok.injEq, Prod.mk.injEq] at h; simp [← h.2]
  case u8 =>
    cases d with
    | nil => simp [unmarshalField] at h
    | cons b t => simp only [unmarshalField, Except.ok.injEq, Prod.mk.injEq] at h; simp [← h.2]
  case u32 =>
    simp only [unmarshalField] at h
    split at h
    · simp at h
    · simp only [Except.ok.injEq, Prod.mk.injEq] at h; simp [← h.2]
  case u64 =>
    simp only [unmarshalField] at h
    split at h
    · simp at h
    · simp only [Except.ok.injEq, Prod.mk.injEq] at h; simp [← h.2]
  case rest =>
    simp only [unmarshalField, Except.ok.injEq, Prod.mk.injEq] at h; simp [← h.2]
  case str =>
    simp only [unmarshalField] at h
    cases hp : parseString d with
    | none => simp [hp] at h
    | some sr =>
      obtain ⟨s, r'⟩ := sr
      have hs := parseString_sound d s r' hp
      have hl : (List.drop 4 d).length = s.length + r'.length := by rw [hs.1]; simp
      simp only [List.length_drop] at hl
      simp only [hp, Except.ok.injEq, Prod.mk.injEq] at h
      rw [← h.2]; omega
  case bytes =>
    simp only [unmarshalField] at h
    cases hp : parseString d with
    | none => simp [hp] at h
    | some sr =>
      obtain ⟨s, r'⟩ := sr
      have hs := parseString_sound d s r' hp
      have hl : (List.drop 4 d).length = s.length + r'.length := by rw [hs.1]; simp
      simp only [List.length_drop] at hl
      simp only [hp, Except.ok.injEq, Prod.mk.injEq] at h
      rw [← h.2]; omega
  case names =>
    simp only [unmarshalField, parseNameList] at h
    cases hp : parseString d with
    | none => simp [hp] at h
    | some sr =>
      obtain ⟨s, r'⟩ := sr
      have hs := parseString_sound d s r' hp
      have hl : (List.drop 4 d).length = s.length + r'.length := by rw [hs.1]; simp
      simp only [List.length_drop] at hl
      simp only [hp] at h
      by_cases hse : s.isEmpty
      · simp only [hse, if_true, Except.ok.injEq, Prod.mk.injEq] at h
        rw [← h.2]; omega
      · simp only [hse, Bool.false_eq_true, if_false, Except.ok.injEq, Prod.mk.injEq] at h
        rw [← h.2]; omega
  case mpint =>
    simp only [unmarshalField, parseInt] at h
    cases hp : parseString d with
    | none => simp [hp] at h
    | some sr =>
      obtain ⟨s, r'⟩ := sr
      have hs := parseString_sound d s r' hp
      have hl : (List.drop 4 d).length = s.length + r'.length := by rw [hs.1]; simp
      simp only [List.length_drop] at hl
      simp only [hp, Except.ok.injEq, Prod.mk.injEq] at h
      rw [← h.2]; omega

theorem fields_append (ks : List Kind) (d e : Bytes) (vs : List Val) (r : Bytes)
    (hk : Kind.rest ∉ ks) (h : unmarshalFields ks d = .ok (vs, r))
    (hlen : (d ++ e).length < 4294967296) :
    unmarshalFields ks (d ++ e) = .ok (vs, r ++ e) := by
  induction ks generalizing d vs with
  | nil => simp only [unmarshalFields, Except.ok.injEq, Prod.mk.injEq] at h; simp [unmarshalFields, h.1, ← h.2]
  | cons k ks ih =>
    simp only [unmarshalFields] at h ⊢
    cases hf : unmarshalField k d with
    | error er => simp [hf] at h
    | ok p =>
      obtain ⟨v, r1⟩ := p
      have hkr : k ≠ .rest := fun hc => hk (by simp [hc])
      rw [field_append k d e v r1 hkr hf hlen]
      simp only [hf] at h
      cases hfs : unmarshalFields ks r1 with
      | error er => simp [hfs] at h
      | ok q =>
        obtain ⟨vs', r2⟩ := q
        simp only [hfs, Except.ok.injEq, Prod.mk.injEq] at h
        obtain ⟨h1, h2⟩ := h
        subst h1 h2
        have hle := field_rest_le k d v r1 hf
        have := ih r1 vs' (fun hc => hk (List.mem_cons_of_mem _ hc)) hfs (by simp at hlen ⊢; omega)
        simp [this]

end XC.C24
