/-
  C22 — helper lemmas: buffer patching / shifting primitives of flushChild against list algebra.
-/
import XC.Model.C22
import XC.Proofs.C23
namespace XC.C22
open XC.C23

theorem ofNat_mod256 (l : Nat) : UInt8.ofNat (l % 256) = UInt8.ofNat l := by
  apply UInt8.toNat_inj.mp
  simp [UInt8.toNat_ofNat']

theorem natToBE_succ (i l : Nat) : natToBE (i + 1) l = natToBE i (l / 256) ++ [UInt8.ofNat l] := by
  simp [natToBE, natToLE, ofNat_mod256]

theorem natToBE_length (k l : Nat) : (natToBE k l).length = k := by
  simp [natToBE, natToLE_length]

theorem natOfBE_natToBE (k l : Nat) : natOfBE (natToBE k l) = l % 256 ^ k := by
  simp [natOfBE, natToBE, natOfLE_natToLE]

/-- the `l >>= 8` loop writes the big-endian length over ANY k reserved bytes and leaves `l / 256^k` -/
theorem patchLen_spec (k : Nat) : ∀ (pre junk post : Bytes) (l : Nat), junk.length = k →
    patchLen k (pre ++ junk ++ post) pre.length l = (pre ++ natToBE k l ++ post, l / 256 ^ k) := by
  induction k with
  | zero =>
    intro pre junk post l h
    have : junk = [] := List.eq_nil_of_length_eq_zero h
    subst this
    simp [patchLen, natToBE, natToLE]
  | succ i ih =>
    intro pre junk post l h
    have hne : junk ≠ [] := by intro h0; simp [h0] at h
    obtain ⟨junk', x, rfl⟩ : ∃ j x, junk = j ++ [x] := ⟨junk.dropLast, junk.getLast hne, (List.dropLast_concat_getLast hne).symm⟩
    have hl : junk'.length = i := by simpa using h
    have hset : (pre ++ (junk' ++ [x]) ++ post).set (pre.length + i) (UInt8.ofNat l)
        = pre ++ junk' ++ ([UInt8.ofNat l] ++ post) := by
      have : pre ++ (junk' ++ [x]) ++ post = (pre ++ junk') ++ (x :: post) := by simp
      rw [this]
      have hlen : pre.length + i = (pre ++ junk').length := by simp [hl]
      rw [hlen, List.set_append_right _ _ (Nat.le_refl _)]
      simp
    simp only [patchLen]
    rw [hset, ih pre junk' ([UInt8.ofNat l] ++ post) (l >>> 8) hl]
    simp [natToBE_succ, Nat.shiftRight_eq_div_pow, Nat.pow_succ, Nat.div_div_eq_div_mul, Nat.mul_comm]

theorem patchLen_length (k : Nat) : ∀ (res : Bytes) (off l : Nat),
    (patchLen k res off l).1.length = res.length := by
  induction k with
  | zero => intro res off l; simp [patchLen]
  | succ i ih => intro res off l; simp [patchLen, ih]

theorem copyWithin_length (res : Bytes) (dst src : Nat) (h1 : src ≤ dst) (h2 : dst ≤ res.length) :
    (copyWithin res dst src).length = res.length := by
  simp [copyWithin]; omega

/-- shifting the body `e` right by `extra` over the freshly appended bytes -/
theorem copyWithin_shift (pre e z : Bytes) (extra : Nat) (hz : z.length = extra) :
    ∃ junk, junk.length = extra ∧
      copyWithin (pre ++ e ++ z) (pre.length + extra) pre.length = pre ++ junk ++ e := by
  refine ⟨(e ++ z).take extra, ?_, ?_⟩
  · simp; omega
  · unfold copyWithin
    have h1 : (pre ++ e ++ z).take (pre.length + extra) = pre ++ (e ++ z).take extra := by
      rw [List.append_assoc, List.take_append]; simp [List.take_of_length_le]
    have h2 : ((pre ++ e ++ z).drop pre.length).take ((pre ++ e ++ z).length - (pre.length + extra)) = e := by
      rw [List.append_assoc, List.drop_append]; simp [hz]
      have : pre.length + (e.length + extra) - (pre.length + extra) = e.length := by omega
      rw [this]; simp
    rw [h1, h2]


/-! ## the compositional specification of the encoding -/

mutual
/-- spec: what a misuse-free item denotes (`none` = the builder reports an error) -/
def encP : Prog → Option Bytes
  | .uint w v => some (natToBE w v)
  | .bytes bs => some bs
  | .value true bs => some bs
  | .lp k body =>
    match encL body with
    | some c => if c.length < 256 ^ k then some (natToBE k c.length ++ c) else none
    | none => none
  | .asn1 t body =>
    if t &&& 0x1f == 0x1f then none else
    match encL body with
    | some c => if c.length > 0xfffffffe then none else some (t :: (derLen c.length ++ c))
    | none => none
  | _ => none
def encL : List Prog → Option Bytes
  | [] => some []
  | p :: ps =>
    match encP p, encL ps with
    | some a, some b => some (a ++ b)
    | _, _ => none
end

mutual
/-- programs without Unwrite / SetError / failing AddValue / panics -/
def simpleP : Prog → Bool
  | .uint _ _ => true
  | .bytes _ => true
  | .value true _ => true
  | .lp _ body => simpleL body
  | .asn1 _ body => simpleL body
  | _ => false
def simpleL : List Prog → Bool
  | [] => true
  | p :: ps => simpleP p && simpleL ps
end

theorem set_mid (pre post : Bytes) (x y : UInt8) :
    (pre ++ [x] ++ post).set pre.length y = pre ++ [y] ++ post := by
  have : pre ++ [x] ++ post = pre ++ (x :: post) := by simp
  rw [this, List.set_append_right _ _ (Nat.le_refl _)]
  simp

/-- ASN.1 long-form promotion: set first length byte, append `extra` bytes, shift the body, patch -/
theorem promote (pre e : Bytes) (z lenByte : UInt8) (extra : Nat) (hl : e.length < 256 ^ extra) :
    patchLen extra
      (copyWithin (((pre ++ [z] ++ e).set pre.length lenByte) ++ zeros extra)
        (pre.length + 1 + extra) (pre.length + 1))
      (pre.length + 1) e.length
    = (pre ++ [lenByte] ++ natToBE extra e.length ++ e, 0) := by
  rw [set_mid]
  obtain ⟨junk, hj, hc⟩ := copyWithin_shift (pre ++ [lenByte]) e (zeros extra) extra (by simp [zeros])
  have hlen : (pre ++ [lenByte]).length = pre.length + 1 := by simp
  rw [hlen] at hc
  rw [hc]
  have := patchLen_spec extra (pre ++ [lenByte]) junk e e.length hj
  rw [hlen] at this
  rw [this, Nat.div_eq_of_lt hl]

theorem derLen_eq (n : Nat) :
    derLen n = asn1LenByte n :: (if asn1Extra n = 0 then [] else natToBE (asn1Extra n) n) := by
  unfold derLen asn1LenByte asn1Extra
  by_cases g1 : n > 0xffffff
  · simp [g1, show ¬ n < 0x80 by omega, show ¬ n < 0x100 by omega, show ¬ n < 0x10000 by omega,
      show ¬ n < 0x1000000 by omega]
  · by_cases g2 : n > 0xffff
    · simp [g1, g2, show ¬ n < 0x80 by omega, show ¬ n < 0x100 by omega, show ¬ n < 0x10000 by omega,
        show n < 0x1000000 by omega]
    · by_cases g3 : n > 0xff
      · simp [g1, g2, g3, show ¬ n < 0x80 by omega, show ¬ n < 0x100 by omega, show n < 0x10000 by omega]
      · by_cases g4 : n > 0x7f
        · simp [g1, g2, g3, g4, show ¬ n < 0x80 by omega, show n < 0x100 by omega]
        · simp [g1, g2, g3, g4, show n < 0x80 by omega]

theorem asn1Extra_bound (n : Nat) (h : n ≤ 0xfffffffe) (hx : asn1Extra n ≠ 0) : n < 256 ^ asn1Extra n := by
  unfold asn1Extra at *
  by_cases g1 : n > 0xffffff
  · simp only [g1, if_true]; omega
  · by_cases g2 : n > 0xffff
    · simp only [g1, g2, if_true, if_false]; omega
    · by_cases g3 : n > 0xff
      · simp only [g1, g2, g3, if_true, if_false]; omega
      · by_cases g4 : n > 0x7f
        · simp only [g1, g2, g3, g4, if_true, if_false]; omega
        · simp [g1, g2, g3, g4] at hx

theorem flush_lp (cap : Option Nat) (b1 c : B) (pre zs e : Bytes)
    (herr : c.err = false) (hoff : c.off = pre.length) (hpll : c.pll = zs.length)
    (hres : c.res = pre ++ zs ++ e) :
    flush cap false b1 c =
      .ok (if e.length < 256 ^ zs.length then { b1 with res := pre ++ natToBE zs.length e.length ++ e }
           else { b1 with err := true }) := by
  obtain ⟨res, err, off, pll⟩ := c
  simp only at herr hoff hpll hres
  subst herr hoff hpll hres
  unfold flush
  have hL : (pre ++ zs ++ e).length - zs.length - pre.length = e.length := by
    simp only [List.length_append]; omega
  have hN : ¬ ((pre ++ zs ++ e).length < zs.length + pre.length) := by
    simp only [List.length_append]; omega
  simp only [Bool.false_eq_true, if_false, hN, hL]
  rw [patchLen_spec _ pre zs e e.length rfl]
  by_cases hk : e.length < 256 ^ zs.length
  · simp [hk, Nat.div_eq_of_lt hk]
  · have : e.length / 256 ^ zs.length ≠ 0 := by
      have hp : 0 < 256 ^ zs.length := Nat.pow_pos (by decide)
      have := Nat.div_pos (Nat.le_of_not_lt hk) hp
      omega
    simp [hk, this]

theorem flush_asn1 (b1 c : B) (pre e : Bytes) (z : UInt8)
    (herr : c.err = false) (hoff : c.off = pre.length) (hpll : c.pll = 1)
    (hres : c.res = pre ++ [z] ++ e) :
    flush none true b1 c =
      .ok (if e.length > 0xfffffffe then { b1 with err := true }
           else { b1 with res := pre ++ derLen e.length ++ e }) := by
  obtain ⟨res, err, off, pll⟩ := c
  simp only at herr hoff hpll hres
  subst herr hoff hpll hres
  unfold flush
  have hL : (pre ++ [z] ++ e).length - 1 - pre.length = e.length := by
    simp only [List.length_append, List.length_cons, List.length_nil]; omega
  have hN : ¬ ((pre ++ [z] ++ e).length < 1 + pre.length) := by
    simp only [List.length_append, List.length_cons, List.length_nil]; omega
  simp only [Bool.false_eq_true, if_false, if_true, hN, hL, bne_self_eq_false]
  by_cases g0 : e.length > 0xfffffffe
  · simp only [g0, if_true]
  · simp only [g0, if_false]
    rw [derLen_eq, set_mid]
    by_cases hx : asn1Extra e.length = 0
    · simp [hx]
    · have hl := asn1Extra_bound e.length (by omega) hx
      have hp := promote pre e z (asn1LenByte e.length) (asn1Extra e.length) hl
      rw [set_mid] at hp
      simp only [hx, if_false, add, Bool.false_eq_true]
      rw [hp]
      simp


/-! ## the Go-shaped interpreter computes the specification (growable builder, misuse-free programs) -/

def Post (b b' : B) (e : Option Bytes) : Prop :=
  b'.off = b.off ∧ b'.pll = b.pll ∧
  match e with
  | some e => b'.err = false ∧ b'.res = b.res ++ e
  | none => b'.err = true

theorem flush_err (cap : Option Nat) (a : Bool) (b1 c : B) (h : c.err = true) :
    flush cap a b1 c = .ok { b1 with err := true } := by
  simp [flush, h]

theorem runP_err (top : Bool) (p : Prog) (b : B) (hs : simpleP p = true) (he : b.err = true) :
    runP none top p b = .ok b := by
  cases p with
  | value ok bs => cases ok <;> simp_all [runP, add, simpleP]
  | _ => simp_all [runP, add, simpleP]

theorem runL_err (top : Bool) : ∀ (ps : List Prog) (b : B), simpleL ps = true → b.err = true →
    runL none top ps b = .ok b
  | [], b, _, _ => by simp [runL]
  | p :: ps, b, hs, he => by
    simp only [simpleL, Bool.and_eq_true] at hs
    simp [runL, runP_err top p b hs.1 he, runL_err top ps b hs.2 he]

mutual
theorem runP_spec (top : Bool) : (p : Prog) → (b : B) → simpleP p = true → b.err = false →
    ∃ b', runP none top p b = .ok b' ∧ Post b b' (encP p)
  | .uint w v, b, _, he => ⟨add none b (natToBE w v), by simp [runP], by simp [Post, add, he, encP]⟩
  | .bytes bs, b, _, he => ⟨add none b bs, by simp [runP], by simp [Post, add, he, encP]⟩
  | .value true bs, b, _, he => ⟨add none b bs, by simp [runP], by simp [Post, add, he, encP]⟩
  | .value false bs, b, hs, _ => by simp [simpleP] at hs
  | .unwrite _, b, hs, _ => by simp [simpleP] at hs
  | .seterr, b, hs, _ => by simp [simpleP] at hs
  | .throw, b, hs, _ => by simp [simpleP] at hs
  | .pwrite, b, hs, _ => by simp [simpleP] at hs
  | .lp k body, b, hs, he => by
    obtain ⟨c, hc, hoff, hpll, hpost⟩ :=
      runL_spec false body ⟨b.res ++ zeros k, false, b.res.length, k⟩ (by simpa [simpleP] using hs) rfl
    simp only [runP, he, add, Bool.false_eq_true, if_false, hc, finish]
    cases henc : encL body with
    | none =>
      rw [henc] at hpost
      refine ⟨_, flush_err _ _ _ _ hpost, ?_⟩
      simp [Post, encP, henc]
    | some e =>
      rw [henc] at hpost
      have hz : (zeros k).length = k := by simp [zeros]
      have := flush_lp none { b with res := b.res ++ zeros k } c b.res (zeros k) e hpost.1 hoff
        (by rw [hz]; exact hpll) hpost.2
      rw [hz] at this
      simp only [he] at this
      refine ⟨_, this, ?_⟩
      by_cases hk : e.length < 256 ^ k
      · simp [Post, encP, henc, hk, he]
      · simp [Post, encP, henc, hk]
  | .asn1 t body, b, hs, he => by
    by_cases ht : (t &&& 0x1f == 0x1f) = true
    · refine ⟨{ b with err := true }, by simp [runP, he, ht], by simp [Post, encP, ht]⟩
    · obtain ⟨c, hc, hoff, hpll, hpost⟩ :=
        runL_spec false body ⟨b.res ++ [t] ++ zeros 1, false, (b.res ++ [t]).length, 1⟩
          (by simpa [simpleP] using hs) rfl
      simp only [runP, he, add, Bool.false_eq_true, if_false, ht, hc, finish]
      cases henc : encL body with
      | none =>
        rw [henc] at hpost
        refine ⟨_, flush_err _ _ _ _ hpost, ?_⟩
        simp [Post, encP, henc, ht]
      | some e =>
        rw [henc] at hpost
        have := flush_asn1 { b with res := b.res ++ [t] ++ zeros 1 } c (b.res ++ [t]) e 0 hpost.1 hoff hpll
          (by simpa [zeros] using hpost.2)
        simp only [he] at this
        refine ⟨_, this, ?_⟩
        by_cases hk : e.length > 0xfffffffe
        · simp [Post, encP, henc, hk, ht]
        · simp [Post, encP, henc, hk, ht, he]
theorem runL_spec (top : Bool) : (ps : List Prog) → (b : B) → simpleL ps = true → b.err = false →
    ∃ b', runL none top ps b = .ok b' ∧ Post b b' (encL ps)
  | [], b, _, he => ⟨b, by simp [runL], by simp [Post, encL, he]⟩
  | p :: ps, b, hs, he => by
    simp only [simpleL, Bool.and_eq_true] at hs
    obtain ⟨b1, h1, ho1, hp1, hpost1⟩ := runP_spec top p b hs.1 he
    cases hp : encP p with
    | none =>
      rw [hp] at hpost1
      refine ⟨b1, by simp [runL, h1, runL_err top ps b1 hs.2 hpost1], ?_⟩
      simp [Post, encL, hp, ho1, hp1, hpost1]
    | some a =>
      rw [hp] at hpost1
      obtain ⟨b2, h2, ho2, hp2, hpost2⟩ := runL_spec top ps b1 hs.2 hpost1.1
      refine ⟨b2, by simp [runL, h1, h2], ?_⟩
      cases hl : encL ps with
      | none =>
        rw [hl] at hpost2
        simp [Post, encL, hp, hl, ho1, hp1, ho2, hp2, hpost2]
      | some r =>
        rw [hl] at hpost2
        simp [Post, encL, hp, hl, ho1, hp1, ho2, hp2, hpost2, hpost1.2]
end


/-! ## the mirrored reads recover what the specification encodes -/

mutual
theorem parseP_enc : (p : Prog) → (e rest : Bytes) → encP p = some e → e.length ≤ 0xfffffff9 →
    parseP p (e ++ rest) = some rest
  | .uint w v, e, rest, h, _ => by
    simp only [encP, Option.some.injEq] at h; subst h
    simp [parseP, read_append _ rest w (natToBE_length w v), natOfBE_natToBE]
  | .bytes bs, e, rest, h, _ => by
    simp only [encP, Option.some.injEq] at h; subst h
    simp [parseP, read_append _ rest _ rfl]
  | .value true bs, e, rest, h, _ => by
    simp only [encP, Option.some.injEq] at h; subst h
    simp [parseP, read_append _ rest _ rfl]
  | .value false bs, e, rest, h, _ => by simp [encP] at h
  | .unwrite _, e, rest, h, _ => by simp [encP] at h
  | .seterr, e, rest, h, _ => by simp [encP] at h
  | .throw, e, rest, h, _ => by simp [encP] at h
  | .pwrite, e, rest, h, _ => by simp [encP] at h
  | .lp k body, e, rest, h, hM => by
    simp only [encP] at h
    cases hc : encL body with
    | none => simp [hc] at h
    | some c =>
      simp only [hc] at h
      by_cases hk : c.length < 256 ^ k
      · simp only [hk, if_true, Option.some.injEq] at h; subst h
        have hcl : c.length ≤ 0xfffffff9 := by
          have : (natToBE k c.length ++ c).length = k + c.length := by simp [natToBE_length]
          omega
        have ih := parseL_enc body c [] hc hcl
        rw [List.append_nil] at ih
        have r1 : read k (natToBE k c.length ++ (c ++ rest)) = some (natToBE k c.length, c ++ rest) :=
          read_append _ _ _ (natToBE_length _ _)
        simp [parseP, readLP, r1, natOfBE_natToBE, Nat.mod_eq_of_lt hk, read_append c rest _ rfl, ih]
      · simp [hk] at h
  | .asn1 t body, e, rest, h, hM => by
    simp only [encP] at h
    by_cases ht : (t &&& 0x1f == 0x1f) = true
    · simp [ht] at h
    · simp only [ht, Bool.false_eq_true, if_false] at h
      cases hc : encL body with
      | none => simp [hc] at h
      | some c =>
        simp only [hc] at h
        by_cases hk : c.length > 0xfffffffe
        · simp [hk] at h
        · simp only [hk, if_false, Option.some.injEq] at h; subst h
          have hcl : c.length ≤ 0xfffffff9 := by
            have : (t :: (derLen c.length ++ c)).length = 1 + (derLen c.length).length + c.length := by
              simp; omega
            omega
          have ih := parseL_enc body c [] hc hcl
          rw [List.append_nil] at ih
          have r1 := readASN1Tag_der t c rest (by simpa using ht) hcl
          simp only [List.cons_append, parseP]
          rw [r1]
          simp [ih]
theorem parseL_enc : (ps : List Prog) → (e rest : Bytes) → encL ps = some e → e.length ≤ 0xfffffff9 →
    parseL ps (e ++ rest) = some rest
  | [], e, rest, h, _ => by
    simp only [encL, Option.some.injEq] at h; subst h; simp [parseL]
  | p :: ps, e, rest, h, hM => by
    simp only [encL] at h
    cases hp : encP p with
    | none => simp [hp] at h
    | some a =>
      cases hl : encL ps with
      | none => simp [hp, hl] at h
      | some r =>
        simp only [hp, hl, Option.some.injEq] at h; subst h
        have h1 := parseP_enc p a (r ++ rest) hp (by simp at hM; omega)
        have h2 := parseL_enc ps r rest hl (by simp at hM; omega)
        simp [parseL, List.append_assoc, h1, h2]
end


/-! ## invariants that hold for EVERY program (Unwrite, errors, panics, fixed capacity included) -/

/-- a builder's reserved prefix lies inside the buffer; a fixed buffer is never exceeded -/
def WF (cap : Option Nat) (b : B) : Prop :=
  b.off + b.pll ≤ b.res.length ∧ ∀ c, cap = some c → b.res.length ≤ c

/-- outcome of one step: no internal-error panic; a returned builder keeps its frame and the invariant -/
def Good (cap : Option Nat) (b : B) : Out B → Prop
  | .ok b' => WF cap b' ∧ b'.off = b.off ∧ b'.pll = b.pll
  | .panic i => i = false
  | .thrown => True

theorem add_inv (cap : Option Nat) (b : B) (bs : Bytes) (h : WF cap b) :
    WF cap (add cap b bs) ∧ (add cap b bs).off = b.off ∧ (add cap b bs).pll = b.pll ∧
      b.res.length ≤ (add cap b bs).res.length ∧
      ((add cap b bs).err = false → (add cap b bs).res = b.res ++ bs) := by
  obtain ⟨h1, h2⟩ := h
  unfold add
  split
  · simp_all [WF]
  · cases cap with
    | none => simp_all [WF]; omega
    | some c =>
      have := h2 c rfl
      simp only
      split
      · simp_all [WF]
      · simp_all [WF]; omega

theorem flush_inv_asn1 (cap : Option Nat) (b1 : B) (cres : Bytes) (cerr : Bool) (coff : Nat)
    (hb1 : b1.off + b1.pll ≤ b1.res.length) (hb2 : ∀ c, cap = some c → b1.res.length ≤ c)
    (hc1 : coff + 1 ≤ cres.length) (hc2 : ∀ c, cap = some c → cres.length ≤ c)
    (hle : b1.off + b1.pll ≤ coff + 1) :
    Good cap b1 (flush cap true b1 ⟨cres, cerr, coff, 1⟩) := by
  unfold flush
  simp only [if_true, bne_self_eq_false, Bool.false_eq_true, if_false]
  split
  · exact ⟨⟨hb1, hb2⟩, rfl, rfl⟩
  · split
    · omega
    · split
      · exact ⟨⟨hb1, hb2⟩, rfl, rfl⟩
      · split
        · refine ⟨⟨?_, ?_⟩, rfl, rfl⟩
          · simp only [List.length_set]; omega
          · intro cc hcc; simp only [List.length_set]; exact hc2 cc hcc
        · have hwf : WF cap ⟨cres.set coff (asn1LenByte (cres.length - 1 - coff)), cerr, coff, 1⟩ :=
            ⟨by simp only [List.length_set]; omega, by intro cc hcc; simp only [List.length_set]; exact hc2 cc hcc⟩
          obtain ⟨⟨_, w2⟩, _, _, w5, w6⟩ := add_inv cap _ (zeros (asn1Extra (cres.length - 1 - coff))) hwf
          split
          · exact ⟨⟨hb1, hb2⟩, rfl, rfl⟩
          · rename_i hne
            have hres := w6 (by simpa using hne)
            generalize hpr : patchLen _ _ _ _ = pr
            obtain ⟨res3, l⟩ := pr
            have hlen := congrArg (fun x => x.1.length) hpr
            simp only [patchLen_length] at hlen
            rw [copyWithin_length _ _ _ (by omega) (by rw [hres]; simp [zeros]; omega)] at hlen
            simp only
            split
            · exact ⟨⟨hb1, hb2⟩, rfl, rfl⟩
            · refine ⟨⟨?_, ?_⟩, rfl, rfl⟩
              · simp only; rw [← hlen]; simp only [List.length_set] at w5; omega
              · intro cc hcc; simp only; rw [← hlen]; exact w2 cc hcc

theorem flush_inv (cap : Option Nat) (a : Bool) (b1 c : B) (hb : WF cap b1) (hc : WF cap c)
    (hle : b1.off + b1.pll ≤ c.off + c.pll) (ha : a = true → c.pll = 1) :
    Good cap b1 (flush cap a b1 c) := by
  obtain ⟨hb1, hb2⟩ := hb
  obtain ⟨hc1, hc2⟩ := hc
  obtain ⟨cres, cerr, coff, cpll⟩ := c
  simp only at hc1 hc2 hle ha
  cases a with
  | true =>
    have hp := ha rfl
    subst hp
    exact flush_inv_asn1 cap b1 cres cerr coff hb1 hb2 hc1 hc2 hle
  | false =>
  unfold flush
  simp only
  split
  · exact ⟨⟨hb1, hb2⟩, rfl, rfl⟩
  · split
    · omega
    · simp only [Bool.false_eq_true, if_false]
      generalize hpr : patchLen _ _ _ _ = pr
      obtain ⟨res3, l⟩ := pr
      have hlen := congrArg (fun x => x.1.length) hpr
      simp only [patchLen_length] at hlen
      simp only
      split
      · exact ⟨⟨hb1, hb2⟩, rfl, rfl⟩
      · refine ⟨⟨?_, ?_⟩, rfl, rfl⟩
        · simp only; rw [← hlen]; omega
        · intro cc hcc; simp only; rw [← hlen]; exact hc2 cc hcc


theorem this_good (cap : Option Nat) (b b1 : B) (r : Out B) (ho : b1.off = b.off) (hp : b1.pll = b.pll)
    (h : Good cap b1 r) : Good cap b r := by
  cases r with
  | ok b' => exact ⟨h.1, by rw [h.2.1, ho], by rw [h.2.2, hp]⟩
  | panic i => exact h
  | thrown => trivial

theorem finish_inv (cap : Option Nat) (top a : Bool) (b1 child : B) (r : Out B)
    (hb : WF cap b1) (hr : Good cap child r)
    (hle : b1.off + b1.pll ≤ child.off + child.pll) (ha : a = true → child.pll = 1) :
    Good cap b1 (finish cap top a b1 r) := by
  cases r with
  | panic i => simpa [finish, Good] using hr
  | thrown =>
    cases top
    · simp [finish, Good]
    · exact ⟨hb, rfl, rfl⟩
  | ok c =>
    obtain ⟨hc, ho, hp⟩ := hr
    exact flush_inv cap a b1 c hb hc (by omega) (by intro h; rw [hp]; exact ha h)

mutual
theorem runP_inv (cap : Option Nat) (top : Bool) : (p : Prog) → (b : B) → WF cap b →
    Good cap b (runP cap top p b)
  | .uint w v, b, h => by
    have := add_inv cap b (natToBE w v) h
    exact ⟨this.1, this.2.1, this.2.2.1⟩
  | .bytes bs, b, h => by
    have := add_inv cap b bs h
    exact ⟨this.1, this.2.1, this.2.2.1⟩
  | .value ok bs, b, h => by
    have := add_inv cap b bs h
    cases ok
    · exact ⟨this.1, this.2.1, this.2.2.1⟩
    · exact ⟨this.1, this.2.1, this.2.2.1⟩
  | .seterr, b, h => ⟨h, rfl, rfl⟩
  | .throw, b, _ => by cases top <;> simp [runP, Good]
  | .pwrite, b, _ => by simp [runP, Good]
  | .unwrite n, b, h => by
    unfold runP
    split
    · exact ⟨h, rfl, rfl⟩
    · split
      · have := h.1; omega
      · split
        · rfl
        · split
          · rfl
          · refine ⟨⟨?_, ?_⟩, rfl, rfl⟩
            · simp only [List.length_take]; have := h.1; omega
            · intro c hc; simp only [List.length_take]; have := h.2 c hc; omega
  | .lp k body, b, h => by
    unfold runP
    split
    · exact ⟨h, rfl, rfl⟩
    · obtain ⟨w1, w2, w3, w4, w5⟩ := add_inv cap b (zeros k) h
      simp only
      split
      · exact ⟨w1, w2, w3⟩
      · rename_i hne
        have hres := w5 (by simpa using hne)
        have hwc : WF cap ⟨(add cap b (zeros k)).res, false, b.res.length, k⟩ :=
          ⟨by show b.res.length + k ≤ _; rw [hres]; simp [zeros], w1.2⟩
        have ih := runL_inv cap false body _ hwc
        have := finish_inv cap top false (add cap b (zeros k)) _ _ w1 ih
          (by simp only [w2, w3]; have := h.1; omega) (by simp)
        exact this_good cap b _ _ w2 w3 this
  | .asn1 t body, b, h => by
    unfold runP
    split
    · exact ⟨h, rfl, rfl⟩
    · split
      · exact ⟨h, rfl, rfl⟩
      · obtain ⟨v1, v2, v3, v4, v5⟩ := add_inv cap b [t] h
        simp only
        split
        · exact ⟨v1, v2, v3⟩
        · obtain ⟨w1, w2, w3, w4, w5⟩ := add_inv cap (add cap b [t]) (zeros 1) v1
          split
          · exact ⟨w1, by rw [w2, v2], by rw [w3, v3]⟩
          · rename_i hne
            have hres := w5 (by simpa using hne)
            have hwc : WF cap ⟨(add cap (add cap b [t]) (zeros 1)).res, false, (add cap b [t]).res.length, 1⟩ :=
              ⟨by show (add cap b [t]).res.length + 1 ≤ _; rw [hres]; simp [zeros], w1.2⟩
            have ih := runL_inv cap false body _ hwc
            have := finish_inv cap top true (add cap (add cap b [t]) (zeros 1)) _ _ w1 ih
              (by simp only [w2, w3]; have := v1.1; omega) (by simp)
            exact this_good cap b _ _ (by rw [w2, v2]) (by rw [w3, v3]) this
theorem runL_inv (cap : Option Nat) (top : Bool) : (ps : List Prog) → (b : B) → WF cap b →
    Good cap b (runL cap top ps b)
  | [], b, h => ⟨h, rfl, rfl⟩
  | p :: ps, b, h => by
    have h1 := runP_inv cap top p b h
    unfold runL
    cases hr : runP cap top p b with
    | ok b' =>
      rw [hr] at h1
      obtain ⟨hw, ho, hp⟩ := h1
      have h2 := runL_inv cap top ps b' hw
      exact this_good cap b b' _ ho hp h2
    | panic i => rw [hr] at h1; exact h1
    | thrown => trivial
end

/-! ## fixed-size builders: the exact result (misuse-free programs) -/

def fitsB (cap : Option Nat) (n : Nat) : Bool :=
  match cap with
  | none => true
  | some c => decide (n ≤ c)

theorem fitsB_mono (cap : Option Nat) (m n : Nat) (h : fitsB cap m = true) (hn : n ≤ m) : fitsB cap n = true := by
  cases cap with
  | none => rfl
  | some c => simp only [fitsB, decide_eq_true_eq] at *; omega

theorem add_fits (cap : Option Nat) (b : B) (bs : Bytes) (he : b.err = false) :
    add cap b bs = if fitsB cap (b.res.length + bs.length) = true then { b with res := b.res ++ bs }
      else { b with err := true } := by
  unfold add
  cases cap with
  | none => simp [he, fitsB]
  | some c =>
    simp only [he, Bool.false_eq_true, if_false, fitsB, decide_eq_true_eq]
    by_cases h : b.res.length + bs.length > c
    · rw [if_pos h, if_neg (by omega)]
    · rw [if_neg h, if_pos (by omega)]

theorem derLen_length (n : Nat) : (derLen n).length = 1 + asn1Extra n := by
  rw [derLen_eq]
  by_cases h : asn1Extra n = 0
  · simp [h]
  · simp [h, natToBE_length]; omega

theorem flush_asn1C (cap : Option Nat) (b1 c : B) (pre e : Bytes) (z : UInt8)
    (herr : c.err = false) (hoff : c.off = pre.length) (hpll : c.pll = 1)
    (hres : c.res = pre ++ [z] ++ e) :
    flush cap true b1 c =
      .ok (if e.length > 0xfffffffe then { b1 with err := true }
           else if asn1Extra e.length = 0 ∨ fitsB cap (pre.length + (derLen e.length).length + e.length) = true
             then { b1 with res := pre ++ derLen e.length ++ e }
           else { b1 with err := true }) := by
  obtain ⟨res, err, off, pll⟩ := c
  simp only at herr hoff hpll hres
  subst herr hoff hpll hres
  unfold flush
  have hL : (pre ++ [z] ++ e).length - 1 - pre.length = e.length := by
    simp only [List.length_append, List.length_cons, List.length_nil]; omega
  have hN : ¬ ((pre ++ [z] ++ e).length < 1 + pre.length) := by
    simp only [List.length_append, List.length_cons, List.length_nil]; omega
  simp only [Bool.false_eq_true, if_false, if_true, hN, hL, bne_self_eq_false]
  by_cases g0 : e.length > 0xfffffffe
  · simp only [g0, if_true]
  · simp only [g0, if_false]
    rw [set_mid]
    by_cases hx : asn1Extra e.length = 0
    · rw [if_pos hx, if_pos (Or.inl hx), derLen_eq, if_pos hx]
    · rw [if_neg hx]
      have hl := asn1Extra_bound e.length (by omega) hx
      have hp := promote pre e z (asn1LenByte e.length) (asn1Extra e.length) hl
      rw [set_mid] at hp
      rw [add_fits cap _ _ rfl]
      have hlen : (pre ++ [asn1LenByte e.length] ++ e).length + (zeros (asn1Extra e.length)).length
          = pre.length + (derLen e.length).length + e.length := by
        simp only [List.length_append, List.length_cons, List.length_nil, zeros, List.length_replicate,
          derLen_length]; omega
      simp only [hlen]
      by_cases hf : fitsB cap (pre.length + (derLen e.length).length + e.length) = true
      · rw [if_pos hf, if_pos (Or.inr hf)]
        simp only [Bool.false_eq_true, if_false]
        rw [hp]
        simp only [bne_self_eq_false, Bool.false_eq_true, if_false]
        rw [derLen_eq, if_neg hx]
        simp
      · have hor : ¬ (asn1Extra e.length = 0 ∨ fitsB cap (pre.length + (derLen e.length).length + e.length) = true) := by
          intro h; rcases h with h | h
          · exact hx h
          · exact hf h
        rw [if_neg hf, if_neg hor]
        simp


def PostC (cap : Option Nat) (b b' : B) (e : Option Bytes) : Prop :=
  b'.off = b.off ∧ b'.pll = b.pll ∧
  match e with
  | some e => if fitsB cap (b.res.length + e.length) = true then b'.err = false ∧ b'.res = b.res ++ e
              else b'.err = true
  | none => b'.err = true

theorem runP_errC (cap : Option Nat) (top : Bool) (p : Prog) (b : B) (hs : simpleP p = true) (he : b.err = true) :
    runP cap top p b = .ok b := by
  cases p with
  | value ok bs => cases ok <;> simp_all [runP, add, simpleP]
  | _ => simp_all [runP, add, simpleP]

theorem runL_errC (cap : Option Nat) (top : Bool) : ∀ (ps : List Prog) (b : B), simpleL ps = true → b.err = true →
    runL cap top ps b = .ok b
  | [], b, _, _ => by simp [runL]
  | p :: ps, b, hs, he => by
    simp only [simpleL, Bool.and_eq_true] at hs
    simp [runL, runP_errC cap top p b hs.1 he, runL_errC cap top ps b hs.2 he]

theorem leaf_postC (cap : Option Nat) (b : B) (bs : Bytes) (he : b.err = false) :
    PostC cap b (add cap b bs) (some bs) := by
  rw [add_fits cap b bs he]
  unfold PostC
  by_cases h : fitsB cap (b.res.length + bs.length) = true
  · simp [h, he]
  · simp [h]

theorem postC_err (cap : Option Nat) (b b' : B) (e : Option Bytes) (ho : b'.off = b.off) (hp : b'.pll = b.pll)
    (he : b'.err = true) (hnf : ∀ x, e = some x → ¬ fitsB cap (b.res.length + x.length) = true) :
    PostC cap b b' e := by
  refine ⟨ho, hp, ?_⟩
  cases e with
  | none => exact he
  | some x => simp only; rw [if_neg (hnf x rfl)]; exact he

theorem postC_ok (cap : Option Nat) (b b' : B) (x : Bytes) (ho : b'.off = b.off) (hp : b'.pll = b.pll)
    (he : b'.err = false) (hr : b'.res = b.res ++ x) (hf : fitsB cap (b.res.length + x.length) = true) :
    PostC cap b b' (some x) := by
  refine ⟨ho, hp, ?_⟩
  simp only; rw [if_pos hf]; exact ⟨he, hr⟩

theorem encP_lp_some (k : Nat) (body : List Prog) (x : Bytes) (h : encP (.lp k body) = some x) :
    ∃ e, encL body = some e ∧ e.length < 256 ^ k ∧ x = natToBE k e.length ++ e := by
  simp only [encP] at h
  cases henc : encL body with
  | none => simp [henc] at h
  | some e =>
    simp only [henc] at h
    by_cases hk : e.length < 256 ^ k
    · simp only [hk, if_true, Option.some.injEq] at h; exact ⟨e, rfl, hk, h.symm⟩
    · simp [hk] at h

theorem encP_asn1_some (t : UInt8) (body : List Prog) (x : Bytes) (h : encP (.asn1 t body) = some x) :
    (t &&& 0x1f == 0x1f) = false ∧ ∃ e, encL body = some e ∧ ¬ e.length > 0xfffffffe ∧
      x = t :: (derLen e.length ++ e) := by
  simp only [encP] at h
  by_cases ht : (t &&& 0x1f == 0x1f) = true
  · simp [ht] at h
  · simp only [ht, Bool.false_eq_true, if_false] at h
    cases henc : encL body with
    | none => simp [henc] at h
    | some e =>
      simp only [henc] at h
      by_cases hk : e.length > 0xfffffffe
      · simp [hk] at h
      · simp only [hk, if_false, Option.some.injEq] at h
        exact ⟨by simpa using ht, e, rfl, hk, h.symm⟩

mutual
theorem runP_specC (cap : Option Nat) (top : Bool) : (p : Prog) → (b : B) → simpleP p = true → b.err = false →
    ∃ b', runP cap top p b = .ok b' ∧ PostC cap b b' (encP p)
  | .uint w v, b, _, he => ⟨add cap b (natToBE w v), by simp [runP], by simpa [encP] using leaf_postC cap b _ he⟩
  | .bytes bs, b, _, he => ⟨add cap b bs, by simp [runP], by simpa [encP] using leaf_postC cap b _ he⟩
  | .value true bs, b, _, he => ⟨add cap b bs, by simp [runP], by simpa [encP] using leaf_postC cap b _ he⟩
  | .value false bs, b, hs, _ => by simp [simpleP] at hs
  | .unwrite _, b, hs, _ => by simp [simpleP] at hs
  | .seterr, b, hs, _ => by simp [simpleP] at hs
  | .throw, b, hs, _ => by simp [simpleP] at hs
  | .pwrite, b, hs, _ => by simp [simpleP] at hs
  | .lp k body, b, hs, he => by
    have hz : (zeros k).length = k := by simp [zeros]
    simp only [runP, he, Bool.false_eq_true, if_false]
    rw [add_fits cap b (zeros k) he, hz]
    by_cases hfit : fitsB cap (b.res.length + k) = true
    · rw [if_pos hfit]
      simp only [he, Bool.false_eq_true, if_false]
      obtain ⟨c, hc, hoff, hpll, hpost⟩ :=
        runL_specC cap false body ⟨b.res ++ zeros k, false, b.res.length, k⟩ (by simpa [simpleP] using hs) rfl
          (by simpa [hz] using hfit)
      rw [hc]; simp only [finish]
      cases henc : encL body with
      | none =>
        rw [henc] at hpost
        exact ⟨_, flush_err _ _ _ _ hpost, by simp [PostC, encP, henc]⟩
      | some e =>
        rw [henc] at hpost
        simp only [List.length_append, hz] at hpost
        by_cases hfe : fitsB cap (b.res.length + k + e.length) = true
        · rw [if_pos hfe] at hpost
          have := flush_lp cap { b with res := b.res ++ zeros k } c b.res (zeros k) e hpost.1 hoff
            (by rw [hz]; exact hpll) hpost.2
          rw [hz] at this
          simp only [he] at this
          refine ⟨_, this, ?_⟩
          by_cases hk : e.length < 256 ^ k
          · rw [if_pos hk]
            have : encP (.lp k body) = some (natToBE k e.length ++ e) := by simp [encP, henc, hk]
            rw [this]
            exact postC_ok cap b _ _ rfl rfl rfl (by simp) (by
              simp only [List.length_append, natToBE_length]; rw [← Nat.add_assoc]; exact hfe)
          · rw [if_neg hk]
            have : encP (.lp k body) = none := by simp [encP, henc, hk]
            rw [this]; exact ⟨rfl, rfl, rfl⟩
        · rw [if_neg hfe] at hpost
          refine ⟨_, flush_err _ _ _ _ hpost, postC_err cap b _ _ rfl rfl rfl ?_⟩
          intro x hx
          obtain ⟨e', he', _, rfl⟩ := encP_lp_some k body x hx
          rw [henc] at he'; cases he'
          simp only [List.length_append, natToBE_length]; rw [← Nat.add_assoc]; exact hfe
    · rw [if_neg hfit]
      simp only [if_true]
      refine ⟨_, rfl, postC_err cap b _ _ rfl rfl rfl ?_⟩
      intro x hx
      obtain ⟨e', _, _, rfl⟩ := encP_lp_some k body x hx
      intro h; apply hfit
      exact fitsB_mono cap _ _ h (by simp only [List.length_append, natToBE_length]; omega)
  | .asn1 t body, b, hs, he => by
    by_cases ht : (t &&& 0x1f == 0x1f) = true
    · exact ⟨{ b with err := true }, by simp [runP, he, ht], by simp [PostC, encP, ht]⟩
    · simp only [runP, he, Bool.false_eq_true, if_false, ht]
      rw [add_fits cap b [t] he]
      simp only [List.length_cons, List.length_nil]
      -- any encoding is at least 2 bytes long
      have hlen2 : ∀ x, encP (.asn1 t body) = some x → ∃ e, encL body = some e ∧ ¬ e.length > 0xfffffffe ∧
          x.length = 1 + (derLen e.length).length + e.length ∧ 2 ≤ x.length := by
        intro x hx
        obtain ⟨_, e, h1, h2, rfl⟩ := encP_asn1_some t body x hx
        have hd := derLen_length e.length
        exact ⟨e, h1, h2, by simp only [List.length_cons, List.length_append]; omega,
          by simp only [List.length_cons, List.length_append]; omega⟩
      by_cases hf1 : fitsB cap (b.res.length + 1) = true
      · rw [if_pos hf1]
        simp only [he, Bool.false_eq_true, if_false]
        rw [add_fits cap _ (zeros 1) (by rfl)]
        simp only [List.length_append, List.length_cons, List.length_nil, zeros, List.length_replicate]
        by_cases hf2 : fitsB cap (b.res.length + (0 + 1) + 1) = true
        · rw [if_pos hf2]
          simp only [Bool.false_eq_true, if_false]
          obtain ⟨c, hc, hoff, hpll, hpost⟩ :=
            runL_specC cap false body ⟨b.res ++ [t] ++ List.replicate 1 0, false, (b.res ++ [t]).length, 1⟩
              (by simpa [simpleP] using hs) rfl (by simpa using hf2)
          simp only [List.length_append, List.length_cons, List.length_nil] at hc
          rw [hc]; simp only [finish]
          cases henc : encL body with
          | none =>
            rw [henc] at hpost
            exact ⟨_, flush_err _ _ _ _ hpost, by simp [PostC, encP, henc, ht]⟩
          | some e =>
            rw [henc] at hpost
            simp only [List.length_append, List.length_cons, List.length_nil, List.length_replicate] at hpost
            have hd := derLen_length e.length
            by_cases hfe : fitsB cap (b.res.length + (0 + 1) + 1 + e.length) = true
            · rw [if_pos hfe] at hpost
              have := flush_asn1C cap { b with res := b.res ++ [t] ++ List.replicate 1 0 } c (b.res ++ [t]) e 0
                hpost.1 hoff hpll (by simpa using hpost.2)
              simp only [he] at this
              refine ⟨_, this, ?_⟩
              by_cases hk : e.length > 0xfffffffe
              · rw [if_pos hk]
                have : encP (.asn1 t body) = none := by simp [encP, henc, hk, ht]
                rw [this]; exact ⟨rfl, rfl, rfl⟩
              · rw [if_neg hk]
                have hencP : encP (.asn1 t body) = some (t :: (derLen e.length ++ e)) := by
                  simp [encP, henc, hk, ht]
                by_cases hor : asn1Extra e.length = 0 ∨
                    fitsB cap ((b.res ++ [t]).length + (derLen e.length).length + e.length) = true
                · rw [if_pos hor, hencP]
                  refine postC_ok cap b _ _ rfl rfl rfl (by simp) ?_
                  simp only [List.length_cons, List.length_append]
                  rcases hor with h0 | h
                  · exact fitsB_mono cap _ _ hfe (by omega)
                  · simp only [List.length_append, List.length_cons, List.length_nil] at h
                    exact fitsB_mono cap _ _ h (by omega)
                · rw [if_neg hor]
                  refine postC_err cap b _ _ rfl rfl rfl ?_
                  intro x hx
                  rw [hencP] at hx; cases hx
                  intro h; apply hor; right
                  simp only [List.length_append, List.length_cons, List.length_nil] at h ⊢
                  exact fitsB_mono cap _ _ h (by omega)
            · rw [if_neg hfe] at hpost
              refine ⟨_, flush_err _ _ _ _ hpost, postC_err cap b _ _ rfl rfl rfl ?_⟩
              intro x hx
              obtain ⟨e', he', _, hl, _⟩ := hlen2 x hx
              rw [henc] at he'; cases he'
              intro h; apply hfe
              exact fitsB_mono cap _ _ h (by omega)
        · rw [if_neg hf2]
          simp only [if_true]
          refine ⟨_, rfl, postC_err cap b _ _ rfl rfl rfl ?_⟩
          intro x hx
          obtain ⟨_, _, _, _, h2⟩ := hlen2 x hx
          intro h; apply hf2
          exact fitsB_mono cap _ _ h (by omega)
      · rw [if_neg hf1]
        simp only [if_true]
        refine ⟨_, rfl, postC_err cap b _ _ rfl rfl rfl ?_⟩
        intro x hx
        obtain ⟨_, _, _, _, h2⟩ := hlen2 x hx
        intro h; apply hf1
        exact fitsB_mono cap _ _ h (by omega)
theorem runL_specC (cap : Option Nat) (top : Bool) : (ps : List Prog) → (b : B) → simpleL ps = true → b.err = false →
    fitsB cap b.res.length = true →
    ∃ b', runL cap top ps b = .ok b' ∧ PostC cap b b' (encL ps)
  | [], b, _, he, hfit => ⟨b, by simp [runL], postC_ok cap b b [] rfl rfl he (by simp) (by simpa using hfit)⟩
  | p :: ps, b, hs, he, hfit => by
    simp only [simpleL, Bool.and_eq_true] at hs
    obtain ⟨b1, h1, ho1, hp1, hpost1⟩ := runP_specC cap top p b hs.1 he
    cases hp : encP p with
    | none =>
      rw [hp] at hpost1
      refine ⟨b1, by simp [runL, h1, runL_errC cap top ps b1 hs.2 hpost1], ho1, hp1, ?_⟩
      simp [encL, hp, hpost1]
    | some a =>
      rw [hp] at hpost1
      simp only at hpost1
      by_cases hfa : fitsB cap (b.res.length + a.length) = true
      · rw [if_pos hfa] at hpost1
        obtain ⟨b2, h2, ho2, hp2, hpost2⟩ := runL_specC cap top ps b1 hs.2 hpost1.1
          (by rw [hpost1.2]; simpa using hfa)
        refine ⟨b2, by simp [runL, h1, h2], by rw [ho2, ho1], by rw [hp2, hp1], ?_⟩
        cases hl : encL ps with
        | none =>
          rw [hl] at hpost2
          simp [encL, hp, hl, hpost2]
        | some r =>
          rw [hl] at hpost2
          simp only [encL, hp, hl, List.length_append]
          simp only [hpost1.2, List.length_append] at hpost2
          by_cases hfr : fitsB cap (b.res.length + a.length + r.length) = true
          · rw [if_pos hfr] at hpost2
            rw [if_pos (by rw [← Nat.add_assoc]; exact hfr)]
            exact ⟨hpost2.1, by rw [hpost2.2, List.append_assoc]⟩
          · rw [if_neg hfr] at hpost2
            rw [if_neg (by rw [← Nat.add_assoc]; exact hfr)]
            exact hpost2
      · rw [if_neg hfa] at hpost1
        refine ⟨b1, by simp [runL, h1, runL_errC cap top ps b1 hs.2 hpost1], ho1, hp1, ?_⟩
        cases hl : encL ps with
        | none => simp [encL, hp, hl, hpost1]
        | some r =>
          simp only [encL, hp, hl, List.length_append]
          rw [if_neg (fun h => hfa (fitsB_mono cap _ _ h (by omega)))]
          exact hpost1
end

end XC.C22
