/-
  C44 — partial-length writer ∘ partial-length reader = identity, for every chunking of Write.
-/
import XC.Model.C44
namespace XC.C44
open XC

theorem plLoop_nil (k : Nat) : plLoop k [] = [] := by rw [plLoop]; simp

theorem plLoop_cons (k : Nat) (p : Bytes) (h : p ≠ []) :
    plLoop k p =
      UInt8.ofNat (224 + (if p.length < 2 ^ k then Nat.log2 p.length else k)) ::
        p.take (2 ^ (if p.length < 2 ^ k then Nat.log2 p.length else k)) ++
        plLoop (if p.length < 2 ^ k then Nat.log2 p.length else k)
          (p.drop (2 ^ (if p.length < 2 ^ k then Nat.log2 p.length else k))) := by
  rw [plLoop]; simp [h]

theorem readLength_partial (k : Nat) (hk : k ≤ 30) (rest : Bytes) :
    C45.readLength (UInt8.ofNat (224 + k) :: rest) = .ok (2 ^ k, true, rest) := by
  have f1 : ∀ j : Fin 31, ¬ (UInt8.ofNat (224 + j.val) < 192) := by decide
  have f2 : ∀ j : Fin 31, ¬ (UInt8.ofNat (224 + j.val) < 224) := by decide
  have f3 : ∀ j : Fin 31, (UInt8.ofNat (224 + j.val) < 255) := by decide
  have f4 : ∀ j : Fin 31, (UInt8.ofNat (224 + j.val)).toNat % 32 = j.val := by decide
  have a1 := f1 ⟨k, by omega⟩
  have a2 := f2 ⟨k, by omega⟩
  have a3 := f3 ⟨k, by omega⟩
  have a4 := f4 ⟨k, by omega⟩
  simp only at a1 a2 a3 a4
  simp only [C45.readLength, a1, a2, a3, a4, ↓reduceIte]

/-- the reader's recursion, stated through `readStream` -/
theorem readPartial_partial (n : Nat) (s : Bytes) (h : n ≤ s.length) :
    C45.readPartial n true s =
      (s.take n ++ (readStream (s.drop n)).1, (readStream (s.drop n)).2.1, (readStream (s.drop n)).2.2) := by
  rw [C45.readPartial]
  have : ¬ s.length < n := by omega
  simp only [this, ↓reduceIte, Bool.not_true, Bool.false_eq_true]
  unfold readStream
  split <;> simp_all

theorem readStream_final (tail : Bytes) : readStream (0 :: tail) = ([], none, tail) := by
  have : C45.readLength (0 :: tail) = .ok (0, false, tail) := by
    simp [C45.readLength]
  unfold readStream
  rw [this]
  simp only
  rw [C45.readPartial]
  simp

/-- `out` is a sequence of partial chunks carrying `data`: put in front of any well-formed rest of a
    stream, the reader delivers `data` first -/
def Decodes (out data : Bytes) : Prop :=
  ∀ cont d tail, readStream cont = (d, none, tail) → readStream (out ++ cont) = (data ++ d, none, tail)

theorem Decodes.nil : Decodes [] [] := by intro c d t h; simpa using h

theorem Decodes.append {o1 d1 o2 d2 : Bytes} (h1 : Decodes o1 d1) (h2 : Decodes o2 d2) :
    Decodes (o1 ++ o2) (d1 ++ d2) := by
  intro c d t h
  have := h1 (o2 ++ c) (d2 ++ d) t (h2 c d t h)
  simpa [List.append_assoc] using this

theorem plLoop_decodes (p : Bytes) (k : Nat) (hk : k ≤ 30) : Decodes (plLoop k p) p := by
  induction hl : p.length using Nat.strongRecOn generalizing p k with
  | _ n ih =>
    by_cases hp : p = []
    · subst hp; rw [plLoop_nil]; exact Decodes.nil
    · intro cont d tail hc
      rw [plLoop_cons k p hp]
      have hpos : 0 < p.length := List.length_pos_iff.mpr hp
      -- the power actually used
      generalize hpw : (if p.length < 2 ^ k then Nat.log2 p.length else k) = pw
      have hpw30 : pw ≤ 30 := by
        subst hpw
        split
        · rename_i hlt
          have : Nat.log2 p.length < k := (Nat.log2_lt (by omega)).2 hlt
          omega
        · exact hk
      have hfit : 2 ^ pw ≤ p.length := by
        subst hpw
        split
        · exact Nat.log2_self_le (by omega)
        · rename_i hge; omega
      simp only [List.cons_append]
      unfold readStream
      rw [readLength_partial pw hpw30]
      show C45.readPartial (2 ^ pw) true _ = _
      rw [readPartial_partial _ _ (by simp only [List.length_append, List.length_take]; omega)]
      have htk : (p.take (2 ^ pw) ++ (plLoop pw (p.drop (2 ^ pw)) ++ cont)).take (2 ^ pw) = p.take (2 ^ pw) := by
        rw [List.take_append_of_le_length (by simp only [List.length_take]; omega)]
        rw [List.take_take, Nat.min_self]
      have hdr : (p.take (2 ^ pw) ++ (plLoop pw (p.drop (2 ^ pw)) ++ cont)).drop (2 ^ pw) =
          plLoop pw (p.drop (2 ^ pw)) ++ cont := by
        rw [List.drop_append_of_le_length (by simp only [List.length_take]; omega)]
        simp [List.drop_take_self]
      rw [List.append_assoc, htk, hdr]
      have hlt : (p.drop (2 ^ pw)).length < n := by
        subst hl
        have : 0 < 2 ^ pw := Nat.two_pow_pos _
        simp only [List.length_drop]; omega
      have := ih _ hlt (p.drop (2 ^ pw)) pw hpw30 rfl cont d tail hc
      rw [this]
      simp [← List.append_assoc, List.take_append_drop]

/-- invariant of the writer: once the first chunk has been sent the buffer is empty -/
def PW.Inv (w : PW) : Prop := w.sentFirst = true → w.buf = []

theorem pwWrite_spec (w : PW) (p : Bytes) (hw : w.Inv) :
    (pwWrite w p).1.Inv ∧
    ∃ data, Decodes (pwWrite w p).2 data ∧ data ++ (pwWrite w p).1.buf = w.buf ++ p := by
  unfold pwWrite
  by_cases hs : w.sentFirst = true
  · have hb := hw hs
    simp only [hs, Bool.not_true, Bool.false_eq_true, ↓reduceIte]
    exact ⟨hw, p, plLoop_decodes p 30 (by omega), by simp [hb]⟩
  · have hs : w.sentFirst = false := by simpa using hs
    simp only [hs, Bool.not_false, ↓reduceIte]
    by_cases hc : (decide (w.buf.length > 0) || decide (p.length < minFirstPartialWrite)) = true
    · simp only [hc, ↓reduceIte]
      by_cases hl : (w.buf ++ p).length < minFirstPartialWrite
      · simp only [hl, ↓reduceIte]
        exact ⟨by intro h; simp [hs] at h, [], Decodes.nil, by simp⟩
      · simp only [hl, ↓reduceIte]
        exact ⟨by intro _; rfl, w.buf ++ p, plLoop_decodes _ 30 (by omega), by simp⟩
    · simp only [hc, Bool.false_eq_true, ↓reduceIte]
      have hb : w.buf = [] := by
        simp only [gt_iff_lt, Bool.or_eq_true, decide_eq_true_eq, not_or, Nat.not_lt, Nat.le_zero_eq] at hc
        exact List.eq_nil_of_length_eq_zero hc.1
      exact ⟨by intro _; exact hb, p, plLoop_decodes p 30 (by omega), by simp [hb]⟩

theorem pwRun_spec (w : PW) (chunks : List Bytes) (hw : w.Inv) :
    (pwRun w chunks).1.Inv ∧
    ∃ data, Decodes (pwRun w chunks).2 data ∧ data ++ (pwRun w chunks).1.buf = w.buf ++ chunks.flatten := by
  induction chunks generalizing w with
  | nil => exact ⟨hw, [], Decodes.nil, by simp [pwRun]⟩
  | cons c cs ih =>
    obtain ⟨hi, d1, hd1, e1⟩ := pwWrite_spec w c hw
    obtain ⟨hi2, d2, hd2, e2⟩ := ih (pwWrite w c).1 hi
    refine ⟨hi2, d1 ++ d2, Decodes.append hd1 hd2, ?_⟩
    simp only [pwRun, List.flatten_cons]
    rw [List.append_assoc, e2, ← List.append_assoc, e1, List.append_assoc]

/-- **partial_roundtrip**: for every sequence of Writes, what the partial-length writer emits (with
    Close) is read back by the partial-length reader as exactly the concatenation of the writes, with
    no error, leaving whatever follows the packet unread. -/
theorem partial_roundtrip (chunks : List Bytes) (tail : Bytes) :
    readStream (pwAll chunks ++ tail) = (chunks.flatten, none, tail) := by
  obtain ⟨_, data, hd, he⟩ := pwRun_spec {} chunks (by intro h; rfl)
  simp only [List.nil_append] at he
  unfold pwAll pwClose
  have hfin : Decodes (if (pwRun {} chunks).1.buf.length > 0 then plLoop 30 (pwRun {} chunks).1.buf else [])
      (pwRun {} chunks).1.buf := by
    by_cases hb : (pwRun {} chunks).1.buf.length > 0
    · simp only [hb, ↓reduceIte]; exact plLoop_decodes _ 30 (by omega)
    · have : (pwRun {} chunks).1.buf = [] := List.eq_nil_of_length_eq_zero (by omega)
      simp only [hb, ↓reduceIte, this]; exact Decodes.nil
  have := (Decodes.append hd hfin) (0 :: tail) [] tail (readStream_final tail)
  rw [he] at this
  simpa [List.append_assoc] using this

end XC.C44
