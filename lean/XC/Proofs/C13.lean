/-
  C13 — lemmas: the mul2 byte loop is doubling in GF(2^128); chunking; xor cancellation.
-/
import XC.Model.C13
namespace XC.C13

/-! ### bytes ↔ numbers -/

theorem natOfLE_lt (bs : Bytes) : natOfLE bs < 256 ^ bs.length := by
  induction bs with
  | nil => simp [natOfLE]
  | cons b r ih =>
    simp only [natOfLE, List.length_cons, Nat.pow_succ]
    have := b.toNat_lt
    omega

theorem natToLE_natOfLE (bs : Bytes) : natToLE bs.length (natOfLE bs) = bs := by
  induction bs with
  | nil => rfl
  | cons b r ih =>
    simp only [List.length_cons, natToLE, natOfLE]
    have hb := b.toNat_lt
    have h1 : (b.toNat + 256 * natOfLE r) % 256 = b.toNat := by omega
    have h2 : (b.toNat + 256 * natOfLE r) / 256 = natOfLE r := by omega
    rw [h1, h2, ih]
    simp

/-! ### the carry loop -/

theorem shl1_add (b c : UInt8) (hc : c.toNat ≤ 1) :
    ((b <<< 1) + c).toNat = 2 * (b.toNat % 128) + c.toNat := by
  have hb := b.toNat_lt
  rw [UInt8.toNat_add, UInt8.toNat_shiftLeft]
  simp [Nat.shiftLeft_eq]
  omega

theorem shr7 (b : UInt8) : (b >>> 7).toNat = b.toNat / 128 := by
  rw [UInt8.toNat_shiftRight]
  simp [Nat.shiftRight_eq_div_pow]

/-- the loop computes `2·n + carryIn` with the top bit leaving as the final carry -/
theorem mul2Loop_spec (c : UInt8) (bs : Bytes) (hc : c.toNat ≤ 1) :
    natOfLE (mul2Loop c bs).1 + 256 ^ bs.length * (mul2Loop c bs).2.toNat = 2 * natOfLE bs + c.toNat
    ∧ (mul2Loop c bs).2.toNat ≤ 1 ∧ (mul2Loop c bs).1.length = bs.length := by
  induction bs generalizing c with
  | nil => simp [mul2Loop, natOfLE, hc]
  | cons b r ih =>
    have hb := b.toNat_lt
    have h7 : (b >>> 7).toNat ≤ 1 := by rw [shr7]; omega
    obtain ⟨e1, e2, e3⟩ := ih (b >>> 7) h7
    simp only [mul2Loop, natOfLE, List.length_cons, Nat.pow_succ]
    refine ⟨?_, e2, by simp [e3]⟩
    rw [shl1_add b c hc]
    rw [shr7] at e1
    have : 256 ^ r.length * 256 * (mul2Loop (b >>> 7) r).2.toNat
        = 256 * (256 ^ r.length * (mul2Loop (b >>> 7) r).2.toNat) := by
      rw [Nat.mul_comm (256 ^ r.length) 256, Nat.mul_assoc]
    rw [this]
    omega

/-- xor with a constant below 256 only touches the low byte -/
theorem xor_low (a r k : Nat) (ha : a < 256) (hk : k < 256) :
    (a + 256 * r) ^^^ k = (a ^^^ k) + 256 * r := by
  apply Nat.eq_of_testBit_eq
  intro i
  have hx : a ^^^ k < 256 := Nat.xor_lt_two_pow (n := 8) ha hk
  have e1 : a + 256 * r = 2 ^ 8 * r + a := by omega
  have e2 : (a ^^^ k) + 256 * r = 2 ^ 8 * r + (a ^^^ k) := by omega
  rw [e1, e2, Nat.testBit_xor, Nat.testBit_two_pow_mul_add _ (by omega), Nat.testBit_two_pow_mul_add _ (by omega)]
  by_cases h : i < 8
  · simp [h, Nat.testBit_xor]
  · simp only [h, if_false]
    have : k.testBit i = false := Nat.testBit_lt_two_pow (Nat.lt_of_lt_of_le hk (by
      have : 2 ^ 8 ≤ 2 ^ i := Nat.pow_le_pow_right (by omega) (by omega)
      omega))
    simp [this]

theorem mul2_length (t : Bytes) : (mul2 t).length = t.length := by
  unfold mul2
  have h := (mul2Loop_spec 0 t (by simp)).2.2
  generalize mul2Loop 0 t = p at h
  obtain ⟨t', c⟩ := p
  simp only at h ⊢
  split
  · cases t' with
    | nil => simpa using h
    | cons b r => simpa using h
  · exact h

/-- `mul2` is multiplication by x in GF(2^128) (little-endian bit order) -/
theorem mul2_eq_gfDouble (t : Bytes) (ht : t.length = 16) : natOfLE (mul2 t) = gfDouble (natOfLE t) := by
  unfold mul2 gfDouble
  obtain ⟨e1, e2, e3⟩ := mul2Loop_spec 0 t (by simp)
  have hn := natOfLE_lt t
  rw [ht] at hn e1
  generalize mul2Loop 0 t = p at e1 e2 e3
  obtain ⟨t', c⟩ := p
  simp only at e1 e2 e3 ⊢
  have hn' := natOfLE_lt t'
  rw [e3, ht] at hn'
  have h0 : (0 : UInt8).toNat = 0 := rfl
  rw [h0] at e1
  by_cases hc : c = 0
  · subst hc
    simp only [bne_self_eq_false, Bool.false_eq_true, if_false]
    have : (0 : UInt8).toNat = 0 := rfl
    rw [this] at e1
    have : natOfLE t < 2 ^ 127 := by omega
    simp [this]; omega
  · have hc1 : c.toNat = 1 := by
      have : c.toNat ≠ 0 := fun h => hc (UInt8.toNat_inj.mp (by simpa using h))
      omega
    have hne : (c != 0) = true := by simp [hc]
    simp only [hne, if_true]
    rw [hc1] at e1
    have hge : ¬ natOfLE t < 2 ^ 127 := by omega
    simp only [hge, if_false]
    cases t' with
    | nil =>
      have : (0:Nat) = 16 := by rw [← ht, ← e3]; rfl
      exact absurd this (by decide)
    | cons b0 r =>
      simp only [natOfLE] at e1 ⊢
      have hb := b0.toNat_lt
      have : 2 * natOfLE t - 2 ^ 128 = b0.toNat + 256 * natOfLE r := by omega
      rw [this, xor_low _ _ _ hb (by decide)]
      simp [UInt8.toNat_xor]

theorem gfPow_succ (j n : Nat) : gfPow (j+1) n = gfDouble (gfPow j n) := by
  induction j generalizing n with
  | zero => rfl
  | succ j ih => rw [gfPow, ih]; rfl

/-! ### chunks -/

theorem chunks_append (n : Nat) (hn : n ≠ 0) (b r : Bytes) (hb : b.length = n) :
    chunks n (b ++ r) = b :: chunks n r := by
  rw [chunks]
  have hne : (b ++ r).isEmpty = false := by
    cases b with
    | nil => simp at hb; omega
    | cons x xs => rfl
  simp only [hn, dite_false, hne, Bool.false_eq_true, if_false]
  rw [List.take_append_of_le_length (by omega), List.take_of_length_le (by omega)]
  congr 1
  rw [List.drop_append_of_le_length (by omega), List.drop_of_length_le (by omega)]
  rfl

theorem chunks_nil (n : Nat) : chunks n [] = [] := by
  rw [chunks]; split <;> simp

theorem chunks_spec (n : Nat) (hn : n ≠ 0) (s : Bytes) (k : Nat) (h : s.length = k * n) :
    (chunks n s).flatten = s ∧ ∀ c ∈ chunks n s, c.length = n := by
  induction k generalizing s with
  | zero =>
    have : s = [] := List.eq_nil_of_length_eq_zero (by simpa using h)
    subst this
    simp [chunks_nil]
  | succ k ih =>
    have hs : s = s.take n ++ s.drop n := (List.take_append_drop n s).symm
    have hl : (s.take n).length = n := by
      rw [List.length_take, h]
      have : n ≤ (k + 1) * n := by rw [Nat.succ_mul]; omega
      omega
    have hd : (s.drop n).length = k * n := by
      rw [List.length_drop, h, Nat.succ_mul]; omega
    obtain ⟨i1, i2⟩ := ih (s.drop n) hd
    rw [hs, chunks_append n hn _ _ hl]
    refine ⟨by simp [i1], ?_⟩
    intro c hc
    simp only [List.mem_cons] at hc
    rcases hc with rfl | hc
    · exact hl
    · exact i2 c hc

/-! ### xor -/

theorem xorBytes_cancel (a t : Bytes) (h : a.length = t.length) : xorBytes (xorBytes a t) t = a := by
  induction a generalizing t with
  | nil => simp [xorBytes]
  | cons x xs ih =>
    cases t with
    | nil => simp at h
    | cons y ys =>
      simp only [List.length_cons, Nat.add_right_cancel_iff] at h
      have := ih ys h
      simp only [xorBytes, List.zipWith_cons_cons] at this ⊢
      rw [this]
      congr 1
      rw [UInt8.xor_assoc, UInt8.xor_self, UInt8.xor_zero]

end XC.C13
