/-
  C03 — constructor facts, HChaCha20, and the link between the positional keystream `ksRange` and the
  API functions `keystream` / `xorStream` of Model/C03_Block.lean.
-/
import XC.Proofs.C03_Hist
namespace XC.C03

theorem mkCipher_inv (m : Nat) (hm : 0 < m) (k : KeyW) (n : NonceW) : Inv m (mkCipher m k n) := by
  refine ⟨hm, by simp [mkCipher, zeros], by simp only [mkCipher]; omega, by simp [mkCipher], ?_, ?_, ?_, ?_⟩
  · intro h; simp [mkCipher] at h
  · simp [mkCipher, zeros, ksRange]
  · intro h; simp [mkCipher] at h
  · intro h; simp [mkCipher] at h

theorem mkCipher_pos (m : Nat) (k : KeyW) (n : NonceW) : pos (mkCipher m k n) = 0 := by
  simp [pos, tc, mkCipher]

/-- the Go HChaCha20 (ten column/diagonal iterations on 16 locals) is the specification's -/
theorem hChaCha20Go_eq (key nonce : Bytes) :
    hChaCha20Go key nonce = if key.length = 32 ∧ nonce.length = 16 then some (hchacha20 key nonce) else none := by
  unfold hChaCha20Go
  by_cases hk : key.length = 32
  · by_cases hn : nonce.length = 16
    · simp only [hk, hn, ne_eq, not_true_eq_false, if_false, and_self, if_true, iter_goDouble]
      rfl
    · simp [hk, hn]
  · simp [hk]

/-- NewUnauthenticatedCipher: errors exactly on a wrong key / nonce size; otherwise the state is at
    position 0 of the keystream of (key, nonce) resp. (HChaCha20 sub-key, 0⁴ ‖ nonce[16:24]) -/
theorem newCipher_spec (m : Nat) (key nonce : Bytes) :
    newCipher m key nonce =
      if key.length = 32 ∧ nonce.length = 12 then some (mkCipher m (keyWords key) (nonceWords nonce))
      else if key.length = 32 ∧ nonce.length = 24 then
        some (mkCipher m (keyWords (xkey key nonce)) (nonceWords (xnonce nonce)))
      else none := by
  unfold newCipher
  by_cases hk : key.length = 32
  · by_cases h24 : nonce.length = 24
    · have h16 : (nonce.take 16).length = 16 := by simp; omega
      simp [hk, h24, hChaCha20Go_eq, h16, xkey, xnonce]
    · by_cases h12 : nonce.length = 12
      · simp [hk, h12]
      · simp [hk, h24, h12]
  · simp [hk]

/-! ## `keystream` (concatenated blocks) = positional keystream -/

theorem blocksW_eq (k : KeyW) (n : NonceW) (m : Nat) (c : UInt32) (h : c.toNat + m ≤ 2 ^ 32) :
    blocksW k n c m = ksRange k n (64 * c.toNat) (64 * m) := by
  induction m generalizing c with
  | zero => simp [blocksW, ksRange]
  | succ m ih =>
    have hlt := UInt32.toNat_lt c
    rw [show 64 * (m + 1) = 64 + 64 * m by omega, ksRange_add, ksRange_block]
    simp only [blocksW, UInt32.ofNat_toNat]
    congr 1
    by_cases hm : m = 0
    · subst hm; simp [blocksW, ksRange]
    · have hc' : (c + 1).toNat = c.toNat + 1 := by rw [UInt32.toNat_add]; simp; omega
      rw [ih (c + 1) (by omega), hc']
      congr 1

theorem keystream_eq (key nonce : Bytes) (c : UInt32) (len : Nat) (h : 64 * c.toNat + len ≤ limit) :
    keystream key nonce c len = ksRange (keyWords key) (nonceWords nonce) (64 * c.toNat) len := by
  unfold keystream
  simp only [limit] at h
  rw [blocksW_eq _ _ _ _ (by omega), ksRange_take, Nat.min_eq_left (by omega)]

end XC.C03
