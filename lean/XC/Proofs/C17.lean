/-
  C17 — lemmas for Compare(Generate(pw)) = ok: lengths of the encodings, Hash() parses back.
-/
import XC.Model.C17
namespace XC.C17
open XC.C12

theorem b64Encode_length16 (bs : Bytes) (h : bs.length = 16) : (b64Encode bs).length = 22 := by
  match bs, h with
  | [a0,a1,a2,a3,a4,a5,a6,a7,a8,a9,a10,a11,a12,a13,a14,a15], _ => simp [b64Encode]

theorem b64Encode_length23 (bs : Bytes) (h : bs.length = 23) : (b64Encode bs).length = 31 := by
  match bs, h with
  | [a0,a1,a2,a3,a4,a5,a6,a7,a8,a9,a10,a11,a12,a13,a14,a15,a16,a17,a18,a19,a20,a21,a22], _ => simp [b64Encode]

theorem u32be_length (w : UInt32) : (u32be w).length = 4 := by
  simp [u32be, natToBE, natToLE_length]

theorem encrypt_length (c : Blowfish.Box) (src : Bytes) : (Blowfish.encrypt c src).length = 8 := by
  simp [Blowfish.encrypt, join8, u32be_length]

theorem iter_encrypt_length (c : Blowfish.Box) (n : Nat) (src : Bytes) (h : src.length = 8) :
    (iter (Blowfish.encrypt c) n src).length = 8 := by
  induction n generalizing src with
  | zero => exact h
  | succ n ih => exact ih _ (encrypt_length c src)

theorem encMagic_length (c : Blowfish.Box) : (encMagic c).length = 24 := by
  unfold encMagic
  simp only [List.length_append]
  rw [iter_encrypt_length c 64 _ (by decide), iter_encrypt_length c 64 _ (by decide),
    iter_encrypt_length c 64 _ (by decide)]

/-- a successful `bcrypt` returns 31 characters -/
theorem bcrypt_length (pw : Bytes) (cost : Nat) (salt h : Bytes) (hh : bcrypt pw cost salt = .ok h) :
    h.length = 31 := by
  unfold bcrypt at hh
  cases hs : setup pw cost salt with
  | panic => simp [hs, bind] at hh
  | err e => simp [hs, bind] at hh
  | ok c =>
    simp only [hs, bind, pure] at hh
    injection hh with hh
    subst hh
    apply b64Encode_length23
    simp [encMagic_length]

theorem pad_self (n : Nat) (l : Bytes) (h : l.length = n) : pad n l = l := by
  unfold pad
  rw [List.take_append_of_le_length (by omega), List.take_of_length_le (by omega)]

theorem fmt02_length (c : Int) (h1 : 4 ≤ c) (h2 : c ≤ 31) : (fmt02 c).length = 2 := by
  unfold fmt02
  have : 0 ≤ c ∧ c < 100 := by omega
  simp [this]

theorem atoi2_fmt02 (c : Int) (h1 : 4 ≤ c) (h2 : c ≤ 31) :
    atoi2 ((fmt02 c)[0]'(by rw [fmt02_length c h1 h2]; decide)) ((fmt02 c)[1]'(by rw [fmt02_length c h1 h2]; decide)) = some c := by
  have : ∃ n : Fin 32, c = (n.val : Int) := ⟨⟨c.toNat, by omega⟩, by simp; omega⟩
  obtain ⟨n, rfl⟩ := this
  have key : ∀ n : Fin 32, 4 ≤ n.val →
      atoi2 ((fmt02 (n.val : Int)).getD 0 0) ((fmt02 (n.val : Int)).getD 1 0) = some (n.val : Int) := by
    decide
  have := key n (by omega)
  have l := fmt02_length (n.val : Int) h1 h2
  simpa [List.getD_eq_getElem?_getD, l] using this

end XC.C17
