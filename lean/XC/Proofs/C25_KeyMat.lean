/-
  C25 — generateKeyMaterial equals RFC 4253 §7.2 for every requested length.
-/
import XC.Model.C25_KeyMat
namespace XC.C25

/-- RFC 4253 §7.2: K1 = HASH(K ‖ H ‖ X ‖ session_id), K2 = HASH(K ‖ H ‖ K1), K3 = HASH(K ‖ H ‖ K1 ‖ K2), …;
    `rfcKeyStream … soFar k` = the next `k` blocks K_{i+1} ‖ … ‖ K_{i+k} after soFar = K1 ‖ … ‖ K_i -/
def rfcKeyStream (hash : Bytes → Bytes) (K H first : Bytes) : Bytes → Nat → Bytes
  | _, 0 => []
  | soFar, k+1 =>
    let d := kmNext hash K H first soFar
    d ++ rfcKeyStream hash K H first (soFar ++ d) k

theorem keyMatLoop_eq (hash : Bytes → Bytes) (K H first : Bytes) (fuel need : Nat) (soFar : Bytes) :
    keyMatLoop hash K H first fuel need soFar = (rfcKeyStream hash K H first soFar fuel).take need := by
  induction fuel generalizing need soFar with
  | zero => simp [keyMatLoop, rfcKeyStream]
  | succ f ih =>
    simp only [keyMatLoop, rfcKeyStream]
    by_cases h0 : need = 0
    · simp [h0]
    · simp only [h0, if_false, ih, List.take_append]

/-- the key is the first n bytes of K1 ‖ K2 ‖ …, for every n (at most n blocks are ever needed) -/
theorem keymat_eq_rfc4253 (hash : Bytes → Bytes) (K H tag sid : Bytes) (n : Nat) :
    keyMat hash K H tag sid n = (rfcKeyStream hash K H (tag ++ sid) [] n).take n :=
  keyMatLoop_eq hash K H (tag ++ sid) n n []

theorem rfcKeyStream_length (hash : Bytes → Bytes) (hs : Nat) (hh : ∀ x, (hash x).length = hs)
    (K H first soFar : Bytes) (k : Nat) : (rfcKeyStream hash K H first soFar k).length = k * hs := by
  induction k generalizing soFar with
  | zero => simp [rfcKeyStream]
  | succ k ih =>
    simp only [rfcKeyStream, List.length_append, ih, kmNext]
    split <;> simp [hh, Nat.succ_mul, Nat.add_comm]

/-- with a real hash (digest size ≥ 1) exactly n bytes come out -/
theorem keyMat_length (hash : Bytes → Bytes) (hs : Nat) (hpos : 1 ≤ hs) (hh : ∀ x, (hash x).length = hs)
    (K H tag sid : Bytes) (n : Nat) : (keyMat hash K H tag sid n).length = n := by
  rw [keymat_eq_rfc4253, List.length_take, rfcKeyStream_length hash hs hh]
  have : n ≤ n * hs := Nat.le_mul_of_pos_right n hpos
  omega

/-- the first two blocks spelled out -/
example (hash : Bytes → Bytes) (K H X sid : Bytes) (h1 : hash (K ++ (H ++ (X ++ sid))) ≠ []) :
    rfcKeyStream hash K H (X ++ sid) [] 2 =
      hash (K ++ H ++ (X ++ sid)) ++ hash (K ++ H ++ hash (K ++ H ++ (X ++ sid))) := by
  simp [rfcKeyStream, kmNext, h1]

end XC.C25
