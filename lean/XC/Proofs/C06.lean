/-
  C06 — lemmas: the three phases of Read against the BLAKE2X node stream `nodesFrom`.
-/
import XC.Model.C06
import XC.Props.C05
namespace XC.C06
open XC.C05

variable {X : XAlg}

/-- what the Read proof needs about an XOF flavour -/
structure XLaws (X : XAlg) : Prop where
  L : Laws X.A
  size_pos : 0 < X.size
  out_len : ∀ h, (X.A.out h).length = X.size

/-! ### one node = BLAKE2 with the node's parameter block over the root hash -/

theorem nodeHash_eq (L : Laws X.A) (len : Nat) (d : Digest X.A) (cfg : Cfg) (root : Bytes)
    (hb : d.block.length = X.A.bs) :
    (nodeHash X len d cfg root).2 = nodeFull X len root cfg.nodeOff cfg.dlen ∧
    (nodeHash X len d cfg root).1.block.length = X.A.bs := by
  let d1 : Digest X.A := { d with offset := 0, c := X.A.cof 0, h := X.cfgH (X.cfgBytes len cfg) }
  have hI : Inv d1 := ⟨Nat.zero_le _, hb⟩
  obtain ⟨t', h1, h2, h3⟩ := write_spec L d1 root 0 hI rfl
  have hf := finalize_spec L (d1.write root) t' h2 h1
  have := h3 []
  simp only [List.append_nil] at this
  constructor
  · show X.A.out (d1.write root).finalize = _
    rw [hf, this]
    simp [Digest.buf, d1, nodeFull]
  · exact h2.2

/-! ### the node stream -/

theorem nodesFrom_zero (len : Nat) (h0 : Bytes) (i : Nat) : nodesFrom X len h0 i 0 = [] := by
  rw [nodesFrom]; simp

theorem nodesFrom_pos (len : Nat) (h0 : Bytes) (i rem : Nat) (hr : 0 < rem) (hs : 0 < X.size) :
    nodesFrom X len h0 i rem =
      (nodeFull X len h0 i (min X.size rem)).take (min X.size rem) ++
        nodesFrom X len h0 (i + 1) (rem - min X.size rem) := by
  rw [nodesFrom]
  rw [dif_neg (by omega)]

theorem nodeFull_len (W : XLaws X) (len : Nat) (h0 : Bytes) (i dl : Nat) :
    (nodeFull X len h0 i dl).length = X.size := W.out_len _

theorem nodesFrom_length (W : XLaws X) (len : Nat) (h0 : Bytes) : ∀ (rem i : Nat),
    (nodesFrom X len h0 i rem).length = rem := by
  intro rem
  induction rem using Nat.strongRecOn with
  | _ rem ih =>
    intro i
    by_cases h : rem = 0
    · subst h; rw [nodesFrom_zero]; rfl
    · have hs := W.size_pos
      rw [nodesFrom_pos len h0 i rem (by omega) hs, List.length_append, List.length_take,
        nodeFull_len W, ih (rem - min X.size rem) (by omega)]
      omega

/-! ### read-mode invariant and the bytes still to come -/

/-- structural invariant of an XOF in read mode with root hash `h0` and declared length field `len` -/
def WF (len : Nat) (h0 : Bytes) (x : Xof X) : Prop :=
  x.readMode = true ∧ x.root = h0 ∧ x.length = len ∧ x.block.length = X.size ∧ x.offset < X.size ∧
  x.d.block.length = X.A.bs ∧
  (x.offset = 0 ∨ X.size - x.offset ≤ x.remaining → x.cfg.dlen = X.size)

/-- what is left of the buffered node -/
def bufPart (x : Xof X) : Bytes :=
  if x.offset > 0 then (x.block.drop x.offset).take (min (X.size - x.offset) x.remaining) else []

/-- every byte the XOF will still produce: the rest of the buffered node, then the nodes not yet generated -/
def future (len : Nat) (h0 : Bytes) (x : Xof X) : Bytes :=
  bufPart x ++ nodesFrom X len h0 x.nodeOffset (x.remaining - (bufPart x).length)

theorem bufPart_length (len : Nat) (h0 : Bytes) (x : Xof X) (hw : WF len h0 x) :
    (bufPart x).length = if x.offset > 0 then min (X.size - x.offset) x.remaining else 0 := by
  obtain ⟨_, _, _, hb, ho, _, _⟩ := hw
  unfold bufPart
  split
  · rw [List.length_take, List.length_drop, hb]; omega
  · rfl

theorem future_length (W : XLaws X) (len : Nat) (h0 : Bytes) (x : Xof X) (hw : WF len h0 x) :
    (future len h0 x).length = x.remaining := by
  unfold future
  rw [List.length_append, nodesFrom_length W, bufPart_length len h0 x hw]
  split <;> omega

/-! ### phase 2: whole nodes -/

theorem fullNodes_spec (W : XLaws X) (len : Nat) (h0 : Bytes) (k : Nat) : ∀ (x : Xof X) (acc : Bytes),
    WF len h0 x → x.offset = 0 → k * X.size ≤ x.remaining →
    (fullNodes X true k x acc).2 = acc ++ (nodesFrom X len h0 x.nodeOffset x.remaining).take (k * X.size) ∧
    nodesFrom X len h0 (fullNodes X true k x acc).1.nodeOffset (fullNodes X true k x acc).1.remaining =
      (nodesFrom X len h0 x.nodeOffset x.remaining).drop (k * X.size) ∧
    WF len h0 (fullNodes X true k x acc).1 ∧ (fullNodes X true k x acc).1.offset = 0 ∧
    (fullNodes X true k x acc).1.remaining = x.remaining - k * X.size := by
  induction k with
  | zero => intro x acc hw ho _; simp [fullNodes, hw, ho]
  | succ k ih =>
    intro x acc hw ho hk
    have hs := W.size_pos
    obtain ⟨h1, h2, h3, h4, h5, h6, h7⟩ := hw
    have hrem : X.size ≤ x.remaining := by rw [Nat.succ_mul] at hk; omega
    have hdl : x.cfg.dlen = X.size := h7 (Or.inl ho)
    have hcfg : ({ x.cfg with nodeOff := x.nodeOffset } : Cfg) = ⟨X.size, x.nodeOffset⟩ := by
      cases hc : x.cfg; simp_all
    obtain ⟨n1, n2⟩ := nodeHash_eq W.L x.length x.d ⟨X.size, x.nodeOffset⟩ x.root h6
    simp only [] at n1
    rw [h2, h3] at n1
    let x1 : Xof X := { x with cfg := ⟨X.size, x.nodeOffset⟩, nodeOffset := x.nodeOffset + 1,
                               d := (nodeHash X x.length x.d ⟨X.size, x.nodeOffset⟩ x.root).1,
                               block := (nodeHash X x.length x.d ⟨X.size, x.nodeOffset⟩ x.root).2,
                               remaining := x.remaining - X.size }
    have hw1 : WF len h0 x1 := by
      refine ⟨h1, h2, h3, ?_, h5, n2, fun _ => rfl⟩
      show (nodeHash X x.length x.d ⟨X.size, x.nodeOffset⟩ x.root).2.length = X.size
      rw [h2, h3, n1]; exact nodeFull_len W _ _ _ _
    obtain ⟨r1, r2, r3, r4, r5⟩ := ih x1
      (acc ++ (nodeHash X x.length x.d ⟨X.size, x.nodeOffset⟩ x.root).2) hw1 ho
      (by show k * X.size ≤ x.remaining - X.size; rw [Nat.succ_mul] at hk; omega)
    have hstep : fullNodes X true (k + 1) x acc =
        fullNodes X true k x1 (acc ++ (nodeHash X x.length x.d ⟨X.size, x.nodeOffset⟩ x.root).2) := by
      simp only [fullNodes, hcfg, ↓reduceIte, x1]
    rw [hstep]
    have hmin : min X.size x.remaining = X.size := by omega
    have hnf : nodesFrom X len h0 x.nodeOffset x.remaining =
        nodeFull X len h0 x.nodeOffset X.size ++ nodesFrom X len h0 (x.nodeOffset + 1) (x.remaining - X.size) := by
      rw [nodesFrom_pos len h0 _ _ (by omega) hs, hmin, List.take_of_length_le]
      rw [nodeFull_len W]; exact Nat.le_refl _
    have hlen := nodeFull_len W len h0 x.nodeOffset X.size
    refine ⟨?_, ?_, r3, r4, ?_⟩
    · rw [r1, hnf, h2, h3, n1, List.append_assoc]
      congr 1
      rw [List.take_append, hlen, Nat.succ_mul,
        List.take_of_length_le (by rw [hlen]; omega)]
      congr 2
      omega
    · rw [r2, hnf, List.drop_append, hlen, Nat.succ_mul,
        List.drop_of_length_le (by rw [hlen]; omega)]
      simp only [List.nil_append]
      congr 1
      omega
    · rw [r5, Nat.succ_mul]
      show x.remaining - X.size - k * X.size = _
      omega

end XC.C06
