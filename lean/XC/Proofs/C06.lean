/-
  C06 — lemmas: the three phases of Read against the BLAKE2X node stream `nodesFrom`.
-/
import XC.Model.C06
import XC.Props.C05
namespace XC.C06
open XC.C05

variable {X : XAlg}

/-- what the Read proof needs about an XOF flavour -/
structure XLaws (X : XAlg) : Prop where
  L : Laws X.A
  size_pos : 0 < X.size
  out_len : ∀ h, (X.A.out h).length = X.size

theorem take_len_add {α : Type} (a b : List α) (n : Nat) : (a ++ b).take (a.length + n) = a ++ b.take n := by
  induction a with
  | nil => simp
  | cons x t ih => simp only [List.cons_append, List.length_cons]; rw [show t.length + 1 + n = (t.length + n) + 1 by omega]; simp [ih]

theorem drop_len_add {α : Type} (a b : List α) (n : Nat) : (a ++ b).drop (a.length + n) = b.drop n := by
  induction a with
  | nil => simp
  | cons x t ih => simp only [List.cons_append, List.length_cons]; rw [show t.length + 1 + n = (t.length + n) + 1 by omega]; simp [ih]

/-! ### one node = BLAKE2 with the node's parameter block over the root hash -/

theorem nodeHash_eq (L : Laws X.A) (len : Nat) (d : Digest X.A) (cfg : Cfg) (root : Bytes)
    (hb : d.block.length = X.A.bs) :
    (nodeHash X len d cfg root).2 = nodeFull X len root cfg.nodeOff cfg.dlen ∧
    (nodeHash X len d cfg root).1.block.length = X.A.bs := by
  let d1 : Digest X.A := { d with offset := 0, c := X.A.cof 0, h := X.cfgH (X.cfgBytes len cfg) }
  have hI : Inv d1 := ⟨Nat.zero_le _, hb⟩
  obtain ⟨t', h1, h2, h3⟩ := write_spec L d1 root 0 hI rfl
  have hf := finalize_spec L (d1.write root) t' h2 h1
  have := h3 []
  simp only [List.append_nil] at this
  constructor
  · show X.A.out (d1.write root).finalize = _
    rw [hf, this]
    simp [Digest.buf, d1, nodeFull]
  · exact h2.2

/-! ### the node stream -/

theorem nodesFrom_zero (len : Nat) (h0 : Bytes) (i : Nat) : nodesFrom X len h0 i 0 = [] := by
  rw [nodesFrom]; simp

theorem nodesFrom_pos (len : Nat) (h0 : Bytes) (i rem : Nat) (hr : 0 < rem) (hs : 0 < X.size) :
    nodesFrom X len h0 i rem =
      (nodeFull X len h0 i (min X.size rem)).take (min X.size rem) ++
        nodesFrom X len h0 (i + 1) (rem - min X.size rem) := by
  rw [nodesFrom]
  rw [dif_neg (by omega)]

theorem nodeFull_len (W : XLaws X) (len : Nat) (h0 : Bytes) (i dl : Nat) :
    (nodeFull X len h0 i dl).length = X.size := W.out_len _

theorem nodesFrom_length (W : XLaws X) (len : Nat) (h0 : Bytes) : ∀ (rem i : Nat),
    (nodesFrom X len h0 i rem).length = rem := by
  intro rem
  induction rem using Nat.strongRecOn with
  | _ rem ih =>
    intro i
    by_cases h : rem = 0
    · subst h; rw [nodesFrom_zero]; rfl
    · have hs := W.size_pos
      rw [nodesFrom_pos len h0 i rem (by omega) hs, List.length_append, List.length_take,
        nodeFull_len W, ih (rem - min X.size rem) (by omega)]
      omega

/-! ### read-mode invariant and the bytes still to come -/

/-- structural invariant of an XOF in read mode with root hash `h0` and declared length field `len` -/
def WF (len : Nat) (h0 : Bytes) (x : Xof X) : Prop :=
  x.readMode = true ∧ x.root = h0 ∧ x.length = len ∧ x.block.length = X.size ∧ x.offset < X.size ∧
  x.d.block.length = X.A.bs ∧
  (x.offset = 0 ∨ X.size - x.offset ≤ x.remaining → x.cfg.dlen = X.size)

/-- what is left of the buffered node -/
def bufPart (x : Xof X) : Bytes :=
  if x.offset > 0 then (x.block.drop x.offset).take (min (X.size - x.offset) x.remaining) else []

/-- every byte the XOF will still produce: the rest of the buffered node, then the nodes not yet generated -/
def future (len : Nat) (h0 : Bytes) (x : Xof X) : Bytes :=
  bufPart x ++ nodesFrom X len h0 x.nodeOffset (x.remaining - (bufPart x).length)

theorem bufPart_length (len : Nat) (h0 : Bytes) (x : Xof X) (hw : WF len h0 x) :
    (bufPart x).length = if x.offset > 0 then min (X.size - x.offset) x.remaining else 0 := by
  obtain ⟨_, _, _, hb, ho, _, _⟩ := hw
  unfold bufPart
  split
  · rw [List.length_take, List.length_drop, hb]; omega
  · rfl

theorem future_length (W : XLaws X) (len : Nat) (h0 : Bytes) (x : Xof X) (hw : WF len h0 x) :
    (future len h0 x).length = x.remaining := by
  unfold future
  rw [List.length_append, nodesFrom_length W, bufPart_length len h0 x hw]
  split <;> omega

/-! ### phase 2: whole nodes -/

theorem fullNodes_spec (W : XLaws X) (len : Nat) (h0 : Bytes) (k : Nat) : ∀ (x : Xof X) (acc : Bytes),
    WF len h0 x → x.offset = 0 → k * X.size ≤ x.remaining →
    (fullNodes X true k x acc).2 = acc ++ (nodesFrom X len h0 x.nodeOffset x.remaining).take (k * X.size) ∧
    nodesFrom X len h0 (fullNodes X true k x acc).1.nodeOffset (fullNodes X true k x acc).1.remaining =
      (nodesFrom X len h0 x.nodeOffset x.remaining).drop (k * X.size) ∧
    WF len h0 (fullNodes X true k x acc).1 ∧ (fullNodes X true k x acc).1.offset = 0 ∧
    (fullNodes X true k x acc).1.remaining = x.remaining - k * X.size := by
  induction k with
  | zero => intro x acc hw ho _; simp [fullNodes, hw, ho]
  | succ k ih =>
    intro x acc hw ho hk
    have hs := W.size_pos
    obtain ⟨h1, h2, h3, h4, h5, h6, h7⟩ := hw
    have hrem : X.size ≤ x.remaining := by rw [Nat.succ_mul] at hk; omega
    have hdl : x.cfg.dlen = X.size := h7 (Or.inl ho)
    have hcfg : ({ x.cfg with nodeOff := x.nodeOffset } : Cfg) = ⟨X.size, x.nodeOffset⟩ := by
      cases hc : x.cfg; simp_all
    obtain ⟨n1, n2⟩ := nodeHash_eq W.L x.length x.d ⟨X.size, x.nodeOffset⟩ x.root h6
    simp only [] at n1
    rw [h2, h3] at n1
    let x1 : Xof X := { x with cfg := ⟨X.size, x.nodeOffset⟩, nodeOffset := x.nodeOffset + 1,
                               d := (nodeHash X x.length x.d ⟨X.size, x.nodeOffset⟩ x.root).1,
                               block := (nodeHash X x.length x.d ⟨X.size, x.nodeOffset⟩ x.root).2,
                               remaining := x.remaining - X.size }
    have hw1 : WF len h0 x1 := by
      refine ⟨h1, h2, h3, ?_, h5, n2, fun _ => rfl⟩
      show (nodeHash X x.length x.d ⟨X.size, x.nodeOffset⟩ x.root).2.length = X.size
      rw [h2, h3, n1]; exact nodeFull_len W _ _ _ _
    obtain ⟨r1, r2, r3, r4, r5⟩ := ih x1
      (acc ++ (nodeHash X x.length x.d ⟨X.size, x.nodeOffset⟩ x.root).2) hw1 ho
      (by show k * X.size ≤ x.remaining - X.size; rw [Nat.succ_mul] at hk; omega)
    have hstep : fullNodes X true (k + 1) x acc =
        fullNodes X true k x1 (acc ++ (nodeHash X x.length x.d ⟨X.size, x.nodeOffset⟩ x.root).2) := by
      simp only [fullNodes, hcfg, ↓reduceIte, x1]
    rw [hstep]
    have hmin : min X.size x.remaining = X.size := by omega
    have hnf : nodesFrom X len h0 x.nodeOffset x.remaining =
        nodeFull X len h0 x.nodeOffset X.size ++ nodesFrom X len h0 (x.nodeOffset + 1) (x.remaining - X.size) := by
      rw [nodesFrom_pos len h0 _ _ (by omega) hs, hmin, List.take_of_length_le]
      rw [nodeFull_len W]; exact Nat.le_refl _
    have hlen := nodeFull_len W len h0 x.nodeOffset X.size
    refine ⟨?_, ?_, r3, r4, ?_⟩
    · rw [r1, hnf, h2, h3, n1, List.append_assoc]
      congr 1
      have e : (k + 1) * X.size = (nodeFull X len h0 x.nodeOffset X.size).length + k * X.size := by
        rw [hlen, Nat.succ_mul]; omega
      rw [e, take_len_add]
    · rw [r2, hnf]
      have e : (k + 1) * X.size = (nodeFull X len h0 x.nodeOffset X.size).length + k * X.size := by
        rw [hlen, Nat.succ_mul]; omega
      rw [e, drop_len_add]
    · rw [r5, Nat.succ_mul]
      show x.remaining - X.size - k * X.size = _
      omega

/-! ### phase 3: a node that is consumed only in part -/

theorem partialNode_spec (W : XLaws X) (len : Nat) (h0 : Bytes) (x : Xof X) (todo : Nat) (acc : Bytes)
    (hw : WF len h0 x) (ho : x.offset = 0) (ht0 : 0 < todo) (ht : todo < X.size) (htr : todo ≤ x.remaining) :
    (x.partialNode true todo acc).2 = acc ++ (nodesFrom X len h0 x.nodeOffset x.remaining).take todo ∧
    future len h0 (x.partialNode true todo acc).1 = (nodesFrom X len h0 x.nodeOffset x.remaining).drop todo ∧
    WF len h0 (x.partialNode true todo acc).1 ∧
    (x.partialNode true todo acc).1.remaining = x.remaining - todo := by
  have hs := W.size_pos
  obtain ⟨h1, h2, h3, h4, h5, h6, h7⟩ := hw
  subst h2 h3
  have hdl : x.cfg.dlen = X.size := h7 (Or.inl ho)
  generalize hdlv : min X.size x.remaining = dl
  have hcfg : ({ (if x.remaining < X.size then { x.cfg with dlen := x.remaining } else x.cfg) with
      nodeOff := x.nodeOffset } : Cfg) = ⟨dl, x.nodeOffset⟩ := by
    by_cases hr : x.remaining < X.size
    · rw [if_pos hr]; show (⟨x.remaining, x.nodeOffset⟩ : Cfg) = ⟨dl, _⟩
      rw [← hdlv, Nat.min_eq_right (by omega)]
    · rw [if_neg hr]; show (⟨x.cfg.dlen, x.nodeOffset⟩ : Cfg) = ⟨dl, _⟩
      rw [hdl, ← hdlv, Nat.min_eq_left (by omega)]
  obtain ⟨n1, n2⟩ := nodeHash_eq W.L x.length x.d ⟨dl, x.nodeOffset⟩ x.root h6
  simp only [] at n1
  have hN := nodeFull_len W x.length x.root x.nodeOffset dl
  have hdlt : todo ≤ dl := by omega
  have hnf := nodesFrom_pos (X := X) x.length x.root x.nodeOffset x.remaining (by omega) hs
  rw [hdlv] at hnf
  have hpn : x.partialNode true todo acc =
      ({ x with cfg := ⟨dl, x.nodeOffset⟩, nodeOffset := x.nodeOffset + 1,
                d := (nodeHash X x.length x.d ⟨dl, x.nodeOffset⟩ x.root).1,
                block := (nodeHash X x.length x.d ⟨dl, x.nodeOffset⟩ x.root).2,
                offset := todo, remaining := x.remaining - todo },
       acc ++ ((nodeHash X x.length x.d ⟨dl, x.nodeOffset⟩ x.root).2).take todo) := by
    simp only [Xof.partialNode, hcfg, ↓reduceIte]
  rw [hpn]
  simp only []
  have htake : (nodesFrom X x.length x.root x.nodeOffset x.remaining).take todo =
      (nodeFull X x.length x.root x.nodeOffset dl).take todo := by
    rw [hnf, List.take_append_of_le_length (by rw [List.length_take, hN]; omega), List.take_take,
      Nat.min_eq_left hdlt]
  have hdrop : (nodesFrom X x.length x.root x.nodeOffset x.remaining).drop todo =
      ((nodeFull X x.length x.root x.nodeOffset dl).drop todo).take (dl - todo) ++
        nodesFrom X x.length x.root (x.nodeOffset + 1) (x.remaining - dl) := by
    rw [hnf, List.drop_append_of_le_length (by rw [List.length_take, hN]; omega), List.drop_take]
  refine ⟨by rw [htake, n1], ?_, ?_, trivial⟩
  · rw [hdrop]
    unfold future bufPart
    simp only [if_pos ht0]
    rw [n1]
    have e1 : min (X.size - todo) (x.remaining - todo) = dl - todo := by omega
    rw [e1, List.length_take, List.length_drop, hN]
    have e2 : x.remaining - todo - min (dl - todo) (X.size - todo) = x.remaining - dl := by omega
    rw [e2]
  · refine ⟨h1, rfl, rfl, by show (nodeHash X x.length x.d ⟨dl, x.nodeOffset⟩ x.root).2.length = _; rw [n1]; exact hN,
      ht, n2, ?_⟩
    intro hc
    show dl = X.size
    rcases hc with hc | hc
    · exact absurd hc (by show ¬ todo = 0; omega)
    · have : X.size - todo ≤ x.remaining - todo := hc
      omega

/-! ### phases 2 + 3 -/

theorem readNodes_spec (W : XLaws X) (len : Nat) (h0 : Bytes) (x : Xof X) (n : Nat) (acc : Bytes)
    (hw : WF len h0 x) (ho : x.offset = 0) (hn : n ≤ x.remaining) :
    (x.readNodes true n acc).2 = acc ++ (nodesFrom X len h0 x.nodeOffset x.remaining).take n ∧
    future len h0 (x.readNodes true n acc).1 = (nodesFrom X len h0 x.nodeOffset x.remaining).drop n ∧
    WF len h0 (x.readNodes true n acc).1 ∧
    (x.readNodes true n acc).1.remaining = x.remaining - n := by
  have hs := W.size_pos
  have hdm := Nat.div_add_mod n X.size
  rw [Nat.mul_comm] at hdm
  have hml := Nat.mod_lt n hs
  obtain ⟨f1, f2, f3, f4, f5⟩ := fullNodes_spec W len h0 (n / X.size) x acc hw ho (by omega)
  unfold Xof.readNodes
  simp only []
  generalize hS : nodesFrom X len h0 x.nodeOffset x.remaining = S at *
  by_cases hz : n % X.size > 0
  · rw [if_pos hz]
    obtain ⟨p1, p2, p3, p4⟩ := partialNode_spec W len h0 (fullNodes X true (n / X.size) x acc).1 (n % X.size)
      (fullNodes X true (n / X.size) x acc).2 f3 f4 hz hml (by rw [f5]; omega)
    rw [f2] at p1 p2
    refine ⟨?_, ?_, p3, by rw [p4, f5]; omega⟩
    · rw [p1, f1, List.append_assoc]
      congr 1
      conv => rhs; rw [← hdm]
      rw [List.take_add]
    · rw [p2, List.drop_drop]
      congr 1
      try omega
  · rw [if_neg hz]
    have hz0 : n % X.size = 0 := by omega
    have hn' : n / X.size * X.size = n := by omega
    refine ⟨by rw [f1, hn'], ?_, f3, by rw [f5, hn']⟩
    unfold future bufPart
    rw [if_neg (by rw [f4]; omega)]
    simp only [List.nil_append, List.length_nil, Nat.sub_zero]
    rw [f2, hn']

/-! ### one Read -/

theorem enterRead_of_readMode (x : Xof X) (h : x.readMode = true) : x.enterRead = x := by
  simp [Xof.enterRead, h]

/-- **one Read** of an XOF in read mode: it returns the next `min(len p, remaining)` bytes of what is still
    to come, leaves exactly the rest to come, and reports EOF exactly when nothing was left -/
theorem read_future (W : XLaws X) (len : Nat) (h0 : Bytes) (x : Xof X) (n : Nat) (hw : WF len h0 x) :
    (x.read n).2.1 = (future len h0 x).take n ∧
    future len h0 (x.read n).1 = (future len h0 x).drop n ∧
    WF len h0 (x.read n).1 ∧
    ((x.read n).2.2 = true ↔ x.remaining = 0) := by
  have hs := W.size_pos
  have hfl := future_length W len h0 x hw
  obtain ⟨h1, h2, h3, h4, h5, h6, h7⟩ := hw
  have hw : WF len h0 x := ⟨h1, h2, h3, h4, h5, h6, h7⟩
  unfold Xof.read Xof.readG
  rw [enterRead_of_readMode x h1]
  simp only []
  by_cases hr0 : x.remaining = 0
  · rw [if_pos hr0]
    have : future len h0 x = [] := List.eq_nil_of_length_eq_zero (by rw [hfl, hr0])
    simp [this, hw, hr0]
  rw [if_neg hr0]
  -- taking `n` or `min n remaining` bytes of the future is the same
  have htk : (future len h0 x).take n = (future len h0 x).take (min n x.remaining) := by
    by_cases hle : n ≤ x.remaining
    · rw [Nat.min_eq_left hle]
    · rw [Nat.min_eq_right (by omega), List.take_of_length_le (by omega), List.take_of_length_le (by omega)]
  have hdk : (future len h0 x).drop n = (future len h0 x).drop (min n x.remaining) := by
    by_cases hle : n ≤ x.remaining
    · rw [Nat.min_eq_left hle]
    · rw [Nat.min_eq_right (by omega), List.drop_of_length_le (by omega), List.drop_of_length_le (by omega)]
  rw [htk, hdk]
  generalize hn' : min n x.remaining = n'
  have hn'le : n' ≤ x.remaining := by omega
  by_cases ho : x.offset > 0
  · rw [if_pos ho]
    have hbl : (bufPart x).length = min (X.size - x.offset) x.remaining := by
      rw [bufPart_length len h0 x hw, if_pos ho]
    have hbp : bufPart x = (x.block.drop x.offset).take (min (X.size - x.offset) x.remaining) := by
      simp [bufPart, ho]
    by_cases hlt : n' < X.size - x.offset
    · rw [if_pos hlt]
      simp only []
      refine ⟨?_, ?_, ?_, by simp [hr0]⟩
      · unfold future
        rw [List.take_append_of_le_length (by omega), hbp, List.take_take, Nat.min_eq_left (by omega)]
      · unfold future
        rw [List.drop_append_of_le_length (by omega)]
        have e1 : bufPart ({ x with offset := x.offset + n', remaining := x.remaining - n' } : Xof X) =
            (bufPart x).drop n' := by
          simp only [bufPart, if_pos ho, if_pos (show x.offset + n' > 0 by omega)]
          rw [List.drop_take, List.drop_drop]
          congr 1
          omega
        rw [e1, List.length_drop, hbl]
        simp only []
        congr 2
        omega
      · refine ⟨h1, h2, h3, h4, by show x.offset + n' < X.size; omega, h6, ?_⟩
        intro hc
        apply h7
        right
        rcases hc with hc | hc
        · simp only [] at hc; omega
        · simp only [] at hc; omega
    · rw [if_neg hlt]
      have hbr : X.size - x.offset ≤ x.remaining := by omega
      have hdl := h7 (Or.inr hbr)
      let x1 : Xof X := { x with offset := 0, remaining := x.remaining - (X.size - x.offset) }
      have hw1 : WF len h0 x1 := ⟨h1, h2, h3, h4, hs, h6, fun _ => hdl⟩
      obtain ⟨r1, r2, r3, r4⟩ := readNodes_spec W len h0 x1 (n' - (X.size - x.offset)) (x.block.drop x.offset)
        hw1 rfl (by show _ ≤ x.remaining - (X.size - x.offset); omega)
      have hbp' : bufPart x = x.block.drop x.offset := by
        rw [hbp, Nat.min_eq_left hbr, List.take_of_length_le (by rw [List.length_drop, h4]; omega)]
      have hbl' : (x.block.drop x.offset).length = X.size - x.offset := by rw [List.length_drop, h4]
      have hfut : future len h0 x = x.block.drop x.offset ++
          nodesFrom X len h0 x1.nodeOffset x1.remaining := by
        unfold future; rw [hbp', hbl']
      have hsplit : n' = (x.block.drop x.offset).length + (n' - (X.size - x.offset)) := by rw [hbl']; omega
      simp only []
      refine ⟨?_, ?_, r3, by simp [hr0]⟩
      · rw [r1, hfut]
        conv => rhs; rw [hsplit, take_len_add]
      · rw [r2, hfut]
        conv => rhs; rw [hsplit, drop_len_add]
  · rw [if_neg ho]
    have ho0 : x.offset = 0 := by omega
    obtain ⟨r1, r2, r3, r4⟩ := readNodes_spec W len h0 x n' [] hw ho0 hn'le
    have hfut : future len h0 x = nodesFrom X len h0 x.nodeOffset x.remaining := by
      unfold future bufPart; rw [if_neg ho]; simp
    simp only []
    refine ⟨by rw [r1, hfut]; simp, by rw [r2, hfut], r3, by simp [hr0]⟩

/-- a sequence of Reads: `(bytes, eof)` per call -/
def readAll (x : Xof X) : List Nat → Xof X × List (Bytes × Bool)
  | [] => (x, [])
  | n :: r => ((readAll (x.read n).1 r).1, ((x.read n).2.1, (x.read n).2.2) :: (readAll (x.read n).1 r).2)

theorem readAll_future (W : XLaws X) (len : Nat) (h0 : Bytes) (reads : List Nat) : ∀ (x : Xof X), WF len h0 x →
    ((readAll x reads).2.map (·.1)).flatten = (future len h0 x).take reads.sum ∧
    WF len h0 (readAll x reads).1 ∧
    future len h0 (readAll x reads).1 = (future len h0 x).drop reads.sum := by
  induction reads with
  | nil => intro x hw; simp [readAll, hw]
  | cons n r ih =>
    intro x hw
    obtain ⟨a1, a2, a3, _⟩ := read_future W len h0 x n hw
    obtain ⟨b1, b2, b3⟩ := ih (x.read n).1 a3
    simp only [readAll, List.map_cons, List.flatten_cons, List.sum_cons]
    refine ⟨?_, b2, ?_⟩
    · rw [b1, a1, a2, List.take_add]
    · rw [b3, a2, List.drop_drop]

end XC.C06
