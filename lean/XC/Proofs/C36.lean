/-
  C36 — helper lemmas: the invariant on listed channels and totality of onePacket (no panic, no blocking send).
-/
import XC.Model.C36
set_option maxRecDepth 2000
namespace XC.C36

/-- what holds of every channel in chanList: it is not torn down; nothing is queued on `ch.msg` before the open has
    been decided; the reply gate is only ever open on a decided channel -/
def ChanOk (c : Chan) : Prop :=
  c.closed = false ∧ (c.decided = false → c.msgQ = []) ∧ (c.reqPending = true → c.decided = true)

def Listed (m : Mux) : Prop := ∀ c, some c ∈ m.chans → ChanOk c

theorem chanOk_of_fields {c c' : Chan} (h : ChanOk c) (h1 : c'.closed = c.closed) (h2 : c'.decided = c.decided)
    (h3 : c'.msgQ = c.msgQ) (h4 : c'.reqPending = c.reqPending) : ChanOk c' := by
  unfold ChanOk; rw [h1, h2, h3, h4]; exact h

theorem mem_set_some {l : List (Option Chan)} {i : Nat} {x : Option Chan} {c : Chan}
    (h : some c ∈ l.set i x) : some c ∈ l ∨ x = some c := by
  rcases List.mem_or_eq_of_mem_set h with h | h
  · exact Or.inl h
  · exact Or.inr h.symm

theorem listed_setChan {m : Mux} (h : Listed m) (id : Nat) (x : Option Chan)
    (hx : ∀ c, x = some c → ChanOk c) : Listed (setChan m id x) := by
  intro c hc
  rcases mem_set_some hc with h1 | h1
  · exact h c h1
  · exact hx c h1

theorem listed_setChan_some {m : Mux} (h : Listed m) (id : Nat) (c : Chan) (hc : ChanOk c) :
    Listed (setChan m id (some c)) :=
  listed_setChan h id _ (by intro c' hc'; cases hc'; exact hc)

theorem listed_setChan_none {m : Mux} (h : Listed m) (id : Nat) : Listed (setChan m id none) :=
  listed_setChan h id none (by simp)

theorem getChan_mem {m : Mux} {id : Nat} {c : Chan} (h : getChan m id = some c) : some c ∈ m.chans := by
  unfold getChan at h
  cases hg : m.chans[id]? with
  | none => simp [hg] at h
  | some oc =>
    simp [hg] at h
    subst h
    exact List.mem_of_getElem? hg

theorem chanSend_fields (c : Chan) (ev : String) (b : Bool) :
    (chanSend c ev b).1.closed = c.closed ∧ (chanSend c ev b).1.decided = c.decided ∧
    (chanSend c ev b).1.msgQ = c.msgQ ∧ (chanSend c ev b).1.reqPending = c.reqPending := by
  unfold chanSend; split <;> exact ⟨rfl, rfl, rfl, rfl⟩

theorem chanOk_chanSend {c : Chan} (h : ChanOk c) (ev : String) (b : Bool) : ChanOk (chanSend c ev b).1 :=
  let f := chanSend_fields c ev b
  chanOk_of_fields h f.1 f.2.1 f.2.2.1 f.2.2.2

/-- a blocking send on the EMPTY queue of an open channel succeeds at once -/
theorem pushMsg_empty {c : Chan} (x : QMsg) (hc : c.closed = false) (hq : c.msgQ = []) :
    pushMsg c x = (.ok, { c with msgQ := [x] }) := by
  unfold pushMsg; simp [hc, hq]

theorem tryPushMsg_ok {c : Chan} {x : QMsg} (hc : c.closed = false) :
    (tryPushMsg c x).1 = .ok ∧ (tryPushMsg c x).2.closed = false ∧ (tryPushMsg c x).2.decided = c.decided ∧
    (tryPushMsg c x).2.reqPending = c.reqPending := by
  unfold tryPushMsg
  simp only [hc, Bool.false_eq_true, ↓reduceIte]
  split
  · exact ⟨rfl, hc, rfl, rfl⟩
  · exact ⟨rfl, rfl, rfl, rfl⟩

theorem rdU32_some_of_length {b : Bytes} (h : 4 ≤ b.length) : ∃ v r, rdU32 b = some (v, r) := by
  match b, h with
  | a :: b1 :: c :: d :: rest, _ => exact ⟨_, _, rfl⟩

theorem handleData_total {m : Mux} {id : Nat} {c : Chan} {p : Bytes} {hdr code : Nat}
    (hl : Listed m) (hok : ChanOk c) (hh : 4 ≤ hdr) :
    (handleDataPkt m id c p hdr code).1 ≠ .panic ∧ (handleDataPkt m id c p hdr code).1 ≠ .blocks ∧
      Listed (handleDataPkt m id c p hdr code).2.1 := by
  unfold handleDataPkt
  split
  · exact ⟨by simp, by simp, hl⟩
  · rename_i hlen
    have hge : 4 ≤ (p.drop (hdr - 4)).length := by simp only [List.length_drop]; omega
    obtain ⟨v, r, hv⟩ := rdU32_some_of_length hge
    simp only [hv]
    split
    · exact ⟨by simp, by simp, hl⟩
    · rename_i r' adj _
      have hc1 : ChanOk { c with rcv := r' } := chanOk_of_fields hok rfl rfl rfl rfl
      split
      · exact ⟨by simp, by simp, listed_setChan_some hl id _ hc1⟩
      · exact ⟨by simp, by simp, listed_setChan_some hl id _ (chanOk_chanSend hc1 _ _)⟩

theorem responseOk_spec {c c1 : Chan} (h : responseOk c = some c1) :
    c.decided = false ∧ c1 = { c with decided := true } := by
  unfold responseOk at h
  split at h
  · cases h
  · split at h
    · cases h
    · rename_i hd; cases h; exact ⟨by simpa using hd, rfl⟩

theorem handleChan_total {m : Mux} {id : Nat} {c : Chan} {p : Bytes} {t : Nat} {o : Outcome} {m' : Mux} {ev : Evs}
    (hl : Listed m) (hc : getChan m id = some c)
    (h : handleChanPacket m id c p t = some (o, m', ev)) : o ≠ .panic ∧ o ≠ .blocks ∧ Listed m' := by
  have hok : ChanOk c := hl c (getChan_mem hc)
  obtain ⟨hcl, hq, hrp⟩ := hok
  have hok : ChanOk c := ⟨hcl, hq, hrp⟩
  unfold handleChanPacket at h
  split at h
  · simp only [Option.some.injEq] at h
    have := handleData_total (m := m) (id := id) (c := c) (p := p) (hdr := 9) (code := 0) hl hok (by omega)
    rw [h] at this; exact this
  · split at h
    · simp only [Option.some.injEq] at h
      have := handleData_total (m := m) (id := id) (c := c) (p := p) (hdr := 13)
        (code := (rdU32 (p.drop 5)).map (·.1) |>.getD 0) hl hok (by omega)
      rw [h] at this; exact this
    · split at h
      · -- close
        cases h
        refine ⟨by simp, by simp, ?_⟩
        intro c' hc'
        exact listed_setChan_none hl id c' hc'
      · split at h
        · cases h; exact ⟨by simp, by simp, hl⟩
        · split at h
          · cases h; exact ⟨by simp, by simp, hl⟩
          · cases h; exact ⟨by simp, by simp, hl⟩
          · rename_i msg _
            split at h
            · -- openFailure
              split at h
              · cases h; exact ⟨by simp, by simp, hl⟩
              · rename_i c1 hr
                obtain ⟨hund, rfl⟩ := responseOk_spec hr
                rw [pushMsg_empty (c := { c with decided := true }) _ hcl (hq hund)] at h
                simp only [reduceCtorEq, if_false] at h
                cases h
                refine ⟨by simp, by simp, ?_⟩
                intro c' hc'
                exact listed_setChan_none hl _ c' hc'
            · -- openConfirm
              split at h
              · cases h; exact ⟨by simp, by simp, hl⟩
              · rename_i c1 hr
                obtain ⟨hund, rfl⟩ := responseOk_spec hr
                split at h
                · cases h
                  exact ⟨by simp, by simp, listed_setChan_some hl id _ ⟨hcl, by simp, by simp⟩⟩
                · split at h
                  · cases h
                  · rename_i w hw
                    dsimp only at h
                    rw [pushMsg_empty (c := { c with decided := true, remoteId := _, maxRemote := _, remoteWin := w }) _
                      (by exact hcl) (by exact hq hund)] at h
                    cases h
                    exact ⟨by simp, by simp, listed_setChan_some hl id _ ⟨hcl, by simp, by simp⟩⟩
            · -- windowAdjust
              split at h
              · cases h; exact ⟨by simp, by simp, hl⟩
              · cases h
                exact ⟨by simp, by simp, listed_setChan_some hl id _ (chanOk_of_fields hok rfl rfl rfl rfl)⟩
            · -- chanRequest
              simp only [hcl, Bool.false_eq_true, ↓reduceIte] at h
              split at h
              · cases h
              · split at h
                · cases h; exact ⟨by simp, by simp, hl⟩
                · cases h
                  exact ⟨by simp, by simp, listed_setChan_some hl id _ (chanOk_chanSend hok _ _)⟩
            · -- chanSuccess
              split at h
              · cases h; exact ⟨by simp, by simp, hl⟩
              · rename_i hp
                simp only [Bool.not_eq_true, Bool.not_eq_false] at hp
                obtain ⟨ho, hc2, hd2, hr2⟩ := tryPushMsg_ok (x := QMsg.success) hcl
                generalize tryPushMsg c QMsg.success = r at h ho hc2 hd2 hr2
                obtain ⟨o1, c2⟩ := r
                simp only at ho hc2 hd2 hr2 h
                cases h
                refine ⟨by simp [ho], by simp [ho], listed_setChan_some hl id _ ⟨hc2, ?_, ?_⟩⟩
                · intro hd; rw [hd2, hrp (by simpa using hp)] at hd; cases hd
                · intro _; rw [hd2]; exact hrp (by simpa using hp)
            · split at h
              · cases h; exact ⟨by simp, by simp, hl⟩
              · rename_i hp
                simp only [Bool.not_eq_true, Bool.not_eq_false] at hp
                obtain ⟨ho, hc2, hd2, hr2⟩ := tryPushMsg_ok (x := QMsg.reqFailure) hcl
                generalize tryPushMsg c QMsg.reqFailure = r at h ho hc2 hd2 hr2
                obtain ⟨o1, c2⟩ := r
                simp only at ho hc2 hd2 hr2 h
                cases h
                refine ⟨by simp [ho], by simp [ho], listed_setChan_some hl id _ ⟨hc2, ?_, ?_⟩⟩
                · intro hd; rw [hd2, hrp (by simpa using hp)] at hd; cases hd
                · intro _; rw [hd2]; exact hrp (by simpa using hp)
            · -- default arm: not a channel message ⇒ protocol error (no send on ch.msg)
              cases h; exact ⟨by simp, by simp, hl⟩

theorem listed_addChan {m : Mux} (h : Listed m) (c : Chan) (hc : ChanOk c) : Listed (addChan m c).1 := by
  unfold addChan
  split
  · intro c' hc'
    rcases mem_set_some hc' with h1 | h1
    · exact h c' h1
    · cases h1; exact hc
  · intro c' hc'
    simp only [List.mem_append, List.mem_singleton] at hc'
    rcases hc' with h1 | h1
    · exact h c' h1
    · cases h1; exact hc

theorem decode_90 {b : Bytes} {msg : Msg} (h : decodeBody 90 b = .ok msg) :
    ∃ typ pid win mp extra, msg = .chanOpen typ pid win mp extra := by
  unfold decodeBody at h
  simp only [show ¬ (90 = 80) by decide, show ¬ (90 = 81) by decide, show ¬ (90 = 82) by decide, if_false, if_true] at h
  repeat' split at h
  all_goals first | (cases h; exact ⟨_, _, _, _, _, rfl⟩) | cases h

theorem decode_global {t : Nat} {b : Bytes} {msg : Msg} (ht : t = 80 ∨ t = 81 ∨ t = 82)
    (h : decodeBody t b = .ok msg) :
    (∃ n w d, msg = .globalRequest n w d) ∨ (∃ d, msg = .requestSuccess d) ∨ (∃ d, msg = .requestFailure d) := by
  rcases ht with rfl | rfl | rfl
  · unfold decodeBody at h
    simp only [if_true] at h
    repeat' split at h
    all_goals first | (cases h; exact Or.inl ⟨_, _, _, rfl⟩) | cases h
  · unfold decodeBody at h
    simp only [show ¬ (81 = 80) by decide, if_false, if_true] at h
    cases h; exact Or.inr (Or.inl ⟨_, rfl⟩)
  · unfold decodeBody at h
    simp only [show ¬ (82 = 80) by decide, show ¬ (82 = 81) by decide, if_false, if_true] at h
    cases h; exact Or.inr (Or.inr ⟨_, rfl⟩)


/-- **mux_total**: on every non-empty packet `onePacket` (where modelled) returns ok or err — never a Go panic, and never
    parks in a blocking send on a channel's `msg` queue — and keeps the invariant `Listed`. -/
theorem mux_total {m : Mux} {p : Bytes} {o : Outcome} {m' : Mux} {ev : Evs}
    (hl : Listed m) (hne : p ≠ []) (h : onePacket m p = some (o, m', ev)) :
    o ≠ .panic ∧ o ≠ .blocks ∧ Listed m' := by
  unfold onePacket at h
  split at h
  · exact absurd rfl hne
  · rename_i t8 body
    dsimp only at h
    split at h
    · -- channel open
      rename_i ht
      cases hd : decode (t8 :: body) with
      | error e => rw [hd] at h; cases h; exact ⟨by simp, by simp, hl⟩
      | ok msg =>
        have hd' : decodeBody 90 body = .ok msg := by simpa [decode, ht] using hd
        obtain ⟨typ, pid, win, mp, extra, rfl⟩ := decode_90 hd'
        rw [hd] at h
        dsimp only at h
        split at h
        · cases h; exact ⟨by simp, by simp, hl⟩
        · have hnew : Listed (addChan { m with nextUid := m.nextUid + 1 }
              { newChan true m.nextUid with remoteId := pid, maxRemote := mp, remoteWin := win % 4294967296 }).1 :=
            listed_addChan (m := { m with nextUid := m.nextUid + 1 }) hl _ ⟨rfl, fun _ => rfl, by simp [newChan]⟩
          split at h
          · cases h
            exact ⟨by simp, by simp, hnew⟩
          · split at h
            · cases h
              refine ⟨by simp, by simp, ?_⟩
              intro c' hc'
              refine listed_setChan_some hnew _ _ (chanOk_chanSend ⟨rfl, by simp [newChan], by simp [newChan]⟩ _ _) c' hc'
            · cases h
              refine ⟨by simp, by simp, ?_⟩
              intro c' hc'
              exact listed_setChan_none hnew _ c' hc'
    · split at h
      · -- global packets
        rename_i ht
        have ht' : t8.toNat = 80 ∨ t8.toNat = 81 ∨ t8.toNat = 82 := by
          simp only [Bool.or_eq_true, decide_eq_true_eq] at ht
          rcases ht with (h1 | h1) | h1
          · exact Or.inl h1
          · exact Or.inr (Or.inl h1)
          · exact Or.inr (Or.inr h1)
        cases hd : decode (t8 :: body) with
        | error e => rw [hd] at h; cases h; exact ⟨by simp, by simp, hl⟩
        | ok msg =>
          have hd' : decodeBody t8.toNat body = .ok msg := by simpa [decode] using hd
          rw [hd] at h
          rcases decode_global ht' hd' with ⟨n, w, d, rfl⟩ | ⟨d, rfl⟩ | ⟨d, rfl⟩
          · dsimp only at h
            split at h
            · cases h; exact ⟨by simp, by simp, hl⟩
            · cases h; exact ⟨by simp, by simp, hl⟩
          · dsimp only at h
            split at h
            · cases h; exact ⟨by simp, by simp, hl⟩
            · cases h; exact ⟨by simp, by simp, hl⟩
          · dsimp only at h
            split at h
            · cases h; exact ⟨by simp, by simp, hl⟩
            · cases h; exact ⟨by simp, by simp, hl⟩
      · split at h
        · -- ping
          split at h
          · cases h; exact ⟨by simp, by simp, hl⟩
          · split at h
            · cases h; exact ⟨by simp, by simp, hl⟩
            · cases h; exact ⟨by simp, by simp, hl⟩
        · split at h
          · cases h; exact ⟨by simp, by simp, hl⟩
          · rename_i hlen
            have hb : 4 ≤ body.length := by simp only [List.length_cons] at hlen; omega
            obtain ⟨v, r, hv⟩ := rdU32_some_of_length hb
            rw [hv] at h
            dsimp only at h
            split at h
            · rename_i c hc
              exact handleChan_total hl hc h
            · split at h
              · cases h; exact ⟨by simp, by simp, hl⟩
              · cases h; exact ⟨by simp, by simp, hl⟩
              · split at h
                · cases h; exact ⟨by simp, by simp, hl⟩
                · cases h; exact ⟨by simp, by simp, hl⟩
              · cases h; exact ⟨by simp, by simp, hl⟩

end XC.C36
