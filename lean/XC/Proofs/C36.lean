/-
  C36 — helper lemmas: the invariant "listed channels are not torn down" and totality of onePacket.
-/
import XC.Model.C36
set_option maxRecDepth 2000
namespace XC.C36
def Listed (m : Mux) : Prop := ∀ c, some c ∈ m.chans → c.closed = false

theorem mem_set_some {l : List (Option Chan)} {i : Nat} {x : Option Chan} {c : Chan}
    (h : some c ∈ l.set i x) : some c ∈ l ∨ x = some c := by
  rcases List.mem_or_eq_of_mem_set h with h | h
  · exact Or.inl h
  · exact Or.inr h.symm

theorem listed_setChan {m : Mux} (h : Listed m) (id : Nat) (x : Option Chan)
    (hx : ∀ c, x = some c → c.closed = false) : Listed (setChan m id x) := by
  intro c hc
  rcases mem_set_some hc with h1 | h1
  · exact h c h1
  · exact hx c h1

theorem getChan_mem {m : Mux} {id : Nat} {c : Chan} (h : getChan m id = some c) : some c ∈ m.chans := by
  unfold getChan at h
  cases hg : m.chans[id]? with
  | none => simp [hg] at h
  | some oc =>
    simp [hg] at h
    subst h
    exact List.mem_of_getElem? hg

theorem chanSend_closed (c : Chan) (ev : String) (b : Bool) : (chanSend c ev b).1.closed = c.closed := by
  unfold chanSend; split <;> rfl

theorem pushMsg_ok {c : Chan} (x : QMsg) (hc : c.closed = false) :
    (pushMsg c x).1 ≠ .panic ∧ (pushMsg c x).2.closed = false := by
  unfold pushMsg
  simp only [hc, Bool.false_eq_true, ↓reduceIte]
  split
  · exact ⟨by simp, hc⟩
  · exact ⟨by simp, rfl⟩

theorem pushMsg_ok' {c : Chan} {x : QMsg} {r : Outcome × Chan} (hc : c.closed = false) (h : pushMsg c x = r) :
    r.1 ≠ .panic ∧ r.2.closed = false := by
  subst h; exact pushMsg_ok x hc

theorem tryPushMsg_ok {c : Chan} {x : QMsg} (hc : c.closed = false) :
    (tryPushMsg c x).1 = .ok ∧ (tryPushMsg c x).2.closed = false := by
  unfold tryPushMsg
  simp only [hc, Bool.false_eq_true, ↓reduceIte]
  split
  · exact ⟨rfl, hc⟩
  · exact ⟨rfl, rfl⟩

theorem rdU32_some_of_length {b : Bytes} (h : 4 ≤ b.length) : ∃ v r, rdU32 b = some (v, r) := by
  match b, h with
  | a :: b1 :: c :: d :: rest, _ => exact ⟨_, _, rfl⟩


theorem handleData_total {m : Mux} {id : Nat} {c : Chan} {p : Bytes} {hdr code : Nat}
    (hl : Listed m) (hcl : c.closed = false) (hh : 4 ≤ hdr) :
    (handleDataPkt m id c p hdr code).1 ≠ .panic ∧ Listed (handleDataPkt m id c p hdr code).2.1 := by
  unfold handleDataPkt
  split
  · exact ⟨by simp, hl⟩
  · rename_i hlen
    have hge : 4 ≤ (p.drop (hdr - 4)).length := by simp only [List.length_drop]; omega
    obtain ⟨v, r, hv⟩ := rdU32_some_of_length hge
    simp only [hv]
    split
    · exact ⟨by simp, hl⟩
    · split
      · exact ⟨by simp, listed_setChan hl id _ (by intro c' hc'; cases hc'; exact hcl)⟩
      · refine ⟨by simp, listed_setChan hl id _ ?_⟩
        intro c' hc'; cases hc'
        rw [chanSend_closed]; exact hcl

theorem handleChan_total {m : Mux} {id : Nat} {c : Chan} {p : Bytes} {t : Nat} {o : Outcome} {m' : Mux} {ev : Evs}
    (hl : Listed m) (hc : getChan m id = some c)
    (h : handleChanPacket m id c p t = some (o, m', ev)) : o ≠ .panic ∧ Listed m' := by
  have hcl : c.closed = false := hl c (getChan_mem hc)
  unfold handleChanPacket at h
  split at h
  · simp only [Option.some.injEq] at h
    have := handleData_total (m := m) (id := id) (c := c) (p := p) (hdr := 9) (code := 0) hl hcl (by omega)
    rw [h] at this; exact this
  · split at h
    · simp only [Option.some.injEq] at h
      have := handleData_total (m := m) (id := id) (c := c) (p := p) (hdr := 13)
        (code := (rdU32 (p.drop 5)).map (·.1) |>.getD 0) hl hcl (by omega)
      rw [h] at this; exact this
    · split at h
      · -- close
        cases h
        refine ⟨by simp, ?_⟩
        intro c' hc'
        exact listed_setChan hl id none (by simp) c' hc'
      · split at h
        · cases h; exact ⟨by simp, hl⟩
        · split at h
          · cases h
          · cases h; exact ⟨by simp, hl⟩
          · rename_i msg _
            split at h
            · -- openFailure
              split at h
              · cases h; exact ⟨by simp, hl⟩
              · rename_i c1 hr
                have hc1 : c1.closed = false := by
                  unfold responseOk at hr
                  split at hr
                  · cases hr
                  · split at hr
                    · cases hr
                    · cases hr; exact hcl
                obtain ⟨ho, _⟩ := pushMsg_ok (QMsg.failure ‹Nat›) hc1
                generalize pushMsg c1 (QMsg.failure _) = r at h ho
                obtain ⟨o1, c2⟩ := r
                simp only at h ho
                split at h
                · cases h; exact ⟨by simp, hl⟩
                · cases h
                  refine ⟨ho, ?_⟩
                  intro c' hc'
                  exact listed_setChan hl _ none (by simp) c' hc'
            · -- openConfirm
              split at h
              · cases h; exact ⟨by simp, hl⟩
              · rename_i c1 hr
                have hc1 : c1.closed = false := by
                  unfold responseOk at hr
                  split at hr
                  · cases hr
                  · split at hr
                    · cases hr
                    · cases hr; exact hcl
                split at h
                · cases h
                  exact ⟨by simp, listed_setChan hl id _ (by intro c' hc'; cases hc'; exact hc1)⟩
                · split at h
                  · cases h
                  · rename_i w hw
                    dsimp only at h
                    generalize hr : pushMsg _ QMsg.confirm = r at h
                    obtain ⟨ho, hc2⟩ := pushMsg_ok' (by exact hc1) hr
                    obtain ⟨o1, c2⟩ := r
                    simp only at h ho hc2
                    cases h
                    exact ⟨ho, listed_setChan hl id _ (by intro c' hc'; cases hc'; exact hc2)⟩
            · -- windowAdjust
              split at h
              · cases h; exact ⟨by simp, hl⟩
              · cases h
                exact ⟨by simp, listed_setChan hl id _ (by intro c' hc'; cases hc'; exact hcl)⟩
            · -- chanRequest
              simp only [hcl, Bool.false_eq_true, ↓reduceIte] at h
              split at h
              · cases h
              · split at h
                · cases h; exact ⟨by simp, hl⟩
                · cases h
                  refine ⟨by simp, listed_setChan hl id _ ?_⟩
                  intro c' hc'; cases hc'
                  rw [chanSend_closed]; exact hcl
            · -- chanSuccess
              split at h
              · cases h; exact ⟨by simp, hl⟩
              · obtain ⟨ho, hc2⟩ := tryPushMsg_ok (x := QMsg.success) hcl
                generalize tryPushMsg c QMsg.success = r at h ho hc2
                obtain ⟨o1, c2⟩ := r
                simp only at ho hc2 h
                cases h
                exact ⟨by simp [ho], listed_setChan hl id _ (by intro c' hc'; cases hc'; exact hc2)⟩
            · split at h
              · cases h; exact ⟨by simp, hl⟩
              · obtain ⟨ho, hc2⟩ := tryPushMsg_ok (x := QMsg.reqFailure) hcl
                generalize tryPushMsg c QMsg.reqFailure = r at h ho hc2
                obtain ⟨o1, c2⟩ := r
                simp only at ho hc2 h
                cases h
                exact ⟨by simp [ho], listed_setChan hl id _ (by intro c' hc'; cases hc'; exact hc2)⟩
            · -- default arm
              obtain ⟨ho, hc2⟩ := pushMsg_ok QMsg.other hcl
              generalize pushMsg c QMsg.other = r at h ho hc2
              obtain ⟨o1, c2⟩ := r
              simp only at h ho hc2
              cases h
              exact ⟨ho, listed_setChan hl id _ (by intro c' hc'; cases hc'; exact hc2)⟩


theorem listed_addChan {m : Mux} (h : Listed m) (c : Chan) (hc : c.closed = false) : Listed (addChan m c).1 := by
  unfold addChan
  split
  · intro c' hc'
    rcases mem_set_some hc' with h1 | h1
    · exact h c' h1
    · cases h1; exact hc
  · intro c' hc'
    simp only [List.mem_append, List.mem_singleton] at hc'
    rcases hc' with h1 | h1
    · exact h c' h1
    · cases h1; exact hc

theorem decode_90 {b : Bytes} {msg : Msg} (h : decodeBody 90 b = .ok msg) :
    ∃ typ pid win mp extra, msg = .chanOpen typ pid win mp extra := by
  unfold decodeBody at h
  simp only [show ¬ (90 = 80) by decide, show ¬ (90 = 81) by decide, show ¬ (90 = 82) by decide, if_false, if_true] at h
  repeat' split at h
  all_goals first | (cases h; exact ⟨_, _, _, _, _, rfl⟩) | cases h

theorem decode_global {t : Nat} {b : Bytes} {msg : Msg} (ht : t = 80 ∨ t = 81 ∨ t = 82)
    (h : decodeBody t b = .ok msg) :
    (∃ n w d, msg = .globalRequest n w d) ∨ (∃ d, msg = .requestSuccess d) ∨ (∃ d, msg = .requestFailure d) := by
  rcases ht with rfl | rfl | rfl
  · unfold decodeBody at h
    simp only [if_true] at h
    repeat' split at h
    all_goals first | (cases h; exact Or.inl ⟨_, _, _, rfl⟩) | cases h
  · unfold decodeBody at h
    simp only [show ¬ (81 = 80) by decide, if_false, if_true] at h
    cases h; exact Or.inr (Or.inl ⟨_, rfl⟩)
  · unfold decodeBody at h
    simp only [show ¬ (82 = 80) by decide, show ¬ (82 = 81) by decide, if_false, if_true] at h
    cases h; exact Or.inr (Or.inr ⟨_, rfl⟩)


/-- **mux_total**: on every non-empty packet `onePacket` (where modelled) returns ok or err — never a Go panic —
    and keeps the invariant that listed channels are not torn down. -/
theorem mux_total {m : Mux} {p : Bytes} {o : Outcome} {m' : Mux} {ev : Evs}
    (hl : Listed m) (hne : p ≠ []) (h : onePacket m p = some (o, m', ev)) : o ≠ .panic ∧ Listed m' := by
  unfold onePacket at h
  split at h
  · exact absurd rfl hne
  · rename_i t8 body
    dsimp only at h
    split at h
    · -- channel open
      rename_i ht
      cases hd : decode (t8 :: body) with
      | error e => rw [hd] at h; cases h; exact ⟨by simp, hl⟩
      | ok msg =>
        have hd' : decodeBody 90 body = .ok msg := by simpa [decode, ht] using hd
        obtain ⟨typ, pid, win, mp, extra, rfl⟩ := decode_90 hd'
        rw [hd] at h
        dsimp only at h
        split at h
        · cases h; exact ⟨by simp, hl⟩
        · have hnew : Listed (addChan { m with nextUid := m.nextUid + 1 }
              { newChan true m.nextUid with remoteId := pid, maxRemote := mp, remoteWin := win % 4294967296 }).1 :=
            listed_addChan (m := { m with nextUid := m.nextUid + 1 }) hl _ rfl
          split at h
          · cases h
            exact ⟨by simp, hnew⟩
          · split at h
            · cases h
              refine ⟨by simp, ?_⟩
              intro c' hc'
              refine listed_setChan hnew _ _ ?_ c' hc'
              intro c'' hc''; cases hc''
              rw [chanSend_closed]; rfl
            · cases h
              refine ⟨by simp, ?_⟩
              intro c' hc'
              exact listed_setChan hnew _ none (by simp) c' hc'
    · split at h
      · -- global packets
        rename_i ht
        have ht' : t8.toNat = 80 ∨ t8.toNat = 81 ∨ t8.toNat = 82 := by
          simp only [Bool.or_eq_true, decide_eq_true_eq] at ht
          rcases ht with (h1 | h1) | h1
          · exact Or.inl h1
          · exact Or.inr (Or.inl h1)
          · exact Or.inr (Or.inr h1)
        cases hd : decode (t8 :: body) with
        | error e => rw [hd] at h; cases h; exact ⟨by simp, hl⟩
        | ok msg =>
          have hd' : decodeBody t8.toNat body = .ok msg := by simpa [decode] using hd
          rw [hd] at h
          rcases decode_global ht' hd' with ⟨n, w, d, rfl⟩ | ⟨d, rfl⟩ | ⟨d, rfl⟩
          · dsimp only at h
            split at h
            · cases h; exact ⟨by simp, hl⟩
            · cases h; exact ⟨by simp, hl⟩
          · dsimp only at h
            split at h
            · cases h; exact ⟨by simp, hl⟩
            · cases h; exact ⟨by simp, hl⟩
          · dsimp only at h
            split at h
            · cases h; exact ⟨by simp, hl⟩
            · cases h; exact ⟨by simp, hl⟩
      · split at h
        · -- ping
          split at h
          · cases h; exact ⟨by simp, hl⟩
          · split at h
            · cases h; exact ⟨by simp, hl⟩
            · cases h; exact ⟨by simp, hl⟩
        · split at h
          · cases h; exact ⟨by simp, hl⟩
          · rename_i hlen
            have hb : 4 ≤ body.length := by simp only [List.length_cons] at hlen; omega
            obtain ⟨v, r, hv⟩ := rdU32_some_of_length hb
            rw [hv] at h
            dsimp only at h
            split at h
            · rename_i c hc
              exact handleChan_total hl hc h
            · split at h
              · cases h
              · cases h; exact ⟨by simp, hl⟩
              · split at h
                · cases h; exact ⟨by simp, hl⟩
                · cases h; exact ⟨by simp, hl⟩
              · cases h; exact ⟨by simp, hl⟩

end XC.C36
