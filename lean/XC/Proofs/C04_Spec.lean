/-
  C04 — key parsing (`initialize` = RFC clamp), Horner form = explicit polynomial, `Mac.sum` against the spec.
-/
import XC.Proofs.C04_Mac
namespace XC.C04

theorem nat_and_split (a b m0 m1 : Nat) (ha : a < 2 ^ 64) (hm : m0 < 2 ^ 64) :
    (a + 2 ^ 64 * b) &&& (m0 + 2 ^ 64 * m1) = (a &&& m0) + 2 ^ 64 * (b &&& m1) := by
  have hlt : a &&& m0 < 2 ^ 64 := Nat.and_lt_two_pow _ hm
  apply Nat.eq_of_testBit_eq
  intro i
  rw [Nat.testBit_and, Nat.add_comm a, Nat.add_comm m0, Nat.add_comm (a &&& m0),
    Nat.testBit_two_pow_mul_add _ ha, Nat.testBit_two_pow_mul_add _ hm, Nat.testBit_two_pow_mul_add _ hlt]
  split <;> simp [Nat.testBit_and]

theorem words_take16 (msg : Bytes) (h : 16 ≤ msg.length) :
    (le64 msg).toNat + 2 ^ 64 * (le64 (msg.drop 8)).toNat = natOfLE (msg.take 16) := by
  have hl : (msg.take 16).length = 16 := by simp; omega
  have e1 : le64 msg = le64 (msg.take 16) := by simp [le64, List.take_take]
  have e2 : le64 (msg.drop 8) = le64 ((msg.take 16).drop 8) := by
    simp only [le64]
    rw [List.drop_take, List.take_take]; simp
  rw [e1, e2, block_words _ hl]

theorem rOf_eq (key : Bytes) (hk : 16 ≤ key.length) :
    rOf key = rVal (initMac key).r0 (initMac key).r1 := by
  simp only [rOf, rVal, initMac, UInt64.toNat_and]
  rw [← words_take16 key hk]
  have e0 : rMask0.toNat = 0x0FFFFFFC0FFFFFFF := by decide
  have e1 : rMask1.toNat = 0x0FFFFFFC0FFFFFFC := by decide
  rw [e0, e1, ← nat_and_split _ _ _ _ (le64 key).toNat_lt (by decide)]

theorem clamped_init (key : Bytes) : Clamped (initMac key).r0 (initMac key).r1 := by
  simp only [Clamped, initMac, UInt64.toNat_and]
  have e0 : rMask0.toNat = 0x0FFFFFFC0FFFFFFF := by decide
  have e1 : rMask1.toNat = 0x0FFFFFFC0FFFFFFC := by decide
  rw [e0, e1]
  constructor
  · exact Nat.lt_of_le_of_lt Nat.and_le_right (by decide)
  · exact Nat.lt_of_le_of_lt Nat.and_le_right (by decide)

theorem sOf_eq (key : Bytes) (hk : key.length = 32) :
    sOf key = (initMac key).s0.toNat + 2 ^ 64 * (initMac key).s1.toNat := by
  simp only [sOf, initMac]
  rw [← words_take16 (key.drop 16) (by simp; omega)]
  simp

/-! ## Horner evaluation = the explicit polynomial -/

theorem mod_mul_add (x y z : Nat) : (x % p * y + z) % p = (x * y + z) % p := by
  rw [Nat.add_mod, Nat.mul_mod, Nat.mod_mod, ← Nat.mul_mod, ← Nat.add_mod]

theorem foldl_poly (r : Nat) (bs : List Bytes) (a : Nat) :
    (bs.foldl (fun acc b => ((acc + blockVal b) * r) % p) a) % p
      = (a * r ^ bs.length + polySum r bs) % p := by
  induction bs generalizing a with
  | nil => simp [polySum]
  | cons b rest ih =>
    rw [List.foldl_cons, ih, mod_mul_add]
    simp only [polySum, List.length_cons]
    congr 1
    grind

theorem horner_poly (r : Nat) (msg : Bytes) : horner r 0 msg % p = polySum r (chunks 16 msg) % p := by
  simp only [horner]
  rw [foldl_poly]; simp

/-! ## Sum -/

theorem sum_tracks (r0 r1 s0 s1 : UInt64) (hc : Clamped r0 r1) (m : Mac) (M : Bytes)
    (ht : Tracks r0 r1 s0 s1 m M) :
    m.sum = some (natToLE 16 ((polySum (rVal r0 r1) (chunks 16 M) % p + (s0.toNat + 2 ^ 64 * s1.toNat)) % 2 ^ 128)) := by
  obtain ⟨e0, e1, e2, e3, hb, hi, F, hM, hF, hU⟩ := ht
  obtain ⟨g, hg, hgi, hgv⟩ := updateGeneric_correct r0 r1 hc _ M zeroH rfl (by simp [Inv, zeroH])
  have hsplit : updateGeneric m.h r0 r1 m.buf = some g := by
    rw [hM, updateGeneric_append r0 r1 _ F _ zeroH rfl hF, hU] at hg
    exact hg
  have hx : (if 0 < m.buf.length then updateGeneric m.h m.r0 m.r1 m.buf else some m.h) = some g := by
    rw [e0, e1]
    split
    · exact hsplit
    · have hb0 : m.buf = [] := List.eq_nil_of_length_eq_zero (by omega)
      rw [hb0, updateGeneric_nil] at hsplit
      exact hsplit
  unfold Mac.sum
  rw [hx]
  simp only []
  rw [finalize_spec g _ _ hgi.val_lt, e2, e3]
  have : g.val % p = polySum (rVal r0 r1) (chunks 16 M) % p := by
    have h0 : zeroH.val % p = 0 := by decide
    rw [h0] at hgv
    rw [← horner_poly, ← hgv, Nat.mod_mod]
  rw [this]

end XC.C04
