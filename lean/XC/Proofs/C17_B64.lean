/-
  C17 — the base64 stand-in: a decode of `input ‖ '='…` never yields an empty slice.
-/
import XC.Model.C17
namespace XC.C17

theorem quantumBytes_ne (d : List UInt8) (h : 2 ≤ d.length) : quantumBytes d ≠ [] := by
  unfold quantumBytes
  intro hh
  have := congrArg List.length hh
  simp at this
  omega

/-- a quantum that yields no bytes saw only newlines -/
theorem quantum_nil (d : List UInt8) (src rest : Bytes) (h : quantum d src = some (rest, [])) :
    d = [] ∧ ∀ c ∈ src, isNL c = true := by
  induction src generalizing d with
  | nil =>
    simp only [quantum] at h
    split at h
    · rename_i hd
      exact ⟨List.eq_nil_of_length_eq_zero (by simpa using hd), by simp⟩
    · cases h
  | cons c r ih =>
    rw [quantum] at h
    by_cases hv : (decMap c != 0xff) = true
    · simp only [hv, if_true] at h
      by_cases h4 : ((d ++ [decMap c]).length == 4) = true
      · simp only [h4, if_true] at h
        injection h with h
        have : quantumBytes (d ++ [decMap c]) = [] := by
          have := congrArg Prod.snd h; simpa using this
        exact absurd this (quantumBytes_ne _ (by simp at h4 ⊢; omega))
      · simp only [h4] at h
        have := (ih _ h).1
        simp at this
    · simp only [hv] at h
      by_cases hnl : isNL c = true
      · simp only [hnl, if_true] at h
        obtain ⟨a, b⟩ := ih d h
        exact ⟨a, by intro x hx; simp only [List.mem_cons] at hx; rcases hx with rfl | hx; exact hnl; exact b x hx⟩
      · simp only [hnl] at h
        by_cases h61 : (c != 61) = true
        · simp [h61] at h
        · simp only [h61] at h
          by_cases hlt : d.length < 2
          · simp [hlt] at h
          · simp only [hlt] at h
            -- whatever the padding check yields, a successful result carries `quantumBytes d`
            have key : ∀ (ap : Option Bytes), (match ap with
                | none => none
                | some r => match skipNL r with
                  | [] => some (([] : Bytes), quantumBytes d)
                  | _ :: _ => none) = some (rest, ([] : Bytes)) → quantumBytes d = [] := by
              intro ap hap
              cases ap with
              | none => cases hap
              | some r' =>
                simp only at hap
                cases hs : skipNL r' with
                | nil => simp only [hs] at hap; injection hap with hap; exact (congrArg Prod.snd hap)
                | cons x y => simp [hs] at hap
            exact absurd (key _ h) (quantumBytes_ne _ (by omega))

theorem decodeLoop_nil (fuel : Nat) (src : Bytes) (h : decodeLoop fuel src = some []) :
    ∀ c ∈ src, isNL c = true := by
  induction fuel generalizing src with
  | zero =>
    cases src with
    | nil => simp
    | cons a b => simp [decodeLoop] at h
  | succ n ih =>
    cases src with
    | nil => simp
    | cons a b =>
      simp only [decodeLoop] at h
      cases hq : quantum [] (a :: b) with
      | none => simp [hq] at h
      | some p =>
        obtain ⟨rest, bs⟩ := p
        simp only [hq] at h
        cases hr : decodeLoop n rest with
        | none => simp [hr] at h
        | some t =>
          simp only [hr, Option.map_some, Functor.map] at h
          injection h with h
          have hb : bs = [] := (List.append_eq_nil_iff.mp h).1
          subst hb
          exact (quantum_nil [] _ _ hq).2

/-- `base64Decode` (input + at least one '=') never returns an empty slice, so the
    `blowfish.ExpandKey(csalt, c)` index panic in `expensiveBlowfishSetup` is unreachable -/
theorem base64Decode_ne_nil (src cs : Bytes) (h : base64Decode src = some cs) : cs ≠ [] := by
  intro hc
  subst hc
  unfold base64Decode b64DecodeGo at h
  have := decodeLoop_nil _ _ h 61 (by
    have : 0 < 4 - src.length % 4 := by omega
    simp [List.mem_append, List.mem_replicate]; omega)
  simp [isNL] at this


/-! ### encode / decode round trip -/

theorem decMap_encChar : ∀ v : Fin 64, decMap (encChar v.val) = UInt8.ofNat v.val ∧ (decMap (encChar v.val) != 0xff) = true ∧
    isNL (encChar v.val) = false := by decide

theorem dec_enc (v : Nat) : decMap (encChar v) = UInt8.ofNat (v % 64) ∧ (decMap (encChar v) != 0xff) = true := by
  have h := decMap_encChar ⟨v % 64, Nat.mod_lt _ (by decide)⟩
  have e : encChar v = encChar (v % 64) := by simp [encChar]
  rw [e]
  exact ⟨h.1, h.2.1⟩

theorem quantum_step (d : List UInt8) (c : UInt8) (rest : Bytes) (h : (decMap c != 0xff) = true) :
    quantum d (c :: rest) = if ((d ++ [decMap c]).length == 4) = true then some (rest, quantumBytes (d ++ [decMap c]))
      else quantum (d ++ [decMap c]) rest := by
  rw [quantum]; simp only [h, if_true]

theorem toNat_ofNat_lt (n : Nat) (h : n < 256) : (UInt8.ofNat n).toNat = n := by
  simp [UInt8.toNat_ofNat']; omega

theorem sextets (a b c : UInt8) :
    let v := a.toNat * 65536 + b.toNat * 256 + c.toNat
    quantumBytes [UInt8.ofNat (v / 262144 % 64), UInt8.ofNat (v / 4096 % 64), UInt8.ofNat (v / 64 % 64), UInt8.ofNat (v % 64)]
      = [a, b, c] := by
  intro v
  have ha := a.toNat_lt; have hb := b.toNat_lt; have hc := c.toNat_lt
  unfold quantumBytes
  simp only [List.getD_cons_zero, List.getD_cons_succ, List.length_cons, List.length_nil]
  rw [toNat_ofNat_lt _ (by omega), toNat_ofNat_lt _ (by omega), toNat_ofNat_lt _ (by omega), toNat_ofNat_lt _ (by omega)]
  have hv : v / 262144 % 64 * 262144 + v / 4096 % 64 * 4096 + v / 64 % 64 * 64 + v % 64 = v := by omega
  rw [hv]
  have r0 : UInt8.ofNat (v / 65536) = a := by
    apply UInt8.toNat_inj.mp; rw [toNat_ofNat_lt _ (by omega)]; omega
  have r1 : UInt8.ofNat (v / 256) = b := by
    apply UInt8.toNat_inj.mp; simp [UInt8.toNat_ofNat']; omega
  have r2 : UInt8.ofNat v = c := by
    apply UInt8.toNat_inj.mp; simp [UInt8.toNat_ofNat']; omega
  rw [r0, r1, r2]
  rfl

/-- a full quantum: the four characters of three bytes decode to those bytes -/
theorem quantum_full (a b c : UInt8) (tail : Bytes) :
    quantum [] (encChar ((a.toNat * 65536 + b.toNat * 256 + c.toNat) / 262144) ::
      encChar ((a.toNat * 65536 + b.toNat * 256 + c.toNat) / 4096) ::
      encChar ((a.toNat * 65536 + b.toNat * 256 + c.toNat) / 64) ::
      encChar (a.toNat * 65536 + b.toNat * 256 + c.toNat) :: tail)
      = some (tail, [a, b, c]) := by
  rw [quantum_step _ _ _ (dec_enc _).2, (dec_enc _).1]
  simp only [List.nil_append, List.length_cons, List.length_nil, show ((0 + 1 == 4) = true) = False by decide, if_false]
  rw [quantum_step _ _ _ (dec_enc _).2, (dec_enc _).1]
  simp only [List.cons_append, List.nil_append, List.length_cons, List.length_nil, show ((0 + 1 + 1 == 4) = true) = False by decide, if_false]
  rw [quantum_step _ _ _ (dec_enc _).2, (dec_enc _).1]
  simp only [List.cons_append, List.nil_append, List.length_cons, List.length_nil, show ((0 + 1 + 1 + 1 == 4) = true) = False by decide, if_false]
  rw [quantum_step _ _ _ (dec_enc _).2, (dec_enc _).1]
  simp only [List.cons_append, List.nil_append, List.length_cons, List.length_nil, show ((0 + 1 + 1 + 1 + 1 == 4) = true) = True by decide, if_true]
  rw [sextets a b c]

theorem quantum_pad_step2 (d : List UInt8) (rest : Bytes) (hd : d.length = 2) :
    quantum d (61 :: 61 :: rest) = (match skipNL rest with | [] => some ([], quantumBytes d) | _ :: _ => none) := by
  rw [quantum]
  simp only [show (decMap 61 != 255) = false by decide, show isNL 61 = false by decide, hd,
    show ((61 : UInt8) != 61) = false by decide, Bool.false_eq_true, if_false,
    show ¬ (2 < 2) by decide, show ((2 == 2) = true) = True by decide, if_true, skipNL]
  cases skipNL rest <;> rfl

theorem quantum_pad_step3 (d : List UInt8) (rest : Bytes) (hd : d.length = 3) :
    quantum d (61 :: rest) = (match skipNL rest with | [] => some ([], quantumBytes d) | _ :: _ => none) := by
  rw [quantum]
  simp only [show (decMap 61 != 255) = false by decide, show isNL 61 = false by decide, hd,
    show ((61 : UInt8) != 61) = false by decide, Bool.false_eq_true, if_false,
    show ¬ (3 < 2) by decide, show ((3 == 2) = true) = False by decide]
  cases skipNL rest <;> rfl

theorem quantum_tail1 (a : UInt8) :
    quantum [] [encChar (a.toNat * 65536 / 262144), encChar (a.toNat * 65536 / 4096), 61, 61] = some ([], [a]) := by
  have ha := a.toNat_lt
  rw [quantum_step _ _ _ (dec_enc _).2, (dec_enc _).1]
  simp only [List.nil_append, List.length_cons, List.length_nil, show ((0 + 1 == 4) = true) = False by decide, if_false]
  rw [quantum_step _ _ _ (dec_enc _).2, (dec_enc _).1]
  simp only [List.cons_append, List.nil_append, List.length_cons, List.length_nil, show ((0 + 1 + 1 == 4) = true) = False by decide, if_false]
  rw [quantum_pad_step2 _ _ rfl]
  simp only [skipNL]
  congr 2
  unfold quantumBytes
  simp only [List.getD_cons_zero, List.getD_cons_succ, List.length_cons, List.length_nil, List.getD_nil]
  rw [toNat_ofNat_lt _ (by omega), toNat_ofNat_lt _ (by omega)]
  simp only [show (0 : UInt8).toNat = 0 from rfl]
  have r0 : UInt8.ofNat ((a.toNat * 65536 / 262144 % 64 * 262144 + a.toNat * 65536 / 4096 % 64 * 4096 + 0 * 64 + 0) / 65536) = a := by
    apply UInt8.toNat_inj.mp; simp [UInt8.toNat_ofNat']; omega
  rw [r0]; rfl

theorem quantum_tail2 (a b : UInt8) :
    quantum [] [encChar ((a.toNat * 65536 + b.toNat * 256) / 262144), encChar ((a.toNat * 65536 + b.toNat * 256) / 4096),
      encChar ((a.toNat * 65536 + b.toNat * 256) / 64), 61] = some ([], [a, b]) := by
  have ha := a.toNat_lt; have hb := b.toNat_lt
  rw [quantum_step _ _ _ (dec_enc _).2, (dec_enc _).1]
  simp only [List.nil_append, List.length_cons, List.length_nil, show ((0 + 1 == 4) = true) = False by decide, if_false]
  rw [quantum_step _ _ _ (dec_enc _).2, (dec_enc _).1]
  simp only [List.cons_append, List.nil_append, List.length_cons, List.length_nil, show ((0 + 1 + 1 == 4) = true) = False by decide, if_false]
  rw [quantum_step _ _ _ (dec_enc _).2, (dec_enc _).1]
  simp only [List.cons_append, List.nil_append, List.length_cons, List.length_nil, show ((0 + 1 + 1 + 1 == 4) = true) = False by decide, if_false]
  rw [quantum_pad_step3 _ _ rfl]
  simp only [skipNL]
  congr 2
  unfold quantumBytes
  simp only [List.getD_cons_zero, List.getD_cons_succ, List.length_cons, List.length_nil, List.getD_nil]
  rw [toNat_ofNat_lt _ (by omega), toNat_ofNat_lt _ (by omega), toNat_ofNat_lt _ (by omega)]
  simp only [show (0 : UInt8).toNat = 0 from rfl]
  have key : ∀ v, v = a.toNat * 65536 + b.toNat * 256 →
      UInt8.ofNat ((v / 262144 % 64 * 262144 + v / 4096 % 64 * 4096 + v / 64 % 64 * 64 + 0) / 65536) = a ∧
      UInt8.ofNat ((v / 262144 % 64 * 262144 + v / 4096 % 64 * 4096 + v / 64 % 64 * 64 + 0) / 256) = b := by
    intro v hv
    constructor
    · apply UInt8.toNat_inj.mp; simp [UInt8.toNat_ofNat']; omega
    · apply UInt8.toNat_inj.mp; simp [UInt8.toNat_ofNat']; omega
  obtain ⟨r0, r1⟩ := key _ rfl
  rw [r0, r1]; rfl

theorem decodeLoop_nil_src (fuel : Nat) : decodeLoop fuel [] = some [] := by
  cases fuel <;> rfl

/-- number of '=' that completes `b64Encode bs` to a multiple of 4 characters (len % 3 ≠ 0) -/
def padOf (n : Nat) : Nat := if n % 3 == 1 then 2 else 1

/-- decoding the padded encoding gives the bytes back, for every length that is not a multiple of 3
    (bcrypt uses 16 → 22 chars + "==" and 23 → 31 chars + "=") -/
theorem decodeLoop_encode (bs : Bytes) (fuel : Nat) (hf : bs.length + 2 ≤ fuel) (hm : bs.length % 3 ≠ 0) :
    decodeLoop fuel (b64Encode bs ++ List.replicate (padOf bs.length) 61) = some bs := by
  fun_induction b64Encode bs generalizing fuel with
  | case1 a b c rest v ih =>
    obtain ⟨f, rfl⟩ : ∃ f, fuel = f + 1 := ⟨fuel - 1, by simp at hf; omega⟩
    simp only [List.cons_append, decodeLoop]
    rw [quantum_full a b c]
    simp only [List.length_cons] at hf hm ⊢
    have hp : padOf (rest.length + 1 + 1 + 1) = padOf rest.length := by
      have h2 : (rest.length + 1 + 1 + 1) % 3 = rest.length % 3 := by omega
      unfold padOf; rw [h2]
    have i1 : rest.length + 2 ≤ f := by omega
    have i2 : rest.length % 3 ≠ 0 := by omega
    rw [hp, ih f i1 i2]
    rfl
  | case2 a b v =>
    obtain ⟨f, rfl⟩ : ∃ f, fuel = f + 1 := ⟨fuel - 1, by simp at hf; omega⟩
    simp only [List.length_cons, List.length_nil, padOf, List.cons_append, List.nil_append, decodeLoop]
    have : List.replicate (if ((0 + 1 + 1) % 3 == 1) = true then 2 else 1) (61 : UInt8) = [61] := by decide
    rw [this, quantum_tail2 a b]
    simp [decodeLoop_nil_src]
  | case3 a v =>
    obtain ⟨f, rfl⟩ : ∃ f, fuel = f + 1 := ⟨fuel - 1, by simp at hf; omega⟩
    simp only [List.length_cons, List.length_nil, padOf, List.cons_append, List.nil_append, decodeLoop]
    have : List.replicate (if ((0 + 1) % 3 == 1) = true then 2 else 1) (61 : UInt8) = [61, 61] := by decide
    rw [this, quantum_tail1 a]
    simp [decodeLoop_nil_src]
  | case4 => simp at hm

theorem b64Encode_length (bs : Bytes) :
    (b64Encode bs).length = 4 * (bs.length / 3) + (if bs.length % 3 = 0 then 0 else bs.length % 3 + 1) := by
  fun_induction b64Encode bs with
  | case1 a b c rest v ih =>
    simp only [List.length_cons, ih]
    have h1 : (rest.length + 1 + 1 + 1) / 3 = rest.length / 3 + 1 := by omega
    have h2 : (rest.length + 1 + 1 + 1) % 3 = rest.length % 3 := by omega
    rw [h1, h2]; omega
  | case2 a b v => simp
  | case3 a v => simp
  | case4 => simp

/-- base64 round trip as bcrypt uses it: `base64Decode(base64Encode(x)) = x` for 16-byte salts,
    23-byte hashes, and every other length that is not a multiple of 3 -/
theorem b64_roundtrip (bs : Bytes) (hm : bs.length % 3 ≠ 0) : base64Decode (b64Encode bs) = some bs := by
  unfold base64Decode b64DecodeGo
  have hl := b64Encode_length bs
  have hp : 4 - (b64Encode bs).length % 4 = padOf bs.length := by
    rw [hl]; unfold padOf
    simp only [hm, if_false]
    have : bs.length % 3 = 1 ∨ bs.length % 3 = 2 := by omega
    rcases this with h | h <;> simp [h] <;> omega
  rw [hp]
  apply decodeLoop_encode bs _ _ hm
  simp only [List.length_append, List.length_replicate, hl, hm, if_false]
  omega

theorem b64_roundtrip_16 (bs : Bytes) (h : bs.length = 16) : base64Decode (b64Encode bs) = some bs :=
  b64_roundtrip bs (by rw [h]; decide)

theorem b64_roundtrip_23 (bs : Bytes) (h : bs.length = 23) : base64Decode (b64Encode bs) = some bs :=
  b64_roundtrip bs (by rw [h]; decide)


end XC.C17
