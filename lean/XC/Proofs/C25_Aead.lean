/-
  C25 — gcmCipher and chacha20Poly1305Cipher: one packet, reader after writer.
-/
import XC.Proofs.C25_Stream
namespace XC.C25
open XC.C24 (be32_u32be u32be_length)

/-- what the AEAD padding checks return on a well-formed cleartext `padlen ‖ payload ‖ padding` -/
theorem aeadUnpad_ok (payload padding : Bytes) (hn : 1 ≤ payload.length)
    (hp4 : 4 ≤ padding.length) (hp : padding.length < 256) :
    aeadUnpad ([UInt8.ofNat padding.length] ++ payload ++ padding) = .ok payload := by
  have h8 : (UInt8.ofNat padding.length).toNat = padding.length := ofNat_toNat_u8' _ hp
  have e : [UInt8.ofNat padding.length] ++ payload ++ padding = UInt8.ofNat padding.length :: (payload ++ padding) := by
    simp
  rw [e]
  simp only [aeadUnpad, h8]
  have h1 : ¬ padding.length < 4 := by omega
  have h2 : ¬ padding.length + 1 ≥ (UInt8.ofNat padding.length :: (payload ++ padding)).length := by
    simp; omega
  simp only [h1, h2, if_false]
  have : (UInt8.ofNat padding.length :: (payload ++ padding)).length - padding.length = 1 + payload.length := by
    simp; omega
  rw [this]
  have : UInt8.ofNat padding.length :: (payload ++ padding) = ([UInt8.ofNat padding.length] ++ payload) ++ padding := by
    simp
  rw [this, List.take_left' (by simp; omega)]
  simp

/-! ## GCM -/

/-- hypotheses on the abstract AEAD: Open inverts Seal, and Seal appends a 16-byte tag -/
def AeadCfg.OK (c : AeadCfg) : Prop :=
  ∀ iv aad pt, c.openF iv aad (c.sealF iv aad pt) = some pt ∧ (c.sealF iv aad pt).length = pt.length + 16

/-- RFC 5647 §7: the writer in one line: `len ‖ AEAD-Seal(iv, aad = len, padlen ‖ payload ‖ padding)`, then the
    invocation counter of the IV is incremented -/
theorem gcmWrite_eq_spec (c : AeadCfg) (st : St) (payload rnd : Bytes)
    (hrnd : gcmPadLen payload.length ≤ rnd.length) :
    gcmWrite c st payload rnd =
      let padding := rnd.take (gcmPadLen payload.length)
      let len := u32be (UInt32.ofNat (payload.length + padding.length + 1))
      .ok (len ++ c.sealF st.iv len ([UInt8.ofNat padding.length] ++ payload ++ padding),
           ⟨st.pos, incIV st.iv⟩, rnd.drop (gcmPadLen payload.length)) := by
  have h2 : ¬ rnd.length < gcmPadLen payload.length := by omega
  have hpl : (rnd.take (gcmPadLen payload.length)).length = gcmPadLen payload.length := by simp; omega
  simp only [gcmWrite, h2, if_false, hpl]

theorem gcmRead_write (c : AeadCfg) (hc : c.OK) (st : St) (payload rnd tl : Bytes)
    (wire : Bytes) (st' : St) (rnd' : Bytes)
    (hn : 1 ≤ payload.length) (hfit : payload.length + gcmPadLen payload.length + 1 ≤ maxPacket)
    (hw : gcmWrite c st payload rnd = .ok (wire, st', rnd')) :
    gcmRead c st (wire ++ tl) = ⟨.ok payload, tl, st'⟩ := by
  have hpad := gcmPadLen_spec payload.length
  have hmaxP : maxPacket = 262144 := rfl
  by_cases hr : rnd.length < gcmPadLen payload.length
  · simp [gcmWrite, hr] at hw
  rw [gcmWrite_eq_spec c st payload rnd (by omega)] at hw
  simp only [Except.ok.injEq, Prod.mk.injEq] at hw
  obtain ⟨hwire, hst, _⟩ := hw
  obtain ⟨padding, hpd, hpl⟩ : ∃ padding, rnd.take (gcmPadLen payload.length) = padding ∧
      padding.length = gcmPadLen payload.length := ⟨_, rfl, by simp; omega⟩
  rw [hpd] at hwire
  obtain ⟨pfx, hL, hL4⟩ : ∃ lb, u32be (UInt32.ofNat (payload.length + padding.length + 1)) = lb ∧ lb.length = 4 :=
    ⟨_, rfl, u32be_length _⟩
  have hlen32 : (UInt32.ofNat (payload.length + padding.length + 1)).toNat = payload.length + padding.length + 1 :=
    ofNat_toNat_u32' _ (by omega)
  have hbe : (be32 pfx).toNat = payload.length + padding.length + 1 := by
    have := be32_u32be (UInt32.ofNat (payload.length + padding.length + 1)) []
    rw [List.append_nil, hL] at this
    rw [this, hlen32]
  rw [hL] at hwire
  obtain ⟨hopen, hslen⟩ := hc st.iv pfx ([UInt8.ofNat padding.length] ++ payload ++ padding)
  obtain ⟨S, hS⟩ : ∃ s, c.sealF st.iv pfx ([UInt8.ofNat padding.length] ++ payload ++ padding) = s := ⟨_, rfl⟩
  rw [hS] at hwire hopen hslen
  have hSl : S.length = payload.length + padding.length + 1 + 16 := by
    rw [hslen]; simp
  subst hwire
  unfold gcmRead
  have h4 : ¬ (pfx ++ S ++ tl).length < 4 := by simp; omega
  have htk : (pfx ++ S ++ tl).take 4 = pfx := by rw [List.append_assoc]; exact List.take_left' hL4
  have hdr : (pfx ++ S ++ tl).drop 4 = S ++ tl := by rw [List.append_assoc]; exact List.drop_left' hL4
  have hc1 : ¬ payload.length + padding.length + 1 > maxPacket := by omega
  have hc2 : ¬ (S ++ tl).length < payload.length + padding.length + 1 + 16 := by simp; omega
  have hbuf : (S ++ tl).take (payload.length + padding.length + 1 + 16) = S := List.take_left' hSl
  have hr2 : (S ++ tl).drop (payload.length + padding.length + 1 + 16) = tl := List.drop_left' hSl
  simp only [h4, if_false, htk, hdr, hbe, hc1, hc2, hbuf, hr2, hopen]
  rw [aeadUnpad_ok payload padding hn (by omega) (by omega), hst]

/-! ## chacha20-poly1305@openssh.com -/

/-- hypotheses on the abstract primitives: the keystream function returns as many bytes as asked for,
    Poly1305 tags are 16 bytes -/
def ChaCfg.OK (c : ChaCfg) : Prop :=
  (∀ k n ctr len, (c.ks k n ctr len).length = len) ∧ (∀ k m, (c.poly k m).length = 16)

/-- openssh PROTOCOL.chacha20poly1305: the writer in one line:
    `enc_K1(len) ‖ enc_K2,ctr=1(padlen ‖ payload ‖ padding) ‖ Poly1305_{K2 block 0}(all of the preceding)`,
    nonce = the sequence number -/
theorem chaWrite_eq_spec (c : ChaCfg) (st : St) (seq : UInt32) (payload rnd : Bytes)
    (hrnd : chaPadLen payload.length ≤ rnd.length) :
    chaWrite c st seq payload rnd =
      let padding := rnd.take (chaPadLen payload.length)
      let body := [UInt8.ofNat padding.length] ++ payload ++ padding
      let nonce := zeros 8 ++ u32be seq
      let encLen := xorBytes (u32be (UInt32.ofNat body.length)) (c.ks c.lengthKey nonce 0 4)
      let encBody := xorBytes body (c.ks c.contentKey nonce 1 body.length)
      .ok (encLen ++ encBody ++ c.poly (c.ks c.contentKey nonce 0 32) (encLen ++ encBody), st,
           rnd.drop (chaPadLen payload.length)) := by
  have h2 : ¬ rnd.length < chaPadLen payload.length := by omega
  have hpl : (rnd.take (chaPadLen payload.length)).length = chaPadLen payload.length := by simp; omega
  have hbl : ([UInt8.ofNat (chaPadLen payload.length)] ++ payload ++ rnd.take (chaPadLen payload.length)).length =
      1 + payload.length + chaPadLen payload.length := by simp; omega
  simp only [chaWrite, h2, if_false, hpl, chaNonce, hbl]

theorem chaRead_write (c : ChaCfg) (hc : c.OK) (st : St) (seq : UInt32) (payload rnd tl : Bytes)
    (wire : Bytes) (st' : St) (rnd' : Bytes)
    (hn : 1 ≤ payload.length) (hfit : 1 + payload.length + chaPadLen payload.length ≤ maxPacket)
    (hw : chaWrite c st seq payload rnd = .ok (wire, st', rnd')) :
    chaRead c st seq (wire ++ tl) = ⟨.ok payload, tl, st'⟩ := by
  have hpad := chaPadLen_spec payload.length
  have hmaxP : maxPacket = 262144 := rfl
  unfold chaWrite at hw
  by_cases hr : rnd.length < chaPadLen payload.length
  · simp [hr] at hw
  simp only [hr, if_false, Except.ok.injEq, Prod.mk.injEq] at hw
  obtain ⟨hwire, hst, _⟩ := hw
  obtain ⟨padding, hpd, hpl⟩ : ∃ padding, rnd.take (chaPadLen payload.length) = padding ∧
      padding.length = chaPadLen payload.length := ⟨_, rfl, by simp; omega⟩
  rw [hpd] at hwire
  rw [← hpl] at hwire hpad hfit
  obtain ⟨body, hB, hBl⟩ : ∃ b, [UInt8.ofNat padding.length] ++ payload ++ padding = b ∧
      b.length = 1 + payload.length + padding.length := ⟨_, rfl, by simp; omega⟩
  rw [hB] at hwire
  obtain ⟨K4, hK4, hK4l⟩ : ∃ k, c.ks c.lengthKey (chaNonce seq) 0 4 = k ∧ k.length = 4 := ⟨_, rfl, hc.1 _ _ _ _⟩
  rw [hK4] at hwire
  have hlen32 : (UInt32.ofNat (1 + payload.length + padding.length)).toNat = 1 + payload.length + padding.length :=
    ofNat_toNat_u32' _ (by omega)
  obtain ⟨lb, hL, hL4⟩ : ∃ lb, u32be (UInt32.ofNat (1 + payload.length + padding.length)) = lb ∧ lb.length = 4 :=
    ⟨_, rfl, u32be_length _⟩
  have hbe : (be32 lb).toNat = 1 + payload.length + padding.length := by
    have := be32_u32be (UInt32.ofNat (1 + payload.length + padding.length)) []
    rw [List.append_nil, hL] at this
    rw [this, hlen32]
  rw [hL] at hwire
  obtain ⟨EL, hEL, hELl⟩ : ∃ e, xorBytes lb K4 = e ∧ e.length = 4 :=
    ⟨_, rfl, by rw [xorBytes_length' _ _ (by omega)]; exact hL4⟩
  rw [hEL] at hwire
  obtain ⟨KB, hKB, hKBl⟩ : ∃ k, c.ks c.contentKey (chaNonce seq) 1 body.length = k ∧ k.length = body.length :=
    ⟨_, rfl, hc.1 _ _ _ _⟩
  rw [hKB] at hwire
  obtain ⟨EB, hEB, hEBl⟩ : ∃ e, xorBytes body KB = e ∧ e.length = body.length :=
    ⟨_, rfl, xorBytes_length' _ _ (by omega)⟩
  rw [hEB] at hwire
  obtain ⟨tag, hT, hTl⟩ : ∃ t, c.poly (c.ks c.contentKey (chaNonce seq) 0 32) (EL ++ EB) = t ∧ t.length = 16 :=
    ⟨_, rfl, hc.2 _ _⟩
  rw [hT] at hwire
  subst hwire
  unfold chaRead
  have h4 : ¬ (EL ++ EB ++ tag ++ tl).length < 4 := by simp; omega
  have htk : (EL ++ EB ++ tag ++ tl).take 4 = EL := by
    simp only [List.append_assoc]; exact List.take_left' hELl
  have hdr : (EL ++ EB ++ tag ++ tl).drop 4 = EB ++ tag ++ tl := by
    simp only [List.append_assoc]; exact List.drop_left' hELl
  have hdl : xorBytes EL K4 = lb := by rw [← hEL]; exact xorBytes_involutive lb K4 (by omega)
  have hc1 : ¬ 1 + payload.length + padding.length > maxPacket := by omega
  have hc2 : ¬ (EB ++ tag ++ tl).length < 1 + payload.length + padding.length + 16 := by simp; omega
  have hbody : (EB ++ tag ++ tl).take (1 + payload.length + padding.length) = EB := by
    rw [List.append_assoc]; exact List.take_left' (by omega)
  have htag : ((EB ++ tag ++ tl).drop (1 + payload.length + padding.length)).take 16 = tag := by
    have : (EB ++ tag ++ tl).drop (1 + payload.length + padding.length) = tag ++ tl := by
      rw [List.append_assoc]; exact List.drop_left' (by omega)
    rw [this]; exact List.take_left' hTl
  have hr2 : (EB ++ tag ++ tl).drop (1 + payload.length + padding.length + 16) = tl :=
    List.drop_left' (by simp; omega)
  have hKB' : c.ks c.contentKey (chaNonce seq) 1 (1 + payload.length + padding.length) = KB := by
    rw [← hBl]; exact hKB
  have hplain : xorBytes EB KB = body := by rw [← hEB]; exact xorBytes_involutive body KB (by omega)
  have hmac : (c.poly (c.ks c.contentKey (chaNonce seq) 0 32) (EL ++ EB) == tag) = true := by rw [hT]; simp
  simp only [h4, if_false, htk, hdr, hK4, hdl, hbe, hc1, hc2, hbody, htag, hr2, hmac, Bool.not_true,
    Bool.false_eq_true, hKB', hplain]
  rw [← hB, aeadUnpad_ok payload padding hn (by omega) (by omega), hst]

end XC.C25
