/-
  C01/C02 — helper lemmas: ChaCha20 keystream lengths, xor involution, the AEAD's Poly1305 call sequence
  (`writeWithPadding`/`writeUint64`) flattened to RFC 8439's `macData`, and `sealGeneric`/`openGeneric`
  reduced to the spec through C04's history refinement (`run_refines`).
-/
import XC.Model.C01
import XC.Props.C04
namespace XC.C01
open XC.C04 (Call Out)

/-! ## lengths of the ChaCha20 keystream -/

theorem blockW_length (k : C03.KeyW) (c : UInt32) (n : C03.NonceW) : (C03.blockW k c n).length = 64 := by
  simp [C03.blockW, C03.St.serialize, C03.w2b]

theorem blocksW_length (k : C03.KeyW) (n : C03.NonceW) (c : UInt32) (m : Nat) :
    (C03.blocksW k n c m).length = 64 * m := by
  induction m generalizing c with
  | zero => rfl
  | succ m ih => simp [C03.blocksW, blockW_length, ih]; omega

theorem keystream_length (key nonce : Bytes) (c : UInt32) (n : Nat) :
    (C03.keystream key nonce c n).length = n := by
  simp [C03.keystream, blocksW_length]; omega

theorem xorStream_length (key nonce : Bytes) (c : UInt32) (src : Bytes) :
    (C03.xorStream key nonce c src).length = src.length := by
  simp [C03.xorStream, xorBytes_length, keystream_length]

theorem xor_zeros (ks : Bytes) : xorBytes (zeros ks.length) ks = ks := by
  induction ks with
  | nil => rfl
  | cons a t ih =>
    simp only [zeros, List.length_cons, List.replicate_succ, xorBytes, List.zipWith_cons_cons] at *
    rw [ih]; simp

theorem xor_xor (a ks : Bytes) (h : a.length ≤ ks.length) : xorBytes (xorBytes a ks) ks = a := by
  induction a generalizing ks with
  | nil => simp [xorBytes]
  | cons x a ih =>
    cases ks with
    | nil => simp at h
    | cons y ks =>
      simp only [xorBytes, List.zipWith_cons_cons] at *
      rw [ih ks (by simpa using h)]
      congr 1
      rw [UInt8.xor_assoc, UInt8.xor_self, UInt8.xor_zero]

theorem xorStream_involutive (key nonce : Bytes) (c : UInt32) (pt : Bytes) :
    C03.xorStream key nonce c (C03.xorStream key nonce c pt) = pt := by
  simp only [C03.xorStream, xorBytes_length, keystream_length, Nat.min_self]
  exact xor_xor pt _ (by simp [keystream_length])

/-- the Go code's way of getting the one-time key (encrypt 32 zero bytes from block 0) is RFC 8439 §2.6 -/
theorem polyKeyGo_eq (key nonce : Bytes) : polyKeyGo key nonce = polyKey key nonce := by
  have h1 : C03.keystream key nonce 0 32 = (C03.block key 0 nonce).take 32 := by
    simp [C03.keystream, C03.blocksW, C03.block]
  have h2 : ((C03.block key 0 nonce).take 32).length = 32 := by
    simp [C03.block, blockW_length]
  simp only [polyKeyGo, polyKey, C03.xorStream]
  have : (zeros 32).length = 32 := by simp [zeros]
  rw [this, h1]
  have := xor_zeros ((C03.block key 0 nonce).take 32)
  rw [h2] at this
  exact this

theorem polyKey_length (key nonce : Bytes) : (polyKey key nonce).length = 32 := by
  simp [polyKey, C03.block, blockW_length]

/-! ## the Poly1305 call sequence of the AEAD -/

/-- the byte chunks written by `writeWithPadding` -/
def padChunks (b : Bytes) : List Bytes :=
  if b.length % 16 != 0 then [b, zeros (16 - b.length % 16)] else [b]

def macChunks (ad ct : Bytes) : List Bytes :=
  padChunks ad ++ padChunks ct ++ [u64le (UInt64.ofNat ad.length)] ++ [u64le (UInt64.ofNat ct.length)]

theorem macCalls_eq (ad ct : Bytes) : macCalls ad ct = (macChunks ad ct).map Call.write := by
  simp only [macCalls, macChunks, writeWithPadding, padChunks, writeUint64, List.map_append]
  split <;> split <;> simp

theorem padChunks_flatten (b : Bytes) : (padChunks b).flatten = pad16 b := by
  simp only [padChunks, pad16]
  split
  · rename_i h
    have h' : b.length % 16 ≠ 0 := by simpa using h
    have : (16 - b.length % 16) % 16 = 16 - b.length % 16 := by omega
    simp [this]
  · rename_i h
    have h' : b.length % 16 = 0 := by simpa using h
    simp [h', zeros]

theorem u64le_ofNat (n : Nat) (h : n < 2 ^ 64) : u64le (UInt64.ofNat n) = natToLE 8 n := by
  simp only [u64le, UInt64.toNat_ofNat']
  rw [Nat.mod_eq_of_lt h]

theorem macChunks_flatten (ad ct : Bytes) (ha : ad.length < 2 ^ 64) (hc : ct.length < 2 ^ 64) :
    (macChunks ad ct).flatten = macData ad ct := by
  simp only [macChunks, macData, List.flatten_append, padChunks_flatten, u64le_ofNat _ ha, u64le_ofNat _ hc]
  simp

theorem specRun_writes (k : Bytes) (ws : List Bytes) (rest : List Call) (M : Bytes) :
    C04.specRun k (M, false) (ws.map Call.write ++ rest)
      = ws.map (fun q => Out.wrote q.length) ++ C04.specRun k (M ++ ws.flatten, false) rest := by
  induction ws generalizing M with
  | nil => simp
  | cons q ws ih =>
    simp only [List.map_cons, List.cons_append, C04.specRun, C04.specStep, Bool.false_eq_true, if_false]
    rw [ih]
    simp [List.append_assoc]

/-- the MAC object, driven by the AEAD's Write calls and a final Sum, returns the spec tag of `macData` -/
theorem mac_sum (k ad ct : Bytes) (hk : k.length = 32) (ha : ad.length < 2 ^ 64) (hc : ct.length < 2 ^ 64) :
    ((C04.new k).run (macCalls ad ct ++ [.sum []])).getLast? = some (.tag (C04.tagSpec k (macData ad ct))) := by
  rw [C04.run_refines k hk, macCalls_eq, specRun_writes]
  simp [C04.specRun, C04.specStep, macChunks_flatten ad ct ha hc]

theorem mac_verify (k ad ct tag : Bytes) (hk : k.length = 32) (ha : ad.length < 2 ^ 64) (hc : ct.length < 2 ^ 64) :
    ((C04.new k).run (macCalls ad ct ++ [.verify tag])).getLast?
      = some (.ok (decide (tag = C04.tagSpec k (macData ad ct)))) := by
  rw [C04.run_refines k hk, macCalls_eq, specRun_writes]
  simp [C04.specRun, C04.specStep, macChunks_flatten ad ct ha hc]

/-! ## sealGeneric / openGeneric against RFC 8439 §2.8 -/

theorem sealGeneric_eq_spec (key nonce dst pt ad : Bytes) (ha : ad.length < 2 ^ 64) (hp : pt.length < 2 ^ 64) :
    sealGeneric key nonce dst pt ad = some (dst ++ sealSpec key nonce pt ad) := by
  simp only [sealGeneric, sealSpec]
  rw [polyKeyGo_eq, mac_sum _ ad _ (polyKey_length key nonce) ha (by rw [xorStream_length]; exact hp)]
  simp [List.append_assoc]

/-- decision structure of `openGeneric`: accept iff the presented tag equals the recomputed one -/
theorem openGeneric_eq (key nonce dst c ad : Bytes) (ha : ad.length < 2 ^ 64) (hc : c.length < 2 ^ 64) :
    openGeneric key nonce dst c ad =
      let ct := c.take (c.length - 16)
      if c.drop (c.length - 16) = C04.tagSpec (polyKey key nonce) (macData ad ct)
      then .ok (dst ++ C03.xorStream key nonce 1 ct) else .err (zeros ct.length) := by
  simp only [openGeneric]
  rw [polyKeyGo_eq, mac_verify _ ad _ _ (polyKey_length key nonce) ha (by simp; omega)]
  split <;> simp_all

end XC.C01
