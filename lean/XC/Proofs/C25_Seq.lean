/-
  C25 — packet sequences: induction over the payload list with (cipher state, sequence number) as invariant.
-/
import XC.Proofs.C25_Cbc
namespace XC.C25

/-- hypotheses on the abstract primitives of a mode -/
def Mode.OK : Mode → Prop
  | .stream c => c.OK
  | .gcm c => c.OK
  | .cbc c => c.OK
  | .chacha c => c.OK

/-- state invariant: the CBC chaining value is one block -/
def Mode.StOK : Mode → St → Prop
  | .cbc c, st => st.iv.length = c.bs
  | _, _ => True

/-- the payload is non-empty and the `packet_length` it leads to does not exceed maxPacket
    (the readers refuse a larger `packet_length`, the writers do not look at it) -/
def Mode.fits : Mode → Bytes → Prop
  | .stream c, p => 1 ≤ p.length ∧ p.length + 1 + streamPadLen p.length (if c.etmOn then 4 else 0) ≤ maxPacket
  | .gcm _, p => 1 ≤ p.length ∧ p.length + gcmPadLen p.length + 1 ≤ maxPacket
  | .cbc c, p => 1 ≤ p.length ∧ cbcEncLen c.bs p.length - 4 ≤ maxPacket
  | .chacha _, p => 1 ≤ p.length ∧ 1 + p.length + chaPadLen p.length ≤ maxPacket

/-- every payload of 1 … maxPacket − 32 bytes fits, in every mode -/
theorem fits_of_le (m : Mode) (hm : m.OK) (p : Bytes) (h1 : 1 ≤ p.length) (h2 : p.length + 32 ≤ maxPacket) :
    m.fits p := by
  cases m with
  | stream c =>
    have := streamPadLen_spec p.length (if c.etmOn then 4 else 0) (by split <;> omega)
    exact ⟨h1, by omega⟩
  | gcm c =>
    have := gcmPadLen_spec p.length
    exact ⟨h1, by omega⟩
  | cbc c =>
    have := cbcEncLen_spec c.bs p.length hm.bs
    simp only at this
    refine ⟨h1, ?_⟩
    rcases hm.bs with h | h <;> rw [h] at this ⊢ <;> simp only [Nat.max_self, show max 8 16 = 16 from rfl] at this <;> omega
  | chacha c =>
    have := chaPadLen_spec p.length
    exact ⟨h1, by omega⟩

/-- one packet, any mode -/
theorem read_write_one (m : Mode) (hm : m.OK) (st : St) (hst : m.StOK st) (seq : UInt32)
    (p rnd tl wire : Bytes) (st' : St) (rnd' : Bytes) (hf : m.fits p)
    (hw : m.write st seq p rnd = .ok (wire, st', rnd')) :
    m.read st seq (wire ++ tl) = ⟨.ok p, tl, st'⟩ ∧ m.StOK st' := by
  cases m with
  | stream c => exact ⟨streamRead_write c hm st seq p rnd tl wire st' rnd' hf.1 hf.2 hw, trivial⟩
  | gcm c => exact ⟨gcmRead_write c hm st p rnd tl wire st' rnd' hf.1 hf.2 hw, trivial⟩
  | cbc c => exact cbcRead_write c hm st hst seq p rnd tl wire st' rnd' hf.1 hf.2 hw
  | chacha c => exact ⟨chaRead_write c hm st seq p rnd tl wire st' rnd' hf.1 hf.2 hw, trivial⟩

/-- any packet sequence: a reader that starts in the writer's initial state (keys, IV, sequence number)
    returns exactly the written payloads in order, consumes exactly one wire packet per read, and ends
    in the writer's final state (cipher state and sequence number) -/
theorem read_write_all (m : Mode) (hm : m.OK) :
    ∀ (ps : List Bytes) (c : Conn) (rnd tl : Bytes) (wires : List Bytes) (cw : Conn),
      m.StOK c.st → (∀ p ∈ ps, m.fits p) → writeAll m c rnd ps = (wires.map .ok, cw) →
      readAll m ps.length c (wires.flatten ++ tl) =
        ((ps.zip wires).map (fun pw => (.ok pw.1, pw.2.length)), cw) := by
  intro ps
  induction ps with
  | nil =>
    intro c rnd tl wires cw _ _ hw
    simp only [writeAll, Prod.mk.injEq] at hw
    obtain ⟨h1, h2⟩ := hw
    subst h2
    simp [readAll]
  | cons p ps ih =>
    intro c rnd tl wires cw hst hfit hw
    simp only [writeAll, connWrite] at hw
    cases hmw : m.write c.st c.seq p rnd with
    | error e =>
      simp only [hmw, Prod.mk.injEq] at hw
      cases wires with
      | nil => simp at hw
      | cons w ws => simp at hw
    | ok r =>
      obtain ⟨wire, st', rnd'⟩ := r
      simp only [hmw] at hw
      cases hrec : writeAll m ⟨st', c.seq + 1⟩ rnd' ps with
      | mk ws cf =>
        simp only [hrec, Prod.mk.injEq] at hw
        obtain ⟨hws, hcf⟩ := hw
        subst hcf
        cases wires with
        | nil => simp at hws
        | cons w wires' =>
          simp only [List.map_cons, List.cons.injEq, Except.ok.injEq] at hws
          obtain ⟨hw1, hws'⟩ := hws
          subst hw1
          obtain ⟨hr, hst'⟩ := read_write_one m hm c.st hst c.seq p rnd (wires'.flatten ++ tl) wire st' rnd'
            (hfit p (by simp)) hmw
          have hih := ih ⟨st', c.seq + 1⟩ rnd' tl wires' cf hst'
            (fun q hq => hfit q (List.mem_cons_of_mem _ hq)) (by rw [hrec, hws'])
          simp only [List.length_cons, readAll, connRead, List.flatten_cons, List.append_assoc, hr, hih,
            List.zip_cons_cons, List.map_cons, Prod.mk.injEq, List.cons.injEq, and_true, true_and]
          simp

/-- connectionState.seqNum after writing k packets = (s0 + k) mod 2^32 -/
theorem writeAll_seq (m : Mode) :
    ∀ (ps : List Bytes) (c : Conn) (rnd : Bytes) (wires : List Bytes) (cw : Conn),
      writeAll m c rnd ps = (wires.map .ok, cw) → cw.seq = c.seq + UInt32.ofNat ps.length := by
  intro ps
  induction ps with
  | nil =>
    intro c rnd wires cw hw
    simp only [writeAll, Prod.mk.injEq] at hw
    rw [← hw.2]; simp
  | cons p ps ih =>
    intro c rnd wires cw hw
    simp only [writeAll, connWrite] at hw
    cases hmw : m.write c.st c.seq p rnd with
    | error e =>
      simp only [hmw, Prod.mk.injEq] at hw
      cases wires with
      | nil => simp at hw
      | cons w ws => simp at hw
    | ok r =>
      obtain ⟨wire, st', rnd'⟩ := r
      simp only [hmw] at hw
      cases hrec : writeAll m ⟨st', c.seq + 1⟩ rnd' ps with
      | mk ws cf =>
        simp only [hrec, Prod.mk.injEq] at hw
        obtain ⟨hws, hcf⟩ := hw
        subst hcf
        cases wires with
        | nil => simp at hws
        | cons w wires' =>
          simp only [List.map_cons, List.cons.injEq] at hws
          have := ih ⟨st', c.seq + 1⟩ rnd' wires' cf (by rw [hrec, hws.2])
          rw [this]
          simp only [List.length_cons]
          rw [UInt32.ofNat_add]
          simp [UInt32.add_assoc, UInt32.add_comm]

/-- the reader's sequence number advances once per readPacket call, whatever the outcome -/
theorem readAll_seq (m : Mode) :
    ∀ (n : Nat) (c : Conn) (inp : Bytes),
      (readAll m n c inp).2.seq = c.seq + UInt32.ofNat (readAll m n c inp).1.length := by
  intro n
  induction n with
  | zero => intro c inp; simp [readAll]
  | succ n ih =>
    intro c inp
    simp only [readAll, connRead]
    cases hres : (m.read c.st c.seq inp).res with
    | error e => simp
    | ok p =>
      simp only
      have := ih ⟨(m.read c.st c.seq inp).st, c.seq + 1⟩ (m.read c.st c.seq inp).rest
      cases hrec : readAll m n ⟨(m.read c.st c.seq inp).st, c.seq + 1⟩ (m.read c.st c.seq inp).rest with
      | mk rs cf =>
        rw [hrec] at this
        simp only at this ⊢
        rw [this]
        simp only [List.length_cons]
        rw [UInt32.ofNat_add]
        simp [UInt32.add_assoc, UInt32.add_comm]

theorem u32_add_ofNat_toNat (s : UInt32) (k : Nat) : (s + UInt32.ofNat k).toNat = (s.toNat + k) % 4294967296 := by
  rw [UInt32.toNat_add, UInt32.toNat_ofNat']
  simp [Nat.add_mod]

/-! ## incIV, nonce -/

theorem natOfBE_reverse (bs : Bytes) : natOfBE bs = natOfLE bs.reverse := rfl

/-- gcmCipher.incIV is +1 mod 2^64 on the big-endian invocation counter in bytes 4..11; the fixed field
    (bytes 0..3) and anything after byte 11 are untouched; the length is preserved -/
theorem incIV_eq (iv : Bytes) (h : iv.length = 12) :
    (incIV iv).take 4 = iv.take 4 ∧
    natOfBE (((incIV iv).drop 4).take 8) = (natOfBE ((iv.drop 4).take 8) + 1) % 2 ^ 64 ∧
    (incIV iv).length = 12 := by
  obtain ⟨mid, hmid, hml⟩ : ∃ x, (iv.drop 4).take 8 = x ∧ x.length = 8 := ⟨_, rfl, by simp; omega⟩
  have hd12 : iv.drop 12 = [] := List.drop_eq_nil_of_le (by omega)
  simp only [incIV, hmid, hd12, List.append_nil]
  have h4 : (iv.take 4).length = 4 := by simp; omega
  have hil : (incLE mid.reverse).reverse.length = 8 := by simp [incLE_length, hml]
  refine ⟨List.take_left' h4, ?_, by simp [h4, hil]⟩
  rw [List.drop_left' h4, List.take_of_length_le (by omega)]
  rw [natOfBE_reverse, List.reverse_reverse, natOfLE_incLE, natOfBE_reverse]
  simp [hml]

theorem natToLE_add (a b v : Nat) : natToLE (a + b) v = natToLE a v ++ natToLE b (v / 256 ^ a) := by
  induction a generalizing v with
  | zero => simp [natToLE]
  | succ a ih =>
    have : a + 1 + b = (a + b) + 1 := by omega
    rw [this]
    simp only [natToLE, List.cons_append, ih]
    rw [Nat.div_div_eq_div_mul, Nat.pow_succ, Nat.mul_comm]

/-- openssh PROTOCOL.chacha20poly1305: the nonce is the packet sequence number as a big-endian uint64
    (in the 12-byte IETF layout: behind the 4 zero bytes of the upper counter word) -/
theorem chaNonce_eq (seq : UInt32) : chaNonce seq = zeros 4 ++ u64be seq.toUInt64 := by
  have hv : seq.toUInt64.toNat = seq.toNat := by simp
  have hlt : seq.toNat < 4294967296 := seq.toNat_lt
  simp only [chaNonce, u64be, u32be, natToBE, hv]
  have h := natToLE_add 4 4 seq.toNat
  rw [show (4 + 4 = 8) from rfl] at h
  rw [h, Nat.div_eq_of_lt (by simpa using hlt)]
  simp [natToLE, zeros]

end XC.C25
