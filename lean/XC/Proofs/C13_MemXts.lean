/-
  C13 — XTS on one arena: the Go-shaped block loop equals the functional loop written to dst.
-/
import XC.Model.C13
import XC.Proofs.C13
import XC.Proofs.C13_Mem
namespace XC.C13
open Mem

theorem rd_wr_same (mem : Bytes) (p : Nat) (A : Bytes) (h : p + A.length ≤ mem.length) :
    rd (wr mem p A) p A.length = A := by
  unfold rd wr
  have h1 : (mem.take p).length = p := by simp; omega
  rw [List.append_assoc, List.drop_append_of_le_length (by omega), List.drop_of_length_le (by omega)]
  simp

theorem wr_wr_same (mem : Bytes) (p : Nat) (A B : Bytes) (h : p + A.length ≤ mem.length) (hl : A.length = B.length) :
    wr (wr mem p A) p B = wr mem p B := by
  unfold wr
  have h1 : (mem.take p).length = p := by simp; omega
  have t : (mem.take p ++ A ++ mem.drop (p + A.length)).take p = mem.take p := by
    rw [List.append_assoc, List.take_append_of_le_length (by omega), List.take_of_length_le (by omega)]
  have d : (mem.take p ++ A ++ mem.drop (p + A.length)).drop (p + B.length) = mem.drop (p + B.length) := by
    rw [← hl]
    have : p + A.length = (mem.take p ++ A).length := by simp; omega
    rw [this, List.drop_left']
    rfl
  rw [t, d]

/-- the loop body on the arena = "read the source block, compute, write the destination block",
    whenever the destination block does not start inside the source block after its first byte -/
theorem blockStep_eq (f : Bytes → Bytes) (hf : ∀ x, x.length = 16 → (f x).length = 16) (tw mem : Bytes) (d s : Nat)
    (ht : tw.length = 16) (hd : d + 16 ≤ mem.length) (hs : s + 16 ≤ mem.length) (hov : d ≤ s ∨ s + 16 ≤ d) :
    blockStep f tw mem d s = wr mem d (xorBytes (f (xorBytes (rd mem s 16) tw)) tw) := by
  unfold blockStep
  have tk : tw.take 16 = tw := List.take_of_length_le (by omega)
  have hr : (rd mem s 16).length = 16 := rd_length _ _ _ hs
  have hx : (xorBytes (rd mem s 16) tw).length = 16 := by simp [xorBytes_length, hr, ht]
  have hfx := hf _ hx
  simp only
  rw [xorLoop_eq tw mem d s 16 (by omega) hd hs hov, tk]
  have e1 : rd (wr mem d (xorBytes (rd mem s 16) tw)) d 16 = xorBytes (rd mem s 16) tw := by
    have := rd_wr_same mem d (xorBytes (rd mem s 16) tw) (by rw [hx]; exact hd)
    rw [hx] at this; exact this
  rw [e1, wr_wr_same mem d _ _ (by rw [hx]; exact hd) (by rw [hx, hfx])]
  have hl2 : (wr mem d (f (xorBytes (rd mem s 16) tw))).length = mem.length := wr_length _ _ _ (by rw [hfx]; exact hd)
  rw [xorLoop_eq tw _ d d 16 (by omega) (by rw [hl2]; exact hd) (by rw [hl2]; exact hd) (Or.inl (Nat.le_refl _)), tk]
  have e2 : rd (wr mem d (f (xorBytes (rd mem s 16) tw))) d 16 = f (xorBytes (rd mem s 16) tw) := by
    have := rd_wr_same mem d (f (xorBytes (rd mem s 16) tw)) (by rw [hfx]; exact hd)
    rw [hfx] at this; exact this
  rw [e2, wr_wr_same mem d _ _ (by rw [hfx]; exact hd) (by simp [xorBytes_length, hfx, ht])]

/-- tweak of the block at relative offset `o` -/
def twAt (tw0 : Bytes) (o : Nat) : Bytes := Nat.rec tw0 (fun _ t => mul2 t) (o / 16)

theorem twAt_len (tw0 : Bytes) (h : tw0.length = 16) (o : Nat) : (twAt tw0 o).length = 16 := by
  unfold twAt
  generalize o / 16 = j
  induction j with
  | zero => exact h
  | succ j ih => simp only; rw [mul2_length]; exact ih

theorem twAt_succ (tw0 : Bytes) (o : Nat) : twAt tw0 (o + 16) = mul2 (twAt tw0 o) := by
  unfold twAt
  have : (o + 16) / 16 = o / 16 + 1 := by omega
  rw [this]

/-- the per-block function of the chunk loop (identity on anything that is not a 16-byte block, so that
    it preserves lengths unconditionally) -/
def gX (f : Bytes → Bytes) (tw0 : Bytes) (o : Nat) (b : Bytes) : Bytes :=
  if b.length = 16 then xorBytes (f (xorBytes b (twAt tw0 o))) (twAt tw0 o) else b

theorem gX_length (f : Bytes → Bytes) (hf : ∀ x, x.length = 16 → (f x).length = 16) (tw0 : Bytes) (h0 : tw0.length = 16)
    (o : Nat) (b : Bytes) : (gX f tw0 o b).length = b.length := by
  unfold gX
  split
  · rename_i hb
    have ht := twAt_len tw0 h0 o
    have hx : (xorBytes b (twAt tw0 o)).length = 16 := by simp [xorBytes_length, hb, ht]
    simp [xorBytes_length, hf _ hx, ht, hb]
  · rfl

theorem sum_replicate16 (k : Nat) : sum (List.replicate k 16) = 16 * k := by
  induction k with
  | zero => rfl
  | succ k ih => simp [List.replicate_succ, sum, ih]; omega

/-- the Go-shaped block loop is the generic left-to-right chunk loop with 16-byte chunks -/
theorem memLoop_eq_chunkLoop (f : Bytes → Bytes) (hf : ∀ x, x.length = 16 → (f x).length = 16) (tw0 : Bytes)
    (h0 : tw0.length = 16) (k o : Nat) (mem : Bytes) (d s : Nat)
    (hd : d + o + 16 * k ≤ mem.length) (hs : s + o + 16 * k ≤ mem.length) (hov : d ≤ s ∨ s + o + 16 * k ≤ d + o) :
    memLoop f k o (twAt tw0 o) mem d s = chunkLoop (gX f tw0) (List.replicate k 16) o mem d s := by
  induction k generalizing o mem with
  | zero => rfl
  | succ k ih =>
    simp only [memLoop, List.replicate_succ, chunkLoop]
    have hb := blockStep_eq f hf (twAt tw0 o) mem (d + o) (s + o) (twAt_len tw0 h0 o) (by omega) (by omega) (by omega)
    have hr : (rd mem (s + o) 16).length = 16 := rd_length _ _ _ (by omega)
    have hg : gX f tw0 o (rd mem (s + o) 16) = xorBytes (f (xorBytes (rd mem (s + o) 16) (twAt tw0 o))) (twAt tw0 o) := by
      simp [gX, hr]
    rw [hb, ← hg, ← twAt_succ]
    have hl : (wr mem (d + o) (gX f tw0 o (rd mem (s + o) 16))).length = mem.length :=
      wr_length _ _ _ (by rw [gX_length f hf tw0 h0, hr]; omega)
    exact ih (o + 16) _ (by rw [hl]; omega) (by rw [hl]; omega) (by omega)

/-- on a separate copy, the chunk map is the functional XTS loop of the model -/
theorem mapChunks_eq_loop (f : Bytes → Bytes) (tw0 : Bytes) (k o : Nat) (src : Bytes) (hl : src.length = 16 * k) :
    mapChunks (gX f tw0) (List.replicate k 16) o src = loop f (chunks 16 src) (twAt tw0 o) := by
  induction k generalizing o src with
  | zero =>
    have : src = [] := List.eq_nil_of_length_eq_zero (by simpa using hl)
    subst this
    simp [mapChunks, chunks_nil, loop]
  | succ k ih =>
    have hs : src = src.take 16 ++ src.drop 16 := (List.take_append_drop 16 src).symm
    have ht : (src.take 16).length = 16 := by simp; omega
    have hdl : (src.drop 16).length = 16 * k := by simp; omega
    simp only [List.replicate_succ, mapChunks]
    rw [ih (o + 16) _ hdl]
    conv => rhs; rw [hs, chunks_append 16 (by decide) _ _ ht]
    simp only [loop, gX, ht, if_true, twAt_succ]

/-- **in place = out of place**: on one arena, with dst[:n] and src either identical or not overlapping
    (more generally: dst not starting strictly inside src), the block loop leaves exactly
    "the functional result on a separate copy of src, written to dst" — every block is read before it is
    overwritten and nothing outside dst[:n] changes -/
theorem memLoop_eq (f : Bytes → Bytes) (hf : ∀ x, x.length = 16 → (f x).length = 16) (tw0 : Bytes)
    (h0 : tw0.length = 16) (k : Nat) (mem : Bytes) (d s : Nat)
    (hd : d + 16 * k ≤ mem.length) (hs : s + 16 * k ≤ mem.length) (hov : d ≤ s ∨ s + 16 * k ≤ d) :
    memLoop f k 0 tw0 mem d s = wr mem d (loop f (chunks 16 (rd mem s (16 * k))) tw0) := by
  have e0 : twAt tw0 0 = tw0 := rfl
  have h1 := memLoop_eq_chunkLoop f hf tw0 h0 k 0 mem d s (by omega) (by omega) (by omega)
  rw [e0] at h1
  rw [h1, chunkLoop_eq (gX f tw0) (gX_length f hf tw0 h0) _ 0 mem d s
    (by rw [sum_replicate16]; omega) (by rw [sum_replicate16]; omega) (by rw [sum_replicate16]; omega)]
  rw [sum_replicate16, Nat.add_zero, Nat.add_zero, mapChunks_eq_loop f tw0 k 0 _ (rd_length _ _ _ hs), e0]

end XC.C13
