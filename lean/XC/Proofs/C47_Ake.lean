/-
  C47 — exhaustive exploration of the AKE on the abstract two-party machine and its soundness lemma.
-/
import XC.Model.C47
namespace XC.C47

def World.quiet (w : World) : Bool := w.toA.isEmpty && w.toB.isEmpty

/-- both sides encrypted with no AKE pending -/
def World.secure (w : World) : Bool :=
  w.a.st == .enc && w.b.st == .enc && w.a.auth == .none && w.b.auth == .none

/-- exploration state: which side may still receive its (single) `?OTRv2?`, whether any has, the world -/
structure Cfg where
  qa : Bool := true
  qb : Bool := true
  started : Bool := false
  w : World := {}

inductive Ev where
  | deliverA | deliverB | queryA | queryB
deriving DecidableEq, Repr

def allEv : List Ev := [.deliverA, .deliverB, .queryA, .queryB]

def liftW (c : Cfg) (f : Cfg → World → Cfg) (s : Step) : R Cfg :=
  match c.w.step s with
  | .panic => .panic
  | .ok (w, _) => .ok (f c w)

/-- `none`: the event is not enabled -/
def Cfg.next (dga dgb : Bytes) (c : Cfg) : Ev → Option (R Cfg)
  | .deliverA => if c.w.toA.isEmpty then none else some (liftW c (fun c w => { c with w := w }) (.deliver true))
  | .deliverB => if c.w.toB.isEmpty then none else some (liftW c (fun c w => { c with w := w }) (.deliver false))
  | .queryA => if !c.qa then none else
      some (liftW c (fun c w => { c with w := w, qa := false, started := true }) (.query true dga))
  | .queryB => if !c.qb then none else
      some (liftW c (fun c w => { c with w := w, qb := false, started := true }) (.query false dgb))

/-- at every quiescent point after a start both sides are encrypted -/
def Cfg.good (c : Cfg) : Bool :=
  (c.started == !(c.qa && c.qb)) && (!(c.w.quiet && c.started) || c.w.secure)

/-- every run from `c` has at most `n` events, never panics, and is `good` throughout -/
def allRuns (dga dgb : Bytes) : Nat → Cfg → Bool
  | 0, c => c.good && allEv.all (fun e => (c.next dga dgb e).isNone)
  | n + 1, c =>
    c.good && allEv.all (fun e =>
      match c.next dga dgb e with
      | none => true
      | some .panic => false
      | some (.ok c') => allRuns dga dgb n c')

/-- `c'` is reachable from `c` by `k` enabled events -/
inductive Reach (dga dgb : Bytes) : Cfg → Nat → Cfg → Prop where
  | refl (c : Cfg) : Reach dga dgb c 0 c
  | step {c c1 c' : Cfg} {k : Nat} (e : Ev) :
      c.next dga dgb e = some (.ok c1) → Reach dga dgb c1 k c' → Reach dga dgb c (k + 1) c'

theorem allRuns_sound (dga dgb : Bytes) {c c' : Cfg} {k : Nat} (hr : Reach dga dgb c k c') :
    ∀ n, allRuns dga dgb n c = true → k ≤ n ∧ allRuns dga dgb (n - k) c' = true := by
  induction hr with
  | refl c => intro n h; exact ⟨Nat.zero_le _, by simpa using h⟩
  | @step c c1 c' k e he _ ih =>
    intro n h
    cases n with
    | zero =>
      simp only [allRuns, Bool.and_eq_true, List.all_eq_true] at h
      have := h.2 e (by cases e <;> simp [allEv])
      simp [he] at this
    | succ n =>
      simp only [allRuns, Bool.and_eq_true, List.all_eq_true] at h
      have := h.2 e (by cases e <;> simp [allEv])
      simp only [he] at this
      obtain ⟨h1, h2⟩ := ih n this
      exact ⟨by omega, by simpa using h2⟩

theorem allRuns_good (dga dgb : Bytes) (n : Nat) (c : Cfg) (h : allRuns dga dgb n c = true) : c.good = true := by
  cases n <;> simp only [allRuns, Bool.and_eq_true] at h <;> exact h.1

theorem allRuns_no_panic (dga dgb : Bytes) (n : Nat) (c : Cfg) (h : allRuns dga dgb n c = true) (e : Ev) :
    c.next dga dgb e ≠ some .panic := by
  intro he
  cases n with
  | zero =>
    simp only [allRuns, Bool.and_eq_true, List.all_eq_true] at h
    have := h.2 e (by cases e <;> simp [allEv])
    simp [he] at this
  | succ n =>
    simp only [allRuns, Bool.and_eq_true, List.all_eq_true] at h
    have := h.2 e (by cases e <;> simp [allEv])
    simp [he] at this

set_option maxRecDepth 100000 in
theorem explore_a_wins : allRuns [1] [0] 20 {} = true := by decide

set_option maxRecDepth 100000 in
theorem explore_b_wins : allRuns [0] [1] 20 {} = true := by decide

end XC.C47
