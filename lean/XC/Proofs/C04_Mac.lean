/-
  C04 — the block loop (`updateGeneric`) as Horner evaluation, and the buffering of `Mac.write`
  as an abstraction relation `Tracks` ("the state has absorbed exactly M").
-/
import XC.Proofs.C04_Step
namespace XC.C04

theorem chunks_nil (n : Nat) : chunks n ([] : Bytes) = [] := by
  rw [chunks]; split <;> simp

theorem chunks_cons (msg : Bytes) (h : msg ≠ []) :
    chunks 16 msg = msg.take 16 :: chunks 16 (msg.drop 16) := by
  rw [chunks]
  simp [h]

theorem horner_nil (r a : Nat) : horner r a [] = a := by
  simp [horner, chunks_nil]

theorem horner_cons (r a : Nat) (msg : Bytes) (h : msg ≠ []) :
    horner r a msg = horner r (((a + blockVal (msg.take 16)) * r) % p) (msg.drop 16) := by
  simp only [horner]
  rw [chunks_cons msg h, List.foldl_cons]

theorem step_mod (a b r : Nat) : ((a % p + b) * r) % p = ((a + b) * r) % p := by
  rw [Nat.mul_mod, Nat.add_mod, Nat.mod_mod, ← Nat.add_mod, ← Nat.mul_mod]

/-- **fold over blocks**: `updateGeneric` never panics and computes the Horner evaluation mod `2^130-5` -/
theorem updateGeneric_correct (r0 r1 : UInt64) (hc : Clamped r0 r1) :
    ∀ (n : Nat) (msg : Bytes) (h : H), msg.length = n → Inv h →
      ∃ g, updateGeneric h r0 r1 msg = some g ∧ Inv g ∧
        g.val % p = horner (rVal r0 r1) (h.val % p) msg := by
  intro n
  induction n using Nat.strongRecOn with
  | _ n ih =>
    intro msg h hn hi
    rw [updateGeneric]
    by_cases he : msg = []
    · subst he
      exact ⟨h, by simp, hi, by rw [horner_nil]⟩
    · have hne : msg.isEmpty = false := by simpa using he
      simp only [hne, Bool.false_eq_true, if_false]
      by_cases hfull : 16 ≤ msg.length
      · simp only [hfull, if_true]
        obtain ⟨g, hg, hgi, hgv⟩ := updateBlock_correct h r0 r1 (le64 msg) (le64 (msg.drop 8)) 1 hi hc (by decide)
        rw [hg]
        simp only []
        obtain ⟨g', hg', hgi', hgv'⟩ := ih (msg.drop 16).length (by simp; omega) (msg.drop 16) g rfl hgi
        refine ⟨g', hg', hgi', ?_⟩
        rw [hgv', hgv, horner_cons _ _ msg he, block_full msg hfull, step_mod]
      · simp only [hfull, if_false]
        have hlt : msg.length < 16 := by omega
        obtain ⟨g, hg, hgi, hgv⟩ := updateBlock_correct h r0 r1 (le64 (padBlock msg)) (le64 ((padBlock msg).drop 8)) 0 hi hc (by decide)
        refine ⟨g, hg, hgi, ?_⟩
        have ht : msg.take 16 = msg := List.take_of_length_le (by omega)
        have hd : msg.drop 16 = [] := List.drop_of_length_le (by omega)
        rw [hgv, horner_cons _ _ msg he, ht, hd, horner_nil, block_partial msg hlt, step_mod]

/-- `updateGeneric` over a concatenation whose first part is a whole number of blocks -/
theorem updateGeneric_append (r0 r1 : UInt64) :
    ∀ (n : Nat) (x y : Bytes) (h : H), x.length = n → x.length % 16 = 0 →
      updateGeneric h r0 r1 (x ++ y) = (updateGeneric h r0 r1 x).bind (fun g => updateGeneric g r0 r1 y) := by
  intro n
  induction n using Nat.strongRecOn with
  | _ n ih =>
    intro x y h hn hx
    by_cases he : x = []
    · subst he
      have : updateGeneric h r0 r1 [] = some h := by rw [updateGeneric]; simp
      simp [this]
    · have hl : 16 ≤ x.length := by
        cases x with
        | nil => exact absurd rfl he
        | cons a t => simp at hx ⊢; omega
      have hne : x.isEmpty = false := by simpa using he
      have hne' : (x ++ y).isEmpty = false := by simp [he]
      rw [updateGeneric, updateGeneric.eq_1 h r0 r1 x]
      simp only [hne, hne', Bool.false_eq_true, if_false, hl, if_true]
      have hl' : 16 ≤ (x ++ y).length := by simp; omega
      simp only [hl', if_true]
      have e1 : le64 (x ++ y) = le64 x := by
        simp only [le64]; rw [List.take_append_of_le_length (by omega)]
      have e2 : le64 ((x ++ y).drop 8) = le64 (x.drop 8) := by
        simp only [le64]
        rw [List.drop_append_of_le_length (by omega), List.take_append_of_le_length (by simp; omega)]
      have e3 : (x ++ y).drop 16 = x.drop 16 ++ y := List.drop_append_of_le_length (by omega)
      rw [e1, e2, e3]
      cases hb : updateBlock h r0 r1 (le64 x) (le64 (x.drop 8)) 1 with
      | none => simp
      | some g =>
        simp only [Option.bind]
        exact ih (x.drop 16).length (by simp; omega) (x.drop 16) y g rfl (by simp; omega)

theorem updateGeneric_nil (h : H) (r0 r1 : UInt64) : updateGeneric h r0 r1 [] = some h := by
  rw [updateGeneric]; simp

def zeroH : H := ⟨0, 0, 0⟩

/-- abstraction relation: the `Mac` state has absorbed exactly the byte string `M`
    (all whole blocks `F` are in the accumulator, the rest sits in the buffer) -/
def Tracks (r0 r1 s0 s1 : UInt64) (m : Mac) (M : Bytes) : Prop :=
  m.r0 = r0 ∧ m.r1 = r1 ∧ m.s0 = s0 ∧ m.s1 = s1 ∧ m.buf.length < 16 ∧ Inv m.h ∧
  ∃ F, M = F ++ m.buf ∧ F.length % 16 = 0 ∧ updateGeneric zeroH r0 r1 F = some m.h

theorem write_tracks (r0 r1 s0 s1 : UInt64) (hc : Clamped r0 r1) (m : Mac) (M p : Bytes)
    (ht : Tracks r0 r1 s0 s1 m M) :
    ∃ m', m.write p = some m' ∧ Tracks r0 r1 s0 s1 m' (M ++ p) := by
  obtain ⟨e0, e1, e2, e3, hb, hi, F, hM, hF, hU⟩ := ht
  unfold Mac.write
  by_cases hA : 0 < m.buf.length ∧ m.buf.length + min (16 - m.buf.length) p.length < 16
  · rw [if_pos hA]
    refine ⟨_, rfl, e0, e1, e2, e3, ?_, hi, F, ?_, hF, hU⟩
    · simp; omega
    · simp [hM]
  · rw [if_neg hA]
    simp only []
    generalize hn : (if 0 < m.buf.length then 16 - m.buf.length else 0) = n
    have hx : (if 0 < m.buf.length then updateGeneric m.h m.r0 m.r1 (m.buf ++ p.take n) else some m.h)
        = updateGeneric m.h r0 r1 (m.buf ++ p.take n) := by
      rw [e0, e1]
      split
      · rfl
      · rename_i h0
        have hb0 : m.buf = [] := List.eq_nil_of_length_eq_zero (by omega)
        have hn0 : n = 0 := by rw [← hn, if_neg h0]
        simp [hb0, hn0, updateGeneric_nil]
    rw [hx]
    have hxl : (m.buf ++ p.take n).length % 16 = 0 := by
      simp only [List.length_append, List.length_take]
      rw [← hn]
      split <;> omega
    obtain ⟨h1, hh1, hi1, _⟩ := updateGeneric_correct r0 r1 hc _ (m.buf ++ p.take n) m.h rfl hi
    rw [hh1]
    simp only []
    generalize hk : (p.drop n).length - (p.drop n).length % 16 = k
    have hy : (if 0 < k then updateGeneric h1 m.r0 m.r1 ((p.drop n).take k) else some h1)
        = updateGeneric h1 r0 r1 ((p.drop n).take k) := by
      rw [e0, e1]
      split
      · rfl
      · rename_i h0
        have : k = 0 := by omega
        simp [this, updateGeneric_nil]
    rw [hy]
    obtain ⟨h2, hh2, hi2, _⟩ := updateGeneric_correct r0 r1 hc _ ((p.drop n).take k) h1 rfl hi1
    rw [hh2]
    have hkl : ((p.drop n).take k).length = k := by
      rw [List.length_take]; omega
    refine ⟨_, rfl, e0, e1, e2, e3, ?_, hi2, F ++ (m.buf ++ p.take n) ++ (p.drop n).take k, ?_, ?_, ?_⟩
    · simp only [List.length_drop] at hk ⊢; omega
    · simp only [hM, List.append_assoc, List.take_append_drop]
    · simp only [List.length_append] at hxl ⊢
      rw [hkl]; omega
    · rw [List.append_assoc, updateGeneric_append r0 r1 _ F _ zeroH rfl hF, hU]
      simp only [Option.bind]
      rw [updateGeneric_append r0 r1 _ _ _ m.h rfl hxl, hh1]
      simp only [Option.bind]
      exact hh2

end XC.C04
