/-
  C07 — codec lemmas: the big-endian field encodings of MarshalBinary are inverted by UnmarshalBinary.
-/
import XC.Model.C07
import XC.Proofs.C05
namespace XC.C07
open XC.C05 Variant

theorem natToBE_length (n v : Nat) : (natToBE n v).length = n := by
  simp [natToBE, natToLE_length]

theorem natOfBE_natToBE (n v : Nat) : natOfBE (natToBE n v) = v % 256 ^ n := by
  simp [natOfBE, natToBE, natOfLE_natToLE]

theorem take_left_len {α : Type} (x y : List α) (n : Nat) (h : x.length = n) : (x ++ y).take n = x := by
  subst h; exact List.take_left'  rfl

theorem drop_left_len {α : Type} (x y : List α) (n : Nat) (h : x.length = n) : (x ++ y).drop n = y := by
  subst h; exact List.drop_left' rfl

theorem ofBE_toBE_64 (w : UInt64) (rest : Bytes) : (ofBE (toBE w ++ rest) : UInt64) = w := by
  show UInt64.ofNat (natOfBE ((natToBE 8 w.toNat ++ rest).take 8)) = w
  rw [take_left_len _ _ 8 (natToBE_length 8 _), natOfBE_natToBE]
  have : w.toNat % 256 ^ 8 = w.toNat := Nat.mod_eq_of_lt (by have := w.toNat_lt; omega)
  rw [this]; exact UInt64.ofNat_toNat

theorem ofBE_toBE_32 (w : UInt32) (rest : Bytes) : (ofBE (toBE w ++ rest) : UInt32) = w := by
  show UInt32.ofNat (natOfBE ((natToBE 4 w.toNat ++ rest).take 4)) = w
  rw [take_left_len _ _ 4 (natToBE_length 4 _), natOfBE_natToBE]
  have : w.toNat % 256 ^ 4 = w.toNat := Nat.mod_eq_of_lt (by have := w.toNat_lt; omega)
  rw [this]; exact UInt32.ofNat_toNat

/-- what the round-trip theorem needs from the field codecs of an `Alg` -/
structure CodecLaws (A : Alg) : Prop where
  encH_len : ∀ h, (A.encH h).length = A.hLen
  encC_len : ∀ c, (A.encC c).length = A.cLen
  decH_encH : ∀ h rest, A.decH (A.encH h ++ rest) = h
  decC_encC : ∀ c rest, A.decC (A.encC c ++ rest) = c
  maxSize_lt : A.maxSize < 256
  bs_lt : A.bs < 256

theorem toBE_len_64 (w : UInt64) : (toBE w : Bytes).length = 8 := natToBE_length 8 _
theorem toBE_len_32 (w : UInt32) : (toBE w : Bytes).length = 4 := natToBE_length 4 _

theorem B_codec : CodecLaws B where
  encH_len := by
    intro h
    show (encH8 h).length = 64
    simp [encH8, toBE_len_64]
  encC_len := by
    intro c
    show (toBE c.1 ++ toBE c.2 : Bytes).length = 16
    simp [toBE_len_64]
  decH_encH := by
    intro h rest
    obtain ⟨a0, a1, a2, a3, a4, a5, a6, a7⟩ := h
    show H8.read (ofBE : Bytes → UInt64) 8 (encH8 _ ++ rest) = _
    simp only [H8.read, encH8, List.append_assoc]
    have d1 : ∀ (w : UInt64) (y : Bytes), (toBE w ++ y).drop 8 = y := fun w y => drop_left_len _ _ 8 (toBE_len_64 w)
    have e2 : (2 * 8 : Nat) = 8 + 8 := rfl
    have e3 : (3 * 8 : Nat) = 8 + 8 + 8 := rfl
    have e4 : (4 * 8 : Nat) = 8 + 8 + 8 + 8 := rfl
    have e5 : (5 * 8 : Nat) = 8 + 8 + 8 + 8 + 8 := rfl
    have e6 : (6 * 8 : Nat) = 8 + 8 + 8 + 8 + 8 + 8 := rfl
    have e7 : (7 * 8 : Nat) = 8 + 8 + 8 + 8 + 8 + 8 + 8 := rfl
    rw [e2, e3, e4, e5, e6, e7]
    simp only [← List.drop_drop, d1, ofBE_toBE_64]
  decC_encC := by
    intro c rest
    obtain ⟨c0, c1⟩ := c
    show ((ofBE ((toBE c0 ++ toBE c1) ++ rest), ofBE (((toBE c0 ++ toBE c1) ++ rest).drop 8)) : UInt64 × UInt64) = (c0, c1)
    simp only [List.append_assoc, drop_left_len _ _ 8 (toBE_len_64 c0), ofBE_toBE_64]
  maxSize_lt := by decide
  bs_lt := by decide

theorem S_codec : CodecLaws S where
  encH_len := by
    intro h
    show (encH8 h).length = 32
    simp [encH8, toBE_len_32]
  encC_len := by
    intro c
    show (toBE c.1 ++ toBE c.2 : Bytes).length = 8
    simp [toBE_len_32]
  decH_encH := by
    intro h rest
    obtain ⟨a0, a1, a2, a3, a4, a5, a6, a7⟩ := h
    show H8.read (ofBE : Bytes → UInt32) 4 (encH8 _ ++ rest) = _
    simp only [H8.read, encH8, List.append_assoc]
    have d1 : ∀ (w : UInt32) (y : Bytes), (toBE w ++ y).drop 4 = y := fun w y => drop_left_len _ _ 4 (toBE_len_32 w)
    have e2 : (2 * 4 : Nat) = 4 + 4 := rfl
    have e3 : (3 * 4 : Nat) = 4 + 4 + 4 := rfl
    have e4 : (4 * 4 : Nat) = 4 + 4 + 4 + 4 := rfl
    have e5 : (5 * 4 : Nat) = 4 + 4 + 4 + 4 + 4 := rfl
    have e6 : (6 * 4 : Nat) = 4 + 4 + 4 + 4 + 4 + 4 := rfl
    have e7 : (7 * 4 : Nat) = 4 + 4 + 4 + 4 + 4 + 4 + 4 := rfl
    rw [e2, e3, e4, e5, e6, e7]
    simp only [← List.drop_drop, d1, ofBE_toBE_32]
  decC_encC := by
    intro c rest
    obtain ⟨c0, c1⟩ := c
    show ((ofBE ((toBE c0 ++ toBE c1) ++ rest), ofBE (((toBE c0 ++ toBE c1) ++ rest).drop 4)) : UInt32 × UInt32) = (c0, c1)
    simp only [List.append_assoc, drop_left_len _ _ 4 (toBE_len_32 c0), ofBE_toBE_32]
  maxSize_lt := by decide
  bs_lt := by decide

end XC.C07
