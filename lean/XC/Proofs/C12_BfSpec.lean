/-
  C12 — Blowfish key schedule: the Go-shaped cyclic key reader (`getNextWord`, position variable `j`
  that wraps to 0) and the chained-encryption loops equal the spec-shaped definitions.
-/
import XC.Model.C12_Blowfish
namespace XC.C12

theorem succ_mod (p n : Nat) (hn : 0 < n) :
    (p + 1) % n = if p % n + 1 ≥ n then 0 else p % n + 1 := by
  have hlt := Nat.mod_lt p hn
  have hdm := Nat.div_add_mod p n
  split
  · have e : p % n + 1 = n := by omega
    have : p + 1 = n * (p / n + 1) := by rw [Nat.mul_add, Nat.mul_one]; omega
    rw [this, Nat.mul_mod_right]
  · have : p + 1 = n * (p / n) + (p % n + 1) := by omega
    rw [this, Nat.mul_add_mod, Nat.mod_eq_of_lt (by omega)]

theorem nextByte_cyc (key : Array UInt8) (hn : 0 < key.size) (p : Nat) :
    nextByte key (p % key.size) = (cyc key p, (p + 1) % key.size) := by
  unfold nextByte cyc
  rw [succ_mod p key.size hn]

theorem nextWord_cyc (key : Array UInt8) (hn : 0 < key.size) (p : Nat) :
    nextWord key (p % key.size) =
      (((((cyc key p).toUInt32 <<< 8) ||| (cyc key (p+1)).toUInt32) <<< 8 ||| (cyc key (p+2)).toUInt32) <<< 8
        ||| (cyc key (p+3)).toUInt32, (p + 4) % key.size) := by
  unfold nextWord
  simp only [nextByte_cyc key hn]

/-- `getNextWord` started at position `4t mod len` returns word `t` of the cyclic key stream -/
theorem nextWord_stream (key : Array UInt8) (hn : 0 < key.size) (t : Nat) :
    nextWord key ((4 * t) % key.size) = (streamWord key t, (4 * (t + 1)) % key.size) := by
  rw [nextWord_cyc key hn]
  rfl

namespace Blowfish

/-- one step of `xorKey`'s fold -/
def xorStep (key : Array UInt8) (st : Box × Nat) (i : Nat) : Box × Nat :=
  let (w, j) := nextWord key st.2
  (st.1.set! i (st.1[i]! ^^^ w), j)

theorem xorKey_eq (key : Array UInt8) (c : Box) :
    xorKey key c = ((List.range 18).foldl (xorStep key) (c, 0)).1 := rfl

theorem xorFold_spec (key : Array UInt8) (hn : 0 < key.size) (n s : Nat) (c : Box) :
    (List.range' s n).foldl (xorStep key) (c, (4 * s) % key.size) =
      ((List.range' s n).foldl (fun c i => c.set! i (c[i]! ^^^ streamWord key i)) c, (4 * (s + n)) % key.size) := by
  induction n generalizing s c with
  | zero => rfl
  | succ n ih =>
    simp only [List.range'_succ, List.foldl_cons]
    have : xorStep key (c, (4 * s) % key.size) s = (c.set! s (c[s]! ^^^ streamWord key s), (4 * (s + 1)) % key.size) := by
      unfold xorStep
      rw [nextWord_stream key hn]
    rw [this, ih (s + 1)]
    have : s + 1 + n = s + (n + 1) := by omega
    rw [this]

/-- the P-array xor with the key read through the wrapping position variable = xor with the words
    of "the key bytes repeated cyclically, big-endian" -/
theorem xorKey_eq_spec (key : Array UInt8) (hn : 0 < key.size) (c : Box) : xorKey key c = xorKeySpec key c := by
  rw [xorKey_eq, List.range_eq_range']
  have := xorFold_spec key hn 18 0 c
  simp only [Nat.mul_zero, Nat.zero_mod] at this
  rw [this]
  unfold xorKeySpec
  rw [List.range_eq_range']

/-- `ExpandKey`'s five chained loops = the spec with an all-zero stream -/
theorem fill_eq_spec (c : Box) : fill c = fillSpec (fun _ => 0) c := by
  unfold fill fillSpec
  congr 2
  funext st i
  simp [specStep]

def saltStep (salt : Array UInt8) (st : Box × UInt32 × UInt32 × Nat) (i : Nat) : Box × UInt32 × UInt32 × Nat :=
  let (w1, j) := nextWord salt st.2.2.2
  let (w2, j) := nextWord salt j
  let (l, r) := encryptBlock st.1 (st.2.1 ^^^ w1) (st.2.2.1 ^^^ w2)
  ((st.1.set! (2*i) l).set! (2*i+1) r, l, r, j)

theorem fillSalt_eq (salt : Array UInt8) (c : Box) :
    fillSalt salt c = ((List.range 521).foldl (saltStep salt) (c, 0, 0, 0)).1 := rfl

theorem saltFold_spec (salt : Array UInt8) (hn : 0 < salt.size) (n s : Nat) (c : Box) (l r : UInt32) :
    (List.range' s n).foldl (saltStep salt) (c, l, r, (4 * (2 * s)) % salt.size) =
      (let st := (List.range' s n).foldl (specStep (streamWord salt)) (c, l, r)
       (st.1, st.2.1, st.2.2, (4 * (2 * (s + n))) % salt.size)) := by
  induction n generalizing s c l r with
  | zero => rfl
  | succ n ih =>
    simp only [List.range'_succ, List.foldl_cons]
    have : saltStep salt (c, l, r, (4 * (2 * s)) % salt.size) s =
        ((specStep (streamWord salt) (c, l, r) s).1, (specStep (streamWord salt) (c, l, r) s).2.1,
         (specStep (streamWord salt) (c, l, r) s).2.2, (4 * (2 * (s + 1))) % salt.size) := by
      unfold saltStep specStep
      rw [nextWord_stream salt hn]
      simp only
      rw [nextWord_stream salt hn]
      have : 2 * s + 1 + 1 = 2 * (s + 1) := by omega
      rw [this]
    rw [this, ih (s + 1)]
    have : s + 1 + n = s + (n + 1) := by omega
    simp only [this]

/-- `expandKeyWithSalt`'s chained loops with the wrapping salt position = the spec with the cyclic
    big-endian salt stream -/
theorem fillSalt_eq_spec (salt : Array UInt8) (hn : 0 < salt.size) (c : Box) :
    fillSalt salt c = fillSpec (streamWord salt) c := by
  rw [fillSalt_eq, List.range_eq_range']
  have := saltFold_spec salt hn 521 0 c 0 0
  simp only [Nat.mul_zero, Nat.zero_mod] at this
  rw [this]
  unfold fillSpec
  rw [List.range_eq_range']

end Blowfish
end XC.C12
