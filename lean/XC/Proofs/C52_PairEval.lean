/-
  C52 — the model's optimal ate pairing evaluated by the kernel at the generators.
-/
import XC.Model.C52_Pairing
namespace XC.C52

def pairNotOne (a : CurvePoint) (b : TwistPoint) : Bool :=
  match pair a b with
  | .val e => !e.isOne
  | .undefined => false

set_option maxRecDepth 1000000 in
/-- **non-degeneracy at the generators**: e(g₁, g₂) is defined and is not the identity of GT
    (kernel evaluation of the whole Miller loop and final exponentiation). With bilinearity and
    the prime order n this is non-degeneracy of the pairing on G₁ × G₂ — bilinearity itself is
    not proved. -/
theorem pairing_nondegenerate_gen : pairNotOne CurvePoint.gen TwistPoint.gen = true := by
  decide +kernel

/-- infinity in either argument gives the identity, for every other argument -/
theorem pair_infinity (a : CurvePoint) (b : TwistPoint) (h : a.isInfinity = true ∨ b.isInfinity = true) :
    pairNotOne a b = false := by
  unfold pairNotOne pair
  rcases h with h | h <;> simp [h] <;> decide

end XC.C52
