/-
  C46 — lineBreaker: any sequence of Writes equals one Write of the concatenation, and the total
  output (with Close) is the input cut into 64-byte lines joined by single LFs.
-/
import XC.Model.C46
namespace XC.C46
open XC

def LB.WF (st : LB) : Prop := st.line.length < lineLength ∧ st.panicked = false

theorem lbWrite_nil (st : LB) : lbWrite st [] = (st, []) := by
  rw [lbWrite]; simp

theorem lbWrite_small (st : LB) (b : Bytes) (hb : b ≠ []) (h : st.line.length + b.length < lineLength) :
    lbWrite st b = ({ st with line := st.line ++ b }, if st.line.isEmpty && st.hw then [LF] else []) := by
  rw [lbWrite]
  have h1 : b.isEmpty = false := by cases b <;> simp_all
  have h2 : ¬ lineLength ≤ st.line.length := by omega
  simp [h1, h2, h]

theorem lbWrite_big (st : LB) (b : Bytes) (hwf : st.line.length < lineLength)
    (h : ¬ st.line.length + b.length < lineLength) :
    lbWrite st b =
      ((lbWrite { line := [], hw := true, panicked := st.panicked } (b.drop (lineLength - st.line.length))).1,
       (if st.line.isEmpty && st.hw then [LF] else []) ++ st.line ++ b.take (lineLength - st.line.length) ++
       (lbWrite { line := [], hw := true, panicked := st.panicked } (b.drop (lineLength - st.line.length))).2) := by
  rw [lbWrite]
  have h1 : b.isEmpty = false := by
    cases b with
    | nil => simp at h; omega
    | cons => simp
  have h2 : ¬ lineLength ≤ st.line.length := by omega
  simp [h1, h2, h]

theorem lbWrite_wf (st : LB) (b : Bytes) (hwf : st.WF) : (lbWrite st b).1.WF := by
  induction h : b.length using Nat.strongRecOn generalizing st b with
  | _ n ih =>
    by_cases hb : b = []
    · subst hb; rw [lbWrite_nil]; exact hwf
    · by_cases hs : st.line.length + b.length < lineLength
      · rw [lbWrite_small st b hb hs]; exact ⟨by simpa using hs, hwf.2⟩
      · rw [lbWrite_big st b hwf.1 hs]
        have hpos : 0 < b.length := List.length_pos_iff.mpr hb
        have hw1 := hwf.1
        exact ih (b.drop (lineLength - st.line.length)).length
          (by subst h; simp only [List.length_drop]; omega)
          { line := [], hw := true, panicked := st.panicked } _ ⟨by simp [lineLength], hwf.2⟩ rfl

theorem lbWrite_append (st : LB) (a b : Bytes) (hwf : st.WF) :
    lbWrite st (a ++ b) = ((lbWrite (lbWrite st a).1 b).1, (lbWrite st a).2 ++ (lbWrite (lbWrite st a).1 b).2) := by
  induction h : a.length using Nat.strongRecOn generalizing st a with
  | _ n ih =>
  by_cases ha : a = []
  · subst ha; simp [lbWrite_nil]
  · by_cases hs : st.line.length + a.length < lineLength
    · by_cases hb : b = []
      · subst hb
        simp only [List.append_nil, lbWrite_nil]
      · by_cases hs2 : st.line.length + a.length + b.length < lineLength
        · rw [lbWrite_small st (a ++ b) (by simp [ha]) (by simp; omega)]
          rw [lbWrite_small st a ha hs]
          rw [lbWrite_small _ b hb (by simp; omega)]
          have : (st.line ++ a).isEmpty = false := by cases a <;> simp_all
          simp [this]
        · rw [lbWrite_big st (a ++ b) hwf.1 (by simp; omega)]
          rw [lbWrite_small st a ha hs]
          rw [lbWrite_big _ b (by simpa using hs) (by simp; omega)]
          have hne : (st.line ++ a).isEmpty = false := by cases a <;> simp_all
          have hle : a.length ≤ lineLength - st.line.length := by omega
          have e1 : lineLength - (st.line ++ a).length = lineLength - st.line.length - a.length := by
            simp; omega
          simp only [hne, Bool.false_and, Bool.false_eq_true, ↓reduceIte, List.nil_append, e1]
          rw [List.drop_append, List.take_append]
          rw [List.drop_eq_nil_of_le hle, List.take_of_length_le hle]
          simp
    · have hfresh : LB.WF { line := [], hw := true, panicked := st.panicked } := ⟨by simp [lineLength], hwf.2⟩
      have hw1 := hwf.1
      have hpos : 0 < a.length := List.length_pos_iff.mpr ha
      have hle : lineLength - st.line.length ≤ a.length := by omega
      have ih := ih (a.drop (lineLength - st.line.length)).length
        (by subst h; simp only [List.length_drop]; omega)
        { line := [], hw := true, panicked := st.panicked } _ hfresh rfl
      rw [lbWrite_big st (a ++ b) hwf.1 (by simp; omega)]
      rw [lbWrite_big st a hwf.1 hs]
      rw [List.drop_append, List.take_append]
      have e0 : lineLength - st.line.length - a.length = 0 := by omega
      simp only [e0, List.drop_zero, List.take_zero, List.append_nil]
      rw [ih]
      simp [List.append_assoc]

theorem lbRun_eq_write (st : LB) (pieces : List Bytes) (hwf : st.WF) :
    lbRun st pieces = lbWrite st pieces.flatten := by
  induction pieces generalizing st with
  | nil => simp [lbRun, lbWrite_nil]
  | cons c cs ih =>
    simp only [lbRun, List.flatten_cons]
    rw [lbWrite_append st c cs.flatten hwf, ih _ (lbWrite_wf st c hwf)]

/-- lines joined by single LFs -/
def joinLF : List Bytes → Bytes
  | [] => []
  | [c] => c
  | c :: d :: cs => c ++ LF :: joinLF (d :: cs)

theorem intercalate_eq_joinLF (l : List Bytes) : [LF].intercalate l = joinLF l := by
  induction l with
  | nil => rfl
  | cons c cs ih =>
    cases cs with
    | nil => simp [List.intercalate, joinLF]
    | cons d ds =>
      have : [LF].intercalate (c :: d :: ds) = c ++ LF :: [LF].intercalate (d :: ds) := by
        simp [List.intercalate]
      rw [this, ih, joinLF]

theorem chunks_nil (n : Nat) : chunks n [] = [] := by
  rw [chunks]; simp

theorem chunks_cons (n : Nat) (bs : Bytes) (hn : n ≠ 0) (hb : bs ≠ []) :
    chunks n bs = bs.take n :: chunks n (bs.drop n) := by
  rw [chunks]
  have : bs.isEmpty = false := by cases bs <;> simp_all
  simp [hn, this]

theorem chunks_eq_nil_iff (n : Nat) (bs : Bytes) (hn : n ≠ 0) : chunks n bs = [] ↔ bs = [] := by
  constructor
  · intro h
    by_cases hb : bs = []
    · exact hb
    · rw [chunks_cons n bs hn hb] at h; simp at h
  · intro h; subst h; exact chunks_nil n

/-- one Write of everything from an empty-line state, then Close -/
theorem lbWrite_all (hw p : Bool) (text : Bytes) :
    (lbWrite { line := [], hw := hw, panicked := p } text).2 ++
      lbClose (lbWrite { line := [], hw := hw, panicked := p } text).1 =
    (if hw && !text.isEmpty then [LF] else []) ++ joinLF (chunks lineLength text) := by
  induction h : text.length using Nat.strongRecOn generalizing text hw with
  | _ n ih =>
    by_cases ht : text = []
    · subst ht; simp [lbWrite_nil, lbClose, chunks_nil, joinLF]
    · have hne : text.isEmpty = false := by cases text <;> simp_all
      by_cases hs : text.length < lineLength
      · rw [lbWrite_small _ text ht (by simpa using hs)]
        rw [chunks_cons _ _ (by simp [lineLength]) ht]
        have hd : text.drop lineLength = [] := List.drop_eq_nil_of_le (by omega)
        have htk : text.take lineLength = text := List.take_of_length_le (by omega)
        simp [lbClose, hne, hd, htk, chunks_nil, joinLF]
      · rw [lbWrite_big _ text (by simp [lineLength]) (by simpa using hs)]
        simp only [List.length_nil, Nat.sub_zero, List.isEmpty_nil, Bool.true_and, List.append_nil]
        rw [chunks_cons _ _ (by simp [lineLength]) ht]
        have hlt : (text.drop lineLength).length < n := by
          subst h; simp only [List.length_drop]; simp only [lineLength] at *; omega
        have ih' := ih _ hlt true (text.drop lineLength) rfl
        rw [List.append_assoc, ih']
        by_cases hd : text.drop lineLength = []
        · simp [hd, chunks_nil, joinLF, hne]
        · have hdne : (text.drop lineLength).isEmpty = false := by
            cases hh : text.drop lineLength <;> simp_all
          rw [chunks_cons _ _ (by simp [lineLength]) hd]
          simp [hdne, hne, joinLF]

/-- **chunk independence of the lineBreaker**: whatever pieces the base64 encoder hands it, the bytes
    written are the whole text cut into 64-byte lines, joined by single LFs, no trailing LF. -/
theorem lbAll_eq (pieces : List Bytes) : lbAll pieces = breakLines pieces.flatten := by
  have hwf : LB.WF {} := ⟨by simp [lineLength], rfl⟩
  unfold lbAll breakLines
  rw [lbRun_eq_write _ _ hwf, intercalate_eq_joinLF]
  have := lbWrite_all false false pieces.flatten
  simpa using this

/-- the lineBreaker never reaches the slice-bounds panic -/
theorem lbRun_no_panic (pieces : List Bytes) : (lbRun {} pieces).1.panicked = false := by
  have hwf : LB.WF {} := ⟨by simp [lineLength], rfl⟩
  rw [lbRun_eq_write _ _ hwf]
  exact (lbWrite_wf _ _ hwf).2

/-- shape of the lines: every chunk is non-empty and at most 64 bytes, and every chunk but the last is exactly 64 -/
theorem chunks_shape (n : Nat) (hn : n ≠ 0) (bs : Bytes) :
    (∀ c ∈ chunks n bs, 0 < c.length ∧ c.length ≤ n) ∧
    (∀ c ∈ (chunks n bs).dropLast, c.length = n) ∧
    (chunks n bs).flatten = bs := by
  induction h : bs.length using Nat.strongRecOn generalizing bs with
  | _ k ih =>
    by_cases hb : bs = []
    · subst hb; simp [chunks_nil]
    · rw [chunks_cons n bs hn hb]
      have hpos : 0 < bs.length := List.length_pos_iff.mpr hb
      have hlt : (bs.drop n).length < k := by subst h; simp only [List.length_drop]; omega
      obtain ⟨h1, h2, h3⟩ := ih _ hlt (bs.drop n) rfl
      refine ⟨?_, ?_, ?_⟩
      · intro c hc
        rcases List.mem_cons.1 hc with rfl | hc
        · simp only [List.length_take]; omega
        · exact h1 c hc
      · intro c hc
        by_cases hd : bs.drop n = []
        · simp [hd, chunks_nil] at hc
        · rw [chunks_cons n _ hn hd] at hc h2
          rw [List.dropLast_cons_cons] at hc
          rcases List.mem_cons.1 hc with rfl | hc
          · have : n ≤ bs.length := by
              have : 0 < (bs.drop n).length := by cases hh : bs.drop n <;> simp_all
              simp only [List.length_drop] at this; omega
            simp only [List.length_take]; omega
          · exact h2 c hc
      · simp [h3]

end XC.C46
