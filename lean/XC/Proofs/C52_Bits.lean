/-
  C52 — which bits the `Mul` / `Exp` loops read.
-/
import XC.Model.C52
namespace XC.C52
open CurvePoint

/-- value of a most-significant-first bit list -/
def bitsVal (l : List Bool) : Nat := l.foldl (fun acc b => 2 * acc + b.toNat) 0

theorem foldl_bits_acc (l : List Bool) (acc : Nat) :
    l.foldl (fun acc b => 2 * acc + b.toNat) acc = acc * 2 ^ l.length + bitsVal l := by
  induction l generalizing acc with
  | nil => simp [bitsVal]
  | cons b t ih =>
    simp only [List.foldl_cons, List.length_cons, bitsVal]
    rw [ih, ih (2 * 0 + b.toNat), Nat.pow_succ]
    simp only [Nat.mul_zero, Nat.zero_add, Nat.add_mul]
    grind

theorem bitsVal_range (k m : Nat) :
    bitsVal ((List.range m).reverse.map (fun i => k.testBit i)) = k % 2 ^ m := by
  induction m with
  | zero => simp [bitsVal, Nat.mod_one]
  | succ m ih =>
    rw [List.range_succ, List.reverse_append]
    simp only [List.reverse_cons, List.reverse_nil, List.nil_append, List.singleton_append, List.map_cons]
    unfold bitsVal
    rw [List.foldl_cons, foldl_bits_acc, ih]
    simp only [Nat.mul_zero, Nat.zero_add, List.length_map, List.length_reverse, List.length_range]
    rw [Nat.mod_pow_succ, Nat.toNat_testBit]
    rw [Nat.mul_comm]; omega

theorem goBit_nat (k i : Nat) : (((k : Int) >>> i) % 2 == 1) = k.testBit i := by
  rw [Int.shiftRight_eq_div_pow]
  have h : ((k : Int) / ((2 ^ i : Nat) : Int)) % 2 = ((k / 2 ^ i % 2 : Nat) : Int) := by
    norm_cast
  rw [h, ← Nat.toNat_testBit]
  cases k.testBit i <;> decide

/-- **for a non-negative scalar the `Mul` loop reads exactly the binary expansion of `k`**
    (with one leading zero bit: `i` starts at `BitLen`, not `BitLen − 1`), so `mulLoop a k`
    is plain double-and-add for `[k]a`. -/
theorem goBits_value (k : Nat) : bitsVal (goBits (k : Int)) = k := by
  unfold goBits
  have hmap : (List.range (GFp12.bitLen (k : Int) + 1)).reverse.map (fun i => ((k : Int) >>> i) % 2 == 1)
      = (List.range (GFp12.bitLen (k : Int) + 1)).reverse.map (fun i => k.testBit i) := by
    apply List.map_congr_left
    intro i _
    exact goBit_nat k i
  rw [hmap, bitsVal_range]
  apply Nat.mod_eq_of_lt
  unfold GFp12.bitLen
  by_cases h0 : (k : Int) = 0
  · have : k = 0 := by exact_mod_cast h0
    simp [this]
  · simp only [h0, ↓reduceIte, Int.natAbs_natCast]
    have := Nat.lt_log2_self (n := k)
    calc k < 2 ^ (k.log2 + 1) := this
      _ ≤ 2 ^ (k.log2 + 1 + 1) := Nat.pow_le_pow_right (by omega) (by omega)

/-- **why the sign guard of the negative-scalar fix is needed**: `big.Int.Bit` is two's complement, so for −1,
    −2, −3, −5 the unguarded loop would read the bits of 3, 6, 5, 11. -/
theorem goBits_negative_witness :
    bitsVal (goBits (-1)) = 3 ∧ bitsVal (goBits (-2)) = 6 ∧ bitsVal (goBits (-3)) = 5 ∧
      bitsVal (goBits (-5)) = 11 := by
  decide

/-- with the guard, `mul` never feeds a negative scalar to the loop -/
theorem mul_neg (a : CurvePoint) (k : Int) (h : k < 0) : a.mul k = (a.mulLoop (-k)).neg ∧ 0 ≤ -k := by
  simp [CurvePoint.mul, h]; omega

theorem twist_mul_neg (a : TwistPoint) (k : Int) (h : k < 0) : a.mul k = (a.mulLoop (-k)).neg ∧ 0 ≤ -k := by
  simp [TwistPoint.mul, h]; omega

end XC.C52
