/-
  parse ∘ marshal = id for every public key kind (C38; reused by the certificate round trip of C41).
-/
import XC.Model.C38_Keys
import XC.Proofs.C38_Wire
namespace XC.C38
open XC

attribute [local irreducible] putU32 parseU32

/-- well-formedness of a public key value: what `parsePubKey` checks (with the curve-point check as
    the oracle) plus the uint32 length bounds -/
def KeyWF (o : PtOracle) : PubKey → Prop
  | .rsa e n => 3 ≤ e ∧ e % 2 ≠ 0 ∧ bitLen e ≤ 24 ∧ bitLen n ≤ 16384 ∧
      (mpintBytes e).length < 4294967296 ∧ (mpintBytes n).length < 4294967296
  | .dsa p q g y => bitLen p = 1024 ∧ bitLen q = 160 ∧ 0 < g ∧ g < p ∧ 0 < y ∧ y < p ∧
      (mpintBytes p).length < 4294967296 ∧ (mpintBytes q).length < 4294967296 ∧
      (mpintBytes g).length < 4294967296 ∧ (mpintBytes y).length < 4294967296
  | .ecdsa bits pt => (bits = 256 ∨ bits = 384 ∨ bits = 521) ∧ o bits pt = true ∧ pt.length < 4294967296
  | .skecdsa pt app => o 256 pt = true ∧ pt.length < 4294967296 ∧ app.length < 4294967296
  | .ed25519 k => k.length = 32
  | .sked25519 k app => k.length = 32 ∧ app.length < 4294967296

theorem curveOfName_curveName (bits : Nat) (h : bits = 256 ∨ bits = 384 ∨ bits = 521) :
    curveOfName (curveName bits) = some bits := by
  rcases h with h | h | h <;> subst h <;> decide

theorem curveName_length (bits : Nat) : (curveName bits).length < 4294967296 := by
  unfold curveName
  split <;> decide

/-- `parsePubKey(Marshal(k) minus the name, k.Type())` returns `k` and the untouched rest, for every
    well-formed key of every kind -/
theorem parsePlain_body (o : PtOracle) (k : PubKey) (h : KeyWF o k) (r : Bytes) :
    parsePlain o k.type (k.body ++ r) = some (k, r) := by
  cases k with
  | rsa e n =>
    obtain ⟨h1, h2, h3, h4, h5, h6⟩ := h
    have e0 : parsePlain o (PubKey.rsa e n).type = parseRSA := by
      funext b; simp only [parsePlain, PubKey.type, ↓reduceIte]
    rw [e0]
    simp only [PubKey.body, List.append_assoc]
    rw [parseRSA, parseMpint_putMpint e h5]
    simp only []
    rw [parseMpint_putMpint n h6]
    simp only []
    have c1 : ¬ (bitLen n > 16384) := by omega
    have c2 : ¬ (bitLen e > 24) := by omega
    have c3 : ¬ (e < 3 ∨ e % 2 = 0) := by omega
    simp only [c1, c2, c3, ↓reduceIte]
  | dsa p q g y =>
    obtain ⟨h1, h2, h3, h4, h5, h6, l1, l2, l3, l4⟩ := h
    have e0 : parsePlain o (PubKey.dsa p q g y).type = parseDSA := by
      funext b
      have : algoDSA ≠ algoRSA := by decide
      simp only [parsePlain, PubKey.type, this, ↓reduceIte]
    rw [e0]
    simp only [PubKey.body, List.append_assoc]
    rw [parseDSA, parseMpint_putMpint p l1]
    simp only []
    rw [parseMpint_putMpint q l2]
    simp only []
    rw [parseMpint_putMpint g l3]
    simp only []
    rw [parseMpint_putMpint y l4]
    simp only []
    have c1 : ¬ (bitLen p ≠ 1024) := by omega
    have c2 : ¬ (bitLen q ≠ 160) := by omega
    have c3 : ¬ (g ≥ p) := by omega
    have c4 : ¬ (g ≤ 0) := by omega
    have c5 : ¬ (y ≤ 0 ∨ y ≥ p) := by omega
    simp only [c1, c2, c3, c4, c5, ↓reduceIte]
  | ecdsa bits pt =>
    obtain ⟨hb, hv, hl⟩ := h
    have e0 : parsePlain o (PubKey.ecdsa bits pt).type = parseECDSA o (PubKey.ecdsa bits pt).type := by
      funext b
      rcases hb with hb | hb | hb <;> subst hb
      · have a1 : (PubKey.ecdsa 256 pt).type = algoECDSA256 := by
          show nm "ecdsa-sha2-" ++ curveName 256 = algoECDSA256
          decide
        have a2 : algoECDSA256 ≠ algoRSA := by decide
        have a3 : algoECDSA256 ≠ algoDSA := by decide
        simp only [parsePlain, a1, a2, a3, ↓reduceIte, true_or]
      · have a1 : (PubKey.ecdsa 384 pt).type = algoECDSA384 := by
          show nm "ecdsa-sha2-" ++ curveName 384 = algoECDSA384
          decide
        have a2 : algoECDSA384 ≠ algoRSA := by decide
        have a3 : algoECDSA384 ≠ algoDSA := by decide
        simp only [parsePlain, a1, a2, a3, ↓reduceIte, true_or, or_true]
      · have a1 : (PubKey.ecdsa 521 pt).type = algoECDSA521 := by
          show nm "ecdsa-sha2-" ++ curveName 521 = algoECDSA521
          decide
        have a2 : algoECDSA521 ≠ algoRSA := by decide
        have a3 : algoECDSA521 ≠ algoDSA := by decide
        simp only [parsePlain, a1, a2, a3, ↓reduceIte, or_true]
    rw [e0]
    simp only [PubKey.body, List.append_assoc]
    rw [parseECDSA, parseString_putString _ (curveName_length bits)]
    simp only []
    rw [parseString_putString _ hl]
    simp only [PubKey.type, ne_eq, not_true_eq_false, ↓reduceIte, curveOfName_curveName bits hb, hv]
  | skecdsa pt app =>
    obtain ⟨hv, hl, ha⟩ := h
    have e0 : parsePlain o (PubKey.skecdsa pt app).type = parseSKECDSA o := by
      funext b
      have a2 : algoSKECDSA ≠ algoRSA := by decide
      have a3 : algoSKECDSA ≠ algoDSA := by decide
      have a4 : ¬ (algoSKECDSA = algoECDSA256 ∨ algoSKECDSA = algoECDSA384 ∨ algoSKECDSA = algoECDSA521) := by decide
      simp only [parsePlain, PubKey.type, a2, a3, a4, ↓reduceIte]
    rw [e0]
    simp only [PubKey.body, List.append_assoc]
    rw [parseSKECDSA, parseString_putString _ (by decide)]
    simp only []
    rw [parseString_putString _ hl]
    simp only []
    rw [parseString_putString _ ha]
    simp only [ne_eq, not_true_eq_false, ↓reduceIte, hv]
  | ed25519 kb =>
    have e0 : parsePlain o (PubKey.ed25519 kb).type = parseED25519 := by
      funext b
      have a2 : algoED25519 ≠ algoRSA := by decide
      have a3 : algoED25519 ≠ algoDSA := by decide
      have a4 : ¬ (algoED25519 = algoECDSA256 ∨ algoED25519 = algoECDSA384 ∨ algoED25519 = algoECDSA521) := by decide
      have a5 : algoED25519 ≠ algoSKECDSA := by decide
      simp only [parsePlain, PubKey.type, a2, a3, a4, a5, ↓reduceIte]
    rw [e0]
    simp only [PubKey.body]
    have hl : kb.length < 4294967296 := by have : kb.length = 32 := h; omega
    rw [parseED25519, parseString_putString _ hl]
    have : kb.length = 32 := h
    simp only [this, ne_eq, not_true_eq_false, ↓reduceIte]
  | sked25519 kb app =>
    obtain ⟨hk, ha⟩ := h
    have e0 : parsePlain o (PubKey.sked25519 kb app).type = parseSKEd25519 := by
      funext b
      have a2 : algoSKED25519 ≠ algoRSA := by decide
      have a3 : algoSKED25519 ≠ algoDSA := by decide
      have a4 : ¬ (algoSKED25519 = algoECDSA256 ∨ algoSKED25519 = algoECDSA384 ∨ algoSKED25519 = algoECDSA521) := by decide
      have a5 : algoSKED25519 ≠ algoSKECDSA := by decide
      have a6 : algoSKED25519 ≠ algoED25519 := by decide
      simp only [parsePlain, PubKey.type, a2, a3, a4, a5, a6, ↓reduceIte]
    rw [e0]
    simp only [PubKey.body, List.append_assoc]
    have hl : kb.length < 4294967296 := by omega
    rw [parseSKEd25519, parseString_putString _ hl]
    simp only []
    rw [parseString_putString _ ha]
    simp only [hk, ne_eq, not_true_eq_false, ↓reduceIte]


theorem type_length (k : PubKey) : k.type.length < 4294967296 := by
  cases k with
  | ecdsa bits pt =>
    show (nm "ecdsa-sha2-" ++ curveName bits).length < 4294967296
    rw [List.length_append]
    have := curveName_length bits
    have e : (nm "ecdsa-sha2-").length = 11 := by decide
    have : (curveName bits).length ≤ 8 := by unfold curveName; split <;> decide
    omega
  | rsa e n => show algoRSA.length < 4294967296; decide
  | dsa p q g y => show algoDSA.length < 4294967296; decide
  | skecdsa pt app => show algoSKECDSA.length < 4294967296; decide
  | ed25519 k => show algoED25519.length < 4294967296; decide
  | sked25519 k app => show algoSKED25519.length < 4294967296; decide

/-- `ParsePublicKey(k.Marshal()) = k` for every well-formed plain key -/
theorem parsePlainKey_marshal (o : PtOracle) (k : PubKey) (h : KeyWF o k) :
    parsePlainKey o k.marshal = some k := by
  have hb := parsePlain_body o k h []
  rw [List.append_nil] at hb
  rw [parsePlainKey, PubKey.marshal, parseString_putString _ (type_length k)]
  simp only [hb, List.isEmpty_nil, ↓reduceIte]

/-! ## `parsePubKey(in, algo)` returns a key of type `algo` -/

theorem curveName_curveOfName (c : Bytes) (bits : Nat) (h : curveOfName c = some bits) : curveName bits = c := by
  unfold curveOfName at h
  split at h
  · simp only [Option.some.injEq] at h; subst h; rename_i hc; rw [hc]; rfl
  · split at h
    · simp only [Option.some.injEq] at h; subst h; rename_i hc; rw [hc]; rfl
    · split at h
      · simp only [Option.some.injEq] at h; subst h; rename_i hc; rw [hc]; rfl
      · cases h

theorem parseRSA_type (b : Bytes) (k : PubKey) (r : Bytes) (h : parseRSA b = some (k, r)) : k.type = algoRSA := by
  unfold parseRSA at h
  repeat (split at h; (· cases h))
  simp only [Option.some.injEq, Prod.mk.injEq] at h
  rw [← h.1]; rfl

theorem parseDSA_type (b : Bytes) (k : PubKey) (r : Bytes) (h : parseDSA b = some (k, r)) : k.type = algoDSA := by
  unfold parseDSA at h
  repeat (split at h; (· cases h))
  simp only [Option.some.injEq, Prod.mk.injEq] at h
  rw [← h.1]; rfl

theorem parseECDSA_type (o : PtOracle) (e b : Bytes) (k : PubKey) (r : Bytes) (h : parseECDSA o e b = some (k, r)) :
    k.type = e := by
  unfold parseECDSA at h
  repeat (split at h; (· cases h))
  split at h
  · simp only [Option.some.injEq, Prod.mk.injEq] at h
    rw [← h.1]
    rename_i hexp _ bits hbits _
    have hexp' : e = nm "ecdsa-sha2-" ++ _ := Decidable.not_not.mp hexp
    show nm "ecdsa-sha2-" ++ curveName bits = e
    rw [curveName_curveOfName _ _ hbits, hexp']
  · cases h

theorem parseSKECDSA_type (o : PtOracle) (b : Bytes) (k : PubKey) (r : Bytes) (h : parseSKECDSA o b = some (k, r)) :
    k.type = algoSKECDSA := by
  unfold parseSKECDSA at h
  repeat (split at h; (· cases h))
  split at h
  · simp only [Option.some.injEq, Prod.mk.injEq] at h; rw [← h.1]; rfl
  · cases h

theorem parseED25519_type (b : Bytes) (k : PubKey) (r : Bytes) (h : parseED25519 b = some (k, r)) : k.type = algoED25519 := by
  unfold parseED25519 at h
  repeat (split at h; (· cases h))
  simp only [Option.some.injEq, Prod.mk.injEq] at h
  rw [← h.1]; rfl

theorem parseSKEd25519_type (b : Bytes) (k : PubKey) (r : Bytes) (h : parseSKEd25519 b = some (k, r)) : k.type = algoSKED25519 := by
  unfold parseSKEd25519 at h
  repeat (split at h; (· cases h))
  simp only [Option.some.injEq, Prod.mk.injEq] at h
  rw [← h.1]; rfl

/-- a key returned by `parsePubKey(in, algo)` has `Type() == algo` -/
theorem parsePlain_type (o : PtOracle) (algo b : Bytes) (k : PubKey) (r : Bytes)
    (h : parsePlain o algo b = some (k, r)) : k.type = algo := by
  unfold parsePlain at h
  split at h
  · rename_i ha; rw [ha]; exact parseRSA_type _ _ _ h
  · split at h
    · rename_i ha; rw [ha]; exact parseDSA_type _ _ _ h
    · split at h
      · exact parseECDSA_type _ _ _ _ _ h
      · split at h
        · rename_i ha; rw [ha]; exact parseSKECDSA_type _ _ _ _ h
        · split at h
          · rename_i ha; rw [ha]; exact parseED25519_type _ _ _ h
          · split at h
            · rename_i ha; rw [ha]; exact parseSKEd25519_type _ _ _ h
            · cases h
end XC.C38
