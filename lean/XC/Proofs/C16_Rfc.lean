/-
  C16 — the implementation-shaped block-level algorithm (L2) equals RFC 7914 (L3):
  Salsa20/8, the BlockMix output interleaving, ROMix with the two-steps-per-iteration unrolling.
-/
import XC.Model.C16
namespace XC.C16

/-! ### Salsa20/8 -/

theorem dround_eq (s : Blk) : dround s = doubleround s := rfl

theorem salsaXOR_eq_rfc (t i : Blk) : salsaXOR t i = salsa208 (t.xor i) := by
  simp only [salsaXOR, salsa208, iterFn, dround_eq]

/-! ### BlockMix -/

theorem blockMixPairs_eq : ∀ (l : List Blk) (t : Blk),
    blockMixPairs t l = (evens (ysRfc t l), odds (ysRfc t l))
  | [], t => rfl
  | [a], t => by simp [blockMixPairs, ysRfc, evens, odds, salsaXOR_eq_rfc]
  | a :: b :: rest, t => by
    simp only [blockMixPairs, ysRfc, evens, odds, salsaXOR_eq_rfc]
    rw [blockMixPairs_eq rest]

/-- **blockMix_eq_rfc.** Writing the results of each pair of salsa calls to out[i/2] and
    out[i/2 + r] is the RFC's shuffle (Y0, Y2, …, Y(2r−2), Y1, Y3, …, Y(2r−1)). -/
theorem blockMixI_eq_rfc (b : List Blk) : blockMixI b = blockMixRfc b := by
  unfold blockMixI blockMixRfc
  cases b.getLast? with
  | none => rfl
  | some t => simp only [blockMixPairs_eq]

theorem blockMixI'_eq_rfc : blockMixI' = blockMixRfc' := by
  funext b; simp [blockMixI', blockMixRfc', blockMixI_eq_rfc]

/-! ### Integerify -/

theorem integerI_eq_rfc (b : List Blk) : integerI b = integerifyRfc b := by
  unfold integerI integerifyRfc
  cases b.getLast? with
  | none => rfl
  | some x =>
    simp only
    rw [UInt64.toNat_or, UInt64.toNat_shiftLeft, UInt32.toNat_toUInt64, UInt32.toNat_toUInt64]
    have h0 : x.x0.toNat < 2 ^ 32 := x.x0.toNat_lt
    have h1 : x.x1.toNat < 2 ^ 32 := x.x1.toNat_lt
    have e : (32 : UInt64).toNat % 64 = 32 := by decide
    rw [e, Nat.shiftLeft_eq]
    have hlt : x.x1.toNat * 2 ^ 32 < 2 ^ 64 := by omega
    rw [Nat.mod_eq_of_lt hlt, Nat.or_comm, ← Nat.shiftLeft_eq, ← Nat.shiftLeft_add_eq_or_of_lt h0,
      Nat.shiftLeft_eq]
    omega

/-! ### ROMix -/

/-- [x, f x, …, f^(k−1) x] -/
def iterList {α : Type} (f : α → α) : Nat → α → List α
  | 0, _ => []
  | k+1, x => x :: iterList f k (f x)

theorem iterList_length {α : Type} (f : α → α) : ∀ k x, (iterList f k x).length = k
  | 0, _ => rfl
  | k+1, x => by simp [iterList, iterList_length f k]

theorem iterList_get {α : Type} (f : α → α) : ∀ k x j, j < k → (iterList f k x)[j]? = some (iterFn f j x)
  | 0, _, _, h => by omega
  | k+1, x, 0, _ => by simp [iterList, iterFn]
  | k+1, x, j+1, h => by
    simp only [iterList, List.getElem?_cons_succ, iterFn]
    exact iterList_get f k (f x) j (by omega)

theorem iterFn_add {α : Type} (f : α → α) : ∀ a b x, iterFn f (a + b) x = iterFn f b (iterFn f a x)
  | 0, b, x => by simp [iterFn]
  | a+1, b, x => by
    rw [Nat.add_right_comm]; simp only [iterFn]; exact iterFn_add f a b (f x)

/-- the first loop stores V_0 … V_(2k−1) in index order and ends with X = BlockMix^(2k)(B) -/
theorem fillI_eq : ∀ k x, fillI k x = (iterList blockMixRfc' (2 * k) x, iterFn blockMixRfc' (2 * k) x)
  | 0, x => rfl
  | k+1, x => by
    have e : 2 * (k + 1) = 2 * k + 1 + 1 := by omega
    rw [e]
    simp only [fillI, fillI_eq k, blockMixI'_eq_rfc, iterList, iterFn]

/-- the second loop, two Integerify/XOR/BlockMix steps per iteration, is 2k steps of the RFC loop -/
theorem mixI_eq (m : Nat) (b : List Blk) (v : Array (List Blk))
    (hv : ∀ j, j < 2 ^ m → v[j]? = some (iterFn blockMixRfc' j b)) :
    ∀ k x, mixI (2 ^ m) v k x = some (romixSecond (2 ^ m) b (2 * k) x)
  | 0, x => rfl
  | k+1, x => by
    have e : 2 * (k + 1) = 2 * k + 1 + 1 := by omega
    rw [e]
    simp only [mixI, romixSecond, Option.bind_eq_bind]
    have hj : ∀ y, integerI y &&& (2 ^ m - 1) = integerifyRfc y % 2 ^ m := by
      intro y; rw [Nat.and_two_pow_sub_one_eq_mod, integerI_eq_rfc]
    have hlt : ∀ y, integerifyRfc y % 2 ^ m < 2 ^ m := fun y => Nat.mod_lt _ (Nat.two_pow_pos m)
    rw [hj x, hv _ (hlt x)]
    simp only [Option.bind_some, blockMixI'_eq_rfc]
    rw [hj, hv _ (hlt _)]
    simp only [Option.bind_some]
    exact mixI_eq m b v hv k _

/-- **smix_eq_rfc.** For N = 2^m ≥ 2 the unrolled smix (V filled two entries per iteration, the
    x/y ping-pong of the second loop, `& (N−1)` for `mod N`) is scryptROMix, and no V index misses. -/
theorem smixI_eq_rfc (m : Nat) (hm : 1 ≤ m) (b : List Blk) : smixI (2 ^ m) b = some (romixRfc (2 ^ m) b) := by
  unfold smixI romixRfc
  have h2 : 2 * (2 ^ m / 2) = 2 ^ m := by
    obtain ⟨m', rfl⟩ : ∃ m', m = m' + 1 := ⟨m - 1, by omega⟩
    rw [Nat.pow_succ]; omega
  rw [fillI_eq]
  simp only
  rw [mixI_eq m b _ _ (2 ^ m / 2), h2]
  intro j hj
  rw [List.getElem?_toArray, h2]
  exact iterList_get _ _ _ _ hj

/-! ### `N&(N-1) == 0` -/

theorem pow2_of_and_pred : ∀ n : Nat, 1 ≤ n → n &&& (n - 1) = 0 → ∃ m, n = 2 ^ m := by
  intro n
  induction n using Nat.strongRecOn with
  | ind n ih =>
    intro h1 h0
    by_cases hn : n = 1
    · exact ⟨0, hn⟩
    have hd : n / 2 &&& (n - 1) / 2 = 0 := by rw [← Nat.and_div_two, h0]
    by_cases hodd : n % 2 = 1
    · have : (n - 1) / 2 = n / 2 := by omega
      rw [this, Nat.and_self] at hd
      omega
    · have : (n - 1) / 2 = n / 2 - 1 := by omega
      rw [this] at hd
      obtain ⟨m, hm⟩ := ih (n / 2) (by omega) (by omega) hd
      exact ⟨m + 1, by rw [Nat.pow_succ]; omega⟩

/-- `N > 1 && N&(N-1) == 0` really means "a power of two ≥ 2" -/
theorem andPred_pow2 {n : Int} (h2 : 2 ≤ n) (h : andPred n = 0) : ∃ m, 1 ≤ m ∧ n = ((2 ^ m : Nat) : Int) := by
  unfold andPred at h
  obtain ⟨m, hm⟩ := pow2_of_and_pred n.toNat (by omega) h
  refine ⟨m, ?_, by omega⟩
  cases m with
  | zero => simp at hm; omega
  | succ m => omega

end XC.C16
