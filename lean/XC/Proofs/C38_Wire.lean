/-
  Round-trip and canonicity lemmas for the SSH wire primitives of XC.Model.C38_Wire.
-/
import XC.Model.C38_Wire
namespace XC.C38
open XC

theorem u8_toNat (n : Nat) : (UInt8.ofNat n).toNat = n % 256 := by
  simp [UInt8.toNat_ofNat']

theorem u8_ofNat_toNat (a : UInt8) : UInt8.ofNat a.toNat = a := by
  simp

theorem u8_lt (a : UInt8) : a.toNat < 256 := UInt8.toNat_lt a

/-! ## uint32 / uint64 -/

theorem parseU32_putU32 (n : Nat) (h : n < 4294967296) (r : Bytes) :
    parseU32 (putU32 n ++ r) = some (n, r) := by
  simp only [putU32, List.cons_append, List.nil_append, parseU32, u8_toNat]
  congr 2
  omega

theorem parseU32_inv {b : Bytes} {n : Nat} {r : Bytes} (h : parseU32 b = some (n, r)) :
    b = putU32 n ++ r ∧ n < 4294967296 := by
  match b, h with
  | a :: b :: c :: d :: r', h =>
    simp only [parseU32, Option.some.injEq, Prod.mk.injEq] at h
    obtain ⟨hn, hr⟩ := h
    subst hr
    have ha := u8_lt a; have hb := u8_lt b; have hc := u8_lt c; have hd := u8_lt d
    refine ⟨?_, by omega⟩
    simp only [putU32, List.cons_append, List.nil_append]
    have e1 : n / 16777216 = a.toNat := by omega
    have e2 : UInt8.ofNat (n / 65536) = b := by
      rw [← u8_ofNat_toNat b]; apply UInt8.toNat_inj.mp; simp only [u8_toNat]; omega
    have e3 : UInt8.ofNat (n / 256) = c := by
      rw [← u8_ofNat_toNat c]; apply UInt8.toNat_inj.mp; simp only [u8_toNat]; omega
    have e4 : UInt8.ofNat n = d := by
      rw [← u8_ofNat_toNat d]; apply UInt8.toNat_inj.mp; simp only [u8_toNat]; omega
    rw [e1, u8_ofNat_toNat, e2, e3, e4]

theorem putU32_length (n : Nat) : (putU32 n).length = 4 := rfl

theorem u8_ofNat_eq {a b : Nat} (h : a % 256 = b % 256) : UInt8.ofNat a = UInt8.ofNat b := by
  apply UInt8.toNat_inj.mp; simp only [u8_toNat, h]

theorem putU32_congr {n m : Nat} (h : n % 4294967296 = m % 4294967296) : putU32 n = putU32 m := by
  simp only [putU32, List.cons.injEq, and_true]
  exact ⟨u8_ofNat_eq (by omega), u8_ofNat_eq (by omega), u8_ofNat_eq (by omega), u8_ofNat_eq (by omega)⟩

theorem parseU64_putU64 (n : Nat) (h : n < 18446744073709551616) (r : Bytes) :
    parseU64 (putU64 n ++ r) = some (n, r) := by
  unfold parseU64 putU64
  have h1 : n / 4294967296 < 4294967296 := by omega
  rw [List.append_assoc, parseU32_putU32 _ h1]
  simp only
  have h2 : putU32 n = putU32 (n % 4294967296) := putU32_congr (by omega)
  rw [h2, parseU32_putU32 _ (by omega)]
  simp only [Option.some.injEq, Prod.mk.injEq, and_true]
  omega

theorem parseU64_inv {b : Bytes} {n : Nat} {r : Bytes} (h : parseU64 b = some (n, r)) :
    b = putU64 n ++ r ∧ n < 18446744073709551616 := by
  unfold parseU64 at h
  cases h1 : parseU32 b with
  | none => simp [h1] at h
  | some p1 =>
    obtain ⟨hi, r1⟩ := p1
    simp only [h1] at h
    cases h2 : parseU32 r1 with
    | none => simp [h2] at h
    | some p2 =>
      obtain ⟨lo, r2⟩ := p2
      simp only [h2, Option.some.injEq, Prod.mk.injEq] at h
      obtain ⟨hn, hr⟩ := h
      subst hr
      obtain ⟨e1, l1⟩ := parseU32_inv h1
      obtain ⟨e2, l2⟩ := parseU32_inv h2
      refine ⟨?_, by omega⟩
      have d1 : n / 4294967296 = hi := by omega
      have d2 : putU32 n = putU32 lo := putU32_congr (by omega)
      rw [e1, e2, putU64, d1, d2, List.append_assoc]

/-! ## strings -/

theorem parseString_putString (s : Bytes) (h : s.length < 4294967296) (r : Bytes) :
    parseString (putString s ++ r) = some (s, r) := by
  unfold parseString putString
  rw [List.append_assoc, parseU32_putU32 _ h]
  simp

/-- strings are canonical: a successful parse determines the consumed bytes -/
theorem parseString_inv {b s r : Bytes} (h : parseString b = some (s, r)) :
    b = putString s ++ r ∧ s.length < 4294967296 := by
  unfold parseString at h
  cases h1 : parseU32 b with
  | none => simp [h1] at h
  | some p =>
    obtain ⟨n, r1⟩ := p
    simp only [h1] at h
    by_cases hl : r1.length < n
    · simp [hl] at h
    · simp only [hl, ↓reduceIte, Option.some.injEq, Prod.mk.injEq] at h
      obtain ⟨hs, hr⟩ := h
      obtain ⟨e1, l1⟩ := parseU32_inv h1
      have hlen : s.length = n := by rw [← hs]; simp; omega
      refine ⟨?_, by omega⟩
      rw [putString, hlen, e1, List.append_assoc, ← hs, ← hr, List.take_append_drop]

theorem putString_length (s : Bytes) : (putString s).length = 4 + s.length := by
  simp [putString, putU32_length]

theorem parseString_length {b s r : Bytes} (h : parseString b = some (s, r)) :
    b.length = 4 + s.length + r.length := by
  obtain ⟨e, _⟩ := parseString_inv h
  rw [e]; simp [putString_length]

/-! ## lists of strings -/
theorem putString_append_isEmpty (s x : Bytes) : (putString s ++ x).isEmpty = false := by
  simp only [putString, putU32, List.cons_append, List.isEmpty_cons]

theorem putStrings_cons (s : Bytes) (t : List Bytes) : putStrings (s :: t) = putString s ++ putStrings t := by
  simp only [putStrings, List.map_cons, List.flatten_cons]

theorem parseStringsGo_put (l : List Bytes) (hl : ∀ s ∈ l, s.length < 4294967296) :
    ∀ f, (putStrings l).length ≤ f → parseStringsGo f (putStrings l) = some l := by
  induction l with
  | nil =>
    intro f _
    cases f with
    | zero => rfl
    | succ f => rfl
  | cons s t ih =>
    intro f hf
    have hs := hl s (List.mem_cons_self ..)
    have ht : ∀ x ∈ t, x.length < 4294967296 := fun x hx => hl x (List.mem_cons_of_mem _ hx)
    rw [putStrings_cons] at hf ⊢
    rw [List.length_append, putString_length] at hf
    cases f with
    | zero => omega
    | succ f =>
      rw [parseStringsGo, putString_append_isEmpty]
      simp only [Bool.false_eq_true, ↓reduceIte, parseString_putString s hs]
      rw [ih ht f (by omega)]
      rfl

theorem parseStrings_putStrings (l : List Bytes) (hl : ∀ s ∈ l, s.length < 4294967296) :
    parseStrings (putStrings l) = some l :=
  parseStringsGo_put l hl _ (Nat.le_refl _)

theorem parseStringsGo_inv : ∀ (f : Nat) (b : Bytes) (l : List Bytes),
    parseStringsGo f b = some l → b = putStrings l := by
  intro f
  induction f with
  | zero =>
    intro b l h
    cases b with
    | nil =>
      simp only [parseStringsGo, List.isEmpty_nil, ↓reduceIte, Option.some.injEq] at h
      subst h; rfl
    | cons a t => simp only [parseStringsGo, List.isEmpty_cons, Bool.false_eq_true, ↓reduceIte, reduceCtorEq] at h
  | succ f ih =>
    intro b l h
    cases b with
    | nil =>
      simp only [parseStringsGo, List.isEmpty_nil, ↓reduceIte, Option.some.injEq] at h
      subst h; rfl
    | cons a t =>
      rw [parseStringsGo] at h
      simp only [List.isEmpty_cons, Bool.false_eq_true, ↓reduceIte] at h
      cases hp : parseString (a :: t) with
      | none => rw [hp] at h; simp only [reduceCtorEq] at h
      | some p =>
        obtain ⟨s, r⟩ := p
        rw [hp] at h
        simp only [Option.map_eq_some_iff] at h
        obtain ⟨l', hl', rfl⟩ := h
        have e2 := ih r l' hl'
        obtain ⟨e, _⟩ := parseString_inv hp
        rw [e, e2, putStrings_cons]

/-- the principals field is canonical -/
theorem parseStrings_inv {b : Bytes} {l : List Bytes} (h : parseStrings b = some l) : b = putStrings l :=
  parseStringsGo_inv _ _ _ h
theorem nat_xor255 : ∀ n, n < 256 → n ^^^ 255 = 255 - n := by decide +kernel
theorem xor255_toNat (b : UInt8) : (b ^^^ 255).toNat = 255 - b.toNat := by
  rw [UInt8.toNat_xor]; exact nat_xor255 _ (u8_lt b)
theorem xor255_xor255 (b : UInt8) : (b ^^^ 255) ^^^ 255 = b := by
  apply UInt8.toNat_inj.mp
  rw [xor255_toNat, xor255_toNat]
  have := u8_lt b
  omega

theorem map_xor255_twice (l : Bytes) : (l.map (fun x => x ^^^ 255)).map (fun x => x ^^^ 255) = l := by
  induction l with
  | nil => rfl
  | cons a t ih => simp only [List.map_cons, xor255_xor255, ih]

theorem beNat_foldl (l : Bytes) (a : Nat) :
    l.foldl (fun a b => a * 256 + b.toNat) a = a * 256 ^ l.length + beNat l := by
  induction l generalizing a with
  | nil => simp [beNat]
  | cons x t ih =>
    simp only [List.foldl_cons, List.length_cons, beNat]
    rw [ih, ih (0 * 256 + x.toNat)]
    simp only [Nat.zero_mul, Nat.zero_add, Nat.pow_succ]
    rw [Nat.add_mul, Nat.mul_assoc, Nat.add_assoc, Nat.mul_comm 256]

theorem beNat_cons (x : UInt8) (l : Bytes) : beNat (x :: l) = x.toNat * 256 ^ l.length + beNat l := by
  have := beNat_foldl l (0 * 256 + x.toNat)
  simp only [Nat.zero_mul, Nat.zero_add] at this
  simpa [beNat] using this

theorem natBytesGo_zero (f : Nat) (acc : Bytes) : natBytesGo f 0 acc = acc := by
  cases f <;> simp [natBytesGo]

theorem natBytesGo_val : ∀ (f n : Nat) (acc : Bytes), n ≤ f →
    beNat (natBytesGo f n acc) = n * 256 ^ acc.length + beNat acc := by
  intro f
  induction f with
  | zero => intro n acc h; have : n = 0 := by omega
            subst this; simp [natBytesGo]
  | succ f ih =>
    intro n acc h
    by_cases hn : n = 0
    · subst hn; simp [natBytesGo]
    · simp only [natBytesGo, hn, ↓reduceIte]
      rw [ih (n / 256) _ (by omega), beNat_cons, u8_toNat, List.length_cons, Nat.pow_succ]
      have := Nat.div_add_mod n 256
      calc n / 256 * (256 ^ acc.length * 256) + (n % 256 * 256 ^ acc.length + beNat acc)
          = (256 * (n / 256) + n % 256) * 256 ^ acc.length + beNat acc := by
            rw [Nat.add_mul, Nat.mul_comm (256 ^ acc.length) 256, ← Nat.mul_assoc, Nat.mul_comm (n/256) 256, Nat.add_assoc]
        _ = n * 256 ^ acc.length + beNat acc := by rw [this]

theorem natBytes_val (n : Nat) : beNat (natBytes n) = n := by
  have := natBytesGo_val n n [] (Nat.le_refl _)
  simpa [natBytes, beNat] using this

theorem natBytesGo_head : ∀ (f n : Nat) (acc : Bytes), n ≤ f → n ≠ 0 →
    ∃ b t, natBytesGo f n acc = b :: t ∧ b.toNat ≠ 0 := by
  intro f
  induction f with
  | zero => intro n acc h hn; omega
  | succ f ih =>
    intro n acc h hn
    simp only [natBytesGo, hn, ↓reduceIte]
    by_cases hq : n / 256 = 0
    · rw [hq, natBytesGo_zero]
      refine ⟨_, _, rfl, ?_⟩
      rw [u8_toNat]; omega
    · exact ih (n / 256) _ (by omega) hq

theorem natBytes_head (n : Nat) (hn : n ≠ 0) : ∃ b t, natBytes n = b :: t ∧ b.toNat ≠ 0 :=
  natBytesGo_head n n [] (Nat.le_refl _) hn

theorem natBytes_zero : natBytes 0 = [] := rfl

/-- `parseInt ∘ marshalInt = id` on every integer -/
theorem mpintVal_mpintBytes (n : Int) : mpintVal (mpintBytes n) = n := by
  unfold mpintBytes
  by_cases hneg : n < 0
  · simp only [hneg, ↓reduceIte]
    by_cases hm : (-n - 1).toNat = 0
    · rw [hm, natBytes_zero]
      simp only [List.map_nil]
      have : n = -1 := by omega
      subst this
      show mpintVal [255] = -1
      decide
    · obtain ⟨b, t, hbt, hb⟩ := natBytes_head _ hm
      have hv := natBytes_val (-n - 1).toNat
      rw [hbt] at hv ⊢
      simp only [List.map_cons]
      have hx := xor255_toNat b
      by_cases hlt : (b ^^^ 255).toNat < 128
      · simp only [hlt, ↓reduceIte, mpintVal]
        have h255 : (255 : UInt8).toNat ≥ 128 := by decide
        simp only [h255, ↓reduceIte, List.map_cons, xor255_xor255, map_xor255_twice]
        have : ((255 : UInt8) ^^^ 255) = 0 := by decide
        rw [this, beNat_cons]
        simp only [UInt8.toNat_zero, Nat.zero_mul, Nat.zero_add]
        rw [hv]; omega
      · simp only [hlt, ↓reduceIte, mpintVal]
        have : (b ^^^ 255).toNat ≥ 128 := by omega
        simp only [this, ↓reduceIte, List.map_cons, xor255_xor255, map_xor255_twice]
        rw [hv]; omega
  · simp only [hneg, ↓reduceIte]
    by_cases hz : n = 0
    · simp [hz, mpintVal]
    · simp only [hz, ↓reduceIte]
      have hm : n.toNat ≠ 0 := by omega
      obtain ⟨b, t, hbt, hb⟩ := natBytes_head _ hm
      have hv := natBytes_val n.toNat
      rw [hbt] at hv ⊢
      by_cases hge : b.toNat ≥ 128
      · simp only [hge, ↓reduceIte, mpintVal]
        have : ¬ ((0 : UInt8).toNat ≥ 128) := by decide
        simp only [this, ↓reduceIte]
        rw [beNat_cons]
        simp only [UInt8.toNat_zero, Nat.zero_mul, Nat.zero_add]
        rw [hv]; omega
      · simp only [hge, ↓reduceIte, mpintVal]
        rw [hv]; omega

theorem parseMpint_putMpint (n : Int) (h : (mpintBytes n).length < 4294967296) (r : Bytes) :
    parseMpint (putMpint n ++ r) = some (n, r) := by
  have e := parseString_putString (mpintBytes n) h r
  rw [parseMpint, putMpint, e]
  show some (mpintVal (mpintBytes n), r) = some (n, r)
  rw [mpintVal_mpintBytes]

/-- mpints are NOT canonical on the parse side: redundant sign-extension bytes are accepted -/
theorem mpint_noncanonical : mpintVal [0, 1] = mpintVal [1] ∧ mpintBytes (mpintVal [0, 1]) = [1] := by
  decide +kernel

end XC.C38
