/-
  C12 — the Go-shaped TEA / XTEA loops equal the published reference recursions.
-/
import XC.Model.C12
import XC.Proofs.C12_Feistel
namespace XC.C12

namespace Tea

theorem encLoop_eq_ref (k : Key) (n : Nat) (v : UInt32 × UInt32) : encLoop k n 0 v = refEnc k n v := by
  induction n with
  | zero => rfl
  | succ n ih => rw [encLoop_succ, ih, UInt32.zero_add]; rfl

theorem decLoop_eq_ref (k : Key) (n : Nat) (v : UInt32 × UInt32) :
    decLoop k n (delta * UInt32.ofNat n) v = refDec k n v := by
  induction n generalizing v with
  | zero => rfl
  | succ n ih =>
    rw [decLoop, refDec]
    have : delta * UInt32.ofNat (n + 1) - delta = delta * UInt32.ofNat n := by
      have : UInt32.ofNat (n + 1) = UInt32.ofNat n + 1 := by rw [UInt32.ofNat_add n 1]; simp
      rw [this, UInt32.mul_add, UInt32.mul_one, UInt32.add_sub_cancel]
    rw [this, ih]

end Tea


namespace Xtea

theorem encStep_ref (k : K4) (sum : UInt32) (v : UInt32 × UInt32) :
    encStep v (sum + sel k (sum &&& 3), sum + delta + sel k (((sum + delta) >>> 11) &&& 3)) =
    (v.1 + ((((v.2 <<< 4) ^^^ (v.2 >>> 5)) + v.2) ^^^ (sum + sel k (sum &&& 3))),
     v.2 + (((((v.1 + ((((v.2 <<< 4) ^^^ (v.2 >>> 5)) + v.2) ^^^ (sum + sel k (sum &&& 3)))) <<< 4) ^^^
        ((v.1 + ((((v.2 <<< 4) ^^^ (v.2 >>> 5)) + v.2) ^^^ (sum + sel k (sum &&& 3)))) >>> 5)) +
        (v.1 + ((((v.2 <<< 4) ^^^ (v.2 >>> 5)) + v.2) ^^^ (sum + sel k (sum &&& 3))))) ^^^
        (sum + delta + sel k (((sum + delta) >>> 11) &&& 3)))) := by
  unfold encStep
  rfl

theorem enc_table_eq_ref (k : K4) (n : Nat) (sum : UInt32) (v : UInt32 × UInt32) :
    encryptW (tableLoop k n sum) v = refEnc k n sum v := by
  induction n generalizing sum v with
  | zero => rfl
  | succ n ih =>
    unfold tableLoop refEnc
    unfold encryptW
    rw [List.foldl_cons]
    have := ih (sum + delta) (encStep v (sum + sel k (sum &&& 3), sum + delta + sel k (((sum + delta) >>> 11) &&& 3)))
    unfold encryptW at this
    rw [this, encStep_ref]

/-- one cycle of the reference decryption at running sum `sum` -/
def refDecStep (k : K4) (sum : UInt32) (v : UInt32 × UInt32) : UInt32 × UInt32 :=
  let v1 := v.2 - ((((v.1 <<< 4) ^^^ (v.1 >>> 5)) + v.1) ^^^ (sum + sel k ((sum >>> 11) &&& 3)))
  let v0 := v.1 - ((((v1 <<< 4) ^^^ (v1 >>> 5)) + v1) ^^^ ((sum - delta) + sel k ((sum - delta) &&& 3)))
  (v0, v1)

theorem refDec_unfold (k : K4) (n : Nat) (sum : UInt32) (v : UInt32 × UInt32) :
    refDec k (n+1) sum v = refDec k n (sum - delta) (refDecStep k sum v) := by
  unfold refDecStep
  conv => lhs; unfold refDec

theorem ring1 (S d : UInt32) (n : Nat) : S - d - d * UInt32.ofNat n = S - d * UInt32.ofNat (n + 1) := by
  have : UInt32.ofNat (n + 1) = UInt32.ofNat n + 1 := by rw [UInt32.ofNat_add n 1]; simp
  rw [this]; grind

theorem ring2 (s d : UInt32) (n : Nat) : s + d * UInt32.ofNat (n + 1) - d * UInt32.ofNat n = s + d := by
  have : UInt32.ofNat (n + 1) = UInt32.ofNat n + 1 := by rw [UInt32.ofNat_add n 1]; simp
  rw [this]; grind

theorem ring3 (s d : UInt32) (n : Nat) : s + d + d * UInt32.ofNat n = s + d * UInt32.ofNat (n + 1) := by
  have : UInt32.ofNat (n + 1) = UInt32.ofNat n + 1 := by rw [UInt32.ofNat_add n 1]; simp
  rw [this]; grind

/-- peel the LAST cycle (lowest sum) off the reference decryption -/
theorem refDec_snoc (k : K4) (n : Nat) (S : UInt32) (v : UInt32 × UInt32) :
    refDec k (n+1) S v = refDecStep k (S - delta * UInt32.ofNat n) (refDec k n S v) := by
  induction n generalizing S v with
  | zero =>
    rw [refDec_unfold]
    have : delta * UInt32.ofNat 0 = 0 := by simp
    rw [this, UInt32.sub_zero]
    rfl
  | succ n ih =>
    rw [refDec_unfold, ih, ring1]
    conv => rhs; rw [refDec_unfold]

theorem decStep_ref (k : K4) (s : UInt32) (w : UInt32 × UInt32) :
    decStep w (s + sel k (s &&& 3), s + delta + sel k (((s + delta) >>> 11) &&& 3)) = refDecStep k (s + delta) w := by
  unfold decStep refDecStep
  simp only [UInt32.add_sub_cancel]

theorem dec_table_eq_ref (k : K4) (n : Nat) (s : UInt32) (v : UInt32 × UInt32) :
    decryptW (tableLoop k n s) v = refDec k n (s + delta * UInt32.ofNat n) v := by
  induction n generalizing s v with
  | zero => rfl
  | succ n ih =>
    unfold tableLoop decryptW
    rw [List.reverse_cons, List.foldl_append, List.foldl_cons, List.foldl_nil]
    have := ih (s + delta) v
    unfold decryptW at this
    rw [this, decStep_ref, refDec_snoc, ring2, ring3]


end Xtea
end XC.C12
