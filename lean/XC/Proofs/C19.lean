/-
  C19 — the Go-shaped strided stores equal OpenBSD's gather layout.
-/
import XC.Model.C19
namespace XC.C19

/-- generalised scatter: `out` enumerated from index `s` -/
theorem scatter_fold_get (nb b : Nat) (hb : b < nb) (out : Bytes) (s : Nat) (key : Array UInt8) (j : Nat)
    (hj : j < key.size) (hsz : (s + out.length) * nb ≤ key.size) :
    ((out.zipIdx s).foldl (fun (k : Array UInt8) (vi : UInt8 × Nat) => k.set! (vi.2 * nb + b) vi.1) key)[j]! =
      if j % nb = b ∧ s ≤ j / nb ∧ j / nb < s + out.length then out[j / nb - s]! else key[j]! := by
  induction out generalizing s key with
  | nil =>
    simp only [List.zipIdx_nil, List.foldl_nil, List.length_nil, Nat.add_zero]
    have : ¬ (j % nb = b ∧ s ≤ j / nb ∧ j / nb < s) := by omega
    simp [this]
  | cons v vs ih =>
    simp only [List.zipIdx_cons, List.foldl_cons, List.length_cons] at hsz ⊢
    have hpos : s * nb + b < key.size := by
      have : (s + 1) * nb ≤ (s + (vs.length + 1)) * nb := Nat.mul_le_mul_right _ (by omega)
      rw [Nat.succ_mul] at this
      omega
    rw [ih (s + 1) (key.set! (s * nb + b) v) (by simpa using hj) (by
      simp only [Array.set!_eq_setIfInBounds, Array.size_setIfInBounds]
      have : s + 1 + vs.length = s + (vs.length + 1) := by omega
      rw [this]; exact hsz)]
    have hdiv : (s * nb + b) / nb = s := by
      rw [Nat.add_comm, Nat.add_mul_div_right _ _ (by omega), Nat.div_eq_of_lt hb, Nat.zero_add]
    have hmod : (s * nb + b) % nb = b := by
      rw [Nat.add_comm, Nat.add_mul_mod_self_right, Nat.mod_eq_of_lt hb]
    by_cases hjs : j = s * nb + b
    · subst hjs
      rw [hdiv, hmod]
      have c1 : ¬ (b = b ∧ s + 1 ≤ s ∧ s < s + 1 + vs.length) := by omega
      have c2 : (b = b ∧ s ≤ s ∧ s < s + (vs.length + 1)) := by omega
      simp only [c1, c2, if_false, if_true, Nat.sub_self, List.getElem!_cons_zero]
      simp [Array.set!_eq_setIfInBounds, hpos]
      intro h; omega
    · have hget : (key.set! (s * nb + b) v)[j]! = key[j]! := by
        simp only [Array.set!_eq_setIfInBounds]
        rw [Array.getElem!_eq_getD, Array.getElem!_eq_getD]
        simp [Array.getElem?_setIfInBounds, Ne.symm hjs]
      rw [hget]
      by_cases hc : j % nb = b ∧ s ≤ j / nb ∧ j / nb < s + (vs.length + 1)
      · have hne : j / nb ≠ s := by
          intro h
          apply hjs
          have := Nat.div_add_mod j nb
          rw [h, hc.1] at this
          rw [← this, Nat.mul_comm]
        have c1 : j % nb = b ∧ s + 1 ≤ j / nb ∧ j / nb < s + 1 + vs.length := by omega
        simp only [c1, hc, and_self, if_true]
        have : j / nb - s = (j / nb - (s + 1)) + 1 := by omega
        rw [this, List.getElem!_cons_succ]
      · have c1 : ¬ (j % nb = b ∧ s + 1 ≤ j / nb ∧ j / nb < s + 1 + vs.length) := by omega
        simp only [c1, hc, if_false]

open XC.C12

theorem u32be_length' (w : UInt32) : (u32be w).length = 4 := by simp [u32be, natToBE, natToLE_length]

theorem iter_enc_len (c : Blowfish.Box) (n : Nat) (src : Bytes) (h : src.length = 8) :
    (iter (Blowfish.encrypt c) n src).length = 8 := by
  induction n generalizing src with
  | zero => exact h
  | succ n ih => exact ih _ (by simp [Blowfish.encrypt, join8, u32be_length'])

theorem swap4_len (b : Bytes) : (swap4 b).length = b.length := by
  fun_induction swap4 b <;> simp_all

theorem bcryptHash_len (p s out : Bytes) (h : bcryptHash p s = some out) : out.length = 32 := by
  unfold bcryptHash at h
  split at h
  · cases h
  · injection h with h
    subst h
    rw [swap4_len]
    simp only [List.length_append]
    rw [iter_enc_len _ 64 _ (by decide), iter_enc_len _ 64 _ (by decide), iter_enc_len _ 64 _ (by decide),
      iter_enc_len _ 64 _ (by decide)]

theorem foldRounds_len (p : Bytes) (n : Nat) (tmp out res : Bytes) (ho : out.length = 32)
    (h : foldRounds p n tmp out = some res) : res.length = 32 := by
  induction n generalizing tmp out with
  | zero => simp only [foldRounds] at h; injection h with h; subst h; exact ho
  | succ n ih =>
    simp only [foldRounds] at h
    cases hb : bcryptHash p (XC.Prim.sha512 tmp) with
    | none => simp [hb] at h
    | some t =>
      simp only [hb] at h
      exact ih _ _ (by simp [xorBytes_length, ho, bcryptHash_len _ _ _ hb]) h

theorem blockOut_len (p salt : Bytes) (rounds block : Nat) (res : Bytes)
    (h : blockOut p salt rounds block = some res) : res.length = 32 := by
  unfold blockOut at h
  cases hb : bcryptHash p (XC.Prim.sha512 (salt ++ u32be (UInt32.ofNat block))) with
  | none => simp [hb] at h
  | some t =>
    simp only [hb] at h
    exact foldRounds_len _ _ _ _ _ (bcryptHash_len _ _ _ hb) h

theorem scatter_size' (key : Array UInt8) (nb b : Nat) (out : Bytes) : (scatter key nb b out).size = key.size := by
  unfold scatter
  generalize out.zipIdx = l
  induction l generalizing key with
  | nil => rfl
  | cons x xs ih => simp only [List.foldl_cons]; rw [ih]; simp

/-- the block loop: after processing blocks `nb - todo … nb - 1`, byte `j` of the key array is byte
    `j / nb` of block `j % nb` for those blocks and untouched otherwise -/
theorem blocksGo_get (p salt : Bytes) (rounds nb : Nat) (todo : Nat) (htodo : todo ≤ nb) (key k : Array UInt8)
    (hsz : key.size = nb * 32) (h : blocksGo p salt rounds nb todo key = some k) (j : Nat) (hj : j < nb * 32) :
    k[j]! = if nb - todo ≤ j % nb then ((blockOut p salt rounds (j % nb + 1)).getD [])[j / nb]! else key[j]! := by
  induction todo generalizing key with
  | zero =>
    simp only [blocksGo] at h; injection h with h; subst h
    have hnb : 0 < nb := by
      rcases Nat.eq_zero_or_pos nb with h0 | h0
      · subst h0; simp at hj
      · exact h0
    have := Nat.mod_lt j hnb
    have : ¬ (nb - 0 ≤ j % nb) := by omega
    simp only [this, if_false]
  | succ n ih =>
    have hnb : 0 < nb := by omega
    simp only [blocksGo] at h
    cases hb : blockOut p salt rounds (nb - (n + 1) + 1) with
    | none => simp [hb] at h
    | some out =>
      simp only [hb] at h
      have hol := blockOut_len _ _ _ _ _ hb
      have hs2 : (scatter key nb (nb - (n + 1)) out).size = nb * 32 := by rw [scatter_size', hsz]
      rw [ih (by omega) _ hs2 h]
      have hg := scatter_fold_get nb (nb - (n + 1)) (by omega) out 0 key j (by omega) (by rw [hol, hsz]; omega)
      have hsc : (scatter key nb (nb - (n + 1)) out)[j]! =
          if j % nb = nb - (n + 1) ∧ 0 ≤ j / nb ∧ j / nb < 0 + out.length then out[j / nb - 0]! else key[j]! := hg
      have hdiv : j / nb < 32 := (Nat.div_lt_iff_lt_mul hnb).mpr (by rw [Nat.mul_comm]; exact hj)
      by_cases c1 : nb - n ≤ j % nb
      · have c2 : nb - (n + 1) ≤ j % nb := by omega
        simp [c1, c2]
      · by_cases c3 : j % nb = nb - (n + 1)
        · have c2 : nb - (n + 1) ≤ j % nb := by omega
          simp only [c1, c2, if_false, if_true, hsc]
          have : (j % nb = nb - (n + 1) ∧ 0 ≤ j / nb ∧ j / nb < 0 + out.length) := ⟨c3, Nat.zero_le _, by rw [hol]; omega⟩
          simp only [this, and_self, if_true, Nat.sub_zero]
          rw [hb]; rfl
        · have c2 : ¬ (nb - (n + 1) ≤ j % nb) := by omega
          have : ¬ (j % nb = nb - (n + 1) ∧ 0 ≤ j / nb ∧ j / nb < 0 + out.length) := by omega
          simp only [c1, c2, if_false, hsc, this]

/-- a returned key is OpenBSD's layout: output byte `j` (j < keyLen) is byte `j / numBlocks` of the
    32-byte result of block `j % numBlocks + 1` — the Go-shaped strided stores followed by
    `key[:keyLen]` compute exactly this gather -/
theorem key_eq_gather (pw salt : Bytes) (rounds keyLen : Int) (k : Bytes)
    (h : key pw salt rounds keyLen = .ok k) :
    k = gather ((List.range ((keyLen.toNat + 31) / 32)).map
          (fun b => (blockOut (XC.Prim.sha512 pw) salt rounds.toNat (b + 1)).getD []))
        ((keyLen.toNat + 31) / 32) keyLen.toNat := by
  unfold key at h
  split at h; · cases h
  split at h; · cases h
  split at h; · cases h
  split at h; · cases h
  split at h; · cases h
  simp only at h
  generalize hnb : (keyLen.toNat + 31) / 32 = nb at h ⊢
  cases hb : blocksGo (XC.Prim.sha512 pw) salt rounds.toNat nb nb (Array.replicate (nb * 32) 0) with
  | none => simp [hb] at h
  | some k' =>
    simp only [hb] at h
    injection h with h
    subst h
    have hget := blocksGo_get (XC.Prim.sha512 pw) salt rounds.toNat nb nb (Nat.le_refl _) _ k' (by simp) hb
    have hsz : k'.size = nb * 32 := by
      have : ∀ todo key k, blocksGo (XC.Prim.sha512 pw) salt rounds.toNat nb todo key = some k → k.size = key.size := by
        intro todo
        induction todo with
        | zero => intro key k hk; simp only [blocksGo] at hk; injection hk with hk; rw [hk]
        | succ n ih =>
          intro key k hk
          simp only [blocksGo] at hk
          cases hbo : blockOut (XC.Prim.sha512 pw) salt rounds.toNat (nb - (n + 1) + 1) with
          | none => simp [hbo] at hk
          | some out => simp only [hbo] at hk; rw [ih _ _ hk, scatter_size']
      rw [this _ _ _ hb]; simp
    have hkl : keyLen.toNat ≤ nb * 32 := by omega
    apply List.ext_getElem
    · simp [gather, hsz]; omega
    · intro j h1 h2
      simp only [gather, List.getElem_map, List.getElem_range, List.getElem_take, Array.getElem_toList]
      have hj : j < keyLen.toNat := by simpa [gather] using h2
      have hjn : j < nb * 32 := by omega
      have hnbpos : 0 < nb := by
        rcases Nat.eq_zero_or_pos nb with h0 | h0
        · subst h0; omega
        · exact h0
      have hm := Nat.mod_lt j hnbpos
      have e := hget j hjn
      have c : nb - nb ≤ j % nb := by omega
      simp only [c, if_true] at e
      have e' : k'[j]! = k'[j]'(by omega) := by
        rw [getElem!_pos k' j (by omega)]
      rw [← e', e]
      have : ((List.range nb).map (fun b => (blockOut (XC.Prim.sha512 pw) salt rounds.toNat (b + 1)).getD [])).getD (j % nb) []
          = (blockOut (XC.Prim.sha512 pw) salt rounds.toNat (j % nb + 1)).getD [] := by
        simp [List.getD_eq_getElem?_getD, hm]
      rw [this]
      simp [List.getD_eq_getElem?_getD]
      rfl

end XC.C19
