/-
  C47 — the key-slot cache: the invariant "four slots, used ones hold pairwise distinct key-id pairs",
  its preservation, and the pigeonhole argument that makes `calcDataKeys` succeed for current key ids
  (fixed code af2a104: a slot whose key ids left the window is reused when none is free).
-/
import XC.Model.C47
namespace XC.C47

def keyOf (s : Slot) : Nat × Nat := (s.myKeyId, s.theirKeyId)

def usedKeys (ss : List Slot) : List (Nat × Nat) := (ss.filter (·.used)).map keyOf

def SlotInv (ss : List Slot) : Prop := ss.length = 4 ∧ (usedKeys ss).Nodup

theorem usedKeys_cons (s : Slot) (r : List Slot) :
    usedKeys (s :: r) = if s.used then keyOf s :: usedKeys r else usedKeys r := by
  unfold usedKeys
  by_cases h : s.used = true <;> simp [List.filter_cons, h]

/-- a map that leaves every slot alone or makes it unused only shrinks the set of used keys -/
theorem usedKeys_map_sublist (g : Slot → Slot) (hg : ∀ s, g s = s ∨ (g s).used = false) (ss : List Slot) :
    (usedKeys (ss.map g)).Sublist (usedKeys ss) := by
  induction ss with
  | nil => simp [usedKeys]
  | cons s r ih =>
    rw [List.map_cons, usedKeys_cons, usedKeys_cons]
    rcases hg s with h | h
    · rw [h]; split
      · exact ih.cons₂ _
      · exact ih
    · rw [h]; simp only [Bool.false_eq_true, if_false]
      split
      · exact ih.cons _
      · exact ih

theorem slotInv_map (g : Slot → Slot) (hg : ∀ s, g s = s ∨ (g s).used = false) {ss : List Slot}
    (h : SlotInv ss) : SlotInv (ss.map g) :=
  ⟨by simpa using h.1, h.2.sublist (usedKeys_map_sublist g hg ss)⟩

theorem evict_ok (f : Slot → Bool) (s : Slot) :
    (if (s.used && f s) = true then { s with used := false } else s) = s ∨
    (if (s.used && f s) = true then { s with used := false } else s).used = false := by
  split <;> simp

theorem slotInv_evict (f : Slot → Bool) {ss : List Slot} (h : SlotInv ss) : SlotInv (evictSlots f ss) :=
  slotInv_map _ (evict_ok f) h

theorem mem_usedKeys_set (r : List Slot) (i : Nat) (new : Slot) (x : Nat × Nat)
    (h : x ∈ usedKeys (r.set i new)) : x ∈ usedKeys r ∨ x = keyOf new := by
  induction r generalizing i with
  | nil => simp [usedKeys] at h
  | cons s r ih =>
    cases i with
    | zero =>
      rw [List.set_cons_zero, usedKeys_cons] at h
      rw [usedKeys_cons]
      split at h
      · rcases List.mem_cons.mp h with h | h
        · exact Or.inr h
        · left; split
          · exact List.mem_cons_of_mem _ h
          · exact h
      · left; split
        · exact List.mem_cons_of_mem _ h
        · exact h
    | succ i =>
      rw [List.set_cons_succ, usedKeys_cons] at h
      rw [usedKeys_cons]
      split at h
      · rename_i hu
        simp only [hu, if_true]
        rcases List.mem_cons.mp h with h | h
        · left; rw [h]; exact List.mem_cons_self ..
        · rcases ih i h with h | h
          · left; exact List.mem_cons_of_mem _ h
          · right; exact h
      · rename_i hu
        simp only [hu, if_false]
        exact ih i h

/-- writing a used slot with a key that no used slot holds keeps the used keys distinct -/
theorem nodup_set (ss : List Slot) (i : Nat) (new : Slot) (hn : (usedKeys ss).Nodup)
    (hk : keyOf new ∉ usedKeys ss) : (usedKeys (ss.set i new)).Nodup := by
  induction ss generalizing i with
  | nil => simp [usedKeys]
  | cons s r ih =>
    rw [usedKeys_cons] at hn hk
    cases i with
    | zero =>
      rw [List.set_cons_zero, usedKeys_cons]
      by_cases hu : s.used = true
      · simp only [hu, if_true] at hn hk
        have hn' := (List.nodup_cons.mp hn).2
        have hk' : keyOf new ∉ usedKeys r := fun h => hk (List.mem_cons_of_mem _ h)
        split
        · exact List.nodup_cons.mpr ⟨hk', hn'⟩
        · exact hn'
      · simp only [hu, if_false] at hn hk
        split
        · exact List.nodup_cons.mpr ⟨hk, hn⟩
        · exact hn
    | succ i =>
      rw [List.set_cons_succ, usedKeys_cons]
      by_cases hu : s.used = true
      · simp only [hu, if_true] at hn hk ⊢
        obtain ⟨h1, h2⟩ := List.nodup_cons.mp hn
        have hk' : keyOf new ∉ usedKeys r := fun h => hk (List.mem_cons_of_mem _ h)
        refine List.nodup_cons.mpr ⟨?_, ih i h2 hk'⟩
        intro hm
        rcases mem_usedKeys_set r i new _ hm with hm | hm
        · exact h1 hm
        · exact hk (by rw [hm]; exact List.mem_cons_self ..)
      · simp only [hu, if_false] at hn hk ⊢
        exact ih i hn hk

theorem slotInv_set {ss : List Slot} (i : Nat) (new : Slot) (h : SlotInv ss) (hk : keyOf new ∉ usedKeys ss) :
    SlotInv (ss.set i new) :=
  ⟨by simpa using h.1, nodup_set ss i new h.2 hk⟩

/-- overwriting a slot with an unused one only removes a key -/
theorem usedKeys_set_unused (ss : List Slot) (i : Nat) (new : Slot) (hu : new.used = false) :
    (usedKeys (ss.set i new)).Sublist (usedKeys ss) := by
  induction ss generalizing i with
  | nil => simp [usedKeys]
  | cons s r ih =>
    cases i with
    | zero =>
      rw [List.set_cons_zero, usedKeys_cons, usedKeys_cons]
      simp only [hu, Bool.false_eq_true, if_false]
      split
      · exact (List.Sublist.refl _).cons _
      · exact List.Sublist.refl _
    | succ i =>
      rw [List.set_cons_succ, usedKeys_cons, usedKeys_cons]
      split
      · exact (ih i).cons₂ _
      · exact ih i

theorem slotInv_release {ss : List Slot} (i : Nat) (h : SlotInv ss) : SlotInv (release ss i) :=
  ⟨by simpa [release] using h.1, h.2.sublist (usedKeys_set_unused ss i _ rfl)⟩

/-- changing only the counter of a slot changes nothing about keys -/
theorem usedKeys_set_ctr (ss : List Slot) (i : Nat) (c : Bytes) :
    usedKeys (ss.set i { ss.getD i {} with lastCtr := c }) = usedKeys ss := by
  induction ss generalizing i with
  | nil => simp [usedKeys]
  | cons s r ih =>
    cases i with
    | zero => simp [usedKeys_cons, keyOf]
    | succ i =>
      rw [List.set_cons_succ, usedKeys_cons, usedKeys_cons]
      have : (s :: r).getD (i + 1) {} = r.getD i {} := by simp
      rw [this, ih i]

/-- a cache miss means the requested pair is not among the used keys -/
theorem miss_not_mem (ss : List Slot) (myKid theirKid : Nat)
    (h : findSlot ss (fun s => s.used && s.theirKeyId == theirKid && s.myKeyId == myKid) = none) :
    (myKid, theirKid) ∉ usedKeys ss := by
  intro hm
  simp only [findSlot, List.findIdx?_eq_none_iff] at h
  simp only [usedKeys, List.mem_map, List.mem_filter] at hm
  obtain ⟨s, ⟨hs, hu⟩, hk⟩ := hm
  have := h s hs
  simp only [keyOf, Prod.mk.injEq] at hk
  simp [hu, hk.1, hk.2] at this

/-! ### pigeonhole -/

theorem pigeon4 : ∀ a b c d : Fin 4, [a, b, c, d].Nodup → ∀ w : Fin 4, w ∈ [a, b, c, d] := by
  decide


/-- position of a key-id pair in the window {m, m-1} × {t, t-1} -/
def widx (m t : Nat) (k : Nat × Nat) : Fin 4 :=
  match decide (k.1 = m), decide (k.2 = t) with
  | true, true => 0
  | true, false => 1
  | false, true => 2
  | false, false => 3

def inWin (m m' t t' : Nat) (k : Nat × Nat) : Prop := (k.1 = m ∨ k.1 = m') ∧ (k.2 = t ∨ k.2 = t')

theorem widx_inj {m m' t t' : Nat} {a b : Nat × Nat} (ha : inWin m m' t t' a) (hb : inWin m m' t t' b)
    (h : widx m t a = widx m t b) : a = b := by
  obtain ⟨a1, a2⟩ := a
  obtain ⟨b1, b2⟩ := b
  simp only [inWin] at ha hb
  unfold widx at h
  by_cases h1 : a1 = m <;> by_cases h2 : a2 = t <;> by_cases h3 : b1 = m <;> by_cases h4 : b2 = t <;>
    simp [h1, h2, h3, h4] at h ⊢ <;> omega

/-- four pairwise distinct keys inside the window cover it -/
theorem window_cover {m m' t t' : Nat} (k1 k2 k3 k4 req : Nat × Nat)
    (h1 : inWin m m' t t' k1) (h2 : inWin m m' t t' k2) (h3 : inWin m m' t t' k3) (h4 : inWin m m' t t' k4)
    (hr : inWin m m' t t' req) (hnd : [k1, k2, k3, k4].Nodup) : req ∈ [k1, k2, k3, k4] := by
  have hnd' : [widx m t k1, widx m t k2, widx m t k3, widx m t k4].Nodup := by
    simp only [List.nodup_cons, List.mem_cons, List.not_mem_nil, or_false, not_or, List.nodup_nil, and_true] at hnd ⊢
    obtain ⟨⟨a, b, c⟩, ⟨d, e⟩, f⟩ := hnd
    exact ⟨⟨fun h => a (widx_inj h1 h2 h), fun h => b (widx_inj h1 h3 h), fun h => c (widx_inj h1 h4 h)⟩,
           ⟨fun h => d (widx_inj h2 h3 h), fun h => e (widx_inj h2 h4 h)⟩, ⟨fun h => f.1 (widx_inj h3 h4 h), fun h => h⟩⟩
  have := pigeon4 _ _ _ _ hnd' (widx m t req)
  simp only [List.mem_cons, List.not_mem_nil, or_false] at this ⊢
  rcases this with h | h | h | h
  · exact Or.inl (widx_inj hr h1 h)
  · exact Or.inr (Or.inl (widx_inj hr h2 h))
  · exact Or.inr (Or.inr (Or.inl (widx_inj hr h3 h)))
  · exact Or.inr (Or.inr (Or.inr (widx_inj hr h4 h)))

theorem inWindow_iff (p : Party) (s : Slot) :
    inWindow p s = true ↔ inWin p.myKeyId (pred32 p.myKeyId) p.theirKeyId (pred32 p.theirKeyId) (keyOf s) := by
  simp [inWindow, inWin, keyOf]

/-- **pigeonhole for the slot cache.** With the invariant, a request for key ids inside the current window
    that is not a cache hit always finds a slot to write into. -/
theorem pickSlot_some (p : Party) (hinv : SlotInv p.slots) (myKid theirKid : Nat)
    (hw : inWin p.myKeyId (pred32 p.myKeyId) p.theirKeyId (pred32 p.theirKeyId) (myKid, theirKid))
    (hmiss : (myKid, theirKid) ∉ usedKeys p.slots) : p.pickSlot ≠ none := by
  intro hnone
  unfold Party.pickSlot at hnone
  cases h1 : findSlot p.slots (fun s => !s.used) with
  | some i => simp [h1] at hnone
  | none =>
    simp only [h1] at hnone
    simp only [findSlot, List.findIdx?_eq_none_iff] at h1 hnone
    obtain ⟨hlen, hnd⟩ := hinv
    -- all four slots are used and in the window
    match hs : p.slots, hlen with
    | [s1, s2, s3, s4], _ =>
      rw [hs] at h1 hnone hnd hmiss
      have u : ∀ s ∈ [s1, s2, s3, s4], s.used = true := fun s hm => by simpa using h1 s hm
      have w : ∀ s ∈ [s1, s2, s3, s4], inWin p.myKeyId (pred32 p.myKeyId) p.theirKeyId (pred32 p.theirKeyId) (keyOf s) :=
        fun s hm => (inWindow_iff p s).mp (by simpa using hnone s hm)
      have e : usedKeys [s1, s2, s3, s4] = [keyOf s1, keyOf s2, keyOf s3, keyOf s4] := by
        simp [usedKeys, u s1 (by simp), u s2 (by simp), u s3 (by simp), u s4 (by simp)]
      rw [e] at hnd hmiss
      exact hmiss (window_cover _ _ _ _ _ (w s1 (by simp)) (w s2 (by simp)) (w s3 (by simp)) (w s4 (by simp)) hw hnd)

end XC.C47
