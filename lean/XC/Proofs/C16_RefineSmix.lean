/-
  C16 — refinement, part C: blockCopy / blockXOR / integer on the flat arrays, and the two loops of
  smix as ROMix on the blocks held in xy and v.
-/
import XC.Proofs.C16_RefineMix
namespace XC.C16

/-! ## blockCopy, blockXOR, integer -/

theorem blockCopyGo_eq (dstA : Words) (dst : View) (srcA : Words) (src : View) (n : Nat)
    (h1 : n ≤ src.len) (h2 : src.off + n ≤ srcA.size) (h3 : dst.off + dst.len ≤ dstA.size) (h4 : n ≤ dst.len) :
    ∃ d, blockCopyGo dstA dst srcA src n = some d ∧ d.size = dstA.size ∧
      ∀ i, rdw d i = if dst.off ≤ i ∧ i < dst.off + n then rdw srcA (src.off + (i - dst.off)) else rdw dstA i := by
  unfold blockCopyGo
  rw [if_pos ⟨h1, h2, h3⟩, Nat.min_eq_right h4]
  exact loop1_run n
    (fun i d => do let w ← srcA[src.off + i]?; pure (d.setIfInBounds (dst.off + i) w))
    (fun k (d : Words) => d.size = dstA.size ∧
      ∀ i, rdw d i = if dst.off ≤ i ∧ i < dst.off + k then rdw srcA (src.off + (i - dst.off)) else rdw dstA i)
    (by
      intro k d hk ⟨hs, hp⟩
      simp only [Option.bind_eq_bind, Option.pure_def, rdw_of_lt srcA (src.off + k) (by omega), Option.bind_some]
      refine ⟨_, rfl, by simpa using hs, ?_⟩
      intro i
      rw [rdw_set, hp i]
      by_cases hik : dst.off + k = i
      · subst hik
        rw [if_pos ⟨rfl, by omega⟩, if_pos (by omega)]
        congr 1; omega
      · rw [if_neg (by intro h; exact hik h.1)]
        by_cases hin : dst.off ≤ i ∧ i < dst.off + k
        · rw [if_pos hin, if_pos (by omega)]
        · rw [if_neg hin, if_neg (by omega)])
    n 0 dstA (by omega) (by omega) ⟨rfl, fun i => by rw [if_neg (by omega)]⟩

theorem blockXORGo_eq (dstA : Words) (dst : View) (srcA : Words) (src : View) (n : Nat)
    (h1 : n ≤ src.len) (h2 : src.off + n ≤ srcA.size) (h3 : n ≤ dst.len) (h4 : dst.off + dst.len ≤ dstA.size) :
    ∃ d, blockXORGo dstA dst srcA src n = some d ∧ d.size = dstA.size ∧
      ∀ i, rdw d i = if dst.off ≤ i ∧ i < dst.off + n then rdw dstA i ^^^ rdw srcA (src.off + (i - dst.off))
                     else rdw dstA i := by
  unfold blockXORGo
  rw [if_pos ⟨h1, h2⟩]
  exact loop1_run n
    (fun i d =>
      if i < dst.len then do
        let w ← srcA[src.off + i]?
        let o ← d[dst.off + i]?
        pure (d.setIfInBounds (dst.off + i) (o ^^^ w))
      else none)
    (fun k (d : Words) => d.size = dstA.size ∧
      ∀ i, rdw d i = if dst.off ≤ i ∧ i < dst.off + k then rdw dstA i ^^^ rdw srcA (src.off + (i - dst.off))
                     else rdw dstA i)
    (by
      intro k d hk ⟨hs, hp⟩
      rw [if_pos (by omega)]
      simp only [Option.bind_eq_bind, Option.pure_def, rdw_of_lt srcA (src.off + k) (by omega),
        rdw_of_lt d (dst.off + k) (by omega), Option.bind_some]
      refine ⟨_, rfl, by simpa using hs, ?_⟩
      intro i
      rw [rdw_set, hp i]
      by_cases hik : dst.off + k = i
      · subst hik
        rw [if_pos ⟨rfl, by omega⟩, if_pos (by omega), hp, if_neg (by omega)]
        congr 2; omega
      · rw [if_neg (by intro h; exact hik h.1)]
        by_cases hin : dst.off ≤ i ∧ i < dst.off + k
        · rw [if_pos hin, if_pos (by omega)]
        · rw [if_neg hin, if_neg (by omega)])
    n 0 dstA (by omega) (by omega) ⟨rfl, fun i => by rw [if_neg (by omega)]⟩

/-! ## blocks under pointwise facts -/

theorem blocksOf_congr (a a' : Words) (o o' n : Nat) (h : ∀ k, k < 16 * n → rdw a' (o' + k) = rdw a (o + k)) :
    blocksOf a' o' n = blocksOf a o n := by
  unfold blocksOf
  apply List.map_congr_left
  intro j hj
  rw [List.mem_range] at hj
  apply blkAt_congr
  intro k hk
  have := h (16 * j + k) (by omega)
  rw [← Nat.add_assoc, ← Nat.add_assoc] at this
  exact this

theorem Blk.xor_get (b c : Blk) (k : Nat) (hk : k < 16) : (b.xor c).get k = b.get k ^^^ c.get k := by
  have : k = 0 ∨ k = 1 ∨ k = 2 ∨ k = 3 ∨ k = 4 ∨ k = 5 ∨ k = 6 ∨ k = 7 ∨ k = 8 ∨ k = 9 ∨ k = 10 ∨ k = 11 ∨
      k = 12 ∨ k = 13 ∨ k = 14 ∨ k = 15 := by omega
  rcases this with h | h | h | h | h | h | h | h | h | h | h | h | h | h | h | h <;> subst h <;>
    simp [Blk.get, Blk.words, Blk.xor]

theorem blocksOf_xor (a a' b : Words) (o ob n : Nat)
    (h : ∀ k, k < 16 * n → rdw a' (o + k) = rdw a (o + k) ^^^ rdw b (ob + k)) :
    blocksOf a' o n = xorBlks (blocksOf a o n) (blocksOf b ob n) := by
  unfold blocksOf xorBlks
  rw [List.zipWith_map_left, List.zipWith_map_right, List.zipWith_self]
  apply List.map_congr_left
  intro j hj
  rw [List.mem_range] at hj
  apply Blk.ext_get
  intro k hk
  rw [Blk.xor_get _ _ _ hk, blkAt_get _ _ _ hk, blkAt_get _ _ _ hk, blkAt_get _ _ _ hk]
  have := h (16 * j + k) (by omega)
  rw [← Nat.add_assoc, ← Nat.add_assoc] at this
  exact this

theorem integerGo_eq (xy : Words) (b : View) (r : Nat) (hr : 1 ≤ r)
    (h1 : 32 * r ≤ b.len) (h2 : b.off + b.len ≤ xy.size) :
    ∃ g, integerGo xy b r = some g ∧ g.toNat = integerifyRfc (blocksOf xy b.off (2 * r)) := by
  unfold integerGo
  simp only [Option.bind_eq_bind, Option.pure_def]
  rw [if_pos (by omega), rdw_of_lt xy (b.off + (2 * r - 1) * 16) (by omega),
    rdw_of_lt xy (b.off + (2 * r - 1) * 16 + 1) (by omega)]
  simp only [Option.bind_some]
  refine ⟨_, rfl, ?_⟩
  rw [← integerI_eq_rfc]
  unfold integerI
  rw [blocksOf_getLast xy b.off (2 * r) (by omega)]
  simp only [blkAt]
  have e : b.off + 16 * (2 * r - 1) = b.off + (2 * r - 1) * 16 := by omega
  rw [e]

/-! ## the two loops of smix -/

theorem iterFn_succ_apply {α : Type} (f : α → α) (k : Nat) (x : α) : iterFn f (k + 1) x = f (iterFn f k x) := by
  rw [iterFn_add f k 1 x]; rfl

/-- one step of the second ROMix loop -/
def romixG (n : Nat) (b : List Blk) (x : List Blk) : List Blk :=
  blockMixRfc' (xorBlks x (iterFn blockMixRfc' (integerifyRfc x % n) b))

theorem romixSecond_eq_iter (n : Nat) (b : List Blk) : ∀ k x, romixSecond n b k x = iterFn (romixG n b) k x
  | 0, _ => rfl
  | k+1, x => by
    show romixSecond n b k (romixG n b x) = iterFn (romixG n b) k (romixG n b x)
    exact romixSecond_eq_iter n b k _

theorem mask_eq_mod (g : UInt64) (m : Nat) (hm : m ≤ 63) :
    (g &&& UInt64.ofNat (2 ^ m - 1)).toNat = g.toNat % 2 ^ m := by
  rw [UInt64.toNat_and, UInt64.toNat_ofNat']
  have h1 : 2 ^ m ≤ 2 ^ 63 := Nat.pow_le_pow_right (by omega) hm
  have h2 : 0 < 2 ^ m := Nat.two_pow_pos m
  rw [Nat.mod_eq_of_lt (by omega), Nat.and_two_pow_sub_one_eq_mod]

/-- buffers of smix: x = xy[0:], y = xy[32r:], V_j at v[j·32r:] -/
structure FillInv (r n : Nat) (x0 : List Blk) (i : Nat) (st : Words × Words) : Prop where
  sv : st.1.size = n * (32 * r)
  sx : st.2.size = 64 * r
  x : blocksOf st.2 0 (2 * r) = iterFn blockMixRfc' i x0
  v : ∀ j, j < i → blocksOf st.1 (j * (32 * r)) (2 * r) = iterFn blockMixRfc' j x0

theorem fillStep_refine (r n : Nat) (hr : 1 ≤ r) (hn : n % 2 = 0) (x0 : List Blk)
    (i : Nat) (st : Words × Words) (hi : i < n) (hev : i % 2 = 0) (inv : FillInv r n x0 i st) :
    ∃ st', fillStep ⟨0, 64 * r⟩ ⟨0 + 32 * r, 64 * r - 32 * r⟩ ⟨0, n * (32 * r)⟩ r i st = some st' ∧
      FillInv r n x0 (i + 2) st' := by
  obtain ⟨hsv, hsx, hx, hv⟩ := inv
  unfold fillStep
  simp only [Option.bind_eq_bind, Option.pure_def]
  have hm1 := mul_succ_le (R := 32 * r) hi
  have hm2 := mul_succ_le (R := 32 * r) (show i + 1 < n by omega)
  have hm3 : (i + 1) * (32 * r) = i * (32 * r) + 32 * r := by rw [Nat.add_mul, Nat.one_mul]
  have hlt : ∀ j, j < i → j * (32 * r) + 32 * r ≤ i * (32 * r) := fun j hj => mul_succ_le hj
  rw [sliceFrom_some _ _ (by simp only; omega)]
  simp only [Option.bind_some]
  obtain ⟨v1, e1, s1, p1⟩ := blockCopyGo_eq st.1 ⟨0 + i * (32 * r), n * (32 * r) - i * (32 * r)⟩ st.2 ⟨0, 64 * r⟩ (32 * r)
    (by simp only; omega) (by simp only; omega) (by simp only; omega) (by simp only; omega)
  rw [e1]; simp only [Option.bind_some]
  obtain ⟨xy1, e2, s2, f2, b2⟩ := blockMixGo_refine st.2 ⟨0, 64 * r⟩ ⟨0 + 32 * r, 64 * r - 32 * r⟩ r hr
    (by simp only; omega) (by simp only; omega) (by simp only; omega) (by simp only; omega) (by simp only; omega)
  rw [e2]; simp only [Option.bind_some]
  rw [sliceFrom_some _ _ (by simp only; omega)]
  simp only [Option.bind_some]
  obtain ⟨v2, e3, s3, p3⟩ := blockCopyGo_eq v1 ⟨0 + (i + 1) * (32 * r), n * (32 * r) - (i + 1) * (32 * r)⟩ xy1
    ⟨0 + 32 * r, 64 * r - 32 * r⟩ (32 * r)
    (by simp only; omega) (by simp only; omega) (by simp only; omega) (by simp only; omega)
  rw [e3]; simp only [Option.bind_some]
  obtain ⟨xy2, e4, s4, f4, b4⟩ := blockMixGo_refine xy1 ⟨0 + 32 * r, 64 * r - 32 * r⟩ ⟨0, 64 * r⟩ r hr
    (by simp only; omega) (by simp only; omega) (by simp only; omega) (by simp only; omega) (by simp only; omega)
  rw [e4]
  refine ⟨_, rfl, ?_⟩
  simp only at p1 f2 b2 p3 f4 b4
  -- Y after the first blockMix, X after the second
  have hy : blocksOf xy1 (0 + 32 * r) (2 * r) = iterFn blockMixRfc' (i + 1) x0 := by
    rw [b2, hx]; exact (iterFn_succ_apply blockMixRfc' i x0).symm
  have hx2 : blocksOf xy2 0 (2 * r) = iterFn blockMixRfc' (i + 2) x0 := by
    rw [b4, hy]; exact (iterFn_succ_apply blockMixRfc' (i + 1) x0).symm
  -- V_i = X (from the state before), V_(i+1) = Y
  have hvi : blocksOf v1 (i * (32 * r)) (2 * r) = blocksOf st.2 0 (2 * r) := by
    apply blocksOf_congr
    intro k hk
    rw [p1, if_pos (by omega)]
    congr 1; omega
  have hvi1 : blocksOf v2 ((i + 1) * (32 * r)) (2 * r) = blocksOf xy1 (0 + 32 * r) (2 * r) := by
    apply blocksOf_congr
    intro k hk
    rw [p3, if_pos (by omega)]
    congr 1; omega
  have keep1 : ∀ j, j < i → blocksOf v1 (j * (32 * r)) (2 * r) = blocksOf st.1 (j * (32 * r)) (2 * r) := by
    intro j hj
    have := hlt j hj
    apply blocksOf_congr
    intro k hk
    rw [p1, if_neg (by omega)]
  have keep2 : ∀ j, j < i + 1 → blocksOf v2 (j * (32 * r)) (2 * r) = blocksOf v1 (j * (32 * r)) (2 * r) := by
    intro j hj
    have : j * (32 * r) + 32 * r ≤ (i + 1) * (32 * r) := mul_succ_le hj
    apply blocksOf_congr
    intro k hk
    rw [p3, if_neg (by omega)]
  constructor
  · simp only; omega
  · simp only; omega
  · exact hx2
  · intro j hj
    simp only
    by_cases h1 : j < i
    · rw [keep2 j (by omega), keep1 j h1, hv j h1]
    · by_cases h2 : j = i
      · subst h2
        rw [keep2 j (by omega), hvi, hx]
      · have : j = i + 1 := by omega
        subst this
        rw [hvi1, hy]

structure MixInv2 (r n : Nat) (x0 x1 : List Blk) (i : Nat) (st : Words × Words) : Prop where
  sv : st.1.size = n * (32 * r)
  sx : st.2.size = 64 * r
  v : ∀ j, j < n → blocksOf st.1 (j * (32 * r)) (2 * r) = iterFn blockMixRfc' j x0
  x : blocksOf st.2 0 (2 * r) = iterFn (romixG n x0) i x1

theorem mixStep_refine (r m : Nat) (hr : 1 ≤ r) (hm : m ≤ 63) (x0 x1 : List Blk)
    (i : Nat) (st : Words × Words) (inv : MixInv2 r (2 ^ m) x0 x1 i st) :
    ∃ st', mixStep ⟨0, 64 * r⟩ ⟨0 + 32 * r, 64 * r - 32 * r⟩ ⟨0, 2 ^ m * (32 * r)⟩ r (2 ^ m) i st = some st' ∧
      MixInv2 r (2 ^ m) x0 x1 (i + 2) st' := by
  obtain ⟨hsv, hsx, hv, hx⟩ := inv
  have hpos : 0 < 2 ^ m := Nat.two_pow_pos m
  unfold mixStep
  simp only [Option.bind_eq_bind, Option.pure_def]
  obtain ⟨g1, eg1, hg1⟩ := integerGo_eq st.2 ⟨0, 64 * r⟩ r hr (by simp only; omega) (by simp only; omega)
  rw [eg1]; simp only [Option.bind_some]
  rw [mask_eq_mod g1 m hm, hg1]
  simp only at hg1
  have hj1 : integerifyRfc (blocksOf st.2 0 (2 * r)) % 2 ^ m < 2 ^ m := Nat.mod_lt _ hpos
  have hm1 := mul_succ_le (R := 32 * r) hj1
  rw [sliceFrom_some _ _ (by simp only; omega)]
  simp only [Option.bind_some]
  obtain ⟨xy1, e1, s1, p1⟩ := blockXORGo_eq st.2 ⟨0, 64 * r⟩ st.1
    ⟨0 + integerifyRfc (blocksOf st.2 0 (2 * r)) % 2 ^ m * (32 * r),
      2 ^ m * (32 * r) - integerifyRfc (blocksOf st.2 0 (2 * r)) % 2 ^ m * (32 * r)⟩ (32 * r)
    (by simp only; omega) (by simp only; omega) (by simp only; omega) (by simp only; omega)
  rw [e1]; simp only [Option.bind_some]
  simp only at p1
  have hx1 : blocksOf xy1 0 (2 * r) = xorBlks (blocksOf st.2 0 (2 * r))
      (iterFn blockMixRfc' (integerifyRfc (blocksOf st.2 0 (2 * r)) % 2 ^ m) x0) := by
    rw [← hv _ hj1]
    apply blocksOf_xor
    intro k hk
    rw [p1, if_pos (by omega)]
    congr 2; omega
  obtain ⟨xy2, e2, s2, f2, b2⟩ := blockMixGo_refine xy1 ⟨0, 64 * r⟩ ⟨0 + 32 * r, 64 * r - 32 * r⟩ r hr
    (by simp only; omega) (by simp only; omega) (by simp only; omega) (by simp only; omega) (by simp only; omega)
  rw [e2]; simp only [Option.bind_some]
  simp only at f2 b2
  have hy2 : blocksOf xy2 (0 + 32 * r) (2 * r) = romixG (2 ^ m) x0 (blocksOf st.2 0 (2 * r)) := by
    rw [b2, hx1]; rfl
  obtain ⟨g2, eg2, hg2⟩ := integerGo_eq xy2 ⟨0 + 32 * r, 64 * r - 32 * r⟩ r hr (by simp only; omega) (by simp only; omega)
  rw [eg2]; simp only [Option.bind_some]
  rw [mask_eq_mod g2 m hm, hg2]
  simp only at hg2
  have hj2 : integerifyRfc (blocksOf xy2 (0 + 32 * r) (2 * r)) % 2 ^ m < 2 ^ m := Nat.mod_lt _ hpos
  have hm2 := mul_succ_le (R := 32 * r) hj2
  rw [sliceFrom_some _ _ (by simp only; omega)]
  simp only [Option.bind_some]
  obtain ⟨xy3, e3, s3, p3⟩ := blockXORGo_eq xy2 ⟨0 + 32 * r, 64 * r - 32 * r⟩ st.1
    ⟨0 + integerifyRfc (blocksOf xy2 (0 + 32 * r) (2 * r)) % 2 ^ m * (32 * r),
      2 ^ m * (32 * r) - integerifyRfc (blocksOf xy2 (0 + 32 * r) (2 * r)) % 2 ^ m * (32 * r)⟩ (32 * r)
    (by simp only; omega) (by simp only; omega) (by simp only; omega) (by simp only; omega)
  rw [e3]; simp only [Option.bind_some]
  simp only at p3
  have hy3 : blocksOf xy3 (0 + 32 * r) (2 * r) = xorBlks (blocksOf xy2 (0 + 32 * r) (2 * r))
      (iterFn blockMixRfc' (integerifyRfc (blocksOf xy2 (0 + 32 * r) (2 * r)) % 2 ^ m) x0) := by
    rw [← hv _ hj2]
    apply blocksOf_xor
    intro k hk
    rw [p3, if_pos (by omega)]
    congr 2; omega
  obtain ⟨xy4, e4, s4, f4, b4⟩ := blockMixGo_refine xy3 ⟨0 + 32 * r, 64 * r - 32 * r⟩ ⟨0, 64 * r⟩ r hr
    (by simp only; omega) (by simp only; omega) (by simp only; omega) (by simp only; omega) (by simp only; omega)
  rw [e4]
  refine ⟨_, rfl, ?_⟩
  simp only at b4
  constructor
  · exact hsv
  · simp only; omega
  · exact hv
  · simp only
    rw [b4, hy3, hy2, hx]
    rw [show i + 2 = i + 1 + 1 from rfl, iterFn_succ_apply, iterFn_succ_apply]
    rfl

end XC.C16
