/-
  C05 — lemmas: buffering layer (generic in `Alg`), counter laws for B and S, Go-shaped round = RFC round.
-/
import XC.Model.C05
namespace XC.C05

/-- the facts about an `Alg` the buffering proof uses -/
structure Laws (A : Alg) : Prop where
  bs_pos : 0 < A.bs
  maxSize_le : A.maxSize ≤ A.bs
  /-- advancing the two-word counter is `t ↦ t + bs` on the RFC offset counter -/
  cinc_cof : ∀ t, A.cinc (A.cof t) = A.cof (t + A.bs)
  /-- finalize's borrow followed by hashBlocks' advance adds exactly the buffered byte count -/
  cdec_cinc : ∀ t r, r ≤ A.bs → A.cinc (A.cdec (A.cof t) r) = A.cof (t + (A.bs - r))
  /-- every counter value (also one restored by UnmarshalBinary) is some `t` -/
  cof_surj : ∀ c, ∃ t, c = A.cof t

variable {A : Alg}

/-! ### copyAt -/

theorem zeros_length (n : Nat) : (zeros n).length = n := by simp [zeros]

theorem copyAt_length (dst : Bytes) (off : Nat) (p : Bytes) (h : off ≤ dst.length) :
    (copyAt dst off p).length = dst.length := by
  simp only [copyAt, List.length_append, List.length_take, List.length_drop]
  omega

theorem take_copyAt (dst : Bytes) (off : Nat) (p : Bytes) (h : off + p.length ≤ dst.length) :
    (copyAt dst off p).take (off + p.length) = dst.take off ++ p := by
  have hn : min p.length (dst.length - off) = p.length := by omega
  simp only [copyAt, hn, List.take_length]
  have h1 : (List.take off dst ++ p).length = off + p.length := by
    simp only [List.length_append, List.length_take]; omega
  rw [← h1, List.take_left']
  rfl

theorem copyAt_full (dst : Bytes) (off : Nat) (p : Bytes) (h : off + p.length = dst.length) :
    copyAt dst off p = dst.take off ++ p := by
  have := take_copyAt dst off p (by omega)
  rw [h] at this
  rw [← this, List.take_of_length_le]
  rw [copyAt_length _ _ _ (by omega)]; omega

theorem copyAt_zeros (n : Nat) (p : Bytes) (h : p.length ≤ n) :
    copyAt (zeros n) 0 p = p ++ zeros (n - p.length) := by
  have hn : min p.length ((zeros n).length - 0) = p.length := by simp [zeros_length]; omega
  simp only [copyAt, hn, List.take_zero, List.nil_append, List.take_length, Nat.zero_add]
  simp [zeros]

/-! ### hashBlocks / specLoop unfolding -/

theorem hashBlocks_short (h : A.H) (c : A.C) (f : Bool) (b : Bytes) (hb : b.length < A.bs) :
    hashBlocks A h c f b = (h, c) := by
  rw [hashBlocks]; simp [hb]

theorem hashBlocks_cons (hp : 0 < A.bs) (h : A.H) (c : A.C) (f : Bool) (blk rest : Bytes)
    (hb : blk.length = A.bs) :
    hashBlocks A h c f (blk ++ rest) =
      hashBlocks A (A.comp h (A.cinc c) f blk) (A.cinc c) f rest := by
  rw [hashBlocks]
  have h1 : ¬ (A.bs = 0 ∨ (blk ++ rest).length < A.bs) := by
    simp only [List.length_append]; omega
  rw [dif_neg h1]
  simp only [← hb, List.take_left', List.drop_left']

theorem hashBlocks_one (hp : 0 < A.bs) (h : A.H) (c : A.C) (f : Bool) (blk : Bytes)
    (hb : blk.length = A.bs) :
    hashBlocks A h c f blk = (A.comp h (A.cinc c) f blk, A.cinc c) := by
  have := hashBlocks_cons hp h c f blk [] hb
  rw [List.append_nil] at this
  rw [this, hashBlocks_short]
  simp; omega

theorem specLoop_short (h : A.H) (t : Nat) (data : Bytes) (hd : data.length ≤ A.bs) :
    specLoop A h t data = A.comp h (A.cof (t + data.length)) true (data ++ zeros (A.bs - data.length)) := by
  rw [specLoop]; simp [hd]

theorem specLoop_long (hp : 0 < A.bs) (h : A.H) (t : Nat) (data : Bytes) (hd : A.bs < data.length) :
    specLoop A h t data =
      specLoop A (A.comp h (A.cof (t + A.bs)) false (data.take A.bs)) (t + A.bs) (data.drop A.bs) := by
  rw [specLoop]
  have h1 : ¬ (A.bs = 0 ∨ data.length ≤ A.bs) := by omega
  rw [dif_neg h1]

/-- hashing `k` whole blocks that are followed by at least one more byte is `k` non-final steps of the
    RFC loop, and the two-word counter stays the image of the RFC offset counter -/
theorem specLoop_hashBlocks (L : Laws A) (k : Nat) : ∀ (h : A.H) (t : Nat) (blocks rest : Bytes),
    blocks.length = k * A.bs → 0 < rest.length →
    specLoop A h t (blocks ++ rest) =
      specLoop A (hashBlocks A h (A.cof t) false blocks).1 (t + k * A.bs) rest ∧
    (hashBlocks A h (A.cof t) false blocks).2 = A.cof (t + k * A.bs) := by
  induction k with
  | zero =>
    intro h t blocks rest hb _
    have : blocks = [] := by
      apply List.eq_nil_of_length_eq_zero; simpa using hb
    subst this
    rw [hashBlocks_short _ _ _ _ (by simpa using L.bs_pos)]
    simp
  | succ k ih =>
    intro h t blocks rest hb hr
    have hsplit : blocks = blocks.take A.bs ++ blocks.drop A.bs := (List.take_append_drop _ _).symm
    have hlen1 : (blocks.take A.bs).length = A.bs := by
      rw [List.length_take, hb, Nat.succ_mul]; omega
    have hlen2 : (blocks.drop A.bs).length = k * A.bs := by
      rw [List.length_drop, hb, Nat.succ_mul]; omega
    have hbs := L.bs_pos
    have hlong : A.bs < (blocks ++ rest).length := by
      rw [List.length_append, hb, Nat.succ_mul]; omega
    rw [specLoop_long hbs _ _ _ hlong]
    have htake : (blocks ++ rest).take A.bs = blocks.take A.bs := by
      rw [List.take_append_of_le_length (by rw [hb, Nat.succ_mul]; omega)]
    have hdrop : (blocks ++ rest).drop A.bs = blocks.drop A.bs ++ rest := by
      rw [List.drop_append_of_le_length (by rw [hb, Nat.succ_mul]; omega)]
    rw [htake, hdrop]
    have hc : hashBlocks A h (A.cof t) false blocks =
        hashBlocks A (A.comp h (A.cof (t + A.bs)) false (blocks.take A.bs)) (A.cof (t + A.bs)) false
          (blocks.drop A.bs) := by
      conv => lhs; rw [hsplit]
      rw [hashBlocks_cons hbs _ _ _ _ _ hlen1, L.cinc_cof]
    rw [hc]
    have := ih (A.comp h (A.cof (t + A.bs)) false (blocks.take A.bs)) (t + A.bs) (blocks.drop A.bs) rest hlen2 hr
    have ht : t + A.bs + k * A.bs = t + (k + 1) * A.bs := by rw [Nat.succ_mul]; omega
    rw [ht] at this
    exact this

/-! ### directLen -/

theorem directLen_spec (bs len : Nat) (hp : 0 < bs) (hl : bs < len) :
    ∃ k, directLen bs len = k * bs ∧ directLen bs len < len ∧ len ≤ directLen bs len + bs := by
  have hdm := Nat.div_add_mod len bs
  have hm := Nat.mod_lt len hp
  rw [Nat.mul_comm] at hdm
  unfold directLen
  generalize len / bs = q at *
  generalize len % bs = r at *
  by_cases he : len = q * bs
  · simp only [if_pos he]
    have hq : 2 ≤ q := by
      rcases Nat.lt_or_ge q 2 with h2 | h2
      · have : q = 0 ∨ q = 1 := by omega
        rcases this with h0 | h1
        · rw [h0] at he; omega
        · rw [h1] at he; omega
      · exact h2
    obtain ⟨q', rfl⟩ : ∃ q', q = q' + 2 := ⟨q - 2, by omega⟩
    refine ⟨q' + 1, ?_, ?_, ?_⟩
    · simp only [Nat.succ_mul, Nat.add_mul]; omega
    · simp only [Nat.succ_mul, Nat.add_mul] at *; omega
    · simp only [Nat.succ_mul, Nat.add_mul] at *; omega
  · simp only [if_neg he]
    refine ⟨q, rfl, ?_, ?_⟩ <;> omega

/-! ### invariant and the per-operation refinement lemmas -/

/-- the Go struct invariant: `block` is a `[BlockSize]byte` and `offset ≤ BlockSize` -/
def Inv (d : Digest A) : Prop := d.offset ≤ A.bs ∧ d.block.length = A.bs

theorem buf_length (d : Digest A) (hI : Inv d) : d.buf.length = d.offset := by
  simp only [Digest.buf, List.length_take]; have := hI.1; have := hI.2; omega

theorem writeTail_spec (L : Laws A) (d : Digest A) (p : Bytes) (t : Nat)
    (hI : Inv d) (ho : d.offset = 0) (hc : d.c = A.cof t) :
    ∃ t', (d.writeTail p).c = A.cof t' ∧ Inv (d.writeTail p) ∧
      ∀ sfx, specLoop A (d.writeTail p).h t' ((d.writeTail p).buf ++ sfx) = specLoop A d.h t (p ++ sfx) := by
  have hbs := L.bs_pos
  by_cases hl : p.length > A.bs
  · obtain ⟨k, hk, hlt, hle⟩ := directLen_spec A.bs p.length hbs hl
    have hsplit : p = p.take (directLen A.bs p.length) ++ p.drop (directLen A.bs p.length) :=
      (List.take_append_drop _ _).symm
    have hlen1 : (p.take (directLen A.bs p.length)).length = k * A.bs := by
      rw [List.length_take, ← hk]; omega
    have hlen2 : 0 < (p.drop (directLen A.bs p.length)).length := by
      rw [List.length_drop]; omega
    have hlen3 : (p.drop (directLen A.bs p.length)).length ≤ A.bs := by
      rw [List.length_drop]; omega
    have hbuf : (d.writeTail p).buf = p.drop (directLen A.bs p.length) := by
      simp only [Digest.writeTail, if_pos hl, Digest.buf, ho, Nat.zero_add]
      have := take_copyAt d.block 0 (p.drop (directLen A.bs p.length)) (by rw [hI.2]; omega)
      simp only [Nat.zero_add, List.take_zero, List.nil_append] at this
      exact this
    have hh : (d.writeTail p).h = (hashBlocks A d.h (A.cof t) false (p.take (directLen A.bs p.length))).1 := by
      simp only [Digest.writeTail, if_pos hl, hc]
    refine ⟨t + k * A.bs, ?_, ?_, ?_⟩
    · simp only [Digest.writeTail, if_pos hl, hc]
      exact (specLoop_hashBlocks L k d.h t _ _ hlen1 hlen2).2
    · simp only [Digest.writeTail, if_pos hl, Inv, ho, Nat.zero_add]
      refine ⟨hlen3, ?_⟩
      rw [copyAt_length _ _ _ (by omega)]; exact hI.2
    · intro sfx
      have key := specLoop_hashBlocks L k d.h t (p.take (directLen A.bs p.length))
        (p.drop (directLen A.bs p.length) ++ sfx) hlen1 (by rw [List.length_append]; omega)
      rw [← List.append_assoc, ← hsplit] at key
      rw [key.1, hbuf, hh]
  · have hbuf : (d.writeTail p).buf = p := by
      simp only [Digest.writeTail, if_neg hl, Digest.buf, ho, Nat.zero_add]
      have := take_copyAt d.block 0 p (by rw [hI.2]; omega)
      simp only [Nat.zero_add, List.take_zero, List.nil_append] at this
      exact this
    refine ⟨t, ?_, ?_, ?_⟩
    · simp only [Digest.writeTail, if_neg hl, hc]
    · simp only [Digest.writeTail, if_neg hl, Inv, ho, Nat.zero_add]
      refine ⟨by omega, ?_⟩
      rw [copyAt_length _ _ _ (by omega)]; exact hI.2
    · intro sfx
      rw [hbuf]
      simp only [Digest.writeTail, if_neg hl]

/-- one Write: the state afterwards stands for "the bytes buffered before, then `p`" — whatever is
    written later (`sfx`), the RFC loop continues identically from both -/
theorem write_spec (L : Laws A) (d : Digest A) (p : Bytes) (t : Nat) (hI : Inv d) (hc : d.c = A.cof t) :
    ∃ t', (d.write p).c = A.cof t' ∧ Inv (d.write p) ∧
      ∀ sfx, specLoop A (d.write p).h t' ((d.write p).buf ++ sfx) = specLoop A d.h t (d.buf ++ p ++ sfx) := by
  have hbs := L.bs_pos
  obtain ⟨hoff, hblk⟩ := hI
  by_cases ho : d.offset > 0
  · by_cases hp : p.length ≤ A.bs - d.offset
    · refine ⟨t, ?_, ?_, ?_⟩
      · simp only [Digest.write, if_pos ho, if_pos hp, hc]
      · simp only [Digest.write, if_pos ho, if_pos hp, Inv]
        refine ⟨by omega, ?_⟩
        rw [copyAt_length _ _ _ (by omega)]; exact hblk
      · intro sfx
        simp only [Digest.write, if_pos ho, if_pos hp, Digest.buf]
        rw [take_copyAt _ _ _ (by omega)]
    · -- flush the completed block, continue with the rest
      have hrem : (p.take (A.bs - d.offset)).length = A.bs - d.offset := by
        rw [List.length_take]; omega
      have hblkeq : copyAt d.block d.offset (p.take (A.bs - d.offset)) =
          d.buf ++ p.take (A.bs - d.offset) := by
        rw [copyAt_full _ _ _ (by rw [hrem]; omega)]; rfl
      have hfull : (d.buf ++ p.take (A.bs - d.offset)).length = A.bs := by
        rw [List.length_append, buf_length d ⟨hoff, hblk⟩, hrem]; omega
      let d1 : Digest A := { d with block := d.buf ++ p.take (A.bs - d.offset),
                                    h := A.comp d.h (A.cof (t + A.bs)) false (d.buf ++ p.take (A.bs - d.offset)),
                                    c := A.cof (t + A.bs), offset := 0 }
      have hw : d.write p = d1.writeTail (p.drop (A.bs - d.offset)) := by
        simp only [Digest.write, if_pos ho, if_neg hp, hblkeq, d1]
        rw [hashBlocks_one hbs _ _ _ _ hfull, hc, L.cinc_cof]
      have hI1 : Inv d1 := ⟨by simp [d1], by simp only [d1]; exact hfull⟩
      obtain ⟨t', h1, h2, h3⟩ := writeTail_spec L d1 (p.drop (A.bs - d.offset)) (t + A.bs) hI1 rfl rfl
      refine ⟨t', by rw [hw]; exact h1, by rw [hw]; exact h2, ?_⟩
      intro sfx
      rw [hw, h3 sfx]
      have hbl := buf_length d ⟨hoff, hblk⟩
      have hlong : A.bs < (d.buf ++ p ++ sfx).length := by
        rw [List.length_append, List.length_append, hbl]; omega
      rw [specLoop_long hbs _ _ _ hlong]
      have e1 : (d.buf ++ p ++ sfx).take A.bs = d.buf ++ p.take (A.bs - d.offset) := by
        rw [List.append_assoc, List.take_append, hbl, List.take_of_length_le (by omega),
          List.take_append_of_le_length (by omega)]
      have e2 : (d.buf ++ p ++ sfx).drop A.bs = p.drop (A.bs - d.offset) ++ sfx := by
        rw [List.append_assoc, List.drop_append, hbl, List.drop_of_length_le (by omega),
          List.drop_append_of_le_length (by omega)]; simp
      rw [e1, e2]
  · have ho0 : d.offset = 0 := by omega
    obtain ⟨t', h1, h2, h3⟩ := writeTail_spec L d p t ⟨hoff, hblk⟩ ho0 hc
    have hw : d.write p = d.writeTail p := by simp only [Digest.write, if_neg ho]
    refine ⟨t', by rw [hw]; exact h1, by rw [hw]; exact h2, ?_⟩
    intro sfx
    rw [hw, h3 sfx]
    simp [Digest.buf, ho0]

/-- finalize = the last step of the RFC loop on the buffered bytes, with `t` = total byte count -/
theorem finalize_spec (L : Laws A) (d : Digest A) (t : Nat) (hI : Inv d) (hc : d.c = A.cof t) :
    d.finalize = specLoop A d.h t d.buf := by
  have hbl := buf_length d hI
  obtain ⟨hoff, hblk⟩ := hI
  rw [specLoop_short _ _ _ (by omega)]
  simp only [Digest.finalize]
  have e : copyAt (zeros A.bs) 0 (List.take d.offset d.block) = d.buf ++ zeros (A.bs - d.buf.length) := by
    rw [copyAt_zeros]; rfl
    change d.buf.length ≤ A.bs; omega
  rw [e, hashBlocks_one L.bs_pos]
  · simp only [hc]
    rw [L.cdec_cinc _ _ (by omega), hbl]
    have : A.bs - (A.bs - d.offset) = d.offset := by omega
    rw [this]
  · rw [List.length_append, zeros_length]; omega

theorem writeTail_size (d : Digest A) (p : Bytes) :
    (d.writeTail p).size = d.size ∧ (d.writeTail p).key = d.key ∧ (d.writeTail p).keyLen = d.keyLen := by
  unfold Digest.writeTail
  by_cases h : p.length > A.bs <;> simp [h]

theorem write_size (d : Digest A) (p : Bytes) :
    (d.write p).size = d.size ∧ (d.write p).key = d.key ∧ (d.write p).keyLen = d.keyLen := by
  unfold Digest.write
  by_cases h1 : d.offset > 0
  · by_cases h2 : p.length ≤ A.bs - d.offset
    · simp [h1, h2]
    · simp only [if_pos h1, if_neg h2]
      exact writeTail_size _ _
  · simp only [if_neg h1]
    exact writeTail_size _ _

/-! ### the Go-shaped block step is the RFC compression function -/

open Variant

/-- the permuted table of the Go code is the RFC schedule σ read in the statement order of
    hashBlocksGeneric (x-inputs of the four column G's, their y-inputs, then the same for the diagonals) -/
theorem precomputed_eq_sigma : ∀ r, r < 12 →
    precomputed r 0 = sigma r 0 ∧ precomputed r 1 = sigma r 2 ∧ precomputed r 2 = sigma r 4 ∧ precomputed r 3 = sigma r 6 ∧
    precomputed r 4 = sigma r 1 ∧ precomputed r 5 = sigma r 3 ∧ precomputed r 6 = sigma r 5 ∧ precomputed r 7 = sigma r 7 ∧
    precomputed r 8 = sigma r 8 ∧ precomputed r 9 = sigma r 10 ∧ precomputed r 10 = sigma r 12 ∧ precomputed r 11 = sigma r 14 ∧
    precomputed r 12 = sigma r 9 ∧ precomputed r 13 = sigma r 11 ∧ precomputed r 14 = sigma r 13 ∧ precomputed r 15 = sigma r 15 := by
  decide

/-- ring-ish facts about the word type used below (hold for UInt64 and UInt32) -/
structure WordLaws (α : Type) [Variant α] : Prop where
  add_comm : ∀ a b : α, a + b = b + a
  add_assoc : ∀ a b c : α, a + b + c = a + (b + c)
  xor_assoc : ∀ a b c : α, a ^^^ b ^^^ c = a ^^^ (b ^^^ c)
  xor_zero : ∀ a : α, a ^^^ (zero : α) = a
  rounds_le : rounds α ≤ 12

section
variable {α : Type} [Variant α] (W : WordLaws α)
include W

theorem G_halves (a b c d x y : α) :
    G a b c d x y =
      halfGo (r3 α) (r4 α) (halfGo (r1 α) (r2 α) a b c d x).1 (halfGo (r1 α) (r2 α) a b c d x).2.1
        (halfGo (r1 α) (r2 α) a b c d x).2.2.1 (halfGo (r1 α) (r2 α) a b c d x).2.2.2 y := by
  simp only [G, halfGo]
  have e : ∀ (p q z : α), p + q + z = p + z + q := by
    intro p q z; rw [W.add_assoc, W.add_comm q z, ← W.add_assoc]
  rw [e a b x, e _ _ y]

theorem roundGo_eq (m : Array α) (r : Nat) (hr : r < 12) (v : V16 α) :
    roundGo m (precomputed r) v = roundRFC m (sigma r) v := by
  obtain ⟨h0,h1,h2,h3,h4,h5,h6,h7,h8,h9,h10,h11,h12,h13,h14,h15⟩ := precomputed_eq_sigma r hr
  unfold roundGo roundRFC
  simp only [h0,h1,h2,h3,h4,h5,h6,h7,h8,h9,h10,h11,h12,h13,h14,h15, G_halves W]

theorem roundsGo_eq (m : Array α) (n : Nat) : ∀ (r : Nat) (v : V16 α), r + n ≤ 12 →
    roundsGo m n r v = roundsRFC m n r v := by
  induction n with
  | zero => intro r v _; rfl
  | succ n ih =>
    intro r v h
    simp only [roundsGo, roundsRFC]
    rw [roundGo_eq W m r (by omega), ih (r+1) _ (by omega)]

/-- one iteration of hashBlocksGeneric's block loop = RFC 7693 F (flag word all-ones ⇔ final block) -/
theorem compressGo_eq_F (h : H8 α) (blk : Bytes) (c0 c1 : α) (last : Bool) :
    compressGo h blk c0 c1 (if last then ones else zero) = F h blk c0 c1 last := by
  unfold compressGo F
  simp only []
  rw [roundsGo_eq W _ _ _ _ (by have := W.rounds_le; omega)]
  cases last
  · simp [W.xor_zero, W.xor_assoc]
  · simp [W.xor_assoc]

end

theorem wordLaws64 : WordLaws UInt64 where
  add_comm := UInt64.add_comm
  add_assoc := UInt64.add_assoc
  xor_assoc := UInt64.xor_assoc
  xor_zero := fun a => UInt64.xor_zero (a := a)
  rounds_le := by decide

theorem wordLaws32 : WordLaws UInt32 where
  add_comm := UInt32.add_comm
  add_assoc := UInt32.add_assoc
  xor_assoc := UInt32.xor_assoc
  xor_zero := fun a => UInt32.xor_zero (a := a)
  rounds_le := by decide

/-! ### counter laws for the two instances -/

theorem B_laws : Laws B where
  bs_pos := by decide
  maxSize_le := by decide
  cinc_cof := by
    intro t
    show ((UInt64.ofNat t + 128, if UInt64.ofNat t + 128 < 128 then UInt64.ofNat (t / 2^64) + 1 else UInt64.ofNat (t / 2^64)) : UInt64 × UInt64)
       = (UInt64.ofNat (t + 128), UInt64.ofNat ((t + 128) / 2^64))
    have e1 : UInt64.ofNat t + 128 = UInt64.ofNat (t + 128) := by
      apply UInt64.toNat_inj.mp
      simp [UInt64.toNat_add, UInt64.toNat_ofNat']
    rw [e1]
    congr 1
    split <;> rename_i h <;> rw [UInt64.lt_iff_toNat_lt] at h <;> apply UInt64.toNat_inj.mp <;>
      simp [UInt64.toNat_add, UInt64.toNat_ofNat'] at h ⊢ <;> omega
  cdec_cinc := by
    intro t r hr
    have hr' : r ≤ 128 := hr
    show (((UInt64.ofNat t - UInt64.ofNat r) + 128,
           if (UInt64.ofNat t - UInt64.ofNat r) + 128 < 128
           then (if UInt64.ofNat t < UInt64.ofNat r then UInt64.ofNat (t / 2^64) - 1 else UInt64.ofNat (t / 2^64)) + 1
           else (if UInt64.ofNat t < UInt64.ofNat r then UInt64.ofNat (t / 2^64) - 1 else UInt64.ofNat (t / 2^64))) : UInt64 × UInt64)
       = (UInt64.ofNat (t + (128 - r)), UInt64.ofNat ((t + (128 - r)) / 2^64))
    have hrm : r % 18446744073709551616 = r := by omega
    have e1 : (UInt64.ofNat t - UInt64.ofNat r) + 128 = UInt64.ofNat (t + (128 - r)) := by
      apply UInt64.toNat_inj.mp
      simp [UInt64.toNat_add, UInt64.toNat_sub, UInt64.toNat_ofNat', hrm]
      omega
    rw [e1]
    congr 1
    split <;> split <;> rename_i h1 h2 <;>
      rw [UInt64.lt_iff_toNat_lt] at h1 h2 <;>
      apply UInt64.toNat_inj.mp <;>
      simp [UInt64.toNat_add, UInt64.toNat_sub, UInt64.toNat_ofNat', hrm] at h1 h2 ⊢ <;>
      omega
  cof_surj := by
    intro c
    obtain ⟨a, b⟩ := c
    refine ⟨a.toNat + 2^64 * b.toNat, ?_⟩
    show (a, b) = (UInt64.ofNat (a.toNat + 2^64 * b.toNat), UInt64.ofNat ((a.toNat + 2^64 * b.toNat) / 2^64))
    have ha := a.toNat_lt
    have hb := b.toNat_lt
    congr 1
    · apply UInt64.toNat_inj.mp; simp
    · apply UInt64.toNat_inj.mp; simp [UInt64.toNat_ofNat']; omega

theorem S_laws : Laws S where
  bs_pos := by decide
  maxSize_le := by decide
  cinc_cof := by
    intro t
    show ((UInt32.ofNat t + 64, if UInt32.ofNat t + 64 < 64 then UInt32.ofNat (t / 2^32) + 1 else UInt32.ofNat (t / 2^32)) : UInt32 × UInt32)
       = (UInt32.ofNat (t + 64), UInt32.ofNat ((t + 64) / 2^32))
    have e1 : UInt32.ofNat t + 64 = UInt32.ofNat (t + 64) := by
      apply UInt32.toNat_inj.mp
      simp [UInt32.toNat_add, UInt32.toNat_ofNat']
    rw [e1]
    congr 1
    split <;> rename_i h <;> rw [UInt32.lt_iff_toNat_lt] at h <;> apply UInt32.toNat_inj.mp <;>
      simp [UInt32.toNat_add, UInt32.toNat_ofNat'] at h ⊢ <;> omega
  cdec_cinc := by
    intro t r hr
    have hr' : r ≤ 64 := hr
    show (((UInt32.ofNat t - UInt32.ofNat r) + 64,
           if (UInt32.ofNat t - UInt32.ofNat r) + 64 < 64
           then (if UInt32.ofNat t < UInt32.ofNat r then UInt32.ofNat (t / 2^32) - 1 else UInt32.ofNat (t / 2^32)) + 1
           else (if UInt32.ofNat t < UInt32.ofNat r then UInt32.ofNat (t / 2^32) - 1 else UInt32.ofNat (t / 2^32))) : UInt32 × UInt32)
       = (UInt32.ofNat (t + (64 - r)), UInt32.ofNat ((t + (64 - r)) / 2^32))
    have hrm : r % 4294967296 = r := by omega
    have e1 : (UInt32.ofNat t - UInt32.ofNat r) + 64 = UInt32.ofNat (t + (64 - r)) := by
      apply UInt32.toNat_inj.mp
      simp [UInt32.toNat_add, UInt32.toNat_sub, UInt32.toNat_ofNat', hrm]
      omega
    rw [e1]
    congr 1
    split <;> split <;> rename_i h1 h2 <;>
      rw [UInt32.lt_iff_toNat_lt] at h1 h2 <;>
      apply UInt32.toNat_inj.mp <;>
      simp [UInt32.toNat_add, UInt32.toNat_sub, UInt32.toNat_ofNat', hrm] at h1 h2 ⊢ <;>
      omega
  cof_surj := by
    intro c
    obtain ⟨a, b⟩ := c
    refine ⟨a.toNat + 2^32 * b.toNat, ?_⟩
    show (a, b) = (UInt32.ofNat (a.toNat + 2^32 * b.toNat), UInt32.ofNat ((a.toNat + 2^32 * b.toNat) / 2^32))
    have ha := a.toNat_lt
    have hb := b.toNat_lt
    congr 1
    · apply UInt32.toNat_inj.mp; simp
    · apply UInt32.toNat_inj.mp; simp [UInt32.toNat_ofNat']; omega

end XC.C05
