/-
  C16 — refinement, part D2: the load and store loops, smixGo as ROMix on the 128r-byte slice of B,
  smixAll over the p slices, and Key = RFC 7914 scrypt.
-/
import XC.Proofs.C16_RefineBytes
import XC.Proofs.C16_Arith
namespace XC.C16
open XC

def rdb (b : Array UInt8) (i : Nat) : UInt8 := (b[i]?).getD 0

theorem rdb_set (a : Array UInt8) (j i : Nat) (v : UInt8) :
    rdb (a.setIfInBounds j v) i = if j = i ∧ j < a.size then v else rdb a i := by
  unfold rdb
  rw [Array.getElem?_setIfInBounds]
  by_cases h : j = i
  · subst h
    by_cases h2 : j < a.size
    · simp [h2]
    · simp [h2]
  · simp [h]

theorem rdb_of_lt (a : Array UInt8) (i : Nat) (h : i < a.size) : a[i]? = some (rdb a i) := by
  unfold rdb; rw [Array.getElem?_eq_getElem h]; rfl

theorem le32At_eq (b : Array UInt8) (j : Nat) (h : j + 4 ≤ b.size) :
    le32At b j = some (w4 (rdb b j) (rdb b (j + 1)) (rdb b (j + 2)) (rdb b (j + 3))) := by
  unfold le32At
  simp only [Option.bind_eq_bind, Option.pure_def]
  rw [if_pos h, rdb_of_lt b j (by omega), rdb_of_lt b (j + 1) (by omega), rdb_of_lt b (j + 2) (by omega),
    rdb_of_lt b (j + 3) (by omega)]
  rfl

theorem putLe32At_eq (b : Array UInt8) (j : Nat) (w : UInt32) (h : j + 4 ≤ b.size) :
    ∃ b', putLe32At b j w = some b' ∧ b'.size = b.size ∧
      ∀ i, rdb b' i = if j ≤ i ∧ i < j + 4 then byteAt w (i - j) else rdb b i := by
  unfold putLe32At
  rw [if_pos h]
  refine ⟨_, rfl, by simp, ?_⟩
  intro i
  simp only [rdb_set, Array.size_setIfInBounds]
  by_cases hin : j ≤ i ∧ i < j + 4
  · rw [if_pos hin]
    obtain ⟨k, hk, rfl⟩ : ∃ k, k < 4 ∧ i = j + k := ⟨i - j, by omega, by omega⟩
    have e : j + k - j = k := by omega
    rw [e]
    have : k = 0 ∨ k = 1 ∨ k = 2 ∨ k = 3 := by omega
    rcases this with hk | hk | hk | hk <;> subst hk <;> simp [byteAt, bytesOfWord] <;> omega
  · rw [if_neg hin]
    have n0 : ¬ (j = i) := by omega
    have n1 : ¬ (j + 1 = i) := by omega
    have n2 : ¬ (j + 2 = i) := by omega
    have n3 : ¬ (j + 3 = i) := by omega
    simp [n0, n1, n2, n3]

theorem mk16_get (f : Nat → UInt32) (o k : Nat) (hk : k < 16) : (mk16 f o).get k = f (o + k) := by
  have : k = 0 ∨ k = 1 ∨ k = 2 ∨ k = 3 ∨ k = 4 ∨ k = 5 ∨ k = 6 ∨ k = 7 ∨ k = 8 ∨ k = 9 ∨ k = 10 ∨ k = 11 ∨
      k = 12 ∨ k = 13 ∨ k = 14 ∨ k = 15 := by omega
  rcases this with h | h | h | h | h | h | h | h | h | h | h | h | h | h | h | h <;> subst h <;>
    simp [Blk.get, Blk.words, mk16]

theorem mk16_congr (f f' : Nat → UInt32) (o o' : Nat) (h : ∀ k, k < 16 → f (o + k) = f' (o' + k)) :
    mk16 f o = mk16 f' o' := by
  apply Blk.ext_get
  intro k hk
  rw [mk16_get _ _ _ hk, mk16_get _ _ _ hk, h k hk]

/-- the load loop: x[i] = LittleEndian.Uint32(b[boff+4i:]) for i < 32r -/
theorem load_refine (b : Array UInt8) (boff r : Nat) (xy : Words) (hxy : xy.size = 64 * r)
    (hb : boff + 128 * r ≤ b.size) :
    ∃ xy1, loop1 (32 * r) (loadStep b boff ⟨0, 64 * r⟩) (32 * r) 0 xy = some xy1 ∧ xy1.size = 64 * r ∧
      blocksOf xy1 0 (2 * r) = blksOfBytes ((b.toList.drop boff).take (128 * r)) := by
  obtain ⟨xy1, e, hs, hp⟩ := loop1_run (32 * r) (loadStep b boff ⟨0, 64 * r⟩)
    (fun k (a : Words) => a.size = 64 * r ∧ ∀ i, i < k →
      rdw a i = w4 (rdb b (boff + 4 * i)) (rdb b (boff + 4 * i + 1)) (rdb b (boff + 4 * i + 2)) (rdb b (boff + 4 * i + 3)))
    (by
      intro k a hk ⟨hs, hp⟩
      unfold loadStep
      rw [if_pos (by simp only; omega), le32At_eq b (boff + 4 * k) (by omega)]
      simp only [Option.bind_eq_bind, Option.pure_def, Option.bind_some]
      refine ⟨_, rfl, by simpa using hs, ?_⟩
      intro i hi
      rw [rdw_set]
      by_cases hik : 0 + k = i
      · rw [if_pos ⟨hik, by omega⟩]
        have : i = k := by omega
        subst this; rfl
      · rw [if_neg (by intro h; exact hik h.1)]
        exact hp i (by omega))
    (32 * r) 0 xy (by omega) (by omega) ⟨hxy, fun i hi => by omega⟩
  refine ⟨xy1, e, hs, ?_⟩
  have hlen : boff + 128 * r ≤ b.toList.length := by simpa using hb
  rw [drop_take_eq_range b.toList boff (128 * r) hlen]
  have e2 : 128 * r = 64 * (2 * r) := by omega
  rw [e2, blksOfBytes_range]
  unfold blocksOf
  apply List.map_congr_left
  intro j hj
  rw [List.mem_range] at hj
  rw [blkAt_eq_mk16]
  apply mk16_congr
  intro k hk
  rw [hp (0 + 16 * j + k) (by omega)]
  simp only [Array.getElem?_toList]
  have a0 : 0 + 16 * j + k = 16 * j + k := by omega
  rw [a0]
  unfold rdb
  simp only [Nat.add_assoc]

/-- the store loop: PutUint32(b[boff+4i:], x[i]) for i < 32r -/
theorem store_refine (b : Array UInt8) (boff r : Nat) (xy : Words) (hxy : xy.size = 64 * r)
    (hb : boff + 128 * r ≤ b.size) :
    ∃ b', loop1 (32 * r) (storeStep xy boff) (32 * r) 0 b = some b' ∧ b'.size = b.size ∧
      (∀ i, ¬ (boff ≤ i ∧ i < boff + 128 * r) → rdb b' i = rdb b i) ∧
      (b'.toList.drop boff).take (128 * r) = bytesOfBlks (blocksOf xy 0 (2 * r)) := by
  obtain ⟨b', e, hs, hp⟩ := loop1_run (32 * r) (storeStep xy boff)
    (fun k (a : Array UInt8) => a.size = b.size ∧ ∀ i, rdb a i =
      if boff ≤ i ∧ i < boff + 4 * k then byteAt (rdw xy ((i - boff) / 4)) ((i - boff) % 4) else rdb b i)
    (by
      intro k a hk ⟨hs, hp⟩
      unfold storeStep
      simp only [Option.bind_eq_bind, rdw_of_lt xy k (by omega), Option.bind_some]
      obtain ⟨a', ea, sa, pa⟩ := putLe32At_eq a (boff + 4 * k) (rdw xy k) (by omega)
      refine ⟨a', ea, by omega, ?_⟩
      intro i
      rw [pa i]
      by_cases hin : boff + 4 * k ≤ i ∧ i < boff + 4 * k + 4
      · rw [if_pos hin, if_pos (by omega)]
        have d1 : (i - boff) / 4 = k := by omega
        have d2 : (i - boff) % 4 = i - (boff + 4 * k) := by omega
        rw [d1, d2]
      · rw [if_neg hin, hp i]
        by_cases h2 : boff ≤ i ∧ i < boff + 4 * k
        · rw [if_pos h2, if_pos (by omega)]
        · rw [if_neg h2, if_neg (by omega)])
    (32 * r) 0 b (by omega) (by omega) ⟨rfl, fun i => by rw [if_neg (by omega)]⟩
  refine ⟨b', e, hs, ?_, ?_⟩
  · intro i hi
    rw [hp i, if_neg (by omega)]
  · have hlen : boff + 128 * r ≤ b'.toList.length := by simp; omega
    rw [drop_take_eq_range b'.toList boff (128 * r) hlen, bytesOfBlks_blocksOf]
    have e2 : 64 * (2 * r) = 128 * r := by omega
    rw [e2]
    apply List.map_congr_left
    intro j hj
    rw [List.mem_range] at hj
    simp only [Array.getElem?_toList]
    have := hp (boff + j)
    unfold rdb at this
    rw [this, if_pos (by omega)]
    have : boff + j - boff = j := by omega
    rw [this]

/-! ## smix = ROMix on the slice -/

/-- **smixGo_eq_smixI / ROMix.** On correctly sized buffers and N = 2^m (1 ≤ m ≤ 63) smix never
    fails, touches only b[boff : boff+128r], and leaves there the bytes of scryptROMix applied to the
    blocks of the bytes that were there. -/
theorem smixGo_refine (m : Mem) (boff r mm : Nat) (hr : 1 ≤ r) (hm1 : 1 ≤ mm) (hm2 : mm ≤ 63)
    (hs : Sized m boff r (2 ^ mm)) :
    ∃ m', smixGo m boff r (2 ^ mm) = some m' ∧ m'.xy.size = m.xy.size ∧ m'.v.size = m.v.size ∧
      m'.b.size = m.b.size ∧
      (∀ i, ¬ (boff ≤ i ∧ i < boff + 128 * r) → rdb m'.b i = rdb m.b i) ∧
      (m'.b.toList.drop boff).take (128 * r) =
        bytesOfBlks (romixRfc (2 ^ mm) (blksOfBytes ((m.b.toList.drop boff).take (128 * r)))) := by
  obtain ⟨hxy, hv, hb⟩ := hs
  have hn2 : 2 ^ mm % 2 = 0 := by
    obtain ⟨k, rfl⟩ : ∃ k, mm = k + 1 := ⟨mm - 1, by omega⟩
    rw [Nat.pow_succ]; omega
  unfold smixGo
  rw [if_neg (by omega)]
  simp only
  rw [hxy, hv, sliceFrom_some _ _ (by simp only; omega)]
  simp only [Option.bind_some]
  obtain ⟨xy1, e1, s1, hx0⟩ := load_refine m.b boff r m.xy hxy hb
  rw [e1]; simp only [Option.bind_some]
  -- first loop
  obtain ⟨st2, e2, inv2⟩ := loop2_run (2 ^ mm)
    (fillStep ⟨0, 64 * r⟩ ⟨0 + 32 * r, 64 * r - 32 * r⟩ ⟨0, 2 ^ mm * (32 * r)⟩ r)
    (FillInv r (2 ^ mm) (blocksOf xy1 0 (2 * r))) hn2
    (fun i st hi hev hP => fillStep_refine r (2 ^ mm) hr hn2 _ i st hi hev hP)
    (2 ^ mm) 0 (m.v, xy1) (by omega) (Nat.zero_le _) (by rw [Nat.zero_add, Nat.two_mul]; exact Nat.le_add_right _ _)
    ⟨hv, s1, rfl, fun j hj => by omega⟩
  rw [e2]; simp only [Option.bind_some]
  -- second loop
  obtain ⟨st3, e3, inv3⟩ := loop2_run (2 ^ mm)
    (mixStep ⟨0, 64 * r⟩ ⟨0 + 32 * r, 64 * r - 32 * r⟩ ⟨0, 2 ^ mm * (32 * r)⟩ r (2 ^ mm))
    (MixInv2 r (2 ^ mm) (blocksOf xy1 0 (2 * r)) (iterFn blockMixRfc' (2 ^ mm) (blocksOf xy1 0 (2 * r)))) hn2
    (fun i st _ _ hP => mixStep_refine r mm hr hm2 _ _ i st hP)
    (2 ^ mm) 0 st2 (by omega) (Nat.zero_le _) (by rw [Nat.zero_add, Nat.two_mul]; exact Nat.le_add_right _ _)
    ⟨inv2.sv, inv2.sx, inv2.v, inv2.x⟩
  rw [e3]; simp only [Option.bind_some]
  rw [if_neg (by omega)]
  obtain ⟨b4, e4, s4, f4, c4⟩ := store_refine m.b boff r st3.2 inv3.sx hb
  rw [e4]
  refine ⟨_, rfl, by simp only; exact inv3.sx, by simp only; exact inv3.sv, s4, f4, ?_⟩
  simp only
  rw [c4, inv3.x, ← romixSecond_eq_iter, ← hx0]
  rfl

/-! ## all p slices -/

/-- f applied to consecutive c-byte blocks -/
def mapChunks (c : Nat) (f : Bytes → Bytes) : Nat → Bytes → Bytes
  | 0, _ => []
  | k+1, l => f (l.take c) ++ mapChunks c f k (l.drop c)

theorem mapChunksM_some (c : Nat) (f : Bytes → Bytes) : ∀ k l,
    mapChunksM c (fun x => some (f x)) k l = some (mapChunks c f k l)
  | 0, _ => rfl
  | k+1, l => by simp [mapChunksM, mapChunks, mapChunksM_some c f k]

theorem toList_splice (b b' : Array UInt8) (o c : Nat) (new : Bytes) (hs : b'.size = b.size) (_ho : o + c ≤ b.size)
    (hout : ∀ i, ¬ (o ≤ i ∧ i < o + c) → rdb b' i = rdb b i) (hin : (b'.toList.drop o).take c = new) :
    b'.toList = b.toList.take o ++ (new ++ b.toList.drop (o + c)) := by
  have hsame : ∀ i, ¬ (o ≤ i ∧ i < o + c) → b'.toList[i]? = b.toList[i]? := by
    intro i hi
    simp only [Array.getElem?_toList]
    by_cases hlt : i < b.size
    · rw [rdb_of_lt b i hlt, rdb_of_lt b' i (by omega), hout i hi]
    · rw [Array.getElem?_eq_none (by omega), Array.getElem?_eq_none (by omega)]
  have h1 : b'.toList.take o = b.toList.take o := by
    apply List.ext_getElem?
    intro i
    simp only [List.getElem?_take]
    by_cases hi : i < o
    · rw [if_pos hi, if_pos hi]; exact hsame i (by omega)
    · rw [if_neg hi, if_neg hi]
  have h2 : b'.toList.drop (o + c) = b.toList.drop (o + c) := by
    apply List.ext_getElem?
    intro i
    simp only [List.getElem?_drop]
    exact hsame _ (by omega)
  calc b'.toList = b'.toList.take o ++ b'.toList.drop o := (List.take_append_drop o _).symm
    _ = b'.toList.take o ++ ((b'.toList.drop o).take c ++ (b'.toList.drop o).drop c) := by
        rw [List.take_append_drop c]
    _ = b.toList.take o ++ (new ++ b.toList.drop (o + c)) := by
        rw [h1, hin, List.drop_drop, h2]

/-- `for i := 0; i < p; i++ { smix(b[i*128*r:], …) }` maps ROMix over the p slices of B -/
theorem smixAll_refine (r mm : Nat) (hr : 1 ≤ r) (hm1 : 1 ≤ mm) (hm2 : mm ≤ 63) :
    ∀ k i m, m.xy.size = 64 * r → m.v.size = 2 ^ mm * (32 * r) → m.b.size = (i + k) * (128 * r) →
    ∃ m', smixAll r (2 ^ mm) k i m = some m' ∧
      m'.b.toList = m.b.toList.take (i * (128 * r)) ++
        mapChunks (128 * r) (fun c => bytesOfBlks (romixRfc (2 ^ mm) (blksOfBytes c))) k
          (m.b.toList.drop (i * (128 * r))) := by
  intro k
  induction k with
  | zero =>
    intro i m _ _ hb
    refine ⟨m, rfl, ?_⟩
    simp only [mapChunks, List.append_nil]
    rw [List.take_of_length_le]
    rw [Nat.add_zero] at hb
    simp; omega
  | succ k ih =>
    intro i m hxy hv hb
    unfold smixAll
    have hoff : i * 128 * r = i * (128 * r) := Nat.mul_assoc _ _ _
    have hle : i * (128 * r) + 128 * r ≤ m.b.size := by
      rw [hb, Nat.add_mul, Nat.add_mul, Nat.one_mul]; omega
    rw [hoff]
    obtain ⟨m1, e1, s1, s2, s3, fr, ck⟩ := smixGo_refine m (i * (128 * r)) r mm hr hm1 hm2 ⟨hxy, hv, hle⟩
    rw [e1]
    simp only [Option.bind_some]
    obtain ⟨m', e', h'⟩ := ih (i + 1) m1 (by omega) (by omega) (by rw [s3, hb]; congr 1; omega)
    refine ⟨m', e', ?_⟩
    have hsp := toList_splice m.b m1.b (i * (128 * r)) (128 * r) _ s3 hle fr ck
    have e2 : (i + 1) * (128 * r) = i * (128 * r) + 128 * r := by rw [Nat.add_mul, Nat.one_mul]
    have hlen : (m.b.toList.take (i * (128 * r))).length = i * (128 * r) := by
      rw [List.length_take]; simp; omega
    have hlen2 : (bytesOfBlks (romixRfc (2 ^ mm) (blksOfBytes ((m.b.toList.drop (i * (128 * r))).take (128 * r))))).length
        = 128 * r := by
      rw [← ck, List.length_take, List.length_drop]; simp; omega
    rw [h', hsp, e2]
    simp only [mapChunks]
    rw [← List.append_assoc, List.take_left' (by rw [List.length_append, hlen, hlen2]),
      List.drop_left' (by rw [List.length_append, hlen, hlen2]), List.drop_drop, List.append_assoc]

end XC.C16
