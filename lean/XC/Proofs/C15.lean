/-
  C15 — the Go-shaped block function (processBlockGeneric's index pattern) equals RFC 9106 §3.5–3.6.
-/
import XC.Model.C15_Rfc
namespace XC.C15
open XC.C15.Rfc

/-! ### word level -/

theorem lo32_eq_trunc (x : UInt64) : lo32 x = trunc x := by
  apply UInt64.toNat_inj.mp
  unfold lo32 trunc
  rw [UInt64.toNat_and, UInt64.toNat_mod]
  show x.toNat &&& (2 ^ 32 - 1) = x.toNat % 4294967296
  rw [Nat.and_two_pow_sub_one_eq_mod]

theorem gB_eq_GB (a b c d : UInt64) : gB a b c d = GB a b c d := by
  have f : ∀ x y : UInt64, fBlaMka x y = x + y + 2 * trunc x * trunc y := by
    intro x y; unfold fBlaMka; rw [lo32_eq_trunc, lo32_eq_trunc, UInt64.add_assoc]
  simp only [gB, GB, f]
  rfl

theorem Pwith_gB : Pwith gB = P := by
  funext w
  have : gB = GB := by funext a b c d; exact gB_eq_GB a b c d
  unfold P; rw [this]

/-! ### arrays -/

theorem getD_set (a : Array UInt64) (i j : Nat) (v : UInt64) (hi : i < a.size) :
    (a.setIfInBounds i v).getD j 0 = if j = i then v else a.getD j 0 := by
  simp only [Array.getD_eq_getD_getElem?, Array.getElem?_setIfInBounds]
  by_cases h : i = j
  · subst h; simp [hi]
  · have h' : ¬ j = i := fun e => h e.symm
    simp [h, h']

theorem size_set (a : Array UInt64) (i : Nat) (v : UInt64) : (a.setIfInBounds i v).size = a.size := by simp

/-- the 16 stores of blamkaGeneric -/
def set16 (t : Block) (i0 i1 i2 i3 i4 i5 i6 i7 i8 i9 i10 i11 i12 i13 i14 i15 : Nat) (w : W16) : Block :=
  ((((((((((((((((t.setIfInBounds i0 w.v0).setIfInBounds i1 w.v1).setIfInBounds i2 w.v2).setIfInBounds i3 w.v3).setIfInBounds i4 w.v4).setIfInBounds i5 w.v5).setIfInBounds i6 w.v6).setIfInBounds i7 w.v7).setIfInBounds i8 w.v8).setIfInBounds i9 w.v9).setIfInBounds i10 w.v10).setIfInBounds i11 w.v11).setIfInBounds i12 w.v12).setIfInBounds i13 w.v13).setIfInBounds i14 w.v14).setIfInBounds i15 w.v15)

def get16 (t : Block) (i0 i1 i2 i3 i4 i5 i6 i7 i8 i9 i10 i11 i12 i13 i14 i15 : Nat) : W16 :=
  ⟨t.getD i0 0, t.getD i1 0, t.getD i2 0, t.getD i3 0, t.getD i4 0, t.getD i5 0, t.getD i6 0, t.getD i7 0,
   t.getD i8 0, t.getD i9 0, t.getD i10 0, t.getD i11 0, t.getD i12 0, t.getD i13 0, t.getD i14 0, t.getD i15 0⟩

/-- blamkaGeneric = load 16 words, apply P (with Go's mixing step), store them back -/
theorem blamka_eq (t : Block) (i0 i1 i2 i3 i4 i5 i6 i7 i8 i9 i10 i11 i12 i13 i14 i15 : Nat) :
    blamka t i0 i1 i2 i3 i4 i5 i6 i7 i8 i9 i10 i11 i12 i13 i14 i15 =
      set16 t i0 i1 i2 i3 i4 i5 i6 i7 i8 i9 i10 i11 i12 i13 i14 i15
        (P (get16 t i0 i1 i2 i3 i4 i5 i6 i7 i8 i9 i10 i11 i12 i13 i14 i15)) := by
  rw [← Pwith_gB]
  rfl

theorem set16_size (t : Block) (i0 i1 i2 i3 i4 i5 i6 i7 i8 i9 i10 i11 i12 i13 i14 i15 : Nat) (w : W16) :
    (set16 t i0 i1 i2 i3 i4 i5 i6 i7 i8 i9 i10 i11 i12 i13 i14 i15 w).size = t.size := by
  simp [set16]

theorem set16_getD (t : Block) (i0 i1 i2 i3 i4 i5 i6 i7 i8 i9 i10 i11 i12 i13 i14 i15 : Nat) (w : W16) (j : Nat)
    (h : i0 < t.size ∧ i1 < t.size ∧ i2 < t.size ∧ i3 < t.size ∧ i4 < t.size ∧ i5 < t.size ∧ i6 < t.size ∧
         i7 < t.size ∧ i8 < t.size ∧ i9 < t.size ∧ i10 < t.size ∧ i11 < t.size ∧ i12 < t.size ∧ i13 < t.size ∧
         i14 < t.size ∧ i15 < t.size) :
    (set16 t i0 i1 i2 i3 i4 i5 i6 i7 i8 i9 i10 i11 i12 i13 i14 i15 w).getD j 0 =
      if j = i15 then w.v15 else if j = i14 then w.v14 else if j = i13 then w.v13 else if j = i12 then w.v12
      else if j = i11 then w.v11 else if j = i10 then w.v10 else if j = i9 then w.v9 else if j = i8 then w.v8
      else if j = i7 then w.v7 else if j = i6 then w.v6 else if j = i5 then w.v5 else if j = i4 then w.v4
      else if j = i3 then w.v3 else if j = i2 then w.v2 else if j = i1 then w.v1 else if j = i0 then w.v0
      else t.getD j 0 := by
  obtain ⟨h0, h1, h2, h3, h4, h5, h6, h7, h8, h9, h10, h11, h12, h13, h14, h15⟩ := h
  unfold set16
  rw [getD_set _ _ _ _ (by simp; exact h15), getD_set _ _ _ _ (by simp; exact h14), getD_set _ _ _ _ (by simp; exact h13),
    getD_set _ _ _ _ (by simp; exact h12), getD_set _ _ _ _ (by simp; exact h11), getD_set _ _ _ _ (by simp; exact h10),
    getD_set _ _ _ _ (by simp; exact h9), getD_set _ _ _ _ (by simp; exact h8), getD_set _ _ _ _ (by simp; exact h7),
    getD_set _ _ _ _ (by simp; exact h6), getD_set _ _ _ _ (by simp; exact h5), getD_set _ _ _ _ (by simp; exact h4),
    getD_set _ _ _ _ (by simp; exact h3), getD_set _ _ _ _ (by simp; exact h2), getD_set _ _ _ _ (by simp; exact h1),
    getD_set _ _ _ _ h0]

/-- resolve a chain of `if j = … then … else …` whose conditions are linear arithmetic facts -/
macro "ite_omega" : tactic =>
  `(tactic| repeat (first | rw [if_pos (by omega)] | rw [if_neg (by omega)]))

/-! ### rows -/

/-- the Go row step: `blamkaGeneric(&t[i+0], …, &t[i+15])` with `i = 16k` -/
def rowStep (t : Block) (k : Nat) : Block :=
  let i := 16 * k
  blamka t i (i+1) (i+2) (i+3) (i+4) (i+5) (i+6) (i+7) (i+8) (i+9) (i+10) (i+11) (i+12) (i+13) (i+14) (i+15)

def row16 (t : Block) (k : Nat) : W16 :=
  get16 t (16*k) (16*k+1) (16*k+2) (16*k+3) (16*k+4) (16*k+5) (16*k+6) (16*k+7) (16*k+8) (16*k+9) (16*k+10)
    (16*k+11) (16*k+12) (16*k+13) (16*k+14) (16*k+15)

theorem rowStep_size (t : Block) (k : Nat) : (rowStep t k).size = t.size := by
  unfold rowStep; simp only []; rw [blamka_eq, set16_size]

theorem rowStep_getD (t : Block) (k j : Nat) (hs : t.size = 128) (hk : k < 8) :
    (rowStep t k).getD j 0 = if j / 16 = k then (P (row16 t k)).get (j % 16) else t.getD j 0 := by
  unfold rowStep
  simp only []
  rw [blamka_eq, set16_getD _ _ _ _ _ _ _ _ _ _ _ _ _ _ _ _ _ _ _ (by omega)]
  unfold row16
  generalize P (get16 t (16*k) (16*k+1) (16*k+2) (16*k+3) (16*k+4) (16*k+5) (16*k+6) (16*k+7) (16*k+8) (16*k+9)
    (16*k+10) (16*k+11) (16*k+12) (16*k+13) (16*k+14) (16*k+15)) = w
  by_cases hj : j / 16 = k
  · rw [if_pos hj]
    have hm : j % 16 < 16 := Nat.mod_lt _ (by decide)
    have hjm : j = 16 * k + j % 16 := by omega
    generalize j % 16 = m at *
    subst hjm
    have : m = 0 ∨ m = 1 ∨ m = 2 ∨ m = 3 ∨ m = 4 ∨ m = 5 ∨ m = 6 ∨ m = 7 ∨ m = 8 ∨ m = 9 ∨ m = 10 ∨ m = 11 ∨
        m = 12 ∨ m = 13 ∨ m = 14 ∨ m = 15 := by omega
    rcases this with rfl | rfl | rfl | rfl | rfl | rfl | rfl | rfl | rfl | rfl | rfl | rfl | rfl | rfl | rfl | rfl <;>
      ite_omega <;> rfl
  · rw [if_neg hj]
    ite_omega

def rowsUpTo (t : Block) (k : Nat) : Block := (List.range k).foldl rowStep t

theorem rows_inv (t : Block) (hs : t.size = 128) (k : Nat) (hk : k ≤ 8) :
    (rowsUpTo t k).size = 128 ∧
    ∀ j, (rowsUpTo t k).getD j 0 = if j / 16 < k then (P (row16 t (j / 16))).get (j % 16) else t.getD j 0 := by
  induction k with
  | zero => exact ⟨hs, fun j => by simp [rowsUpTo]⟩
  | succ k ih =>
    obtain ⟨hsz, hget⟩ := ih (by omega)
    have hstep : rowsUpTo t (k + 1) = rowStep (rowsUpTo t k) k := by
      simp [rowsUpTo, List.range_succ, List.foldl_append]
    rw [hstep]
    refine ⟨by rw [rowStep_size]; exact hsz, fun j => ?_⟩
    rw [rowStep_getD _ _ _ hsz (by omega)]
    have hrow : row16 (rowsUpTo t k) k = row16 t k := by
      have e : ∀ m, m < 16 → (rowsUpTo t k).getD (16 * k + m) 0 = t.getD (16 * k + m) 0 := by
        intro m hm
        rw [hget, if_neg (by omega)]
      unfold row16 get16
      rw [e 1 (by omega), e 2 (by omega), e 3 (by omega), e 4 (by omega), e 5 (by omega), e 6 (by omega),
        e 7 (by omega), e 8 (by omega), e 9 (by omega), e 10 (by omega), e 11 (by omega), e 12 (by omega),
        e 13 (by omega), e 14 (by omega), e 15 (by omega)]
      have e0 := e 0 (by omega)
      rw [Nat.add_zero] at e0
      rw [e0]
    rw [hrow]
    by_cases h1 : j / 16 = k
    · rw [if_pos h1, if_pos (by omega), h1]
    · rw [if_neg h1, hget]
      by_cases h2 : j / 16 < k
      · rw [if_pos h2, if_pos (by omega)]
      · rw [if_neg h2, if_neg (by omega)]

/-! ### columns -/

/-- the Go column step with `i = 2c` -/
def colStep (t : Block) (c : Nat) : Block :=
  let i := 2 * c
  blamka t i (i+1) (16+i) (16+i+1) (32+i) (32+i+1) (48+i) (48+i+1) (64+i) (64+i+1) (80+i) (80+i+1)
    (96+i) (96+i+1) (112+i) (112+i+1)

def col16 (t : Block) (c : Nat) : W16 :=
  get16 t (2*c) (2*c+1) (16+2*c) (16+2*c+1) (32+2*c) (32+2*c+1) (48+2*c) (48+2*c+1) (64+2*c) (64+2*c+1)
    (80+2*c) (80+2*c+1) (96+2*c) (96+2*c+1) (112+2*c) (112+2*c+1)

theorem colStep_size (t : Block) (c : Nat) : (colStep t c).size = t.size := by
  unfold colStep; simp only []; rw [blamka_eq, set16_size]

theorem colStep_getD (t : Block) (c j : Nat) (hs : t.size = 128) (hc : c < 8) (hj : j < 128) :
    (colStep t c).getD j 0 =
      if j % 16 / 2 = c then (P (col16 t c)).get (2 * (j / 16) + j % 2) else t.getD j 0 := by
  unfold colStep
  simp only []
  rw [blamka_eq, set16_getD _ _ _ _ _ _ _ _ _ _ _ _ _ _ _ _ _ _ _ (by omega)]
  unfold col16
  generalize P (get16 t (2*c) (2*c+1) (16+2*c) (16+2*c+1) (32+2*c) (32+2*c+1) (48+2*c) (48+2*c+1) (64+2*c)
    (64+2*c+1) (80+2*c) (80+2*c+1) (96+2*c) (96+2*c+1) (112+2*c) (112+2*c+1)) = w
  by_cases hjc : j % 16 / 2 = c
  · rw [if_pos hjc]
    have ha : j / 16 < 8 := by omega
    have hb : j % 2 < 2 := Nat.mod_lt _ (by decide)
    have hjm : j = 16 * (j / 16) + 2 * c + j % 2 := by omega
    generalize j / 16 = a at *
    generalize j % 2 = b at *
    subst hjm
    have : (a = 0 ∨ a = 1 ∨ a = 2 ∨ a = 3 ∨ a = 4 ∨ a = 5 ∨ a = 6 ∨ a = 7) := by omega
    have hb' : b = 0 ∨ b = 1 := by omega
    rcases this with rfl | rfl | rfl | rfl | rfl | rfl | rfl | rfl <;> rcases hb' with rfl | rfl <;>
      ite_omega <;> rfl
  · rw [if_neg hjc]
    ite_omega

def colsUpTo (t : Block) (c : Nat) : Block := (List.range c).foldl colStep t

theorem cols_inv (t : Block) (hs : t.size = 128) (c : Nat) (hc : c ≤ 8) :
    (colsUpTo t c).size = 128 ∧
    ∀ j, j < 128 → (colsUpTo t c).getD j 0 =
      if j % 16 / 2 < c then (P (col16 t (j % 16 / 2))).get (2 * (j / 16) + j % 2) else t.getD j 0 := by
  induction c with
  | zero => exact ⟨hs, fun j _ => by simp [colsUpTo]⟩
  | succ c ih =>
    obtain ⟨hsz, hget⟩ := ih (by omega)
    have hstep : colsUpTo t (c + 1) = colStep (colsUpTo t c) c := by
      simp [colsUpTo, List.range_succ, List.foldl_append]
    rw [hstep]
    refine ⟨by rw [colStep_size]; exact hsz, fun j hj => ?_⟩
    rw [colStep_getD _ _ _ hsz (by omega) hj]
    have hcol : col16 (colsUpTo t c) c = col16 t c := by
      have e : ∀ i, i < 128 → i % 16 / 2 = c → (colsUpTo t c).getD i 0 = t.getD i 0 := by
        intro i hi hic
        rw [hget i hi, if_neg (by omega)]
      unfold col16 get16
      rw [e (2*c) (by omega) (by omega), e (2*c+1) (by omega) (by omega), e (16+2*c) (by omega) (by omega),
        e (16+2*c+1) (by omega) (by omega), e (32+2*c) (by omega) (by omega), e (32+2*c+1) (by omega) (by omega),
        e (48+2*c) (by omega) (by omega), e (48+2*c+1) (by omega) (by omega), e (64+2*c) (by omega) (by omega),
        e (64+2*c+1) (by omega) (by omega), e (80+2*c) (by omega) (by omega), e (80+2*c+1) (by omega) (by omega),
        e (96+2*c) (by omega) (by omega), e (96+2*c+1) (by omega) (by omega), e (112+2*c) (by omega) (by omega),
        e (112+2*c+1) (by omega) (by omega)]
    rw [hcol]
    by_cases h1 : j % 16 / 2 = c
    · rw [if_pos h1, if_pos (by omega), h1]
    · rw [if_neg h1, hget j hj]
      by_cases h2 : j % 16 / 2 < c
      · rw [if_pos h2, if_pos (by omega)]
      · rw [if_neg h2, if_neg (by omega)]

/-! ### the Go index pattern is "P on every row, then P on every column" of the register matrix -/

theorem block_ext (a b : Block) (ha : a.size = 128) (hb : b.size = 128)
    (h : ∀ j, j < 128 → a.getD j 0 = b.getD j 0) : a = b := by
  apply Array.ext (by rw [ha, hb])
  intro i h1 h2
  have := h i (by omega)
  simp only [Array.getD, h1, h2, dif_pos] at this
  exact this

theorem ofFn_getD (f : Fin 128 → UInt64) (j : Nat) (hj : j < 128) : (Array.ofFn f).getD j 0 = f ⟨j, hj⟩ := by
  simp [Array.getD, hj]

theorem rowRegs_eq (t : Block) (r : Nat) : rowRegs t r = row16 t r := by
  unfold rowRegs regs row16 get16
  congr 1 <;> congr 1 <;> omega

theorem colRegs_eq (t : Block) (c : Nat) : colRegs t c = col16 t c := by
  unfold colRegs regs col16 get16
  congr 1 <;> congr 1 <;> omega

theorem rows_eq (t : Block) (hs : t.size = 128) : rowsUpTo t 8 = applyRows t := by
  obtain ⟨hsz, hget⟩ := rows_inv t hs 8 (Nat.le_refl _)
  apply block_ext _ _ hsz (by simp [applyRows])
  intro j hj
  rw [hget j, if_pos (by omega)]
  unfold applyRows
  rw [ofFn_getD _ j hj]
  simp only []
  rw [rowRegs_eq]
  have e1 : j / 2 / 8 = j / 16 := by omega
  have e2 : 2 * (j / 2 % 8) + j % 2 = j % 16 := by omega
  rw [e1, e2]

theorem cols_eq (t : Block) (hs : t.size = 128) : colsUpTo t 8 = applyCols t := by
  obtain ⟨hsz, hget⟩ := cols_inv t hs 8 (Nat.le_refl _)
  apply block_ext _ _ hsz (by simp [applyCols])
  intro j hj
  rw [hget j hj, if_pos (by omega)]
  unfold applyCols
  rw [ofFn_getD _ j hj]
  simp only []
  rw [colRegs_eq]
  have e1 : j / 2 % 8 = j % 16 / 2 := by omega
  have e2 : 2 * (j / 2 / 8) + j % 2 = 2 * (j / 16) + j % 2 := by omega
  rw [e1, e2]

/-- **permute = columns ∘ rows of RFC 9106 §3.5**: the eight `blamkaGeneric` calls on `t[16k .. 16k+15]`
    followed by the eight on `t[2c], t[2c+1], t[16+2c], …, t[112+2c+1]` apply P to every row and then to every
    column of the 8×8 matrix of 16-byte registers -/
theorem permute_eq_rfc (t : Block) (hs : t.size = 128) : permute t = applyCols (applyRows t) := by
  have h1 : permute t = colsUpTo (rowsUpTo t 8) 8 := rfl
  rw [h1, rows_eq t hs, cols_eq _ (by simp [applyRows])]

theorem xorBlock_eq (a b : Block) : xorBlock a b = xorB a b := by
  apply block_ext _ _ (by simp [xorBlock]) (by simp [xorB])
  intro j hj
  unfold xorB
  rw [ofFn_getD _ j hj]
  simp [xorBlock, Array.getD, hj]

theorem xorB_size (a b : Block) : (xorB a b).size = 128 := by simp [xorB]

theorem xorB_comm (a b : Block) : xorB a b = xorB b a := by
  apply block_ext _ _ (xorB_size _ _) (xorB_size _ _)
  intro j hj
  unfold xorB
  rw [ofFn_getD _ j hj, ofFn_getD _ j hj]
  exact UInt64.xor_comm _ _

/-- **processBlock_eq_G**: `processBlock(out, in1, in2)` of blamka_generic.go computes the compression function
    G(X, Y) of RFC 9106 §3.5 (with P of §3.6), for arbitrary blocks -/
theorem processBlock_eq_G (x y : Block) : processBlock x y = G x y := by
  unfold processBlock G
  simp only []
  rw [xorBlock_eq x y, xorBlock_eq, permute_eq_rfc _ (xorB_size _ _), xorB_comm]

/-- `processBlockXOR(out, in1, in2)`: out ⊕ G(in1, in2) — the version-1.3 rule for passes after the first -/
theorem processBlockXOR_eq_G (o x y : Block) : processBlockXOR o x y = xorB o (G x y) := by
  unfold processBlockXOR
  rw [processBlock_eq_G, xorBlock_eq]

end XC.C15
