/-
  C03 — the Go-shaped block computation (cached first round, 9 double rounds, addXor on LE words)
  equals `src xor RFC-8439-block`.
-/
import XC.Model.C03
namespace XC.C03

/-! ## bytes of words -/

theorem w2b_length (w : UInt32) : (w2b w).length = 4 := rfl

theorem w2b_xor (x v : UInt32) : w2b (x ^^^ v) = xorBytes (w2b x) (w2b v) := by
  simp [w2b, xorBytes, UInt32.shiftRight_xor]

/-- storing the little-endian word assembled from four bytes gives the four bytes back -/
theorem w2b_word (a b c d : UInt8) :
    w2b (a.toUInt32 ||| (b.toUInt32 <<< 8) ||| (c.toUInt32 <<< 16) ||| (d.toUInt32 <<< 24)) = [a, b, c, d] := by
  simp only [w2b]
  congr 1
  · apply UInt8.toBitVec_inj.mp
    simp
  congr 1
  · apply UInt8.toBitVec_inj.mp
    simp
    ext i hi
    simp
    grind
  congr 1
  · apply UInt8.toBitVec_inj.mp
    simp
    ext i hi
    simp
    grind
  congr 1
  · apply UInt8.toBitVec_inj.mp
    simp
    ext i hi
    simp
    grind

theorem take4_drop (src : Bytes) (i : Nat) (h : i + 4 ≤ src.length) :
    (src.drop i).take 4 = [src.getD i 0, src.getD (i+1) 0, src.getD (i+2) 0, src.getD (i+3) 0] := by
  apply List.ext_getElem
  · simp; omega
  · intro j h1 h2
    simp at h2
    have hj : j = 0 ∨ j = 1 ∨ j = 2 ∨ j = 3 := by omega
    rcases hj with rfl | rfl | rfl | rfl <;> simp [List.getD_eq_getElem?_getD] <;>
      rw [List.getElem?_eq_getElem (by omega)] <;> simp

theorem w2b_wordAt (src : Bytes) (i : Nat) (h : i + 4 ≤ src.length) :
    w2b (wordAt src i) = (src.drop i).take 4 := by
  rw [take4_drop src i h]
  exact w2b_word _ _ _ _

/-- xor.go addXor = bytewise xor of the four source bytes with the LE bytes of a+b -/
theorem addXor_eq (src : Bytes) (i : Nat) (a b : UInt32) (h : i + 4 ≤ src.length) :
    addXor src i a b = xorBytes ((src.drop i).take 4) (w2b (a + b)) := by
  simp only [addXor]
  rw [w2b_xor, w2b_wordAt src i h]

theorem xorBytes_append (a b c d : Bytes) (h : a.length = c.length) :
    xorBytes (a ++ b) (c ++ d) = xorBytes a c ++ xorBytes b d := by
  simp [xorBytes, List.zipWith_append h]

/-- sixteen addXor calls in a row -/
def addXorList (src : Bytes) : Nat → List UInt32 → Bytes
  | _, [] => []
  | i, w :: ws => w2b (wordAt src i ^^^ w) ++ addXorList src (i + 4) ws

theorem flatMap_w2b_length (ws : List UInt32) : (ws.flatMap w2b).length = 4 * ws.length := by
  induction ws with
  | nil => rfl
  | cons w ws ih => simp [List.flatMap_cons, ih, w2b_length]; omega

theorem addXorList_eq (src : Bytes) (i : Nat) (ws : List UInt32) (h : i + 4 * ws.length ≤ src.length) :
    addXorList src i ws = xorBytes ((src.drop i).take (4 * ws.length)) (ws.flatMap w2b) := by
  induction ws generalizing i with
  | nil => simp [addXorList, xorBytes]
  | cons w ws ih =>
    simp only [List.length_cons] at h
    simp only [addXorList, List.flatMap_cons, List.length_cons]
    have hsplit : (src.drop i).take (4 * (ws.length + 1)) =
        (src.drop i).take 4 ++ (src.drop (i + 4)).take (4 * ws.length) := by
      rw [show 4 * (ws.length + 1) = 4 + 4 * ws.length by omega, List.take_add, List.drop_drop]
    rw [hsplit, xorBytes_append _ _ _ _ (by simp [w2b_length]; omega), ih (i + 4) (by omega),
      w2b_xor, w2b_wordAt src i (by omega)]

/-! ## rounds -/

theorem goDouble_eq (s : St) : goDouble s = doubleRound s := rfl

theorem iter_goDouble (n : Nat) (s : St) : iter goDouble n s = iter doubleRound n s := by
  induction n generalizing s with
  | zero => rfl
  | succ n ih => simp [iter, ih, goDouble_eq]

/-- the cached values are the three counter-independent quarter rounds of the first column round -/
def PrecompOK (s : Cipher) : Prop :=
  s.precompDone = true ∧
  (s.p1, s.p5, s.p9, s.p13) = qr c1 s.key.k1 s.key.k5 s.nonce.n0 ∧
  (s.p2, s.p6, s.p10, s.p14) = qr c2 s.key.k2 s.key.k6 s.nonce.n1 ∧
  (s.p3, s.p7, s.p11, s.p15) = qr c3 s.key.k3 s.key.k7 s.nonce.n2

theorem goFirstRounds_eq (s : Cipher) (h : PrecompOK s) :
    goFirstRounds s = doubleRound (initSt s.key s.counter s.nonce) := by
  obtain ⟨_, h1, h2, h3⟩ := h
  simp only [doubleRound, colRound, initSt]
  rw [← h1, ← h2, ← h3]
  rfl

/-- the sixteen words added back (the initial state) -/
def fwdWords (s : Cipher) (x : St) : List UInt32 :=
  [x.x0 + c0, x.x1 + c1, x.x2 + c2, x.x3 + c3, x.x4 + s.key.k0, x.x5 + s.key.k1, x.x6 + s.key.k2, x.x7 + s.key.k3,
   x.x8 + s.key.k4, x.x9 + s.key.k5, x.x10 + s.key.k6, x.x11 + s.key.k7, x.x12 + s.counter,
   x.x13 + s.nonce.n0, x.x14 + s.nonce.n1, x.x15 + s.nonce.n2]

theorem xorBlockGo_list (s : Cipher) (src : Bytes) :
    xorBlockGo s src = addXorList src 0 (fwdWords s (iter goDouble 9 (goFirstRounds s))) := by
  simp only [xorBlockGo, fwdWords, addXorList, addXor, List.append_assoc, List.append_nil]

theorem fwdWords_serialize (s : Cipher) (x : St) :
    (fwdWords s x).flatMap w2b = (x.add (initSt s.key s.counter s.nonce)).serialize := by
  simp only [fwdWords, List.flatMap_cons, List.flatMap_nil, St.serialize, St.add, initSt, List.append_assoc,
    List.append_nil]

/-- **the cached-first-round block computation of xorKeyStreamBlocksGeneric is RFC 8439's block
    function**: one loop iteration writes `src xor chacha20_block(key, counter, nonce)` -/
theorem xorBlockGo_eq (s : Cipher) (h : PrecompOK s) (src : Bytes) (hl : src.length = 64) :
    xorBlockGo s src = xorBytes src (blockW s.key s.counter s.nonce) := by
  have hlen : (fwdWords s (iter goDouble 9 (goFirstRounds s))).length = 16 := rfl
  rw [xorBlockGo_list, addXorList_eq _ _ _ (by rw [hlen]; omega), hlen, fwdWords_serialize]
  have hs : (src.drop 0).take (4 * 16) = src := by
    rw [List.drop_zero, List.take_of_length_le (by omega)]
  rw [hs, goFirstRounds_eq s h, iter_goDouble]
  rfl

end XC.C03
