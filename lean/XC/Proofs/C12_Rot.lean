/-
  C12 — rotation cancellation on UInt32 / UInt16 (for Twofish's rol1/ror1 and RC2's rotate-left
  by 1,2,3,5 undone by rotate-left by 15,14,13,11), proved bitwise without bv_decide.
-/
import XC.Model.C12
namespace XC.C12

/-- rotating left by `s` and then by `w - s` is the identity (shift-or form) -/
theorem rot_inv (w s : Nat) (hs : s < w) (x : BitVec w) :
    (((x <<< s) ||| (x >>> (w - s))) <<< (w - s)) ||| (((x <<< s) ||| (x >>> (w - s))) >>> s) = x := by
  apply BitVec.eq_of_getLsbD_eq
  intro i hi
  simp only [BitVec.getLsbD_or, BitVec.getLsbD_shiftLeft, BitVec.getLsbD_ushiftRight]
  have big : ∀ j, w ≤ j → x.getLsbD j = false := fun j hj => BitVec.getLsbD_of_ge x j hj
  by_cases h1 : i < w - s
  · have e1 : s + i - s = i := by omega
    have e2 : ¬ (s + i < s) := by omega
    have e3 : s + i < w := by omega
    have e4 := big (w - s + (s + i)) (by omega)
    simp [hi, h1, e1, e2, e3, e4]
  · have e1 : i - (w - s) < w := by omega
    have e2 : i - (w - s) < s := by omega
    have e3 : w - s + (i - (w - s)) = i := by omega
    have e4 : ¬ (s + i < w) := by omega
    have e5 := big (w - s + (s + i)) (by omega)
    simp [hi, h1, e1, e2, e3, e4, e5]

namespace Twofish

theorem ror1_rol1 (x : UInt32) : ror1 (rol1 x) = x := by
  apply UInt32.toBitVec_inj.mp
  simp only [rol1, ror1, UInt32.toBitVec_or, UInt32.toBitVec_shiftLeft, UInt32.toBitVec_shiftRight]
  have := rot_inv 32 1 (by omega) x.toBitVec
  have a1 : ((1 : UInt32).toBitVec % 32) = 1#32 := by decide
  have a2 : ((31 : UInt32).toBitVec % 32) = 31#32 := by decide
  rw [a1, a2]
  rw [BitVec.or_comm] at this
  simpa [BitVec.shiftLeft_eq', BitVec.ushiftRight_eq'] using this

theorem rol1_ror1 (x : UInt32) : rol1 (ror1 x) = x := by
  apply UInt32.toBitVec_inj.mp
  simp only [rol1, ror1, UInt32.toBitVec_or, UInt32.toBitVec_shiftLeft, UInt32.toBitVec_shiftRight]
  have := rot_inv 32 31 (by omega) x.toBitVec
  have a1 : ((1 : UInt32).toBitVec % 32) = 1#32 := by decide
  have a2 : ((31 : UInt32).toBitVec % 32) = 31#32 := by decide
  rw [a1, a2]
  rw [BitVec.or_comm (x.toBitVec <<< 31)] at this
  simpa [BitVec.shiftLeft_eq', BitVec.ushiftRight_eq'] using this

end Twofish

namespace Rc2

theorem rol_rol_1 (x : UInt16) : rol (rol x 1) 15 = x := by
  apply UInt16.toBitVec_inj.mp
  simp only [rol, UInt16.toBitVec_or, UInt16.toBitVec_shiftLeft, UInt16.toBitVec_shiftRight]
  have := rot_inv 16 1 (by omega) x.toBitVec
  have a1 : ((1 : UInt16).toBitVec % 16) = 1#16 := by decide
  have a2 : (((16 : UInt16) - 1).toBitVec % 16) = 15#16 := by decide
  have a3 : ((15 : UInt16).toBitVec % 16) = 15#16 := by decide
  have a4 : (((16 : UInt16) - 15).toBitVec % 16) = 1#16 := by decide
  rw [a1, a2, a3, a4]
  simpa [BitVec.shiftLeft_eq', BitVec.ushiftRight_eq'] using this

theorem rol_rol_2 (x : UInt16) : rol (rol x 2) 14 = x := by
  apply UInt16.toBitVec_inj.mp
  simp only [rol, UInt16.toBitVec_or, UInt16.toBitVec_shiftLeft, UInt16.toBitVec_shiftRight]
  have := rot_inv 16 2 (by omega) x.toBitVec
  have a1 : ((2 : UInt16).toBitVec % 16) = 2#16 := by decide
  have a2 : (((16 : UInt16) - 2).toBitVec % 16) = 14#16 := by decide
  have a3 : ((14 : UInt16).toBitVec % 16) = 14#16 := by decide
  have a4 : (((16 : UInt16) - 14).toBitVec % 16) = 2#16 := by decide
  rw [a1, a2, a3, a4]
  simpa [BitVec.shiftLeft_eq', BitVec.ushiftRight_eq'] using this

theorem rol_rol_3 (x : UInt16) : rol (rol x 3) 13 = x := by
  apply UInt16.toBitVec_inj.mp
  simp only [rol, UInt16.toBitVec_or, UInt16.toBitVec_shiftLeft, UInt16.toBitVec_shiftRight]
  have := rot_inv 16 3 (by omega) x.toBitVec
  have a1 : ((3 : UInt16).toBitVec % 16) = 3#16 := by decide
  have a2 : (((16 : UInt16) - 3).toBitVec % 16) = 13#16 := by decide
  have a3 : ((13 : UInt16).toBitVec % 16) = 13#16 := by decide
  have a4 : (((16 : UInt16) - 13).toBitVec % 16) = 3#16 := by decide
  rw [a1, a2, a3, a4]
  simpa [BitVec.shiftLeft_eq', BitVec.ushiftRight_eq'] using this

theorem rol_rol_5 (x : UInt16) : rol (rol x 5) 11 = x := by
  apply UInt16.toBitVec_inj.mp
  simp only [rol, UInt16.toBitVec_or, UInt16.toBitVec_shiftLeft, UInt16.toBitVec_shiftRight]
  have := rot_inv 16 5 (by omega) x.toBitVec
  have a1 : ((5 : UInt16).toBitVec % 16) = 5#16 := by decide
  have a2 : (((16 : UInt16) - 5).toBitVec % 16) = 11#16 := by decide
  have a3 : ((11 : UInt16).toBitVec % 16) = 11#16 := by decide
  have a4 : (((16 : UInt16) - 11).toBitVec % 16) = 5#16 := by decide
  rw [a1, a2, a3, a4]
  simpa [BitVec.shiftLeft_eq', BitVec.ushiftRight_eq'] using this

end Rc2
end XC.C12
