/-
  C46 — clearsign.Decode ∘ clearsign.Encode, whole message: start marker, Hash header, text loop,
  then whatever `armor.Decode` makes of the armored signature that follows.
-/
import XC.Model.C46
import XC.Proofs.C46_CS
import XC.Proofs.C46_RT
namespace XC.C46
open XC

/-- the hash name written in the `Hash:` header: non-empty printable ASCII without blanks -/
def WFHashName (name : Bytes) : Prop := name ≠ [] ∧ ∀ b ∈ name, 0x20 < b ∧ b ≤ 0x7e

theorem getLine_blank (X : Bytes) : getLine (LF :: X) = ([], X) := by
  simp [getLine, splitLF, dropLastCR]

theorem trimSpace_lead_sp (name : Bytes) (h : PlainEnds name) (hne : name ≠ []) : trimSpace (32 :: name) = name := by
  unfold trimSpace
  rw [trimLeftSp]
  have h1 : leadSpace (32 :: name) = 1 := by simp [leadSpace, isAsciiSpace]
  simp only [h1, Nat.succ_ne_self, ↓reduceDIte, List.drop_succ_cons, List.drop_zero]
  rw [trimLeftSp]
  simp only [h.1, ↓reduceDIte]
  rw [trimRevSp]
  simp only [h.2, ↓reduceDIte, List.reverse_reverse]

theorem printable_facts (b : UInt8) (h : 0x20 < b ∧ b ≤ 0x7e) :
    b < 0x80 ∧ isAsciiSpace b = false ∧ b ≠ LF ∧ isWs b = false ∧ (decide (b < 0x20) || decide (b > 0x7e)) = false := by
  have h1 : 32 < b.toNat := by simpa [UInt8.lt_iff_toNat_lt] using h.1
  have h2 : b.toNat ≤ 126 := by simpa [UInt8.le_iff_toNat_le] using h.2
  have ne : ∀ k : UInt8, k.toNat ≤ 32 → (b == k) = false := by
    intro k hk
    apply beq_false_of_ne
    intro e; subst e; omega
  refine ⟨by simp [UInt8.lt_iff_toNat_lt]; omega, ?_, ?_, ?_, ?_⟩
  · simp [isAsciiSpace, ne 9 (by decide), ne 10 (by decide), ne 11 (by decide), ne 12 (by decide), ne 13 (by decide), ne 32 (by decide)]
  · intro e; subst e; simp [LF] at h1
  · simp [isWs, ne 9 (by decide), ne 13 (by decide), ne 32 (by decide)]
  · simp [UInt8.lt_iff_toNat_lt]; omega

theorem printable_plainEnds (name : Bytes) (hn : WFHashName name) : PlainEnds name := by
  obtain ⟨hne, hb⟩ := hn
  have key : ∀ b : UInt8, 0x20 < b ∧ b ≤ 0x7e → b < 0x80 ∧ isAsciiSpace b = false :=
    fun b h => ⟨(printable_facts b h).1, (printable_facts b h).2.1⟩
  constructor
  · cases name with
    | nil => exact absurd rfl hne
    | cons a t =>
      have := key a (hb a (by simp))
      exact leadSpace_ascii a t this.1 this.2
  · cases hr : name.reverse with
    | nil => simp at hr; exact absurd hr hne
    | cons c t =>
      have hc : c ∈ name := by
        have : c ∈ name.reverse := by rw [hr]; simp
        simpa using this
      have := key c (hb c hc)
      exact trailSpace_ascii c t this.1 this.2

theorem hash_plainEnds : PlainEnds (str "Hash") := ⟨by decide, by decide⟩

theorem csHeaders_hash (name Y : Bytes) (hn : WFHashName name) :
    csHeaders (str "Hash: " ++ name ++ LF :: LF :: Y) [] = some ([name], Y) := by
  have hpr : ∀ b : UInt8, 0x20 < b ∧ b ≤ 0x7e → b ≠ LF ∧ isWs b = false ∧ (decide (b < 0x20) || decide (b > 0x7e)) = false :=
    fun b h => ⟨(printable_facts b h).2.2.1, (printable_facts b h).2.2.2.1, (printable_facts b h).2.2.2.2⟩
  have hc1 : ∀ x ∈ str "Hash: ", x ≠ LF := by decide
  have hc2 : ∀ x ∈ str "Hash: ", (decide (x < 0x20) || decide (x > 0x7e)) = false := by decide
  have hnl : noLF (str "Hash: " ++ name) := by
    intro x hx
    rcases List.mem_append.1 hx with h | h
    · exact hc1 x h
    · exact (hpr x (hn.2 x h)).1
  have hlast : ∀ b, (str "Hash: " ++ name).getLast? = some b → isWs b = false := by
    intro b hb
    rw [List.getLast?_append] at hb
    cases hg : name.getLast? with
    | none => simp at hg; exact absurd hg hn.1
    | some c =>
      rw [hg] at hb
      simp only [Option.some_or, Option.some.injEq] at hb
      subst hb
      exact (hpr c (hn.2 c (List.mem_of_getLast? hg))).2.1
  rw [csHeaders]
  have hne : str "Hash: " ++ name ++ LF :: LF :: Y ≠ [] := by simp [str]
  simp only [hne, ↓reduceDIte, getLine_append _ _ hnl hlast]
  have hne2 : (str "Hash: " ++ name).isEmpty = false := by simp [str]
  have hany : (str "Hash: " ++ name).any (fun b => b < 0x20 || b > 0x7e) = false := by
    rw [List.any_eq_false]
    intro b hb
    rcases List.mem_append.1 hb with h | h
    · simp [hc2 b h]
    · simp [(hpr b (hn.2 b h)).2.2]
  have hidx : indexOf [58] (str "Hash: " ++ name) = some 4 := by
    simp [str, indexOf, hasPrefix]
  have htake : (str "Hash: " ++ name).take 4 = str "Hash" := by simp [str]
  have hdrop : (str "Hash: " ++ name).drop (4 + 1) = 32 :: name := by simp [str]
  simp only [hne2, Bool.false_eq_true, ↓reduceIte, hany, hidx, htake, hdrop, trimSpace_id _ hash_plainEnds,
    bne_self_eq_false, trimSpace_lead_sp name (printable_plainEnds name hn) hn.1, List.nil_append]
  rw [csHeaders]
  simp [getLine_blank]

/-- **clearsign_roundtrip**: `Decode` of the clearsigned text — start marker, `Hash:` header, escaped
    canonical text — followed by an armored signature `A` returns the hash name, `Plaintext` = the
    canonical lines each with LF, `Bytes` = the canonical lines joined by CRLF, and for the signature
    block whatever `armor.Decode` returns on `A` (`csArmor A`; it fails iff that fails). -/
theorem clearsign_decode_encode (name : Bytes) (chunks : List Bytes) (A' : Bytes) (hn : WFHashName name) :
    csDecode ((csEncode name chunks).1 ++ (csEndText ++ LF :: A')) =
      (csArmor (csEndText ++ LF :: A')).map (fun a =>
        ⟨[name], plainText (canonLines chunks.flatten), signedBytes (canonLines chunks.flatten),
          a.1, a.2.1, a.2.2.1, a.2.2.2.1, a.2.2.2.2⟩) := by
  have henc : (csEncode name chunks).1 =
      csStart ++ [LF] ++ str "Hash: " ++ name ++ [LF, LF] ++ escText (canonLines chunks.flatten) := by
    unfold csEncode
    rw [deWrite_chunks]
    have h := de_all chunks.flatten {} rfl rfl
    simp only [List.nil_append] at h
    simp only [h.1]
  rw [henc]
  generalize hls : canonLines chunks.flatten = ls
  have hcan : ∀ l ∈ ls, CanonLine l := by rw [← hls]; exact canonLines_canon _
  have hdata : csStart ++ [LF] ++ str "Hash: " ++ name ++ [LF, LF] ++ escText ls ++ (csEndText ++ LF :: A') =
      csStart ++ (LF :: (str "Hash: " ++ name ++ LF :: LF :: (escText ls ++ csEndText ++ LF :: A'))) := by
    simp [List.append_assoc]
  rw [hdata]
  unfold csDecode
  simp only [hasPrefix_append, ↓reduceIte, List.drop_left, getLine_blank, List.isEmpty_nil, Bool.not_true,
    Bool.false_eq_true, csHeaders_hash name _ hn, csText_escText ls hcan A']
  cases csArmor (csEndText ++ LF :: A') with
  | none => rfl
  | some a => obtain ⟨ty, m, body, e, r⟩ := a; rfl

end XC.C46
