/-
  C52 — GF(p²) arithmetic of gfp2.go: the implementation-shaped operations (complex squaring,
  MulXi by shifts/adds, lazy reduction) against the textbook definition of GF(p)[i]/(i²+1).
-/
import XC.Model.C52
namespace XC.C52
namespace GFp2

/-- congruent mod p, coefficient-wise: the value the code means by a `gfP2` -/
def Eqv (a b : GFp2) : Prop := a.x % p = b.x % p ∧ a.y % p = b.y % p

theorem Eqv.refl (a : GFp2) : Eqv a a := ⟨rfl, rfl⟩
theorem Eqv.symm {a b : GFp2} (h : Eqv a b) : Eqv b a := ⟨h.1.symm, h.2.symm⟩
theorem Eqv.trans {a b c : GFp2} (h : Eqv a b) (g : Eqv b c) : Eqv a c := ⟨h.1.trans g.1, h.2.trans g.2⟩

/-- `Minimal` does not change the value, and two values are congruent iff their minimal forms are equal -/
theorem minimal_eqv (a : GFp2) : Eqv a.minimal a := by
  simp [Eqv, minimal, Int.emod_emod_of_dvd]

theorem eqv_iff_minimal (a b : GFp2) : Eqv a b ↔ a.minimal = b.minimal := by
  simp [Eqv, minimal]

/-- textbook product in GF(p)[i]/(i²+1) on integer representatives: `(x₁i+y₁)(x₂i+y₂)` -/
def mulZ (a b : GFp2) : GFp2 := ⟨a.x * b.y + a.y * b.x, a.y * b.y - a.x * b.x⟩

theorem mul_eq_mulZ (a b : GFp2) : mul a b = (mulZ a b).minimal := by
  simp only [mul, mulZ, minimal]
  congr 2
  rw [Int.mul_comm b.x a.y]

theorem mul_comm (a b : GFp2) : mul a b = mul b a := by
  simp only [mul]
  congr 2
  · rw [Int.add_comm]
  · rw [Int.mul_comm a.y, Int.mul_comm a.x]

/-- **complex squaring = multiplication**: `(y−x)(x+y)` and `2xy` are `y²−x²` and `xy+xy` -/
theorem square_eq_mul (a : GFp2) : square a = mul a a := by
  simp only [square, mul]
  congr 2 <;> grind

private theorem emod_congr {a b : Int} (k : Int) (h : a = b + p * k) : a % p = b % p := by
  rw [h, Int.add_mul_emod_self_left]

/-- **`MulXi` is multiplication by ξ = i + 3** (as values mod p; `MulXi` itself does not reduce) -/
theorem mulXi_eqv (a : GFp2) : Eqv (mulXi a) (mul a ⟨1, 3⟩) := by
  simp only [Eqv, mulXi, mul, Int.emod_emod_of_dvd _ (Int.dvd_refl p)]
  constructor
  · congr 1; omega
  · congr 1; omega

/-- mul respects congruence, so it is well defined on GF(p²) although inputs are lazily reduced -/
theorem mul_congr {a a' b b' : GFp2} (ha : Eqv a a') (hb : Eqv b b') : mul a b = mul a' b' := by
  obtain ⟨hax, hay⟩ := ha
  obtain ⟨hbx, hby⟩ := hb
  simp only [mul]
  congr 1
  · rw [Int.add_emod, Int.mul_emod a.x, Int.mul_emod b.x, hax, hay, hbx, hby,
      ← Int.mul_emod, ← Int.mul_emod, ← Int.add_emod]
  · rw [Int.sub_emod, Int.mul_emod a.y, Int.mul_emod a.x, hax, hay, hbx, hby,
      ← Int.mul_emod, ← Int.mul_emod, ← Int.sub_emod]

theorem add_congr {a a' b b' : GFp2} (ha : Eqv a a') (hb : Eqv b b') : Eqv (add a b) (add a' b') := by
  obtain ⟨hax, hay⟩ := ha
  obtain ⟨hbx, hby⟩ := hb
  simp only [Eqv, add]
  constructor
  · rw [Int.add_emod, hax, hbx, ← Int.add_emod]
  · rw [Int.add_emod, hay, hby, ← Int.add_emod]

/-- **distributivity** (values mod p) -/
theorem mul_add (a b c : GFp2) : Eqv (mul a (add b c)) (add (mul a b) (mul a c)) := by
  have h1 : Eqv (mul a b) (mulZ a b) := by rw [mul_eq_mulZ]; exact minimal_eqv _
  have h2 : Eqv (mul a c) (mulZ a c) := by rw [mul_eq_mulZ]; exact minimal_eqv _
  refine Eqv.trans ?_ (add_congr h1 h2).symm
  rw [mul_eq_mulZ]
  refine Eqv.trans (minimal_eqv _) ?_
  simp only [Eqv, mulZ, add]
  constructor <;> congr 1 <;> grind

/-- **associativity** -/
theorem mul_assoc (a b c : GFp2) : mul (mul a b) c = mul a (mul b c) := by
  have h1 : Eqv (mul a b) (mulZ a b) := by rw [mul_eq_mulZ]; exact minimal_eqv _
  have h2 : Eqv (mul b c) (mulZ b c) := by rw [mul_eq_mulZ]; exact minimal_eqv _
  rw [mul_congr h1 (Eqv.refl c), mul_congr (Eqv.refl a) h2]
  simp only [mul, mulZ]
  congr 2 <;> grind

/-- `one` is the unit -/
theorem mul_one (a : GFp2) : mul a one = a.minimal := by
  simp [mul, one, minimal]

/-- conjugation is multiplicative (it is the Frobenius of GF(p²)) -/
theorem conj_mul (a b : GFp2) : Eqv (conj (mul a b)) (mul (conj a) (conj b)) := by
  have h1 : Eqv (mul a b) (mulZ a b) := by rw [mul_eq_mulZ]; exact minimal_eqv _
  have hc : Eqv (conj (mul a b)) (conj (mulZ a b)) := by
    obtain ⟨hx, hy⟩ := h1
    refine ⟨?_, hy⟩
    simp only [conj]
    rw [Int.neg_emod, Int.neg_emod, hx]
    by_cases h : p ∣ (mul a b).x
    · have h' : p ∣ (mulZ a b).x := by
        rw [Int.dvd_iff_emod_eq_zero] at h ⊢; rw [← hx]; exact h
      simp [h, h']
    · have h' : ¬ p ∣ (mulZ a b).x := by
        rw [Int.dvd_iff_emod_eq_zero] at h ⊢; rw [← hx]; exact h
      simp [h, h']
  refine Eqv.trans hc ?_
  rw [mul_eq_mulZ]
  refine Eqv.symm (Eqv.trans (minimal_eqv _) ?_)
  simp only [Eqv, conj, mulZ]
  constructor <;> congr 1 <;> grind

theorem add_comm (a b : GFp2) : add a b = add b a := by
  simp [add, Int.add_comm]

end GFp2

/-- the Karatsuba product of gfp6.go and the product of gfp12.go are commutative -/
theorem GFp6.mul_comm (a b : GFp6) : GFp6.mul a b = GFp6.mul b a := by
  simp only [GFp6.mul, GFp2.mul_comm a.x, GFp2.mul_comm a.y, GFp2.mul_comm a.z,
    GFp2.mul_comm (a.x.add a.y), GFp2.mul_comm (a.y.add a.z), GFp2.mul_comm (a.x.add a.z)]

theorem GFp6.add_comm (a b : GFp6) : GFp6.add a b = GFp6.add b a := by
  simp [GFp6.add, GFp2.add_comm a.x, GFp2.add_comm a.y, GFp2.add_comm a.z]

theorem GFp12.mul_comm (a b : GFp12) : GFp12.mul a b = GFp12.mul b a := by
  simp only [GFp12.mul, GFp6.mul_comm a.x, GFp6.mul_comm a.y]
  rw [GFp6.add_comm]

end XC.C52
