/-
  C34 — the "signature only after PK_OK" invariant of the event trace.
-/
import XC.Model.C34
namespace XC.C34
open XC.C32 (underlyingAlgo algorithmsForKeyFormat)

/-- local well-formedness of the trace around signatures: a signature request for key k comes
    directly after the acknowledgement `ack _ k` of the same key, and an acknowledgement comes
    directly after reading a PK_OK -/
def guardStep (prev : Option Ev) (e : Ev) : Bool :=
  match e with
  | .wSign _ _ k _ => match prev with
    | some (.ack _ k') => k == k'
    | _ => false
  | .ack _ _ => match prev with
    | some (.rd (.pkOk _)) => true
    | _ => false
  | _ => true

def guarded : Option Ev → List Ev → Bool
  | _, [] => true
  | prev, e :: es => guardStep prev e && guarded (some e) es

def lastOr (p : Option Ev) (evs : List Ev) : Option Ev :=
  match evs.getLast? with
  | some x => some x
  | none => p

theorem guarded_append (p : Option Ev) (a b : List Ev) :
    guarded p (a ++ b) = (guarded p a && guarded (lastOr p a) b) := by
  induction a generalizing p with
  | nil => simp [guarded, lastOr]
  | cons e es ih =>
    simp only [List.cons_append, guarded, ih, Bool.and_assoc]
    congr 2
    unfold lastOr
    cases es with
    | nil => simp
    | cons x xs =>
      have : (x :: xs).getLast? = some ((x :: xs).getLast (by simp)) := List.getLast?_eq_some_getLast (by simp)
      simp only [List.getLast?_cons_cons, this]

/-- guarded whatever came before -/
def G (evs : List Ev) : Prop := ∀ p, guarded p evs = true

/-- events that need no guard -/
def plainEv : Ev → Bool
  | .wSign _ _ _ _ => false
  | .ack _ _ => false
  | _ => true

theorem guarded_plain (p : Option Ev) (x : List Ev) (h : x.all plainEv = true) : guarded p x = true := by
  induction x generalizing p with
  | nil => rfl
  | cons e es ih =>
    simp at h
    simp only [guarded, ih _ (by simpa using h.2), Bool.and_true]
    cases e <;> simp [plainEv] at h ⊢ <;> simp [guardStep]

theorem G_append_plain {evs x : List Ev} (h : G evs) (hx : x.all plainEv = true) : G (evs ++ x) := by
  intro p
  rw [guarded_append, h p, guarded_plain _ _ hx]
  rfl

theorem G_nil : G [] := fun _ => rfl

theorem G_ack_sign {e0 : List Ev} (h : G e0) (sp : PkOkSpec) (a : String) (k : Nat) (u al f : String) :
    G (e0 ++ [Ev.rd (.pkOk sp), Ev.ack a k] ++ [Ev.wSign u al k f]) := by
  intro p
  rw [guarded_append, guarded_append, h p]
  simp [guarded, guardStep, lastOr]

/-! ## the auth functions only append reads -/

theorem handleAuthResponse_evs (script : List Srv) (g : Bool) (evs : List Ev) :
    ∃ x, (handleAuthResponse script g evs).evs = evs ++ x ∧ x.all plainEv = true := by
  induction script generalizing g evs with
  | nil => exact ⟨[], by simp [handleAuthResponse, failWith], rfl⟩
  | cons p rest ih =>
    unfold handleAuthResponse
    simp only []
    have step : ∀ g', ∃ x, (handleAuthResponse rest g' (evs ++ [Ev.rd p])).evs = evs ++ x ∧ x.all plainEv = true := by
      intro g'
      obtain ⟨x, hx, hp⟩ := ih g' (evs ++ [Ev.rd p])
      exact ⟨Ev.rd p :: x, by simp [hx], by simp [plainEv, hp]⟩
    have one : ∀ (o : AuthOut), o.evs = evs ++ [Ev.rd p] → ∃ x, o.evs = evs ++ x ∧ x.all plainEv = true :=
      fun o ho => ⟨[Ev.rd p], ho, by simp [plainEv]⟩
    split <;> first
      | exact step _
      | exact one _ rfl
      | (split <;> first | exact step _ | exact one _ rfl)

/-- what confirmKeyAck adds to the trace: reads, and — exactly when it accepts — a final PK_OK read
    followed by its acknowledgement, the PK_OK carrying this signer's key and an algorithm of the
    key's own type -/
theorem confirmKeyAck_evs (q : String) (s : Signer) (script : List Srv) (evs : List Ev) (hG : G evs)
    (r : Sum Err Bool) (evs' : List Ev) (rest' : List Srv) (h : confirmKeyAck q s script evs = (r, evs', rest')) :
    (r = .inr true → ∃ e0 sp a, evs' = e0 ++ [Ev.rd (.pkOk sp), Ev.ack a s.key] ∧ G e0 ∧
        a ∈ algorithmsForKeyFormat s.keyFormat ∧ resolvePkOk sp q s = (a, s.key)) ∧
    (r ≠ .inr true → G evs') := by
  induction script generalizing evs with
  | nil =>
    simp [confirmKeyAck] at h
    obtain ⟨rfl, rfl, _⟩ := h
    exact ⟨by simp, fun _ => hG⟩
  | cons p rest ih =>
    have hG1 : G (evs ++ [Ev.rd p]) := G_append_plain hG (by simp [plainEv])
    have plain : ∀ (e : Err), (Sum.inl e, evs ++ [Ev.rd p], rest) = (r, evs', rest') →
        (r = .inr true → ∃ e0 sp a, evs' = e0 ++ [Ev.rd (.pkOk sp), Ev.ack a s.key] ∧ G e0 ∧
          a ∈ algorithmsForKeyFormat s.keyFormat ∧ resolvePkOk sp q s = (a, s.key)) ∧ (r ≠ .inr true → G evs') := by
      intro e he
      simp at he
      obtain ⟨rfl, rfl, _⟩ := he
      exact ⟨by simp, fun _ => hG1⟩
    have rej : (Sum.inr false, evs ++ [Ev.rd p], rest) = (r, evs', rest') →
        (r = .inr true → ∃ e0 sp a, evs' = e0 ++ [Ev.rd (.pkOk sp), Ev.ack a s.key] ∧ G e0 ∧
          a ∈ algorithmsForKeyFormat s.keyFormat ∧ resolvePkOk sp q s = (a, s.key)) ∧ (r ≠ .inr true → G evs') := by
      intro he
      simp at he
      obtain ⟨rfl, rfl, _⟩ := he
      exact ⟨by simp, fun _ => hG1⟩
    unfold confirmKeyAck at h
    simp only [] at h
    cases p
    case banner => exact ih _ hG1 h
    case pkOk spec =>
      simp only [] at h
      by_cases h1 : (algorithmsForKeyFormat s.keyFormat).contains (resolvePkOk spec q s).1
      · by_cases h2 : (resolvePkOk spec q s).2 = s.key
        · simp only [h1, h2, bne_self_eq_false, Bool.not_true, Bool.false_eq_true, if_false] at h
          simp at h
          obtain ⟨rfl, rfl, _⟩ := h
          refine ⟨fun _ => ⟨evs, spec, (resolvePkOk spec q s).1, by simp, hG, by simpa using h1, ?_⟩, by simp⟩
          rw [← h2]
        · have : ((resolvePkOk spec q s).2 != s.key) = true := by simpa using h2
          simp only [h1, this, Bool.not_true, Bool.false_eq_true, if_false, if_true] at h
          exact rej h
      · simp only [h1, Bool.not_false, if_true] at h
        exact rej h
    case malformed ty =>
      simp only [] at h
      split at h
      · exact rej h
      · exact plain _ h
    case failure ms pp => exact rej h
    all_goals exact plain _ h

def PkRes.evs : PkRes → List Ev
  | .ret out => out.evs
  | .exhausted _ _ evs _ _ => evs

theorem pkLoop_G (user : String) (sa : Option String) :
    ∀ (signers : List Signer) (orig : Bool) (compat : List Signer) (methods : Option (List String)) (sigErr : Bool)
      (script : List Srv) (evs : List Ev), G evs →
      G (pkLoop user sa signers orig compat methods sigErr script evs).evs := by
  intro signers
  induction signers with
  | nil => intro orig compat methods sigErr script evs hG; simpa [pkLoop, PkRes.evs] using hG
  | cons s more ih =>
    intro orig compat methods sigErr script evs hG
    unfold pkLoop
    cases hp : pickSignatureAlgorithm s sa with
    | none => exact ih _ _ _ _ _ _ hG
    | some algo =>
      simp only []
      have hG1 : G (evs ++ [Ev.wQuery user algo s.key]) := G_append_plain hG (by simp [plainEv])
      cases hc : confirmKeyAck algo s script (evs ++ [Ev.wQuery user algo s.key]) with
      | mk r p2 =>
        obtain ⟨evs2, rest⟩ := p2
        obtain ⟨c1, c2⟩ := confirmKeyAck_evs algo s script _ hG1 r evs2 rest hc
        cases r with
        | inl e => exact c2 (by simp)
        | inr b =>
          cases b with
          | false => exact ih _ _ _ _ _ _ (c2 (by simp))
          | true =>
            simp only []
            obtain ⟨e0, sp, a, rfl, hG0, _, _⟩ := c1 rfl
            obtain ⟨x, hx, hplain⟩ := handleAuthResponse_evs rest false
              (e0 ++ [Ev.rd (.pkOk sp), Ev.ack a s.key] ++ [Ev.wSign user algo s.key (underlyingAlgo algo)])
            have hGr : G (handleAuthResponse rest false
                (e0 ++ [Ev.rd (.pkOk sp), Ev.ack a s.key] ++ [Ev.wSign user algo s.key (underlyingAlgo algo)])).evs := by
              rw [hx]
              exact G_append_plain (G_ack_sign hG0 sp a s.key user algo _) hplain
            split
            · simpa [PkRes.evs, failWith] using hGr
            · split
              · simpa [PkRes.evs] using hGr
              · exact ih _ _ _ _ _ _ hGr

theorem pkAuth_G (user : String) (sa : Option String) (signers : List Signer) (script : List Srv) :
    G (pkAuth user sa signers script).evs := by
  unfold pkAuth
  have h1 := pkLoop_G user sa signers true [] none false script [] G_nil
  cases hl : pkLoop user sa signers true [] none false script [] with
  | ret out => simpa [hl, PkRes.evs] using h1
  | exhausted methods script2 evs2 compat sigErr =>
    rw [hl] at h1
    simp only [PkRes.evs] at h1
    simp only []
    have h2 := pkLoop_G user sa compat false [] methods sigErr script2 evs2 h1
    cases hl2 : pkLoop user sa compat false [] methods sigErr script2 evs2 with
    | ret out => simpa [hl2, PkRes.evs] using h2
    | exhausted m3 s3 e3 c3 se3 => simpa [hl2, PkRes.evs] using h2

theorem kbdLoop_evs (p : KbdPolicy) (script : List Srv) (g1 g2 : Bool) (evs : List Ev) :
    ∃ x, (kbdLoop p script g1 g2 evs).evs = evs ++ x ∧ x.all plainEv = true := by
  induction script generalizing g1 g2 evs with
  | nil => exact ⟨[], by simp [kbdLoop, failWith], rfl⟩
  | cons pkt rest ih =>
    unfold kbdLoop
    simp only []
    have step : ∀ g g', ∃ x, (kbdLoop p rest g g' (evs ++ [Ev.rd pkt])).evs = evs ++ x ∧ x.all plainEv = true := by
      intro g g'
      obtain ⟨x, hx, hp⟩ := ih g g' (evs ++ [Ev.rd pkt])
      exact ⟨Ev.rd pkt :: x, by simp [hx], by simp [plainEv, hp]⟩
    have step2 : ∀ n g g', ∃ x, (kbdLoop p rest g g' (evs ++ [Ev.rd pkt] ++ [Ev.wInfoResp n])).evs = evs ++ x ∧
        x.all plainEv = true := by
      intro n g g'
      obtain ⟨x, hx, hp⟩ := ih g g' (evs ++ [Ev.rd pkt] ++ [Ev.wInfoResp n])
      exact ⟨Ev.rd pkt :: Ev.wInfoResp n :: x, by rw [hx]; simp, by simp [plainEv, hp]⟩
    have one : ∀ (o : AuthOut), o.evs = evs ++ [Ev.rd pkt] → ∃ x, o.evs = evs ++ x ∧ x.all plainEv = true :=
      fun o ho => ⟨[Ev.rd pkt], ho, by simp [plainEv]⟩
    split <;> first
      | exact step _ _
      | exact one _ rfl
      | (split <;> first | exact step _ _ | exact step2 _ _ _ | exact one _ rfl |
          (split <;> first | exact one _ rfl))

theorem G_append {a b : List Ev} (ha : G a) (hb : G b) : G (a ++ b) := by
  intro p
  rw [guarded_append, ha p, hb _]
  rfl

theorem G_wPlain {e : Ev} (he : plainEv e = true) : G [e] := by
  intro p
  exact guarded_plain p [e] (by simp [he])

theorem runBase_G (cfg : Cfg) (sa : Option String) (b : Base) (script : List Srv) (pk : Nat) :
    G (runBase cfg sa b script pk).1.evs := by
  unfold runBase
  cases b with
  | password pw =>
    obtain ⟨x, hx, hp⟩ := handleAuthResponse_evs script false [Ev.wPassword cfg.user pw]
    simp only []
    rw [hx]
    exact G_append_plain (G_wPlain (by simp [plainEv])) hp
  | publickey signers => exact pkAuth_G _ _ _ _
  | publickeyCb lists => exact pkAuth_G _ _ _ _
  | kbd pol =>
    obtain ⟨x, hx, hp⟩ := kbdLoop_evs pol script false false [Ev.wKbd cfg.user]
    simp only []
    rw [hx]
    exact G_append_plain (G_wPlain (by simp [plainEv])) hp
  | failing n => exact G_nil

theorem retryIter_G (cfg : Cfg) (sa : Option String) (b : Base) :
    ∀ (fuel : Nat) (script : List Srv) (pk : Nat) (evs : List Ev) (calls : Nat), G evs →
      G (retryIter cfg sa b fuel script pk evs calls).1.evs := by
  intro fuel
  induction fuel with
  | zero => intro script pk evs calls h; simpa [retryIter] using h
  | succ k ih =>
    intro script pk evs calls h
    unfold retryIter
    simp only []
    have hG := G_append h (runBase_G cfg sa b script pk)
    split
    · exact hG
    · exact ih _ _ _ _ hG

/-- every `auth` call leaves a guarded trace, whatever preceded it -/
theorem callAuth_G (cfg : Cfg) (sa : Option String) (m : Option Method) (script : List Srv) (pk : Nat) :
    G (callAuth cfg sa m script pk).1.evs := by
  unfold callAuth
  cases m with
  | none =>
    obtain ⟨x, hx, hp⟩ := handleAuthResponse_evs script false [Ev.wNone cfg.user]
    simp only []
    rw [hx]
    exact G_append_plain (G_wPlain (by simp [plainEv])) hp
  | some a =>
    simp only [runMethod]
    cases a.retry with
    | none => exact runBase_G _ _ _ _ _
    | some n => exact retryIter_G _ _ _ _ _ _ _ _ G_nil

end XC.C34
