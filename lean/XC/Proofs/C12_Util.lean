/-
  C12 — helper lemmas: inverting a fold, byte ↔ word round trips.
-/
import XC.Model.C12_Util
namespace XC.C12

/-- undoing a left fold step by step, in reverse order -/
theorem foldl_inv {σ κ : Type} (step inv : σ → κ → σ) (h : ∀ s k, inv (step s k) k = s)
    (ks : List κ) (s : σ) : ks.reverse.foldl inv (ks.foldl step s) = s := by
  induction ks generalizing s with
  | nil => rfl
  | cons k ks ih => simp [List.foldl_append, ih, h]

theorem natOfLE_lt (bs : Bytes) : natOfLE bs < 256 ^ bs.length := by
  induction bs with
  | nil => simp [natOfLE]
  | cons b r ih =>
    simp only [natOfLE, List.length_cons, Nat.pow_succ]
    have := b.toNat_lt
    omega

theorem natToLE_natOfLE (bs : Bytes) : natToLE bs.length (natOfLE bs) = bs := by
  induction bs with
  | nil => rfl
  | cons b r ih =>
    simp only [List.length_cons, natToLE, natOfLE]
    have hb := b.toNat_lt
    have h1 : (b.toNat + 256 * natOfLE r) % 256 = b.toNat := by omega
    have h2 : (b.toNat + 256 * natOfLE r) / 256 = natOfLE r := by omega
    rw [h1, h2, ih]
    simp

theorem take_append_drop4 (bs : Bytes) : bs.take 4 ++ (bs.drop 4) = bs := List.take_append_drop 4 bs

theorem u32be_be32 (bs : Bytes) (h : bs.length = 4) : u32be (be32 bs) = bs := by
  unfold u32be be32 natToBE natOfBE
  have h4 : bs.take 4 = bs := List.take_of_length_le (by omega)
  rw [h4]
  have hl : bs.reverse.length = 4 := by simp [h]
  have hlt := natOfLE_lt bs.reverse
  rw [hl] at hlt
  have : (UInt32.ofNat (natOfLE bs.reverse)).toNat = natOfLE bs.reverse := by
    simp [UInt32.toNat_ofNat']; omega
  rw [this]
  have := natToLE_natOfLE bs.reverse
  rw [hl] at this
  rw [this, List.reverse_reverse]

theorem u32be_length (w : UInt32) : (u32be w).length = 4 := by
  simp [u32be, natToBE, natToLE_length]

theorem be32_u32be_append (w : UInt32) (rest : Bytes) : be32 (u32be w ++ rest) = w := by
  unfold be32
  have : (u32be w ++ rest).take 4 = u32be w := by
    rw [List.take_append_of_le_length (by simp [u32be_length])]
    exact List.take_of_length_le (by simp [u32be_length])
  rw [this]
  unfold u32be natToBE natOfBE
  rw [List.reverse_reverse, natOfLE_natToLE]
  have := w.toNat_lt
  have h : w.toNat % 256 ^ 4 = w.toNat := Nat.mod_eq_of_lt (by omega)
  rw [h]; simp

theorem split8_join8 (p : UInt32 × UInt32) : split8 (join8 p) = p := by
  obtain ⟨a, b⟩ := p
  unfold split8 join8
  simp only
  rw [be32_u32be_append]
  have : (u32be a ++ u32be b).drop 4 = u32be b := by
    rw [List.drop_append_of_le_length (by simp [u32be_length])]
    simp [List.drop_of_length_le, u32be_length]
  rw [this]
  have := be32_u32be_append b []
  simp at this
  rw [this]

theorem join8_split8 (bs : Bytes) (h : bs.length = 8) : join8 (split8 bs) = bs := by
  unfold join8 split8
  simp only
  have e1 : be32 bs = be32 (bs.take 4) := by simp [be32, List.take_take]
  rw [e1, u32be_be32 (bs.take 4) (by simp [h]), u32be_be32 (bs.drop 4) (by simp [h])]
  exact List.take_append_drop 4 bs


/-! little-endian words -/

theorem u32le_length (w : UInt32) : (u32le w).length = 4 := by simp [u32le, natToLE_length]
theorem u16le_length (w : UInt16) : (u16le w).length = 2 := by simp [u16le, natToLE_length]

theorem u32le_le32 (bs : Bytes) (h : bs.length = 4) : u32le (le32 bs) = bs := by
  unfold u32le le32
  have h4 : bs.take 4 = bs := List.take_of_length_le (by omega)
  rw [h4]
  have hlt := natOfLE_lt bs
  rw [h] at hlt
  have : (UInt32.ofNat (natOfLE bs)).toNat = natOfLE bs := by
    simp [UInt32.toNat_ofNat']; omega
  rw [this]
  have := natToLE_natOfLE bs
  rw [h] at this
  exact this

theorem le32_u32le_append (w : UInt32) (rest : Bytes) : le32 (u32le w ++ rest) = w := by
  unfold le32
  have : (u32le w ++ rest).take 4 = u32le w := by
    rw [List.take_append_of_le_length (by simp [u32le_length])]
    exact List.take_of_length_le (by simp [u32le_length])
  rw [this]
  unfold u32le
  rw [natOfLE_natToLE]
  have := w.toNat_lt
  have h : w.toNat % 256 ^ 4 = w.toNat := Nat.mod_eq_of_lt (by omega)
  rw [h]; simp

theorem u16le_le16 (bs : Bytes) (h : bs.length = 2) : u16le (le16 bs) = bs := by
  unfold u16le le16
  have h4 : bs.take 2 = bs := List.take_of_length_le (by omega)
  rw [h4]
  have hlt := natOfLE_lt bs
  rw [h] at hlt
  have : (UInt16.ofNat (natOfLE bs)).toNat = natOfLE bs := by
    simp [UInt16.toNat_ofNat']; omega
  rw [this]
  have := natToLE_natOfLE bs
  rw [h] at this
  exact this

theorem le16_u16le_append (w : UInt16) (rest : Bytes) : le16 (u16le w ++ rest) = w := by
  unfold le16
  have : (u16le w ++ rest).take 2 = u16le w := by
    rw [List.take_append_of_le_length (by simp [u16le_length])]
    exact List.take_of_length_le (by simp [u16le_length])
  rw [this]
  unfold u16le
  rw [natOfLE_natToLE]
  have := w.toNat_lt
  have h : w.toNat % 256 ^ 2 = w.toNat := Nat.mod_eq_of_lt (by omega)
  rw [h]; simp

theorem drop_append_len {α} (a b : List α) (n : Nat) (h : a.length = n) : (a ++ b).drop n = b := by
  subst h; simp

theorem split16le_join16le (p : UInt32 × UInt32 × UInt32 × UInt32) : split16le (join16le p) = p := by
  obtain ⟨a, b, c, d⟩ := p
  unfold split16le join16le
  simp only [List.append_assoc]
  have d4 : (u32le a ++ (u32le b ++ (u32le c ++ u32le d))).drop 4 = u32le b ++ (u32le c ++ u32le d) :=
    drop_append_len _ _ 4 (u32le_length a)
  have d8 : (u32le a ++ (u32le b ++ (u32le c ++ u32le d))).drop 8 = u32le c ++ u32le d := by
    have : (8:Nat) = 4 + 4 := rfl
    rw [this, ← List.drop_drop, d4, drop_append_len _ _ 4 (u32le_length b)]
  have d12 : (u32le a ++ (u32le b ++ (u32le c ++ u32le d))).drop 12 = u32le d := by
    have : (12:Nat) = 8 + 4 := rfl
    rw [this, ← List.drop_drop, d8, drop_append_len _ _ 4 (u32le_length c)]
  rw [d4, d8, d12, le32_u32le_append, le32_u32le_append, le32_u32le_append]
  have := le32_u32le_append d []
  simp at this
  rw [this]

theorem le32_take (bs : Bytes) : le32 (bs.take 4) = le32 bs := by simp [le32, List.take_take]
theorem le16_take (bs : Bytes) : le16 (bs.take 2) = le16 bs := by simp [le16, List.take_take]

theorem join16le_split16le (bs : Bytes) (h : bs.length = 16) : join16le (split16le bs) = bs := by
  unfold join16le split16le
  simp only
  rw [← le32_take bs, ← le32_take (bs.drop 4), ← le32_take (bs.drop 8), ← le32_take (bs.drop 12)]
  rw [u32le_le32 _ (by simp [h]), u32le_le32 _ (by simp [h]), u32le_le32 _ (by simp [h]),
    u32le_le32 _ (by simp [h])]
  have e1 : bs = bs.take 4 ++ bs.drop 4 := (List.take_append_drop 4 bs).symm
  have e2 : bs.drop 4 = (bs.drop 4).take 4 ++ bs.drop 8 := by
    have := (List.take_append_drop 4 (bs.drop 4)).symm
    simpa [List.drop_drop] using this
  have e3 : bs.drop 8 = (bs.drop 8).take 4 ++ bs.drop 12 := by
    have := (List.take_append_drop 4 (bs.drop 8)).symm
    simpa [List.drop_drop] using this
  have e4 : (bs.drop 12).take 4 = bs.drop 12 := List.take_of_length_le (by simp [h])
  rw [e4]
  conv => rhs; rw [e1, e2, e3]
  simp [List.append_assoc]

theorem split8le16_join8le16 (p : UInt16 × UInt16 × UInt16 × UInt16) : split8le16 (join8le16 p) = p := by
  obtain ⟨a, b, c, d⟩ := p
  unfold split8le16 join8le16
  simp only [List.append_assoc]
  have d2 : (u16le a ++ (u16le b ++ (u16le c ++ u16le d))).drop 2 = u16le b ++ (u16le c ++ u16le d) :=
    drop_append_len _ _ 2 (u16le_length a)
  have d4 : (u16le a ++ (u16le b ++ (u16le c ++ u16le d))).drop 4 = u16le c ++ u16le d := by
    have : (4:Nat) = 2 + 2 := rfl
    rw [this, ← List.drop_drop, d2, drop_append_len _ _ 2 (u16le_length b)]
  have d6 : (u16le a ++ (u16le b ++ (u16le c ++ u16le d))).drop 6 = u16le d := by
    have : (6:Nat) = 4 + 2 := rfl
    rw [this, ← List.drop_drop, d4, drop_append_len _ _ 2 (u16le_length c)]
  rw [d2, d4, d6, le16_u16le_append, le16_u16le_append, le16_u16le_append]
  have := le16_u16le_append d []
  simp at this
  rw [this]

theorem join8le16_split8le16 (bs : Bytes) (h : bs.length = 8) : join8le16 (split8le16 bs) = bs := by
  unfold join8le16 split8le16
  simp only
  rw [← le16_take bs, ← le16_take (bs.drop 2), ← le16_take (bs.drop 4), ← le16_take (bs.drop 6)]
  rw [u16le_le16 _ (by simp [h]), u16le_le16 _ (by simp [h]), u16le_le16 _ (by simp [h]),
    u16le_le16 _ (by simp [h])]
  have e1 : bs = bs.take 2 ++ bs.drop 2 := (List.take_append_drop 2 bs).symm
  have e2 : bs.drop 2 = (bs.drop 2).take 2 ++ bs.drop 4 := by
    have := (List.take_append_drop 2 (bs.drop 2)).symm
    simpa [List.drop_drop] using this
  have e3 : bs.drop 4 = (bs.drop 4).take 2 ++ bs.drop 6 := by
    have := (List.take_append_drop 2 (bs.drop 4)).symm
    simpa [List.drop_drop] using this
  have e4 : (bs.drop 6).take 2 = bs.drop 6 := List.take_of_length_le (by simp [h])
  rw [e4]
  conv => rhs; rw [e1, e2, e3]
  simp [List.append_assoc]

end XC.C12
