/-
  C12 — helper lemmas: inverting a fold, byte ↔ word round trips.
-/
import XC.Model.C12_Util
namespace XC.C12

/-- undoing a left fold step by step, in reverse order -/
theorem foldl_inv {σ κ : Type} (step inv : σ → κ → σ) (h : ∀ s k, inv (step s k) k = s)
    (ks : List κ) (s : σ) : ks.reverse.foldl inv (ks.foldl step s) = s := by
  induction ks generalizing s with
  | nil => rfl
  | cons k ks ih => simp [List.foldl_append, ih, h]

theorem natOfLE_lt (bs : Bytes) : natOfLE bs < 256 ^ bs.length := by
  induction bs with
  | nil => simp [natOfLE]
  | cons b r ih =>
    simp only [natOfLE, List.length_cons, Nat.pow_succ]
    have := b.toNat_lt
    omega

theorem natToLE_natOfLE (bs : Bytes) : natToLE bs.length (natOfLE bs) = bs := by
  induction bs with
  | nil => rfl
  | cons b r ih =>
    simp only [List.length_cons, natToLE, natOfLE]
    have hb := b.toNat_lt
    have h1 : (b.toNat + 256 * natOfLE r) % 256 = b.toNat := by omega
    have h2 : (b.toNat + 256 * natOfLE r) / 256 = natOfLE r := by omega
    rw [h1, h2, ih]
    simp

theorem take_append_drop4 (bs : Bytes) : bs.take 4 ++ (bs.drop 4) = bs := List.take_append_drop 4 bs

theorem u32be_be32 (bs : Bytes) (h : bs.length = 4) : u32be (be32 bs) = bs := by
  unfold u32be be32 natToBE natOfBE
  have h4 : bs.take 4 = bs := List.take_of_length_le (by omega)
  rw [h4]
  have hl : bs.reverse.length = 4 := by simp [h]
  have hlt := natOfLE_lt bs.reverse
  rw [hl] at hlt
  have : (UInt32.ofNat (natOfLE bs.reverse)).toNat = natOfLE bs.reverse := by
    simp [UInt32.toNat_ofNat']; omega
  rw [this]
  have := natToLE_natOfLE bs.reverse
  rw [hl] at this
  rw [this, List.reverse_reverse]

theorem u32be_length (w : UInt32) : (u32be w).length = 4 := by
  simp [u32be, natToBE, natToLE_length]

theorem be32_u32be_append (w : UInt32) (rest : Bytes) : be32 (u32be w ++ rest) = w := by
  unfold be32
  have : (u32be w ++ rest).take 4 = u32be w := by
    rw [List.take_append_of_le_length (by simp [u32be_length])]
    exact List.take_of_length_le (by simp [u32be_length])
  rw [this]
  unfold u32be natToBE natOfBE
  rw [List.reverse_reverse, natOfLE_natToLE]
  have := w.toNat_lt
  have h : w.toNat % 256 ^ 4 = w.toNat := Nat.mod_eq_of_lt (by omega)
  rw [h]; simp

theorem split8_join8 (p : UInt32 × UInt32) : split8 (join8 p) = p := by
  obtain ⟨a, b⟩ := p
  unfold split8 join8
  simp only
  rw [be32_u32be_append]
  have : (u32be a ++ u32be b).drop 4 = u32be b := by
    rw [List.drop_append_of_le_length (by simp [u32be_length])]
    simp [List.drop_of_length_le, u32be_length]
  rw [this]
  have := be32_u32be_append b []
  simp at this
  rw [this]

theorem join8_split8 (bs : Bytes) (h : bs.length = 8) : join8 (split8 bs) = bs := by
  unfold join8 split8
  simp only
  have e1 : be32 bs = be32 (bs.take 4) := by simp [be32, List.take_take]
  rw [e1, u32be_be32 (bs.take 4) (by simp [h]), u32be_be32 (bs.drop 4) (by simp [h])]
  exact List.take_append_drop 4 bs

end XC.C12
