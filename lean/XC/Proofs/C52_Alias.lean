/-
  C52 — `curvePoint.Double` with the receiver aliasing its argument (`e.Add(e, b)` with b the same
  group element ends in `c.Double(a)` with c == a).  The functional model `CurvePoint.double` cannot
  see aliasing, so the statement order is modelled here explicitly: `doubleSeq` executes the Go
  statements in order on a register file in which, when `alias` is set, every write to `c.*` is also
  a write to `a.*`.
-/
import XC.Model.C52
namespace XC.C52
namespace CurvePoint

/-- statement order of the repaired `Double`: c.z is written right after `f`, then c.x, c.y -/
def doubleSeq (alias : Bool) (a : CurvePoint) : CurvePoint :=
  let A := (a.x * a.x) % p
  let B := (a.y * a.y) % p
  let C := (B * B) % p
  let t := a.x + B
  let t2 := (t * t) % p
  let t := t2 - A
  let t2 := t - C
  let d := t2 + t2
  let t := A + A
  let e := t + A
  let f := (e * e) % p
  let t := (a.y * a.z) % p
  let cz := t + t
  let a : CurvePoint := if alias then { a with z := cz } else a
  let t := d + d
  let cx := f - t
  let a : CurvePoint := if alias then { a with x := cx } else a
  let t := C + C
  let t2 := t + t
  let t := t2 + t2
  let cy := d - cx
  let a : CurvePoint := if alias then { a with y := cy } else a
  let t2 := (e * cy) % p
  let cy := t2 - t
  let a : CurvePoint := if alias then { a with y := cy } else a
  -- the result is the receiver; `a` is not read again
  ⟨cx, cy, cz, if alias then a.t else 0⟩

/-- statement order BEFORE the repair: `t.Mul(a.y, a.z)` came last, after c.x and c.y were written -/
def doubleSeqOld (alias : Bool) (a : CurvePoint) : CurvePoint :=
  let A := (a.x * a.x) % p
  let B := (a.y * a.y) % p
  let C := (B * B) % p
  let t := a.x + B
  let t2 := (t * t) % p
  let t := t2 - A
  let t2 := t - C
  let d := t2 + t2
  let t := A + A
  let e := t + A
  let f := (e * e) % p
  let t := d + d
  let cx := f - t
  let a : CurvePoint := if alias then { a with x := cx } else a
  let t := C + C
  let t2 := t + t
  let t := t2 + t2
  let cy := d - cx
  let a : CurvePoint := if alias then { a with y := cy } else a
  let t2 := (e * cy) % p
  let cy := t2 - t
  let a : CurvePoint := if alias then { a with y := cy } else a
  let t := (a.y * a.z) % p
  let cz := t + t
  ⟨cx, cy, cz, if alias then a.t else 0⟩

/-- **the repaired statement order is alias-safe**: x, y, z of the result do not depend on whether
    the receiver is the argument, and they are the functional model's `double`. -/
theorem double_alias_safe (a : CurvePoint) :
    let r := doubleSeq true a
    let s := doubleSeq false a
    r.x = s.x ∧ r.y = s.y ∧ r.z = s.z ∧ s = double a := by
  simp [doubleSeq, double]

/-- **the old order was not**: doubling the generator in place gives a different z (the finding) -/
theorem doubleOld_alias_witness :
    (doubleSeqOld true gen).z ≠ (doubleSeqOld false gen).z ∧ doubleSeqOld false gen = double gen := by
  decide

end CurvePoint
end XC.C52

namespace XC.C52

/-- **Add(a, a) is Double(a)** for every Jacobian representative that is not infinity: the two
    normalised points coincide, so `Add` takes its doubling branch (the doc comment "fails for a
    equal to b" is stale). -/
theorem CurvePoint.add_self (a : CurvePoint) (h : a.isInfinity = false) :
    CurvePoint.add a a = CurvePoint.double a := by
  unfold CurvePoint.add
  simp [h]

theorem TwistPoint.add_self (a : TwistPoint) (h : a.isInfinity = false) :
    TwistPoint.add a a = TwistPoint.double a := by
  unfold TwistPoint.add
  simp [h, GFp2.sub, GFp2.isZero]

/-- infinity is the neutral element of `Add`, on either side, for every representative -/
theorem CurvePoint.add_infinity (a b : CurvePoint) (hb : b.isInfinity = true) (ha : a.isInfinity = false) :
    CurvePoint.add a b = a ∧ CurvePoint.add b a = a := by
  unfold CurvePoint.add
  simp [ha, hb]

theorem TwistPoint.add_infinity (a b : TwistPoint) (hb : b.isInfinity = true) (ha : a.isInfinity = false) :
    TwistPoint.add a b = a ∧ TwistPoint.add b a = a := by
  unfold TwistPoint.add
  simp [ha, hb]

/-- **P + (−P) = ∞** on the Jacobian formulas: same x after normalisation gives h = 0, so the
    general branch returns z = 0 (the doubling branch would need y ≡ −y, i.e. a point of order 2). -/
theorem CurvePoint.add_neg (a : CurvePoint) (h : a.isInfinity = false) :
    (CurvePoint.add a a.neg).isInfinity = true ∨ CurvePoint.add a a.neg = CurvePoint.double a := by
  unfold CurvePoint.add
  have hn : a.neg.isInfinity = false := by simpa [CurvePoint.neg, CurvePoint.isInfinity] using h
  simp only [h, hn, Bool.false_eq_true, ↓reduceIte]
  simp only [CurvePoint.neg, Int.sub_self, beq_self_eq_true, Bool.true_and]
  split
  · right; rfl
  · left; simp [CurvePoint.isInfinity]

theorem GFp2.sub_self_zero (a : GFp2) : GFp2.sub a a = ⟨0, 0⟩ := by simp [GFp2.sub]
theorem GFp2.mul_zero_right (a : GFp2) : GFp2.mul a ⟨0, 0⟩ = ⟨0, 0⟩ := by simp [GFp2.mul]

theorem TwistPoint.add_neg (a : TwistPoint) (h : a.isInfinity = false) :
    (TwistPoint.add a a.neg).isInfinity = true ∨ TwistPoint.add a a.neg = TwistPoint.double a := by
  unfold TwistPoint.add
  have hn : a.neg.isInfinity = false := by simpa [TwistPoint.neg, TwistPoint.isInfinity] using h
  simp only [h, hn, Bool.false_eq_true, ↓reduceIte]
  simp only [TwistPoint.neg, GFp2.sub_self_zero]
  have hz : GFp2.isZero ⟨0, 0⟩ = true := by decide
  simp only [hz, Bool.true_and]
  split
  · right; rfl
  · left; simp [TwistPoint.isInfinity, GFp2.mul_zero_right, hz]

end XC.C52
