/-
  C52 — the final exponentiation's addition chain computes the exponent (p¹² − 1)/n, and the
  package's precomputed constants are what their comments say.
-/
import XC.Model.C52_Pairing
namespace XC.C52

/-! ## the addition chain of `finalExponentiation`, generic in the operations -/

structure FEOps (α : Type) where
  mul : α → α → α
  square : α → α
  /-- `Conjugate` (x ↦ −x on the ω-coefficient) = the p⁶-power Frobenius of GF(p¹²)/GF(p⁶) -/
  conj : α → α
  frob : α → α
  frobP2 : α → α
  expU : α → α
  inv : α → α

/-- optate.go `finalExponentiation`, statement by statement, over abstract operations -/
def finalExpG {α : Type} (o : FEOps α) (inp : α) : α :=
  let t1 := o.conj inp
  let inv := o.inv inp
  let t1 := o.mul t1 inv
  let t2 := o.frobP2 t1
  let t1 := o.mul t1 t2
  let fp := o.frob t1
  let fp2 := o.frobP2 t1
  let fp3 := o.frob fp2
  let fu := o.expU t1
  let fu2 := o.expU fu
  let fu3 := o.expU fu2
  let y3 := o.frob fu
  let fu2p := o.frob fu2
  let fu3p := o.frob fu3
  let y2 := o.frobP2 fu2
  let y0 := o.mul (o.mul fp fp2) fp3
  let y1 := o.conj t1
  let y5 := o.conj fu2
  let y3 := o.conj y3
  let y4 := o.conj (o.mul fu fu2p)
  let y6 := o.conj (o.mul fu3 fu3p)
  let t0 := o.square y6
  let t0 := o.mul t0 y4
  let t0 := o.mul t0 y5
  let t1 := o.mul y3 y5
  let t1 := o.mul t1 t0
  let t0 := o.mul t0 y2
  let t1 := o.square t1
  let t1 := o.mul t1 t0
  let t1 := o.square t1
  let t0 := o.mul t1 y1
  let t1 := o.mul t1 y0
  let t0 := o.square t0
  o.mul t0 t1

/-- the operations on the model's GF(p¹²) -/
def ops12 : FEOps GFp12 where
  mul := GFp12.mul
  square := GFp12.square
  conj := GFp12.conj
  frob := GFp12.frobenius
  frobP2 := GFp12.frobeniusP2
  expU := fun a => a.expLoop (u : Int)
  inv := GFp12.invert

set_option maxRecDepth 100000 in
/-- the model's `finalExponentiation` is that chain -/
theorem finalExponentiation_eq_chain (x : GFp12) : finalExponentiation x = finalExpG ops12 x := by
  unfold finalExponentiation finalExpG ops12
  rfl

/-- exponent bookkeeping: an element `g^e` of the cyclic group GF(p¹²)* (order p¹² − 1) is
    represented by `e mod (p¹² − 1)`; product = sum, square = doubling, the p-power Frobenius =
    multiplication by p, conjugation = multiplication by p⁶, inverse = negation, `Exp(·, u)` =
    multiplication by u. -/
def M12 : Int := p ^ 12 - 1

def expOps : FEOps Int where
  mul := fun a b => (a + b) % M12
  square := fun a => (2 * a) % M12
  conj := fun a => (a * p ^ 6) % M12
  frob := fun a => (a * p) % M12
  frobP2 := fun a => (a * p ^ 2) % M12
  expU := fun a => (a * (u : Int)) % M12
  inv := fun a => (-a) % M12

/-- **the chain raises its input to exactly (p¹² − 1)/n** (n = Order divides p¹² − 1): the "easy
    part" (p⁶ − 1)(p² + 1) times the "hard part" (p⁴ − p² + 1)/n, the latter assembled from
    Frobenius powers and three exponentiations by u. -/
theorem finalExp_exponent :
    finalExpG expOps 1 = (p ^ 12 - 1) / order ∧ (p ^ 12 - 1) % order = 0 ∧
    (p ^ 12 - 1) / order = ((p ^ 6 - 1) * (p ^ 2 + 1)) * ((p ^ 4 - p ^ 2 + 1) / order) ∧
    (p ^ 4 - p ^ 2 + 1) % order = 0 := by
  decide +kernel

/-! ## constants.go, optate.go: the constants are what they claim to be -/

/-- p = 36u⁴+36u³+24u²+6u+1, Order = 36u⁴+36u³+18u²+6u+1, and the NAF digits spell 6u+2 -/
theorem bn_parameters :
    p = 36 * (u : Int) ^ 4 + 36 * (u : Int) ^ 3 + 24 * (u : Int) ^ 2 + 6 * (u : Int) + 1 ∧
    order = 36 * (u : Int) ^ 4 + 36 * (u : Int) ^ 3 + 18 * (u : Int) ^ 2 + 6 * (u : Int) + 1 ∧
    sixuPlus2NAF.foldr (fun d acc => d + 2 * acc) 0 = 6 * (u : Int) + 2 ∧
    (∀ d ∈ sixuPlus2NAF, d = 0 ∨ d = 1 ∨ d = -1) := by
  decide +kernel

/-- square-and-multiply in GF(p²) with explicit fuel (kernel-evaluable) -/
def GFp2.powF (a : GFp2) : Nat → Nat → GFp2
  | 0, _ => .one
  | fuel + 1, k =>
    if k = 0 then .one
    else
      let h := GFp2.powF a fuel (k / 2)
      let s := h.square
      if k % 2 = 1 then s.mul a else s

def xi : GFp2 := ⟨1, 3⟩

/-- every `xiTo…` constant equals the stated power of ξ = i + 3 (exponents are exact integers) -/
theorem xi_constants :
    (p - 1) % 6 = 0 ∧ (p * p - 1) % 6 = 0 ∧
    GFp2.powF xi 600 ((p.toNat - 1) / 6) = GFp12.xiToPMinus1Over6 ∧
    GFp2.powF xi 600 ((p.toNat - 1) / 3) = GFp6.xiToPMinus1Over3 ∧
    GFp2.powF xi 600 ((p.toNat - 1) / 2) = xiToPMinus1Over2 ∧
    GFp2.powF xi 600 ((2 * p.toNat - 2) / 3) = GFp6.xiTo2PMinus2Over3 ∧
    GFp2.powF xi 600 ((p.toNat * p.toNat - 1) / 3) = ⟨0, GFp6.xiToPSquaredMinus1Over3⟩ ∧
    GFp2.powF xi 600 ((2 * p.toNat * p.toNat - 2) / 3) = ⟨0, GFp6.xiTo2PSquaredMinus2Over3⟩ ∧
    GFp2.powF xi 600 ((p.toNat * p.toNat - 1) / 6) = ⟨0, GFp12.xiToPSquaredMinus1Over6⟩ := by
  decide +kernel

/-- the twist coefficient is 3/ξ, and both generators satisfy their curve equations -/
theorem curve_constants :
    TwistPoint.twistB.mul xi = ⟨0, 3⟩ ∧
    CurvePoint.gen.isOnCurve = true ∧ TwistPoint.gen.isOnCurve = true := by
  decide +kernel

end XC.C52
