/-
  C41 — parse ∘ marshal = id: tuples and whole certificates.
-/
import XC.Model.C41
import XC.Proofs.C38_Keys
namespace XC.C41
open XC XC.C38

/-! ## tuples -/

/-- key `k` may follow the previous key `last` (strictly increasing, bytewise) -/
def okAfter (last : Option Bytes) (k : Bytes) : Bool :=
  match last with
  | some l => !(bytesLe k l)
  | none => true

/-- names strictly increasing (what a Go map written by marshalTuples looks like) -/
def sortedFrom : Option Bytes → List (Bytes × Bytes) → Bool
  | _, [] => true
  | last, kv :: r => okAfter last kv.1 && sortedFrom (some kv.1) r

def TupWF (kv : Bytes × Bytes) : Prop := kv.1.length < 4294967296 ∧ kv.2.length + 4 < 4294967296

theorem putTuples_cons (kv : Bytes × Bytes) (t : List (Bytes × Bytes)) :
    putTuples (kv :: t) = putTuple kv ++ putTuples t := by
  simp only [putTuples, List.map_cons, List.flatten_cons]

theorem putTuple_length (kv : Bytes × Bytes) : 8 ≤ (putTuple kv).length := by
  unfold putTuple
  rw [List.length_append, putString_length]
  split <;> simp only [putString_length] <;> omega

theorem ord_of_okAfter (last : Option Bytes) (k : Bytes) :
    okAfter last k = true → outOfOrder last k = false := by
  cases last with
  | none => intro _; rfl
  | some l => intro h; simpa [okAfter, outOfOrder] using h

theorem parseTuplesGo_put : ∀ (l : List (Bytes × Bytes)) (last : Option Bytes) (f : Nat),
    sortedFrom last l = true → (∀ kv ∈ l, TupWF kv) → (putTuples l).length ≤ f →
    parseTuplesGo f (putTuples l) last = some l := by
  intro l
  induction l with
  | nil =>
    intro last f _ _ _
    cases f <;> rfl
  | cons kv t ih =>
    intro last f hs hw hf
    obtain ⟨k, v⟩ := kv
    have hkv : TupWF (k, v) := hw _ (List.mem_cons_self ..)
    have ht : ∀ x ∈ t, TupWF x := fun x hx => hw x (List.mem_cons_of_mem _ hx)
    simp only [sortedFrom, Bool.and_eq_true] at hs
    obtain ⟨hs1, hs2⟩ := hs
    rw [putTuples_cons] at hf ⊢
    have hlen := putTuple_length (k, v)
    rw [List.length_append] at hf
    cases f with
    | zero => omega
    | succ f =>
      have hrest : (putTuples t).length ≤ f := by omega
      have ih' := ih (some k) f hs2 ht hrest
      have hord := ord_of_okAfter last k hs1
      unfold putTuple
      simp only [List.append_assoc]
      rw [parseTuplesGo, putString_append_isEmpty]
      simp only [Bool.false_eq_true, ↓reduceIte]
      rw [parseString_putString _ hkv.1]
      simp only [hord, Bool.false_eq_true, ↓reduceIte]
      by_cases hv : v = []
      · subst hv
        simp only [List.isEmpty_nil, ↓reduceIte]
        rw [parseString_putString _ (by decide)]
        simp only [List.isEmpty_nil, ↓reduceIte, ih', Option.map_some]
      · have hve : v.isEmpty = false := by cases v <;> simp_all
        simp only [hve, Bool.false_eq_true, ↓reduceIte]
        have hl : (putString v).length < 4294967296 := by rw [putString_length]; have := hkv.2; simp only at this; omega
        rw [parseString_putString _ hl]
        have hne : (putString v).isEmpty = false := by
          have := putString_append_isEmpty v []
          simpa using this
        have hin : parseString (putString v) = some (v, []) := by
          have := parseString_putString v (by have := hkv.2; simp only at this; omega) []
          simpa using this
        simp only [hne, Bool.false_eq_true, ↓reduceIte, hin, List.isEmpty_nil, Bool.not_true, ih', Option.map_some]

/-- `parseTuples(marshalTuples(m)) = m` for every map (sorted association list) -/
theorem parseTuples_putTuples (l : List (Bytes × Bytes)) (hs : sortedFrom none l = true)
    (hw : ∀ kv ∈ l, TupWF kv) : parseTuples (putTuples l) = some l :=
  parseTuplesGo_put l none _ hs hw (Nat.le_refl _)

/-- … but not conversely: the data field `00 00 00 04 00 00 00 00` (an inner empty string) parses like
    the empty data field `00 00 00 00`, and marshalTuples writes the latter -/
theorem parseTuples_not_injective :
    parseTuples (putString [97] ++ putString (putString [])) = some [([97], [])] ∧
    parseTuples (putString [97] ++ putString []) = some [([97], [])] ∧
    putTuples [([97], [])] = putString [97] ++ putString [] := by
  decide +kernel

/-! ## certificate type names -/

theorem certTypeOf_aux (ty t : Bytes)
    (h1 : (certKeyAlgoNames.find? (fun p => p.2 = ty)).map (·.1) = some t)
    (h2 : certArms.contains t = true)
    (h3 : certKeyAlgoNames.find? (fun p => p.1 = t) = some (t, ty))
    (h4 : t.length < 4294967296)
    (h5 : certKeyAlgoNames.any (fun p => p.1 = ty) = false)
    (k : PubKey) (hk : k.type = ty) :
    ∃ t, certTypeOf k = some t ∧ certArms.contains t = true ∧
      certKeyAlgoNames.find? (fun p => p.1 = t) = some (t, k.type) ∧ t.length < 4294967296 ∧
      certKeyAlgoNames.any (fun p => p.1 = k.type) = false := by
  subst hk
  exact ⟨t, h1, h2, h3, h4, h5⟩

/-- for every well-formed key: `Certificate.Type()` is one of the eight certificate arms of
    parsePubKey and maps back to the key's own type; and a plain key type is never a certificate
    algorithm name (so a marshalled CA key passes parseCert's "signature key is a certificate" test) -/
theorem certTypeOf_spec (o : PtOracle) (k : PubKey) (hk : KeyWF o k) :
    ∃ t, certTypeOf k = some t ∧ certArms.contains t = true ∧
      certKeyAlgoNames.find? (fun p => p.1 = t) = some (t, k.type) ∧ t.length < 4294967296 ∧
      certKeyAlgoNames.any (fun p => p.1 = k.type) = false := by
  cases k with
  | rsa e n => exact certTypeOf_aux algoRSA certAlgoRSA (by decide) (by decide) (by decide) (by decide) (by decide) _ rfl
  | dsa p q g y => exact certTypeOf_aux algoDSA certAlgoDSA (by decide) (by decide) (by decide) (by decide) (by decide) _ rfl
  | ecdsa bits pt =>
    obtain ⟨hb, _, _⟩ := hk
    rcases hb with hb | hb | hb <;> subst hb
    · exact certTypeOf_aux algoECDSA256 certAlgoECDSA256 (by decide) (by decide) (by decide) (by decide) (by decide) _
        (by show nm "ecdsa-sha2-" ++ curveName 256 = algoECDSA256; decide)
    · exact certTypeOf_aux algoECDSA384 certAlgoECDSA384 (by decide) (by decide) (by decide) (by decide) (by decide) _
        (by show nm "ecdsa-sha2-" ++ curveName 384 = algoECDSA384; decide)
    · exact certTypeOf_aux algoECDSA521 certAlgoECDSA521 (by decide) (by decide) (by decide) (by decide) (by decide) _
        (by show nm "ecdsa-sha2-" ++ curveName 521 = algoECDSA521; decide)
  | skecdsa pt app => exact certTypeOf_aux algoSKECDSA certAlgoSKECDSA (by decide) (by decide) (by decide) (by decide) (by decide) _ rfl
  | ed25519 kb => exact certTypeOf_aux algoED25519 certAlgoED25519 (by decide) (by decide) (by decide) (by decide) (by decide) _ rfl
  | sked25519 kb app => exact certTypeOf_aux algoSKED25519 certAlgoSKED25519 (by decide) (by decide) (by decide) (by decide) (by decide) _ rfl

/-! ## signature -/

def SigWF (s : Sig) : Prop :=
  (skFormat s.format = true ∨ s.rest = []) ∧ s.format.length < 4294967296 ∧ s.blob.length < 4294967296

theorem parseSigBody_putSig (s : Sig) (h : SigWF s) : parseSigBody (putSig s) = some s := by
  obtain ⟨h1, h2, h3⟩ := h
  unfold parseSigBody putSig
  rw [List.append_assoc, parseString_putString _ h2]
  simp only []
  rw [parseString_putString _ h3]
  simp only []
  by_cases hsk : skFormat s.format = true
  · simp only [hsk, ↓reduceIte]
  · have hr : s.rest = [] := by rcases h1 with h1 | h1; exact absurd h1 hsk; exact h1
    simp only [hsk, Bool.false_eq_true, ↓reduceIte, hr, List.isEmpty_nil]
    cases s; simp_all

/-! ## whole certificates -/

/-- a certificate value that `Marshal` can write and `parseCert` accepts: well-formed keys, uint
    ranges, uint32 length bounds, option maps in sorted association-list form, a signature present -/
structure CertWF (o : PtOracle) (c : Cert) (s : Sig) : Prop where
  key : KeyWF o c.key
  sigKey : KeyWF o c.sigKey
  sig : c.sig = some s
  sigWF : SigWF s
  nonce : c.nonce.length < 4294967296
  serial : c.serial < 18446744073709551616
  ctype : c.certType < 4294967296
  keyId : c.keyId.length < 4294967296
  princ : ∀ p ∈ c.principals, p.length < 4294967296
  princLen : (putStrings c.principals).length < 4294967296
  va : c.validAfter < 18446744073709551616
  vb : c.validBefore < 18446744073709551616
  critSorted : sortedFrom none c.critOpts = true
  critWF : ∀ kv ∈ c.critOpts, TupWF kv
  critLen : (putTuples c.critOpts).length < 4294967296
  extSorted : sortedFrom none c.exts = true
  extWF : ∀ kv ∈ c.exts, TupWF kv
  extLen : (putTuples c.exts).length < 4294967296
  reserved : c.reserved.length < 4294967296
  sigKeyLen : c.sigKey.marshal.length < 4294967296
  sigLen : (putSig s).length < 4294967296

/-- the field parser on `Marshal(c)` minus the name gives `c` back -/
theorem parseCertNoCheck_signedPart (o : PtOracle) (c : Cert) (s : Sig) (h : CertWF o c s) :
    parseCertNoCheck o c.key.type
      (putString c.nonce ++ c.key.body ++
        putU64 c.serial ++ putU32 c.certType ++ putString c.keyId ++ putString (putStrings c.principals) ++
        putU64 c.validAfter ++ putU64 c.validBefore ++ putString (putTuples c.critOpts) ++
        putString (putTuples c.exts) ++ putString c.reserved ++ putString c.sigKey.marshal ++
        putString (putSig s)) = some c := by
  obtain ⟨t, _, _, _, _, hnc⟩ := certTypeOf_spec o c.sigKey h.sigKey
  simp only [List.append_assoc]
  rw [parseCertNoCheck, parseString_putString _ h.nonce]
  simp only []
  rw [parsePlain_body o c.key h.key]
  simp only []
  rw [parseU64_putU64 _ h.serial]
  simp only []
  rw [parseU32_putU32 _ h.ctype]
  simp only []
  rw [parseString_putString _ h.keyId]
  simp only []
  rw [parseString_putString _ h.princLen]
  simp only []
  rw [parseU64_putU64 _ h.va]
  simp only []
  rw [parseU64_putU64 _ h.vb]
  simp only []
  rw [parseString_putString _ h.critLen]
  simp only []
  rw [parseString_putString _ h.extLen]
  simp only []
  rw [parseString_putString _ h.reserved]
  simp only []
  rw [parseString_putString _ h.sigKeyLen]
  simp only []
  have hlast := parseString_putString (putSig s) h.sigLen []
  rw [List.append_nil] at hlast
  rw [hlast]
  simp only [List.isEmpty_nil, Bool.not_true, Bool.false_eq_true, ↓reduceIte]
  rw [parseStrings_putStrings _ h.princ, parseTuples_putTuples _ h.critSorted h.critWF,
    parseTuples_putTuples _ h.extSorted h.extWF]
  simp only []
  have hsk : parseString c.sigKey.marshal = some (c.sigKey.type, c.sigKey.body) := by
    rw [PubKey.marshal, parseString_putString _ (type_length _)]
  rw [hsk]
  simp only [hnc, Bool.false_eq_true, ↓reduceIte]
  rw [parsePlainKey_marshal o c.sigKey h.sigKey, parseSigBody_putSig s h.sigWF]
  simp only []
  cases c
  simp only [Cert.mk.injEq, Option.some.injEq, true_and]
  exact h.sig.symm

/-- **marshal_parse**: `ParsePublicKey(c.Marshal()) = c` for every well-formed certificate `c`
    (hence SignCert output, which is such a `c`, round-trips byte for byte: see `marshal_parse_marshal`) -/
theorem marshal_parse (o : PtOracle) (c : Cert) (s : Sig) (h : CertWF o c s) (b : Bytes)
    (hm : c.marshal = some b) : parsePublicKey o b = some (.cert c) := by
  obtain ⟨t, ht, harm, hfind, hlen, _⟩ := certTypeOf_spec o c.key h.key
  unfold Cert.marshal at hm
  simp only [ht, h.sig, Option.some.injEq] at hm
  subst hm
  have hp : ∀ rest, parseString (putString t ++ rest) = some (t, rest) := fun rest => parseString_putString t hlen rest
  unfold parsePublicKey parseCertKey
  simp only [Cert.signedPart, List.append_assoc]
  rw [hp]
  simp only [harm, ↓reduceIte, hfind]
  have hnc := parseCertNoCheck_signedPart o c s h
  simp only [List.append_assoc] at hnc
  -- the canonical-encoding check: Marshal(c) = name ‖ input
  have hmar : c.marshal = some (putString t ++ (putString c.nonce ++ (c.key.body ++ (putU64 c.serial ++ (putU32 c.certType ++
      (putString c.keyId ++ (putString (putStrings c.principals) ++ (putU64 c.validAfter ++ (putU64 c.validBefore ++
      (putString (putTuples c.critOpts) ++ (putString (putTuples c.exts) ++ (putString c.reserved ++
      (putString c.sigKey.marshal ++ putString (putSig s)))))))))))))) := by
    unfold Cert.marshal
    simp only [ht, h.sig, Cert.signedPart, List.append_assoc]
  unfold parseCert
  rw [hnc]
  simp only [hmar, hp, ↓reduceIte]
  rfl

/-- byte-for-byte: marshalling the parse of a marshalled well-formed certificate gives the same bytes -/
theorem marshal_parse_marshal (o : PtOracle) (c : Cert) (s : Sig) (h : CertWF o c s) (b : Bytes)
    (hm : c.marshal = some b) :
    (parsePublicKey o b).bind AnyKey.marshal = some b := by
  rw [marshal_parse o c s h b hm]
  exact hm

end XC.C41
