/-
  C35 — invariants of the multi-stream channel LTS `stepC` (Broadcast wake semantics) and their lifting to the
  multi-channel LTS `stepM` by projection.
-/
import XC.Model.C35_Multi
namespace XC.C35

/-- the threshold test of adjustWindow -/
def thrM (r : Rcv) : Prop := r.winSize - r.myWindow > 3 * r.maxIncoming ∨ r.myWindow < r.winSize / 2

structure InvC (W : Nat) (s : SysC) : Prop where
  /-- credit conservation: one window for all streams of the channel -/
  credit : s.win + wireLen s.dataWire + s.adjWire.sum = s.rcv.myWindow
  recvAcct : s.rcv.myWindow + s.rcv.myConsumed + s.rcv.pending + s.rcv.extPending = W
  consts : s.rcv.winSize = W ∧ s.rcv.maxIncoming = channelMaxPacket
  pend : s.rcv.pending = s.unread0.length ∧ s.rcv.extPending = s.unread1.length
  wire : s.win + s.adjWire.sum + s.used = s.granted
  ok : s.complained = false ∧ s.overflowed = false
  pkts : ∀ p ∈ s.dataWire, 0 < p.2.length ∧ p.2.length ≤ channelMaxPacket
  drained : s.rcv.pending = 0 → s.rcv.extPending = 0 → s.rcv.myConsumed = 0 ∨ ¬ thrM s.rcv
  adjPos : ∀ a ∈ s.adjWire, 0 < a
  /-- no lost wake-up: a writer sleeps in Cond.Wait only while the window is empty -/
  wake : ∀ st ∈ s.streams, st.parked = true → s.win = 0
  streams : ∀ st ∈ s.streams, st.sent ++ st.toSend = st.data ∧
    (st.code = 0 → s.read0 ++ s.unread0 ++ (wireOf 0 s.dataWire).flatten = st.sent) ∧
    (st.code = 1 → s.read1 ++ s.unread1 ++ (wireOf 1 s.dataWire).flatten = st.sent)
  codes : (s.streams.map (·.code)).Nodup

theorem wireLen_append (a b : List (Nat × Bytes')) : wireLen (a ++ b) = wireLen a + wireLen b := by
  simp [wireLen]

theorem wireOf_append (c : Nat) (a b : List (Nat × Bytes')) : wireOf c (a ++ b) = wireOf c a ++ wireOf c b := by
  simp [wireOf]

theorem invC_init (W mp : Nat) (writes : List (Nat × Bytes')) (hc : (writes.map (·.1)).Nodup) :
    InvC W (SysC.init W mp writes) := by
  constructor
  · simp [SysC.init, wireLen]
  · simp [SysC.init, Rcv.init]
  · simp [SysC.init, Rcv.init]
  · simp [SysC.init, Rcv.init]
  · simp [SysC.init]
  · simp [SysC.init]
  · simp [SysC.init]
  · intro _ _; left; simp [SysC.init, Rcv.init]
  · simp [SysC.init]
  · intro st hst; simp [SysC.init] at hst; obtain ⟨a, b, _, rfl⟩ := hst; simp
  · intro st hst
    simp [SysC.init] at hst
    obtain ⟨a, b, _, rfl⟩ := hst
    simp [SysC.init, wireOf]
  · simpa [SysC.init, List.map_map, Function.comp_def] using hc

theorem mem_set_cases {α : Type} {l : List α} {k : Nat} {x y : α} (h : x ∈ l.set k y) :
    x = y ∨ ∃ j, j ≠ k ∧ l[j]? = some x := by
  rw [List.mem_iff_getElem?] at h
  obtain ⟨j, hj⟩ := h
  rw [List.getElem?_set] at hj
  split at hj
  · split at hj
    · simp at hj; exact Or.inl hj.symm
    · simp at hj
  · rename_i hne
    exact Or.inr ⟨j, fun e => hne e.symm, hj⟩

theorem nodup_codes_ne {ss : List Stream} (h : (ss.map (·.code)).Nodup) {j k : Nat} {a b : Stream}
    (hj : ss[j]? = some a) (hk : ss[k]? = some b) (hne : j ≠ k) : a.code ≠ b.code := by
  intro heq
  have h1 : (ss.map (·.code))[j]? = some a.code := by simp [hj]
  have h2 : (ss.map (·.code))[k]? = some b.code := by simp [hk]
  rw [heq] at h1
  have hlt : j < (ss.map (·.code)).length := (List.getElem?_eq_some_iff.mp h1).1
  exact hne ((List.getElem?_inj hlt h).mp (h1.trans h2.symm))


theorem map_code_set (ss : List Stream) (k : Nat) (st st' : Stream) (hk : ss[k]? = some st) (hc : st'.code = st.code) :
    (ss.set k st').map (·.code) = ss.map (·.code) := by
  rw [List.map_set]
  apply List.ext_getElem?
  intro i
  rw [List.getElem?_set]
  split
  · rename_i h; subst h
    split
    · simp [hk, hc]
    · rename_i hlt; simp at hlt; simp [List.getElem?_eq_none hlt]
  · rfl

theorem wireOf_single_same (c : Nat) (p : Bytes') : wireOf c [(c, p)] = [p] := by simp [wireOf]
theorem wireOf_single_ne {c c' : Nat} (p : Bytes') (h : c' ≠ c) : wireOf c [(c', p)] = [] := by
  simp [wireOf, h]

theorem invC_send {W : Nat} {wake : List Stream → List Stream} {s s' : SysC} (k : Nat)
    (hmp : 0 < s.maxPayload ∧ s.maxPayload ≤ channelMaxPacket)
    (hi : InvC W s) (h : stepC wake s (.send k) = some s') : InvC W s' ∧ s'.maxPayload = s.maxPayload := by
  simp only [stepC] at h
  split at h
  · cases h
  · rename_i st hk
    have hmem : st ∈ s.streams := List.mem_of_getElem? hk
    split at h
    · cases h
    · rename_i hne
      simp only [Bool.or_eq_true, not_or, Bool.not_eq_true] at hne
      obtain ⟨hne, hnp⟩ := hne
      split at h
      · -- window empty: park
        rename_i hnone
        have hw0 : s.win = 0 := by
          simp only [nextPacket, reserve] at hnone
          split at hnone
          · assumption
          · cases hnone
        cases h
        refine ⟨?_, rfl⟩
        constructor
        · exact hi.credit
        · exact hi.recvAcct
        · exact hi.consts
        · exact hi.pend
        · exact hi.wire
        · exact hi.ok
        · exact hi.pkts
        · exact hi.drained
        · exact hi.adjPos
        · intro _ _ _; exact hw0
        · intro st' hst'
          rcases mem_set_cases hst' with rfl | ⟨j, _, hj⟩
          · exact hi.streams st hmem
          · exact hi.streams st' (List.mem_of_getElem? hj)
        · have := map_code_set s.streams k st { st with parked := true } hk rfl
          simp only [this]; exact hi.codes
      · rename_i n win' heq
        simp only [nextPacket, reserve, minPayloadSize] at heq
        split at heq
        · cases heq
        · rename_i hw
          simp only [Option.some.injEq, Prod.mk.injEq] at heq
          obtain ⟨hn, hwin⟩ := heq
          cases h
          have hlen : 0 < st.toSend.length := by
            cases hts : st.toSend with
            | nil => simp [hts] at hne
            | cons a t => simp
          have hnle : n ≤ st.toSend.length ∧ n ≤ s.win ∧ 0 < n ∧ n ≤ s.maxPayload := by
            subst hn
            split <;> split <;> omega
          have htake : (st.toSend.take n).length = n := by simp [List.length_take]; omega
          refine ⟨?_, rfl⟩
          constructor
          · have hsum : wireLen (s.dataWire ++ [(st.code, st.toSend.take n)]) = wireLen s.dataWire + n := by
              rw [wireLen_append]; simp [wireLen, htake]
            simp only [hsum]
            have := hi.credit
            omega
          · exact hi.recvAcct
          · exact hi.consts
          · exact hi.pend
          · have := hi.wire; simp only; omega
          · exact hi.ok
          · intro q hq
            simp only [List.mem_append, List.mem_singleton] at hq
            rcases hq with hq | rfl
            · exact hi.pkts q hq
            · simp only [htake]; omega
          · exact hi.drained
          · exact hi.adjPos
          · -- the window was not empty, so nobody was parked
            intro st' hst' hp
            exfalso
            rcases mem_set_cases hst' with rfl | ⟨j, _, hj⟩
            · simp only at hp; rw [hnp] at hp; cases hp
            · have := hi.wake st' (List.mem_of_getElem? hj) hp
              omega
          · intro st' hst'
            rcases mem_set_cases hst' with rfl | ⟨j, hjk, hj⟩
            · obtain ⟨h1, h2, h3⟩ := hi.streams st hmem
              refine ⟨?_, ?_, ?_⟩
              · simp only [List.append_assoc, List.take_append_drop]; exact h1
              · intro hc
                simp only at hc
                simp only [wireOf_append, hc, wireOf_single_same, List.flatten_append, List.flatten_cons,
                  List.flatten_nil, List.append_nil]
                rw [← h2 hc]; simp [List.append_assoc, hc]
              · intro hc
                simp only at hc
                simp only [wireOf_append, hc, wireOf_single_same, List.flatten_append, List.flatten_cons,
                  List.flatten_nil, List.append_nil]
                rw [← h3 hc]; simp [List.append_assoc, hc]
            · obtain ⟨h1, h2, h3⟩ := hi.streams st' (List.mem_of_getElem? hj)
              have hcne : st.code ≠ st'.code := fun e => nodup_codes_ne hi.codes hj hk hjk e.symm
              refine ⟨h1, ?_, ?_⟩
              · intro hc
                rw [wireOf_append, wireOf_single_ne _ (by rw [← hc]; exact hcne)]
                simpa using h2 hc
              · intro hc
                rw [wireOf_append, wireOf_single_ne _ (by rw [← hc]; exact hcne)]
                simpa using h3 hc
          · have := map_code_set s.streams k st
              { st with toSend := st.toSend.drop n, sent := st.sent ++ st.toSend.take n } hk rfl
            simp only [this]; exact hi.codes


theorem wireOf_cons_same (c : Nat) (p : Bytes') (rest : List (Nat × Bytes')) :
    wireOf c ((c, p) :: rest) = p :: wireOf c rest := by simp [wireOf]
theorem wireOf_cons_ne {c c' : Nat} (p : Bytes') (rest : List (Nat × Bytes')) (h : c' ≠ c) :
    wireOf c ((c', p) :: rest) = wireOf c rest := by simp [wireOf, h]

theorem invC_deliverData {W : Nat} {wake : List Stream → List Stream} {s s' : SysC}
    (hi : InvC W s) (h : stepC wake s .deliverData = some s') : InvC W s' ∧ s'.maxPayload = s.maxPayload := by
  simp only [stepC] at h
  split at h
  · cases h
  · rename_i code p rest hw
    have hp := hi.pkts (code, p) (by simp [hw])
    simp only at hp
    have hcred := hi.credit
    have hacct := hi.recvAcct
    obtain ⟨hW, hM⟩ := hi.consts
    obtain ⟨hp0, hp1⟩ := hi.pend
    have hwire := hi.wire
    simp only [hw, wireLen, List.map_cons, List.sum_cons] at hcred
    have h1 : ¬ p.length = 0 := by omega
    have h2 : ¬ p.length > s.rcv.maxIncoming := by rw [hM]; omega
    have h3 : ¬ s.rcv.myWindow < p.length := by omega
    have hstreams : ∀ (u0 u1 : Bytes'), (code = 0 → u0 = s.unread0 ++ p) → (code ≠ 0 → u0 = s.unread0) →
        (code = 1 → u1 = s.unread1 ++ p) → (code ≠ 1 → u1 = s.unread1) →
        ∀ st ∈ s.streams, st.sent ++ st.toSend = st.data ∧
          (st.code = 0 → s.read0 ++ u0 ++ (wireOf 0 rest).flatten = st.sent) ∧
          (st.code = 1 → s.read1 ++ u1 ++ (wireOf 1 rest).flatten = st.sent) := by
      intro u0 u1 a0 b0 a1 b1 st hst
      obtain ⟨g1, g2, g3⟩ := hi.streams st hst
      refine ⟨g1, ?_, ?_⟩
      · intro hc
        rw [← g2 hc, hw]
        by_cases hc0 : code = 0
        · subst hc0; rw [a0 rfl, wireOf_cons_same]; simp [List.append_assoc]
        · rw [b0 hc0, wireOf_cons_ne _ _ hc0]
      · intro hc
        rw [← g3 hc, hw]
        by_cases hc1 : code = 1
        · subst hc1; rw [a1 rfl, wireOf_cons_same]; simp [List.append_assoc]
        · rw [b1 hc1, wireOf_cons_ne _ _ hc1]
    by_cases hc1 : code = 1
    · -- stderr
      subst hc1
      have hok : handleData s.rcv 1 p.length p.length =
          .ok ({ s.rcv with myWindow := s.rcv.myWindow - p.length, extPending := s.rcv.extPending + p.length }, 0) := by
        unfold handleData; simp [h1, h2, h3]
      rw [hok] at h
      cases h
      refine ⟨?_, rfl⟩
      constructor
      · simp only [wireLen, if_true]; omega
      · simp only; omega
      · exact ⟨hW, hM⟩
      · simp only [List.length_append, if_true]; constructor <;> simp <;> omega
      · simpa using hwire
      · exact hi.ok
      · intro q hq; exact hi.pkts q (by simp [hw, hq])
      · intro _ h0; simp only at h0; omega
      · simpa using hi.adjPos
      · exact hi.wake
      · simpa using hstreams s.unread0 (s.unread1 ++ p) (by simp) (by simp) (by simp) (by simp)
      · exact hi.codes
    · by_cases hc0 : code = 0
      · subst hc0
        have hok : handleData s.rcv 0 p.length p.length =
            .ok ({ s.rcv with myWindow := s.rcv.myWindow - p.length, pending := s.rcv.pending + p.length }, 0) := by
          unfold handleData; simp [h1, h2, h3]
        rw [hok] at h
        cases h
        refine ⟨?_, rfl⟩
        constructor
        · simp only [wireLen, if_true]; omega
        · simp only; omega
        · exact ⟨hW, hM⟩
        · simp only [List.length_append]; constructor <;> simp <;> omega
        · simpa using hwire
        · exact hi.ok
        · intro q hq; exact hi.pkts q (by simp [hw, hq])
        · intro h0 _; simp only at h0; omega
        · simpa using hi.adjPos
        · exact hi.wake
        · simpa using hstreams (s.unread0 ++ p) s.unread1 (by simp) (by simp) (by simp) (by simp)
        · exact hi.codes
      · -- other extended data: discarded, credited at once
        have hpos : code > 0 := by omega
        by_cases hthr : (s.rcv.winSize - (s.rcv.myWindow - p.length) > 3 * s.rcv.maxIncoming) ∨
            (s.rcv.myWindow - p.length < s.rcv.winSize / 2)
        · have hb : (decide (s.rcv.winSize - (s.rcv.myWindow - p.length) > 3 * s.rcv.maxIncoming) ||
              decide (s.rcv.myWindow - p.length < s.rcv.winSize / 2)) = true := by simpa using hthr
          have hok : handleData s.rcv code p.length p.length =
              .ok ({ s.rcv with myWindow := s.rcv.myWindow - p.length + (s.rcv.myConsumed + p.length), myConsumed := 0 },
                   s.rcv.myConsumed + p.length) := by
            unfold handleData adjustWindow; simp [h1, h2, h3, hc1, hpos, hb]
          rw [hok] at h
          have hapos : ¬ (s.rcv.myConsumed + p.length = 0) := by omega
          cases h
          refine ⟨?_, rfl⟩
          constructor
          · simp only [wireLen, hapos, if_false, List.sum_append, List.sum_cons, List.sum_nil]; omega
          · simp only; omega
          · exact ⟨hW, hM⟩
          · simp only [hc0, hc1, if_false]; exact ⟨hp0, hp1⟩
          · simp only [hapos, if_false, List.sum_append, List.sum_cons, List.sum_nil]; omega
          · exact hi.ok
          · intro q hq; exact hi.pkts q (by simp [hw, hq])
          · intro _ _; left; rfl
          · intro x hx
            simp only [hapos, if_false, List.mem_append, List.mem_singleton] at hx
            rcases hx with hx | rfl
            · exact hi.adjPos x hx
            · omega
          · exact hi.wake
          · simpa [hc0, hc1] using hstreams s.unread0 s.unread1 (by simp [hc0]) (by simp) (by simp [hc1]) (by simp)
          · exact hi.codes
        · have hb : (decide (s.rcv.winSize - (s.rcv.myWindow - p.length) > 3 * s.rcv.maxIncoming) ||
              decide (s.rcv.myWindow - p.length < s.rcv.winSize / 2)) = false := by simpa using hthr
          have hok : handleData s.rcv code p.length p.length =
              .ok ({ s.rcv with myWindow := s.rcv.myWindow - p.length, myConsumed := s.rcv.myConsumed + p.length }, 0) := by
            unfold handleData adjustWindow; simp [h1, h2, h3, hc1, hpos, hb]
          rw [hok] at h
          cases h
          refine ⟨?_, rfl⟩
          constructor
          · simp only [wireLen, if_true]; omega
          · simp only; omega
          · exact ⟨hW, hM⟩
          · simp only [hc0, hc1, if_false]; exact ⟨hp0, hp1⟩
          · simpa using hwire
          · exact hi.ok
          · intro q hq; exact hi.pkts q (by simp [hw, hq])
          · intro _ _; right; exact hthr
          · simpa using hi.adjPos
          · exact hi.wake
          · simpa [hc0, hc1] using hstreams s.unread0 s.unread1 (by simp [hc0]) (by simp) (by simp [hc1]) (by simp)
          · exact hi.codes


theorem invC_deliverAdj {W : Nat} {s s' : SysC} (hW32 : W < 4294967296)
    (hi : InvC W s) (h : stepC unparkAll s .deliverAdj = some s') :
    InvC W s' ∧ s'.maxPayload = s.maxPayload ∧ (∀ st ∈ s'.streams, st.parked = false) ∧ 0 < s'.win := by
  simp only [stepC] at h
  split at h
  · cases h
  · rename_i a rest hw
    have hcred := hi.credit
    have hacct := hi.recvAcct
    have hapos := hi.adjPos a (by simp [hw])
    simp only [hw, List.sum_cons] at hcred
    have hno : addWin s.win a = some (s.win + a) := by
      unfold addWin
      have h0 : ¬ a = 0 := by omega
      have : s.win + a < 4294967296 := by omega
      rw [Nat.mod_eq_of_lt this]
      simp [h0]
    rw [hno] at h
    have h0 : ¬ a = 0 := by omega
    simp only [h0, if_false] at h
    cases h
    refine ⟨?_, rfl, ?_, by simp only; omega⟩
    · constructor
      · simp only; omega
      · exact hacct
      · exact hi.consts
      · exact hi.pend
      · have := hi.wire; simp only [hw, List.sum_cons] at this ⊢; omega
      · exact hi.ok
      · exact hi.pkts
      · exact hi.drained
      · intro x hx; exact hi.adjPos x (by simp [hw, hx])
      · intro st hst hp
        simp only [unparkAll, List.mem_map] at hst
        obtain ⟨st0, _, rfl⟩ := hst
        simp at hp
      · intro st hst
        simp only [unparkAll, List.mem_map] at hst
        obtain ⟨st0, hst0, rfl⟩ := hst
        exact hi.streams st0 hst0
      · simp only [unparkAll, List.map_map, Function.comp_def]; exact hi.codes
    · intro st hst
      simp only [unparkAll, List.mem_map] at hst
      obtain ⟨st0, _, rfl⟩ := hst
      rfl

theorem invC_read {W : Nat} {wake : List Stream → List Stream} {s s' : SysC} (code n : Nat)
    (hi : InvC W s) (h : stepC wake s (.read code n) = some s') : InvC W s' ∧ s'.maxPayload = s.maxPayload := by
  simp only [stepC] at h
  split at h
  · cases h
  · rename_i hc
    simp only [Bool.or_eq_true, decide_eq_true_eq, not_or, Nat.not_lt] at hc
    obtain ⟨hcode, hn0⟩ := hc
    · obtain ⟨hW, hM⟩ := hi.consts
      obtain ⟨hp0, hp1⟩ := hi.pend
      have hacct := hi.recvAcct
      have hcred := hi.credit
      have hwire := hi.wire
      by_cases hc1 : code = 1
      · subst hc1
        have hav : ¬ s.rcv.extPending = 0 := by intro h0; simp [h0] at h
        simp only [if_true, hav, if_false] at h
        have hk : 0 < bufRead s.rcv.extPending n ∧ bufRead s.rcv.extPending n ≤ s.rcv.extPending := by
          unfold bufRead; split <;> omega
        generalize hkdef : bufRead s.rcv.extPending n = k at hk
        simp only [readExt, hkdef, adjustWindow, if_true] at h
        have hk0 : ¬ k = 0 := by omega
        by_cases hthr : (s.rcv.winSize - s.rcv.myWindow > 3 * s.rcv.maxIncoming) ∨ (s.rcv.myWindow < s.rcv.winSize / 2)
        · have hb : (decide (s.rcv.winSize - s.rcv.myWindow > 3 * s.rcv.maxIncoming) || decide (s.rcv.myWindow < s.rcv.winSize / 2)) = true := by
            simpa using hthr
          simp only [hb, if_true, hk0, if_false] at h
          cases h
          have hapos : ¬ (s.rcv.myConsumed + k = 0) := by omega
          refine ⟨?_, rfl⟩
          constructor
          · simp only [hapos, if_false, List.sum_append, List.sum_cons, List.sum_nil]; omega
          · simp only; omega
          · exact ⟨hW, hM⟩
          · simp only [List.length_drop, if_true]; constructor <;> (try simp) <;> omega
          · simp only [hapos, if_false, List.sum_append, List.sum_cons, List.sum_nil]; omega
          · exact hi.ok
          · exact hi.pkts
          · intro _ _; left; rfl
          · intro x hx
            simp only [hapos, if_false, List.mem_append, List.mem_singleton] at hx
            rcases hx with hx | rfl
            · exact hi.adjPos x hx
            · omega
          · exact hi.wake
          · intro st hst
            obtain ⟨g1, g2, g3⟩ := hi.streams st hst
            refine ⟨g1, by simpa using g2, ?_⟩
            intro hc
            rw [← g3 hc]; simp [List.append_assoc]
          · exact hi.codes
        · have hb : (decide (s.rcv.winSize - s.rcv.myWindow > 3 * s.rcv.maxIncoming) || decide (s.rcv.myWindow < s.rcv.winSize / 2)) = false := by
            simpa using hthr
          simp only [hb, Bool.false_eq_true, if_false, hk0] at h
          cases h
          refine ⟨?_, rfl⟩
          constructor
          · simp only [if_true]; omega
          · simp only; omega
          · exact ⟨hW, hM⟩
          · simp only [List.length_drop, if_true]; constructor <;> (try simp) <;> omega
          · simp only [if_true]; omega
          · exact hi.ok
          · exact hi.pkts
          · intro _ _; right; exact hthr
          · simpa using hi.adjPos
          · exact hi.wake
          · intro st hst
            obtain ⟨g1, g2, g3⟩ := hi.streams st hst
            refine ⟨g1, by simpa using g2, ?_⟩
            intro hc
            rw [← g3 hc]; simp [List.append_assoc]
          · exact hi.codes
      · have hc0 : code = 0 := by omega
        subst hc0
        have hav : ¬ s.rcv.pending = 0 := by intro h0; simp [h0] at h
        simp only [Nat.zero_ne_one, if_false, hav] at h
        have hk : 0 < bufRead s.rcv.pending n ∧ bufRead s.rcv.pending n ≤ s.rcv.pending := by
          unfold bufRead; split <;> omega
        generalize hkdef : bufRead s.rcv.pending n = k at hk
        simp only [readExt, hkdef, adjustWindow, Nat.zero_ne_one, if_false] at h
        have hk0 : ¬ k = 0 := by omega
        by_cases hthr : (s.rcv.winSize - s.rcv.myWindow > 3 * s.rcv.maxIncoming) ∨ (s.rcv.myWindow < s.rcv.winSize / 2)
        · have hb : (decide (s.rcv.winSize - s.rcv.myWindow > 3 * s.rcv.maxIncoming) || decide (s.rcv.myWindow < s.rcv.winSize / 2)) = true := by
            simpa using hthr
          simp only [hb, if_true, hk0, if_false] at h
          cases h
          have hapos : ¬ (s.rcv.myConsumed + k = 0) := by omega
          refine ⟨?_, rfl⟩
          constructor
          · simp only [hapos, if_false, List.sum_append, List.sum_cons, List.sum_nil]; omega
          · simp only; omega
          · exact ⟨hW, hM⟩
          · simp only [List.length_drop, if_true]; constructor <;> (try simp) <;> omega
          · simp only [hapos, if_false, List.sum_append, List.sum_cons, List.sum_nil]; omega
          · exact hi.ok
          · exact hi.pkts
          · intro _ _; left; rfl
          · intro x hx
            simp only [hapos, if_false, List.mem_append, List.mem_singleton] at hx
            rcases hx with hx | rfl
            · exact hi.adjPos x hx
            · omega
          · exact hi.wake
          · intro st hst
            obtain ⟨g1, g2, g3⟩ := hi.streams st hst
            refine ⟨g1, ?_, by simpa using g3⟩
            intro hc
            rw [← g2 hc]; simp [List.append_assoc]
          · exact hi.codes
        · have hb : (decide (s.rcv.winSize - s.rcv.myWindow > 3 * s.rcv.maxIncoming) || decide (s.rcv.myWindow < s.rcv.winSize / 2)) = false := by
            simpa using hthr
          simp only [hb, Bool.false_eq_true, if_false, hk0] at h
          cases h
          refine ⟨?_, rfl⟩
          constructor
          · simp only [if_true]; omega
          · simp only; omega
          · exact ⟨hW, hM⟩
          · simp only [List.length_drop, if_true]; constructor <;> (try simp) <;> omega
          · simp only [if_true]; omega
          · exact hi.ok
          · exact hi.pkts
          · intro _ _; right; exact hthr
          · simpa using hi.adjPos
          · exact hi.wake
          · intro st hst
            obtain ⟨g1, g2, g3⟩ := hi.streams st hst
            refine ⟨g1, ?_, by simpa using g3⟩
            intro hc
            rw [← g2 hc]; simp [List.append_assoc]
          · exact hi.codes


theorem invC_step {W : Nat} (hW32 : W < 4294967296) {s s' : SysC} (a : ActC)
    (hmp : 0 < s.maxPayload ∧ s.maxPayload ≤ channelMaxPacket)
    (hi : InvC W s) (h : stepC unparkAll s a = some s') : InvC W s' ∧ s'.maxPayload = s.maxPayload := by
  cases a with
  | send k => exact invC_send k hmp hi h
  | deliverData => exact invC_deliverData hi h
  | read c n => exact invC_read c n hi h
  | deliverAdj => exact ⟨(invC_deliverAdj hW32 hi h).1, (invC_deliverAdj hW32 hi h).2.1⟩

/-- hypotheses under which the theorems are stated: the window fits a uint32, the peer's max packet is what this
    implementation advertises, one writer per stream -/
structure Setup (W mp : Nat) (writes : List (Nat × Bytes')) : Prop where
  w2 : 2 ≤ W
  w32 : W < 4294967296
  mp : 0 < mp ∧ mp ≤ channelMaxPacket
  codes : (writes.map (·.1)).Nodup

theorem invC_reachable {W mp : Nat} {writes : List (Nat × Bytes')} (hs : Setup W mp writes) {s : SysC}
    (h : ReachableC unparkAll (SysC.init W mp writes) s) : InvC W s ∧ s.maxPayload = mp := by
  induction h with
  | init => exact ⟨invC_init W mp writes hs.codes, rfl⟩
  | step a _ hst ih =>
    obtain ⟨hi, hm⟩ := ih
    obtain ⟨hi', hm'⟩ := invC_step hs.w32 a (by rw [hm]; exact hs.mp) hi hst
    exact ⟨hi', hm'.trans hm⟩


theorem nextPacket_spec {win mp len n w' : Nat} (h : nextPacket win mp len = some (n, w')) (hlen : 0 < len)
    (hmp : 0 < mp) : n ≤ len ∧ n ≤ win ∧ 0 < n ∧ n ≤ mp ∧ w' = win - n := by
  simp only [nextPacket, reserve, minPayloadSize] at h
  split at h
  · cases h
  · simp only [Option.some.injEq, Prod.mk.injEq] at h
    obtain ⟨hn, hw⟩ := h
    subst hn
    refine ⟨?_, ?_, ?_, ?_, hw.symm⟩ <;> (split <;> split <;> omega)

variable {W mp : Nat} {writes : List (Nat × Bytes')}

/-- credit conservation with several streams on one window -/
theorem credit_conservation_multi (hs : Setup W mp writes) {s : SysC}
    (h : ReachableC unparkAll (SysC.init W mp writes) s) :
    s.win + wireLen s.dataWire + s.adjWire.sum = s.rcv.myWindow ∧
    s.rcv.myWindow + s.rcv.myConsumed + s.unread0.length + s.unread1.length = W := by
  have hi := (invC_reachable hs h).1
  refine ⟨hi.credit, ?_⟩
  rw [← hi.pend.1, ← hi.pend.2]; exact hi.recvAcct

/-- whichever writer sends: the packet fits the credit granted so far minus the credit used by ALL streams, and the
    peer's max packet -/
theorem never_exceeds_window_multi (hs : Setup W mp writes) {s s' : SysC} (k : Nat)
    (h : ReachableC unparkAll (SysC.init W mp writes) s) (hst : stepC unparkAll s (.send k) = some s')
    (hsent : s'.used ≠ s.used) :
    ∃ c p, s'.dataWire = s.dataWire ++ [(c, p)] ∧ 0 < p.length ∧ p.length ≤ s.granted - s.used ∧ p.length ≤ mp ∧
      s'.used = s.used + p.length ∧ s'.used ≤ s'.granted := by
  obtain ⟨hi, hm⟩ := invC_reachable hs h
  have hi' := (invC_send k (by rw [hm]; exact hs.mp) hi hst).1
  simp only [stepC] at hst
  split at hst
  · cases hst
  · rename_i st hk
    split at hst
    · cases hst
    · rename_i hne
      simp only [Bool.or_eq_true, not_or, Bool.not_eq_true] at hne
      split at hst
      · cases hst; exact absurd rfl hsent
      · rename_i n win' heq
        have hlen : 0 < st.toSend.length := by
          cases hts : st.toSend with
          | nil => simp [hts] at hne
          | cons a t => simp
        obtain ⟨hn1, hn2, hn3, hn4, hn5⟩ := nextPacket_spec heq hlen (by rw [hm]; exact hs.mp.1)
        · have hnle : n ≤ st.toSend.length ∧ n ≤ s.win ∧ 0 < n ∧ n ≤ s.maxPayload := ⟨hn1, hn2, hn3, hn4⟩
          have htake : (st.toSend.take n).length = n := by simp [List.length_take]; omega
          have hw := hi.wire
          have hw' := hi'.wire
          cases hst
          refine ⟨st.code, st.toSend.take n, rfl, ?_, ?_, ?_, ?_, ?_⟩
          · omega
          · rw [htake]; omega
          · rw [htake, ← hm]; omega
          · rw [htake]
          · simp only at hw' ⊢; omega

theorem receiver_never_complains_multi (hs : Setup W mp writes) {s : SysC}
    (h : ReachableC unparkAll (SysC.init W mp writes) s) :
    s.complained = false ∧ s.overflowed = false ∧ s.rcv.myWindow ≤ W ∧ s.win ≤ W := by
  have hi := (invC_reachable hs h).1
  have := hi.credit
  have := hi.recvAcct
  exact ⟨hi.ok.1, hi.ok.2, by omega, by omega⟩

/-- per stream: what was read, what is buffered, what is in flight for THIS stream and what is still to be sent
    concatenate to what the writer was given — other streams' packets interleave on the wire without harm -/
theorem stream_integrity_multi (hs : Setup W mp writes) {s : SysC}
    (h : ReachableC unparkAll (SysC.init W mp writes) s) (st : Stream) (hst : st ∈ s.streams) :
    (st.code = 0 → s.read0 ++ s.unread0 ++ (wireOf 0 s.dataWire).flatten ++ st.toSend = st.data ∧ s.read0 <+: st.data) ∧
    (st.code = 1 → s.read1 ++ s.unread1 ++ (wireOf 1 s.dataWire).flatten ++ st.toSend = st.data ∧ s.read1 <+: st.data) := by
  have hi := (invC_reachable hs h).1
  obtain ⟨g1, g2, g3⟩ := hi.streams st hst
  constructor
  · intro hc
    have e : s.read0 ++ s.unread0 ++ (wireOf 0 s.dataWire).flatten ++ st.toSend = st.data := by rw [g2 hc]; exact g1
    refine ⟨e, ?_⟩
    rw [← e]; simp only [List.append_assoc]; exact List.prefix_append _ _
  · intro hc
    have e : s.read1 ++ s.unread1 ++ (wireOf 1 s.dataWire).flatten ++ st.toSend = st.data := by rw [g3 hc]; exact g1
    refine ⟨e, ?_⟩
    rw [← e]; simp only [List.append_assoc]; exact List.prefix_append _ _

/-- **no lost wake-up**: in every reachable state a writer sleeps in `Cond.Wait` only while the window is 0 -/
theorem no_lost_wakeup (hs : Setup W mp writes) {s : SysC}
    (h : ReachableC unparkAll (SysC.init W mp writes) s) (st : Stream) (hst : st ∈ s.streams)
    (hp : st.parked = true) : s.win = 0 :=
  (invC_reachable hs h).1.wake st hst hp

/-- **adjust_wakes_all**: handling ONE window adjust (Broadcast) wakes EVERY parked writer of the channel and leaves
    a positive window -/
theorem adjust_wakes_all (hs : Setup W mp writes) {s s' : SysC}
    (h : ReachableC unparkAll (SysC.init W mp writes) s) (hst : stepC unparkAll s .deliverAdj = some s') :
    (∀ st ∈ s'.streams, st.parked = false) ∧ 0 < s'.win := by
  have := invC_deliverAdj hs.w32 (invC_reachable hs h).1 hst
  exact ⟨this.2.2.1, this.2.2.2⟩

/-- **adjust_unblocks (every blocked writer)**: if the window is exhausted — so every writer with data is, or will
    be, parked — and the reader has drained everything sent, then an adjust is in flight; handling it wakes every
    writer, and EVERY writer that still has data can then put a packet on the wire. -/
theorem adjust_unblocks_all (hs : Setup W mp writes) {s : SysC}
    (h : ReachableC unparkAll (SysC.init W mp writes) s)
    (hblocked : s.win = 0) (hwire : s.dataWire = []) (hd0 : s.unread0 = []) (hd1 : s.unread1 = []) :
    ∃ s', stepC unparkAll s .deliverAdj = some s' ∧ 0 < s'.win ∧ (∀ st ∈ s'.streams, st.parked = false) ∧
      ∀ k st, s'.streams[k]? = some st → st.toSend ≠ [] →
        ∃ s'', stepC unparkAll s' (.send k) = some s'' ∧ s'.used < s''.used := by
  obtain ⟨hi, hm⟩ := invC_reachable hs h
  have hc := hi.credit
  have ha := hi.recvAcct
  obtain ⟨hp0, hp1⟩ := hi.pend
  obtain ⟨hW, hM⟩ := hi.consts
  simp only [hblocked, hwire, wireLen, List.map_nil, List.sum_nil, hd0, hd1, List.length_nil] at hc hp0 hp1
  have hpos : 0 < s.adjWire.sum := by
    rcases hi.drained hp0 hp1 with h0 | hnt
    · have := hs.w2; omega
    · simp only [thrM, hW, hM, not_or, Nat.not_lt] at hnt
      have : 0 < W / 2 := by have := hs.w2; omega
      omega
  cases hadj : s.adjWire with
  | nil => simp [hadj] at hpos
  | cons a rest =>
    have hex : ∃ s', stepC unparkAll s .deliverAdj = some s' := by
      simp only [stepC, hadj]
      split <;> exact ⟨_, rfl⟩
    obtain ⟨s', hs'⟩ := hex
    obtain ⟨hi', hm', hun, hwin⟩ := invC_deliverAdj hs.w32 hi hs'
    refine ⟨s', hs', hwin, hun, ?_⟩
    intro k st hk hne
    have hnp := hun st (List.mem_of_getElem? hk)
    have hlen : 0 < st.toSend.length := by
      cases hts : st.toSend with
      | nil => exact absurd hts hne
      | cons a t => simp
    have hmp' : 0 < s'.maxPayload := by rw [hm', hm]; exact hs.mp.1
    have hw0 : ¬ s'.win = 0 := by omega
    have hisE : st.toSend.isEmpty = false := by
      cases hts : st.toSend with
      | nil => exact absurd hts hne
      | cons a t => rfl
    simp only [stepC, hk, hisE, hnp, Bool.or_self, Bool.false_eq_true, if_false, nextPacket, reserve, hw0,
      minPayloadSize]
    refine ⟨_, rfl, ?_⟩
    simp only
    split <;> split <;> omega

/-! ## the seeded bug: Cond.Signal instead of Cond.Broadcast in window.add -/

/-- two writers; window 2; writer A: 3 bytes, writer B: 1 byte -/
def signalInit : SysC := SysC.init 2 9 [(0, [1, 2, 3]), (1, [9])]

/-- A takes the window, both park, the reader drains, the adjust arrives, Signal wakes only A, A finishes -/
def signalRun : List ActC :=
  [.send 0, .send 0, .send 1, .deliverData, .read 0 2, .deliverAdj, .send 0]

def runC (wake : List Stream → List Stream) : SysC → List ActC → Option SysC
  | s, [] => some s
  | s, a :: as => match stepC wake s a with
    | none => none
    | some s' => runC wake s' as

theorem reachableC_of_run {wake : List Stream → List Stream} {i s s' : SysC} (h : ReachableC wake i s)
    (as : List ActC) (hr : runC wake s as = some s') : ReachableC wake i s' := by
  induction as generalizing s with
  | nil => simp [runC] at hr; subst hr; exact h
  | cons a as ih =>
    simp only [runC] at hr
    cases hst : stepC wake s a with
    | none => simp [hst] at hr
    | some s1 => simp [hst] at hr; exact ih (.step a h hst) hr

/-- **signal_loses_wakeup**: with Signal the state "writer B parked although the window is positive" is reachable,
    and in it B can do nothing: its `send` step is disabled and nothing is in flight that could wake it — the
    invariant `no_lost_wakeup` is exactly what Broadcast buys. -/
theorem signal_loses_wakeup :
    ∃ s, ReachableC unparkFirst signalInit s ∧ 0 < s.win ∧
      (∃ st, s.streams[1]? = some st ∧ st.parked = true ∧ st.toSend ≠ []) ∧
      stepC unparkFirst s (.send 1) = none ∧ s.adjWire = [] ∧ s.dataWire.length = 1 := by
  have h : ∃ s, runC unparkFirst signalInit signalRun = some s ∧ 0 < s.win ∧
      (∃ st, s.streams[1]? = some st ∧ st.parked = true ∧ st.toSend ≠ []) ∧
      stepC unparkFirst s (.send 1) = none ∧ s.adjWire = [] ∧ s.dataWire.length = 1 := by
    simp [runC, signalRun, signalInit, SysC.init, stepC, nextPacket, reserve, minPayloadSize, handleData, Rcv.init,
      readExt, bufRead, adjustWindow, addWin, unparkFirst, channelMaxPacket, channelWindowSize]
  obtain ⟨s, hr, rest⟩ := h
  exact ⟨s, reachableC_of_run .init _ hr, rest⟩

/-- the same schedule under Broadcast: B is awake and sends -/
example : ∃ s, runC unparkAll signalInit (signalRun ++ [.send 1]) = some s ∧
    (∀ st ∈ s.streams, st.parked = false ∧ st.toSend = []) := by
  simp [runC, signalRun, signalInit, SysC.init, stepC, nextPacket, reserve, minPayloadSize, handleData, Rcv.init,
    readExt, bufRead, adjustWindow, addWin, unparkAll, channelMaxPacket, channelWindowSize]



/-! ## several channels: every channel of a connection run is a single-channel run -/

def dwOf (i : Nat) (dw : List (Nat × Nat × Bytes')) : List (Nat × Bytes') := (dw.filter (fun p => p.1 = i)).map (·.2)
def awOf (i : Nat) (aw : List (Nat × Nat)) : List Nat := (aw.filter (fun p => p.1 = i)).map (·.2)

theorem proj_eq (m : SysM) (i : Nat) :
    proj m i = (m.chans[i]?).map (fun c => { c with dataWire := dwOf i m.dataWire, adjWire := awOf i m.adjWire }) := rfl

theorem dwOf_append (i : Nat) (a b : List (Nat × Nat × Bytes')) : dwOf i (a ++ b) = dwOf i a ++ dwOf i b := by
  simp [dwOf]
theorem awOf_append (i : Nat) (a b : List (Nat × Nat)) : awOf i (a ++ b) = awOf i a ++ awOf i b := by
  simp [awOf]
theorem dwOf_tag_same (i : Nat) (l : List (Nat × Bytes')) : dwOf i (l.map (fun p => (i, p))) = l := by
  induction l with
  | nil => rfl
  | cons a t ih => simp [dwOf] at ih ⊢; exact ih
theorem dwOf_tag_ne {i ch : Nat} (l : List (Nat × Bytes')) (h : ch ≠ i) : dwOf i (l.map (fun p => (ch, p))) = [] := by
  induction l with
  | nil => rfl
  | cons a t ih => simp [dwOf, h] at ih ⊢; exact ih
theorem awOf_tag_same (i : Nat) (l : List Nat) : awOf i (l.map (fun a => (i, a))) = l := by
  induction l with
  | nil => rfl
  | cons a t ih => simp [awOf] at ih ⊢; exact ih
theorem awOf_tag_ne {i ch : Nat} (l : List Nat) (h : ch ≠ i) : awOf i (l.map (fun a => (ch, a))) = [] := by
  induction l with
  | nil => rfl
  | cons a t ih => simp [awOf, h] at ih ⊢

/-- how one channel step changes the channel's two wires -/
theorem stepC_wires {wake : List Stream → List Stream} {c c' : SysC} (a : ActC) (h : stepC wake c a = some c') :
    match a with
    | .send _ => c'.dataWire = c.dataWire ++ c'.dataWire.drop c.dataWire.length ∧ c'.adjWire = c.adjWire
    | .deliverData => (∃ x, c.dataWire = x :: c'.dataWire) ∧ c'.adjWire = c.adjWire ++ c'.adjWire.drop c.adjWire.length
    | .read _ _ => c'.dataWire = c.dataWire ∧ c'.adjWire = c.adjWire ++ c'.adjWire.drop c.adjWire.length
    | .deliverAdj => c'.dataWire = c.dataWire ∧ ∃ x, c.adjWire = x :: c'.adjWire := by
  cases a with
  | send k =>
    simp only [stepC] at h
    split at h
    · cases h
    · split at h
      · cases h
      · split at h
        · simp only [Option.some.injEq] at h; subst h; simp
        · simp only [Option.some.injEq] at h; subst h; simp
  | deliverData =>
    simp only [stepC] at h
    split at h
    · cases h
    · rename_i code p rest hw
      split at h
      · cases h; exact ⟨⟨_, hw⟩, by simp⟩
      · cases h
        refine ⟨⟨_, hw⟩, ?_⟩
        simp only
        split <;> simp
  | read code n =>
    simp only [stepC] at h
    split at h
    · cases h
    · split at h <;> (try split at h) <;>
        first
          | (cases h; done)
          | (cases h; refine ⟨rfl, ?_⟩; simp only; split <;> simp)
  | deliverAdj =>
    simp only [stepC] at h
    split at h
    · cases h
    · rename_i a rest hw
      split at h
      · cases h; exact ⟨rfl, _, hw⟩
      · cases h; exact ⟨rfl, _, hw⟩

theorem proj_some {m : SysM} {i : Nat} {c : SysC} (h : proj m i = some c) :
    ∃ c0, m.chans[i]? = some c0 ∧ c = { c0 with dataWire := dwOf i m.dataWire, adjWire := awOf i m.adjWire } := by
  rw [proj_eq] at h
  cases hc : m.chans[i]? with
  | none => simp [hc] at h
  | some c0 => simp [hc] at h; exact ⟨c0, rfl, h.symm⟩

theorem getElem?_set_same' {α : Type} {l : List α} {i : Nat} {x y : α} (h : l[i]? = some y) : (l.set i x)[i]? = some x := by
  rw [List.getElem?_set]
  have := (List.getElem?_eq_some_iff.mp h).1
  simp [this]

theorem getElem?_set_ne' {α : Type} {l : List α} {i j : Nat} {x : α} (h : i ≠ j) : (l.set i x)[j]? = l[j]? := by
  rw [List.getElem?_set]; simp [h]


theorem proj_other {m : SysM} {ch i : Nat} (x : SysC) (dw : List (Nat × Nat × Bytes')) (aw : List (Nat × Nat))
    (hne : ch ≠ i) (hd : dwOf i dw = dwOf i m.dataWire) (ha : awOf i aw = awOf i m.adjWire) :
    proj { chans := m.chans.set ch x, dataWire := dw, adjWire := aw } i = proj m i := by
  simp only [proj_eq, getElem?_set_ne' hne, hd, ha]

theorem proj_same {m : SysM} {ch : Nat} {c0 : SysC} (hc0 : m.chans[ch]? = some c0) (c' : SysC)
    (dw : List (Nat × Nat × Bytes')) (aw : List (Nat × Nat))
    (hd : dwOf ch dw = c'.dataWire) (ha : awOf ch aw = c'.adjWire) :
    proj { chans := m.chans.set ch { c' with dataWire := [], adjWire := [] }, dataWire := dw, adjWire := aw } ch
      = some c' := by
  simp only [proj_eq, getElem?_set_same' hc0, Option.map_some, hd, ha]

theorem dwOf_cons_same (i : Nat) (x : Nat × Bytes') (rest : List (Nat × Nat × Bytes')) :
    dwOf i ((i, x) :: rest) = x :: dwOf i rest := by simp [dwOf]
theorem dwOf_cons_ne {i ch : Nat} (x : Nat × Bytes') (rest : List (Nat × Nat × Bytes')) (h : ch ≠ i) :
    dwOf i ((ch, x) :: rest) = dwOf i rest := by simp [dwOf, h]
theorem awOf_cons_same (i : Nat) (x : Nat) (rest : List (Nat × Nat)) :
    awOf i ((i, x) :: rest) = x :: awOf i rest := by simp [awOf]
theorem awOf_cons_ne {i ch : Nat} (x : Nat) (rest : List (Nat × Nat)) (h : ch ≠ i) :
    awOf i ((ch, x) :: rest) = awOf i rest := by simp [awOf, h]

/-- **projection**: a step of the connection is, for every channel, either invisible or a step of that channel's
    own single-channel system -/
theorem proj_step {wake : List Stream → List Stream} {m m' : SysM} (a : ActM) (h : stepM wake m a = some m')
    (i : Nat) (ci : SysC) (hci : proj m i = some ci) :
    proj m' i = some ci ∨ ∃ a' ci', stepC wake ci a' = some ci' ∧ proj m' i = some ci' := by
  cases a with
  | send ch k =>
    simp only [stepM] at h
    split at h
    · cases h
    · rename_i c hc
      split at h
      · cases h
      · rename_i c' hst
        cases h
        obtain ⟨c0, hc0, hceq⟩ := proj_some hc
        have hcdw : dwOf ch m.dataWire = c.dataWire := by rw [hceq]
        have hcaw : awOf ch m.adjWire = c.adjWire := by rw [hceq]
        have hw := stepC_wires (.send k) hst
        simp only at hw
        by_cases hi : ch = i
        · subst hi
          rw [hc] at hci; cases hci
          right
          refine ⟨.send k, c', hst, ?_⟩
          apply proj_same hc0
          · rw [dwOf_append, dwOf_tag_same]
            rw [hcdw]; exact hw.1.symm
          · rw [hcaw]; exact hw.2.symm
        · left
          rw [proj_other _ _ _ hi (by rw [dwOf_append, dwOf_tag_ne _ hi]; simp) rfl]
          exact hci
  | deliverData =>
    simp only [stepM] at h
    split at h
    · cases h
    · rename_i ch x rest hwire
      split at h
      · cases h
      · rename_i c hc
        split at h
        · cases h
        · rename_i c' hst
          cases h
          obtain ⟨c0, hc0, hceq⟩ := proj_some hc
          have hcdw : dwOf ch m.dataWire = c.dataWire := by rw [hceq]
          have hcaw : awOf ch m.adjWire = c.adjWire := by rw [hceq]
          have hw := stepC_wires .deliverData hst
          simp only at hw
          have hcd : c.dataWire = x :: dwOf ch rest := by rw [hceq, hwire]; exact dwOf_cons_same ch x rest
          by_cases hi : ch = i
          · subst hi
            rw [hc] at hci; cases hci
            right
            refine ⟨.deliverData, c', hst, ?_⟩
            apply proj_same hc0
            · obtain ⟨y, hy⟩ := hw.1
              rw [hcd] at hy
              exact (List.cons.inj hy).2
            · rw [awOf_append, awOf_tag_same]
              rw [hcaw]; exact hw.2.symm
          · left
            rw [proj_other _ _ _ hi (by rw [hwire, dwOf_cons_ne _ _ hi])
              (by rw [awOf_append, awOf_tag_ne _ hi]; simp)]
            exact hci
  | read ch code n =>
    simp only [stepM] at h
    split at h
    · cases h
    · rename_i c hc
      split at h
      · cases h
      · rename_i c' hst
        cases h
        obtain ⟨c0, hc0, hceq⟩ := proj_some hc
        have hcdw : dwOf ch m.dataWire = c.dataWire := by rw [hceq]
        have hcaw : awOf ch m.adjWire = c.adjWire := by rw [hceq]
        have hw := stepC_wires (.read code n) hst
        simp only at hw
        by_cases hi : ch = i
        · subst hi
          rw [hc] at hci; cases hci
          right
          refine ⟨.read code n, c', hst, ?_⟩
          apply proj_same hc0
          · rw [hcdw]; exact hw.1.symm
          · rw [awOf_append, awOf_tag_same]
            rw [hcaw]; exact hw.2.symm
        · left
          rw [proj_other _ _ _ hi rfl (by rw [awOf_append, awOf_tag_ne _ hi]; simp)]
          exact hci
  | deliverAdj =>
    simp only [stepM] at h
    split at h
    · cases h
    · rename_i ch x rest hwire
      split at h
      · cases h
      · rename_i c hc
        split at h
        · cases h
        · rename_i c' hst
          cases h
          obtain ⟨c0, hc0, hceq⟩ := proj_some hc
          have hcdw : dwOf ch m.dataWire = c.dataWire := by rw [hceq]
          have hcaw : awOf ch m.adjWire = c.adjWire := by rw [hceq]
          have hw := stepC_wires .deliverAdj hst
          simp only at hw
          have hca : c.adjWire = x :: awOf ch rest := by rw [hceq, hwire]; exact awOf_cons_same ch x rest
          by_cases hi : ch = i
          · subst hi
            rw [hc] at hci; cases hci
            right
            refine ⟨.deliverAdj, c', hst, ?_⟩
            apply proj_same hc0
            · rw [hcdw]; exact hw.1.symm
            · obtain ⟨y, hy⟩ := hw.2
              rw [hca] at hy
              exact (List.cons.inj hy).2
          · left
            rw [proj_other _ _ _ hi rfl (by rw [hwire, awOf_cons_ne _ _ hi])]
            exact hci

/-- every channel of a reachable connection state is a reachable state of its own single-channel system -/
theorem reachableC_of_reachableM {wake : List Stream → List Stream} {m0 m : SysM} (h : ReachableM wake m0 m)
    (i : Nat) (c0 : SysC) (hc0 : proj m0 i = some c0) :
    ∃ c, proj m i = some c ∧ ReachableC wake c0 c := by
  induction h with
  | init => exact ⟨c0, hc0, .init⟩
  | step a _ hst ih =>
    obtain ⟨c, hc, hr⟩ := ih
    rcases proj_step a hst i c hc with h1 | ⟨a', c', hs', h1⟩
    · exact ⟨c, h1, hr⟩
    · exact ⟨c', h1, .step a' hr hs'⟩

theorem proj_init (W : Nat) (chs : List (Nat × List (Nat × Bytes'))) (i : Nat) (mp : Nat) (ws : List (Nat × Bytes'))
    (h : chs[i]? = some (mp, ws)) : proj (SysM.init W chs) i = some (SysC.init W mp ws) := by
  simp [proj, SysM.init, h, SysC.init]


/-- set-up of a connection: every channel satisfies `Setup` -/
def SetupM (W : Nat) (chs : List (Nat × List (Nat × Bytes'))) : Prop :=
  ∀ c ∈ chs, Setup W c.1 c.2

/-- each channel of a connection run, seen through `proj`, is a run of the single-channel system -/
theorem channel_run_of_connection_run {W : Nat} {chs : List (Nat × List (Nat × Bytes'))} {m : SysM}
    (h : ReachableM unparkAll (SysM.init W chs) m) (i mp : Nat) (ws : List (Nat × Bytes'))
    (hi : chs[i]? = some (mp, ws)) :
    ∃ c, proj m i = some c ∧ ReachableC unparkAll (SysC.init W mp ws) c :=
  reachableC_of_reachableM h i _ (proj_init W chs i mp ws hi)

/-- credit conservation per channel on the SHARED wires: only the channel's own packets / adjusts count -/
theorem credit_conservation_conn {W : Nat} {chs : List (Nat × List (Nat × Bytes'))} (hs : SetupM W chs) {m : SysM}
    (h : ReachableM unparkAll (SysM.init W chs) m) (i mp : Nat) (ws : List (Nat × Bytes'))
    (hi : chs[i]? = some (mp, ws)) :
    ∃ c, m.chans[i]? = some c ∧
      c.win + wireLen (dwOf i m.dataWire) + (awOf i m.adjWire).sum = c.rcv.myWindow ∧
      c.rcv.myWindow + c.rcv.myConsumed + c.unread0.length + c.unread1.length = W ∧
      c.complained = false ∧ c.overflowed = false ∧
      (∀ st ∈ c.streams, st.parked = true → c.win = 0) := by
  obtain ⟨c, hc, hr⟩ := channel_run_of_connection_run h i mp ws hi
  have hset := hs _ (List.mem_of_getElem? hi)
  obtain ⟨c0, hc0, hceq⟩ := proj_some hc
  have h1 := credit_conservation_multi hset hr
  have h2 := receiver_never_complains_multi hset hr
  have h3 := fun st hst hp => no_lost_wakeup hset hr st hst hp
  subst hceq
  exact ⟨c0, hc0, h1.1, h1.2, h2.1, h2.2.1, h3⟩

/-- a data packet put on the shared wire by channel `ch` fits THAT channel's credit and max packet, whatever the
    other channels are doing -/
theorem never_exceeds_window_conn {W : Nat} {chs : List (Nat × List (Nat × Bytes'))} (hs : SetupM W chs) {m m' : SysM}
    (h : ReachableM unparkAll (SysM.init W chs) m) (ch k mp : Nat) (ws : List (Nat × Bytes'))
    (hi : chs[ch]? = some (mp, ws)) (hst : stepM unparkAll m (.send ch k) = some m') :
    ∃ c c', proj m ch = some c ∧ proj m' ch = some c' ∧
      (c'.used ≠ c.used → ∃ code p, m'.dataWire = m.dataWire ++ [(ch, code, p)] ∧ 0 < p.length ∧
        p.length ≤ c.granted - c.used ∧ p.length ≤ mp ∧ c'.used ≤ c'.granted) := by
  obtain ⟨c, hc, hr⟩ := channel_run_of_connection_run h ch mp ws hi
  have hset := hs _ (List.mem_of_getElem? hi)
  simp only [stepM, hc] at hst
  split at hst
  · cases hst
  · rename_i c' hstc
    cases hst
    obtain ⟨c0, hc0, hceq⟩ := proj_some hc
    have hw := stepC_wires (.send k) hstc
    simp only at hw
    refine ⟨c, c', hc, ?_, ?_⟩
    · apply proj_same hc0
      · rw [dwOf_append, dwOf_tag_same]
        have : dwOf ch m.dataWire = c.dataWire := by rw [hceq]
        rw [this]; exact hw.1.symm
      · have : awOf ch m.adjWire = c.adjWire := by rw [hceq]
        rw [this]; exact hw.2.symm
    intro hused
    obtain ⟨code, p, hdw, hp0, hp1, hp2, _, hp4⟩ := never_exceeds_window_multi hset k hr hstc hused
    refine ⟨code, p, ?_, hp0, hp1, hp2, hp4⟩
    simp only [hdw, List.drop_left, List.map_cons, List.map_nil]

/-- per-stream integrity on a shared connection -/
theorem stream_integrity_conn {W : Nat} {chs : List (Nat × List (Nat × Bytes'))} (hs : SetupM W chs) {m : SysM}
    (h : ReachableM unparkAll (SysM.init W chs) m) (i mp : Nat) (ws : List (Nat × Bytes'))
    (hi : chs[i]? = some (mp, ws)) :
    ∃ c, m.chans[i]? = some c ∧ ∀ st ∈ c.streams,
      (st.code = 0 → c.read0 ++ c.unread0 ++ (wireOf 0 (dwOf i m.dataWire)).flatten ++ st.toSend = st.data ∧
        c.read0 <+: st.data) ∧
      (st.code = 1 → c.read1 ++ c.unread1 ++ (wireOf 1 (dwOf i m.dataWire)).flatten ++ st.toSend = st.data ∧
        c.read1 <+: st.data) := by
  obtain ⟨c, hc, hr⟩ := channel_run_of_connection_run h i mp ws hi
  have hset := hs _ (List.mem_of_getElem? hi)
  obtain ⟨c0, hc0, hceq⟩ := proj_some hc
  have h1 := fun st hst => stream_integrity_multi hset hr st hst
  subst hceq
  exact ⟨c0, hc0, h1⟩

end XC.C35

namespace XC.C35

theorem reachableS_of_run {i s s' : SysS} (h : ReachableS i s) (as : List ActS) (hr : runS s as = some s') :
    ReachableS i s' := by
  induction as generalizing s with
  | nil => simp [runS] at hr; subst hr; exact h
  | cons a as ih =>
    simp only [runS] at hr
    cases hst : stepS s a with
    | none => simp [hst] at hr
    | some s1 => simp [hst] at hr; exact ih (.step a h hst) hr

/-- window 2, one writer with 3 bytes: the sender uses the window, the reader reads and ADVERTISES 2 more bytes
    without having credited them yet, the compliant sender uses the grant, the data arrives first -/
def splitInit : SysS := ⟨SysC.init 2 9 [(0, [1, 2, 3])], 0⟩
def splitRun : List ActS :=
  [.base (.send 0), .base .deliverData, .readAdvertise 0 2, .base .deliverAdj, .base (.send 0), .base .deliverData]

/-- **adjust_must_be_atomic**: in the LTS where the window adjust goes on the wire BEFORE `myWindow` is credited, a
    COMPLIANT sender (the model's own `send`, which never exceeds the credit it was granted) drives the receiver into
    its "remote side wrote too much" branch: `receiver_never_complains` fails.  With the atomic `adjustWindow` of
    `stepC` the same property is a theorem (`receiver_never_complains_multi`) — so "advertise + credit in one critical
    section" is a proof obligation of C35, not an implementation detail. -/
theorem adjust_must_be_atomic :
    ∃ s, ReachableS splitInit s ∧ s.c.complained = true ∧ s.uncredited = 2 ∧ s.c.used ≤ s.c.granted := by
  have h : ∃ s, runS splitInit splitRun = some s ∧ s.c.complained = true ∧ s.uncredited = 2 ∧ s.c.used ≤ s.c.granted := by
    simp [runS, splitRun, splitInit, stepS, SysC.init, stepC, nextPacket, reserve, minPayloadSize, handleData, Rcv.init,
      readExt, bufRead, adjustWindow, addWin, unparkAll, channelMaxPacket, channelWindowSize]
  obtain ⟨s, hr, rest⟩ := h
  exact ⟨s, reachableS_of_run .init _ hr, rest⟩

/-- crediting in time (the `credit` step before the data arrives) avoids it: the same schedule with `credit` inserted -/
example : ∃ s, runS splitInit [.base (.send 0), .base .deliverData, .readAdvertise 0 2, .credit, .base .deliverAdj,
    .base (.send 0), .base .deliverData] = some s ∧ s.c.complained = false := by
  simp [runS, splitInit, stepS, SysC.init, stepC, nextPacket, reserve, minPayloadSize, handleData, Rcv.init,
    readExt, bufRead, adjustWindow, addWin, unparkAll, channelMaxPacket, channelWindowSize]

end XC.C35
