/-
  C35 — invariants of the multi-stream channel LTS `stepC` (Broadcast wake semantics) and their lifting to the
  multi-channel LTS `stepM` by projection.
-/
import XC.Model.C35_Multi
namespace XC.C35

/-- the threshold test of adjustWindow -/
def thrM (r : Rcv) : Prop := r.winSize - r.myWindow > 3 * r.maxIncoming ∨ r.myWindow < r.winSize / 2

structure InvC (W : Nat) (s : SysC) : Prop where
  /-- credit conservation: one window for all streams of the channel -/
  credit : s.win + wireLen s.dataWire + s.adjWire.sum = s.rcv.myWindow
  recvAcct : s.rcv.myWindow + s.rcv.myConsumed + s.rcv.pending + s.rcv.extPending = W
  consts : s.rcv.winSize = W ∧ s.rcv.maxIncoming = channelMaxPacket
  pend : s.rcv.pending = s.unread0.length ∧ s.rcv.extPending = s.unread1.length
  wire : s.win + s.adjWire.sum + s.used = s.granted
  ok : s.complained = false ∧ s.overflowed = false
  pkts : ∀ p ∈ s.dataWire, 0 < p.2.length ∧ p.2.length ≤ channelMaxPacket
  drained : s.rcv.pending = 0 → s.rcv.extPending = 0 → s.rcv.myConsumed = 0 ∨ ¬ thrM s.rcv
  adjPos : ∀ a ∈ s.adjWire, 0 < a
  /-- no lost wake-up: a writer sleeps in Cond.Wait only while the window is empty -/
  wake : ∀ st ∈ s.streams, st.parked = true → s.win = 0
  streams : ∀ st ∈ s.streams, st.sent ++ st.toSend = st.data ∧
    (st.code = 0 → s.read0 ++ s.unread0 ++ (wireOf 0 s.dataWire).flatten = st.sent) ∧
    (st.code = 1 → s.read1 ++ s.unread1 ++ (wireOf 1 s.dataWire).flatten = st.sent)
  codes : (s.streams.map (·.code)).Nodup

theorem wireLen_append (a b : List (Nat × Bytes')) : wireLen (a ++ b) = wireLen a + wireLen b := by
  simp [wireLen]

theorem wireOf_append (c : Nat) (a b : List (Nat × Bytes')) : wireOf c (a ++ b) = wireOf c a ++ wireOf c b := by
  simp [wireOf]

theorem invC_init (W mp : Nat) (writes : List (Nat × Bytes')) (hc : (writes.map (·.1)).Nodup) :
    InvC W (SysC.init W mp writes) := by
  constructor
  · simp [SysC.init, wireLen]
  · simp [SysC.init, Rcv.init]
  · simp [SysC.init, Rcv.init]
  · simp [SysC.init, Rcv.init]
  · simp [SysC.init]
  · simp [SysC.init]
  · simp [SysC.init]
  · intro _ _; left; simp [SysC.init, Rcv.init]
  · simp [SysC.init]
  · intro st hst; simp [SysC.init] at hst; obtain ⟨a, b, _, rfl⟩ := hst; simp
  · intro st hst
    simp [SysC.init] at hst
    obtain ⟨a, b, _, rfl⟩ := hst
    simp [SysC.init, wireOf]
  · simpa [SysC.init, List.map_map, Function.comp_def] using hc

theorem mem_set_cases {α : Type} {l : List α} {k : Nat} {x y : α} (h : x ∈ l.set k y) :
    x = y ∨ ∃ j, j ≠ k ∧ l[j]? = some x := by
  rw [List.mem_iff_getElem?] at h
  obtain ⟨j, hj⟩ := h
  rw [List.getElem?_set] at hj
  split at hj
  · split at hj
    · simp at hj; exact Or.inl hj.symm
    · simp at hj
  · rename_i hne
    exact Or.inr ⟨j, fun e => hne e.symm, hj⟩

theorem nodup_codes_ne {ss : List Stream} (h : (ss.map (·.code)).Nodup) {j k : Nat} {a b : Stream}
    (hj : ss[j]? = some a) (hk : ss[k]? = some b) (hne : j ≠ k) : a.code ≠ b.code := by
  intro heq
  have h1 : (ss.map (·.code))[j]? = some a.code := by simp [hj]
  have h2 : (ss.map (·.code))[k]? = some b.code := by simp [hk]
  rw [heq] at h1
  have hlt : j < (ss.map (·.code)).length := (List.getElem?_eq_some_iff.mp h1).1
  exact hne ((List.getElem?_inj hlt h).mp (h1.trans h2.symm))

end XC.C35
