/-
  C08 — the Go-shaped Keccak-f[1600] (Model/C08_KeccakfGo.lean, GENERATED from
  sha3/legacy_keccakf.go: 4 rounds per loop iteration, Keccak-inplace lane scheduling) equals the
  FIPS 202 model `keccakF` (θ ρ π χ ι written from the standard).

  After round k of an iteration the Go code keeps spec lane `q_k[i]` at array position `i`
  (`view k`); after the 4th round the placement is the identity again.
-/
import XC.Model.C08_KeccakfGo
set_option linter.unusedSimpArgs false
namespace XC.C08.KGo
open XC.C08

/-! ### lanes of the FIPS step functions -/

theorem getD_ofFn {n : Nat} (f : Fin n → UInt64) (i : Nat) (h : i < n) :
    (Array.ofFn f).getD i 0 = f ⟨i, h⟩ := by
  simp [Array.getD, h]

theorem rotl64_zero (v : UInt64) : rotl64 v 0 = v := by
  simp [rotl64]

theorem rotl64_one (v : UInt64) : (v <<< 1) ||| (v >>> 63) = rotl64 v 1 := by
  simp [rotl64]

/-- column parity C[x] -/
def colPar (a : Lanes) (x : Nat) : UInt64 :=
  lane a x 0 ^^^ lane a x 1 ^^^ lane a x 2 ^^^ lane a x 3 ^^^ lane a x 4

theorem theta_lane (a : Lanes) (i : Nat) (h : i < 25) :
    (theta a).getD i 0 =
      a.getD i 0 ^^^ (colPar a ((i % 5 + 4) % 5) ^^^ rotl64 (colPar a ((i % 5 + 1) % 5)) 1) := by
  unfold theta
  simp only
  rw [getD_ofFn _ i h]
  simp only
  rw [getD_ofFn _ (i % 5) (Nat.mod_lt _ (by decide))]
  simp only
  rw [getD_ofFn _ ((i % 5 + 4) % 5) (Nat.mod_lt _ (by decide)),
    getD_ofFn _ ((i % 5 + 1) % 5) (Nat.mod_lt _ (by decide))]
  rfl

theorem rhoPi_lane (a : Lanes) (i : Nat) (h : i < 25) :
    (rhoPi a).getD i 0 =
      rotl64 (lane a ((i % 5 + 3 * (i / 5)) % 5) (i % 5))
        (rhoOff.getD ((i % 5 + 3 * (i / 5)) % 5 + 5 * (i % 5)) 0) := by
  unfold rhoPi
  rw [getD_ofFn _ i h]

theorem chi_lane (b : Lanes) (i : Nat) (h : i < 25) :
    (chi b).getD i 0 =
      lane b (i % 5) (i / 5) ^^^ (~~~ (lane b (i % 5 + 1) (i / 5)) &&& lane b (i % 5 + 2) (i / 5)) := by
  unfold chi
  rw [getD_ofFn _ i h]

theorem theta_size (a : Lanes) : (theta a).size = 25 := by simp [theta]
theorem rhoPi_size (a : Lanes) : (rhoPi a).size = 25 := by simp [rhoPi]
theorem chi_size (a : Lanes) : (chi a).size = 25 := by simp [chi]

theorem iota_lane0 (ir : Nat) (a : Lanes) (h : 0 < a.size) :
    (iota ir a).getD 0 0 = a.getD 0 0 ^^^ rc.getD ir 0 := by
  simp [iota, Array.getD, h]

theorem iota_lane (ir : Nat) (a : Lanes) (i : Nat) (h : i ≠ 0) :
    (iota ir a).getD i 0 = a.getD i 0 := by
  simp only [iota, Array.getD_eq_getD_getElem?]
  rw [Array.getElem?_setIfInBounds_ne (by omega)]

theorem round_size (a : Lanes) (ir : Nat) : (round a ir).size = 25 := by
  simp [round, iota, chi_size]

theorem lane_eq (a : Lanes) (x y : Nat) : lane a x y = a.getD (x % 5 + 5 * (y % 5)) 0 := rfl

theorem rhoOff_0 : rhoOff.getD 0 0 = 0 := by rfl
theorem rhoOff_1 : rhoOff.getD 1 0 = 1 := by rfl
theorem rhoOff_2 : rhoOff.getD 2 0 = 62 := by rfl
theorem rhoOff_3 : rhoOff.getD 3 0 = 28 := by rfl
theorem rhoOff_4 : rhoOff.getD 4 0 = 27 := by rfl
theorem rhoOff_5 : rhoOff.getD 5 0 = 36 := by rfl
theorem rhoOff_6 : rhoOff.getD 6 0 = 44 := by rfl
theorem rhoOff_7 : rhoOff.getD 7 0 = 6 := by rfl
theorem rhoOff_8 : rhoOff.getD 8 0 = 55 := by rfl
theorem rhoOff_9 : rhoOff.getD 9 0 = 20 := by rfl
theorem rhoOff_10 : rhoOff.getD 10 0 = 3 := by rfl
theorem rhoOff_11 : rhoOff.getD 11 0 = 10 := by rfl
theorem rhoOff_12 : rhoOff.getD 12 0 = 43 := by rfl
theorem rhoOff_13 : rhoOff.getD 13 0 = 25 := by rfl
theorem rhoOff_14 : rhoOff.getD 14 0 = 39 := by rfl
theorem rhoOff_15 : rhoOff.getD 15 0 = 41 := by rfl
theorem rhoOff_16 : rhoOff.getD 16 0 = 45 := by rfl
theorem rhoOff_17 : rhoOff.getD 17 0 = 15 := by rfl
theorem rhoOff_18 : rhoOff.getD 18 0 = 21 := by rfl
theorem rhoOff_19 : rhoOff.getD 19 0 = 8 := by rfl
theorem rhoOff_20 : rhoOff.getD 20 0 = 18 := by rfl
theorem rhoOff_21 : rhoOff.getD 21 0 = 2 := by rfl
theorem rhoOff_22 : rhoOff.getD 22 0 = 61 := by rfl
theorem rhoOff_23 : rhoOff.getD 23 0 = 56 := by rfl
theorem rhoOff_24 : rhoOff.getD 24 0 = 14 := by rfl

/-- lanes in natural order (before round 1 / after round 4) -/
def view0 (S : Lanes) : L25 :=
  ⟨S.getD 0 0, S.getD 1 0, S.getD 2 0, S.getD 3 0, S.getD 4 0, S.getD 5 0, S.getD 6 0, S.getD 7 0, S.getD 8 0, S.getD 9 0, S.getD 10 0, S.getD 11 0, S.getD 12 0, S.getD 13 0, S.getD 14 0, S.getD 15 0, S.getD 16 0, S.getD 17 0, S.getD 18 0, S.getD 19 0, S.getD 20 0, S.getD 21 0, S.getD 22 0, S.getD 23 0, S.getD 24 0⟩

/-- placement after round 1: position i holds spec lane q₁[i] -/
def view1 (S : Lanes) : L25 :=
  ⟨S.getD 0 0, S.getD 11 0, S.getD 22 0, S.getD 8 0, S.getD 19 0, S.getD 15 0, S.getD 1 0, S.getD 12 0, S.getD 23 0, S.getD 9 0, S.getD 5 0, S.getD 16 0, S.getD 2 0, S.getD 13 0, S.getD 24 0, S.getD 20 0, S.getD 6 0, S.getD 17 0, S.getD 3 0, S.getD 14 0, S.getD 10 0, S.getD 21 0, S.getD 7 0, S.getD 18 0, S.getD 4 0⟩

/-- placement after round 2 -/
def view2 (S : Lanes) : L25 :=
  ⟨S.getD 0 0, S.getD 16 0, S.getD 7 0, S.getD 23 0, S.getD 14 0, S.getD 20 0, S.getD 11 0, S.getD 2 0, S.getD 18 0, S.getD 9 0, S.getD 15 0, S.getD 6 0, S.getD 22 0, S.getD 13 0, S.getD 4 0, S.getD 10 0, S.getD 1 0, S.getD 17 0, S.getD 8 0, S.getD 24 0, S.getD 5 0, S.getD 21 0, S.getD 12 0, S.getD 3 0, S.getD 19 0⟩

/-- placement after round 3 -/
def view3 (S : Lanes) : L25 :=
  ⟨S.getD 0 0, S.getD 6 0, S.getD 12 0, S.getD 18 0, S.getD 24 0, S.getD 10 0, S.getD 16 0, S.getD 22 0, S.getD 3 0, S.getD 9 0, S.getD 20 0, S.getD 1 0, S.getD 7 0, S.getD 13 0, S.getD 19 0, S.getD 5 0, S.getD 11 0, S.getD 17 0, S.getD 23 0, S.getD 4 0, S.getD 15 0, S.getD 21 0, S.getD 2 0, S.getD 8 0, S.getD 14 0⟩


/-! ### one round of the generated code = one FIPS round, up to the lane placement -/

theorem round_lane0 (S : Lanes) (ir : Nat) :
    (round S ir).getD 0 0 = (chi (rhoPi (theta S))).getD 0 0 ^^^ rc.getD ir 0 := by
  unfold round
  rw [iota_lane0 _ _ (by rw [chi_size]; decide)]

theorem round_laneS (S : Lanes) (ir i : Nat) (h : i ≠ 0) :
    (round S ir).getD i 0 = (chi (rhoPi (theta S))).getD i 0 := by
  unfold round
  rw [iota_lane _ _ _ h]

/-- evaluate one lane of χ∘π∘ρ∘θ symbolically and compare with the expression the Go statements build -/
macro "keccak_lane" : tactic => `(tactic|
  simp (disch := decide) only [round_lane0, round_laneS, chi_lane, rhoPi_lane, theta_lane, lane_eq, colPar,
    Nat.reduceMod, Nat.reduceDiv, Nat.reduceMul, Nat.reduceAdd, rotl64_one, rotl64_zero, ne_eq,
    rhoOff_0, rhoOff_1, rhoOff_2, rhoOff_3, rhoOff_4, rhoOff_5, rhoOff_6, rhoOff_7, rhoOff_8, rhoOff_9, rhoOff_10, rhoOff_11, rhoOff_12, rhoOff_13, rhoOff_14, rhoOff_15, rhoOff_16, rhoOff_17, rhoOff_18, rhoOff_19, rhoOff_20, rhoOff_21, rhoOff_22, rhoOff_23, rhoOff_24])

set_option maxHeartbeats 4000000 in
theorem round1_eq (S : Lanes) (ir : Nat) (r1 r2 r3 : UInt64) :
    round1 (rc.getD ir 0) r1 r2 r3 (view0 S) = view1 (round S ir) := by
  simp only [round1, view0, view1, L25.mk.injEq]
  refine ⟨?_, ?_, ?_, ?_, ?_, ?_, ?_, ?_, ?_, ?_, ?_, ?_, ?_, ?_, ?_, ?_, ?_, ?_, ?_, ?_, ?_, ?_, ?_, ?_, ?_⟩
  all_goals (keccak_lane <;> ac_rfl)

set_option maxHeartbeats 4000000 in
theorem round2_eq (S : Lanes) (ir : Nat) (r0 r2 r3 : UInt64) :
    round2 r0 (rc.getD ir 0) r2 r3 (view1 S) = view2 (round S ir) := by
  simp only [round2, view1, view2, L25.mk.injEq]
  refine ⟨?_, ?_, ?_, ?_, ?_, ?_, ?_, ?_, ?_, ?_, ?_, ?_, ?_, ?_, ?_, ?_, ?_, ?_, ?_, ?_, ?_, ?_, ?_, ?_, ?_⟩
  all_goals (keccak_lane <;> ac_rfl)

set_option maxHeartbeats 4000000 in
theorem round3_eq (S : Lanes) (ir : Nat) (r0 r1 r3 : UInt64) :
    round3 r0 r1 (rc.getD ir 0) r3 (view2 S) = view3 (round S ir) := by
  simp only [round3, view2, view3, L25.mk.injEq]
  refine ⟨?_, ?_, ?_, ?_, ?_, ?_, ?_, ?_, ?_, ?_, ?_, ?_, ?_, ?_, ?_, ?_, ?_, ?_, ?_, ?_, ?_, ?_, ?_, ?_, ?_⟩
  all_goals (keccak_lane <;> ac_rfl)

set_option maxHeartbeats 4000000 in
theorem round4_eq (S : Lanes) (ir : Nat) (r0 r1 r2 : UInt64) :
    round4 r0 r1 r2 (rc.getD ir 0) (view3 S) = view0 (round S ir) := by
  simp only [round4, view3, view0, L25.mk.injEq]
  refine ⟨?_, ?_, ?_, ?_, ?_, ?_, ?_, ?_, ?_, ?_, ?_, ?_, ?_, ?_, ?_, ?_, ?_, ?_, ?_, ?_, ?_, ?_, ?_, ?_, ?_⟩
  all_goals (keccak_lane <;> ac_rfl)

/-- one loop iteration of the Go code = four FIPS rounds -/
theorem body_eq (S : Lanes) (i0 i1 i2 i3 : Nat) :
    body (rc.getD i0 0) (rc.getD i1 0) (rc.getD i2 0) (rc.getD i3 0) (view0 S) =
      view0 (round (round (round (round S i0) i1) i2) i3) := by
  unfold body
  rw [round1_eq, round2_eq, round3_eq, round4_eq]

/-- the round constants written in the Go file are the model's (which equal the FIPS 202 LFSR ones) -/
theorem rcGo_eq : rcGo = rc := by rfl

/-- **the generated Go-shaped permutation is Keccak-f[1600]**: all 24 rounds, for every state -/
theorem keccakfGo_eq (S : Lanes) : keccakfGo (view0 S) = view0 (keccakF S) := by
  unfold keccakfGo keccakF
  rw [rcGo_eq]
  have h6 : List.range 6 = [0, 1, 2, 3, 4, 5] := by rfl
  have h24 : List.range 24 =
      [0, 1, 2, 3, 4, 5, 6, 7, 8, 9, 10, 11, 12, 13, 14, 15, 16, 17, 18, 19, 20, 21, 22, 23] := by rfl
  rw [h6, h24]
  simp only [List.foldl_cons, List.foldl_nil, Nat.reduceMul, Nat.reduceAdd]
  rw [body_eq, body_eq, body_eq, body_eq, body_eq, body_eq]

/-- lanes back to an array -/
def toArr (s : L25) : Lanes :=
  #[s.a0, s.a1, s.a2, s.a3, s.a4, s.a5, s.a6, s.a7, s.a8, s.a9, s.a10, s.a11, s.a12, s.a13, s.a14, s.a15,
    s.a16, s.a17, s.a18, s.a19, s.a20, s.a21, s.a22, s.a23, s.a24]

theorem toArr_view0 (R : Lanes) (h : R.size = 25) : toArr (view0 R) = R := by
  apply Array.ext
  · simp [toArr, h]
  · intro i h1 h2
    have hi : i < 25 := by simpa [toArr] using h1
    have : ∀ j : Fin 25, (toArr (view0 R)).getD j.val 0 = R.getD j.val 0 := by
      intro j
      match j with
      | ⟨0, _⟩ | ⟨1, _⟩ | ⟨2, _⟩ | ⟨3, _⟩ | ⟨4, _⟩ | ⟨5, _⟩ | ⟨6, _⟩ | ⟨7, _⟩ | ⟨8, _⟩ | ⟨9, _⟩
      | ⟨10, _⟩ | ⟨11, _⟩ | ⟨12, _⟩ | ⟨13, _⟩ | ⟨14, _⟩ | ⟨15, _⟩ | ⟨16, _⟩ | ⟨17, _⟩ | ⟨18, _⟩ | ⟨19, _⟩
      | ⟨20, _⟩ | ⟨21, _⟩ | ⟨22, _⟩ | ⟨23, _⟩ | ⟨24, _⟩ => rfl
      | ⟨n + 25, hlt⟩ => exact absurd hlt (by omega)
    have := this ⟨i, hi⟩
    simpa [Array.getD, h1, h2] using this

theorem keccakF_size (S : Lanes) : (keccakF S).size = 25 := by
  unfold keccakF
  have h24 : List.range 24 = List.range 23 ++ [23] := by rfl
  rw [h24, List.foldl_append]
  simp [round_size]

/-- array form: running the Go-shaped code on the 25 lanes of `S` gives `keccakF S` -/
theorem keccakfGo_arr (S : Lanes) : toArr (keccakfGo (view0 S)) = keccakF S := by
  rw [keccakfGo_eq, toArr_view0 _ (keccakF_size S)]

end XC.C08.KGo
