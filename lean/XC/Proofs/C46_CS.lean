/-
  C46 — clearsign: the dashEscaper automaton computes the canonical lines (escaped text and signed
  bytes); Decode's text loop undoes the escaping; the canonical-text hash is the identity on the
  signed bytes.
-/
import XC.Model.C46
namespace XC.C46
open XC

/-! ### splitLF facts -/

def noLF (l : Bytes) : Prop := ∀ b ∈ l, b ≠ LF

theorem splitLF_some {s l r : Bytes} (h : splitLF s = (l, some r)) : s = l ++ LF :: r ∧ noLF l := by
  induction s generalizing l with
  | nil => simp [splitLF] at h
  | cons b t ih =>
    unfold splitLF at h
    by_cases hb : b == LF
    · simp only [hb, ↓reduceIte, Prod.mk.injEq, Option.some.injEq] at h
      obtain ⟨rfl, rfl⟩ := h
      have : b = LF := by simpa using hb
      subst this
      exact ⟨rfl, by intro x hx; simp at hx⟩
    · simp only [hb, Bool.false_eq_true, ↓reduceIte, Prod.mk.injEq] at h
      obtain ⟨rfl, h2⟩ := h
      have := ih (l := (splitLF t).1) (by rw [← h2])
      refine ⟨by rw [List.cons_append, ← this.1], ?_⟩
      intro x hx
      rcases List.mem_cons.1 hx with rfl | hx
      · simpa using hb
      · exact this.2 x hx

theorem splitLF_none {s l : Bytes} (h : splitLF s = (l, none)) : s = l ∧ noLF l := by
  induction s generalizing l with
  | nil => simp [splitLF] at h; subst h; exact ⟨rfl, by intro x hx; simp at hx⟩
  | cons b t ih =>
    unfold splitLF at h
    by_cases hb : b == LF
    · simp [hb] at h
    · simp only [hb, Bool.false_eq_true, ↓reduceIte, Prod.mk.injEq] at h
      obtain ⟨rfl, h2⟩ := h
      have := ih (l := (splitLF t).1) (by rw [← h2])
      refine ⟨by rw [← this.1], ?_⟩
      intro x hx
      rcases List.mem_cons.1 hx with rfl | hx
      · simpa using hb
      · exact this.2 x hx

theorem splitLF_append {l : Bytes} (r : Bytes) (h : noLF l) : splitLF (l ++ LF :: r) = (l, some r) := by
  induction l with
  | nil => simp [splitLF]
  | cons b t ih =>
    have hb : (b == LF) = false := by simpa using h b (by simp)
    have := ih (fun x hx => h x (by simp [hx]))
    simp [splitLF, hb, this]

theorem splitLF_noLF {l : Bytes} (h : noLF l) : splitLF l = (l, none) := by
  induction l with
  | nil => simp [splitLF]
  | cons b t ih =>
    have hb : (b == LF) = false := by simpa using h b (by simp)
    have := ih (fun x hx => h x (by simp [hx]))
    simp [splitLF, hb, this]

/-! ### the dashEscaper, line by line -/

theorem deWrite_append (d : DE) (a b : Bytes) : deWrite d (a ++ b) = deWrite (deWrite d a) b := by
  simp [deWrite, List.foldl_append]

/-- chunk independence: the escaper is a byte automaton -/
theorem deWrite_chunks (d : DE) (chunks : List Bytes) : chunks.foldl deWrite d = deWrite d chunks.flatten := by
  induction chunks generalizing d with
  | nil => simp [deWrite]
  | cons c cs ih => simp [List.foldl_cons, ih, deWrite_append]

def midOut (w l : Bytes) : Bytes := if (trimR l).isEmpty then [] else w ++ trimR l

theorem trimR_cons_ws (b : UInt8) (l : Bytes) (hb : isWs b = true) :
    trimR (b :: l) = if (trimR l).isEmpty then [] else b :: trimR l := by
  simp [trimR, hb]

theorem trimR_cons_nws (b : UInt8) (l : Bytes) (hb : isWs b = false) : trimR (b :: l) = b :: trimR l := by
  simp [trimR, hb]

theorem LF_not_ws : isWs LF = false := by decide
theorem isWs10 : isWs 10 = false := by decide

/-- inside a line (`atBeginningOfLine = false`): pending whitespace `d.ws` is written only if more
    non-blank text follows on the line -/
theorem de_mid (l : Bytes) (hl : noLF l) (d : DE) (hd : d.bol = false) :
    ∃ w', deWrite d l =
      { bol := false, first := d.first, ws := w', out := d.out ++ midOut d.ws l, hash := d.hash ++ midOut d.ws l } := by
  induction l generalizing d with
  | nil => exact ⟨d.ws, by cases d; simp_all [deWrite, midOut, trimR]⟩
  | cons b t ih =>
    have hb : (b == LF) = false := by simpa using hl b (by simp)
    have ht : noLF t := fun x hx => hl x (by simp [hx])
    by_cases hw : isWs b = true
    · have hstep : deStep d b = { d with ws := d.ws ++ [b], bol := false } := by
        simp [deStep, hd, hw]
      obtain ⟨w', h⟩ := ih ht (deStep d b) (by rw [hstep])
      refine ⟨w', ?_⟩
      have : deWrite d (b :: t) = deWrite (deStep d b) t := by simp [deWrite]
      rw [this, h, hstep]
      simp only [midOut, trimR_cons_ws b t hw]
      by_cases he : trimR t = [] <;> simp [he]
    · have hw : isWs b = false := by simpa using hw
      have hstep : deStep d b = { d with ws := [], out := d.out ++ d.ws ++ [b], hash := d.hash ++ d.ws ++ [b] } := by
        simp [deStep, hd, hw, hb]
      obtain ⟨w', h⟩ := ih ht (deStep d b) (by rw [hstep]; exact hd)
      refine ⟨w', ?_⟩
      have : deWrite d (b :: t) = deWrite (deStep d b) t := by simp [deWrite]
      rw [this, h, hstep]
      simp only [midOut, trimR_cons_nws b t hw]
      by_cases he : trimR t = [] <;> simp [he]

def escOut (t : Bytes) : Bytes := (if t.head? == some 45 then [45, 32] else []) ++ t
def sepOf (first : Bool) : Bytes := if first then [] else CRLF

theorem escLine_eq (t : Bytes) : escLine t = escOut t ++ [LF] := by simp [escLine, escOut]

/-- a non-empty LF-free line from the beginning-of-line state -/
theorem de_bol (l : Bytes) (hl : noLF l) (hne : l ≠ []) (d : DE) (hd : d.bol = true) (hws : d.ws = []) :
    ∃ w', deWrite d l =
      { bol := false, first := false, ws := w', out := d.out ++ escOut (trimR l),
        hash := d.hash ++ sepOf d.first ++ trimR l } := by
  cases l with
  | nil => exact absurd rfl hne
  | cons b t =>
    have hb : (b == LF) = false := by simpa using hl b (by simp)
    have ht : noLF t := fun x hx => hl x (by simp [hx])
    have hcons : deWrite d (b :: t) = deWrite (deStep d b) t := by simp [deWrite]
    by_cases hw : isWs b = true
    · have hstep : deStep d b = { d with hash := d.hash ++ sepOf d.first, first := false, ws := [b], bol := false } := by
        simp [deStep, hd, hw, hws, sepOf]
      obtain ⟨w', h⟩ := de_mid t ht (deStep d b) (by rw [hstep])
      refine ⟨w', ?_⟩
      rw [hcons, h, hstep]
      have hb45 : (b == 45) = false := by
        have : b ≠ 45 := by intro h45; subst h45; simp [isWs] at hw
        simpa using this
      simp only [midOut, trimR_cons_ws b t hw, escOut]
      by_cases he : trimR t = [] <;> simp [he, hb45]
    · have hw : isWs b = false := by simpa using hw
      by_cases h45 : b = 45
      · subst h45
        have hstep : deStep d 45 = { d with hash := d.hash ++ sepOf d.first ++ [45], «first» := false, out := d.out ++ [45, 32, 45], bol := false } := by
          simp [deStep, hd, hw, sepOf]
        obtain ⟨w', h⟩ := de_mid t ht (deStep d 45) (by rw [hstep])
        refine ⟨w', ?_⟩
        rw [hcons, h, hstep]
        simp only [midOut, trimR_cons_nws 45 t hw, escOut, hws]
        by_cases he : (trimR t).isEmpty = true
        · have : trimR t = [] := by simpa using he
          simp [this]
        · simp [he]
      · have hb45 : (b == 45) = false := by simpa using h45
        have hstep : deStep d b = { d with hash := d.hash ++ sepOf d.first ++ [b], «first» := false, out := d.out ++ [b], bol := false } := by
          simp [deStep, hd, hw, hb45, hb, sepOf]
        obtain ⟨w', h⟩ := de_mid t ht (deStep d b) (by rw [hstep])
        refine ⟨w', ?_⟩
        rw [hcons, h, hstep]
        simp only [midOut, trimR_cons_nws b t hw, escOut, hws]
        by_cases he : (trimR t).isEmpty = true
        · have : trimR t = [] := by simpa using he
          simp [this, hb45]
        · simp [he, hb45]

/-- a whole LF-terminated line from the beginning-of-line state -/
theorem de_line (l : Bytes) (hl : noLF l) (d : DE) (hd : d.bol = true) (hws : d.ws = []) :
    deWrite d (l ++ [LF]) =
      { bol := true, first := false, ws := [], out := d.out ++ escLine (trimR l),
        hash := d.hash ++ sepOf d.first ++ trimR l } := by
  rw [deWrite_append]
  by_cases hne : l = []
  · subst hne
    cases d
    simp_all [deWrite, deStep, isWs10, trimR, escLine, sepOf, LF]
  · obtain ⟨w', h⟩ := de_bol l hl hne d hd hws
    rw [h]
    simp [deWrite, deStep, isWs10, escLine_eq, LF]

/-- the signed bytes as the escaper produces them: CRLF before every line but the first -/
def hashOf : Bool → List Bytes → Bytes
  | _, [] => []
  | first, l :: ls => sepOf first ++ l ++ hashOf false ls

theorem linesOf_some {s l r : Bytes} (h : splitLF s = (l, some r)) : linesOf s = l :: linesOf r := by
  rw [linesOf]
  split
  · rename_i l' heq; rw [h] at heq; simp at heq
  · rename_i l' r' heq; rw [h] at heq
    simp only [Prod.mk.injEq, Option.some.injEq] at heq
    obtain ⟨rfl, rfl⟩ := heq; rfl

theorem linesOf_none {s l : Bytes} (h : splitLF s = (l, none)) : linesOf s = if l.isEmpty then [] else [l] := by
  rw [linesOf]
  split
  · rename_i l' heq; rw [h] at heq
    simp only [Prod.mk.injEq, and_true] at heq
    subst heq; rfl
  · rename_i l' r' heq; rw [h] at heq; simp at heq

/-- **the escaper computes the canonical form** (for every plaintext): written text = dash-escaped
    canonical lines, hashed bytes = canonical lines joined by CRLF. -/
theorem de_all (pt : Bytes) (d : DE) (hd : d.bol = true) (hws : d.ws = []) :
    (deClose (deWrite d pt)).out = d.out ++ escText (canonLines pt) ∧
    (deClose (deWrite d pt)).hash = d.hash ++ hashOf d.first (canonLines pt) := by
  induction h : pt.length using Nat.strongRecOn generalizing pt d with
  | _ n ih =>
    cases hs : splitLF pt with
    | mk l o =>
      cases o with
      | none =>
        obtain ⟨rfl, hl⟩ := splitLF_none hs
        simp only [canonLines, linesOf_none hs]
        by_cases hne : pt = []
        · subst hne
          simp [deWrite, deClose, hd, escText, hashOf]
        · obtain ⟨w', h'⟩ := de_bol pt hl hne d hd hws
          have hpe : pt.isEmpty = false := by cases pt <;> simp_all
          rw [h']
          simp [deClose, hpe, escText, hashOf, escLine_eq]
      | some r =>
        obtain ⟨rfl, hl⟩ := splitLF_some hs
        simp only [canonLines, linesOf_some hs, List.map_cons]
        have : l ++ LF :: r = (l ++ [LF]) ++ r := by simp
        rw [this, deWrite_append, de_line l hl d hd hws]
        have hlt : r.length < n := by subst h; simp; omega
        have := ih _ hlt r { bol := true, first := false, ws := [], out := d.out ++ escLine (trimR l), hash := d.hash ++ sepOf d.first ++ trimR l } rfl rfl rfl
        simp only [canonLines] at this
        rw [this.1, this.2]
        simp [escText, hashOf, List.append_assoc]

theorem hashOf_false (ls : List Bytes) : hashOf false ls = (ls.map (CRLF ++ ·)).flatten := by
  induction ls with
  | nil => rfl
  | cons l ls ih => simp [hashOf, sepOf, ih]

theorem hashOf_true (ls : List Bytes) : hashOf true ls = signedBytes ls := by
  unfold signedBytes
  cases ls with
  | nil => rfl
  | cons l ls =>
    simp only [hashOf, sepOf, ↓reduceIte, List.nil_append]
    induction ls generalizing l with
    | nil => simp [hashOf, List.intercalate]
    | cons m ms ih =>
      have : CRLF.intercalate (l :: m :: ms) = l ++ CRLF ++ CRLF.intercalate (m :: ms) := by
        simp [List.intercalate, CRLF]
      rw [this, ← ih m]
      simp [hashOf, sepOf]

/-! ### Decode's text loop undoes the escaping -/

/-- a canonical line: no LF and no trailing SP/TAB/CR -/
def CanonLine (l : Bytes) : Prop := noLF l ∧ trimR l = l

theorem trimR_noLF (l : Bytes) (h : noLF l) : noLF (trimR l) := by
  induction l with
  | nil => simpa [trimR] using h
  | cons b t ih =>
    have ht : noLF t := fun x hx => h x (by simp [hx])
    intro x hx
    simp only [trimR] at hx
    split at hx
    · simp at hx
    · rcases List.mem_cons.1 hx with rfl | hx
      · exact h _ (by simp)
      · exact ih ht x hx

theorem trimR_idem (l : Bytes) : trimR (trimR l) = trimR l := by
  induction l with
  | nil => rfl
  | cons b t ih =>
    by_cases h : ((trimR t).isEmpty && isWs b) = true
    · simp [trimR, h]
    · have e : trimR (b :: t) = b :: trimR t := by simp [trimR, h]
      rw [e]
      simp only [trimR, ih]
      simp [h]

theorem canonLines_canon (pt : Bytes) : ∀ l ∈ canonLines pt, CanonLine l := by
  induction h : pt.length using Nat.strongRecOn generalizing pt with
  | _ n ih =>
    cases hs : splitLF pt with
    | mk l o =>
      cases o with
      | none =>
        obtain ⟨rfl, hl⟩ := splitLF_none hs
        simp only [canonLines, linesOf_none hs]
        intro x hx
        by_cases he : pt.isEmpty = true
        · simp [he] at hx
        · simp only [he, Bool.false_eq_true, ↓reduceIte, List.map_cons, List.map_nil, List.mem_singleton] at hx
          subst hx
          exact ⟨trimR_noLF _ hl, trimR_idem _⟩
      | some r =>
        obtain ⟨rfl, hl⟩ := splitLF_some hs
        simp only [canonLines, linesOf_some hs, List.map_cons]
        intro x hx
        rcases List.mem_cons.1 hx with rfl | hx
        · exact ⟨trimR_noLF _ hl, trimR_idem _⟩
        · have hlt : r.length < n := by subst h; simp; omega
          exact ih _ hlt r rfl x hx

/-- a canonical line does not end in SP/TAB/CR -/
theorem canon_last (l : Bytes) (h : trimR l = l) : ∀ b, l.getLast? = some b → isWs b = false := by
  induction l with
  | nil => simp
  | cons a t ih =>
    intro b hb
    by_cases hc : ((trimR t).isEmpty && isWs a) = true
    · simp [trimR, hc] at h
    · have e : trimR (a :: t) = a :: trimR t := by simp [trimR, hc]
      rw [e] at h
      have ht : trimR t = t := by simpa using h
      cases t with
      | nil =>
        simp at hb; subst hb
        simpa [trimR] using hc
      | cons c u =>
        rw [List.getLast?_cons_cons] at hb
        exact ih ht b hb

theorem dropLastCR_canon (l : Bytes) (h : ∀ b, l.getLast? = some b → isWs b = false) : dropLastCR l = l := by
  unfold dropLastCR
  split
  · rename_i heq
    have := h 13 heq
    simp [isWs] at this
  · rfl

theorem trimRightSpTab_canon (l : Bytes) (h : ∀ b, l.getLast? = some b → isWs b = false) :
    trimRightSpTab l = l := by
  unfold trimRightSpTab
  cases hr : l.reverse with
  | nil => simp at hr; simp [hr]
  | cons a t =>
    have : l.getLast? = some a := by
      rw [List.getLast?_eq_head?_reverse, hr]; rfl
    have hw := h a this
    have : (a == 32 || a == 9) = false := by
      simp only [isWs] at hw
      revert hw; cases a == 32 <;> cases a == 9 <;> simp
    rw [List.dropWhile_cons, this]
    simp only [Bool.false_eq_true, ↓reduceIte]
    rw [← hr]; simp

theorem getLine_append (l r : Bytes) (hl : noLF l) (hlast : ∀ b, l.getLast? = some b → isWs b = false) :
    getLine (l ++ LF :: r) = (l, r) := by
  unfold getLine
  rw [splitLF_append r hl]
  simp [dropLastCR_canon l hlast]

theorem hasPrefix_append (p s : Bytes) : hasPrefix (p ++ s) p = true := by
  induction p with
  | nil => cases s <;> simp [hasPrefix]
  | cons a t ih => simp [hasPrefix, ih]

theorem csEndText_noLF : noLF csEndText := by unfold noLF; decide

/-- **dash-unescape ∘ dash-escape = id** on canonical lines: `Decode`'s text loop, run on the escaped
    text followed by the armor header line, returns exactly the lines and stops at that line. -/
theorem csText_escText (ls : List Bytes) (hc : ∀ l ∈ ls, CanonLine l) (tail : Bytes) :
    csText (escText ls ++ csEndText ++ LF :: tail) = some (ls, csEndText ++ LF :: tail) := by
  induction ls with
  | nil =>
    rw [csText]
    have hg : getLine (csEndText ++ LF :: tail) = (csEndText, tail) :=
      getLine_append _ _ csEndText_noLF (by decide)
    have hne : csEndText ++ LF :: tail ≠ [] := by simp
    simp only [escText, List.map_nil, List.flatten_nil, List.nil_append, hne, ↓reduceDIte, hg]
    have : (csEndText.isEmpty && tail.isEmpty) = false := by
      have : csEndText.isEmpty = false := by decide
      simp [this]
    simp [this]
  | cons l ls ih =>
    have hcl := hc l (by simp)
    have hlast := canon_last l hcl.2
    have ih := ih (fun x hx => hc x (by simp [hx]))
    rw [csText]
    have e : escText (l :: ls) ++ csEndText ++ LF :: tail =
        escOut l ++ LF :: (escText ls ++ csEndText ++ LF :: tail) := by
      simp [escText, escLine_eq, List.append_assoc]
    rw [e]
    have hnoLF : noLF (escOut l) := by
      intro x hx
      simp only [escOut, List.mem_append] at hx
      rcases hx with hx | hx
      · split at hx
        · simp at hx; rcases hx with rfl | rfl <;> decide
        · simp at hx
      · exact hcl.1 x hx
    have hlast' : ∀ b, (escOut l).getLast? = some b → isWs b = false := by
      intro b hb
      cases l with
      | nil => simp [escOut] at hb
      | cons a t =>
        have : (escOut (a :: t)).getLast? = (a :: t).getLast? := by
          simp only [escOut, List.getLast?_append]
          cases hg : (a :: t).getLast? with
          | none => simp at hg
          | some x => rfl
        rw [this] at hb
        exact hlast b hb
    have hne2 : (escOut l ++ LF :: (escText ls ++ csEndText ++ LF :: tail)) ≠ [] := by simp
    simp only [hne2, ↓reduceDIte]
    rw [getLine_append _ _ hnoLF hlast']
    simp only
    have hrest_ne : (escText ls ++ csEndText ++ LF :: tail) ≠ [] := by simp
    have hre : (escText ls ++ csEndText ++ LF :: tail).isEmpty = false := by
      cases hh : (escText ls ++ csEndText ++ LF :: tail) with
      | nil => exact absurd hh hrest_ne
      | cons => rfl
    have hnot_end : (escOut l == csEndText) = false := by
      cases l with
      | nil => decide
      | cons a t =>
        by_cases ha : a = 45
        · subst ha
          simp only [escOut, List.head?_cons, beq_self_eq_true, ↓reduceIte]
          -- second byte is SP, the marker's second byte is '-'
          simp [csEndText, str]
        · have : ((some a : Option UInt8) == some 45) = false := by simpa using ha
          simp only [escOut, List.head?_cons, this, Bool.false_eq_true, ↓reduceIte, List.nil_append]
          have hne : a :: t ≠ csEndText := by
            intro heq
            have : a = 45 := by
              have := congrArg List.head? heq
              simpa [csEndText, str] using this
            exact ha this
          simpa using hne
    simp only [hre, Bool.and_false, Bool.false_eq_true, ↓reduceIte, hnot_end, ih]
    -- un-escaping and trimming give the line back
    have hun : (if hasPrefix (escOut l) [45, 32] = true then List.drop 2 (escOut l) else escOut l) = l := by
      cases l with
      | nil => simp [escOut, hasPrefix]
      | cons a t =>
        by_cases ha : a = 45
        · subst ha
          simp [escOut, hasPrefix]
        · have : ((some a : Option UInt8) == some 45) = false := by simpa using ha
          have hp : hasPrefix (a :: t) [45, 32] = false := by
            have : (a == 45) = false := by simpa using ha
            simp [hasPrefix, this]
          simp [escOut, this, hp]
    rw [hun, trimRightSpTab_canon l hlast]

/-! ### the canonical-text hash is the identity on the signed bytes -/

theorem cth_foldl_out (st : Bool × Bytes) (l : Bytes) :
    (l.foldl cthStep st).2 = st.2 ++ (l.foldl cthStep (st.1, [])).2 ∧
    (l.foldl cthStep st).1 = (l.foldl cthStep (st.1, [])).1 := by
  induction l generalizing st with
  | nil => simp
  | cons b t ih =>
    simp only [List.foldl_cons]
    have h1 := ih (cthStep st b)
    have h2 := ih (cthStep (st.1, []) b)
    have hs : (cthStep st b).1 = (cthStep (st.1, []) b).1 ∧ (cthStep st b).2 = st.2 ++ (cthStep (st.1, []) b).2 := by
      unfold cthStep
      by_cases a : st.1 = true <;> by_cases c : (b == CR) = true <;> by_cases e : (b == LF) = true <;> simp [a, c, e]
    rw [h1.1, h1.2, h2.1, h2.2, hs.1, hs.2]
    simp [List.append_assoc]

/-- on an LF-free line not ending in CR, the automaton copies the line and ends in state 0 -/
theorem cth_line (l : Bytes) (hl : noLF l) (s : Bool) :
    (l.foldl cthStep (s, [])).2 = l ∧
    ((∀ b, l.getLast? = some b → b ≠ CR) → l ≠ [] → (l.foldl cthStep (s, [])).1 = false) := by
  induction l generalizing s with
  | nil => simp
  | cons b t ih =>
    have hb : (b == LF) = false := by simpa using hl b (by simp)
    have ht : noLF t := fun x hx => hl x (by simp [hx])
    simp only [List.foldl_cons]
    have hstep : ∃ s', cthStep (s, []) b = (s', [b]) ∧ (s' = true → b = CR) := by
      unfold cthStep
      by_cases a : s = true
      · exact ⟨false, by simp [a], by simp⟩
      · by_cases c : (b == CR) = true
        · exact ⟨true, by simp [a, c], fun _ => by simpa using c⟩
        · exact ⟨false, by simp [a, c, hb], by simp⟩
    obtain ⟨s', hs', hcr⟩ := hstep
    rw [hs']
    have h1 := cth_foldl_out (s', [b]) t
    have h2 := ih ht s'
    refine ⟨by rw [h1.1, h2.1]; rfl, ?_⟩
    intro hlast _
    rw [h1.2]
    cases t with
    | nil =>
      simp only [List.foldl_nil]
      have : b ≠ CR := hlast b (by simp)
      cases s' with
      | false => rfl
      | true => exact absurd (hcr rfl) this
    | cons c u =>
      exact h2.2 (fun x hx => hlast x (by rw [List.getLast?_cons_cons]; exact hx)) (by simp)

theorem cth_append (a b : Bytes) :
    cth (a ++ b) = cth a ++ (b.foldl cthStep ((a.foldl cthStep (false, [])).1, [])).2 := by
  unfold cth
  rw [List.foldl_append]
  have := cth_foldl_out (a.foldl cthStep (false, [])) b
  rw [this.1]

/-- state after a canonical line (from state 0, or from any state if non-empty) -/
theorem cth_state_canon (l : Bytes) (hc : CanonLine l) :
    (l.foldl cthStep (false, [])).1 = false := by
  by_cases hne : l = []
  · subst hne; rfl
  · refine (cth_line l hc.1 false).2 ?_ hne
    intro b hb
    have := canon_last l hc.2 b hb
    intro h; subst h; simp [isWs, CR] at this

/-- **the hash the verifier computes over `Block.Bytes` is the hash the signer fed**: the
    canonical-text automaton leaves CRLF-joined canonical lines unchanged. -/
theorem cth_signedBytes (ls : List Bytes) (hc : ∀ l ∈ ls, CanonLine l) :
    cth (hashOf true ls) = hashOf true ls := by
  -- generalise: after any prefix that leaves the automaton in state 0
  have key : ∀ (ls : List Bytes) (first : Bool), (∀ l ∈ ls, CanonLine l) →
      ((hashOf first ls).foldl cthStep (false, [])).2 = hashOf first ls ∧
      ((hashOf first ls).foldl cthStep (false, [])).1 = false := by
    intro ls
    induction ls with
    | nil => intro first _; simp [hashOf]
    | cons l ls ih =>
      intro first hc
      have hcl := hc l (by simp)
      have ih := ih false (fun x hx => hc x (by simp [hx]))
      have hsep : ((sepOf first).foldl cthStep (false, [])) = (false, sepOf first) := by
        cases first <;> simp [sepOf, CRLF, cthStep, CR, LF]
      simp only [hashOf, List.foldl_append, hsep]
      have h1 := cth_foldl_out (false, sepOf first) l
      have h2 := cth_line l hcl.1 false
      have h3 := cth_state_canon l hcl
      have hst : l.foldl cthStep (false, sepOf first) = (false, sepOf first ++ l) := by
        apply Prod.ext
        · rw [h1.2]; exact h3
        · rw [h1.1, h2.1]
      rw [hst]
      have h4 := cth_foldl_out (false, sepOf first ++ l) (hashOf false ls)
      refine ⟨by rw [h4.1, ih.1], by rw [h4.2, ih.2]⟩
  exact (key ls true hc).1

end XC.C46
