/-
  C17 — the Blowfish key schedule reads its key cyclically and only 18 words = 72 bytes of it:
  two keys with the same 72-byte cyclic expansion give the same schedule.
-/
import XC.Model.C17
import XC.Proofs.C12_BfSpec
namespace XC.C12

namespace Blowfish

theorem xorFold_congr (k1 k2 : Array UInt8) (h1 : 0 < k1.size) (h2 : 0 < k2.size)
    (hc : ∀ p, p < 72 → cyc k1 p = cyc k2 p) (is : List Nat) (t : Nat) (c : Box)
    (hb : 4 * (t + is.length) ≤ 72) :
    ∃ b, is.foldl (xorStep k1) (c, (4 * t) % k1.size) = (b, (4 * (t + is.length)) % k1.size) ∧
         is.foldl (xorStep k2) (c, (4 * t) % k2.size) = (b, (4 * (t + is.length)) % k2.size) := by
  induction is generalizing t c with
  | nil => exact ⟨c, rfl, rfl⟩
  | cons i is ih =>
    simp only [List.foldl_cons, List.length_cons] at hb ⊢
    have s1 : xorStep k1 (c, (4 * t) % k1.size) i =
        ((c.set! i (c[i]! ^^^ (nextWord k1 ((4 * t) % k1.size)).1)), (4 * (t + 1)) % k1.size) := by
      unfold xorStep
      rw [nextWord_cyc k1 h1]
      simp [Nat.mul_add]
    have s2 : xorStep k2 (c, (4 * t) % k2.size) i =
        ((c.set! i (c[i]! ^^^ (nextWord k2 ((4 * t) % k2.size)).1)), (4 * (t + 1)) % k2.size) := by
      unfold xorStep
      rw [nextWord_cyc k2 h2]
      simp [Nat.mul_add]
    have hw : (nextWord k1 ((4 * t) % k1.size)).1 = (nextWord k2 ((4 * t) % k2.size)).1 := by
      rw [nextWord_cyc k1 h1, nextWord_cyc k2 h2]
      simp only
      rw [hc (4*t) (by omega), hc (4*t+1) (by omega), hc (4*t+2) (by omega), hc (4*t+3) (by omega)]
    rw [s1, s2, hw]
    have := ih (t + 1) (c.set! i (c[i]! ^^^ (nextWord k2 ((4 * t) % k2.size)).1)) (by omega)
    have e : t + 1 + is.length = t + (is.length + 1) := by omega
    rw [e] at this
    exact this

/-- the P-array xor (all the key schedule ever sees of the key) only depends on the first 72 bytes
    of the cyclic expansion of the key -/
theorem xorKey_congr (k1 k2 : Array UInt8) (h1 : 0 < k1.size) (h2 : 0 < k2.size)
    (hc : ∀ p, p < 72 → cyc k1 p = cyc k2 p) (c : Box) : xorKey k1 c = xorKey k2 c := by
  rw [xorKey_eq, xorKey_eq]
  obtain ⟨b, e1, e2⟩ := xorFold_congr k1 k2 h1 h2 hc (List.range 18) 0 c (by simp)
  simp only [Nat.mul_zero, Nat.zero_mod] at e1 e2
  rw [e1, e2]

end Blowfish
end XC.C12
