/-
  C21 — RFC 7292 App. B.2 step 6.C as the code does it through math/big equals addition mod 2^(8v);
  fillWithRepeats length and contents; KDF output length.
-/
import XC.Model.C21
import XC.Prim.Lemmas
namespace XC.C21
open XC

/-! ### big.Int.Bytes / trim / pad  =  fixed-width big-endian -/

theorem minimalLE_zero : minimalLE 0 = [] := by rw [minimalLE]; simp

theorem minimalLE_pos {n : Nat} (h : n ≠ 0) :
    minimalLE n = UInt8.ofNat (n % 256) :: minimalLE (n / 256) := by
  rw [minimalLE]; simp [h]

theorem natToLE_eq_minimal : ∀ (k n : Nat),
    natToLE k n = (minimalLE n).take k ++ List.replicate (k - (minimalLE n).length) 0
  | 0, n => by simp [natToLE]
  | k+1, n => by
    by_cases h : n = 0
    · subst h
      have ih := natToLE_eq_minimal k 0
      simp only [minimalLE_zero, List.take_nil, List.length_nil, List.nil_append, Nat.sub_zero] at ih ⊢
      simp only [natToLE, Nat.zero_mod, Nat.zero_div, ih, List.replicate_succ]
      rfl
    · have ih := natToLE_eq_minimal k (n / 256)
      rw [minimalLE_pos h]
      simp only [natToLE, List.take_succ_cons, List.length_cons, List.cons_append, Nat.add_sub_add_right]
      rw [ih]

/-- `Bytes()` then "keep the last v bytes if longer, left-pad with zeros if shorter"
    is the v-byte big-endian encoding (of n mod 256^v) -/
theorem adjustLen_bigBytes (v n : Nat) : adjustLen v (bigBytes n) = natToBE v n := by
  unfold adjustLen bigBytes natToBE
  rw [natToLE_eq_minimal v n]
  generalize minimalLE n = L
  simp only [List.length_reverse]
  by_cases h : L.length > v
  · rw [if_pos h, List.drop_reverse]
    have e : L.length - (L.length - v) = v := by omega
    rw [e]
    have hl : ((List.take v L).reverse).length = v := by simp; omega
    rw [if_neg (by omega)]
    have : v - L.length = 0 := by omega
    simp [this]
  · rw [if_neg h]
    have ht : List.take v L = L := List.take_of_length_le (by omega)
    by_cases h2 : L.length < v
    · rw [if_pos (by simpa using h2)]
      simp [ht, zeros, List.reverse_append]
    · rw [if_neg (by simpa using h2)]
      have : v - L.length = 0 := by omega
      simp [ht, this]

theorem natToLE_mod : ∀ (k n : Nat), natToLE k (n % 256 ^ k) = natToLE k n
  | 0, n => rfl
  | k+1, n => by
    have h1 : n % 256 ^ (k + 1) % 256 = n % 256 := by
      rw [Nat.pow_succ, Nat.mul_comm]; exact Nat.mod_mul_right_mod n 256 (256 ^ k)
    have h2 : n % 256 ^ (k + 1) / 256 = n / 256 % 256 ^ k := by
      rw [Nat.pow_succ, Nat.mul_comm, Nat.mod_mul_right_div_self]
    simp only [natToLE, h1, h2, natToLE_mod k (n / 256)]

/-- **pbkdf_add_eq.** The SetBytes / Add / Add 1 / Bytes / trim-or-pad sequence of step 6.C is
    I_j := (I_j + B + 1) mod 2^(8v) — in the branch where the sum carries out of v bytes (trim), in
    the branch where it has leading zero bytes (pad), and when it is exactly v bytes. -/
theorem pbkdf_add_eq (v : Nat) (ij b : Bytes) : addBlockGo v ij b = addBlockSpec v ij b := by
  unfold addBlockGo addBlockSpec
  rw [adjustLen_bigBytes]
  unfold natToBE
  rw [natToLE_mod]

/-- the result always has exactly v bytes and its value is the sum reduced mod 256^v -/
theorem addBlockGo_spec (v : Nat) (ij b : Bytes) :
    (addBlockGo v ij b).length = v ∧ natOfBE (addBlockGo v ij b) = (natOfBE ij + natOfBE b + 1) % 256 ^ v := by
  rw [pbkdf_add_eq]
  unfold addBlockSpec natToBE natOfBE
  rw [List.reverse_reverse, natOfLE_natToLE, List.length_reverse, natToLE_length, Nat.mod_mod]
  exact ⟨rfl, rfl⟩

/-! ### fillWithRepeats -/

theorem repeatBytes_length (p : Bytes) : ∀ k, (repeatBytes p k).length = k * p.length
  | 0 => by simp [repeatBytes]
  | k+1 => by simp [repeatBytes, repeatBytes_length p k, Nat.add_mul]; omega

theorem fill_empty (v : Nat) : fillWithRepeats [] v = [] := by simp [fillWithRepeats]

/-- **fill_len.** A non-empty pattern is stretched to the next multiple of v:
    |fillWithRepeats p v| = v·⌈|p|/v⌉ (so an input that already is a multiple of v keeps its length) -/
theorem fill_len (p : Bytes) (v : Nat) (hp : p ≠ []) :
    (fillWithRepeats p v).length = v * ((p.length + v - 1) / v) := by
  have hl : 0 < p.length := List.length_pos_iff.mpr hp
  unfold fillWithRepeats
  rw [if_neg (by omega)]
  simp only [List.length_take, repeatBytes_length]
  apply Nat.min_eq_left
  generalize v * ((p.length + v - 1) / v) = out
  have : out ≤ (out + p.length - 1) / p.length * p.length := by
    have h := Nat.div_add_mod (out + p.length - 1) p.length
    have h2 := Nat.mod_lt (out + p.length - 1) hl
    rw [Nat.mul_comm] at h
    omega
  exact this

theorem fill_len_multiple (p : Bytes) (v k : Nat) (hv : 0 < v) (hk : 0 < k) (h : p.length = k * v) :
    (fillWithRepeats p v).length = p.length := by
  have hp : p ≠ [] := by
    intro e; rw [e] at h; simp at h
    have := Nat.mul_pos hk hv; omega
  rw [fill_len p v hp, h]
  have : (k * v + v - 1) / v = k := by
    rw [Nat.add_sub_assoc (by omega), Nat.mul_comm, Nat.mul_add_div hv]
    have : (v - 1) / v = 0 := Nat.div_eq_of_lt (by omega)
    omega
  rw [this, Nat.mul_comm]

theorem repeatBytes_get (p : Bytes) (hl : 0 < p.length) : ∀ k i, i < k * p.length →
    (repeatBytes p k)[i]? = p[i % p.length]?
  | 0, i, h => by omega
  | k+1, i, h => by
    simp only [repeatBytes]
    by_cases hi : i < p.length
    · rw [List.getElem?_append_left hi, Nat.mod_eq_of_lt hi]
    · rw [List.getElem?_append_right (by omega)]
      rw [repeatBytes_get p hl k (i - p.length) (by rw [Nat.add_mul] at h; omega)]
      have : i % p.length = (i - p.length) % p.length := by
        conv => lhs; rw [show i = (i - p.length) + p.length by omega]
        exact Nat.add_mod_right _ _
      rw [this]

/-- the contents are the pattern repeated cyclically (the last copy truncated) -/
theorem fill_get (p : Bytes) (v i : Nat) (hp : p ≠ []) (hi : i < (fillWithRepeats p v).length) :
    (fillWithRepeats p v)[i]? = p[i % p.length]? := by
  have hl : 0 < p.length := List.length_pos_iff.mpr hp
  unfold fillWithRepeats at hi ⊢
  rw [if_neg (by omega)] at hi ⊢
  simp only [List.length_take, repeatBytes_length] at hi
  rw [List.getElem?_take_of_lt (by omega)]
  exact repeatBytes_get p hl _ i (by omega)

/-! ### output length -/

theorem hashIter_length (h : Bytes → Bytes) (hh : ∀ x, (h x).length = 20) :
    ∀ k x, x.length = 20 → (hashIter h x k).length = 20
  | 0, _, hx => hx
  | k+1, x, _hx => hashIter_length h hh k (h x) (hh x)

theorem pbkdfLoop_length (h : Bytes → Bytes) (hh : ∀ x, (h x).length = 20) (v : Nat) (d : Bytes) (r : Nat) :
    ∀ c i, (pbkdfLoop h v d r c i).length = 20 * c
  | 0, i => rfl
  | c+1, i => by
    unfold pbkdfLoop
    have ha : (hashIter h (h (d ++ i)) (r - 1)).length = 20 := hashIter_length h hh _ _ (hh _)
    by_cases hc : c = 0
    · simp [hc, ha]
    · simp only [hc, if_false, List.length_append, ha, pbkdfLoop_length h hh v d r c]
      omega

/-- pbkdf returns exactly `size` bytes -/
theorem pbkdf_length (salt pw : Bytes) (r : Nat) (id : UInt8) (size : Nat) :
    (pbkdf salt pw r id size).length = size := by
  unfold pbkdf pbkdfWith
  simp only [List.length_take, pbkdfLoop_length Prim.sha1 Prim.sha1_length]
  omega

end XC.C21
