/-
  C24 — mpint: the implementation-shaped `intBody / intLength / intOfBody` against the
  RFC 4251 §5 specification (two's complement value `twos`, no redundant leading byte `Minimal`).
-/
import XC.Proofs.C24_Bytes
namespace XC.C24

/-! ## specification side -/

/-- RFC 4251 §5: the integer a byte string denotes in two's complement, big-endian; empty = 0 -/
def twos (bs : Bytes) : Int :=
  match bs with
  | [] => 0
  | b :: _ => if 128 ≤ b.toNat then (natOfBE bs : Int) - (256 : Int) ^ bs.length else (natOfBE bs : Int)

/-- RFC 4251 §5: "Unnecessary leading bytes with the value 0 or 255 MUST NOT be included";
    zero is the empty string -/
def Minimal : Bytes → Bool
  | [] => true
  | [b] => b != 0
  | a :: b :: _ => !(a == 0 && b.toNat < 128) && !(a == 255 && 128 ≤ b.toNat)

/-! ## byte facts (exhaustive over the 256 bytes) -/

theorem allU8 (P : UInt8 → Prop) (h : ∀ n : Fin 256, P (UInt8.ofNat n.val)) : ∀ b : UInt8, P b := by
  intro b
  have := h ⟨b.toNat, b.toNat_lt⟩
  simpa using this

theorem and80_eq0 : ∀ b : UInt8, ((b &&& 0x80) == 0) = decide (b.toNat < 128) := by
  apply allU8; decide +kernel
theorem and80_ne0 : ∀ b : UInt8, ((b &&& 0x80) != 0) = decide (128 ≤ b.toNat) := by
  apply allU8; decide +kernel
theorem and80_eq80 : ∀ b : UInt8, ((b &&& 0x80) == 0x80) = decide (128 ≤ b.toNat) := by
  apply allU8; decide +kernel
theorem xorff_toNat : ∀ b : UInt8, (b ^^^ 0xff).toNat = 255 - b.toNat := by
  apply allU8; decide +kernel
theorem compl_toNat : ∀ b : UInt8, (~~~ b).toNat = 255 - b.toNat := by
  apply allU8; decide +kernel

theorem natOfBE_map_compl (f : UInt8 → UInt8) (hf : ∀ b, (f b).toNat = 255 - b.toNat) (bs : Bytes) :
    natOfBE (bs.map f) + natOfBE bs + 1 = 256 ^ bs.length := by
  induction bs with
  | nil => simp [natOfBE, natOfLE]
  | cons b bs ih =>
    simp only [List.map_cons, natOfBE_cons, List.length_map, hf, List.length_cons, Nat.pow_succ]
    have hb : b.toNat < 256 := b.toNat_lt
    have : (255 - b.toNat) * 256 ^ bs.length + b.toNat * 256 ^ bs.length = 255 * 256 ^ bs.length := by
      rw [← Nat.add_mul]; congr 1; omega
    omega

/-! ## the value of what marshalInt writes -/

theorem headD_cons (b : UInt8) (t : Bytes) : headD (b :: t) = b := rfl

theorem ofNat_toNat_lt (k : Nat) (h : k < 256) : (UInt8.ofNat k).toNat = k := by
  simp [UInt8.toNat_ofNat', Nat.mod_eq_of_lt h]

/-- positive numbers -/
theorem intBody_pos (n : Nat) (h : n ≠ 0) :
    twos (intBody (n : Int)) = n ∧ Minimal (intBody (n : Int)) = true ∧
    (intBody (n : Int)).length = lenOfBits (bitLen n) := by
  obtain ⟨t, ht, hlt, hpos⟩ := natBytes_head n h
  obtain ⟨hlen, htop⟩ := bitLen_bytes n h
  have hval := natOfBE_natBytes n
  generalize hk : n / 256 ^ ((natBytes n).length - 1) = k at *
  have hn0 : ¬ ((n : Int) < 0) := by omega
  have hn1 : ¬ ((n : Int) = 0) := by omega
  simp only [intBody, hn0, hn1, if_false, Int.toNat_natCast]
  rw [ht] at hval hlen ⊢
  simp only [List.isEmpty_cons, Bool.not_false, Bool.true_and, headD_cons, and80_ne0,
    ofNat_toNat_lt k hlt]
  by_cases h128 : 128 ≤ k
  · simp only [h128, decide_true, ↓reduceIte]
    refine ⟨?_, ?_, ?_⟩
    · simp only [twos]
      rw [natOfBE_cons]; simp [hval]
    · simp [Minimal, ofNat_toNat_lt k hlt, h128]
    · simp only [lenOfBits, htop.mpr h128, if_true, hlen, List.length_cons]; omega
  · simp only [h128, decide_false, Bool.false_eq_true, ↓reduceIte]
    have hm : ¬ bitLen n % 8 = 0 := fun hc => h128 (htop.mp hc)
    refine ⟨?_, ?_, ?_⟩
    · simp only [twos, ofNat_toNat_lt k hlt, h128, if_false, hval]
    · cases t with
      | nil =>
        simp only [Minimal]
        have : UInt8.ofNat k ≠ 0 := by
          intro hc
          have := congrArg UInt8.toNat hc
          rw [ofNat_toNat_lt k hlt] at this; simp at this; omega
        simpa using this
      | cons c t =>
        simp only [Minimal]
        have h0 : (UInt8.ofNat k == 0) = false := by
          apply beq_false_of_ne
          intro hc
          have := congrArg UInt8.toNat hc
          rw [ofNat_toNat_lt k hlt] at this; simp at this; omega
        have h255 : (UInt8.ofNat k == 255) = false := by
          apply beq_false_of_ne
          intro hc
          have := congrArg UInt8.toNat hc
          rw [ofNat_toNat_lt k hlt] at this; simp at this; omega
        simp [h0, h255]
    · simp only [lenOfBits, hm, if_false, hlen]; omega

/-- negative numbers: n = -(m+1) -/
theorem intBody_neg (m : Nat) :
    twos (intBody (-(m : Int) - 1)) = -(m : Int) - 1 ∧ Minimal (intBody (-(m : Int) - 1)) = true ∧
    (intBody (-(m : Int) - 1)).length = lenOfBits (bitLen m) := by
  have hneg : (-(m : Int) - 1) < 0 := by omega
  have hm : (-(-(m : Int) - 1) - 1).toNat = m := by omega
  simp only [intBody, hneg, if_true, hm]
  by_cases h : m = 0
  · subst h
    simp only [natBytes, natBytesLE_zero, List.reverse_nil, List.map_nil, List.isEmpty_nil, Bool.true_or, if_true]
    refine ⟨by simp [twos, natOfBE_cons, natOfBE_nil], by simp [Minimal], by simp [lenOfBits, bitLen]⟩
  · obtain ⟨t, ht, hlt, hpos⟩ := natBytes_head m h
    obtain ⟨hlen, htop⟩ := bitLen_bytes m h
    have hval := natOfBE_natBytes m
    have hc := natOfBE_map_compl (· ^^^ 0xff) xorff_toNat (natBytes m)
    generalize hk : m / 256 ^ ((natBytes m).length - 1) = k at *
    rw [ht] at hval hlen hc ⊢
    simp only [List.map_cons, List.isEmpty_cons, Bool.false_or, headD_cons, and80_eq0, xorff_toNat,
      ofNat_toNat_lt k hlt]
    simp only [List.map_cons, List.length_cons, xorff_toNat, ofNat_toNat_lt k hlt] at hc
    have hpw : (256 : Int) ^ (t.length + 1) = ((256 ^ (t.length + 1) : Nat) : Int) := by simp
    by_cases h128 : 128 ≤ k
    · -- complemented head < 128: a 0xff byte is prepended
      have hlt128 : 255 - k < 128 := by omega
      simp only [hlt128, decide_true, ↓reduceIte]
      refine ⟨?_, ?_, ?_⟩
      · simp only [twos]
        have : (128 : Nat) ≤ (0xff : UInt8).toNat := by decide
        simp only [this, if_true]
        rw [natOfBE_cons]
        simp only [List.length_cons, List.length_map]
        have e : (0xff : UInt8).toNat = 255 := by decide
        rw [e]
        have hp2 : (256 : Int) ^ (t.length + 1 + 1) = 256 * ((256 ^ (t.length + 1) : Nat) : Int) := by
          rw [Int.pow_succ]; simp [Int.mul_comm]
        rw [hp2]
        have : ((255 * 256 ^ (t.length + 1) + natOfBE ((UInt8.ofNat k ^^^ 0xff) :: t.map (· ^^^ 0xff)) : Nat) : Int)
            = 255 * ((256 ^ (t.length + 1) : Nat) : Int) + ((natOfBE ((UInt8.ofNat k ^^^ 0xff) :: t.map (· ^^^ 0xff)) : Nat) : Int) := by
          simp
        rw [this]
        omega
      · simp only [Minimal]
        have : (UInt8.ofNat k ^^^ 0xff).toNat = 255 - k := by rw [xorff_toNat, ofNat_toNat_lt k hlt]
        simp [this]; omega
      · simp only [lenOfBits, htop.mpr h128, if_true, hlen, List.length_cons, List.length_map]; omega
    · have hge : ¬ 255 - k < 128 := by omega
      simp only [hge, decide_false, Bool.false_eq_true, ↓reduceIte]
      have hmm : ¬ bitLen m % 8 = 0 := fun hc => h128 (htop.mp hc)
      refine ⟨?_, ?_, ?_⟩
      · simp only [twos, xorff_toNat, ofNat_toNat_lt k hlt]
        have : 128 ≤ 255 - k := by omega
        simp only [this, if_true, List.length_cons, List.length_map]
        rw [hpw]; omega
      · have hx : (UInt8.ofNat k ^^^ 0xff).toNat = 255 - k := by rw [xorff_toNat, ofNat_toNat_lt k hlt]
        have h255 : ((UInt8.ofNat k ^^^ 0xff) == 255) = false := by
          apply beq_false_of_ne
          intro hc
          have := congrArg UInt8.toNat hc
          rw [hx] at this; simp at this; omega
        have h0 : ((UInt8.ofNat k ^^^ 0xff) == 0) = false := by
          apply beq_false_of_ne
          intro hc
          have := congrArg UInt8.toNat hc
          rw [hx] at this; simp at this; omega
        cases t with
        | nil =>
          simp only [List.map_nil, Minimal]
          simpa using h0
        | cons c t => simp [Minimal, h0, h255]
      · simp only [lenOfBits, hmm, if_false, hlen, List.length_cons, List.length_map]; omega

/-- every integer is 0, positive, or -(m+1) -/
theorem int_cases (n : Int) : n = 0 ∨ (∃ k : Nat, k ≠ 0 ∧ n = k) ∨ (∃ m : Nat, n = -(m : Int) - 1) := by
  rcases Int.lt_trichotomy n 0 with h | h | h
  · right; right; exact ⟨(-n - 1).toNat, by omega⟩
  · left; exact h
  · right; left; exact ⟨n.toNat, by omega, by omega⟩

theorem intBody_zero : intBody 0 = [] := by simp [intBody]

theorem intBody_value (n : Int) : twos (intBody n) = n := by
  rcases int_cases n with h | ⟨k, hk, h⟩ | ⟨m, h⟩
  · subst h; simp [intBody_zero, twos]
  · subst h; exact (intBody_pos k hk).1
  · subst h; exact (intBody_neg m).1

theorem intBody_minimal (n : Int) : Minimal (intBody n) = true := by
  rcases int_cases n with h | ⟨k, hk, h⟩ | ⟨m, h⟩
  · subst h; simp [intBody_zero, Minimal]
  · subst h; exact (intBody_pos k hk).2.1
  · subst h; exact (intBody_neg m).2.1

theorem intLength_eq_body (n : Int) : intLength n = 4 + (intBody n).length := by
  rcases int_cases n with h | ⟨k, hk, h⟩ | ⟨m, h⟩
  · subst h; simp [intLength, intBody_zero]
  · subst h
    have hn0 : ¬ ((k : Int) < 0) := by omega
    have hn1 : ¬ ((k : Int) = 0) := by omega
    simp only [intLength, hn0, hn1, if_false, Int.toNat_natCast, (intBody_pos k hk).2.2]
  · subst h
    have hneg : (-(m : Int) - 1) < 0 := by omega
    have hm : (-(-(m : Int) - 1) - 1).toNat = m := by omega
    simp only [intLength, hneg, if_true, hm, (intBody_neg m).2.2]

/-! ## parseInt computes the two's complement value -/

theorem intOfBody_eq_twos (c : Bytes) : intOfBody c = twos c := by
  cases c with
  | nil => simp [intOfBody, twos, natOfBE_nil]
  | cons b t =>
    simp only [intOfBody, List.isEmpty_cons, Bool.not_false, Bool.true_and, headD_cons, and80_eq80, twos]
    by_cases h : 128 ≤ b.toNat
    · simp only [h, decide_true, if_true]
      have hc := natOfBE_map_compl (fun b => ~~~ b) compl_toNat (b :: t)
      have hpw : (256 : Int) ^ (b :: t).length = ((256 ^ (b :: t).length : Nat) : Int) := by simp
      rw [hpw]; omega
    · simp [h]

end XC.C24
