/-
  C37 — helper lemmas and the invariant of the forward-list LTS (XC.Model.C37).
-/
import XC.Model.C37
namespace XC.C37

/-! ## list helpers -/

theorem getLst_updLst (ls : List Lst) (lid lid' : Nat) (g : Lst → Lst) (hg : ∀ l, (g l).id = l.id) :
    getLst (updLst ls lid g) lid' = (getLst ls lid').map (fun l => if l.id = lid then g l else l) := by
  induction ls with
  | nil => simp [getLst, updLst]
  | cons a t ih =>
    simp only [updLst, List.map_cons] at ih ⊢
    have hid : (if a.id = lid then g a else a).id = a.id := by
      split
      · exact hg a
      · rfl
    unfold getLst
    rw [hid]
    by_cases h2 : a.id = lid'
    · simp [h2]
    · simp [h2, ih]

theorem getLst_append_single (ls : List Lst) (x : Lst) (lid : Nat) :
    getLst (ls ++ [x]) lid =
      match getLst ls lid with
      | some l => some l
      | none => if x.id = lid then some x else none := by
  induction ls with
  | nil => simp [getLst]
  | cons a t ih =>
    by_cases h : a.id = lid
    · simp [getLst, h]
    · simp [getLst, h, ih]

theorem getLst_id {ls : List Lst} {lid : Nat} {l : Lst} (h : getLst ls lid = some l) : l.id = lid := by
  induction ls with
  | nil => simp [getLst] at h
  | cons a t ih =>
    by_cases h1 : a.id = lid
    · simp [getLst, h1] at h; subst h; exact h1
    · simp [getLst, h1] at h; exact ih h

theorem findEntry_mem {es : List (Key × Nat)} {k : Key} {v : Nat} (h : findEntry es k = some v) :
    (k, v) ∈ es := by
  induction es with
  | nil => simp [findEntry] at h
  | cons a t ih =>
    obtain ⟨k', lid⟩ := a
    by_cases h1 : k' = k
    · simp [findEntry, h1] at h; subst h; subst h1; simp
    · simp [findEntry, h1] at h; exact List.mem_cons_of_mem _ (ih h)

theorem findEntry_none {es : List (Key × Nat)} {k : Key} (h : findEntry es k = none) :
    ∀ lid, (k, lid) ∉ es := by
  induction es with
  | nil => simp
  | cons a t ih =>
    obtain ⟨k', lid'⟩ := a
    by_cases h1 : k' = k
    · simp [findEntry, h1] at h
    · simp [findEntry, h1] at h
      intro lid hm
      rcases List.mem_cons.mp hm with heq | hm
      · exact h1 (by cases heq; rfl)
      · exact ih h lid hm

theorem removeFirst_mem {es : List (Key × Nat)} {k : Key} {x : Key × Nat} (h : x ∈ removeFirst es k) :
    x ∈ es := by
  induction es with
  | nil => simp [removeFirst] at h
  | cons a t ih =>
    obtain ⟨k', lid⟩ := a
    by_cases h1 : k' = k
    · simp [removeFirst, h1] at h; exact List.mem_cons_of_mem _ h
    · simp [removeFirst, h1] at h
      rcases h with h | h
      · subst h; simp
      · exact List.mem_cons_of_mem _ (ih h)

theorem removeFirst_nodup {es : List (Key × Nat)} {k : Key} (h : (es.map (·.2)).Nodup) :
    ((removeFirst es k).map (·.2)).Nodup := by
  induction es with
  | nil => simp [removeFirst]
  | cons a t ih =>
    obtain ⟨k', lid⟩ := a
    simp only [List.map_cons, List.nodup_cons] at h
    by_cases h1 : k' = k
    · simp [removeFirst, h1]; exact h.2
    · simp only [removeFirst, h1, if_false, List.map_cons, List.nodup_cons]
      refine ⟨?_, ih h.2⟩
      intro hm
      apply h.1
      obtain ⟨x, hx, hx2⟩ := List.mem_map.mp hm
      exact List.mem_map.mpr ⟨x, removeFirst_mem hx, hx2⟩

/-- the victim of `remove` (first entry with the key) is not among the remaining entries (ids distinct) -/
theorem removeFirst_victim {es : List (Key × Nat)} {k : Key} {v : Nat} (hn : (es.map (·.2)).Nodup)
    (hf : findEntry es k = some v) : ∀ x ∈ removeFirst es k, x.2 ≠ v := by
  induction es with
  | nil => simp [findEntry] at hf
  | cons a t ih =>
    obtain ⟨k', lid⟩ := a
    simp only [List.map_cons, List.nodup_cons] at hn
    by_cases h1 : k' = k
    · simp [findEntry, h1] at hf
      subst hf
      simp only [removeFirst, h1, if_true]
      intro x hx heq
      exact hn.1 (List.mem_map.mpr ⟨x, hx, heq⟩)
    · simp [findEntry, h1] at hf
      simp only [removeFirst, h1, if_false]
      intro x hx
      rcases List.mem_cons.mp hx with hx | hx
      · subst hx
        intro heq
        simp at heq
        subst heq
        exact hn.1 (List.mem_map.mpr ⟨(k, lid), findEntry_mem hf, rfl⟩)
      · exact ih hn.2 hf x hx

/-! ## handler get/set -/

@[simp] theorem setH_h_same (s : State) (n : Net) (h : Handler) : (s.setH n h).h n = h := by
  cases n <;> rfl
theorem setH_h_other (s : State) (n m : Net) (h : Handler) (hne : m ≠ n) : (s.setH n h).h m = s.h m := by
  cases n <;> cases m <;> simp_all [State.setH, State.h]
@[simp] theorem setH_entries (s : State) (n : Net) (h : Handler) : (s.setH n h).entries = s.entries := by
  cases n <;> rfl
@[simp] theorem setH_lsts (s : State) (n : Net) (h : Handler) : (s.setH n h).lsts = s.lsts := by
  cases n <;> rfl
@[simp] theorem setH_log (s : State) (n : Net) (h : Handler) : (s.setH n h).log = s.log := by
  cases n <;> rfl
@[simp] theorem setH_alive (s : State) (n : Net) (h : Handler) : (s.setH n h).alive = s.alive := by
  cases n <;> rfl
@[simp] theorem setH_acceptors (s : State) (n : Net) (h : Handler) : (s.setH n h).acceptors = s.acceptors := by
  cases n <;> rfl
@[simp] theorem setH_closers (s : State) (n : Net) (h : Handler) : (s.setH n h).closers = s.closers := by
  cases n <;> rfl
@[simp] theorem setH_adders (s : State) (n : Net) (h : Handler) : (s.setH n h).adders = s.adders := by
  cases n <;> rfl

theorem locked_of_pc {s : State} {n : Net} {x : Fwd × Nat} (h : (s.h n).pc = some x) : locked s = true := by
  cases n <;> simp_all [State.h, locked]

theorem pc_none_of_unlocked {s : State} (h : locked s = false) (n : Net) : (s.h n).pc = none := by
  cases n <;> simp_all [State.h, locked]

end XC.C37

namespace XC.C37

/-! ## the invariant -/

structure Inv (s : State) : Prop where
  /-- every registered entry points at an existing listener with that key whose Go channel is open -/
  entries_open : ∀ k lid, (k, lid) ∈ s.entries →
    ∃ l, getLst s.lsts lid = some l ∧ l.key = k ∧ l.closed = false
  /-- entries belong to distinct listeners -/
  entries_nodup : (s.entries.map (·.2)).Nodup
  /-- a parked handler is sending to a registered entry with the forward's own key -/
  pc_entry : ∀ n f lid, (s.h n).pc = some (f, lid) → (f.key, lid) ∈ s.entries
  /-- what sits in a listener's channel was addressed to exactly that listener's key -/
  buf_key : ∀ lid l f, getLst s.lsts lid = some l → l.buf = some f → f.key = l.key
  /-- no Go panic so far, and every accepted connection was addressed to the accepting listener's key -/
  log_ok : ∀ e ∈ s.log, e ≠ .panic ∧
    ∀ c lid f, e = .accept c lid (some f) → ∃ l, getLst s.lsts lid = some l ∧ l.key = f.key

theorem inv_init : Inv init := by
  constructor
  · simp [init]
  · simp [init]
  · intro n f lid
    cases n <;> simp [State.h, init]
  · simp [init, getLst]
  · simp [init]

/-- frame: a state that differs only in fields the invariant does not read -/
theorem Inv.frame {s t : State} (hi : Inv s) (he : t.entries = s.entries) (hl : t.lsts = s.lsts)
    (h1 : t.htcp.pc = s.htcp.pc) (h2 : t.hunix.pc = s.hunix.pc) (hlog : t.log = s.log) : Inv t := by
  constructor
  · rw [he, hl]; exact hi.entries_open
  · rw [he]; exact hi.entries_nodup
  · intro n f lid h
    rw [he]
    apply hi.pc_entry n f lid
    cases n <;> simp_all [State.h]
  · rw [hl]; exact hi.buf_key
  · rw [hlog, hl]; exact hi.log_ok

/-- adding a harmless event -/
theorem Inv.emit_ok {s : State} (hi : Inv s) (e : Ev) (hp : e ≠ .panic)
    (ha : ∀ c lid f, e = .accept c lid (some f) → ∃ l, getLst s.lsts lid = some l ∧ l.key = f.key) :
    Inv (emit s e) := by
  constructor
  · exact hi.entries_open
  · exact hi.entries_nodup
  · exact hi.pc_entry
  · exact hi.buf_key
  · intro e' he'
    simp only [emit, List.mem_cons] at he'
    rcases he' with rfl | he'
    · exact ⟨hp, ha⟩
    · exact hi.log_ok e' he'

theorem Inv.emitWire_ok {s : State} (hi : Inv s) (e : Ev) (hp : e ≠ .panic)
    (ha : ∀ c lid f, e ≠ .accept c lid (some f)) : Inv (emitWire s e) := by
  unfold emitWire
  split
  · exact hi.emit_ok e hp (fun c lid f h => absurd h (ha c lid f))
  · exact hi

end XC.C37

namespace XC.C37

/-- updating listener `lid`'s record by a function that keeps id and key; either it keeps `closed`
    (and whatever it buffers carries the listener's key) or the listener is not registered any more -/
theorem Inv.upd {s : State} (hi : Inv s) (lid : Nat) (g : Lst → Lst)
    (hid : ∀ l, (g l).id = l.id) (hkey : ∀ l, (g l).key = l.key)
    (hclosed : (∀ l, (g l).closed = l.closed) ∨ (∀ k, (k, lid) ∉ s.entries))
    (hbuf : ∀ l f, getLst s.lsts lid = some l → (g l).buf = some f → f.key = l.key) :
    Inv { s with lsts := updLst s.lsts lid g } := by
  constructor
  · intro k lid' hm
    obtain ⟨l, hl, hk, hc⟩ := hi.entries_open k lid' hm
    simp only [getLst_updLst _ _ _ _ hid, hl, Option.map_some]
    refine ⟨_, rfl, ?_, ?_⟩
    · split <;> simp [hkey, hk]
    · split
      · rename_i heq
        rcases hclosed with h | h
        · rw [h]; exact hc
        · have : lid' = lid := by rw [← getLst_id hl]; exact heq
          subst this
          exact absurd hm (h k)
      · exact hc
  · exact hi.entries_nodup
  · exact hi.pc_entry
  · intro lid' l' f hl' hb
    simp only [getLst_updLst _ _ _ _ hid] at hl'
    cases hg : getLst s.lsts lid' with
    | none => simp [hg] at hl'
    | some l =>
      simp only [hg, Option.map_some, Option.some.injEq] at hl'
      by_cases heq : l.id = lid
      · simp only [heq, if_true] at hl'
        subst hl'
        have : lid' = lid := by rw [← getLst_id hg]; exact heq
        subst this
        rw [hkey]
        exact hbuf l f hg hb
      · simp only [heq, if_false] at hl'
        subst hl'
        exact hi.buf_key lid' _ f hg hb
  · intro e he
    obtain ⟨hp, ha⟩ := hi.log_ok e he
    refine ⟨hp, ?_⟩
    intro c lid' f hev
    obtain ⟨l, hl, hk⟩ := ha c lid' f hev
    simp only [getLst_updLst _ _ _ _ hid, hl, Option.map_some]
    refine ⟨_, rfl, ?_⟩
    split <;> simp [hkey, hk]

/-- `c <- f` into the open, registered channel of a listener with the forward's key -/
theorem Inv.putChan_ok {s : State} (hi : Inv s) {lid : Nat} {f : Fwd} (hm : (f.key, lid) ∈ s.entries) :
    Inv (putChan s lid f) := by
  obtain ⟨l, hl, hk, hc⟩ := hi.entries_open _ _ hm
  unfold putChan
  simp only [hl, hc]
  apply hi.upd lid _ (by simp) (by simp) (Or.inl (by simp))
  intro l' f' hl' hb
  simp at hb
  subst hb
  rw [hl] at hl'
  cases hl'
  exact hk.symm

/-- `close(c)` of an open channel whose entry has just been removed -/
theorem Inv.closeChan_ok {s : State} (hi : Inv s) {lid : Nat} (hopen : ∀ l, getLst s.lsts lid = some l → l.closed = false)
    (hnot : ∀ k, (k, lid) ∉ s.entries) : Inv (closeChan s lid) := by
  unfold closeChan
  cases hl : getLst s.lsts lid with
  | none => exact hi
  | some l =>
    simp only [hopen l hl]
    apply hi.upd lid _ (by simp) (by simp) (Or.inr hnot)
    intro l' f' hl' hb
    simp at hb
    rw [hl] at hl'
    cases hl'
    exact hi.buf_key lid l f' hl hb

end XC.C37

namespace XC.C37

theorem inv_listenCall {s s' : State} (hi : Inv s) (call : Nat) (key : Key) (deny : Bool)
    (h : next s (.listenCall call key deny) = some s') : Inv s' := by
  simp only [next] at h
  split at h
  · cases h
    exact (hi.frame (t := { s with started := true }) rfl rfl rfl rfl rfl).emit_ok _ (by simp) (by simp)
  · split at h
    · cases h
      exact (hi.frame (t := { s with started := true }) rfl rfl rfl rfl rfl).emit_ok _ (by simp) (by simp)
    · cases h
      exact hi.frame rfl rfl rfl rfl rfl

theorem inv_setH_queue {s : State} (hi : Inv s) (n : Net) (q : List Fwd) :
    Inv (s.setH n { s.h n with queue := q }) := by
  cases n <;> exact hi.frame rfl rfl rfl rfl rfl

theorem inv_fwdSend {s s' : State} (hi : Inv s) (f : Fwd) (h : next s (.fwdSend f) = some s') : Inv s' := by
  simp only [next] at h
  split at h
  · cases h
  · split at h
    · cases h
      exact hi.emitWire_ok _ (by simp) (by simp)
    · cases h
      exact inv_setH_queue hi _ _

theorem inv_acceptCall {s s' : State} (hi : Inv s) (c l : Nat) (h : next s (.acceptCall c l) = some s') : Inv s' := by
  simp only [next] at h
  split at h
  · cases h
  · cases h; exact hi.frame rfl rfl rfl rfl rfl

theorem inv_closeCall {s s' : State} (hi : Inv s) (c l : Nat) (b : Bool) (h : next s (.closeCall c l b) = some s') : Inv s' := by
  simp only [next] at h
  split at h
  · cases h
  · cases h; exact hi.frame rfl rfl rfl rfl rfl

theorem inv_disconnect {s s' : State} (hi : Inv s) (h : next s .disconnect = some s') : Inv s' := by
  simp only [next] at h
  split at h
  · cases h
  · cases h; exact hi.frame rfl rfl rfl rfl rfl

end XC.C37

namespace XC.C37

theorem getLst_append_of_some {ls : List Lst} {x : Lst} {lid : Nat} {l : Lst} (h : getLst ls lid = some l) :
    getLst (ls ++ [x]) lid = some l := by
  rw [getLst_append_single, h]

theorem inv_addRun {s s' : State} (hi : Inv s) (call : Nat) (h : next s (.addRun call) = some s') : Inv s' := by
  simp only [next] at h
  split at h
  · cases h
  · rename_i c key _
    split at h
    · cases h
    · rename_i hcond
      simp only [Bool.or_eq_true, not_or, Bool.not_eq_true, Option.isSome_eq_false_iff, Option.isNone_iff_eq_none] at hcond
      obtain ⟨hlock, hfresh⟩ := hcond
      cases h
      apply Inv.emit_ok _ _ (by simp) (by simp)
      constructor
      · intro k lid hm
        simp only [List.mem_append, List.mem_singleton, Prod.mk.injEq] at hm
        rcases hm with hm | ⟨rfl, rfl⟩
        · obtain ⟨l, hl, hk, hc⟩ := hi.entries_open k lid hm
          exact ⟨l, getLst_append_of_some hl, hk, hc⟩
        · refine ⟨⟨lid, k, none, false⟩, ?_, rfl, rfl⟩
          simp [getLst_append_single, hfresh]
      · simp only [List.map_append, List.map_cons, List.map_nil]
        rw [List.nodup_append]
        refine ⟨hi.entries_nodup, by simp, ?_⟩
        intro a ha b hb
        simp at hb
        subst hb
        obtain ⟨x, hx, rfl⟩ := List.mem_map.mp ha
        obtain ⟨l, hl, _, _⟩ := hi.entries_open x.1 x.2 hx
        intro heq
        rw [heq, hfresh] at hl
        cases hl
      · intro n f lid hpc
        have : (s.h n).pc = some (f, lid) := by cases n <;> exact hpc
        exact List.mem_append_left _ (hi.pc_entry n f lid this)
      · intro lid l f hl hb
        simp only [getLst_append_single] at hl
        cases hg : getLst s.lsts lid with
        | some l0 =>
          simp [hg] at hl; subst hl
          exact hi.buf_key lid _ f hg hb
        | none =>
          simp [hg] at hl
          obtain ⟨_, rfl⟩ := hl
          simp at hb
      · intro e he
        obtain ⟨hp, ha⟩ := hi.log_ok e he
        refine ⟨hp, ?_⟩
        intro c lid f hev
        obtain ⟨l, hl, hk⟩ := ha c lid f hev
        exact ⟨l, getLst_append_of_some hl, hk⟩

end XC.C37

namespace XC.C37

theorem inv_setH {s : State} (hi : Inv s) (n : Net) (h : Handler)
    (hpc : ∀ f lid, h.pc = some (f, lid) → (f.key, lid) ∈ s.entries) : Inv (s.setH n h) := by
  constructor
  · simpa using hi.entries_open
  · simpa using hi.entries_nodup
  · intro m f lid hm
    simp only [setH_entries]
    by_cases hmn : m = n
    · subst hmn
      simp at hm
      exact hpc f lid hm
    · rw [setH_h_other _ _ _ _ hmn] at hm
      exact hi.pc_entry m f lid hm
  · simpa using hi.buf_key
  · simpa using hi.log_ok

theorem inv_hTake {s s' : State} (hi : Inv s) (n : Net) (h : next s (.hTake n) = some s') : Inv s' := by
  simp only [next] at h
  split at h
  · cases h
  · cases h
  · rename_i f q hpc hq
    split at h
    · cases h
      exact (inv_setH hi n _ (by simp [hpc])).emitWire_ok _ (by simp) (by simp)
    · split at h
      · cases h
      · split at h
        · cases h
          exact (inv_setH hi n _ (by simp [hpc])).emitWire_ok _ (by simp) (by simp)
        · rename_i lid hfind
          split at h
          · cases h
          · rename_i l hl
            have hm := findEntry_mem hfind
            split at h
            · cases h
              apply Inv.putChan_ok (inv_setH hi n _ (by simp [hpc]))
              simpa using hm
            · cases h
              apply inv_setH hi n
              intro f' lid' heq
              simp at heq
              obtain ⟨rfl, rfl⟩ := heq
              exact hm

theorem inv_hSend {s s' : State} (hi : Inv s) (n : Net) (h : next s (.hSend n) = some s') : Inv s' := by
  simp only [next] at h
  split at h
  · cases h
  · rename_i f lid hpc
    have hm := hi.pc_entry n f lid hpc
    obtain ⟨l, hl, hk, hc⟩ := hi.entries_open _ _ hm
    simp only [hl, hc, Bool.false_eq_true, ↓reduceIte] at h
    split at h
    · cases h
      apply Inv.putChan_ok (inv_setH hi n _ (by simp))
      simpa using hm
    · cases h

end XC.C37

namespace XC.C37

theorem inv_accRun {s s' : State} (hi : Inv s) (call : Nat) (h : next s (.accRun call) = some s') : Inv s' := by
  simp only [next] at h
  split at h
  · cases h
  · rename_i c lid _
    split at h
    · cases h
    · rename_i l hl
      have hfr : Inv { s with acceptors := s.acceptors.filter (·.1 ≠ call) } := hi.frame rfl rfl rfl rfl rfl
      split at h
      · rename_i f hb
        have hk := hi.buf_key lid l f hl hb
        have hu : Inv { s with acceptors := s.acceptors.filter (·.1 ≠ call),
                               lsts := updLst s.lsts lid (fun l => { l with buf := none }) } :=
          hfr.upd lid _ (by simp) (by simp) (Or.inl (by simp)) (by simp)
        split at h
        · cases h
          apply Inv.emit_ok (Inv.emit_ok hu _ (by simp) (by simp)) _ (by simp)
          intro c' lid' f' heq
          simp at heq
          obtain ⟨_, rfl, rfl⟩ := heq
          simp only [emit, getLst_updLst s.lsts lid lid (fun l => { l with buf := none }) (by simp), hl, Option.map_some]
          refine ⟨_, rfl, ?_⟩
          split <;> simp [hk]
        · cases h
          exact Inv.emit_ok hu _ (by simp) (by simp)
      · split at h
        · cases h
          exact Inv.emit_ok hfr _ (by simp) (by simp)
        · cases h

/-- with the mutex free, the entry list may shrink to any duplicate-free sub-collection -/
theorem Inv.shrink {s : State} (hi : Inv s) (es : List (Key × Nat)) (hsub : ∀ x ∈ es, x ∈ s.entries)
    (hnd : (es.map (·.2)).Nodup) (hun : locked s = false) : Inv { s with entries := es } := by
  constructor
  · intro k lid hm; exact hi.entries_open k lid (hsub _ hm)
  · exact hnd
  · intro n f lid hpc
    have : (s.h n).pc = some (f, lid) := by cases n <;> exact hpc
    rw [pc_none_of_unlocked hun n] at this
    cases this
  · exact hi.buf_key
  · exact hi.log_ok

theorem closeChan_entries (s : State) (lid : Nat) (es : List (Key × Nat)) :
    closeChan { s with entries := es } lid = { closeChan s lid with entries := es } := by
  unfold closeChan
  simp only
  split
  · rfl
  · split <;> rfl

theorem closeChan_locked (s : State) (lid : Nat) : locked (closeChan s lid) = locked s := by
  unfold closeChan
  split
  · rfl
  · split <;> rfl

theorem inv_closeRun {s s' : State} (hi : Inv s) (call : Nat) (h : next s (.closeRun call) = some s') : Inv s' := by
  simp only [next] at h
  split at h
  · cases h
  · rename_i c lid cancelOk _
    split at h
    · cases h
    · rename_i l hl
      split at h
      · cases h
      · rename_i hun
        simp only [Bool.not_eq_true] at hun
        cases h
        apply Inv.emit_ok _ _ (by simp) (by simp)
        have hfr : Inv { s with closers := s.closers.filter (·.1 ≠ call) } := hi.frame rfl rfl rfl rfl rfl
        split
        · exact hfr
        · rename_i victim hfind
          have hm := findEntry_mem hfind
          obtain ⟨lv, hlv, _, hcv⟩ := hi.entries_open _ _ hm
          have hsh : Inv { s with closers := s.closers.filter (·.1 ≠ call), entries := removeFirst s.entries l.key } :=
            Inv.shrink hfr _ (fun x hx => removeFirst_mem hx) (removeFirst_nodup hi.entries_nodup) hun
          apply Inv.closeChan_ok hsh
          · intro l' hl'
            simp only at hl'
            rw [hlv] at hl'
            cases hl'
            exact hcv
          · intro k hk
            exact removeFirst_victim hi.entries_nodup hfind _ hk rfl

theorem inv_closeAllChans (s : State) (es : List (Key × Nat)) (hi : Inv { s with entries := es })
    (hun : locked s = false) : Inv { closeAllChans s es with entries := [] } := by
  induction es generalizing s with
  | nil => simpa [closeAllChans] using hi
  | cons a rest ih =>
    obtain ⟨k, lid⟩ := a
    simp only [closeAllChans]
    apply ih
    · rw [← closeChan_entries]
      have hnd := hi.entries_nodup
      simp only [List.map_cons, List.nodup_cons] at hnd
      have hsh : Inv { s with entries := rest } := by
        have := Inv.shrink hi rest (fun x hx => List.mem_cons_of_mem _ hx) hnd.2 hun
        simpa using this
      obtain ⟨l, hl, _, hc⟩ := hi.entries_open k lid (by simp)
      apply Inv.closeChan_ok hsh
      · intro l' hl'
        simp only at hl' hl
        rw [hl] at hl'
        cases hl'
        exact hc
      · intro k' hk'
        exact hnd.1 (List.mem_map.mpr ⟨(k', lid), hk', rfl⟩)
    · rw [closeChan_locked]; exact hun

theorem inv_closeAllRun {s s' : State} (hi : Inv s) (h : next s .closeAllRun = some s') : Inv s' := by
  simp only [next] at h
  split at h
  · cases h
  · rename_i hc
    simp only [Bool.or_eq_true, not_or, Bool.not_eq_true, Bool.not_eq_eq_eq_not, Bool.not_true] at hc
    cases h
    have := inv_closeAllChans s s.entries (by simpa using hi) hc.2
    exact this.frame rfl rfl rfl rfl rfl

end XC.C37

namespace XC.C37

theorem inv_step {s s' : State} (a : Act) (hi : Inv s) (h : next s a = some s') : Inv s' := by
  cases a with
  | listenCall c k d => exact inv_listenCall hi c k d h
  | fwdSend f => exact inv_fwdSend hi f h
  | acceptCall c l => exact inv_acceptCall hi c l h
  | closeCall c l b => exact inv_closeCall hi c l b h
  | disconnect => exact inv_disconnect hi h
  | addRun c => exact inv_addRun hi c h
  | hTake n => exact inv_hTake hi n h
  | hSend n => exact inv_hSend hi n h
  | accRun c => exact inv_accRun hi c h
  | closeRun c => exact inv_closeRun hi c h
  | closeAllRun => exact inv_closeAllRun hi h

theorem inv_reachable {s : State} (h : Reachable s) : Inv s :=
  invariant_of_step Inv inv_init (fun _ a _ hi hs => inv_step a hi hs) s h

end XC.C37
